import Gp.Model.Layers.Ip4
import Gp.Lemmas.SBuf
/-
  Helper lemmas for engine `lip4`, part 2: SerializeTo.

  A window is the part `W` (length `n`) of the serialize buffer's array that PrependBytes
  returned; `post` is everything behind it (old contents, spare capacity).  Every store of
  SerializeTo is shown to stay inside `W`, and the final `W` is `hdrBytes` of the mutated layer.
-/
namespace Gp.Ip4
open Gp Gp.SBuf

/-! ## Stores through the window -/

theorem splice_append (W post : Bytes) (o : Nat) (vs : Bytes) (h : o + vs.length ≤ W.length) :
    Sl.splice (W ++ post) o vs = Sl.splice W o vs ++ post := by
  unfold Sl.splice
  rw [List.take_append_of_le_length (by omega), List.drop_append_of_le_length (by omega)]
  simp [List.append_assoc]

theorem splice_length (W : Bytes) (o : Nat) (vs : Bytes) (h : o + vs.length ≤ W.length) :
    (Sl.splice W o vs).length = W.length := by
  simp [Sl.splice, List.length_take, List.length_drop]; omega

theorem set_win (W post : Bytes) (n i : Nat) (v : UInt8) (hn : W.length = n) (hi : i < n) :
    Sl.set ⟨W ++ post, n⟩ i v = .ok ⟨W.set i v ++ post, n⟩ := by
  simp [Sl.set, hi, List.set_append_left _ _ (by omega : i < W.length)]

theorem putBe16_win (W post : Bytes) (n o v : Nat) (hn : W.length = n) (ho : o + 2 ≤ n) :
    Sl.putBe16 ⟨W ++ post, n⟩ o v = .ok ⟨Sl.splice W o (Gp.putBe16 v) ++ post, n⟩ := by
  have h1 : o ≤ n := by omega
  have h2 : 1 < n - o := by omega
  simp only [Sl.putBe16, h1, h2, if_true]
  rw [splice_append _ _ _ _ (by simp [Gp.putBe16]; omega)]

theorem copyAt_win (W post : Bytes) (n a b : Nat) (src : Bytes) (hn : W.length = n) (hab : a ≤ b) (hb : b ≤ n) :
    Sl.copyAt ⟨W ++ post, n⟩ a b src = .ok ⟨Sl.splice W a (src.take (b - a)) ++ post, n⟩ := by
  have h1 : a ≤ b ∧ b ≤ (W ++ post).length := ⟨hab, by simp; omega⟩
  simp only [Sl.copyAt, h1, and_self, if_true]
  rw [splice_append _ _ _ _ (by simp [List.length_take]; omega)]

theorem clearFrom_win (W post : Bytes) (n a : Nat) (hn : W.length = n) (ha : a ≤ n) :
    Sl.clearFrom ⟨W ++ post, n⟩ a = .ok ⟨W.take a ++ List.replicate (n - a) 0 ++ post, n⟩ := by
  simp only [Sl.clearFrom, ha, if_true]
  rw [splice_append _ _ _ _ (by simp; omega)]
  simp only [Sl.splice, List.length_replicate]
  rw [List.drop_of_length_le (by omega)]
  simp

/-! ## The final bytes of the header -/

/-- An option SerializeTo accepts. -/
def optValid (o : Opt) : Prop :=
  o.typ % 256 = 0 ∨ o.typ % 256 = 1 ∨ (2 ≤ o.len % 256 ∧ o.data.length ≤ o.len % 256 - 2)

instance (o : Opt) : Decidable (optValid o) := by unfold optValid; exact inferInstance

/-- The bytes SerializeTo produces for one accepted option (short option data is followed
    by the zeros of the cleared option area). -/
def optBytes (o : Opt) : Bytes :=
  if o.typ % 256 = 0 then [0]
  else if o.typ % 256 = 1 then [1]
  else [u8 o.typ, u8 o.len] ++ o.data ++ List.replicate (o.len % 256 - 2 - o.data.length) 0

def optsBytes : List Opt → Bytes
  | [] => []
  | o :: os => optBytes o ++ optsBytes os

theorem optBytes_length (o : Opt) (h : optValid o) : (optBytes o).length = optSize o := by
  unfold optBytes optSize
  by_cases h0 : o.typ % 256 = 0
  · simp [h0]
  · by_cases h1 : o.typ % 256 = 1
    · simp [h1]
    · rcases h with h | h | ⟨h2, h3⟩
      · exact absurd h h0
      · exact absurd h h1
      · simp [h0, h1]; omega

theorem optsSize_cons (o : Opt) (os : List Opt) : optsSize (o :: os) = optSize o + optsSize os := by
  simp [optsSize]

theorem optsBytes_length (os : List Opt) (h : ∀ o ∈ os, optValid o) : (optsBytes os).length = optsSize os := by
  induction os with
  | nil => simp [optsBytes, optsSize]
  | cons o os ih =>
    simp only [optsBytes, List.length_append, optsSize_cons]
    rw [optBytes_length o (h o (by simp)), ih (fun o' ho' => h o' (by simp [ho']))]

/-! ## The option loop writes into the cleared (all-zero) option area -/

theorem splice_zeros (A vs : Bytes) (k : Nat) (_h : vs.length ≤ k) :
    Sl.splice (A ++ List.replicate k 0) A.length vs = A ++ vs ++ List.replicate (k - vs.length) 0 := by
  unfold Sl.splice
  rw [List.take_left' rfl, List.drop_append, List.drop_replicate, List.drop_of_length_le (by omega)]
  simp

theorem set_zeros (A : Bytes) (k : Nat) (v : UInt8) (h : 1 ≤ k) :
    (A ++ List.replicate k 0).set A.length v = A ++ [v] ++ List.replicate (k - 1) 0 := by
  obtain ⟨k', rfl⟩ : ∃ k', k = k' + 1 := ⟨k - 1, by omega⟩
  rw [List.set_append_right _ _ (Nat.le_refl _)]
  simp [List.replicate_succ]

theorem serOpts_cons_valid (o : Opt) (os : List Opt) (A post : Bytes) (n k : Nat)
    (hv : optValid o) (hfit : A.length + optSize o ≤ n) (hk : A.length + k = n) :
    serOpts true (o :: os) ⟨A ++ List.replicate k 0 ++ post, n⟩ A.length =
      serOpts true os ⟨(A ++ optBytes o) ++ List.replicate (k - optSize o) 0 ++ post, n⟩
        (A ++ optBytes o).length := by
  have hW : (A ++ List.replicate k (0 : UInt8)).length = n := by simp; omega
  rw [serOpts]
  unfold optBytes optSize
  unfold optSize at hfit
  by_cases h0 : o.typ % 256 = 0
  · simp only [h0, if_true] at hfit
    simp only [h0, if_true]
    rw [set_win (A ++ List.replicate k 0) post n _ _ hW (by omega), set_zeros _ _ _ (by omega)]
    simp
  · by_cases h1 : o.typ % 256 = 1
    · simp [h0, h1] at hfit
      rw [if_neg h0, if_pos h1, if_neg h0, if_pos h1,
        set_win (A ++ List.replicate k 0) post n _ _ hW (by omega), set_zeros _ _ _ (by omega)]
      simp [h0, h1]
    · rcases hv with hv | hv | ⟨h2, h3⟩
      · exact absurd hv h0
      · exact absurd hv h1
      · simp only [h0, h1, if_false] at hfit
        have c1 : ¬ (o.len % 256 < 2) := by omega
        have c2 : ¬ (o.data.length > (o.len % 256 - 2) % 256) := by omega
        simp only [h0, h1, c1, c2, if_false, if_true]
        rw [set_win (A ++ List.replicate k 0) post n _ _ hW (by omega), set_zeros _ _ _ (by omega)]
        have e1 : A ++ [u8 o.typ] ++ List.replicate (k - 1) (0 : UInt8) =
            (A ++ [u8 o.typ]) ++ List.replicate (k - 1) 0 := by simp
        have hW1 : ((A ++ [u8 o.typ]) ++ List.replicate (k - 1) (0 : UInt8)).length = n := by simp; omega
        have hc : A.length + 1 = (A ++ [u8 o.typ]).length := by simp
        simp only [Res.bind_ok]
        rw [e1, hc, set_win ((A ++ [u8 o.typ]) ++ List.replicate (k - 1) 0) post n _ _ hW1 (by simp; omega),
          set_zeros _ _ _ (by omega)]
        simp only [Res.bind_ok]
        have e2 : A ++ [u8 o.typ] ++ [u8 o.len] ++ List.replicate (k - 1 - 1) (0 : UInt8) =
            (A ++ [u8 o.typ, u8 o.len]) ++ List.replicate (k - 2) 0 := by
          simp; rfl
        have hW2 : ((A ++ [u8 o.typ, u8 o.len]) ++ List.replicate (k - 2) (0 : UInt8)).length = n := by
          simp; omega
        rw [e2, copyAt_win ((A ++ [u8 o.typ, u8 o.len]) ++ List.replicate (k - 2) 0) post n _ _ _ hW2
          (by first | omega | (simp; omega)) (by first | omega | (simp; omega))]
        simp only [Res.bind_ok]
        have ht : o.data.take (A.length + o.len % 256 - (A.length + 2)) = o.data := by
          apply List.take_of_length_le; omega
        have hc2 : A.length + 2 = (A ++ [u8 o.typ, u8 o.len]).length := by simp
        have hz : List.replicate (k - 2 - o.data.length) (0 : UInt8) =
            List.replicate (o.len % 256 - 2 - o.data.length) 0 ++ List.replicate (k - o.len % 256) 0 := by
          rw [List.replicate_append_replicate]; congr 1; omega
        rw [ht, hc2, splice_zeros _ _ _ (by omega), hz]
        have hcur : (A ++ [u8 o.typ, u8 o.len]).length - 2 + o.len % 256 =
            (A ++ ([u8 o.typ, u8 o.len] ++ o.data ++ List.replicate (o.len % 256 - 2 - o.data.length) 0)).length := by
          simp; omega
        simp only [List.length_append, List.length_cons, List.length_nil, Nat.zero_add, Nat.add_sub_cancel] at hcur ⊢
        rw [hcur]
        simp [List.append_assoc]

theorem serOpts_cons_invalid (o : Opt) (os : List Opt) (s : Sl) (cur : Nat) (hv : ¬ optValid o) :
    ∃ e, serOpts true (o :: os) s cur = .err e := by
  unfold optValid at hv
  have h0 : ¬ o.typ % 256 = 0 := fun h => hv (Or.inl h)
  have h1 : ¬ o.typ % 256 = 1 := fun h => hv (Or.inr (Or.inl h))
  have h2 : ¬ (2 ≤ o.len % 256 ∧ o.data.length ≤ o.len % 256 - 2) := fun h => hv (Or.inr (Or.inr h))
  rw [serOpts]
  simp only [h0, h1, if_false, if_true]
  by_cases c1 : o.len % 256 < 2
  · exact ⟨"optlen<2", by simp [c1]⟩
  · have c2 : o.data.length > (o.len % 256 - 2) % 256 := by omega
    exact ⟨"optdata", by simp [c1, c2]⟩

theorem serOpts_ok : ∀ (os : List Opt) (A post : Bytes) (n k : Nat),
    (∀ o ∈ os, optValid o) → A.length + optsSize os ≤ n → A.length + k = n →
    serOpts true os ⟨A ++ List.replicate k 0 ++ post, n⟩ A.length =
      .ok (⟨A ++ optsBytes os ++ List.replicate (k - optsSize os) 0 ++ post, n⟩, A.length + optsSize os) := by
  intro os
  induction os with
  | nil => intro A post n k _ _ _; simp [serOpts, optsBytes, optsSize]
  | cons o os ih =>
    intro A post n k hv hfit hk
    rw [optsSize_cons] at hfit
    have hvo := hv o (by simp)
    have hlen := optBytes_length o hvo
    rw [serOpts_cons_valid o os A post n k hvo (by omega) hk,
      ih (A ++ optBytes o) post n (k - optSize o) (fun o' ho' => hv o' (by simp [ho']))
        (by rw [List.length_append, hlen]; omega) (by rw [List.length_append, hlen]; omega)]
    simp only [optsBytes, optsSize_cons, List.length_append, hlen, List.append_assoc]
    have e1 : k - optSize o - optsSize os = k - (optSize o + optsSize os) := by omega
    have e2 : A.length + optSize o + optsSize os = A.length + (optSize o + optsSize os) := by omega
    rw [e1, e2]

theorem serOpts_err : ∀ (os : List Opt) (A post : Bytes) (n k : Nat),
    (¬ ∀ o ∈ os, optValid o) → A.length + optsSize os ≤ n → A.length + k = n →
    ∃ e, serOpts true os ⟨A ++ List.replicate k 0 ++ post, n⟩ A.length = .err e := by
  intro os
  induction os with
  | nil => intro A post n k h; exact absurd (by simp) h
  | cons o os ih =>
    intro A post n k hv hfit hk
    rw [optsSize_cons] at hfit
    by_cases hvo : optValid o
    · have hlen := optBytes_length o hvo
      rw [serOpts_cons_valid o os A post n k hvo (by omega) hk]
      apply ih (A ++ optBytes o) post n (k - optSize o)
      · intro h; apply hv; intro o' ho'
        rcases List.mem_cons.mp ho' with rfl | h'
        · exact hvo
        · exact h o' h'
      · rw [List.length_append, hlen]; omega
      · rw [List.length_append, hlen]; omega
    · exact serOpts_cons_invalid o os _ _ hvo

/-! ## The fixed part of the header -/

theorem exists_cons {α} (W : List α) (h : 0 < W.length) : ∃ a T, W = a :: T := by
  cases W with
  | nil => simp at h
  | cons a T => exact ⟨a, T, rfl⟩

theorem exists_cons4 {α} (W : List α) (h : W.length = 4) : ∃ a b c d, W = [a, b, c, d] := by
  match W, h with
  | [a, b, c, d], _ => exact ⟨a, b, c, d, rfl⟩

theorem exists_cons20 (W : Bytes) (h : 20 ≤ W.length) :
    ∃ (a0 a1 a2 a3 a4 a5 a6 a7 a8 a9 a10 a11 a12 a13 a14 a15 a16 a17 a18 a19 : UInt8) (T : Bytes), W = a0::a1::a2::a3::a4::a5::a6::a7::a8::a9::a10::a11::a12::a13::a14::a15::a16::a17::a18::a19::T ∧ T.length + 20 = W.length := by
  obtain ⟨a0, W1, rfl⟩ := exists_cons W (by omega)
  simp only [List.length_cons] at h
  obtain ⟨a1, W2, rfl⟩ := exists_cons W1 (by omega)
  simp only [List.length_cons] at h
  obtain ⟨a2, W3, rfl⟩ := exists_cons W2 (by omega)
  simp only [List.length_cons] at h
  obtain ⟨a3, W4, rfl⟩ := exists_cons W3 (by omega)
  simp only [List.length_cons] at h
  obtain ⟨a4, W5, rfl⟩ := exists_cons W4 (by omega)
  simp only [List.length_cons] at h
  obtain ⟨a5, W6, rfl⟩ := exists_cons W5 (by omega)
  simp only [List.length_cons] at h
  obtain ⟨a6, W7, rfl⟩ := exists_cons W6 (by omega)
  simp only [List.length_cons] at h
  obtain ⟨a7, W8, rfl⟩ := exists_cons W7 (by omega)
  simp only [List.length_cons] at h
  obtain ⟨a8, W9, rfl⟩ := exists_cons W8 (by omega)
  simp only [List.length_cons] at h
  obtain ⟨a9, W10, rfl⟩ := exists_cons W9 (by omega)
  simp only [List.length_cons] at h
  obtain ⟨a10, W11, rfl⟩ := exists_cons W10 (by omega)
  simp only [List.length_cons] at h
  obtain ⟨a11, W12, rfl⟩ := exists_cons W11 (by omega)
  simp only [List.length_cons] at h
  obtain ⟨a12, W13, rfl⟩ := exists_cons W12 (by omega)
  simp only [List.length_cons] at h
  obtain ⟨a13, W14, rfl⟩ := exists_cons W13 (by omega)
  simp only [List.length_cons] at h
  obtain ⟨a14, W15, rfl⟩ := exists_cons W14 (by omega)
  simp only [List.length_cons] at h
  obtain ⟨a15, W16, rfl⟩ := exists_cons W15 (by omega)
  simp only [List.length_cons] at h
  obtain ⟨a16, W17, rfl⟩ := exists_cons W16 (by omega)
  simp only [List.length_cons] at h
  obtain ⟨a17, W18, rfl⟩ := exists_cons W17 (by omega)
  simp only [List.length_cons] at h
  obtain ⟨a18, W19, rfl⟩ := exists_cons W18 (by omega)
  simp only [List.length_cons] at h
  obtain ⟨a19, W20, rfl⟩ := exists_cons W19 (by omega)
  simp only [List.length_cons] at h
  exact ⟨a0, a1, a2, a3, a4, a5, a6, a7, a8, a9, a10, a11, a12, a13, a14, a15, a16, a17, a18, a19, W20, rfl, by simp⟩

theorem hdr_chain (a0 a1 a2 a3 a4 a5 a6 a7 a8 a9 a10 a11 a12 a13 a14 a15 a16 a17 a18 a19 : UInt8)
    (T post : Bytes) (v0 v1 v8 v9 : UInt8) (x1 x2 x3 : Nat) (s0 s1 s2 s3 d0 d1 d2 d3 : UInt8) :
    (do let s ← Sl.set ⟨(a0::a1::a2::a3::a4::a5::a6::a7::a8::a9::a10::a11::a12::a13::a14::a15::a16::a17::a18::a19::T) ++ post, T.length + 20⟩ 0 v0
        let s ← s.set 1 v1
        let s ← s.putBe16 2 x1
        let s ← s.putBe16 4 x2
        let s ← s.putBe16 6 x3
        let s ← s.set 8 v8
        let s ← s.set 9 v9
        let s ← s.copyAt 12 16 [s0, s1, s2, s3]
        let s ← s.copyAt 16 20 [d0, d1, d2, d3]
        s.clearFrom 20) =
      .ok ⟨([v0, v1] ++ Gp.putBe16 x1 ++ Gp.putBe16 x2 ++ Gp.putBe16 x3 ++
              [v8, v9, a10, a11, s0, s1, s2, s3, d0, d1, d2, d3]) ++
            List.replicate T.length 0 ++ post, T.length + 20⟩ := by
  simp [Sl.set, Sl.putBe16, Sl.copyAt, Sl.clearFrom, Sl.splice, Gp.putBe16]
  rw [← List.drop_drop]
  simp

/-- The checksum part: the two checksum octets are the only bytes of the fixed header
    written after the options. -/
theorem csum_chain (h0 h1 h2 h3 h4 h5 h6 h7 h8 h9 h10 h11 : UInt8) (R post : Bytes) (c : Nat) :
    Sl.putBe16 ⟨(h0::h1::h2::h3::h4::h5::h6::h7::h8::h9::h10::h11::R) ++ post, R.length + 12⟩ 10 c =
      .ok ⟨(h0::h1::h2::h3::h4::h5::h6::h7::h8::h9::(Gp.putBe16 c ++ R)) ++ post, R.length + 12⟩ := by
  simp [Sl.putBe16, Sl.splice, Gp.putBe16]

theorem zero_chain (h0 h1 h2 h3 h4 h5 h6 h7 h8 h9 h10 h11 : UInt8) (R post : Bytes) :
    (do let s ← Sl.set ⟨(h0::h1::h2::h3::h4::h5::h6::h7::h8::h9::h10::h11::R) ++ post, R.length + 12⟩ 10 0
        s.set 11 0) =
      .ok ⟨(h0::h1::h2::h3::h4::h5::h6::h7::h8::h9::0::0::R) ++ post, R.length + 12⟩ := by
  simp [Sl.set]

theorem bytes_win (W post : Bytes) (n : Nat) (h : W.length = n) : Sl.bytes ⟨W ++ post, n⟩ = W := by
  simp [Sl.bytes, ← h]

/-! ## PrependBytes hands out a window; committing the stores -/

theorem prepend_window (b : SBuf) (n : Nat) (hb : C18.Inv b) :
    ∃ b1 w W0 post, prepend b n = (b1, w) ∧ w.n = n ∧ b1.mem.drop w.off = W0 ++ post ∧ W0.length = n ∧
      b1.len - b1.start = n + (contents b).length ∧
      (∀ W' : Bytes, W'.length = n →
        contents { b1 with mem := b1.mem.take w.off ++ (W' ++ post) } = W' ++ contents b ∧
        C18.Inv { b1 with mem := b1.mem.take w.off ++ (W' ++ post) }) := by
  have hinv := C18.inv_prepend' b n hb
  have hn : (prepend b n).2.n = n := rfl
  have hoff : (prepend b n).2.off = (prepend b n).1.start := rfl
  have hle := C18.prepend_start_len b n hb
  have hcl := C18.prepend_contents_length b n hb
  have hdrop := C18.prepend_contents_drop b n hb
  generalize hp : prepend b n = r at hinv hn hoff hle hcl hdrop
  obtain ⟨b1, w⟩ := r
  simp only at hinv hn hoff hle hcl hdrop
  have hclen := C18.contents_length b1 hinv
  obtain ⟨i1, i2, i3⟩ := hinv
  have harr : (b1.mem.drop w.off).length = b1.mem.length - b1.start := by simp [hoff]
  refine ⟨b1, w, (b1.mem.drop w.off).take n, (b1.mem.drop w.off).drop n, rfl, hn,
    (List.take_append_drop _ _).symm, ?_, by omega, ?_⟩
  · simp [List.length_take]; omega
  · intro W' hW'
    have hpost : ((b1.mem.drop w.off).drop n).take (b1.len - b1.start - n) = contents b := by
      rw [← hdrop]; simp only [contents]
      rw [List.drop_take, hoff]
    have htl : (b1.mem.take w.off).length = b1.start := by simp [hoff]; omega
    constructor
    · simp only [contents]
      rw [List.drop_left' htl, List.take_append, hW']
      rw [List.take_of_length_le (by omega), hpost]
      rfl
    · refine ⟨i1, ?_, ?_⟩
      · simp only [List.length_append, htl, hW', List.length_drop]; omega
      · simp only [List.length_append, htl, hW', List.length_drop]; omega

end Gp.Ip4
