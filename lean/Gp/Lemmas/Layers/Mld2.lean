import Gp.Model.Layers.Mld2
import Gp.Lemmas.Layers.Mld
/-
  Helper lemmas for engine `lmld2` (MLDv2 query / report codecs), part 1: decoding.  Core Lean only.

  Section 1 holds the *definitions* that occur in the statements of the property theorems (the
  functional specifications of the two DecodeFromBytes methods: pure functions of the visible bytes
  and — only where the Go code leaves a field alone — of the receiver); the rest is proof machinery.
-/
namespace Gp.Mld2
open Gp Gp.SBuf Gp.Mld Gp.Gen.Mld2

/-! ## 1. Definitions used in property statements -/

/-- The source-address loop on the visible bytes alone. -/
def srcLoopSpec (v : Bytes) (base : Nat) : Nat → Nat → Nat → List Bytes → (List Bytes × Bool × Nat)
  | 0, _, e, acc => (acc, false, e)
  | k + 1, i, _, acc =>
    if base + i * 16 + 16 > v.length then (acc, true, base + i * 16 + 16)
    else srcLoopSpec v base k (i + 1) (base + i * 16 + 16) (acc ++ [(v.drop (base + i * 16)).take 16])

/-- What the query's `DecodeFromBytes` computes from the visible bytes `v` and the receiver. -/
def queryDecSpec (old : Query) (v : Bytes) : DecOut Query :=
  if v.length < 24 then { layer := old, trunc := true, err := true }
  else
    let r := srcLoopSpec v 24 (u16At v 22) 0 24 []
    let l : Query :=
      { contents := old.contents, payload := old.payload, mrc := u16At v 0, addr := (v.drop 4).take 16,
        s := decide ((byteAt v 20).toNat &&& mldv2SMask = mldv2STrue),
        qrv := (byteAt v 20).toNat &&& mldv2QRVMask, qqic := (byteAt v 21).toNat,
        n := u16At v 22, srcs := r.1 }
    if r.2.1 then { layer := l, trunc := true, err := true }
    else { layer := { l with contents := v.take r.2.2, payload := v.drop r.2.2 }, trunc := false, err := false }

/-- `MLDv2MulticastAddressRecord.decode` on the visible bytes. -/
def recDecSpec (v : Bytes) : RecOut :=
  if v.length < 20 then { mar := Rec.fresh, read := 0, trunc := true, err := true }
  else
    let n := u16At v 2
    let lp := srcLoopSpec v 20 n 0 0 []
    let r : Rec := { typ := (byteAt v 0).toNat, auxLen := (byteAt v 1).toNat, n := n, addr := (v.drop 4).take 16,
                     srcs := lp.1, aux := [] }
    if lp.2.1 then { mar := r, read := lp.2.2 - 16, trunc := true, err := true }
    else
      let e1 := 20 + n * 16
      let tot := (byteAt v 1).toNat * 4 + e1
      if v.length < tot then { mar := r, read := e1, trunc := false, err := true }
      else { mar := { r with aux := (v.drop e1).take (tot - e1) }, read := tot, trunc := false, err := false }

/-- The record loop on the visible bytes. -/
def recLoopSpec (v : Bytes) : Nat → Nat → List Rec → (List Rec × Bool × Bool × Nat)
  | 0, begin_, acc => (acc, false, false, begin_)
  | k + 1, begin_, acc =>
    let o := recDecSpec (v.drop begin_)
    if o.err then (acc, o.trunc, true, begin_)
    else recLoopSpec v k (begin_ + o.read) (acc ++ [o.mar])

/-- What the report's `DecodeFromBytes` computes from the visible bytes and the receiver. -/
def reportDecSpec (old : Report) (v : Bytes) : DecOut Report :=
  if v.length < 4 then { layer := old, trunc := true, err := true }
  else
    let r := recLoopSpec v (u16At v 2) 4 []
    let l : Report := { contents := old.contents, payload := old.payload, nrec := u16At v 2, recs := r.1 }
    if r.2.2.1 then { layer := l, trunc := r.2.1, err := true }
    else { layer := { l with contents := v.take r.2.2.2, payload := v.drop r.2.2.2 }, trunc := false, err := false }

/-! ## 2. The loops -/

theorem srcLoop_spec (d : GSlice) (base : Nat) : ∀ (k i e : Nat) (acc : List Bytes),
    srcLoop d base k i e acc = .ok (srcLoopSpec d.vis base k i e acc) := by
  intro k
  induction k with
  | zero => intro i e acc; rfl
  | succ k ih =>
    intro i e acc
    unfold srcLoop srcLoopSpec
    simp only
    by_cases h : base + i * 16 + 16 > d.len
    · rw [if_pos h, if_pos (show base + i * 16 + 16 > d.vis.length from h)]
    · rw [if_neg h, if_neg (show ¬ base + i * 16 + 16 > d.vis.length from h)]
      rw [GSlice.slice_ok d _ _ (by omega) (by omega), Res.bind_ok]
      simp only [Nat.add_sub_cancel_left]
      exact ih _ _ _

/-- The final `end` of a successful loop is at most the length (when the initial value is). -/
theorem srcLoopSpec_end (v : Bytes) (base : Nat) : ∀ (k i e : Nat) (acc : List Bytes),
    e ≤ v.length → (srcLoopSpec v base k i e acc).2.1 = false →
    (srcLoopSpec v base k i e acc).2.2 ≤ v.length := by
  intro k
  induction k with
  | zero => intro i e acc he _; exact he
  | succ k ih =>
    intro i e acc _ hok
    unfold srcLoopSpec at hok ⊢
    by_cases h : base + i * 16 + 16 > v.length
    · rw [if_pos h] at hok; cases hok
    · rw [if_neg h] at hok ⊢
      exact ih _ _ _ (by omega) hok

/-- The final `end` of a successful loop that starts at `e = base + i*16`. -/
theorem srcLoopSpec_end_eq (v : Bytes) (base : Nat) : ∀ (k i e : Nat) (acc : List Bytes),
    e = base + i * 16 → (srcLoopSpec v base k i e acc).2.1 = false →
    (srcLoopSpec v base k i e acc).2.2 = base + (i + k) * 16 := by
  intro k
  induction k with
  | zero => intro i e acc he _; simpa [srcLoopSpec] using he
  | succ k ih =>
    intro i e acc _ hok
    unfold srcLoopSpec at hok ⊢
    by_cases h : base + i * 16 + 16 > v.length
    · rw [if_pos h] at hok; cases hok
    · rw [if_neg h] at hok ⊢
      rw [ih _ _ _ (by omega) hok]; omega

/-! ## 3. Query -/

theorem Query.decode_spec (old : Query) (d : GSlice) :
    old.decodeFromBytes d = .ok (queryDecSpec old d.vis) := by
  unfold Query.decodeFromBytes queryDecSpec
  by_cases h : d.len < 24
  · rw [if_pos h, if_pos (show d.vis.length < 24 from h)]
  · have hl : 24 ≤ d.vis.length := by unfold GSlice.len at h; omega
    have hl' : 24 ≤ d.len := hl
    rw [if_neg h, if_neg (show ¬ d.vis.length < 24 from h)]
    rw [GSlice.slice_ok d 0 2 (by omega) (by omega), Res.bind_ok]
    simp only [Nat.sub_zero]
    rw [uint16_vis d.vis _ 0 (by omega), Res.bind_ok]
    rw [GSlice.slice_ok d 4 20 (by omega) (by omega), Res.bind_ok]
    rw [GSlice.index_ok d 20 (by omega), Res.bind_ok, Res.bind_ok]
    rw [GSlice.index_ok d 21 (by omega), Res.bind_ok]
    rw [GSlice.slice_ok d 22 24 (by omega) (by omega), Res.bind_ok]
    simp only [Nat.reduceSub]
    rw [uint16_vis d.vis _ 22 (by omega), Res.bind_ok]
    rw [srcLoop_spec, Res.bind_ok]
    by_cases he : (srcLoopSpec d.vis 24 (u16At d.vis 22) 0 24 []).2.1 = true
    · simp only [he, if_true, pure]
    · have he' : (srcLoopSpec d.vis 24 (u16At d.vis 22) 0 24 []).2.1 = false := by
        cases hh : (srcLoopSpec d.vis 24 (u16At d.vis 22) 0 24 []).2.1
        · rfl
        · exact absurd hh he
      have hend := srcLoopSpec_end d.vis 24 _ 0 24 [] (by omega) he'
      simp only [he', Bool.false_eq_true, if_false]
      rw [GSlice.slice_ok d 0 _ (by omega) hend, Res.bind_ok]
      rw [GSlice.sliceFrom_ok d _ hend, Res.bind_ok]
      simp only [List.drop_zero, Nat.sub_zero, pure]

/-! ## 4. Records and report -/

theorem Rec.decode_spec (d : GSlice) : Rec.decode d = .ok (recDecSpec d.vis) := by
  unfold Rec.decode recDecSpec
  by_cases h : d.len < 20
  · rw [if_pos h, if_pos (show d.vis.length < 20 from h)]
  · have hl : 20 ≤ d.vis.length := by unfold GSlice.len at h; omega
    have hl' : 20 ≤ d.len := hl
    rw [if_neg h, if_neg (show ¬ d.vis.length < 20 from h)]
    rw [GSlice.index_ok d 0 (by omega), Res.bind_ok, GSlice.index_ok d 1 (by omega), Res.bind_ok]
    rw [GSlice.slice_ok d 2 4 (by omega) (by omega), Res.bind_ok]
    simp only [Nat.reduceSub]
    rw [uint16_vis d.vis _ 2 (by omega), Res.bind_ok]
    rw [GSlice.slice_ok d 4 20 (by omega) (by omega), Res.bind_ok]
    simp only
    rw [srcLoop_spec, Res.bind_ok]
    by_cases he : (srcLoopSpec d.vis 20 (u16At d.vis 2) 0 0 []).2.1 = true
    · simp only [he, if_true, pure, Nat.reduceSub]
    · have he' : (srcLoopSpec d.vis 20 (u16At d.vis 2) 0 0 []).2.1 = false := by
        cases hh : (srcLoopSpec d.vis 20 (u16At d.vis 2) 0 0 []).2.1
        · rfl
        · exact absurd hh he
      simp only [he', Bool.false_eq_true, if_false, Nat.reduceSub]
      by_cases ht : d.len < (byteAt d.vis 1).toNat * 4 + (20 + u16At d.vis 2 * 16)
      · rw [if_pos ht, if_pos (show d.vis.length < _ from ht)]; rfl
      · rw [if_neg ht, if_neg (show ¬ d.vis.length < _ from ht)]
        rw [GSlice.slice_ok d _ _ (by omega) (by omega), Res.bind_ok]
        rfl

/-- A successfully decoded record consumed at least 20 and at most all of the bytes it was given. -/
theorem recDecSpec_read (v : Bytes) (h : (recDecSpec v).err = false) :
    20 ≤ (recDecSpec v).read ∧ (recDecSpec v).read ≤ v.length := by
  unfold recDecSpec at h ⊢
  by_cases h1 : v.length < 20
  · rw [if_pos h1] at h; cases h
  · rw [if_neg h1] at h ⊢
    simp only at h ⊢
    by_cases h2 : (srcLoopSpec v 20 (u16At v 2) 0 0 []).2.1 = true
    · rw [if_pos h2] at h; cases h
    · rw [if_neg h2] at h ⊢
      by_cases h3 : v.length < (byteAt v 1).toNat * 4 + (20 + u16At v 2 * 16)
      · rw [if_pos h3] at h; cases h
      · rw [if_neg h3]; simp only; omega

theorem recLoop_spec (d : GSlice) : ∀ (k begin_ : Nat) (acc : List Rec), begin_ ≤ d.len →
    recLoop d k begin_ acc = .ok (recLoopSpec d.vis k begin_ acc) := by
  intro k
  induction k with
  | zero => intro b acc _; rfl
  | succ k ih =>
    intro b acc hb
    unfold recLoop recLoopSpec
    rw [GSlice.sliceFrom_ok d b hb, Res.bind_ok, Rec.decode_spec, Res.bind_ok]
    simp only
    by_cases he : (recDecSpec (d.vis.drop b)).err = true
    · simp only [he, if_true, pure]
    · have he' : (recDecSpec (d.vis.drop b)).err = false := by
        cases hh : (recDecSpec (d.vis.drop b)).err
        · rfl
        · exact absurd hh he
      simp only [he', Bool.false_eq_true, if_false]
      have := (recDecSpec_read _ he').2
      rw [List.length_drop] at this
      exact ih _ _ (by unfold GSlice.len at hb ⊢; omega)

/-- `begin` stays inside the data. -/
theorem recLoopSpec_begin (v : Bytes) : ∀ (k begin_ : Nat) (acc : List Rec), begin_ ≤ v.length →
    (recLoopSpec v k begin_ acc).2.2.2 ≤ v.length := by
  intro k
  induction k with
  | zero => intro b acc hb; exact hb
  | succ k ih =>
    intro b acc hb
    unfold recLoopSpec
    simp only
    by_cases he : (recDecSpec (v.drop b)).err = true
    · simp only [he, if_true]; exact hb
    · have he' : (recDecSpec (v.drop b)).err = false := by
        cases hh : (recDecSpec (v.drop b)).err
        · rfl
        · exact absurd hh he
      simp only [he', Bool.false_eq_true, if_false]
      have := (recDecSpec_read _ he').2
      rw [List.length_drop] at this
      exact ih _ _ (by omega)

theorem Report.decode_spec (old : Report) (d : GSlice) :
    old.decodeFromBytes d = .ok (reportDecSpec old d.vis) := by
  unfold Report.decodeFromBytes reportDecSpec
  by_cases h : d.len < 4
  · rw [if_pos h, if_pos (show d.vis.length < 4 from h)]
  · have hl : 4 ≤ d.vis.length := by unfold GSlice.len at h; omega
    have hl' : 4 ≤ d.len := hl
    rw [if_neg h, if_neg (show ¬ d.vis.length < 4 from h)]
    rw [GSlice.slice_ok d 2 4 (by omega) (by omega), Res.bind_ok]
    simp only [Nat.reduceSub]
    rw [uint16_vis d.vis _ 2 (by omega), Res.bind_ok]
    rw [recLoop_spec d _ 4 [] hl', Res.bind_ok]
    by_cases he : (recLoopSpec d.vis (u16At d.vis 2) 4 []).2.2.1 = true
    · simp only [he, if_true, pure]
    · have he' : (recLoopSpec d.vis (u16At d.vis 2) 4 []).2.2.1 = false := by
        cases hh : (recLoopSpec d.vis (u16At d.vis 2) 4 []).2.2.1
        · rfl
        · exact absurd hh he
      have hend := recLoopSpec_begin d.vis (u16At d.vis 2) 4 [] hl
      simp only [he', Bool.false_eq_true, if_false]
      rw [GSlice.slice_ok d 0 _ (by omega) hend, Res.bind_ok]
      rw [GSlice.sliceFrom_ok d _ hend, Res.bind_ok]
      simp only [List.drop_zero, Nat.sub_zero, pure]

/-! ## 5. Facts about the specifications -/

theorem queryDecSpec_fresh (old : Query) (v : Bytes) (h : (queryDecSpec old v).err = false) :
    queryDecSpec old v = queryDecSpec Query.fresh v := by
  unfold queryDecSpec at h ⊢
  by_cases hl : v.length < 24
  · rw [if_pos hl] at h; cases h
  · rw [if_neg hl] at h ⊢
    rw [if_neg hl]
    simp only at h ⊢
    by_cases he : (srcLoopSpec v 24 (u16At v 22) 0 24 []).2.1 = true
    · rw [if_pos he] at h; cases h
    · rw [if_neg he, if_neg he]

theorem reportDecSpec_fresh (old : Report) (v : Bytes) (h : (reportDecSpec old v).err = false) :
    reportDecSpec old v = reportDecSpec Report.fresh v := by
  unfold reportDecSpec at h ⊢
  by_cases hl : v.length < 4
  · rw [if_pos hl] at h; cases h
  · rw [if_neg hl] at h ⊢
    rw [if_neg hl]
    simp only at h ⊢
    by_cases he : (recLoopSpec v (u16At v 2) 4 []).2.2.1 = true
    · rw [if_pos he] at h; cases h
    · rw [if_neg he, if_neg he]

/-- An error return leaves the protocol fields the code assigned before it and never touches
    Contents / Payload. -/
theorem queryDecSpec_err_base (old : Query) (v : Bytes) (h : (queryDecSpec old v).err = true) :
    (queryDecSpec old v).layer.contents = old.contents ∧ (queryDecSpec old v).layer.payload = old.payload := by
  unfold queryDecSpec at h ⊢
  by_cases hl : v.length < 24
  · rw [if_pos hl]; exact ⟨rfl, rfl⟩
  · rw [if_neg hl] at h ⊢
    simp only at h ⊢
    by_cases he : (srcLoopSpec v 24 (u16At v 22) 0 24 []).2.1 = true
    · rw [if_pos he]; exact ⟨rfl, rfl⟩
    · rw [if_neg he] at h; cases h

end Gp.Mld2
