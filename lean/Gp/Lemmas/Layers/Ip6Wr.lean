import Gp.Model.Layers.Ip6Ser
import Gp.Lemmas.Layers.Ip6
/-
  Stores into byte slices (`wr`, `cp`, `cpRange`, `zeroFrom`): length preservation, panic
  conditions, and the "write at the boundary of done ++ rest" forms.  Core Lean only.
-/
namespace Gp.Ip6
open Gp

/-! ## length preservation / no panic in range -/

theorem wr_ok (buf : Bytes) (i : Nat) (v : UInt8) (h : i < buf.length) :
    wr buf i v = .ok (buf.set i v) := by simp [wr, h]

theorem wr_length (buf buf' : Bytes) (i : Nat) (v : UInt8) (h : wr buf i v = .ok buf') :
    buf'.length = buf.length := by
  unfold wr at h
  split at h
  · cases h; simp
  · cases h

theorem cp_ok (buf : Bytes) (off : Nat) (src : Bytes) (h : off ≤ buf.length) :
    ∃ buf', cp buf off src = .ok buf' ∧ buf'.length = buf.length := by
  unfold cp
  rw [if_pos h]
  refine ⟨_, rfl, ?_⟩
  simp only [List.length_append, List.length_take, List.length_drop]
  omega

theorem cpRange_ok (buf : Bytes) (a b : Nat) (src : Bytes) (h : a ≤ b ∧ b ≤ buf.length) :
    ∃ buf', cpRange buf a b src = .ok buf' ∧ buf'.length = buf.length := by
  unfold cpRange
  rw [if_pos h]
  refine ⟨_, rfl, ?_⟩
  simp only [List.length_append, List.length_take, List.length_drop]
  omega

theorem zeroFrom_ok (buf : Bytes) (off : Nat) (h : off ≤ buf.length) :
    ∃ buf', zeroFrom buf off = .ok buf' ∧ buf'.length = buf.length := by
  unfold zeroFrom
  rw [if_pos h]
  refine ⟨_, rfl, ?_⟩
  simp only [List.length_append, List.length_take, List.length_replicate]
  omega

/-! ## writes at the boundary of `done ++ rest` -/

theorem wr_boundary (done : Bytes) (a : UInt8) (r : Bytes) (v : UInt8) :
    wr (done ++ a :: r) done.length v = .ok (done ++ v :: r) := by
  unfold wr
  rw [if_pos (by simp)]
  congr 1
  rw [List.set_append_right _ _ (Nat.le_refl _)]
  simp

theorem wr_boundary' (done : Bytes) (a : UInt8) (r : Bytes) (v : UInt8) (off : Nat)
    (h : off = done.length) : wr (done ++ a :: r) off v = .ok (done ++ v :: r) := by
  subst h; exact wr_boundary done a r v

theorem cp_boundary (done r src : Bytes) (off : Nat) (h : off = done.length) :
    cp (done ++ r) off src =
      .ok (done ++ src.take (min r.length src.length) ++ r.drop (min r.length src.length)) := by
  subst h
  unfold cp
  rw [if_pos (by simp)]
  have e : (done ++ r).length - done.length = r.length := by simp
  rw [e, List.take_left' rfl]
  dsimp only
  rw [List.drop_length_add_append]

theorem zeroFrom_boundary (done r : Bytes) (off : Nat) (h : off = done.length) :
    zeroFrom (done ++ r) off = .ok (done ++ List.replicate r.length 0) := by
  subst h
  unfold zeroFrom
  rw [if_pos (by simp), List.take_left' rfl]
  simp

end Gp.Ip6
