import Gp.Lemmas.Layers.Arp
/-
  Helper lemmas for engine `larp`, part 2: serialization over the C18 buffer model.  Core Lean only.

  Section 1 holds the *definitions* used in property statements (functional specifications of the
  three SerializeTo methods, the observable view `serView`); the rest is proof machinery.
-/
namespace Gp.Arp
open Gp Gp.SBuf Gp.C18 Gp.Gen.Arp

/-! ## 1. Definitions used in property statements -/

/-- Functional specification of a SerializeTo call: the receiver afterwards, whether an error was
    returned, and (when not) the bytes the buffer then holds. -/
structure SerSpec (L : Type) where
  layer : L
  err   : Bool
  bytes : Bytes
  deriving Repr, DecidableEq

/-- What a caller can observe of a SerializeTo call: the receiver afterwards, the error flag and,
    when no error was returned, the bytes in the buffer (`Bytes()`); not the buffer's internals. -/
def serView {L : Type} (r : Res (SerOut L)) : Res (SerSpec L) :=
  match r with
  | .ok o => .ok { layer := o.layer, err := o.err, bytes := if o.err then [] else SBuf.contents o.buf }
  | .err k => .err k
  | .panic k => .panic k

/-- The ARP receiver after the FixLengths assignments. -/
def arpFixed (l : ARP) (fix : Bool) : ARP :=
  if fix then { l with hwAddressSize := l.sourceHwAddress.length % 256,
                       protAddressSize := l.sourceProtAddress.length % 256 }
  else l

/-- The eight fixed header bytes `ARP.SerializeTo` writes. -/
def arpHeader (l : ARP) : Bytes :=
  putBe16 l.addrType ++ putBe16 l.protocol ++ [u8 l.hwAddressSize] ++ [u8 l.protAddressSize] ++
    putBe16 l.operation

/-- All bytes of the ARP layer: header, then the four address slices at their full lengths. -/
def arpEncode (l : ARP) : Bytes :=
  arpHeader l ++ [l.sourceHwAddress, l.sourceProtAddress, l.dstHwAddress, l.dstProtAddress].flatten

/-- What `ARP.SerializeTo` does, as a function of the layer, the payload already in the buffer and
    FixLengths (the second error return leaves HwAddressSize overwritten). -/
def arpSerSpec (l : ARP) (p : Bytes) (fix : Bool) : SerSpec ARP :=
  if fix = true ∧ l.sourceHwAddress.length ≠ l.dstHwAddress.length then { layer := l, err := true, bytes := [] }
  else if fix = true ∧ l.sourceProtAddress.length ≠ l.dstProtAddress.length then
    { layer := { l with hwAddressSize := l.sourceHwAddress.length % 256 }, err := true, bytes := [] }
  else { layer := arpFixed l fix, err := false, bytes := arpEncode (arpFixed l fix) ++ p }

def loSerSpec (l : Loopback) (p : Bytes) : SerSpec Loopback :=
  { layer := l, err := false, bytes := putLe32 l.family ++ p }

def erEncode (l : ERSPANII) : Bytes :=
  putBe16 (erspanWord1 l) ++ putBe16 (erspanWord2 l) ++ putBe32 (erspanWord3 l)

def erSerSpec (l : ERSPANII) (p : Bytes) : SerSpec ERSPANII :=
  { layer := l, err := false, bytes := erEncode l ++ p }

/-! ## 2. Writing a window front to back -/

/-- A store of `vs` through a current window positioned right behind the already written prefix `W`
    of the contents replaces the next `|vs|` bytes. -/
theorem fill_next (b : SBuf) (h : Inv b) (w : Win) (W R vs : Bytes)
    (hg : w.gen = b.gen) (ho : w.off = b.start + W.length) (hc : contents b = W ++ R)
    (hv : vs.length ≤ R.length) :
    contents (fill b w vs) = (W ++ vs) ++ R.drop vs.length ∧ Inv (fill b w vs) ∧
    (fill b w vs).start = b.start ∧ (fill b w vs).gen = b.gen := by
  have hcl := contents_length b h
  rw [hc, List.length_append] at hcl
  have h' := h
  obtain ⟨i1, i2, i3⟩ := h
  have h1 : b.start ≤ w.off := by omega
  have h2 : w.off + vs.length ≤ b.len := by omega
  refine ⟨?_, inv_fill' b w vs h' (by omega), (fill_fields b w vs).1, (fill_fields b w vs).2.2.2.1⟩
  rw [fill_contents b w vs h' hg h1 h2, hc]
  have : w.off - b.start = W.length := by omega
  rw [this, List.take_left' rfl, List.drop_length_add_append]

/-- The same for a single indexed store `w[i] = v`. -/
theorem write_next (b : SBuf) (h : Inv b) (w : Win) (i : Nat) (v : UInt8) (W R : Bytes)
    (hg : w.gen = b.gen) (hi : i < w.n) (ho : w.off + i = b.start + W.length)
    (hc : contents b = W ++ R) (hr : 1 ≤ R.length) :
    ∃ b', write b w i v = .ok b' ∧ contents b' = (W ++ [v]) ++ R.drop 1 ∧ Inv b' ∧
      b'.start = b.start ∧ b'.gen = b.gen := by
  refine ⟨_, write_current b w i v hg hi, ?_, inv_set b _ v h, rfl, rfl⟩
  rw [contents_set b (w.off + i) v (by omega), hc]
  have : w.off + i - b.start = W.length := by omega
  rw [this]
  cases R with
  | nil => simp at hr
  | cons r rs => simp

theorem putBe16_length (v : Nat) : (putBe16 v).length = 2 := rfl
theorem putBe32_length (v : Nat) : (putBe32 v).length = 4 := rfl
theorem putLe32_length (v : Nat) : (putLe32 v).length = 4 := rfl

/-- What is known about the buffer and the window right after `PrependBytes(n)`. -/
theorem prepend_facts (b : SBuf) (n : Nat) (h : Inv b) :
    Inv (prepend b n).1 ∧ (prepend b n).2.n = n ∧ (prepend b n).2.gen = (prepend b n).1.gen ∧
    (prepend b n).2.off = (prepend b n).1.start ∧
    (contents (prepend b n).1).length = n + (contents b).length ∧
    (contents (prepend b n).1).drop n = contents b :=
  ⟨inv_prepend' b n h, rfl, rfl, rfl, prepend_contents_length b n h, prepend_contents_drop b n h⟩

/-! ## 3. Loopback -/

theorem lo_serializeTo_refines (l : Loopback) (b : SBuf) (fix csum : Bool) (h : Inv b) :
    ∃ o, l.serializeTo b fix csum = .ok o ∧ Inv o.buf ∧ o.layer = l ∧ o.err = false ∧
      contents o.buf = putLe32 l.family ++ contents b := by
  unfold Loopback.serializeTo
  obtain ⟨hi1, hn, hgen, hoff, hlen, hdrop⟩ := prepend_facts b 4 h
  generalize prepend b 4 = r at hi1 hn hgen hoff hlen hdrop
  obtain ⟨b1, w⟩ := r
  simp only at hi1 hn hgen hoff hlen hdrop
  simp only [putUint32le, hn, Nat.lt_irrefl, if_false, Res.bind_ok, pure]
  obtain ⟨c, i, -, -⟩ := fill_next b1 hi1 w [] (contents b1) (putLe32 l.family) hgen (by simpa using hoff) rfl
    (by rw [putLe32_length]; omega)
  refine ⟨_, rfl, i, rfl, rfl, ?_⟩
  rw [c, putLe32_length, hdrop, List.nil_append]

theorem lo_serializeTo_no_panic (l : Loopback) (b : SBuf) (fix csum : Bool) (k : PanicKind) :
    l.serializeTo b fix csum ≠ .panic k := by
  unfold Loopback.serializeTo
  have hn : (prepend b 4).2.n = 4 := rfl
  generalize prepend b 4 = r at hn
  obtain ⟨b1, w⟩ := r
  simp only at hn
  simp only [putUint32le, hn, Nat.lt_irrefl, if_false, Res.bind_ok, pure]
  exact fun h => nomatch h

/-! ## 4. ERSPAN II -/

theorem er_serializeTo_refines (l : ERSPANII) (b : SBuf) (fix csum : Bool) (h : Inv b) :
    ∃ o, l.serializeTo b fix csum = .ok o ∧ Inv o.buf ∧ o.layer = l ∧ o.err = false ∧
      contents o.buf = erEncode l ++ contents b := by
  unfold ERSPANII.serializeTo
  obtain ⟨hi1, hn, hgen, hoff, hlen, hdrop⟩ := prepend_facts b 8 h
  generalize prepend b 8 = r at hi1 hn hgen hoff hlen hdrop
  obtain ⟨b1, w⟩ := r
  simp only at hi1 hn hgen hoff hlen hdrop
  have n1 : ¬ (8 < 2) := by omega
  have n2 : ¬ (8 - 2 < 2) := by omega
  have n3 : ¬ (8 - 4 < 4) := by omega
  have l1 : (2 : Nat) ≤ 8 := by omega
  have l2 : (4 : Nat) ≤ 8 := by omega
  simp only [putUint16, putUint32be, winFrom, hn, n1, n2, n3, l1, l2, if_false, if_true, Res.bind_ok, pure]
  obtain ⟨c1, i1, s1, g1⟩ := fill_next b1 hi1 w [] (contents b1) (putBe16 (erspanWord1 l)) hgen
    (by simpa using hoff) rfl (by rw [putBe16_length]; omega)
  rw [List.nil_append, putBe16_length] at c1
  obtain ⟨c2, i2, s2, g2⟩ := fill_next _ i1 { gen := w.gen, off := w.off + 2, n := 8 - 2 }
    (putBe16 (erspanWord1 l)) ((contents b1).drop 2) (putBe16 (erspanWord2 l))
    (by simp only; omega) (by simp only [putBe16_length]; omega) c1
    (by rw [putBe16_length, List.length_drop]; omega)
  rw [putBe16_length, List.drop_drop] at c2
  obtain ⟨c3, i3, -, -⟩ := fill_next _ i2 { gen := w.gen, off := w.off + 4, n := 8 - 4 }
    (putBe16 (erspanWord1 l) ++ putBe16 (erspanWord2 l)) ((contents b1).drop (2 + 2)) (putBe32 (erspanWord3 l))
    (by simp only; omega) (by simp only [List.length_append, putBe16_length]; omega) c2
    (by rw [putBe32_length, List.length_drop]; omega)
  rw [putBe32_length, List.drop_drop] at c3
  refine ⟨_, rfl, i3, rfl, rfl, ?_⟩
  rw [c3, hdrop]; rfl

theorem er_serializeTo_no_panic (l : ERSPANII) (b : SBuf) (fix csum : Bool) (k : PanicKind) :
    l.serializeTo b fix csum ≠ .panic k := by
  unfold ERSPANII.serializeTo
  have hn : (prepend b 8).2.n = 8 := rfl
  generalize prepend b 8 = r at hn
  obtain ⟨b1, w⟩ := r
  simp only at hn
  have n1 : ¬ (8 < 2) := by omega
  have n2 : ¬ (8 - 2 < 2) := by omega
  have n3 : ¬ (8 - 4 < 4) := by omega
  have l1 : (2 : Nat) ≤ 8 := by omega
  have l2 : (4 : Nat) ≤ 8 := by omega
  simp only [putUint16, putUint32be, winFrom, hn, n1, n2, n3, l1, l2, if_false, if_true, Res.bind_ok, pure]
  exact fun h => nomatch h

/-! ## 5. ARP -/

/-- The loop over the four address slices: every slice is copied in full, one behind the other. -/
theorem copyAddrs_spec (addrs : List Bytes) : ∀ (b : SBuf) (w : Win) (W R : Bytes), Inv b →
    w.gen = b.gen → w.off = b.start → contents b = W ++ R →
    w.n = W.length + addrs.flatten.length → addrs.flatten.length ≤ R.length →
    ∃ b', copyAddrs b w W.length addrs = .ok b' ∧ Inv b' ∧
      contents b' = W ++ addrs.flatten ++ R.drop addrs.flatten.length := by
  induction addrs with
  | nil =>
    intro b w W R h _ _ hc _ _
    exact ⟨b, rfl, h, by simp [hc]⟩
  | cons a rest ih =>
    intro b w W R h hg ho hc hn hr
    rw [List.flatten_cons, List.length_append] at hn hr
    unfold copyAddrs
    have hw : winFrom w W.length = .ok { gen := w.gen, off := w.off + W.length, n := w.n - W.length } := by
      unfold winFrom; rw [if_pos (by omega)]
    rw [hw, Res.bind_ok]
    have ht : a.take (w.n - W.length) = a := List.take_of_length_le (by omega)
    simp only [copyTo, ht]
    obtain ⟨c, i, s, g⟩ := fill_next b h { gen := w.gen, off := w.off + W.length, n := w.n - W.length } W R a
      hg (by simp only; omega) hc (by omega)
    have hlen : W.length + a.length = (W ++ a).length := by rw [List.length_append]
    rw [hlen]
    obtain ⟨b', hb', ib', cb'⟩ := ih _ w (W ++ a) (R.drop a.length) i (by rw [g]; exact hg) (by rw [s]; exact ho) c
      (by rw [List.length_append]; omega) (by rw [List.length_drop]; omega)
    refine ⟨b', hb', ib', ?_⟩
    rw [cb', List.flatten_cons, List.drop_drop, List.length_append]
    simp [List.append_assoc]

theorem copyAddrs_ok (addrs : List Bytes) : ∀ (b : SBuf) (w : Win) (start : Nat),
    start + addrs.flatten.length ≤ w.n → ∃ b', copyAddrs b w start addrs = .ok b' := by
  induction addrs with
  | nil => intro b w start _; exact ⟨b, rfl⟩
  | cons a rest ih =>
    intro b w start hn
    rw [List.flatten_cons, List.length_append] at hn
    unfold copyAddrs
    have hw : winFrom w start = .ok { gen := w.gen, off := w.off + start, n := w.n - start } := by
      unfold winFrom; rw [if_pos (by omega)]
    rw [hw, Res.bind_ok]
    exact ih _ w _ (by omega)

/-- arp.go:88-92: the five header stores behind `PrependBytes(size)` put exactly the 8 header bytes
    in front, for every buffer state. -/
theorem arp_header (b1 : SBuf) (w : Win) (h : Inv b1) (hg : w.gen = b1.gen) (ho : w.off = b1.start)
    (hn : 8 ≤ w.n) (hc : 8 ≤ (contents b1).length) (l : ARP) :
    ∃ w2 w6 b2 b3 b4 b5 b6, putUint16 b1 w l.addrType = .ok b2 ∧ winFrom w 2 = .ok w2 ∧
      putUint16 b2 w2 l.protocol = .ok b3 ∧ write b3 w 4 (u8 l.hwAddressSize) = .ok b4 ∧
      write b4 w 5 (u8 l.protAddressSize) = .ok b5 ∧ winFrom w 6 = .ok w6 ∧
      putUint16 b5 w6 l.operation = .ok b6 ∧ Inv b6 ∧ b6.start = b1.start ∧ b6.gen = b1.gen ∧
      contents b6 = arpHeader l ++ (contents b1).drop 8 := by
  have p1 : putUint16 b1 w l.addrType = .ok (fill b1 w (putBe16 l.addrType)) := by
    unfold putUint16; rw [if_neg (by omega)]
  obtain ⟨c1, i1, s1, g1⟩ := fill_next b1 h w [] (contents b1) (putBe16 l.addrType) hg (by simpa using ho) rfl
    (by rw [putBe16_length]; omega)
  rw [List.nil_append, putBe16_length] at c1
  have hw2 : winFrom w 2 = .ok { gen := w.gen, off := w.off + 2, n := w.n - 2 } := by
    unfold winFrom; rw [if_pos (by omega)]
  have p2 : putUint16 (fill b1 w (putBe16 l.addrType)) { gen := w.gen, off := w.off + 2, n := w.n - 2 } l.protocol
      = .ok (fill (fill b1 w (putBe16 l.addrType)) { gen := w.gen, off := w.off + 2, n := w.n - 2 } (putBe16 l.protocol)) := by
    unfold putUint16; rw [if_neg (by simp only; omega)]
  obtain ⟨c2, i2, s2, g2⟩ := fill_next _ i1 { gen := w.gen, off := w.off + 2, n := w.n - 2 }
    (putBe16 l.addrType) ((contents b1).drop 2) (putBe16 l.protocol)
    (by simp only; omega) (by simp only [putBe16_length]; omega) c1
    (by rw [putBe16_length, List.length_drop]; omega)
  rw [putBe16_length, List.drop_drop] at c2
  obtain ⟨b4, hb4, c4, i4, s4, g4⟩ := write_next _ i2 w 4 (u8 l.hwAddressSize)
    (putBe16 l.addrType ++ putBe16 l.protocol) ((contents b1).drop (2 + 2))
    (by omega) (by omega) (by simp only [List.length_append, putBe16_length]; omega) c2
    (by rw [List.length_drop]; omega)
  rw [List.drop_drop] at c4
  obtain ⟨b5, hb5, c5, i5, s5, g5⟩ := write_next b4 i4 w 5 (u8 l.protAddressSize)
    (putBe16 l.addrType ++ putBe16 l.protocol ++ [u8 l.hwAddressSize]) ((contents b1).drop (2 + 2 + 1))
    (by omega) (by omega) (by simp only [List.length_append, putBe16_length, List.length_singleton]; omega) c4
    (by rw [List.length_drop]; omega)
  rw [List.drop_drop] at c5
  have hw6 : winFrom w 6 = .ok { gen := w.gen, off := w.off + 6, n := w.n - 6 } := by
    unfold winFrom; rw [if_pos (by omega)]
  have p6 : putUint16 b5 { gen := w.gen, off := w.off + 6, n := w.n - 6 } l.operation
      = .ok (fill b5 { gen := w.gen, off := w.off + 6, n := w.n - 6 } (putBe16 l.operation)) := by
    unfold putUint16; rw [if_neg (by simp only; omega)]
  obtain ⟨c6, i6, s6, g6⟩ := fill_next b5 i5 { gen := w.gen, off := w.off + 6, n := w.n - 6 }
    (putBe16 l.addrType ++ putBe16 l.protocol ++ [u8 l.hwAddressSize] ++ [u8 l.protAddressSize])
    ((contents b1).drop (2 + 2 + 1 + 1)) (putBe16 l.operation)
    (by simp only; omega)
    (by simp only [List.length_append, putBe16_length, List.length_singleton]; omega) c5
    (by rw [putBe16_length, List.length_drop]; omega)
  rw [putBe16_length, List.drop_drop] at c6
  exact ⟨_, _, _, _, b4, b5, _, p1, hw2, p2, hb4, hb5, hw6, p6, i6, by omega, by omega, c6⟩

theorem arpHeader_length (l : ARP) : (arpHeader l).length = 8 := rfl

theorem arpFixed_addrs (l : ARP) (fix : Bool) :
    (arpFixed l fix).sourceHwAddress = l.sourceHwAddress ∧ (arpFixed l fix).sourceProtAddress = l.sourceProtAddress ∧
    (arpFixed l fix).dstHwAddress = l.dstHwAddress ∧ (arpFixed l fix).dstProtAddress = l.dstProtAddress ∧
    (arpFixed l fix).addrType = l.addrType ∧ (arpFixed l fix).protocol = l.protocol ∧
    (arpFixed l fix).operation = l.operation := by
  unfold arpFixed; cases fix <;> exact ⟨rfl, rfl, rfl, rfl, rfl, rfl, rfl⟩

/-- The stores of `ARP.SerializeTo` after the FixLengths block, on the layer `l'` they write. -/
def arpStores (l' : ARP) (b1 : SBuf) (w : Win) : Res (SerOut ARP) := do
  let b ← putUint16 b1 w l'.addrType
  let w2 ← winFrom w 2
  let b ← putUint16 b w2 l'.protocol
  let b ← write b w 4 (u8 l'.hwAddressSize)
  let b ← write b w 5 (u8 l'.protAddressSize)
  let w6 ← winFrom w 6
  let b ← putUint16 b w6 l'.operation
  let b ← copyAddrs b w 8 [l'.sourceHwAddress, l'.sourceProtAddress, l'.dstHwAddress, l'.dstProtAddress]
  pure { buf := b, layer := l', err := false }

/-- `ARP.serializeTo` = PrependBytes, the two FixLengths checks, then `arpStores`. -/
theorem arp_serializeTo_eq (l : ARP) (b : SBuf) (fix csum : Bool) :
    l.serializeTo b fix csum =
      (let size := 8 + l.sourceHwAddress.length + l.sourceProtAddress.length + l.dstHwAddress.length + l.dstProtAddress.length
       if fix = true ∧ l.sourceHwAddress.length ≠ l.dstHwAddress.length then
         .ok { buf := (prepend b size).1, layer := l, err := true }
       else if fix = true ∧ l.sourceProtAddress.length ≠ l.dstProtAddress.length then
         .ok { buf := (prepend b size).1, layer := { l with hwAddressSize := l.sourceHwAddress.length % 256 }, err := true }
       else arpStores (arpFixed l fix) (prepend b size).1 (prepend b size).2) := by
  unfold ARP.serializeTo arpStores arpFixed
  cases fix <;> simp

theorem arp_stores_refines (l' : ARP) (b : SBuf) (h : Inv b) :
    let size := 8 + l'.sourceHwAddress.length + l'.sourceProtAddress.length + l'.dstHwAddress.length + l'.dstProtAddress.length
    ∃ o, arpStores l' (prepend b size).1 (prepend b size).2 = .ok o ∧ Inv o.buf ∧ o.layer = l' ∧ o.err = false ∧
      contents o.buf = arpEncode l' ++ contents b := by
  intro size
  obtain ⟨hi1, hn, hgen, hoff, hlen, hdrop⟩ := prepend_facts b size h
  generalize prepend b size = r at hi1 hn hgen hoff hlen hdrop
  obtain ⟨b1, w⟩ := r
  simp only at hi1 hn hgen hoff hlen hdrop
  have hsz : size = 8 + [l'.sourceHwAddress, l'.sourceProtAddress, l'.dstHwAddress, l'.dstProtAddress].flatten.length := by
    simp [size]; omega
  obtain ⟨w2, w6, b2, b3, b4, b5, b6, e1, e2, e3, e4, e5, e6, e7, i6, s6, g6, c6⟩ :=
    arp_header b1 w hi1 hgen hoff (by omega) (by omega) l'
  unfold arpStores
  rw [e1, Res.bind_ok, e2, Res.bind_ok, e3, Res.bind_ok, e4, Res.bind_ok, e5, Res.bind_ok, e6, Res.bind_ok,
    e7, Res.bind_ok]
  obtain ⟨b', hb', ib', cb'⟩ := copyAddrs_spec
    [l'.sourceHwAddress, l'.sourceProtAddress, l'.dstHwAddress, l'.dstProtAddress] b6 w (arpHeader l')
    ((contents b1).drop 8) i6 (by rw [g6]; exact hgen) (by rw [s6]; exact hoff) c6
    (by rw [arpHeader_length, hn, hsz]) (by rw [List.length_drop]; omega)
  rw [arpHeader_length] at hb'
  rw [hb', Res.bind_ok]
  refine ⟨_, rfl, ib', rfl, rfl, ?_⟩
  simp only
  rw [cb', List.drop_drop, ← hsz, hdrop]; rfl

/-- Refinement: on every buffer satisfying the C18 invariant, `ARP.serializeTo` returns (never
    panics), with exactly the receiver / error / bytes of `arpSerSpec`. -/
theorem arp_serializeTo_refines (l : ARP) (b : SBuf) (fix csum : Bool) (h : Inv b) :
    ∃ o, l.serializeTo b fix csum = .ok o ∧ Inv o.buf ∧
      o.layer = (arpSerSpec l (SBuf.contents b) fix).layer ∧ o.err = (arpSerSpec l (SBuf.contents b) fix).err ∧
      ((arpSerSpec l (SBuf.contents b) fix).err = false →
        SBuf.contents o.buf = (arpSerSpec l (SBuf.contents b) fix).bytes) := by
  rw [arp_serializeTo_eq]
  unfold arpSerSpec
  simp only
  by_cases h1 : fix = true ∧ l.sourceHwAddress.length ≠ l.dstHwAddress.length
  · rw [if_pos h1, if_pos h1]
    exact ⟨_, rfl, inv_prepend' b _ h, rfl, rfl, fun hh => by cases hh⟩
  · rw [if_neg h1, if_neg h1]
    by_cases h2 : fix = true ∧ l.sourceProtAddress.length ≠ l.dstProtAddress.length
    · rw [if_pos h2, if_pos h2]
      exact ⟨_, rfl, inv_prepend' b _ h, rfl, rfl, fun hh => by cases hh⟩
    · rw [if_neg h2, if_neg h2]
      obtain ⟨a1, a2, a3, a4, -⟩ := arpFixed_addrs l fix
      have := arp_stores_refines (arpFixed l fix) b h
      simp only [a1, a2, a3, a4] at this
      obtain ⟨o, ho, io, lo, eo, co⟩ := this
      exact ⟨o, ho, io, lo, eo, fun _ => co⟩

theorem arp_stores_ok (l' : ARP) (b1 : SBuf) (w : Win)
    (hn : w.n = 8 + [l'.sourceHwAddress, l'.sourceProtAddress, l'.dstHwAddress, l'.dstProtAddress].flatten.length) :
    ∃ o, arpStores l' b1 w = .ok o := by
  unfold arpStores
  have n2 : ¬ (w.n < 2) := by omega
  have n22 : ¬ (w.n - 2 < 2) := by omega
  have n62 : ¬ (w.n - 6 < 2) := by omega
  have l2 : 2 ≤ w.n := by omega
  have l6 : 6 ≤ w.n := by omega
  have i4 : 4 < w.n := by omega
  have i5 : 5 < w.n := by omega
  simp only [putUint16, winFrom, write, n2, n22, n62, l2, l6, i4, i5, if_false, if_true, Res.bind_ok]
  -- the two `write`s: each is `.ok` whichever generation the window belongs to
  have hw : ∀ (bb : SBuf) (i : Nat) (v : UInt8) (k : SBuf → Res (SerOut ARP)),
      (∀ x, ∃ o, k x = .ok o) →
      ∃ o, ((if w.gen = bb.gen then Res.ok { bb with mem := bb.mem.set (w.off + i) v } else Res.ok bb) >>= k) = .ok o := by
    intro bb i v k hk
    split
    · exact hk _
    · exact hk _
  apply hw
  intro x
  apply hw
  intro y
  obtain ⟨b', hb'⟩ := copyAddrs_ok [l'.sourceHwAddress, l'.sourceProtAddress, l'.dstHwAddress, l'.dstProtAddress]
    (fill y { gen := w.gen, off := w.off + 6, n := w.n - 6 } (putBe16 l'.operation)) w 8 (by omega)
  rw [hb', Res.bind_ok]
  exact ⟨_, rfl⟩

/-- `ARP.SerializeTo` never panics: every field value, every option set, every buffer state. -/
theorem arp_serializeTo_ok (l : ARP) (b : SBuf) (fix csum : Bool) : ∃ o, l.serializeTo b fix csum = .ok o := by
  rw [arp_serializeTo_eq]
  simp only
  split
  · exact ⟨_, rfl⟩
  · split
    · exact ⟨_, rfl⟩
    · obtain ⟨a1, a2, a3, a4, -⟩ := arpFixed_addrs l fix
      apply arp_stores_ok
      rw [a1, a2, a3, a4]
      have : (prepend b (8 + l.sourceHwAddress.length + l.sourceProtAddress.length + l.dstHwAddress.length +
        l.dstProtAddress.length)).2.n = 8 + l.sourceHwAddress.length + l.sourceProtAddress.length +
          l.dstHwAddress.length + l.dstProtAddress.length := rfl
      rw [this]; simp; omega

theorem arp_serializeTo_no_panic (l : ARP) (b : SBuf) (fix csum : Bool) (k : PanicKind) :
    l.serializeTo b fix csum ≠ .panic k := by
  obtain ⟨o, ho⟩ := arp_serializeTo_ok l b fix csum
  rw [ho]; exact fun h => nomatch h

/-! ## 6. Observable view; spec-level laws -/

theorem arpSerSpec_err_bytes (l : ARP) (p : Bytes) (fix : Bool)
    (h : (arpSerSpec l p fix).err = true) : (arpSerSpec l p fix).bytes = [] := by
  unfold arpSerSpec at h ⊢
  split
  · rfl
  · split
    · rfl
    · rename_i h1 h2; rw [if_neg h1, if_neg h2] at h; cases h

theorem serView_of_refines {L : Type} (r : Res (SerOut L)) (s : SerSpec L)
    (hs : s.err = true → s.bytes = [])
    (h : ∃ o, r = .ok o ∧ o.layer = s.layer ∧ o.err = s.err ∧ (s.err = false → SBuf.contents o.buf = s.bytes)) :
    serView r = .ok s := by
  obtain ⟨o, ho, hl, he, hb⟩ := h
  rw [ho]
  unfold serView
  simp only
  congr 1
  cases s with
  | mk sl se sb =>
    simp only at hl he hb hs
    cases se
    · simp only [he, hl, hb rfl]; rfl
    · simp only [he, hl, hs rfl]; rfl

theorem arp_serView (l : ARP) (b : SBuf) (fix csum : Bool) (h : Inv b) :
    serView (l.serializeTo b fix csum) = .ok (arpSerSpec l (SBuf.contents b) fix) := by
  obtain ⟨o, ho, -, hl, he, hb⟩ := arp_serializeTo_refines l b fix csum h
  exact serView_of_refines _ _ (arpSerSpec_err_bytes l _ fix) ⟨o, ho, hl, he, hb⟩

theorem lo_serView (l : Loopback) (b : SBuf) (fix csum : Bool) (h : Inv b) :
    serView (l.serializeTo b fix csum) = .ok (loSerSpec l (SBuf.contents b)) := by
  obtain ⟨o, ho, -, hl, he, hb⟩ := lo_serializeTo_refines l b fix csum h
  exact serView_of_refines _ _ (fun hh => by cases hh) ⟨o, ho, hl, he, fun _ => hb⟩

theorem er_serView (l : ERSPANII) (b : SBuf) (fix csum : Bool) (h : Inv b) :
    serView (l.serializeTo b fix csum) = .ok (erSerSpec l (SBuf.contents b)) := by
  obtain ⟨o, ho, -, hl, he, hb⟩ := er_serializeTo_refines l b fix csum h
  exact serView_of_refines _ _ (fun hh => by cases hh) ⟨o, ho, hl, he, fun _ => hb⟩

theorem arpFixed_idem (l : ARP) (fix : Bool) : arpFixed (arpFixed l fix) fix = arpFixed l fix := by
  unfold arpFixed; cases fix <;> rfl

/-- Idempotence at the level of the specification, including both error returns. -/
theorem arpSerSpec_idem (l : ARP) (p : Bytes) (fix : Bool) :
    arpSerSpec (arpSerSpec l p fix).layer p fix = arpSerSpec l p fix := by
  unfold arpSerSpec
  by_cases h1 : fix = true ∧ l.sourceHwAddress.length ≠ l.dstHwAddress.length
  · simp only [if_pos h1]
  · by_cases h2 : fix = true ∧ l.sourceProtAddress.length ≠ l.dstProtAddress.length
    · simp only [if_neg h1, if_pos h2]
    · simp only [if_neg h1, if_neg h2]
      obtain ⟨a1, a2, a3, a4, -⟩ := arpFixed_addrs l fix
      simp only [a1, a2, a3, a4, if_neg h1, if_neg h2, arpFixed_idem]

end Gp.Arp
