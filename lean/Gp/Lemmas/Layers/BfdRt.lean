import Gp.Lemmas.Layers.BfdSer
/-
  Helper lemmas for engine `lbfd`, part 3: well-formedness, ≈, and decode ∘ encode.  Core Lean only.

  The definitions used in property statements are `keyedType`, `wfAuth`, `wfAuthOpt`, `wfBfd`,
  `BfdEquiv`, `bfdEncode`; the rest is proof machinery.
-/
namespace Gp.Bfd
open Gp Gp.SBuf Gp.C18 Gp.Gen.Bfd

theorem u8_toNat (n : Nat) : (u8 n).toNat = n % 256 := by simp [u8]

theorem be32_putBe32 (n : Nat) (h : n < 4294967296) :
    be32 (u8 (n / 16777216)) (u8 (n / 65536)) (u8 (n / 256)) (u8 n) = n := by
  unfold be32; rw [u8_toNat, u8_toNat, u8_toNat, u8_toNat]; omega

set_option maxRecDepth 100000 in
theorem byte0_bits : ∀ v, v < 8 → ∀ d, d < 32 →
    (((((v <<< 5) % 256) ||| (d % 256)) % 256) &&& 0xE0) >>> 5 = v ∧
    ((((v <<< 5) % 256) ||| (d % 256)) % 256) &&& 0x1F = d := by decide

set_option maxRecDepth 100000 in
theorem flag_bits : ∀ s, s < 4 → ∀ p f c a d m : Bool,
    let x := (((s <<< 6) % 256) ||| (bool2uint8 p <<< 5) ||| (bool2uint8 f <<< 4) ||| (bool2uint8 c <<< 3) |||
      (bool2uint8 a <<< 2) ||| (bool2uint8 d <<< 1) ||| bool2uint8 m) % 256
    (x &&& 0xC0) >>> 6 = s ∧ (x &&& 0x20 != 0) = p ∧ (x &&& 0x10 != 0) = f ∧ (x &&& 0x08 != 0) = c ∧
    (x &&& 0x04 != 0) = a ∧ (x &&& 0x02 != 0) = d ∧ (x &&& 0x01 != 0) = m := by decide

theorem hdr_bytes (l : BFD) (S : Bytes) :
    byteAt (bfdHeader l ++ S) 0 = u8 (byte0 l) ∧ byteAt (bfdHeader l ++ S) 1 = u8 (flagByte l) ∧
    byteAt (bfdHeader l ++ S) 2 = u8 l.detectMultiplier ∧ byteAt (bfdHeader l ++ S) 3 = u8 l.length ∧
    (bfdHeader l ++ S).drop 24 = S ∧ (bfdHeader l ++ S).length = 24 + S.length :=
  ⟨rfl, rfl, rfl, rfl, rfl, by simp [bfdHeader, putBe32]; omega⟩

theorem hdr_words (l : BFD) (S : Bytes) :
    u32At (bfdHeader l ++ S) 4 = be32 (u8 (l.myDiscriminator / 16777216)) (u8 (l.myDiscriminator / 65536)) (u8 (l.myDiscriminator / 256)) (u8 l.myDiscriminator) := rfl
/-! ## Definitions used in property statements -/

/-- The four keyed authentication types. -/
def keyedType (t : Nat) : Prop :=
  t = bfdAuthTypeKeyedMD5 ∨ t = bfdAuthTypeMeticulousKeyedMD5 ∨ t = bfdAuthTypeKeyedSHA1 ∨ t = bfdAuthTypeMeticulousKeyedSHA1

instance (t : Nat) : Decidable (keyedType t) := by unfold keyedType; infer_instance

def wfAuth (h : AuthHeader) : Prop :=
  h.authType < 256 ∧ h.keyID < 256 ∧ h.sequenceNumber < 4294967296 ∧
  (if h.authType = bfdAuthTypePassword then h.sequenceNumber = 0 ∧ h.data.length ≤ 228
   else if keyedType h.authType then h.data.length ≤ 223
   else h.sequenceNumber = 0 ∧ h.data = [])

instance (h : AuthHeader) : Decidable (wfAuth h) := by unfold wfAuth; infer_instance

def wfAuthOpt (present : Bool) : Option AuthHeader → Prop
  | none => True
  | some h => present = true ∧ wfAuth h

instance (p : Bool) (o : Option AuthHeader) : Decidable (wfAuthOpt p o) := by
  cases o <;> unfold wfAuthOpt <;> infer_instance

def wfBfd (l : BFD) : Prop :=
  l.version < 8 ∧ l.diagnostic < 32 ∧ l.state < 4 ∧ l.detectMultiplier < 256 ∧
  l.myDiscriminator < 4294967296 ∧ l.yourDiscriminator < 4294967296 ∧ l.desiredMinTxInterval < 4294967296 ∧
  l.requiredMinRxInterval < 4294967296 ∧ l.requiredMinEchoRxInterval < 4294967296 ∧
  wfAuthOpt l.authPresent l.authHeader

instance (l : BFD) : Decidable (wfBfd l) := by unfold wfBfd; infer_instance

def BfdEquiv (a b : BFD) : Prop :=
  a.version = b.version ∧ a.diagnostic = b.diagnostic ∧ a.state = b.state ∧ a.poll = b.poll ∧ a.final = b.final ∧
  a.controlPlaneIndependent = b.controlPlaneIndependent ∧ a.authPresent = b.authPresent ∧ a.demand = b.demand ∧
  a.multipoint = b.multipoint ∧ a.detectMultiplier = b.detectMultiplier ∧ a.myDiscriminator = b.myDiscriminator ∧
  a.yourDiscriminator = b.yourDiscriminator ∧ a.desiredMinTxInterval = b.desiredMinTxInterval ∧
  a.requiredMinRxInterval = b.requiredMinRxInterval ∧ a.requiredMinEchoRxInterval = b.requiredMinEchoRxInterval ∧
  a.authHeader = b.authHeader

instance (a b : BFD) : Decidable (BfdEquiv a b) := by unfold BfdEquiv; infer_instance

/-- The bytes of a layer on the wire (no payload). -/
def bfdEncode (l : BFD) : Bytes := bfdHeader l ++ bfdAuthSection l

theorem authBytes_length (h : AuthHeader) : (authBytes h).length = h.length := by
  unfold authBytes
  rcases authLength_cases h with ⟨t1, e⟩ | ⟨t1, t2, e⟩ | ⟨t1, t2, e⟩
  · rw [if_pos t1, e]; simp; omega
  · rw [if_neg t1, if_pos t2, e]; simp [putBe32]; omega
  · rw [if_neg t1, if_neg t2, e]; rfl

theorem bfd_length (l : BFD) : l.length = 24 + (bfdAuthSection l).length := by
  unfold BFD.length BFD.lengthWith bfdAuthSection
  cases l.authToWrite with
  | none => rfl
  | some h => simp only; rw [authBytes_length, minSize_eq]; rfl

/-- For a well-formed layer, what SerializeTo looks at is the header itself. -/
theorem wf_authToWrite (l : BFD) (hw : wfAuthOpt l.authPresent l.authHeader) : l.authToWrite = l.authHeader := by
  unfold BFD.authToWrite
  cases ha : l.authHeader with
  | none => simp
  | some h => rw [ha] at hw; rw [hw.1]; rfl

theorem hdr_fields (old l : BFD) (S : Bytes) (hw : wfBfd l) :
    ({ bfdHdr old (bfdHeader l ++ S) with authHeader := none } : BFD) =
      { l with contents := bfdHeader l ++ S, payload := [], authHeader := none } := by
  obtain ⟨w1, w2, w3, w4, w5, w6, w7, w8, w9, -⟩ := hw
  obtain ⟨b0, b1, b2, -, -, -⟩ := hdr_bytes l S
  have hv := byte0_bits l.version w1 l.diagnostic w2
  have hf := flag_bits l.state w3 l.poll l.final l.controlPlaneIndependent l.authPresent l.demand l.multipoint
  simp only at hf
  have e0 : (byteAt (bfdHeader l ++ S) 0).toNat = ((l.version <<< 5) % 256 ||| l.diagnostic % 256) % 256 := by
    rw [b0, u8_toNat]; rfl
  have e1 : (byteAt (bfdHeader l ++ S) 1).toNat = (((l.state <<< 6) % 256) ||| (bool2uint8 l.poll <<< 5) ||| (bool2uint8 l.final <<< 4) |||
      (bool2uint8 l.controlPlaneIndependent <<< 3) ||| (bool2uint8 l.authPresent <<< 2) ||| (bool2uint8 l.demand <<< 1) |||
      bool2uint8 l.multipoint) % 256 := by
    rw [b1, u8_toNat]; rfl
  have e2 : (byteAt (bfdHeader l ++ S) 2).toNat = l.detectMultiplier := by rw [b2, u8_toNat]; omega
  have m1 : u32At (bfdHeader l ++ S) 4 = l.myDiscriminator := be32_putBe32 _ w5
  have m2 : u32At (bfdHeader l ++ S) 8 = l.yourDiscriminator := be32_putBe32 _ w6
  have m3 : u32At (bfdHeader l ++ S) 12 = l.desiredMinTxInterval := be32_putBe32 _ w7
  have m4 : u32At (bfdHeader l ++ S) 16 = l.requiredMinRxInterval := be32_putBe32 _ w8
  have m5 : u32At (bfdHeader l ++ S) 20 = l.requiredMinEchoRxInterval := be32_putBe32 _ w9
  unfold bfdHdr
  simp only [e0, e1, e2, m1, m2, m3, m4, m5, hv.1, hv.2, hf.1, hf.2.1, hf.2.2.1, hf.2.2.2.1, hf.2.2.2.2.1, hf.2.2.2.2.2.1, hf.2.2.2.2.2.2]

/-- Decoding the authentication section written for a well-formed header gives the header back. -/
theorem auth_dec_enc (l0 : BFD) (h : AuthHeader) (hp : l0.authPresent = true) (hw : wfAuth h) :
    authSpec0 l0 (authBytes h) = { layer := { l0 with authHeader := some h }, trunc := false, err := false } := by
  obtain ⟨w1, w2, w3, w4⟩ := hw
  have hl := authBytes_length h
  have h3 := authLength_ge3 h
  unfold authSpec0
  rw [if_pos ⟨hp, by omega⟩]
  simp only
  have ety : ∀ x, (u8 h.authType).toNat = x ↔ h.authType = x := by
    intro x; rw [u8_toNat]; have : h.authType % 256 = h.authType := by omega
    rw [this]
  have eky : (u8 h.keyID).toNat = h.keyID := by rw [u8_toNat]; omega
  obtain ⟨ty, ky, sq, da⟩ := h
  simp only at w1 w2 w3 w4 ety eky hl h3
  unfold authBytes at *
  simp only at *
  by_cases t1 : ty = bfdAuthTypePassword
  · rw [if_pos t1] at w4 ⊢
    have b0 : byteAt ([u8 ty] ++ [u8 (AuthHeader.length ⟨ty, ky, sq, da⟩)] ++ [u8 ky] ++ da) 0 = u8 ty := rfl
    have b2 : byteAt ([u8 ty] ++ [u8 (AuthHeader.length ⟨ty, ky, sq, da⟩)] ++ [u8 ky] ++ da) 2 = u8 ky := rfl
    have dr : ([u8 ty] ++ [u8 (AuthHeader.length ⟨ty, ky, sq, da⟩)] ++ [u8 ky] ++ da).drop 3 = da := rfl
    rw [b0, b2, dr, eky, if_pos ((ety _).2 t1), ((ety ty).2 rfl), w4.1]
  · rw [if_neg t1] at w4 ⊢
    by_cases t2 : keyedType ty
    · have t2' : ty = bfdAuthTypeKeyedMD5 ∨ ty = bfdAuthTypeMeticulousKeyedMD5 ∨ ty = bfdAuthTypeKeyedSHA1 ∨ ty = bfdAuthTypeMeticulousKeyedSHA1 := t2
      rw [if_pos t2] at w4
      rw [if_pos t2']
      generalize hL : AuthHeader.length ⟨ty, ky, sq, da⟩ = L
      have b0 : byteAt ([u8 ty] ++ [u8 L] ++ [u8 ky] ++ [0] ++ putBe32 sq ++ da) 0 = u8 ty := rfl
      have b2 : byteAt ([u8 ty] ++ [u8 L] ++ [u8 ky] ++ [0] ++ putBe32 sq ++ da) 2 = u8 ky := rfl
      have dr : ([u8 ty] ++ [u8 L] ++ [u8 ky] ++ [0] ++ putBe32 sq ++ da).drop 3 = [0] ++ putBe32 sq ++ da := rfl
      rw [b0, b2, dr, eky, if_neg (fun x => t1 ((ety _).1 x)), ((ety ty).2 rfl)]
      have hk : keyedSpec l0 { authType := ty, keyID := ky, sequenceNumber := 0, data := [] } ([0] ++ putBe32 sq ++ da) =
          { layer := { l0 with authHeader := some { authType := ty, keyID := ky, sequenceNumber := sq, data := da } },
            trunc := false, err := false } := by
        unfold keyedSpec
        rw [if_neg (by simp [putBe32])]
        have s1 : u32At ([0] ++ putBe32 sq ++ da) 1 = sq := be32_putBe32 sq w3
        have s2 : ([0] ++ putBe32 sq ++ da).drop 5 = da := rfl
        rw [s1, s2]
      split
      · exact hk
      · split
        · exact hk
        · rename_i n1 n2
          rcases t2' with x | x | x | x
          · exact absurd (Or.inl x) n1
          · exact absurd (Or.inr x) n1
          · exact absurd (Or.inl x) n2
          · exact absurd (Or.inr x) n2
    · have t2' : ¬ (ty = bfdAuthTypeKeyedMD5 ∨ ty = bfdAuthTypeMeticulousKeyedMD5 ∨ ty = bfdAuthTypeKeyedSHA1 ∨ ty = bfdAuthTypeMeticulousKeyedSHA1) := t2
      rw [if_neg t2] at w4
      rw [if_neg t2']
      generalize hL : AuthHeader.length ⟨ty, ky, sq, da⟩ = L
      have b0 : byteAt ([u8 ty] ++ [u8 L] ++ [u8 ky]) 0 = u8 ty := rfl
      have b2 : byteAt ([u8 ty] ++ [u8 L] ++ [u8 ky]) 2 = u8 ky := rfl
      rw [b0, b2, eky, if_neg (fun x => t1 ((ety _).1 x)), ((ety ty).2 rfl)]
      have n1 : ¬ (ty = bfdAuthTypeKeyedMD5 ∨ ty = bfdAuthTypeMeticulousKeyedMD5) :=
        fun x => t2' (by cases x with | inl x => exact Or.inl x | inr x => exact Or.inr (Or.inl x))
      have n2 : ¬ (ty = bfdAuthTypeKeyedSHA1 ∨ ty = bfdAuthTypeMeticulousKeyedSHA1) :=
        fun x => t2' (by cases x with | inl x => exact Or.inr (Or.inr (Or.inl x)) | inr x => exact Or.inr (Or.inr (Or.inr x)))
      rw [if_neg n1, if_neg n2, w4.1, w4.2]

theorem wf_len_bound (l : BFD) (hw : wfBfd l) : 24 + (bfdAuthSection l).length ≤ 255 := by
  have ha := wf_authToWrite l hw.2.2.2.2.2.2.2.2.2
  have hw' := hw.2.2.2.2.2.2.2.2.2
  unfold bfdAuthSection
  rw [ha]
  cases hh : l.authHeader with
  | none => simp
  | some h =>
    rw [hh] at hw'
    obtain ⟨-, -, -, -, w4⟩ := hw'
    simp only
    rw [authBytes_length]
    rcases authLength_cases h with ⟨t1, e⟩ | ⟨t1, t2, e⟩ | ⟨t1, t2, e⟩
    · rw [if_pos t1] at w4; omega
    · rw [if_neg t1, if_pos (show keyedType h.authType from t2)] at w4; omega
    · omega

/-- decode ∘ encode on a well-formed layer: exactly the layer, with Contents = all bytes and no payload. -/
theorem dec_enc (old l : BFD) (hw : wfBfd l) :
    bfdDecSpec old (bfdEncode l) =
      { layer := { l with contents := bfdEncode l, payload := [] }, trunc := false, err := false } := by
  have hb := wf_len_bound l hw
  have hw' := hw.2.2.2.2.2.2.2.2.2
  have ha := wf_authToWrite l hw'
  unfold bfdEncode
  obtain ⟨-, -, -, b3, dr, ln⟩ := hdr_bytes l (bfdAuthSection l)
  unfold bfdDecSpec
  rw [if_neg (by rw [ln, b3, u8_toNat, bfd_length]; omega)]
  unfold authSpec
  rw [hdr_fields old l _ hw, dr]
  unfold bfdAuthSection at *
  rw [ha] at *
  cases hh : l.authHeader with
  | none =>
    simp only
    unfold authSpec0
    rw [if_neg (by simp)]
  | some h =>
    rw [hh] at hw'
    simp only
    have key := auth_dec_enc ({ l with contents := bfdHeader l ++ authBytes h, payload := [], authHeader := none }) h hw'.1 hw'.2
    rw [key]

set_option maxRecDepth 100000 in
theorem bits_lt : ∀ x, x < 256 → (x &&& 0xE0) >>> 5 < 8 ∧ x &&& 0x1F < 32 ∧ (x &&& 0xC0) >>> 6 < 4 := by decide

/-- The in-range facts about the mandatory section. -/
def wfBase (l : BFD) : Prop :=
  l.version < 8 ∧ l.diagnostic < 32 ∧ l.state < 4 ∧ l.detectMultiplier < 256 ∧
  l.myDiscriminator < 4294967296 ∧ l.yourDiscriminator < 4294967296 ∧ l.desiredMinTxInterval < 4294967296 ∧
  l.requiredMinRxInterval < 4294967296 ∧ l.requiredMinEchoRxInterval < 4294967296

theorem wfBfd_iff (l : BFD) : wfBfd l ↔ wfBase l ∧ wfAuthOpt l.authPresent l.authHeader := by
  unfold wfBfd wfBase
  constructor
  · rintro ⟨a1, a2, a3, a4, a5, a6, a7, a8, a9, a10⟩; exact ⟨⟨a1, a2, a3, a4, a5, a6, a7, a8, a9⟩, a10⟩
  · rintro ⟨⟨a1, a2, a3, a4, a5, a6, a7, a8, a9⟩, a10⟩; exact ⟨a1, a2, a3, a4, a5, a6, a7, a8, a9, a10⟩

theorem hdr_wfBase (old : BFD) (v : Bytes) : wfBase { bfdHdr old v with authHeader := none } := by
  have h0 := bits_lt (byteAt v 0).toNat (byteAt v 0).toNat_lt
  have h1 := bits_lt (byteAt v 1).toNat (byteAt v 1).toNat_lt
  exact ⟨h0.1, h0.2.1, h1.2.2, (byteAt v 2).toNat_lt, u32At_lt _ _, u32At_lt _ _, u32At_lt _ _, u32At_lt _ _, u32At_lt _ _⟩

theorem keyedSpec_wf (l0 : BFD) (ty ky : Nat) (w : Bytes) (hp : l0.authPresent = true) (hb : wfBase l0)
    (h1 : ty < 256) (h2 : ky < 256) (hk : keyedType ty) (hn : ty ≠ bfdAuthTypePassword) (hl : w.length ≤ 228)
    (he : (keyedSpec l0 { authType := ty, keyID := ky, sequenceNumber := 0, data := [] } w).err = false) :
    wfBfd (keyedSpec l0 { authType := ty, keyID := ky, sequenceNumber := 0, data := [] } w).layer := by
  unfold keyedSpec at he ⊢
  by_cases h5 : w.length < 5
  · rw [if_pos h5] at he; cases he
  · rw [if_neg h5]
    rw [wfBfd_iff]
    refine ⟨hb, hp, h1, h2, u32At_lt _ _, ?_⟩
    simp only
    rw [if_neg hn, if_pos hk, List.length_drop]; omega

theorem authSpec0_wf (l0 : BFD) (w : Bytes) (hb : wfBase l0) (hn : l0.authHeader = none) (hl : w.length ≤ 231)
    (he : (authSpec0 l0 w).err = false) : wfBfd (authSpec0 l0 w).layer := by
  unfold authSpec0 at he ⊢
  by_cases hc : l0.authPresent = true ∧ w.length > 2
  · rw [if_pos hc] at he ⊢
    simp only at he ⊢
    have t1 := (byteAt w 0).toNat_lt
    have t2 := (byteAt w 2).toNat_lt
    by_cases c1 : (byteAt w 0).toNat = bfdAuthTypePassword
    · rw [if_pos c1]
      rw [wfBfd_iff]
      refine ⟨hb, hc.1, t1, t2, (by simp only; omega), ?_⟩
      simp only
      rw [if_pos c1, List.length_drop]; exact ⟨trivial, by omega⟩
    · rw [if_neg c1] at he ⊢
      have hd : (w.drop 3).length ≤ 228 := by rw [List.length_drop]; omega
      by_cases c2 : (byteAt w 0).toNat = bfdAuthTypeKeyedMD5 ∨ (byteAt w 0).toNat = bfdAuthTypeMeticulousKeyedMD5
      · rw [if_pos c2] at he ⊢
        exact keyedSpec_wf l0 _ _ _ hc.1 hb t1 t2
          (by cases c2 with | inl x => exact Or.inl x | inr x => exact Or.inr (Or.inl x)) c1 hd he
      · rw [if_neg c2] at he ⊢
        by_cases c3 : (byteAt w 0).toNat = bfdAuthTypeKeyedSHA1 ∨ (byteAt w 0).toNat = bfdAuthTypeMeticulousKeyedSHA1
        · rw [if_pos c3] at he ⊢
          exact keyedSpec_wf l0 _ _ _ hc.1 hb t1 t2
            (by cases c3 with | inl x => exact Or.inr (Or.inr (Or.inl x)) | inr x => exact Or.inr (Or.inr (Or.inr x))) c1 hd he
        · rw [if_neg c3]
          rw [wfBfd_iff]
          refine ⟨hb, hc.1, t1, t2, (by simp only; omega), ?_⟩
          simp only
          have nk : ¬ keyedType (byteAt w 0).toNat := by
            intro x; rcases x with x | x | x | x
            · exact c2 (Or.inl x)
            · exact c2 (Or.inr x)
            · exact c3 (Or.inl x)
            · exact c3 (Or.inr x)
          rw [if_neg c1, if_neg nk]; exact ⟨trivial, trivial⟩
  · rw [if_neg hc]
    rw [wfBfd_iff]
    refine ⟨hb, ?_⟩
    simp only
    rw [hn]; trivial

/-- Every successfully decoded layer is well-formed. -/
theorem bfdDecSpec_wf (old : BFD) (v : Bytes) (he : (bfdDecSpec old v).err = false) : wfBfd (bfdDecSpec old v).layer := by
  unfold bfdDecSpec at he ⊢
  by_cases hm : v.length ≠ (byteAt v 3).toNat
  · rw [if_pos hm] at he; cases he
  · rw [if_neg hm] at he ⊢
    have := (byteAt v 3).toNat_lt
    exact authSpec0_wf _ _ (hdr_wfBase old v) rfl (by rw [List.length_drop]; omega) he

/-- Contents and Payload of the receiver play no role in what is written. -/
theorem bfdEncode_base_indep (l : BFD) (c p : Bytes) : bfdEncode { l with contents := c, payload := p } = bfdEncode l := rfl

theorem BfdEquiv_of_base (l : BFD) (c p : Bytes) : BfdEquiv { l with contents := c, payload := p } l :=
  ⟨rfl, rfl, rfl, rfl, rfl, rfl, rfl, rfl, rfl, rfl, rfl, rfl, rfl, rfl, rfl, rfl⟩

theorem bfdEncode_length (l : BFD) : (bfdEncode l).length = 24 + (bfdAuthSection l).length :=
  (hdr_bytes l (bfdAuthSection l)).2.2.2.2.2

/-- Over a non-empty payload `p` the bytes `header ++ p ++ section` of a well-formed layer do not
    decode: the Length byte (24 + section) no longer matches. -/
theorem dec_over_payload (old l : BFD) (p : Bytes) (hw : wfBfd l) (hp : p ≠ []) :
    bfdDecSpec old (bfdHeader l ++ p ++ bfdAuthSection l) = { layer := old, trunc := false, err := true } := by
  have hb := wf_len_bound l hw
  rw [List.append_assoc]
  obtain ⟨-, -, -, b3, -, ln⟩ := hdr_bytes l (p ++ bfdAuthSection l)
  unfold bfdDecSpec
  have hpl : 0 < p.length := List.length_pos_iff.mpr hp
  rw [if_pos (by rw [ln, b3, u8_toNat, bfd_length, List.length_append]; omega)]

/-- Direct decode of the encoding of a well-formed layer, in the view of the brief. -/
theorem decodeBfd_enc (old l : BFD) (foreign : Bytes) (hw : wfBfd l) :
    decodeBfd old (bfdEncode l) foreign = .ok ({ l with contents := bfdEncode l, payload := [] }, false) := by
  unfold decodeBfd
  have hlen : 24 ≤ (bfdEncode l).length := by rw [bfdEncode_length]; omega
  rw [BFD.decode_long old _ foreign hlen, dec_enc old l hw]
  rfl

theorem decodeBfd_over_payload (old l : BFD) (p foreign : Bytes) (hw : wfBfd l) (hp : p ≠ []) :
    decodeBfd old (bfdHeader l ++ p ++ bfdAuthSection l) foreign = .err "bfd" := by
  unfold decodeBfd
  have hlen : 24 ≤ (bfdHeader l ++ p ++ bfdAuthSection l).length := by
    rw [List.append_assoc, (hdr_bytes l _).2.2.2.2.2]; omega
  rw [BFD.decode_long old _ foreign hlen, dec_over_payload old l p hw hp]
  rfl

end Gp.Bfd
