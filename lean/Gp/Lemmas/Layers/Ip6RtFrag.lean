import Gp.Lemmas.Layers.Ip6Bits
import Gp.Lemmas.Layers.Ip6SerRt
import Gp.Lemmas.Layers.Ip6Dec2
/-
  Round trip (C06) of IPv6Fragment and IPv6Routing.  Core Lean only.
-/
namespace Gp.Ip6
open Gp

theorem be32_putBe32 (n : Nat) (h : n < 4294967296) :
    be32 (u8 (n / 16777216)) (u8 (n / 65536)) (u8 (n / 256)) (u8 n) = n := by
  unfold be32
  rw [u8_toNat_mod, u8_toNat_mod, u8_toNat_mod, u8_toNat_mod]
  omega

theorem be16_putBe16 (n : Nat) (h : n < 65536) : be16 (u8 (n / 256)) (u8 n) = n := by
  unfold be16
  rw [u8_toNat_mod, u8_toNat_mod]
  omega

/-! ## Fragment -/

def Fragment.wf (f : Fragment) : Prop :=
  f.nextHeader < 256 ∧ f.reserved1 < 256 ∧ f.fragmentOffset < 8192 ∧ f.reserved2 < 4 ∧
  f.identification < 4294967296

instance (f : Fragment) : Decidable f.wf := by unfold Fragment.wf; infer_instance

theorem fragByte3_toNat (f : Fragment) (h : f.wf) :
    (fragByte3 f).toNat = (f.fragmentOffset * 8) % 256 + f.reserved2 * 2 + (if f.moreFragments then 1 else 0) := by
  obtain ⟨-, -, hfo, hr2, -⟩ := h
  unfold fragByte3
  have hand : ∀ r, r < 4 → (r * 2 % 256) &&& 6 = r * 2 := by decide
  have hlo : (u8 ((f.fragmentOffset * 8) % 65536)).toNat = (f.fragmentOffset % 32) * 8 := by
    rw [u8_toNat_mod]; omega
  have h1 : (u8 ((u8 ((f.fragmentOffset * 8) % 65536)).toNat ||| (((f.reserved2 * 2) % 256) &&& 6))).toNat =
      (f.fragmentOffset % 32) * 8 + f.reserved2 * 2 := by
    rw [hlo, hand _ hr2, or8 _ _ (by omega), u8_toNat _ (by omega)]
  dsimp only
  split
  · rw [h1]
    have : (f.fragmentOffset % 32) * 8 + f.reserved2 * 2 = ((f.fragmentOffset % 32) * 4 + f.reserved2) * 2 := by
      omega
    rw [this, or2 _ 1 (by omega), u8_toNat _ (by omega)]
    omega
  · rw [h1]; omega

theorem frag_bits : ∀ k, k < 32 → ∀ r, r < 4 → ∀ m, m < 2 →
    ((k * 8 + r * 2 + m) &&& 6) / 2 = r ∧ ((k * 8 + r * 2 + m) &&& 1) = m := by decide

/-- decode ∘ serialize = identity on well-formed fragment headers, any payload. -/
theorem fragment_roundtrip (f : Fragment) (p : Bytes) (h : f.wf) :
    fragmentSpec (fragBytes f ++ p) =
      (some { f with contents := fragBytes f, payload := p }, false, .ok ()) := by
  have hb3 := fragByte3_toNat f h
  obtain ⟨hnh, hr1, hfo, hr2, hid⟩ := h
  unfold fragBytes
  simp only [putBe32, List.cons_append, List.nil_append, fragmentSpec]
  have hbits := frag_bits (f.fragmentOffset % 32) (by omega) f.reserved2 hr2
    (if f.moreFragments then 1 else 0) (by split <;> omega)
  have e3 : (fragByte3 f).toNat = (f.fragmentOffset % 32) * 8 + f.reserved2 * 2 + (if f.moreFragments then 1 else 0) := by
    rw [hb3]; omega
  have hoff : be16 (u8 ((f.fragmentOffset * 8) % 65536 / 256)) (fragByte3 f) / 8 = f.fragmentOffset := by
    unfold be16
    rw [u8_toNat_mod, e3]
    split <;> omega
  have hmf : decide ((fragByte3 f).toNat &&& 1 ≠ 0) = f.moreFragments := by
    rw [e3, hbits.2]
    cases f.moreFragments <;> simp
  have hr : ((fragByte3 f).toNat &&& 6) / 2 = f.reserved2 := by rw [e3]; exact hbits.1
  rw [hoff, hmf, hr, u8_toNat _ hnh, u8_toNat _ hr1, be32_putBe32 _ (by omega)]
  have : f.identification % 4294967296 = f.identification := Nat.mod_eq_of_lt hid
  simp only [this]

/-! ## Routing -/

def Routing.wf (r : Routing) : Prop :=
  r.base.nextHeader < 256 ∧ r.routingType = 0 ∧ r.segmentsLeft < 256 ∧ r.reserved.length = 4 ∧
  r.sourceRoutingIPs.length ≤ 127 ∧ ∀ ip ∈ r.sourceRoutingIPs, ip.length = 16

theorem chunks16_flatten : ∀ (ips : List Bytes) (fuel : Nat), (∀ ip ∈ ips, ip.length = 16) →
    ips.length ≤ fuel → chunks16 fuel ips.flatten = ips := by
  intro ips
  induction ips with
  | nil =>
    intro fuel _ _
    cases fuel <;> simp [chunks16]
  | cons ip ips ih =>
    intro fuel h hf
    have h16 : ip.length = 16 := h ip List.mem_cons_self
    match fuel, hf with
    | fuel + 1, hf =>
      simp only [List.flatten_cons, chunks16, List.length_append, h16]
      rw [if_pos (by omega), List.take_left' h16, List.drop_left' h16,
        ih fuel (fun x hx => h x (List.mem_cons_of_mem _ hx)) (by simpa using hf)]

theorem map_to16_id (ips : List Bytes) (h : ∀ ip ∈ ips, ip.length = 16) : ips.map to16 = ips := by
  induction ips with
  | nil => rfl
  | cons ip ips ih =>
    have h16 : ip.length = 16 := h ip List.mem_cons_self
    have : to16 ip = ip := by simp [to16, h16]
    rw [List.map_cons, this, ih (fun x hx => h x (List.mem_cons_of_mem _ hx))]

theorem flatten_length16 (ips : List Bytes) (h : ∀ ip ∈ ips, ip.length = 16) :
    ips.flatten.length = ips.length * 16 := by
  induction ips with
  | nil => rfl
  | cons ip ips ih =>
    have h16 : ip.length = 16 := h ip List.mem_cons_self
    simp only [List.flatten_cons, List.length_append, List.length_cons, h16,
      ih (fun x hx => h x (List.mem_cons_of_mem _ hx))]
    omega

theorem rtBytes_wf (r : Routing) (h : r.wf) :
    rtBytes r = [u8 r.base.nextHeader, u8 (r.sourceRoutingIPs.length * 2), u8 0, u8 r.segmentsLeft] ++
      r.reserved ++ r.sourceRoutingIPs.flatten := by
  obtain ⟨-, hrt, -, hres, -, hips⟩ := h
  unfold rtBytes
  rw [map_to16_id _ hips, hrt, List.take_of_length_le (by omega)]
  have : (8 + r.sourceRoutingIPs.length * 16 - 8) / 8 = r.sourceRoutingIPs.length * 2 := by omega
  rw [this]

/-- decode ∘ serialize = identity on well-formed routing headers, any payload. -/
theorem routing_roundtrip (r : Routing) (p : Bytes) (h : r.wf) :
    routingSpec (rtBytes r ++ p) =
      (some { r with base := { contents := rtBytes r, payload := p, nextHeader := r.base.nextHeader,
                               headerLength := r.sourceRoutingIPs.length * 2,
                               actualLength := 8 + r.sourceRoutingIPs.length * 16 } }, false, .ok ()) := by
  have hb := rtBytes_wf r h
  obtain ⟨hnh, hrt, hsl, hres, hn, hips⟩ := h
  obtain ⟨r0, r1, r2, r3, hr⟩ : ∃ r0 r1 r2 r3, r.reserved = [r0, r1, r2, r3] := by
    match hm : r.reserved, hres with
    | [a, b, c, d], _ => exact ⟨a, b, c, d, rfl⟩
  have hfl := flatten_length16 _ hips
  have hlen : (rtBytes r).length = 8 + r.sourceRoutingIPs.length * 16 := by
    rw [hb, hr]; simp [hfl]; omega
  unfold routingSpec
  have hext : extBaseSpec (rtBytes r ++ p) =
      (.ok { contents := rtBytes r, payload := p, nextHeader := r.base.nextHeader,
             headerLength := r.sourceRoutingIPs.length * 2,
             actualLength := 8 + r.sourceRoutingIPs.length * 16 }, false) := by
    have hal : (u8 (r.sourceRoutingIPs.length * 2)).toNat * 8 + 8 = 8 + r.sourceRoutingIPs.length * 16 := by
      rw [u8_toNat _ (by omega)]; omega
    rw [hb, hr]
    simp only [List.cons_append, List.nil_append, extBaseSpec]
    rw [hal, u8_toNat _ hnh, u8_toNat _ (by omega)]
    have hl2 : ¬ (u8 r.base.nextHeader :: u8 (r.sourceRoutingIPs.length * 2) :: u8 0 :: u8 r.segmentsLeft ::
        r0 :: r1 :: r2 :: r3 :: (r.sourceRoutingIPs.flatten ++ p)).length < 8 + r.sourceRoutingIPs.length * 16 := by
      simp [hfl]; omega
    rw [if_neg hl2]
    have e : (u8 r.base.nextHeader :: u8 (r.sourceRoutingIPs.length * 2) :: u8 0 :: u8 r.segmentsLeft ::
        r0 :: r1 :: r2 :: r3 :: (r.sourceRoutingIPs.flatten ++ p)) =
        (u8 r.base.nextHeader :: u8 (r.sourceRoutingIPs.length * 2) :: u8 0 :: u8 r.segmentsLeft ::
        r0 :: r1 :: r2 :: r3 :: r.sourceRoutingIPs.flatten) ++ p := by simp
    have el : (u8 r.base.nextHeader :: u8 (r.sourceRoutingIPs.length * 2) :: u8 0 :: u8 r.segmentsLeft ::
        r0 :: r1 :: r2 :: r3 :: r.sourceRoutingIPs.flatten).length = 8 + r.sourceRoutingIPs.length * 16 := by
      simp [hfl]; omega
    rw [e, List.take_left' el, List.drop_left' el]
  rw [hext]
  simp only
  have hg2 : ((rtBytes r ++ p).getD 2 0).toNat = 0 := by rw [hb, hr]; simp; rfl
  have hg3 : ((rtBytes r ++ p).getD 3 0).toNat = r.segmentsLeft := by
    rw [hb, hr]; simp; exact u8_toNat _ hsl
  have hres' : ((rtBytes r ++ p).drop 4).take 4 = r.reserved := by rw [hb, hr]; simp
  have hm : ¬ (8 + r.sourceRoutingIPs.length * 16 - 8) % 16 ≠ 0 := by omega
  rw [hg2, hg3, hres']
  simp only [if_true, hm, if_false]
  have hch : chunks16 (rtBytes r).length ((rtBytes r).drop 8) = r.sourceRoutingIPs := by
    rw [hlen]
    have : (rtBytes r).drop 8 = r.sourceRoutingIPs.flatten := by rw [hb, hr]; simp
    rw [this]
    exact chunks16_flatten _ _ hips (by omega)
  rw [hch, hrt]

end Gp.Ip6
