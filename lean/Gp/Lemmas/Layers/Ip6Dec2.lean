import Gp.Lemmas.Layers.Ip6Dec
/-
  Panic freedom / capacity independence of the remaining decoders of ip6.go and of the
  registered decode functions.  Core Lean only.
-/
namespace Gp.Ip6
open Gp Gp.Gen.Ip6

theorem ip6Finish_res (l : IPv6) (p : Bytes) (tr : Bool) (n : Nat) : (ip6Finish l p tr n).res = .ok () := rfl

theorem ip6HbhSpec_ne_panic (l1 : IPv6) (pay : Bytes) (ho : DecOut TlvExt)
    (hho : ∀ k, ho.res ≠ .panic k) (k : PanicKind) : (ip6HbhSpec l1 pay ho).res ≠ .panic k := by
  unfold ip6HbhSpec
  match hres : ho.res with
  | .panic k' => exact absurd hres (hho k')
  | .err e => simp
  | .ok () =>
    simp only
    match hj : getJumboLength ho.layer with
    | .panic k' => exact absurd hj (getJumboLength_ne_panic _ k')
    | .err e => simp
    | .ok (pEnd, jumbo) =>
      simp only
      split
      · simp [ip6Finish]
      · split
        · simp
        · split
          · simp
          · split <;> simp [ip6Finish]

theorem ip6Spec_ne_panic (old : IPv6) (b : Bytes) (k : PanicKind) : (ip6Spec old b).res ≠ .panic k := by
  unfold ip6Spec
  split
  · split
    · simp
    · dsimp only
      split
      · exact ip6HbhSpec_ne_panic _ _ _ (tlvExtSpec_ne_panic _ _) k
      · simp [ip6Finish]
  · simp

/-! ## Skipper -/

def skipperSpec (old : Skipper) (b : Bytes) : DecOut Skipper :=
  match extBaseSpec b with
  | (.panic p, tr) => ⟨old, tr, .panic p⟩
  | (.err e, tr) => ⟨old, tr, .err e⟩
  | (.ok ext, tr) =>
    ⟨{ nextHeader := ext.nextHeader, contents := b.take ext.actualLength,
       payload := b.drop ext.actualLength }, tr, .ok ()⟩

theorem decodeSkipper_eq_spec (old : Skipper) (b x : Bytes) :
    decodeSkipper old ⟨b, x⟩ = skipperSpec old b := by
  unfold decodeSkipper skipperSpec
  rw [decodeExtBase_eq_spec]
  match hb : extBaseSpec b with
  | (.panic p, tr) => rfl
  | (.err e, tr) => rfl
  | (.ok base, tr) =>
    obtain ⟨h8, hal, -, -, -, -⟩ := extBaseSpec_ok b base tr hb
    simp only
    rw [View.sliceTo_le _ _ (by simpa [View.len] using hal),
      View.sliceFrom_le _ _ (by simpa [View.len] using hal)]

theorem skipperSpec_ne_panic (old : Skipper) (b : Bytes) (k : PanicKind) :
    (skipperSpec old b).res ≠ .panic k := by
  unfold skipperSpec
  match hb : extBaseSpec b with
  | (.panic p, tr) => exact absurd (by rw [hb]) (extBaseSpec_ne_panic b p)
  | (.err e, tr) => simp
  | (.ok base, tr) => simp

/-! ## Routing -/

def routingSpec (b : Bytes) : Option Routing × Bool × Res Unit :=
  match extBaseSpec b with
  | (.panic k, tr) => (none, tr, .panic k)
  | (.err e, tr) => (none, tr, .err e)
  | (.ok base, tr) =>
    let rt := (b.getD 2 0).toNat
    let r0 : Routing := { base := base, routingType := rt, segmentsLeft := (b.getD 3 0).toNat,
                          reserved := (b.drop 4).take 4, sourceRoutingIPs := [] }
    if rt = 0 then
      if (base.actualLength - 8) % 16 ≠ 0 then (none, tr, .err "Invalid IPv6 source routing")
      else (some { r0 with sourceRoutingIPs := chunks16 base.contents.length (base.contents.drop 8) },
            tr, .ok ())
    else (none, tr, .err "Unknown IPv6 routing header type")

theorem decodeRouting_eq_spec (b x : Bytes) : decodeRouting ⟨b, x⟩ = routingSpec b := by
  unfold decodeRouting routingSpec
  rw [decodeExtBase_eq_spec]
  match hb : extBaseSpec b with
  | (.panic p, tr) => rfl
  | (.err e, tr) => rfl
  | (.ok base, tr) =>
    obtain ⟨h8, hal, -, hc, -, -⟩ := extBaseSpec_ok b base tr hb
    have hlen : 8 ≤ b.length := by omega
    simp only
    rw [View.idx_lt _ 2 (by simp [View.len]; omega), View.idx_lt _ 3 (by simp [View.len]; omega),
      View.slice_le _ 4 8 (by omega) (by simp [View.len]; omega)]
    have hcl : 8 ≤ base.contents.length := by rw [hc, List.length_take]; omega
    simp only [hcl, if_true]
    rw [List.getD_eq_getElem?_getD, List.getD_eq_getElem?_getD, List.getElem?_eq_getElem (by omega),
      List.getElem?_eq_getElem (by omega)]
    simp
    rfl

theorem routingSpec_ne_panic (b : Bytes) (k : PanicKind) : (routingSpec b).2.2 ≠ .panic k := by
  unfold routingSpec
  match hb : extBaseSpec b with
  | (.panic p, tr) => exact absurd (by rw [hb]) (extBaseSpec_ne_panic b p)
  | (.err e, tr) => simp
  | (.ok base, tr) =>
    dsimp only
    split
    · split <;> simp
    · simp

/-! ## Fragment -/

theorem parseFragment_ok (b0 b1 b2 b3 b4 b5 b6 b7 : UInt8) (rest x : Bytes) :
    parseFragment ⟨b0 :: b1 :: b2 :: b3 :: b4 :: b5 :: b6 :: b7 :: rest, x⟩ =
      .ok { contents := [b0, b1, b2, b3, b4, b5, b6, b7], payload := rest, nextHeader := b0.toNat,
            reserved1 := b1.toNat, fragmentOffset := be16 b2 b3 / 8,
            reserved2 := (b3.toNat &&& 6) / 2, moreFragments := decide (b3.toNat &&& 1 ≠ 0),
            identification := be32 b4 b5 b6 b7 } := by
  unfold parseFragment
  have hlen : (View.mk (b0 :: b1 :: b2 :: b3 :: b4 :: b5 :: b6 :: b7 :: rest) x).len = rest.length + 8 := by
    simp [View.len]
  rw [View.sliceTo_le _ 8 (by omega), View.sliceFrom_le _ 8 (by omega), View.idx_lt _ 0 (by omega),
    View.idx_lt _ 1 (by omega), rd16_drop _ 2 b2 b3 _ rfl, View.idx_lt _ 3 (by omega),
    rd32_drop _ 4 b4 b5 b6 b7 _ rfl]
  simp only [Res.bind_ok, Res.pure_eq_ok]
  rfl

def fragmentSpec (b : Bytes) : Option Fragment × Bool × Res Unit :=
  match b with
  | b0 :: b1 :: b2 :: b3 :: b4 :: b5 :: b6 :: b7 :: rest =>
    (some { contents := [b0, b1, b2, b3, b4, b5, b6, b7], payload := rest, nextHeader := b0.toNat,
            reserved1 := b1.toNat, fragmentOffset := be16 b2 b3 / 8,
            reserved2 := (b3.toNat &&& 6) / 2, moreFragments := decide (b3.toNat &&& 1 ≠ 0),
            identification := be32 b4 b5 b6 b7 }, false, .ok ())
  | _ => (none, true, .err "Invalid ip6-fragment header")

theorem decodeFragment_eq_spec (b x : Bytes) : decodeFragment ⟨b, x⟩ = fragmentSpec b := by
  unfold fragmentSpec
  split
  · rename_i b0 b1 b2 b3 b4 b5 b6 b7 rest
    unfold decodeFragment
    have : ¬ (View.mk (b0 :: b1 :: b2 :: b3 :: b4 :: b5 :: b6 :: b7 :: rest) x).len < 8 := by
      simp [View.len]
    rw [if_neg this, parseFragment_ok]
  · rename_i hne
    have hlt := short_of_not_cons8 b hne
    unfold decodeFragment
    have : (View.mk b x).len < 8 := by simpa [View.len] using hlt
    simp [this]

theorem fragmentSpec_ne_panic (b : Bytes) (k : PanicKind) : (fragmentSpec b).2.2 ≠ .panic k := by
  unfold fragmentSpec
  split <;> simp

end Gp.Ip6
