import Gp.Lemmas.Layers.Tcp
/-
  `ltcp` part 2: the decoder of the FIXED variant is panic-free, terminates (fuel suffices)
  and does not depend on the capacity / foreign bytes behind the data:  every function of the
  model is simulated by itself on any other view of the same visible bytes.
-/
namespace Gp.Tcp
open Gp Gp.Gen.Tcp

theorem Sim.ite {α β : Type} {R : α → β → Prop} {c : Prop} [Decidable c] {a1 b1 : Res α} {a2 b2 : Res β}
    (h1 : c → Sim R a1 a2) (h2 : ¬c → Sim R b1 b2) :
    Sim R (if c then a1 else b1) (if c then a2 else b2) := by
  by_cases h : c
  · simp only [h, if_true]; exact h1 h
  · simp only [h, if_false]; exact h2 h

/-- discharge `decide p = true → arithmetic` side conditions -/
macro "dec_omega" : tactic =>
  `(tactic| (intro hh; (try simp at hh); omega))

/-- what an iteration may ask the loop to skip: at least 1 and at most `len` bytes -/
def StepOk (len : Nat) : Step → Prop
  | .cont _ m => 1 ≤ m ∧ m ≤ len
  | .stop _ => True

def StepRel (len : Nat) (a b : Step) : Prop := a = b ∧ StepOk len a

theorem stepRel_err (len : Nat) (l : Layer) (o : TcpOption) (t : Bool) :
    Sim (StepRel len) (Res.ok (errStep l o t)) (Res.ok (errStep l o t)) :=
  Sim.ok ⟨rfl, trivial⟩

theorem stepRel_cont {len n : Nat} (l : Layer) (h1 : 1 ≤ n) (h2 : n ≤ len) :
    Sim (StepRel len) (Res.ok (Step.cont l n)) (Res.ok (Step.cont l n)) :=
  Sim.ok ⟨rfl, h1, h2⟩

section subopts
variable {d1 d2 : Sl} (hv : SameVis d1 d2) (l : Layer) (opt : TcpOption) {n : Nat}
  (h3 : 3 ≤ n) (hn : n ≤ d1.vis.length)
include hv h3 hn

theorem sim_mpCapableOpt (b2 : UInt8) :
    Sim (StepRel d1.vis.length) (mpCapableOpt l opt d1 n b2) (mpCapableOpt l opt d2 n b2) := by
  unfold mpCapableOpt
  simp only [optionLenMpCapableSyn, optionLenMpCapableSynAck, optionLenMpCapableAck,
      optionLenMpCapableAckData, optionLenMpCapableAckDataCSum]
  refine Sim.ite (fun _ => stepRel_err _ _ _ _) fun hc => ?_
  · refine Sim.bind (sim_idx hv (by omega)) fun _ _ e1 => ?_
    refine Sim.bind (sim_sliceIf hv (by dec_omega)) fun _ _ e2 => ?_
    refine Sim.bind (sim_sliceIf hv (by dec_omega)) fun _ _ e3 => ?_
    refine Sim.bind (sim_u16If hv (by dec_omega)) fun _ _ e4 => ?_
    refine Sim.bind (sim_u16If hv (by intro hh; simp at hh; trace_state; omega)) fun _ _ e5 => ?_
    subst e1 e2 e3 e4 e5
    exact stepRel_cont _ (by omega) hn

theorem sim_mpJoinOpt (b2 : UInt8) :
    Sim (StepRel d1.vis.length) (mpJoinOpt l opt d1 n b2) (mpJoinOpt l opt d2 n b2) := by
  unfold mpJoinOpt
  simp only [optionLenMpJoinSyn, optionLenMpJoinSynAck, optionLenMpJoinAck]
  refine Sim.ite (fun _ => stepRel_err _ _ _ _) fun hc => ?_
  refine Sim.ite (fun h12 => ?_) fun h12 => ?_
  · refine Sim.bind (sim_idx hv (by omega)) fun _ _ e1 => ?_
    refine Sim.bind (sim_slice hv (by omega) (by omega)) fun _ _ e2 => ?_
    refine Sim.bind (sim_u32 e2 (by omega)) fun _ _ e3 => ?_
    refine Sim.bind (sim_slice hv (by omega) (by omega)) fun _ _ e4 => ?_
    refine Sim.bind (sim_u32 e4 (by omega)) fun _ _ e5 => ?_
    subst e1 e3 e5
    exact stepRel_cont _ (by omega) hn
  · refine Sim.ite (fun h16 => ?_) fun h16 => ?_
    · refine Sim.bind (sim_idx hv (by omega)) fun _ _ e1 => ?_
      refine Sim.bind (sim_slice hv (by omega) (by omega)) fun _ _ e2 => ?_
      refine Sim.bind (sim_slice hv (by omega) (by omega)) fun _ _ e4 => ?_
      refine Sim.bind (sim_u32 e4 (by omega)) fun _ _ e5 => ?_
      subst e1 e5; rw [e2.1]
      exact stepRel_cont _ (by omega) hn
    · refine Sim.bind (sim_slice hv (by omega) (by omega)) fun _ _ e2 => ?_
      rw [e2.1]
      exact stepRel_cont _ (by omega) hn

theorem sim_remAddrOpt :
    Sim (StepRel d1.vis.length) (remAddrOpt l opt d1 n) (remAddrOpt l opt d2 n) := by
  unfold remAddrOpt
  simp only [optionLenRemAddr]
  refine Sim.ite (fun _ => stepRel_err _ _ _ _) fun hc => ?_
  · refine Sim.bind (sim_readIds hv _ 3 (by omega)) fun _ _ e1 => ?_
    subst e1
    exact stepRel_cont _ (by omega) hn

theorem sim_mpPrioOpt (b2 : UInt8) :
    Sim (StepRel d1.vis.length) (mpPrioOpt l opt d1 n b2) (mpPrioOpt l opt d2 n b2) := by
  unfold mpPrioOpt
  simp only [optionLenMpPrio, optionLenMpPrioAddr]
  refine Sim.ite (fun _ => stepRel_err _ _ _ _) fun hc => ?_
  refine Sim.ite (fun _ => ?_) fun _ => ?_
  · refine Sim.bind (sim_idx hv (by omega)) fun _ _ e1 => ?_
    subst e1
    exact stepRel_cont _ (by omega) hn
  · exact stepRel_cont _ (by omega) hn

theorem sim_mpFailOpt :
    Sim (StepRel d1.vis.length) (mpFailOpt l opt d1 n) (mpFailOpt l opt d2 n) := by
  unfold mpFailOpt
  simp only [optionLenMpFail]
  refine Sim.ite (fun _ => stepRel_err _ _ _ _) fun hc => ?_
  · refine Sim.bind (sim_slice hv (by omega) (by omega)) fun _ _ e2 => ?_
    refine Sim.bind (sim_u64 e2 (by omega)) fun _ _ e3 => ?_
    subst e3
    exact stepRel_cont _ (by omega) hn

theorem sim_mpFCloseOpt :
    Sim (StepRel d1.vis.length) (mpFCloseOpt l opt d1 n) (mpFCloseOpt l opt d2 n) := by
  unfold mpFCloseOpt
  simp only [optionLenMpFClose]
  refine Sim.ite (fun _ => stepRel_err _ _ _ _) fun hc => ?_
  · refine Sim.bind (sim_slice hv (by omega) (by omega)) fun _ _ e2 => ?_
    rw [e2.1]
    exact stepRel_cont _ (by omega) hn

theorem sim_mpTcpRstOpt (b2 : UInt8) :
    Sim (StepRel d1.vis.length) (mpTcpRstOpt l opt d1 n b2) (mpTcpRstOpt l opt d2 n b2) := by
  unfold mpTcpRstOpt
  simp only [optionLenMpTcpRst]
  refine Sim.ite (fun _ => stepRel_err _ _ _ _) fun hc => ?_
  · refine Sim.bind (sim_idx hv (by omega)) fun _ _ e1 => ?_
    subst e1
    exact stepRel_cont _ (by omega) hn

end subopts

end Gp.Tcp
