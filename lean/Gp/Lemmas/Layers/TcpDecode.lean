import Gp.Lemmas.Layers.Tcp
/-
  `ltcp` part 2: the decoder of the FIXED variant is panic-free, terminates (fuel suffices)
  and does not depend on the capacity / foreign bytes behind the data:  every function of the
  model is simulated by itself on any other view of the same visible bytes.
-/
namespace Gp.Tcp
open Gp Gp.Gen.Tcp

theorem Sim.ite {α β : Type} {R : α → β → Prop} {c : Prop} [Decidable c] {a1 b1 : Res α} {a2 b2 : Res β}
    (h1 : c → Sim R a1 a2) (h2 : ¬c → Sim R b1 b2) :
    Sim R (if c then a1 else b1) (if c then a2 else b2) := by
  by_cases h : c
  · simp only [h, if_true]; exact h1 h
  · simp only [h, if_false]; exact h2 h

/-- discharge `decide p = true → arithmetic` side conditions -/
macro "dec_omega" : tactic =>
  `(tactic| (intro hh; first | (have hh' := of_decide_eq_true hh; omega) | (simp at hh; omega) | omega))

/-- What one MPTCP sub-option parser may return: an error stop, or "skip exactly `n` bytes" with
    one option pushed that keeps kind, length and (empty) data of the option under construction. -/
def SubOk (len n : Nat) (l : OptSt) (opt : TcpOption) : Step → Prop
  | .cont st' m => m = n ∧ 1 ≤ n ∧ n ≤ len ∧
      ∃ o, st' = pushOpt l o ∧ o.optionType = opt.optionType ∧ o.optionData = opt.optionData ∧
        o.optionLength = opt.optionLength
  | .stop o => o.err = true

def SubRel (len n : Nat) (l : OptSt) (opt : TcpOption) (a b : Step) : Prop := a = b ∧ SubOk len n l opt a

theorem subRel_err (len n : Nat) (l : OptSt) (opt o : TcpOption) (t : Bool) :
    Sim (SubRel len n l opt) (Res.ok (errStep l o t)) (Res.ok (errStep l o t)) :=
  Sim.ok ⟨rfl, rfl⟩

theorem subRel_cont {len n : Nat} (l : OptSt) (opt o : TcpOption) (h1 : 1 ≤ n) (h2 : n ≤ len)
    (ht : o.optionType = opt.optionType) (hd : o.optionData = opt.optionData)
    (hl : o.optionLength = opt.optionLength) :
    Sim (SubRel len n l opt) (Res.ok (Step.cont (pushOpt l o) n)) (Res.ok (Step.cont (pushOpt l o) n)) :=
  Sim.ok ⟨rfl, rfl, h1, h2, o, rfl, ht, hd, hl⟩

/-- What one iteration of the option loop over `data` may return, starting from state `l`:
    * continue: skip `m` bytes, `1 ≤ m ≤ len(data)`, having appended ONE option that is in normal
      form, is not End-of-list and occupies `m` bytes; padding untouched;
    * stop without error: the End-of-list option was appended and the padding is the rest. -/
def StepOk (data : Bytes) (l : OptSt) : Step → Prop
  | .cont st' m => 1 ≤ m ∧ m ≤ data.length ∧
      ∃ o, st'.options = l.options ++ [o] ∧ st'.padding = l.padding ∧ optWf o = true ∧
        o.optionType ≠ 0 ∧ wireLen o = m
  | .stop out => out.err = false →
      ∃ o, out.st.options = l.options ++ [o] ∧ optNorm o = true ∧ o.optionType = 0 ∧
        out.st.padding = data.drop 1

def StepRel (data : Bytes) (l : OptSt) (a b : Step) : Prop := a = b ∧ StepOk data l a

theorem stepRel_err (data : Bytes) (l l' : OptSt) (o : TcpOption) (t : Bool) :
    Sim (StepRel data l) (Res.ok (errStep l' o t)) (Res.ok (errStep l' o t)) :=
  Sim.ok ⟨rfl, fun h => by cases h⟩

/-- the reads of the DSS branch stay inside the option (all 16 flag combinations) -/
theorem dss_bounds (fF fA fa fM fm : Bool) (n : Nat)
    (hc : ¬(n ≠ optionMptcpDsslen { fF := fF, fm := fm, fM := fM, fa := fa, fA := fA } false ∧
            n ≠ optionMptcpDsslen { fF := fF, fm := fm, fM := fM, fa := fa, fA := fA } true)) :
    let ackLen := if fA then (if fa then optionLenDssAck64 else optionLenDssAck) else 0
    let dsnLen := if fm then optionLenDssDSN64 else optionLenDssDSN
    let p4 := 4 + ackLen + dsnLen + optionLenDssSSN + optionLenDssDataLen
    (fA = true → 4 + ackLen ≤ n) ∧ (fM = true → p4 ≤ n) ∧
    ((fM && (n + 256 - p4 % 256) % 256 == 2) = true → p4 + optionLenDssCSum ≤ n) ∧ 4 ≤ n := by
  cases fA <;> cases fa <;> cases fM <;> cases fm <;>
    simp [optionMptcpDsslen, optionLenDssAck64, optionLenDssAck, optionLenDssDSN64, optionLenDssDSN,
      optionLenDssSSN, optionLenDssDataLen, optionLenDssCSum] at hc ⊢ <;> omega

section subopts
variable {d1 d2 : Sl} (hv : SameVis d1 d2) (l : OptSt) (opt : TcpOption) {n : Nat}
  (h3 : 3 ≤ n) (hn : n ≤ d1.vis.length)
include hv h3 hn

theorem sim_mpCapableOpt (b2 : UInt8) :
    Sim (SubRel d1.vis.length n l opt) (mpCapableOpt l opt d1 n b2) (mpCapableOpt l opt d2 n b2) := by
  unfold mpCapableOpt
  simp only [optionLenMpCapableSyn, optionLenMpCapableSynAck, optionLenMpCapableAck,
      optionLenMpCapableAckData, optionLenMpCapableAckDataCSum]
  refine Sim.ite (fun _ => subRel_err _ _ _ _ _ _) fun hc => ?_
  · refine Sim.bind (sim_idx hv (by omega)) fun _ _ e1 => ?_
    refine Sim.bind (sim_sliceIf hv (by dec_omega)) fun _ _ e2 => ?_
    refine Sim.bind (sim_sliceIf hv (by dec_omega)) fun _ _ e3 => ?_
    refine Sim.bind (sim_u16If hv (by dec_omega)) fun _ _ e4 => ?_
    refine Sim.bind (sim_u16If hv (by dec_omega)) fun _ _ e5 => ?_
    subst e1 e2 e3 e4 e5
    exact subRel_cont _ _ _ (by omega) hn rfl rfl rfl

theorem sim_mpJoinOpt (b2 : UInt8) :
    Sim (SubRel d1.vis.length n l opt) (mpJoinOpt l opt d1 n b2) (mpJoinOpt l opt d2 n b2) := by
  unfold mpJoinOpt
  simp only [optionLenMpJoinSyn, optionLenMpJoinSynAck, optionLenMpJoinAck]
  refine Sim.ite (fun _ => subRel_err _ _ _ _ _ _) fun hc => ?_
  refine Sim.ite (fun h12 => ?_) fun h12 => ?_
  · refine Sim.bind (sim_idx hv (by omega)) fun _ _ e1 => ?_
    refine Sim.bind (sim_slice hv (by omega) (by omega)) fun _ _ e2 => ?_
    refine Sim.bind (sim_u32 e2 (by omega)) fun _ _ e3 => ?_
    refine Sim.bind (sim_slice hv (by omega) (by omega)) fun _ _ e4 => ?_
    refine Sim.bind (sim_u32 e4 (by omega)) fun _ _ e5 => ?_
    subst e1 e3 e5
    exact subRel_cont _ _ _ (by omega) hn rfl rfl rfl
  · refine Sim.ite (fun h16 => ?_) fun h16 => ?_
    · refine Sim.bind (sim_idx hv (by omega)) fun _ _ e1 => ?_
      refine Sim.bind (sim_slice hv (by omega) (by omega)) fun _ _ e2 => ?_
      refine Sim.bind (sim_slice hv (by omega) (by omega)) fun _ _ e4 => ?_
      refine Sim.bind (sim_u32 e4 (by omega)) fun _ _ e5 => ?_
      subst e1 e5; rw [e2.1]
      exact subRel_cont _ _ _ (by omega) hn rfl rfl rfl
    · refine Sim.bind (sim_slice hv (by omega) (by omega)) fun _ _ e2 => ?_
      rw [e2.1]
      exact subRel_cont _ _ _ (by omega) hn rfl rfl rfl

theorem sim_remAddrOpt :
    Sim (SubRel d1.vis.length n l opt) (remAddrOpt l opt d1 n) (remAddrOpt l opt d2 n) := by
  unfold remAddrOpt
  simp only [optionLenRemAddr]
  refine Sim.ite (fun _ => subRel_err _ _ _ _ _ _) fun hc => ?_
  · refine Sim.bind (sim_readIds hv _ 3 (by omega)) fun _ _ e1 => ?_
    subst e1
    exact subRel_cont _ _ _ (by omega) hn rfl rfl rfl

theorem sim_mpPrioOpt (b2 : UInt8) :
    Sim (SubRel d1.vis.length n l opt) (mpPrioOpt l opt d1 n b2) (mpPrioOpt l opt d2 n b2) := by
  unfold mpPrioOpt
  simp only [optionLenMpPrio, optionLenMpPrioAddr]
  refine Sim.ite (fun _ => subRel_err _ _ _ _ _ _) fun hc => ?_
  refine Sim.ite (fun _ => ?_) fun _ => ?_
  · refine Sim.bind (sim_idx hv (by omega)) fun _ _ e1 => ?_
    subst e1
    exact subRel_cont _ _ _ (by omega) hn rfl rfl rfl
  · exact subRel_cont _ _ _ (by omega) hn rfl rfl rfl

theorem sim_mpFailOpt :
    Sim (SubRel d1.vis.length n l opt) (mpFailOpt l opt d1 n) (mpFailOpt l opt d2 n) := by
  unfold mpFailOpt
  simp only [optionLenMpFail]
  refine Sim.ite (fun _ => subRel_err _ _ _ _ _ _) fun hc => ?_
  · refine Sim.bind (sim_slice hv (by omega) (by omega)) fun _ _ e2 => ?_
    refine Sim.bind (sim_u64 e2 (by omega)) fun _ _ e3 => ?_
    subst e3
    exact subRel_cont _ _ _ (by omega) hn rfl rfl rfl

theorem sim_mpFCloseOpt :
    Sim (SubRel d1.vis.length n l opt) (mpFCloseOpt l opt d1 n) (mpFCloseOpt l opt d2 n) := by
  unfold mpFCloseOpt
  simp only [optionLenMpFClose]
  refine Sim.ite (fun _ => subRel_err _ _ _ _ _ _) fun hc => ?_
  · refine Sim.bind (sim_slice hv (by omega) (by omega)) fun _ _ e2 => ?_
    rw [e2.1]
    exact subRel_cont _ _ _ (by omega) hn rfl rfl rfl

theorem sim_mpTcpRstOpt (b2 : UInt8) :
    Sim (SubRel d1.vis.length n l opt) (mpTcpRstOpt l opt d1 n b2) (mpTcpRstOpt l opt d2 n b2) := by
  unfold mpTcpRstOpt
  simp only [optionLenMpTcpRst]
  refine Sim.ite (fun _ => subRel_err _ _ _ _ _ _) fun hc => ?_
  · refine Sim.bind (sim_idx hv (by omega)) fun _ _ e1 => ?_
    subst e1
    exact subRel_cont _ _ _ (by omega) hn rfl rfl rfl


theorem sim_dssOpt :
    Sim (SubRel d1.vis.length n l opt) (dssOpt Variant.fixed l opt d1 n) (dssOpt Variant.fixed l opt d2 n) := by
  unfold dssOpt
  simp only [Variant.fixed, Bool.true_and]
  refine Sim.ite (fun _ => subRel_err _ _ _ _ _ _) fun h4 => ?_
  have h4' : 4 ≤ n := by simpa using h4
  refine Sim.bind (sim_idx hv (by omega)) fun b3 _ e1 => ?_
  subst e1
  refine Sim.ite (fun _ => subRel_err _ _ _ _ _ _) fun hc => ?_
  have hb := dss_bounds (bit b3 16) (bit b3 1) (bit b3 2) (bit b3 4) (bit b3 8) n hc
  simp only at hb
  obtain ⟨hA, hM, hC, _⟩ := hb
  simp only [optionLenDssSSN, optionLenDssDataLen, optionLenDssCSum] at hA hM hC ⊢
  refine Sim.bind (sim_sliceIf hv (fun h => ⟨by omega, by have := hA h; omega⟩)) fun _ _ e2 => ?_
  refine Sim.bind (sim_sliceIf hv (fun h => ⟨by omega, by have := hM h; omega⟩)) fun _ _ e3 => ?_
  refine Sim.bind (sim_u32If hv (fun h => ⟨by omega, by have := hM h; omega⟩)) fun _ _ e4 => ?_
  refine Sim.bind (sim_u16If hv (fun h => ⟨by omega, by have := hM h; omega⟩)) fun _ _ e5 => ?_
  refine Sim.bind (sim_u16If hv (fun h => ⟨by omega, by have := hC h; omega⟩)) fun _ _ e6 => ?_
  subst e2 e3 e4 e5 e6
  exact subRel_cont _ _ _ (by omega) hn rfl rfl rfl


theorem sim_addAddrOpt (b2 : UInt8) :
    Sim (SubRel d1.vis.length n l opt) (addAddrOpt l opt d1 n b2) (addAddrOpt l opt d2 n b2) := by
  unfold addAddrOpt
  simp only [isValidOptionMptcpAddAddrlen, mptcpVersion0, mptcpVersion1, optionLenAddAddrv4,
    optionLenAddAddrv6, optionLenAddAddrPort, optionLenAddAddrHmac]
  refine Sim.ite (fun _ => subRel_err _ _ _ _ _ _) fun hc => ?_
  -- facts from the length validation
  have hfacts : 8 ≤ n ∧ ((n + 256 - 8) % 256 ≤ n) := by
    by_cases hl : b2.toNat % 16 > 1 <;> cases hb : bit b2 1 <;> simp [hl, hb] at hc <;> omega
  obtain ⟨h8, hw⟩ := hfacts
  refine Sim.bind (sim_idx hv (by omega)) fun b3 _ e1 => ?_
  subst e1
  refine Sim.bind (?_ : Sim Eq _ _) fun hm _ e2 => ?_
  · refine Sim.ite (fun _ => ?_) fun _ => Sim.ok rfl
    refine Sim.bind (sim_sliceFrom hv (by omega)) fun _ _ e => ?_
    exact Sim.ok e
  subst e2
  refine Sim.bind (?_ : Sim Eq _ _) fun addr _ e3 => ?_
  · refine Sim.ite (fun h => ?_) fun _ => ?_
    · refine sim_sliceIf hv (fun _ => ⟨by omega, ?_⟩)
      simp at h
      split at h <;> omega
    · refine sim_sliceIf hv (fun h => ⟨by omega, ?_⟩)
      simp at h
      split at h <;> omega
  subst e3
  refine Sim.bind (sim_u16If hv (fun h => ⟨by omega, ?_⟩)) fun _ _ e4 => ?_
  · simp at h
    split at h <;> omega
  refine Sim.bind (sim_u16If hv (fun h => ⟨by omega, ?_⟩)) fun _ _ e5 => ?_
  · simp at h
    split at h <;> omega
  subst e4 e5
  exact subRel_cont _ _ _ (by omega) hn rfl rfl rfl

end subopts


theorem len_eq {d1 d2 : Sl} (hv : SameVis d1 d2) : d2.vis.length = d1.vis.length := by
  have h : d1.vis = d2.vis := hv
  rw [h]

/-- an MPTCP sub-option result, seen from the option loop -/
theorem stepOk_of_sub {data : Bytes} {n : Nat} {l : OptSt} {opt : TcpOption} {a : Step}
    (h : SubOk data.length n l opt a) (ht : opt.optionType = 30) (hd : opt.optionData = [])
    (hl : opt.optionLength = n) (h3 : 3 ≤ n) (h256 : n < 256) : StepOk data l a := by
  cases a with
  | stop o => intro he; rw [h] at he; cases he
  | cont st' m =>
    obtain ⟨rfl, h1, h2, o, rfl, e1, e2, e3⟩ := h
    refine ⟨h1, h2, o, rfl, rfl, ?_, ?_, ?_⟩
    · simp [optWf, mptcpNorm, e1, e2, e3, ht, hd, hl, h3, h256]
    · rw [e1, ht]; decide
    · simp [wireLen, e1, ht, e3, hl]

theorem sim_of_sub {data : Bytes} {n : Nat} {l : OptSt} {opt : TcpOption} {r1 r2 : Res Step}
    (h : Sim (SubRel data.length n l opt) r1 r2) (ht : opt.optionType = 30) (hd : opt.optionData = [])
    (hl : opt.optionLength = n) (h3 : 3 ≤ n) (h256 : n < 256) : Sim (StepRel data l) r1 r2 :=
  h.mono fun _ _ hab => ⟨hab.1, stepOk_of_sub hab.2 ht hd hl h3 h256⟩

theorem sim_mptcpOpt {d1 d2 : Sl} (hv : SameVis d1 d2) (l : OptSt) (opt : TcpOption)
    (ht : opt.optionType = 30) (hd : opt.optionData = []) :
    Sim (StepRel d1.vis l) (mptcpOpt Variant.fixed l opt d1) (mptcpOpt Variant.fixed l opt d2) := by
  unfold mptcpOpt
  simp only [Variant.fixed, Bool.true_and, if_true, Sl.len, len_eq hv]
  refine Sim.ite (fun _ => stepRel_err _ _ _ _ _) fun h3 => ?_
  have h3' : 3 ≤ d1.vis.length :=
    Decidable.byContradiction fun hcon => h3 (decide_eq_true (by omega))
  refine Sim.bind (sim_idx hv (by omega)) fun n8 _ e1 => ?_
  subst e1
  refine Sim.ite (fun _ => stepRel_err _ _ _ _ _) fun hn3 => ?_
  refine Sim.ite (fun _ => stepRel_err _ _ _ _ _) fun hnl => ?_
  have hn3' : 3 ≤ n8.toNat := by omega
  have hnl' : n8.toNat ≤ d1.vis.length :=
    Decidable.byContradiction fun hcon => hnl (decide_eq_true (by omega))
  have h256 : n8.toNat < 256 := UInt8.toNat_lt n8
  refine Sim.bind (sim_idx hv (by omega)) fun b2 _ e2 => ?_
  subst e2
  refine Sim.ite (fun _ => sim_of_sub (sim_mpCapableOpt hv _ _ hn3' hnl' _) ht hd rfl hn3' h256) fun _ => ?_
  refine Sim.ite (fun _ => sim_of_sub (sim_mpJoinOpt hv _ _ hn3' hnl' _) ht hd rfl hn3' h256) fun _ => ?_
  refine Sim.ite (fun _ => sim_of_sub (sim_dssOpt hv _ _ hn3' hnl') ht hd rfl hn3' h256) fun _ => ?_
  refine Sim.ite (fun _ => sim_of_sub (sim_addAddrOpt hv _ _ hn3' hnl' _) ht hd rfl hn3' h256) fun _ => ?_
  refine Sim.ite (fun _ => sim_of_sub (sim_remAddrOpt hv _ _ hn3' hnl') ht hd rfl hn3' h256) fun _ => ?_
  refine Sim.ite (fun _ => sim_of_sub (sim_mpPrioOpt hv _ _ hn3' hnl' _) ht hd rfl hn3' h256) fun _ => ?_
  refine Sim.ite (fun _ => sim_of_sub (sim_mpFailOpt hv _ _ hn3' hnl') ht hd rfl hn3' h256) fun _ => ?_
  refine Sim.ite (fun _ => sim_of_sub (sim_mpFCloseOpt hv _ _ hn3' hnl') ht hd rfl hn3' h256) fun _ => ?_
  refine Sim.ite (fun _ => sim_of_sub (sim_mpTcpRstOpt hv _ _ hn3' hnl' _) ht hd rfl hn3' h256) fun _ => ?_
  exact sim_of_sub (subRel_cont _ _ _ (by omega) hnl' rfl rfl rfl) ht hd rfl hn3' h256

theorem sim_genericOpt {d1 d2 : Sl} (hv : SameVis d1 d2) (l : OptSt) (k : Nat)
    (hk : k < 256) (hk0 : k ≠ 0) (hk1 : k ≠ 1) (hk30 : k ≠ 30) :
    Sim (StepRel d1.vis l) (genericOpt l { optionType := k } d1) (genericOpt l { optionType := k } d2) := by
  unfold genericOpt
  simp only [Sl.len, len_eq hv]
  refine Sim.ite (fun _ => stepRel_err _ _ _ _ _) fun h2 => ?_
  refine Sim.bind (sim_idx hv (by omega)) fun n8 _ e1 => ?_
  subst e1
  refine Sim.ite (fun _ => stepRel_err _ _ _ _ _) fun hn2 => ?_
  refine Sim.ite (fun _ => stepRel_err _ _ _ _ _) fun hnl => ?_
  have h256 : n8.toNat < 256 := UInt8.toNat_lt n8
  refine Sim.bind (sim_slice hv (by omega) (by omega)) fun x y e2 => ?_
  rw [← e2.1]
  refine Sim.ok ⟨rfl, by omega, by omega, _, rfl, rfl, ?_, by simpa using hk0, ?_⟩
  · have hx : x.vis.length = n8.toNat - 2 := e2.2
    simp [optWf, optNorm, isOneByte, hk, hk0, hk1, hk30, hx, h256]
    omega
  · have hx : x.vis.length = n8.toNat - 2 := e2.2
    simp [wireLen, isOneByte, hk0, hk1, hk30, hx]
    omega

theorem sim_optStep {d1 d2 : Sl} (hv : SameVis d1 d2) (l : OptSt) (hpos : 0 < d1.vis.length) :
    Sim (StepRel d1.vis l) (optStep Variant.fixed l d1) (optStep Variant.fixed l d2) := by
  unfold optStep
  refine Sim.bind (sim_idx hv hpos) fun k _ e1 => ?_
  subst e1
  have hk256 : k.toNat < 256 := UInt8.toNat_lt k
  simp only [tCPOptionKindEndList, tCPOptionKindNop, tCPOptionKindMultipathTCP]
  refine Sim.ite (fun hk => ?_) fun hk0 => ?_
  · have ht : 1 ≤ d2.vis.length := by rw [len_eq hv]; omega
    rw [Sl.sliceFrom_ok (show 1 ≤ d1.vis.length by omega), Sl.sliceFrom_ok ht, ← (hv : d1.vis = d2.vis)]
    refine Sim.ok ⟨rfl, fun _ => ⟨_, rfl, ?_, hk, rfl⟩⟩
    simp [optNorm, isOneByte, hk]
  refine Sim.ite (fun hk => ?_) fun hk1 => ?_
  · refine Sim.ok ⟨rfl, by omega, by omega, _, rfl, rfl, ?_, by simp [hk], ?_⟩
    · simp [optWf, optNorm, isOneByte, hk]
    · simp [wireLen, isOneByte, hk]
  refine Sim.ite (fun hk => ?_) fun hk30 => ?_
  · exact (sim_mptcpOpt hv _ _ hk rfl).mono fun a b hab => ⟨hab.1, by
      have h := hab.2
      cases a with
      | stop o => exact h
      | cont st' m => exact h⟩
  · exact sim_genericOpt hv l k.toNat hk256 hk0 hk1 hk30

/-- The option loop: same result on any view of the same bytes, no panic, and the fuel
    `len(data)` is never exhausted (every iteration consumes at least one byte). -/
theorem sim_optLoop : ∀ (fuel : Nat) (l : OptSt) (d1 d2 : Sl), SameVis d1 d2 → d1.vis.length ≤ fuel →
    Sim Eq (optLoop Variant.fixed fuel l d1) (optLoop Variant.fixed fuel l d2) := by
  intro fuel
  induction fuel with
  | zero =>
    intro l d1 d2 hv hf
    unfold optLoop
    have h0 : d1.vis.length = 0 := by omega
    simp only [len_eq hv, h0, if_true]
    exact Sim.ok rfl
  | succ fuel ih =>
    intro l d1 d2 hv hf
    unfold optLoop
    simp only [len_eq hv]
    refine Sim.ite (fun _ => Sim.ok rfl) fun hne => ?_
    have hs := sim_optStep hv l (by omega)
    generalize optStep Variant.fixed l d1 = r1 at hs ⊢
    generalize optStep Variant.fixed l d2 = r2 at hs ⊢
    cases hs with
    | err e => exact Sim.err e
    | ok h =>
      obtain ⟨rfl, hok⟩ := h
      rename_i a
      cases a with
      | stop o => exact Sim.ok rfl
      | cont l' n =>
        obtain ⟨h1, h2, _⟩ := hok
        simp only [show ¬ n > d1.vis.length by omega, if_false]
        exact ih l' _ _ (by show List.drop n d1.vis = List.drop n d2.vis; rw [(hv : d1.vis = d2.vis)]) (by simp [List.length_drop]; omega)

theorem sim_slice_val {s t : Sl} (h : SameVis s t) {a b : Nat} (hab : a ≤ b) (hb : b ≤ s.vis.length) :
    Sim (fun x y => x.vis = (s.vis.drop a).take (b - a) ∧ y.vis = (s.vis.drop a).take (b - a))
      (s.slice a b) (t.slice a b) := by
  have hv : s.vis = t.vis := h
  have ht : b ≤ t.vis.length := by rw [← hv]; exact hb
  rw [Sl.slice_ok hab hb, Sl.slice_ok hab ht]
  exact Sim.ok ⟨rfl, by simp [hv]⟩

/-- the fixed-header reads: same record on any view of the same ≥ 20 bytes, and the port
    slices are bytes 0–1 and 2–3 -/
theorem sim_parseFixed (vis e1 e2 : Bytes) (h20' : 20 ≤ vis.length) :
    Sim (fun a b => a = b ∧ a.sPort = vis.take 2 ∧ a.dPort = (vis.drop 2).take 2)
      (parseFixed ⟨vis, e1⟩) (parseFixed ⟨vis, e2⟩) := by
  have hv : SameVis ⟨vis, e1⟩ ⟨vis, e2⟩ := rfl
  unfold parseFixed
  refine Sim.bind (sim_slice_val hv (by omega) (by simp only; omega)) fun sp1 sp2 esp' => ?_
  have esp : SameVisLen 2 sp1 sp2 := ⟨by rw [esp'.1, esp'.2], by rw [esp'.1]; simp [List.length_take]; omega⟩
  refine Sim.bind (sim_u16 esp (by omega)) fun _ _ e1 => ?_
  refine Sim.bind (sim_slice_val hv (by omega) (by simp only; omega)) fun dp1 dp2 edp' => ?_
  have edp : SameVisLen 2 dp1 dp2 := ⟨by rw [edp'.1, edp'.2], by rw [edp'.1]; simp [List.length_take, List.length_drop]; omega⟩
  refine Sim.bind (sim_u16 edp (by omega)) fun _ _ e2 => ?_
  refine Sim.bind (sim_slice hv (by omega) (by simp only; omega)) fun _ _ es => ?_
  refine Sim.bind (sim_u32 es (by omega)) fun _ _ e3 => ?_
  refine Sim.bind (sim_slice hv (by omega) (by simp only; omega)) fun _ _ es => ?_
  refine Sim.bind (sim_u32 es (by omega)) fun _ _ e4 => ?_
  refine Sim.bind (sim_idx hv (by simp only; omega)) fun b12 _ e5 => ?_
  refine Sim.bind (sim_idx hv (by simp only; omega)) fun b13 _ e6 => ?_
  refine Sim.bind (sim_slice hv (by omega) (by simp only; omega)) fun _ _ es => ?_
  refine Sim.bind (sim_u16 es (by omega)) fun _ _ e7 => ?_
  refine Sim.bind (sim_slice hv (by omega) (by simp only; omega)) fun _ _ es => ?_
  refine Sim.bind (sim_u16 es (by omega)) fun _ _ e8 => ?_
  refine Sim.bind (sim_slice hv (by omega) (by simp only; omega)) fun _ _ es => ?_
  refine Sim.bind (sim_u16 es (by omega)) fun _ _ e9 => ?_
  subst e1 e2 e3 e4 e5 e6 e7 e8 e9
  have hports : sp1.vis = vis.take 2 ∧ dp1.vis = (vis.drop 2).take 2 := ⟨by simpa using esp'.1, by simpa using edp'.1⟩
  rw [← esp.1, ← edp.1]
  exact Sim.ok ⟨rfl, hports⟩

/-- DecodeFromBytes (fixed code): any two buffers holding the same data give the same,
    non-panicking outcome. -/
theorem sim_decodeFromBytes (old : Layer) (vis e1 e2 : Bytes) :
    Sim Eq (decodeFromBytes Variant.fixed old ⟨vis, e1⟩) (decodeFromBytes Variant.fixed old ⟨vis, e2⟩) := by
  have hv : SameVis ⟨vis, e1⟩ ⟨vis, e2⟩ := rfl
  unfold decodeFromBytes
  simp only [Sl.len]
  refine Sim.ite (fun _ => Sim.ok rfl) fun h20 => ?_
  have h20' : 20 ≤ vis.length := by omega
  refine Sim.bind (sim_parseFixed vis e1 e2 h20') fun h _ eh => ?_
  obtain ⟨rfl, -, -⟩ := eh
  refine Sim.ite (fun _ => Sim.ok rfl) fun h5 => ?_
  refine Sim.ite (fun _ => Sim.ok rfl) fun hds => ?_
  refine Sim.bind (sim_slice hv (by omega) (by simp only; omega)) fun _ _ ec => ?_
  refine Sim.bind (sim_sliceFrom hv (by simp only; omega)) fun _ _ ep => ?_
  refine Sim.bind (sim_slice hv (by omega) (by simp only; omega)) fun od1 od2 eo => ?_
  rw [ec.1, (ep : _ = _)]
  have hl : od2.vis.length = od1.vis.length := by rw [eo.1]
  rw [hl]
  refine Sim.bind (sim_optLoop _ _ od1 od2 eo.1 (Nat.le_refl _)) fun _ _ er => ?_
  subst er
  exact Sim.ok rfl

/-- the public part of a layer: everything but the checksum pseudo-header configuration
    (`SetNetworkLayerForChecksum`), which DecodeFromBytes is not meant to touch -/
def Layer.pub (l : Layer) : Layer := { l with pseudo := none }

/-- same outcome; on success all fields (but the pseudo-header configuration) equal -/
def ResetRel (o1 o2 : DecOut) : Prop :=
  o1.trunc = o2.trunc ∧ o1.err = o2.err ∧ (o1.err = false → o1.layer.pub = o2.layer.pub)

/-- What a caller observes of a decode: truncation flag, error status and — on success — every
    field of the layer (but the pseudo-header configuration). -/
def resultView (r : Res DecOut) : Res (Bool × Bool × Option Layer) :=
  match r with
  | .ok o => .ok (o.trunc, o.err, if o.err then none else some o.layer.pub)
  | .err e => .err e
  | .panic k => .panic k

theorem resultView_of_sim {r1 r2 : Res DecOut} (h : Sim ResetRel r1 r2) : resultView r1 = resultView r2 := by
  cases h with
  | err e => rfl
  | ok h =>
    rename_i o1 o2
    obtain ⟨h1, h2, h3⟩ := h
    unfold resultView
    simp only
    cases he : o1.err with
    | true => rw [← h2, he, h1]; simp
    | false => rw [← h2, he, h1, h3 he]

/-- the port bytes behind TransportFlow are the first four bytes of the data -/
def PortFacts (vis : Bytes) (o : DecOut) : Prop :=
  20 ≤ vis.length → o.layer.sPort = vis.take 2 ∧ o.layer.dPort = (vis.drop 2).take 2

def DecRel (vis : Bytes) (o1 o2 : DecOut) : Prop := ResetRel o1 o2 ∧ PortFacts vis o1

/-- DecodeFromBytes (fixed code) into two different old layers (and buffers): same outcome. -/
theorem sim_decodeFromBytes_old (old1 old2 : Layer) (vis e1 e2 : Bytes) :
    Sim (DecRel vis) (decodeFromBytes Variant.fixed old1 ⟨vis, e1⟩) (decodeFromBytes Variant.fixed old2 ⟨vis, e2⟩) := by
  have hv : SameVis ⟨vis, e1⟩ ⟨vis, e2⟩ := rfl
  unfold decodeFromBytes
  simp only [Sl.len]
  refine Sim.ite (fun hlt => Sim.ok ⟨⟨rfl, rfl, fun h => by cases h⟩, fun h => by omega⟩) fun h20 => ?_
  have h20' : 20 ≤ vis.length := by omega
  refine Sim.bind (sim_parseFixed vis e1 e2 h20') fun h _ eh => ?_
  obtain ⟨rfl, hports⟩ := eh
  refine Sim.ite (fun _ => Sim.ok ⟨⟨rfl, rfl, fun h => by cases h⟩, fun _ => hports⟩) fun h5 => ?_
  refine Sim.ite (fun _ => Sim.ok ⟨⟨rfl, rfl, fun h => by cases h⟩, fun _ => hports⟩) fun hds => ?_
  refine Sim.bind (sim_slice hv (by omega) (by simp only; omega)) fun _ _ ec => ?_
  refine Sim.bind (sim_sliceFrom hv (by simp only; omega)) fun _ _ ep => ?_
  refine Sim.bind (sim_slice hv (by omega) (by simp only; omega)) fun od1 od2 eo => ?_
  rw [ec.1, (ep : _ = _)]
  have hl : od2.vis.length = od1.vis.length := by rw [eo.1]
  rw [hl]
  refine Sim.bind (sim_optLoop _ _ od1 od2 eo.1 (Nat.le_refl _)) fun _ _ er => ?_
  subst er
  exact Sim.ok ⟨⟨rfl, rfl, fun _ => rfl⟩, fun _ => hports⟩


/-- the port bytes of a decoded layer (any outcome, once the fixed header was there) -/
theorem decode_ports (old : Layer) (data foreign : Bytes) (o : DecOut)
    (h : decode Variant.fixed old data foreign = .ok o) (hlen : 20 ≤ data.length) :
    o.layer.sPort = data.take 2 ∧ o.layer.dPort = (data.drop 2).take 2 := by
  have hs := sim_decodeFromBytes_old old old data foreign foreign
  unfold decode at h
  rw [h] at hs
  cases hs with
  | ok hr => exact hr.2 hlen

/-- a decode without error has seen at least the 20-byte fixed header -/
theorem decode_ok_len (v : Variant) (old : Layer) (data foreign : Bytes) (o : DecOut)
    (h : decode v old data foreign = .ok o) (he : o.err = false) : 20 ≤ data.length := by
  apply Decidable.byContradiction
  intro hlt
  unfold decode decodeFromBytes at h
  have : (⟨data, foreign⟩ : Sl).len < 20 := by simp only [Sl.len]; omega
  rw [if_pos this] at h
  cases h
  cases he

/-- Fuel is irrelevant once it covers the data: the loop never runs out (termination). -/
theorem optLoop_fuel : ∀ (f1 f2 : Nat) (l : OptSt) (d : Sl), d.vis.length ≤ f1 → d.vis.length ≤ f2 →
    optLoop Variant.fixed f1 l d = optLoop Variant.fixed f2 l d := by
  intro f1
  induction f1 with
  | zero =>
    intro f2 l d h1 h2
    have h0 : d.vis.length = 0 := by omega
    cases f2 <;> (unfold optLoop; simp [h0])
  | succ f1 ih =>
    intro f2 l d h1 h2
    by_cases h0 : d.vis.length = 0
    · cases f2 <;> (unfold optLoop; simp [h0])
    · cases f2 with
      | zero => omega
      | succ f2 =>
        unfold optLoop
        simp only [h0, if_false]
        have hs := sim_optStep (d1 := d) (d2 := d) rfl l (by omega)
        generalize optStep Variant.fixed l d = r at hs ⊢
        cases hs with
        | err e => rfl
        | ok h =>
          obtain ⟨_, hok⟩ := h
          rename_i a _
          cases a with
          | stop o => rfl
          | cont l' n =>
            obtain ⟨hn1, hn2, _⟩ := hok
            simp only [show ¬ n > d.vis.length by omega, if_false]
            exact ih f2 l' _ (by simp [List.length_drop]; omega) (by simp [List.length_drop]; omega)

end Gp.Tcp
