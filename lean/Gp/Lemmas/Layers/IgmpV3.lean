import Gp.Lemmas.Layers.Igmp
/-
  Helper lemmas for engine `ligmp`, part 3: IGMP (IGMPv3 membership query / report) — the functional
  specification of `IGMP.DecodeFromBytes` (source-address loop, group-record loop), the proof that the model
  computes it for every capacity, and counting facts.  Core Lean only.
-/
namespace Gp.Igmp
open Gp Gp.Gen.Igmp

/-! ## 1. Definitions used in property statements -/

/-- `n` consecutive 4-byte addresses starting at `lo + 4·j`. -/
def addrs (v : Bytes) (lo : Nat) : Nat → Nat → List Bytes
  | 0, _ => []
  | n + 1, j => (v.drop (lo + j * 4)).take 4 :: addrs v lo n (j + 1)

/-- The layer right after the reset and the type assignment of `IGMP.DecodeFromBytes`. -/
def base3 (v : Bytes) : IGMP := { IGMP.fresh with contents := v, version := 3, typ := (byteAt v 0).toNat }

/-- The receiver after the fixed-header assignments of the query decoder. -/
def queryHdr (l : IGMP) (v : Bytes) : IGMP :=
  { l with maxResponseTime := timeDecode (byteAt v 1), checksum := u16At v 2,
           supressRouterProcessing := ((byteAt v 8).toNat &&& 0x8 != 0), groupAddress := (v.drop 4).take 4,
           robustnessValue := (byteAt v 8).toNat &&& 0x7, intervalTime := timeDecode (byteAt v 9),
           numberOfSources := u16At v 10 }

def querySpec (l : IGMP) (v : Bytes) : DecOut IGMP :=
  if v.length < 12 then { layer := l, trunc := false, err := true }
  else if v.length < 12 + u16At v 10 * 4 then { layer := queryHdr l v, trunc := false, err := true }
  else { layer := { queryHdr l v with sourceAddresses := l.sourceAddresses ++ addrs v 12 (u16At v 10) 0 },
         trunc := false, err := false }

/-- The group record at offset `ro`. -/
def recordAt (v : Bytes) (ro : Nat) : GroupRecord :=
  { typ := (byteAt v ro).toNat, auxDataLen := (byteAt v (ro + 1)).toNat, numberOfSources := u16At v (ro + 2),
    multicastAddress := (v.drop (ro + 4)).take 4, sourceAddresses := addrs v (ro + 8) (u16At v (ro + 2)) 0, auxData := 0 }

/-- The group-record loop as a function of the visible bytes. -/
def recSpec (v : Bytes) : Nat → Nat → IGMP → DecOut IGMP
  | 0, _, l => { layer := l, trunc := false, err := false }
  | n + 1, ro, l =>
    if v.length < ro + 8 then { layer := l, trunc := false, err := true }
    else if v.length < ro + 8 + u16At v (ro + 2) * 4 then { layer := l, trunc := false, err := true }
    else recSpec v n (ro + 8 + 4 * u16At v (ro + 2)) { l with groupRecords := l.groupRecords ++ [recordAt v ro] }

def reportSpec (l : IGMP) (v : Bytes) : DecOut IGMP :=
  if v.length < 8 then { layer := l, trunc := false, err := true }
  else recSpec v (u16At v 6) 8 { l with checksum := u16At v 2, numberOfGroupRecords := u16At v 6 }

/-- What `IGMP.DecodeFromBytes` computes: the receiver matters only for an empty input. -/
def igmp3DecSpec (old : IGMP) (v : Bytes) : DecOut IGMP :=
  if v.length < 1 then { layer := old, trunc := false, err := true }
  else if (byteAt v 0).toNat = igmpMembershipQuery then querySpec (base3 v) v
  else if (byteAt v 0).toNat = igmpMembershipReportV3 then reportSpec (base3 v) v
  else { layer := base3 v, trunc := false, err := true }

/-! ## 2. The loops -/

theorem addrLoop_eq (d : GSlice) (lo hi : Nat) (hhi : hi = lo + 4) : ∀ (n j : Nat) (acc : List Bytes),
    lo + (j + n) * 4 ≤ d.len → addrLoop d lo hi n j acc = .ok (acc ++ addrs d.vis lo n j) := by
  intro n
  induction n with
  | zero => intro j acc _; simp [addrLoop, addrs]
  | succ n ih =>
    intro j acc hb
    unfold addrLoop addrs
    subst hhi
    rw [GSlice.slice_ok d (lo + j * 4) (lo + 4 + j * 4) (by omega) (by omega), Res.bind_ok]
    have e : lo + 4 + j * 4 - (lo + j * 4) = 4 := by omega
    rw [e, ih (j + 1) _ (by omega)]
    simp

theorem addrs_length (v : Bytes) (lo : Nat) : ∀ n j, (addrs v lo n j).length = n := by
  intro n
  induction n with
  | zero => intro j; rfl
  | succ n ih => intro j; simp [addrs, ih]

theorem IGMP.decodeQuery_eq (l : IGMP) (d : GSlice) : l.decodeQuery d = .ok (querySpec l d.vis) := by
  unfold IGMP.decodeQuery querySpec
  by_cases hs : d.len < 12
  · rw [if_pos hs, if_pos (show d.vis.length < 12 from hs)]
  · have hl : 12 ≤ d.vis.length := by unfold GSlice.len at hs; omega
    have hl' : 12 ≤ d.len := hl
    rw [if_neg hs, if_neg (show ¬ d.vis.length < 12 by omega)]
    rw [GSlice.index_ok d 1 (by omega), Res.bind_ok]
    rw [GSlice.slice_ok d 2 4 (by omega) (by omega), Res.bind_ok]
    simp only [Nat.reduceSub]
    rw [uint16_vis d.vis _ 2 (by omega), Res.bind_ok]
    rw [GSlice.index_ok d 8 (by omega)]
    simp only [Res.bind_ok]
    rw [GSlice.slice_ok d 4 8 (by omega) (by omega), Res.bind_ok]
    rw [GSlice.index_ok d 9 (by omega), Res.bind_ok]
    rw [GSlice.slice_ok d 10 12 (by omega) (by omega), Res.bind_ok]
    simp only [Nat.reduceSub]
    rw [uint16_vis d.vis _ 10 (by omega), Res.bind_ok]
    by_cases hn : d.len < 12 + u16At d.vis 10 * 4
    · rw [if_pos hn, if_pos (show d.vis.length < 12 + u16At d.vis 10 * 4 from hn)]; rfl
    · rw [if_neg hn, if_neg (show ¬ d.vis.length < 12 + u16At d.vis 10 * 4 from hn)]
      rw [addrLoop_eq d 12 16 rfl _ 0 _ (by omega), Res.bind_ok]
      rfl

theorem recLoop_eq (d : GSlice) : ∀ (n ro : Nat) (l : IGMP), recLoop d n ro l = .ok (recSpec d.vis n ro l) := by
  intro n
  induction n with
  | zero => intro ro l; rfl
  | succ n ih =>
    intro ro l
    unfold recLoop recSpec
    by_cases h1 : d.len < ro + 8
    · rw [if_pos h1, if_pos (show d.vis.length < ro + 8 from h1)]
    · rw [if_neg h1, if_neg (show ¬ d.vis.length < ro + 8 from h1)]
      rw [GSlice.index_ok d ro (by omega), Res.bind_ok]
      rw [GSlice.index_ok d (ro + 1) (by omega), Res.bind_ok]
      rw [GSlice.slice_ok d (ro + 2) (ro + 4) (by omega) (by omega), Res.bind_ok]
      have e2 : ro + 4 - (ro + 2) = 2 := by omega
      rw [e2, uint16_vis d.vis _ (ro + 2) (by unfold GSlice.len at h1; omega), Res.bind_ok]
      rw [GSlice.slice_ok d (ro + 4) (ro + 8) (by omega) (by omega), Res.bind_ok]
      have e4 : ro + 8 - (ro + 4) = 4 := by omega
      rw [e4]
      by_cases h2 : d.len < ro + 8 + u16At d.vis (ro + 2) * 4
      · rw [if_pos h2, if_pos (show d.vis.length < ro + 8 + u16At d.vis (ro + 2) * 4 from h2)]; rfl
      · rw [if_neg h2, if_neg (show ¬ d.vis.length < ro + 8 + u16At d.vis (ro + 2) * 4 from h2)]
        rw [addrLoop_eq d (ro + 8) (ro + 12) (by omega) _ 0 _ (by omega), Res.bind_ok]
        rw [ih]
        rfl

theorem IGMP.decodeReport_eq (l : IGMP) (d : GSlice) : l.decodeReport d = .ok (reportSpec l d.vis) := by
  unfold IGMP.decodeReport reportSpec
  by_cases hs : d.len < 8
  · rw [if_pos hs, if_pos (show d.vis.length < 8 from hs)]
  · have hl : 8 ≤ d.vis.length := by unfold GSlice.len at hs; omega
    rw [if_neg hs, if_neg (show ¬ d.vis.length < 8 by omega)]
    rw [GSlice.slice_ok d 2 4 (by omega) (by unfold GSlice.len; omega), Res.bind_ok]
    simp only [Nat.reduceSub]
    rw [uint16_vis d.vis _ 2 (by omega), Res.bind_ok]
    rw [GSlice.slice_ok d 6 8 (by omega) (by unfold GSlice.len; omega), Res.bind_ok]
    simp only [Nat.reduceSub]
    rw [uint16_vis d.vis _ 6 (by omega), Res.bind_ok]
    exact recLoop_eq d _ _ _

theorem IGMP.decode_eq (old : IGMP) (d : GSlice) :
    old.decodeFromBytes d = .ok (igmp3DecSpec old d.vis) := by
  unfold IGMP.decodeFromBytes igmp3DecSpec
  by_cases hs : d.len < 1
  · rw [if_pos hs, if_pos (show d.vis.length < 1 from hs)]
  · have hl : 1 ≤ d.vis.length := by unfold GSlice.len at hs; omega
    rw [if_neg hs, if_neg (show ¬ d.vis.length < 1 by omega)]
    rw [GSlice.index_ok d 0 (by unfold GSlice.len; omega), Res.bind_ok]
    have eb : ({ IGMP.fresh with contents := d.vis, version := 3, typ := (byteAt d.vis 0).toNat } : IGMP) = base3 d.vis := rfl
    simp only [eb]
    by_cases hq : (byteAt d.vis 0).toNat = igmpMembershipQuery
    · rw [if_pos hq, if_pos hq]; exact IGMP.decodeQuery_eq _ d
    · rw [if_neg hq, if_neg hq]
      by_cases hr : (byteAt d.vis 0).toNat = igmpMembershipReportV3
      · rw [if_pos hr, if_pos hr]; exact IGMP.decodeReport_eq _ d
      · rw [if_neg hr, if_neg hr]; rfl

/-! ## 3. Facts about the specification -/

/-- Error flag and truncation contribution do not depend on the receiver; on success neither does the layer. -/
theorem igmp3DecSpec_indep (a b : IGMP) (v : Bytes) : (igmp3DecSpec a v).err = (igmp3DecSpec b v).err ∧
    (igmp3DecSpec a v).trunc = (igmp3DecSpec b v).trunc ∧
    ((igmp3DecSpec a v).err = false → (igmp3DecSpec a v).layer = (igmp3DecSpec b v).layer) := by
  unfold igmp3DecSpec
  by_cases h1 : v.length < 1
  · rw [if_pos h1, if_pos h1]; exact ⟨rfl, rfl, fun hh => by cases hh⟩
  · rw [if_neg h1, if_neg h1]; exact ⟨rfl, rfl, fun _ => rfl⟩

/-- A successful run of the record loop appends exactly `n` records. -/
theorem recSpec_count (v : Bytes) : ∀ (n ro : Nat) (l : IGMP), (recSpec v n ro l).err = false →
    (recSpec v n ro l).layer.groupRecords.length = l.groupRecords.length + n ∧
    (recSpec v n ro l).layer.sourceAddresses = l.sourceAddresses := by
  intro n
  induction n with
  | zero => intro ro l _; exact ⟨rfl, rfl⟩
  | succ n ih =>
    intro ro l h
    unfold recSpec at h ⊢
    by_cases h1 : v.length < ro + 8
    · rw [if_pos h1] at h; cases h
    · rw [if_neg h1] at h ⊢
      by_cases h2 : v.length < ro + 8 + u16At v (ro + 2) * 4
      · rw [if_pos h2] at h; cases h
      · rw [if_neg h2] at h ⊢
        have := ih _ _ h
        rw [this.1, this.2]
        simp only [List.length_append, List.length_cons, List.length_nil]
        exact ⟨by omega, trivial⟩

/-- Every record the loop appends carries exactly as many source addresses as its own count field says. -/
theorem recSpec_records_wf (v : Bytes) : ∀ (n ro : Nat) (l : IGMP),
    (∀ g ∈ l.groupRecords, g.sourceAddresses.length = g.numberOfSources) →
    ∀ g ∈ (recSpec v n ro l).layer.groupRecords, g.sourceAddresses.length = g.numberOfSources := by
  intro n
  induction n with
  | zero => intro ro l hl; exact hl
  | succ n ih =>
    intro ro l hl
    unfold recSpec
    by_cases h1 : v.length < ro + 8
    · rw [if_pos h1]; exact hl
    · rw [if_neg h1]
      by_cases h2 : v.length < ro + 8 + u16At v (ro + 2) * 4
      · rw [if_pos h2]; exact hl
      · rw [if_neg h2]
        apply ih
        intro g hg
        rw [List.mem_append] at hg
        rcases hg with hg | hg
        · exact hl g hg
        · rw [List.mem_singleton] at hg
          subst hg
          simp [recordAt, addrs_length]

end Gp.Igmp
