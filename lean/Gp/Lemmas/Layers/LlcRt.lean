import Gp.Lemmas.Layers.LlcSer4
/-
  Helper lemmas for engine `lllc`, part 7: well-formedness, ≈, decoding what the serializers wrote.

  Section 1 holds the *definitions* that occur in the statements of the C06 theorems.
-/
namespace Gp.Llc
open Gp Gp.SBuf Gp.C18 Gp.Gen.Llc

/-! ## 1. Definitions used in property statements -/

/-- In-range LLC field values: SAP addresses fit a byte and do not contain their flag bit (it is
    carried by IG / CR); Control fits 16 bits, and a two-octet control field (≥ 0x100) does not start
    with the U-format marker (low two bits of the first octet both set). -/
def wfLlc (l : LLC) : Prop :=
  l.dsap < 256 ∧ l.dsap % 2 = 0 ∧ l.ssap < 256 ∧ l.ssap % 2 = 0 ∧ l.control < 65536 ∧
  (256 ≤ l.control → l.control / 256 % 4 ≠ 3)

instance (l : LLC) : Decidable (wfLlc l) := by unfold wfLlc; infer_instance

/-- Field equivalence `≈` for LLC: all public fields; ignores BaseLayer.Contents/Payload. -/
def LlcEquiv (a b : LLC) : Prop :=
  a.dsap = b.dsap ∧ a.ig = b.ig ∧ a.ssap = b.ssap ∧ a.cr = b.cr ∧ a.control = b.control

/-- In-range SNAP field values: a 3-byte organisation code, a 16-bit type. -/
def wfSnap (l : SNAP) : Prop := l.org.length = 3 ∧ l.type < 65536

instance (l : SNAP) : Decidable (wfSnap l) := by unfold wfSnap; infer_instance

def SnapEquiv (a b : SNAP) : Prop := a.org = b.org ∧ a.type = b.type

/-- In-range bridge identifier: priority a multiple of 4096 below 65536 (0 included), a 12-bit system
    id extension, a 6-byte address. -/
def wfSwitch (s : SwitchID) : Prop :=
  s.priority % 4096 = 0 ∧ s.priority < 65536 ∧ s.sysID < 4096 ∧ s.hwAddr.length = 6

instance (s : SwitchID) : Decidable (wfSwitch s) := by unfold wfSwitch; infer_instance

def wfStp (l : STP) : Prop :=
  l.protocolID < 65536 ∧ l.version < 256 ∧ l.type < 256 ∧ wfSwitch l.routeID ∧ l.cost < 4294967296 ∧
  wfSwitch l.bridgeID ∧ l.portID < 65536 ∧ l.messageAge < 65536 ∧ l.maxAge < 65536 ∧
  l.helloTime < 65536 ∧ l.fDelay < 65536

instance (l : STP) : Decidable (wfStp l) := by unfold wfStp; infer_instance

/-- Field equivalence `≈` for STP: all public fields (the two switch ids as wholes). -/
def StpEquiv (a b : STP) : Prop :=
  a.protocolID = b.protocolID ∧ a.version = b.version ∧ a.type = b.type ∧ a.tc = b.tc ∧ a.tca = b.tca ∧
  a.routeID = b.routeID ∧ a.cost = b.cost ∧ a.bridgeID = b.bridgeID ∧ a.portID = b.portID ∧
  a.messageAge = b.messageAge ∧ a.maxAge = b.maxAge ∧ a.helloTime = b.helloTime ∧ a.fDelay = b.fDelay

/-! ## 2. Bit arithmetic -/

theorem u8_toNat (n : Nat) : (u8 n).toNat = n % 256 := by simp [u8]

theorem be16_putBe16 (n : Nat) (h : n < 65536) : be16 (u8 (n / 256)) (u8 n) = n := by
  unfold be16; rw [u8_toNat, u8_toNat]; omega

theorem be32_putBe32 (n : Nat) (h : n < 4294967296) :
    be32 (u8 (n / 16777216)) (u8 (n / 65536)) (u8 (n / 256)) (u8 n) = n := by
  unfold be32; rw [u8_toNat, u8_toNat, u8_toNat, u8_toNat]; omega

theorem and_one (x : Nat) : x &&& 0x1 = x % 2 := by
  have : (0x1 : Nat) = 2 ^ 1 - 1 := by decide
  rw [this, Nat.and_two_pow_sub_one_eq_mod]

theorem and_three (x : Nat) : x &&& 0x3 = x % 4 := by
  have : (0x3 : Nat) = 2 ^ 2 - 1 := by decide
  rw [this, Nat.and_two_pow_sub_one_eq_mod]

theorem and_0fff (x : Nat) : x &&& 0x0fff = x % 4096 := by
  have : (0x0fff : Nat) = 2 ^ 12 - 1 := by decide
  rw [this, Nat.and_two_pow_sub_one_eq_mod]

/-- A mask of `m` one-bits starting at bit `k` selects the digit `x / 2^k % 2^m`. -/
theorem and_shifted_mask (x k m : Nat) : x &&& ((2 ^ m - 1) * 2 ^ k) = x / 2 ^ k % 2 ^ m * 2 ^ k := by
  have h1 : (x &&& ((2 ^ m - 1) * 2 ^ k)) / 2 ^ k = x / 2 ^ k % 2 ^ m := by
    rw [← Nat.shiftRight_eq_div_pow, Nat.shiftRight_and_distrib, Nat.shiftRight_eq_div_pow,
      Nat.shiftRight_eq_div_pow, Nat.mul_div_cancel _ (Nat.two_pow_pos k), Nat.and_two_pow_sub_one_eq_mod]
  have h2 : (x &&& ((2 ^ m - 1) * 2 ^ k)) % 2 ^ k = 0 := by
    rw [← Nat.and_two_pow_sub_one_eq_mod, Nat.and_assoc]
    have : (2 ^ m - 1) * 2 ^ k &&& (2 ^ k - 1) = 0 := by
      rw [Nat.and_two_pow_sub_one_eq_mod, Nat.mul_mod_left]
    rw [this, Nat.and_zero]
  have := Nat.div_add_mod (x &&& ((2 ^ m - 1) * 2 ^ k)) (2 ^ k)
  rw [h1, h2] at this
  rw [← this, Nat.mul_comm]; rfl

theorem and_f000 (x : Nat) : x &&& 0xf000 = x / 4096 % 16 * 4096 := by
  have := and_shifted_mask x 12 4
  exact this

theorem and_ff00 (x : Nat) : x &&& 0xFF00 = x / 256 % 256 * 256 := by
  have := and_shifted_mask x 8 8
  exact this

theorem and_fe (x : Nat) : x &&& 0xFE = x / 2 % 128 * 2 := by
  have := and_shifted_mask x 1 7
  exact this

theorem and_80 (x : Nat) : x &&& 0x80 = x / 128 % 2 * 128 := by
  have := and_shifted_mask x 7 1
  exact this

theorem shl8_or (hi lo : Nat) (hh : hi < 256) (hl : lo < 256) : ((hi <<< 8) % 65536) ||| lo = hi * 256 + lo := by
  rw [Nat.shiftLeft_eq]
  have e : hi * 2 ^ 8 % 65536 = 2 ^ 8 * hi := by omega
  rw [e, ← Nat.two_pow_add_eq_or_of_lt (by omega)]; omega

theorem prio_or_sys (prio sys : Nat) (hp : prio % 4096 = 0) (hs : sys < 4096) : prio ||| sys = prio + sys := by
  have e : prio = 2 ^ 12 * (prio / 4096) := by omega
  rw [e, ← Nat.two_pow_add_eq_or_of_lt (by omega)]

theorem ctlTwoOctets_iff (c : Nat) : ctlTwoOctets c ↔ c % 4 ≠ 3 := by
  unfold ctlTwoOctets; rw [and_one, and_three]; omega

theorem llcLen_eq (l : LLC) (h : l.control < 65536) :
    llcLen l = if 256 ≤ l.control ∨ l.control % 4 ≠ 3 then 4 else 3 := by
  unfold llcLen; rw [and_ff00, and_three]
  by_cases hc : 256 ≤ l.control
  · rw [if_pos (Or.inl (by omega)), if_pos (Or.inl hc)]
  · by_cases h3 : l.control % 4 ≠ 3
    · rw [if_pos (Or.inr h3), if_pos (Or.inr h3)]
    · rw [if_neg (by omega), if_neg (by omega)]

/-- A SAP address without its flag bit plus the flag comes back as (address, flag). -/
theorem sap_bits (d : Nat) (f : Bool) (hd : d < 256) (he : d % 2 = 0) :
    (u8 (d + (if f then 1 else 0))).toNat &&& 0xFE = d ∧
    ((u8 (d + (if f then 1 else 0))).toNat &&& 0x1 != 0) = f := by
  rw [u8_toNat, and_fe, and_one]
  cases f
  · simp only [Bool.false_eq_true, if_false, Nat.add_zero]
    refine ⟨by omega, ?_⟩
    have : d % 256 % 2 = 0 := by omega
    simp [this]
  · simp only [if_true]
    refine ⟨by omega, ?_⟩
    have : (d + 1) % 256 % 2 = 1 := by omega
    simp [this]

theorem flag_bits (tc tca : Bool) :
    let f := (u8 (if tca then (if tc then 0x00 ||| 0x01 else 0x00) ||| 0x80 else (if tc then 0x00 ||| 0x01 else 0x00))).toNat
    (f &&& 0x01 != 0) = tc ∧ (f &&& 0x80 != 0) = tca := by
  cases tc <;> cases tca <;> decide

/-! ## 3. Decoding what LLC.SerializeTo wrote -/

theorem llcDecSpec_frame (old l : LLC) (p : Bytes) (hw : wfLlc l) :
    llcDecSpec old (llcHdr l (llcLen l) ++ p) =
      { layer := { l with contents := llcHdr l (llcLen l), payload := p }, trunc := false, err := false } := by
  obtain ⟨hd, hde, hs, hse, hc, hu⟩ := hw
  obtain ⟨d1, d2⟩ := sap_bits l.dsap l.ig hd hde
  obtain ⟨s1, s2⟩ := sap_bits l.ssap l.cr hs hse
  rw [llcLen_eq l hc]
  by_cases h4 : 256 ≤ l.control ∨ l.control % 4 ≠ 3
  · rw [if_pos h4]
    have hhi : l.control / 256 < 256 := by omega
    have e2 : byteAt (llcHdr l 4 ++ p) 2 = l.control / 256 := by
      show (u8 (l.control >>> 8)).toNat = _
      rw [u8_toNat, Nat.shiftRight_eq_div_pow]; omega
    have e3 : byteAt (llcHdr l 4 ++ p) 3 = l.control % 256 := by
      show (u8 l.control).toNat = _
      rw [u8_toNat]
    have e0 : byteAt (llcHdr l 4 ++ p) 0 = (u8 (l.dsap + (if l.ig then 1 else 0))).toNat := rfl
    have e1 : byteAt (llcHdr l 4 ++ p) 1 = (u8 (l.ssap + (if l.cr then 1 else 0))).toNat := rfl
    have hl4 : (llcHdr l 4).length = 4 := rfl
    have htwo : ctlTwoOctets (l.control / 256) := by
      rw [ctlTwoOctets_iff]
      by_cases hc2 : 256 ≤ l.control
      · exact hu hc2
      · have : l.control / 256 = 0 := by omega
        rw [this]; decide
    unfold llcDecSpec
    simp only [e0, e1, e2, e3, d1, d2, s1, s2]
    rw [if_pos htwo, if_neg (by rw [List.length_append, hl4]; omega),
      shl8_or _ _ hhi (by omega), List.take_left' hl4, List.drop_left' hl4]
    have : l.control / 256 * 256 + l.control % 256 = l.control := by omega
    rw [this]
  · rw [if_neg h4]
    have hlt : l.control < 256 := by omega
    have e2 : byteAt (llcHdr l 3 ++ p) 2 = l.control := by
      show (u8 l.control).toNat = _
      rw [u8_toNat]; omega
    have e0 : byteAt (llcHdr l 3 ++ p) 0 = (u8 (l.dsap + (if l.ig then 1 else 0))).toNat := rfl
    have e1 : byteAt (llcHdr l 3 ++ p) 1 = (u8 (l.ssap + (if l.cr then 1 else 0))).toNat := rfl
    have hl3 : (llcHdr l 3).length = 3 := rfl
    have hone : ¬ ctlTwoOctets l.control := by
      rw [ctlTwoOctets_iff]; omega
    unfold llcDecSpec
    simp only [e0, e1, e2, d1, d2, s1, s2]
    rw [if_neg hone, List.take_left' hl3, List.drop_left' hl3]

theorem llcHdr_length (l : LLC) (n : Nat) : 3 ≤ (llcHdr l n).length := by
  unfold llcHdr; by_cases h : n = 4 <;> simp [h]

/-- Every successfully decoded LLC layer is well-formed. -/
theorem llcDecSpec_wf (old : LLC) (v : Bytes) (he : (llcDecSpec old v).err = false) :
    wfLlc (llcDecSpec old v).layer := by
  have b0 := byteAt_lt v 0
  have b1 := byteAt_lt v 1
  have b2 := byteAt_lt v 2
  have b3 := byteAt_lt v 3
  unfold llcDecSpec at he ⊢
  simp only at he ⊢
  by_cases hc : ctlTwoOctets (byteAt v 2)
  · rw [if_pos hc] at he ⊢
    by_cases h4 : v.length < 4
    · rw [if_pos h4] at he; cases he
    · rw [if_neg h4]
      unfold wfLlc
      simp only
      rw [and_fe, and_fe, shl8_or _ _ b2 b3]
      rw [ctlTwoOctets_iff] at hc
      refine ⟨by omega, by omega, by omega, by omega, by omega, fun _ => ?_⟩
      have : (byteAt v 2 * 256 + byteAt v 3) / 256 = byteAt v 2 := by omega
      rw [this]; exact hc
  · rw [if_neg hc]
    unfold wfLlc
    simp only
    rw [and_fe, and_fe]
    exact ⟨by omega, by omega, by omega, by omega, by omega, fun h => by omega⟩

/-! ## 4. SNAP -/

theorem snapDecSpec_frame (l : SNAP) (p : Bytes) (hw : wfSnap l) :
    snapDecSpec (l.org.take 3 ++ putBe16 l.type ++ p) =
      { layer := { l with contents := l.org ++ putBe16 l.type, payload := p }, trunc := false, err := false } := by
  obtain ⟨ho, ht⟩ := hw
  have ht3 : l.org.take 3 = l.org := List.take_of_length_le (by omega)
  rw [ht3]
  have h5 : (l.org ++ putBe16 l.type).length = 5 := by rw [List.length_append, ho]; rfl
  have e : u16At (l.org ++ putBe16 l.type ++ p) 3 = l.type := by
    have : u16At (l.org ++ putBe16 l.type ++ p) 3 = be16 (u8 (l.type / 256)) (u8 l.type) := by
      unfold u16At putBe16
      rw [List.append_assoc]
      simp [List.getD_eq_getElem?_getD, List.getElem?_append_right, ho]
    rw [this, be16_putBe16 _ ht]
  unfold snapDecSpec
  rw [e, List.take_left' h5, List.drop_left' h5]
  have : (l.org ++ putBe16 l.type ++ p).take 3 = l.org := by
    rw [List.append_assoc]; exact List.take_left' ho
  rw [this]

theorem snapDecSpec_wf (v : Bytes) (h : 5 ≤ v.length) : wfSnap (snapDecSpec v).layer := by
  unfold snapDecSpec wfSnap
  simp only
  exact ⟨by rw [List.length_take]; omega, u16At_lt v 3⟩

end Gp.Llc
