import Gp.Lemmas.Layers.LlcSer
/-
  Helper lemmas for engine `lllc`, part 5: STP.SerializeTo = its functional specification.
-/
namespace Gp.Llc
open Gp Gp.SBuf Gp.C18 Gp.Gen.Llc

theorem padHw_eq (hw : Bytes) :
    hw.take 6 ++ (lotsOfZeros.take 6).drop (hw.take 6).length = padHw hw := by
  unfold padHw; rw [lotsOfZeros_take 6 (by omega)]

theorem padHw_length (hw : Bytes) : (padHw hw).length = 6 := by
  unfold padHw
  simp only [List.length_append, List.length_drop, List.length_take, zeros_length]
  omega

theorem take6_le (hw : Bytes) : (hw.take 6).length ≤ (lotsOfZeros.take 6).length := by
  rw [lotsOfZeros_take 6 (by omega), zeros_length, List.length_take]; omega

theorem lz6_length : (lotsOfZeros.take 6).length = 6 := by
  rw [lotsOfZeros_take 6 (by omega), zeros_length]

theorem stp_serializeTo_refines (l : STP) (b : SBuf) (fix csum : Bool) (h : Inv b) :
    ∃ o, l.serializeTo b fix csum = .ok o ∧ Inv o.buf ∧
      o.layer = (stpSerSpec l (contents b)).layer ∧ o.err = (stpSerSpec l (contents b)).err ∧
      ((stpSerSpec l (contents b)).err = false → contents o.buf = (stpSerSpec l (contents b)).bytes) := by
  unfold STP.serializeTo STP.serializeWith stpSerSpec switchBad
  obtain ⟨hh, hn, hdrop, hl⟩ := prepend_hdr b 35 h
  generalize prepend b 35 = r at hh hn hdrop hl
  obtain ⟨b1, w⟩ := r
  simp only at hh hn hdrop hl ⊢
  have t0 := track_init b1 w hh
  generalize hC : contents b1 = C at t0 hdrop
  have t1 := track_fill b1 w C [] (putBe16 l.protocolID) 0 w.n t0 rfl (by rw [putBe16_length]; omega)
  have t2 := track_fill _ w C _ [u8 l.version] 2 1 t1 rfl (by simp only [List.length_singleton]; omega)
  have t3 := track_fill _ w C _ [u8 l.type] 3 1 t2 rfl (by simp only [List.length_singleton]; omega)
  have t4 := track_fill _ w C _ [u8 (stpFlags l)] 4 1 t3 rfl (by simp only [List.length_singleton]; omega)
  simp only [putUint16, putUint32, store, winSlice, copyTo, hn, Nat.reduceLT, Nat.reduceLeDiff, and_self,
    if_true, if_false, Nat.reduceSub, Nat.lt_irrefl, pure, bind, Res.bind]
  by_cases hr1 : checkPriorityErr l.routeID.priority = true
  · simp only [hr1, if_true, Bool.true_or]
    exact ⟨_, rfl, t4.hdr.inv, rfl, rfl, fun hh => by cases hh⟩
  by_cases hr2 : l.routeID.sysID ≥ 4096
  · simp only [hr1, hr2, if_true, if_false, decide_true, Bool.or_true, Bool.true_or]
    exact ⟨_, rfl, t4.hdr.inv, rfl, rfl, fun hh => by cases hh⟩
  have t5 := track_fill _ w C _ (putBe16 (l.routeID.priority ||| l.routeID.sysID)) 5 2 t4 rfl (by rw [putBe16_length]; omega)
  have t6 := track_fill _ w C _ (lotsOfZeros.take 6) 7 6 t5 rfl (by rw [lz6_length]; omega)
  have t7 := track_over _ w C _ _ (l.routeID.hwAddr.take 6) 7 6 t6 rfl (take6_le _)
  rw [padHw_eq] at t7
  have hp1 := padHw_length l.routeID.hwAddr
  generalize hH1 : padHw l.routeID.hwAddr = H1 at t7 hp1
  have t8 := track_fill _ w C _ (putBe32 l.cost) 13 4 t7
    (by simp only [List.length_append, hp1, putBe16_length, List.length_singleton, List.length_nil])
    (by rw [putBe32_length]; omega)
  by_cases hb1 : checkPriorityErr l.bridgeID.priority = true
  · simp only [hr1, hr2, hb1, if_true, if_false, decide_false, Bool.or_false, Bool.false_or, Bool.true_or]
    exact ⟨_, rfl, t8.hdr.inv, rfl, rfl, fun hh => by cases hh⟩
  by_cases hb2 : l.bridgeID.sysID ≥ 4096
  · simp only [hr1, hr2, hb1, hb2, if_true, if_false, decide_true, decide_false, Bool.or_false, Bool.false_or, Bool.or_true]
    exact ⟨_, rfl, t8.hdr.inv, rfl, rfl, fun hh => by cases hh⟩
  have t9 := track_fill _ w C _ (putBe16 (l.bridgeID.priority ||| l.bridgeID.sysID)) 17 2 t8
    (by simp only [List.length_append, hp1, putBe16_length, putBe32_length, List.length_singleton, List.length_nil])
    (by rw [putBe16_length]; omega)
  have t10 := track_fill _ w C _ (lotsOfZeros.take 6) 19 6 t9
    (by simp only [List.length_append, hp1, putBe16_length, putBe32_length, List.length_singleton, List.length_nil])
    (by rw [lz6_length]; omega)
  have t11 := track_over _ w C _ _ (l.bridgeID.hwAddr.take 6) 19 6 t10
    (by simp only [List.length_append, hp1, putBe16_length, putBe32_length, List.length_singleton, List.length_nil])
    (take6_le _)
  rw [padHw_eq] at t11
  have hp2 := padHw_length l.bridgeID.hwAddr
  generalize hH2 : padHw l.bridgeID.hwAddr = H2 at t11 hp2
  have t12 := track_fill _ w C _ (putBe16 l.portID) 25 2 t11
    (by simp only [List.length_append, hp1, hp2, putBe16_length, putBe32_length, List.length_singleton, List.length_nil])
    (by rw [putBe16_length]; omega)
  have t13 := track_fill _ w C _ (putBe16 l.messageAge) 27 2 t12
    (by simp only [List.length_append, hp1, hp2, putBe16_length, putBe32_length, List.length_singleton, List.length_nil])
    (by rw [putBe16_length]; omega)
  have t14 := track_fill _ w C _ (putBe16 l.maxAge) 29 2 t13
    (by simp only [List.length_append, hp1, hp2, putBe16_length, putBe32_length, List.length_singleton, List.length_nil])
    (by rw [putBe16_length]; omega)
  have t15 := track_fill _ w C _ (putBe16 l.helloTime) 31 2 t14
    (by simp only [List.length_append, hp1, hp2, putBe16_length, putBe32_length, List.length_singleton, List.length_nil])
    (by rw [putBe16_length]; omega)
  have t16 := track_fill _ w C _ (putBe16 l.fDelay) 33 2 t15
    (by simp only [List.length_append, hp1, hp2, putBe16_length, putBe32_length, List.length_singleton, List.length_nil])
    (by rw [putBe16_length]; omega)
  have hfin := track_done _ b1 w _ 35 (by rw [hC]; exact t16)
    (by simp only [List.length_append, hp1, hp2, putBe16_length, putBe32_length, List.length_singleton, List.length_nil])
    (contents b) (by rw [hC]; exact hdrop)
  simp only [hr1, hr2, hb1, hb2, if_true, if_false, decide_false, Bool.or_false, Bool.false_or]
  subst hH1 hH2
  exact ⟨_, rfl, hfin.1, rfl, rfl, fun _ => hfin.2⟩

end Gp.Llc
