import Gp.Lemmas.Layers.Mld
/-
  Helper lemmas for engine `lmld`, part 2: serialization over the C18 buffer model.  Core Lean only.

  Section 1 holds the *definitions* used in property statements (the functional specification of
  `MLDv1Message.SerializeTo`, the observable view `serView`); the rest is proof machinery.
-/
namespace Gp.Mld
open Gp Gp.SBuf Gp.C18 Gp.Gen.Mld

/-! ## 1. Definitions used in property statements -/

/-- Functional specification of a SerializeTo call: the receiver afterwards, whether an error was
    returned, and (when not) the bytes the buffer then holds. -/
structure SerSpec (L : Type) where
  layer : L
  err   : Bool
  bytes : Bytes
  deriving Repr, DecidableEq

/-- What a caller can observe of a SerializeTo call: the receiver afterwards, the error flag and,
    when no error was returned, the bytes in the buffer (`Bytes()`); not the buffer's internals. -/
def serView {L : Type} (r : Res (SerOut L)) : Res (SerSpec L) :=
  match r with
  | .ok o => .ok { layer := o.layer, err := o.err, bytes := if o.err then [] else SBuf.contents o.buf }
  | .err e => .err e
  | .panic p => .panic p

/-- The 16-bit value written for a delay: whole milliseconds (Go's truncating division). -/
def delayWord (d : Int) : Nat := (Int.tdiv d millisecond).toNat % 65536

/-- The 20 bytes of an MLDv1 message body: delay, two reserved zero bytes, the 16-byte address. -/
def msgEncode (d : Int) (ma16 : Bytes) : Bytes := putBe16 (delayWord d) ++ [0, 0] ++ ma16

/-- What `MLDv1Message.SerializeTo` does, as a function of the layer and the payload already in the
    buffer: three error returns (negative delay, more than 65535 ms, an address that is neither 4 nor
    16 bytes long), otherwise the 20 body bytes in front of the payload; the receiver is never
    changed. -/
def msgSerSpec (l : Msg) (p : Bytes) : SerSpec Msg :=
  if l.maximumResponseDelay < 0 then { layer := l, err := true, bytes := [] }
  else if Int.tdiv l.maximumResponseDelay millisecond > maxUint16 then { layer := l, err := true, bytes := [] }
  else match to16 l.multicastAddress with
    | none => { layer := l, err := true, bytes := [] }
    | some ma16 => { layer := l, err := false, bytes := msgEncode l.maximumResponseDelay ma16 ++ p }

/-! ## 2. Writing a window front to back -/

/-- A store of `vs` through a current window positioned right behind the already written prefix `W`
    of the contents replaces the next `|vs|` bytes. -/
theorem fill_next (b : SBuf) (h : Inv b) (w : Win) (W R vs : Bytes)
    (hg : w.gen = b.gen) (ho : w.off = b.start + W.length) (hc : contents b = W ++ R)
    (hv : vs.length ≤ R.length) :
    contents (fill b w vs) = (W ++ vs) ++ R.drop vs.length ∧ Inv (fill b w vs) ∧
    (fill b w vs).start = b.start ∧ (fill b w vs).gen = b.gen := by
  have hcl := contents_length b h
  rw [hc, List.length_append] at hcl
  have h' := h
  obtain ⟨i1, i2, i3⟩ := h
  have h1 : b.start ≤ w.off := by omega
  have h2 : w.off + vs.length ≤ b.len := by omega
  refine ⟨?_, inv_fill' b w vs h' (by omega), (fill_fields b w vs).1, (fill_fields b w vs).2.2.2.1⟩
  rw [fill_contents b w vs h' hg h1 h2, hc]
  have : w.off - b.start = W.length := by omega
  rw [this, List.take_left' rfl, List.drop_length_add_append]

theorem putBe16_length (v : Nat) : (putBe16 v).length = 2 := rfl

/-- What is known about the buffer and the window right after `PrependBytes(n)`. -/
theorem prepend_facts (b : SBuf) (n : Nat) (h : Inv b) :
    Inv (prepend b n).1 ∧ (prepend b n).2.n = n ∧ (prepend b n).2.gen = (prepend b n).1.gen ∧
    (prepend b n).2.off = (prepend b n).1.start ∧
    (contents (prepend b n).1).length = n + (contents b).length ∧
    (contents (prepend b n).1).drop n = contents b :=
  ⟨inv_prepend' b n h, rfl, rfl, rfl, prepend_contents_length b n h, prepend_contents_drop b n h⟩

/-! ## 3. net.IP.To16 -/

theorem to16_length (ip m : Bytes) (h : to16 ip = some m) : m.length = 16 := by
  unfold to16 at h
  split at h
  · cases h; rename_i h4; simp [v4InV6Prefix, h4]
  · split at h
    · cases h; assumption
    · cases h

theorem to16_of_16 (ip : Bytes) (h : ip.length = 16) : to16 ip = some ip := by
  unfold to16
  rw [if_neg (by omega), if_pos h]

/-! ## 4. MLDv1Message.SerializeTo -/

/-- The stores of `SerializeTo` after the two delay checks, given what `To16` returned. -/
def msgStores (l : Msg) (b1 : SBuf) (w : Win) : Res (SerOut Msg) := do
  let w0 ← winSlice w 0 2
  let b ← putUint16 b1 w0 (delayWord l.maximumResponseDelay)
  let w2 ← winSlice w 2 4
  let b := copyTo b w2 [0, 0]
  match to16 l.multicastAddress with
  | none => pure { buf := b, layer := l, err := true }
  | some ma16 => do
    let w4 ← winSlice w 4 20
    let b := copyTo b w4 ma16
    pure { buf := b, layer := l, err := false }

/-- `Msg.serializeTo` = PrependBytes, the two delay checks, then `msgStores`. -/
theorem serializeTo_eq (l : Msg) (b : SBuf) (fix csum : Bool) :
    l.serializeTo b fix csum =
      (if l.maximumResponseDelay < 0 then .ok { buf := (prepend b 20).1, layer := l, err := true }
       else if Int.tdiv l.maximumResponseDelay millisecond > maxUint16 then
         .ok { buf := (prepend b 20).1, layer := l, err := true }
       else msgStores l (prepend b 20).1 (prepend b 20).2) := by
  unfold Msg.serializeTo msgStores delayWord
  simp only
  split
  · rfl
  · split
    · rfl
    · rfl

/-- The stores, on a buffer with the invariant whose window is the 20 fresh bytes in front. -/
theorem msgStores_refines (l : Msg) (b1 : SBuf) (w : Win) (p : Bytes) (h : Inv b1) (hn : w.n = 20)
    (hg : w.gen = b1.gen) (ho : w.off = b1.start) (hlen : (contents b1).length = 20 + p.length)
    (hdrop : (contents b1).drop 20 = p) :
    ∃ o, msgStores l b1 w = .ok o ∧ Inv o.buf ∧ o.layer = l ∧
      (match to16 l.multicastAddress with
       | none => o.err = true
       | some ma16 => o.err = false ∧ contents o.buf = msgEncode l.maximumResponseDelay ma16 ++ p) := by
  unfold msgStores
  have s02 : winSlice w 0 2 = .ok { gen := w.gen, off := w.off + 0, n := 2 - 0 } := by
    unfold winSlice; rw [if_pos (by omega)]
  have s24 : winSlice w 2 4 = .ok { gen := w.gen, off := w.off + 2, n := 4 - 2 } := by
    unfold winSlice; rw [if_pos (by omega)]
  have s420 : winSlice w 4 20 = .ok { gen := w.gen, off := w.off + 4, n := 20 - 4 } := by
    unfold winSlice; rw [if_pos (by omega)]
  rw [s02, Res.bind_ok]
  have p1 : putUint16 b1 { gen := w.gen, off := w.off + 0, n := 2 - 0 } (delayWord l.maximumResponseDelay) =
      .ok (fill b1 { gen := w.gen, off := w.off + 0, n := 2 - 0 } (putBe16 (delayWord l.maximumResponseDelay))) := by
    unfold putUint16; rw [if_neg (by simp only; omega)]
  rw [p1, Res.bind_ok, s24, Res.bind_ok]
  obtain ⟨c1, i1, st1, g1⟩ := fill_next b1 h { gen := w.gen, off := w.off + 0, n := 2 - 0 } [] (contents b1)
    (putBe16 (delayWord l.maximumResponseDelay)) hg (by simp only [List.length_nil]; omega) rfl
    (by rw [putBe16_length]; omega)
  rw [List.nil_append, putBe16_length] at c1
  have t2 : ([0, 0] : Bytes).take (4 - 2) = [0, 0] := rfl
  simp only [copyTo, t2]
  obtain ⟨c2, i2, st2, g2⟩ := fill_next _ i1 { gen := w.gen, off := w.off + 2, n := 4 - 2 }
    (putBe16 (delayWord l.maximumResponseDelay)) ((contents b1).drop 2) [0, 0]
    (by simp only; omega) (by simp only [putBe16_length]; omega) c1
    (by rw [List.length_drop]; simp only [List.length_cons, List.length_nil]; omega)
  rw [List.drop_drop] at c2
  cases hm : to16 l.multicastAddress with
  | none => exact ⟨_, rfl, i2, rfl, rfl⟩
  | some ma16 =>
    have hl16 := to16_length _ _ hm
    simp only
    rw [s420, Res.bind_ok]
    have t16 : ma16.take (20 - 4) = ma16 := List.take_of_length_le (by omega)
    simp only [t16, pure]
    obtain ⟨c3, i3, -, -⟩ := fill_next _ i2 { gen := w.gen, off := w.off + 4, n := 20 - 4 }
      (putBe16 (delayWord l.maximumResponseDelay) ++ [0, 0]) ((contents b1).drop (2 + 2)) ma16
      (by simp only; omega) (by simp only [List.length_append, putBe16_length, List.length_cons, List.length_nil]; omega)
      (by rw [c2]; rfl) (by rw [List.length_drop]; omega)
    rw [List.drop_drop, hl16] at c3
    refine ⟨_, rfl, i3, rfl, rfl, ?_⟩
    rw [c3, show (2 + 2 + 16 : Nat) = 20 from rfl, hdrop]
    rfl

/-- Refinement: on every buffer satisfying the C18 invariant, `SerializeTo` returns (never panics),
    with exactly the receiver / error / bytes of `msgSerSpec`. -/
theorem serializeTo_refines (l : Msg) (b : SBuf) (fix csum : Bool) (h : Inv b) :
    ∃ o, l.serializeTo b fix csum = .ok o ∧ Inv o.buf ∧
      o.layer = (msgSerSpec l (SBuf.contents b)).layer ∧ o.err = (msgSerSpec l (SBuf.contents b)).err ∧
      ((msgSerSpec l (SBuf.contents b)).err = false →
        SBuf.contents o.buf = (msgSerSpec l (SBuf.contents b)).bytes) := by
  rw [serializeTo_eq]
  unfold msgSerSpec
  by_cases h1 : l.maximumResponseDelay < 0
  · rw [if_pos h1, if_pos h1]
    exact ⟨_, rfl, inv_prepend' b _ h, rfl, rfl, fun hh => by cases hh⟩
  · rw [if_neg h1, if_neg h1]
    by_cases h2 : Int.tdiv l.maximumResponseDelay millisecond > maxUint16
    · rw [if_pos h2, if_pos h2]
      exact ⟨_, rfl, inv_prepend' b _ h, rfl, rfl, fun hh => by cases hh⟩
    · rw [if_neg h2, if_neg h2]
      obtain ⟨hi1, hn, hgen, hoff, hlen, hdrop⟩ := prepend_facts b 20 h
      obtain ⟨o, ho, io, lo, hm⟩ := msgStores_refines l (prepend b 20).1 (prepend b 20).2 (contents b) hi1 hn hgen hoff
        hlen hdrop
      refine ⟨o, ho, io, ?_⟩
      cases hm16 : to16 l.multicastAddress with
      | none =>
        rw [hm16] at hm
        simp only at hm ⊢
        exact ⟨lo, hm, fun hh => by cases hh⟩
      | some ma16 =>
        rw [hm16] at hm
        simp only at hm ⊢
        exact ⟨lo, hm.1, fun _ => hm.2⟩

/-- The stores never panic, whatever the buffer (no invariant needed). -/
theorem msgStores_ok (l : Msg) (b1 : SBuf) (w : Win) (hn : w.n = 20) : ∃ o, msgStores l b1 w = .ok o := by
  unfold msgStores
  have s02 : winSlice w 0 2 = .ok { gen := w.gen, off := w.off + 0, n := 2 - 0 } := by
    unfold winSlice; rw [if_pos (by omega)]
  have s24 : winSlice w 2 4 = .ok { gen := w.gen, off := w.off + 2, n := 4 - 2 } := by
    unfold winSlice; rw [if_pos (by omega)]
  have s420 : winSlice w 4 20 = .ok { gen := w.gen, off := w.off + 4, n := 20 - 4 } := by
    unfold winSlice; rw [if_pos (by omega)]
  rw [s02, Res.bind_ok]
  have p1 : putUint16 b1 { gen := w.gen, off := w.off + 0, n := 2 - 0 } (delayWord l.maximumResponseDelay) =
      .ok (fill b1 { gen := w.gen, off := w.off + 0, n := 2 - 0 } (putBe16 (delayWord l.maximumResponseDelay))) := by
    unfold putUint16; rw [if_neg (by simp only; omega)]
  rw [p1, Res.bind_ok, s24, Res.bind_ok]
  cases to16 l.multicastAddress with
  | none => exact ⟨_, rfl⟩
  | some ma16 => simp only; rw [s420, Res.bind_ok]; exact ⟨_, rfl⟩

/-- `MLDv1Message.SerializeTo` never panics: every field value, every option set, every buffer state. -/
theorem serializeTo_ok (l : Msg) (b : SBuf) (fix csum : Bool) : ∃ o, l.serializeTo b fix csum = .ok o := by
  rw [serializeTo_eq]
  split
  · exact ⟨_, rfl⟩
  · split
    · exact ⟨_, rfl⟩
    · exact msgStores_ok l _ _ rfl

theorem serializeTo_no_panic (l : Msg) (b : SBuf) (fix csum : Bool) (k : PanicKind) :
    l.serializeTo b fix csum ≠ .panic k := by
  obtain ⟨o, ho⟩ := serializeTo_ok l b fix csum
  rw [ho]; exact fun h => nomatch h

/-- The receiver is never changed by SerializeTo, whatever the buffer. -/
theorem serializeTo_layer (l : Msg) (b : SBuf) (fix csum : Bool) (o : SerOut Msg)
    (h : l.serializeTo b fix csum = .ok o) : o.layer = l := by
  rw [serializeTo_eq] at h
  split at h
  · cases h; rfl
  · split at h
    · cases h; rfl
    · unfold msgStores at h
      have hn : (prepend b 20).2.n = 20 := rfl
      generalize (prepend b 20).2 = w at h hn
      generalize (prepend b 20).1 = b1 at h
      have s02 : winSlice w 0 2 = .ok { gen := w.gen, off := w.off + 0, n := 2 - 0 } := by
        unfold winSlice; rw [if_pos (by omega)]
      have s24 : winSlice w 2 4 = .ok { gen := w.gen, off := w.off + 2, n := 4 - 2 } := by
        unfold winSlice; rw [if_pos (by omega)]
      have s420 : winSlice w 4 20 = .ok { gen := w.gen, off := w.off + 4, n := 20 - 4 } := by
        unfold winSlice; rw [if_pos (by omega)]
      have p1 : putUint16 b1 { gen := w.gen, off := w.off + 0, n := 2 - 0 } (delayWord l.maximumResponseDelay) =
          .ok (fill b1 { gen := w.gen, off := w.off + 0, n := 2 - 0 } (putBe16 (delayWord l.maximumResponseDelay))) := by
        unfold putUint16; rw [if_neg (by simp only; omega)]
      rw [s02, Res.bind_ok, p1, Res.bind_ok, s24, Res.bind_ok] at h
      cases hm : to16 l.multicastAddress with
      | none => rw [hm] at h; cases h; rfl
      | some ma16 => rw [hm] at h; simp only at h; rw [s420, Res.bind_ok] at h; cases h; rfl

/-! ## 5. Observable view; spec-level laws -/

theorem msgSerSpec_layer (l : Msg) (p : Bytes) : (msgSerSpec l p).layer = l := by
  unfold msgSerSpec
  split
  · rfl
  · split
    · rfl
    · split <;> rfl

theorem msgSerSpec_err_bytes (l : Msg) (p : Bytes) (h : (msgSerSpec l p).err = true) :
    (msgSerSpec l p).bytes = [] := by
  unfold msgSerSpec at h ⊢
  by_cases h1 : l.maximumResponseDelay < 0
  · rw [if_pos h1]
  · rw [if_neg h1] at h ⊢
    by_cases h2 : Int.tdiv l.maximumResponseDelay millisecond > maxUint16
    · rw [if_pos h2]
    · rw [if_neg h2] at h ⊢
      cases hm : to16 l.multicastAddress with
      | none => rfl
      | some m => rw [hm] at h; cases h

theorem serView_of_refines {L : Type} (r : Res (SerOut L)) (s : SerSpec L)
    (hs : s.err = true → s.bytes = [])
    (h : ∃ o, r = .ok o ∧ o.layer = s.layer ∧ o.err = s.err ∧ (s.err = false → SBuf.contents o.buf = s.bytes)) :
    serView r = .ok s := by
  obtain ⟨o, ho, hl, he, hb⟩ := h
  rw [ho]
  unfold serView
  simp only
  congr 1
  cases s with
  | mk sl se sb =>
    simp only at hl he hb hs
    cases se
    · simp only [he, hl, hb rfl]; rfl
    · simp only [he, hl, hs rfl]; rfl

theorem msg_serView (l : Msg) (b : SBuf) (fix csum : Bool) (h : Inv b) :
    serView (l.serializeTo b fix csum) = .ok (msgSerSpec l (SBuf.contents b)) := by
  obtain ⟨o, ho, -, hl, he, hb⟩ := serializeTo_refines l b fix csum h
  exact serView_of_refines _ _ (msgSerSpec_err_bytes l _) ⟨o, ho, hl, he, hb⟩

/-- gopacket.Payload.SerializeTo on a buffer with the invariant: the payload in front. -/
theorem serializePayload_contents (p : Bytes) (b : SBuf) (h : Inv b) :
    Inv (serializePayload p b) ∧ contents (serializePayload p b) = p ++ contents b := by
  unfold serializePayload
  obtain ⟨hi1, hn, hgen, hoff, hlen, hdrop⟩ := prepend_facts b p.length h
  generalize prepend b p.length = r at hi1 hn hgen hoff hlen hdrop
  obtain ⟨b1, w⟩ := r
  simp only at hi1 hn hgen hoff hlen hdrop
  simp only [copyTo, hn, List.take_length]
  obtain ⟨c, i, -, -⟩ := fill_next b1 hi1 w [] (contents b1) p hgen (by simpa using hoff) rfl (by omega)
  exact ⟨i, by rw [c, hdrop, List.nil_append]⟩

end Gp.Mld
