import Gp.Lemmas.Layers.Ip4Rt
/-
  Helper lemmas for engine `lip4`, part 6: every successfully decoded layer is well formed.
-/
namespace Gp.Ip4
open Gp Gp.SBuf

theorem be16_lt (a b : UInt8) : Gp.be16 a b < 65536 := by
  have := a.toNat_lt; have := b.toNat_lt
  unfold Gp.be16; omega

theorem optsSize_of_bytes {new : List Opt} {pad xs : Bytes} (hw : optsWf new) (hb : optsBytes new ++ pad = xs) :
    optsSize new + pad.length = xs.length := by
  rw [← hb, List.length_append, optsBytes_length _ (optsWf_valid hw)]

theorem align4_of_mod {n : Nat} (h : n % 4 = 0) : align4 n = n := by
  unfold align4; simp [h]

theorem specBody_wf (l1 : Layer) (I : Nat) (d : Bytes) (t : Bool) (h5 : 5 ≤ I) (h16 : I < 16)
    (hd : I * 4 ≤ d.length) (hd2 : d.length ≤ 65535) (hL : l1.length < 65536) (hI : l1.ihl = I)
    (herr : (specBody true l1 I d t).err = false) :
    wf (specBody true l1 I d t).layer ∧
    20 + optionSize (specBody true l1 I d t).layer + (specBody true l1 I d t).layer.payload.length = d.length := by
  have hxs : ((d.drop 20).take (I * 4 - 20)).length < I * 4 - 20 + 1 := by
    simp [List.length_take, List.length_drop]; omega
  have hxl : ((d.drop 20).take (I * 4 - 20)).length = I * 4 - 20 := by
    simp [List.length_take, List.length_drop]; omega
  unfold specBody at herr ⊢
  by_cases he : (parseOpts (I * 4 - 20 + 1) ((d.drop 20).take (I * 4 - 20)) []).err = true
  · simp [he] at herr
  · have he' : (parseOpts (I * 4 - 20 + 1) ((d.drop 20).take (I * 4 - 20)) []).err = false := by
      cases h : (parseOpts (I * 4 - 20 + 1) ((d.drop 20).take (I * 4 - 20)) []).err
      · rfl
      · exact absurd h he
    obtain ⟨new, pad, hp, hw, hpad, hb⟩ := parse_wf _ _ [] hxs he'
    have hsz := optsSize_of_bytes hw hb
    rw [hxl] at hsz
    simp only [hp, List.nil_append, Bool.false_eq_true, if_false]
    have b0 := (getB d 0).toNat_lt
    have b1 := (getB d 1).toNat_lt
    have b8 := (getB d 8).toNat_lt
    have b9 := (getB d 9).toNat_lt
    have i1 := be16_lt (getB d 4) (getB d 5)
    have i2 := be16_lt (getB d 6) (getB d 7)
    have i3 := be16_lt (getB d 10) (getB d 11)
    cases hl : lastIsEol new with
    | true =>
      simp only [hl, if_true]
      unfold wf
      dsimp only
      refine ⟨⟨by omega, by rw [hI]; exact h16, b1, hL, i1, by omega, by omega, b8, b9, i3,
        by simp [List.length_take, List.length_drop]; omega, by simp [List.length_take, List.length_drop]; omega,
        hw, fun _ => hl, by omega, by omega⟩, ?_⟩
      simp only [optionSize, List.length_drop]
      rw [align4_of_mod (by omega)]; omega
    | false =>
      have hpe := hpad hl
      subst hpe
      simp only [List.length_nil, Nat.add_zero] at hsz
      simp only [hl, Bool.false_eq_true, if_false, if_true]
      unfold wf
      dsimp only
      refine ⟨⟨by omega, by rw [hI]; exact h16, b1, hL, i1, by omega, by omega, b8, b9, i3,
        by simp [List.length_take, List.length_drop]; omega, by simp [List.length_take, List.length_drop]; omega,
        hw, fun h => absurd rfl h, by simpa using (by omega : (optsSize new) % 4 = 0),
        by simpa using (by omega : optsSize new ≤ 40)⟩, ?_⟩
      simp only [optionSize, List.length_drop, List.length_nil, Nat.add_zero]
      rw [align4_of_mod (by omega)]; omega

theorem decodeSpecL_wf (old : Layer) (data : Bytes) (L I : Nat) (hL : L < 65536) (hI : I < 16)
    (herr : (decodeSpecL true old data L I).err = false) :
    wf (decodeSpecL true old data L I).layer ∧
    20 + optionSize (decodeSpecL true old data L I).layer + (decodeSpecL true old data L I).layer.payload.length ≤ 65535 := by
  unfold decodeSpecL at herr ⊢
  by_cases c1 : L < 20
  · simp [c1] at herr
  by_cases c2 : I < 5
  · simp [c1, c2] at herr
  by_cases c3 : I * 4 > L
  · simp [c1, c2, c3] at herr
  by_cases c4 : data.length > L
  · simp only [c1, c2, c3, c4, if_true, if_false] at herr ⊢
    have hd : (data.take L).length = L := by simp [List.length_take]; omega
    have := specBody_wf { old with length := L, ihl := I } I (data.take L) false (by omega) hI
      (by omega) (by omega) hL rfl herr
    exact ⟨this.1, by omega⟩
  by_cases c5 : data.length < L
  · by_cases c6 : I * 4 > data.length
    · simp [c1, c2, c3, c4, c5, c6] at herr
    · simp only [c1, c2, c3, c4, c5, c6, if_true, if_false] at herr ⊢
      have := specBody_wf { old with length := L, ihl := I } I data true (by omega) hI
        (by omega) (by omega) hL rfl herr
      exact ⟨this.1, by omega⟩
  · simp only [c1, c2, c3, c4, c5, if_false] at herr ⊢
    have := specBody_wf { old with length := L, ihl := I } I data false (by omega) hI
      (by omega) (by omega) hL rfl herr
    exact ⟨this.1, by omega⟩

theorem decodeSpec_wf (old : Layer) (data : Bytes) (herr : (decodeSpec true old data).err = false) :
    wf (decodeSpec true old data).layer ∧
    20 + optionSize (decodeSpec true old data).layer + (decodeSpec true old data).layer.payload.length ≤ 65535 := by
  unfold decodeSpec at herr ⊢
  by_cases h : data.length < 20
  · simp [h] at herr
  · simp only [h, if_false] at herr ⊢
    apply decodeSpecL_wf _ _ _ _ _ (Nat.mod_lt _ (by decide)) herr
    split
    · exact Nat.mod_lt _ (by decide)
    · exact be16_lt _ _

end Gp.Ip4
