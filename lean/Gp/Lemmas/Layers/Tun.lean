import Gp.Model.Layers.Tun
import Gp.Lemmas.SBuf
/-
  Helper lemmas for engine `ltun`, part 1: Go slice primitives on explicit list decompositions and
  on `drop` views; byte arithmetic; the cursor calculus of the serializers (a sequence of `put`s into
  the window returned by PrependBytes = ONE fill of the window = `step b (.prepend W)` of the C18
  buffer model).
-/
namespace Gp.Tun
open Gp Gp.SBuf

/-- `pure` of the `Res` monad is `Res.ok`. -/
theorem res_pure_bind {α β : Type} (a : α) (f : α → Res β) : ((pure a : Res α) >>= f) = f a := rfl

/-! ### slices and indices -/

/-- `data[|pre| : |pre|+|mid|]` of `pre ++ mid ++ rest` is `mid`, whatever the capacity. -/
theorem sliceCap_mid (pre mid rest foreign : Bytes) :
    sliceCap (pre ++ mid ++ rest) foreign pre.length (pre.length + mid.length) = .ok mid := by
  unfold sliceCap
  have hc : pre.length ≤ pre.length + mid.length ∧
      pre.length + mid.length ≤ (pre ++ mid ++ rest).length + foreign.length := by
    simp only [List.length_append]; omega
  rw [if_pos hc]
  have e : pre ++ mid ++ rest ++ foreign = pre ++ (mid ++ (rest ++ foreign)) := by
    simp [List.append_assoc]
  rw [e, List.drop_left' rfl]
  have : pre.length + mid.length - pre.length = mid.length := by omega
  rw [this, List.take_left' rfl]

/-- `data[|pre| : |pre|+n]` of `pre ++ rest` with `n ≤ |rest|`. -/
theorem sliceCap_take (pre rest foreign : Bytes) (n : Nat) (h : n ≤ rest.length) :
    sliceCap (pre ++ rest) foreign pre.length (pre.length + n) = .ok (rest.take n) := by
  have := sliceCap_mid pre (rest.take n) (rest.drop n) foreign
  rw [List.append_assoc, List.take_append_drop, List.length_take, Nat.min_eq_left h] at this
  exact this

theorem sliceFrom_append (pre rest : Bytes) : sliceFrom (pre ++ rest) pre.length = .ok rest := by
  unfold sliceFrom
  rw [if_pos (by simp), List.drop_left' rfl]

theorem sliceFrom_le (data : Bytes) (a : Nat) (h : a ≤ data.length) :
    sliceFrom data a = .ok (data.drop a) := by
  unfold sliceFrom; rw [if_pos h]

/-- `data[a:b]` with `b ≤ len(data)` never sees the foreign bytes. -/
theorem sliceCap_le (data foreign : Bytes) (a b : Nat) (hab : a ≤ b) (hb : b ≤ data.length) :
    sliceCap data foreign a b = .ok ((data.drop a).take (b - a)) := by
  unfold sliceCap
  rw [if_pos ⟨hab, by omega⟩, List.drop_append_of_le_length (by omega),
    List.take_append_of_le_length (by rw [List.length_drop]; omega)]

theorem index_drop (data : Bytes) (off i : Nat) (v : UInt8) (h : (data.drop off)[i]? = some v) :
    index data (off + i) = .ok v := by
  unfold index
  rw [List.getElem?_drop] at h
  rw [h]

theorem index_cons_view (data : Bytes) (off : Nat) (v : UInt8) (r : Bytes) (h : data.drop off = v :: r) :
    index data off = .ok v := by
  have := index_drop data off 0 v (by rw [h]; rfl)
  simpa using this

theorem drop_add_of_view (data : Bytes) (off : Nat) (xs r : Bytes) (h : data.drop off = xs ++ r) :
    data.drop (off + xs.length) = r := by
  rw [← List.drop_drop, h]
  simp

theorem beUint16_pair (a b : UInt8) : beUint16 [a, b] = .ok (be16 a b) := rfl
theorem beUint32_quad (a b c d : UInt8) : beUint32 [a, b, c, d] = .ok (be32 a b c d) := rfl

/-- the 24-bit read through the 4-byte scratch buffer. -/
theorem vni24_three (a b c : UInt8) : vni24 [a, b, c] = .ok (be32 0 a b c) := rfl

/-! ### byte arithmetic -/

theorem u8_toNat (n : Nat) : (u8 n).toNat = n % 256 := by
  unfold u8
  simp [UInt8.toNat_ofNat']

theorem be16_lt (a b : UInt8) : be16 a b < 65536 := by
  unfold be16
  have := a.toNat_lt; have := b.toNat_lt
  omega

theorem be32_lt (a b c d : UInt8) : be32 a b c d < 4294967296 := by
  unfold be32
  have := a.toNat_lt; have := b.toNat_lt; have := c.toNat_lt; have := d.toNat_lt
  omega

/-- decode ∘ encode of a 16-bit field. -/
theorem be16_putBe16 (n : Nat) (h : n < 65536) : be16 (u8 (n / 256)) (u8 n) = n := by
  unfold be16
  rw [u8_toNat, u8_toNat]
  omega

/-- decode ∘ encode of a 32-bit field. -/
theorem be32_putBe32 (n : Nat) (h : n < 4294967296) :
    be32 (u8 (n / 16777216)) (u8 (n / 65536)) (u8 (n / 256)) (u8 n) = n := by
  unfold be32
  rw [u8_toNat, u8_toNat, u8_toNat, u8_toNat]
  omega

/-- the 24-bit VNI: written as `VNI << 8` in a 32-bit word, read back through `[0, a, b, c]`. -/
theorem vni_roundtrip (v : Nat) (h : v < 16777216) :
    be32 0 (u8 ((v <<< 8) % 4294967296 / 16777216)) (u8 ((v <<< 8) % 4294967296 / 65536))
      (u8 ((v <<< 8) % 4294967296 / 256)) = v := by
  unfold be32
  rw [u8_toNat, u8_toNat, u8_toNat, Nat.shiftLeft_eq]
  simp only [UInt8.toNat_ofNat, Nat.reducePow]
  omega

theorem be32_zero_lt (a b c : UInt8) : be32 0 a b c < 16777216 := by
  unfold be32
  have := a.toNat_lt; have := b.toNat_lt; have := c.toNat_lt
  simp only [UInt8.toNat_ofNat]
  omega

theorem putBe16_length (n : Nat) : (putBe16 n).length = 2 := rfl
theorem putBe32_length (n : Nat) : (putBe32 n).length = 4 := rfl

theorem copyInto_same_length (dst src : Bytes) (h : src.length = dst.length) : copyInto dst src = src := by
  unfold copyInto
  rw [← h, List.take_length, List.drop_of_length_le (by omega), List.append_nil]

/-! ### cursor calculus -/

theorem fill_fill (b : SBuf) (g o n1 n2 n3 : Nat) (xs ys : Bytes) (ho : o ≤ b.mem.length) :
    fill (fill b ⟨g, o, n1⟩ xs) ⟨g, o + xs.length, n2⟩ ys = fill b ⟨g, o, n3⟩ (xs ++ ys) := by
  unfold fill
  by_cases hg : g = b.gen
  · simp only [hg, if_true]
    congr 1
    have h1 : (List.take o b.mem).length = o := by simp [List.length_take]; omega
    have e1 : List.take (o + xs.length) (List.take o b.mem ++ xs ++ List.drop (o + xs.length) b.mem)
        = List.take o b.mem ++ xs := by
      rw [List.take_append_of_le_length (by simp [h1])]
      apply List.take_of_length_le; simp [h1]
    have e2 : List.drop (o + xs.length + ys.length) (List.take o b.mem ++ xs ++ List.drop (o + xs.length) b.mem)
        = List.drop (o + (xs ++ ys).length) b.mem := by
      have : o + xs.length + ys.length = (List.take o b.mem ++ xs).length + ys.length := by simp [h1]
      rw [this, List.drop_length_add_append, List.drop_drop]
      congr 1; simp; omega
    rw [e1, e2]; simp [List.append_assoc]
  · simp [hg]

theorem fill_nil (b : SBuf) (g o n : Nat) : fill b ⟨g, o, n⟩ [] = b := by
  unfold fill
  split
  · cases b; simp
  · rfl

/-- the cursor has written exactly `W` at the start of the window `w` of buffer `b1`. -/
def Wrote (b1 : SBuf) (w : Win) (c : Cur) (W : Bytes) : Prop :=
  c.off = W.length ∧ c.b = fill b1 ⟨w.gen, w.off, W.length⟩ W

theorem wrote_init (b1 : SBuf) (w : Win) : Wrote b1 w { b := b1, off := 0 } [] :=
  ⟨rfl, (fill_nil b1 w.gen w.off 0).symm⟩

theorem put_wrote (b1 : SBuf) (w : Win) (c : Cur) (W vs : Bytes) (hW : Wrote b1 w c W)
    (hroom : W.length + vs.length ≤ w.n) (hm : w.off ≤ b1.mem.length) :
    ∃ c', put w c vs = .ok c' ∧ Wrote b1 w c' (W ++ vs) := by
  obtain ⟨ho, hb⟩ := hW
  refine ⟨{ b := fill c.b ⟨w.gen, w.off + c.off, vs.length⟩ vs, off := c.off + vs.length }, ?_, ?_, ?_⟩
  · unfold put storeAt
    rw [if_pos (by omega)]
    rfl
  · simp [ho]
  · show fill c.b ⟨w.gen, w.off + c.off, vs.length⟩ vs = fill b1 ⟨w.gen, w.off, (W ++ vs).length⟩ (W ++ vs)
    rw [hb, ho]
    exact fill_fill b1 w.gen w.off _ _ _ W vs hm

theorem skip_zero (w : Win) (c : Cur) (h : c.off ≤ w.n) : skip w c 0 = .ok c := by
  unfold skip
  rw [if_pos (by omega)]
  rfl

/-- After `PrependBytes(n)` the window lies inside the memory. -/
theorem prepend_win_in_mem (b : SBuf) (n : Nat) (hb : Gp.C18.Inv b) :
    (prepend b n).2.off ≤ (prepend b n).1.mem.length := by
  have hI := Gp.C18.inv_prepend' b n hb
  have hs := Gp.C18.prepend_start_len b n hb
  rw [Gp.C18.prepend_win]
  obtain ⟨i1, i2, _⟩ := hI
  show (prepend b n).1.start ≤ _
  omega

/-- **A cursor that has written `W`, all `n = |W|` requested bytes, leaves exactly the buffer the
    abstract history `prepend W` describes.** -/
theorem wrote_all (b : SBuf) (n : Nat) (c : Cur) (W : Bytes)
    (hW : Wrote (prepend b n).1 (prepend b n).2 c W) (hlen : W.length = n) :
    c.b = step b (.prepend W) := by
  obtain ⟨_, hb⟩ := hW
  rw [hb, Gp.C18.step_prepend, hlen]
  rfl

/-- …whose contents are `W ++ old contents`, and which satisfies the invariant again. -/
theorem step_prepend_spec (b : SBuf) (W : Bytes) (hb : Gp.C18.Inv b) :
    Gp.C18.Inv (step b (.prepend W)) ∧ contents (step b (.prepend W)) = W ++ contents b :=
  ⟨Gp.C18.inv_step' b _ hb, Gp.C18.contents_step_prepend b W hb⟩

/-- a partially written window (the error paths): the invariant still holds. -/
theorem wrote_inv (b : SBuf) (n : Nat) (c : Cur) (W : Bytes) (hb : Gp.C18.Inv b)
    (hW : Wrote (prepend b n).1 (prepend b n).2 c W) (hlen : W.length ≤ n) : Gp.C18.Inv c.b := by
  obtain ⟨_, hcb⟩ := hW
  rw [hcb]
  have hI := Gp.C18.inv_prepend' b n hb
  have hs := Gp.C18.prepend_start_len b n hb
  apply Gp.C18.inv_fill' _ _ W hI
  rw [Gp.C18.prepend_win]
  obtain ⟨i1, i2, _⟩ := hI
  show (prepend b n).1.start + W.length ≤ _
  omega

theorem putPayload_eq (b : SBuf) (p : Bytes) : putPayload b p = step b (.prepend p) := rfl

end Gp.Tun
