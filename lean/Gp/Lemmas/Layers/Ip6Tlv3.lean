import Gp.Lemmas.Layers.Ip6Tlv2
/-
  serializeIPv6HeaderTLVOptions, the loop: dry run = layout, panic freedom for every option list,
  closed form of the written bytes for gap-free lists.
-/
namespace Gp.Ip6
open Gp

theorem padMaybe_none (off pad : Nat) : padMaybe none off pad = .ok none := rfl

theorem padMaybe_some_ok (bf : Bytes) (off pad : Nat) (h : off + pad ≤ bf.length) :
    ∃ bf', padMaybe (some bf) off pad = .ok (some bf') ∧ bf'.length = bf.length := by
  obtain ⟨bf', h1, h2⟩ := tlvPadding_ok bf off pad h
  refine ⟨bf', ?_, h2⟩
  have hle : off ≤ bf.length := by omega
  simp [padMaybe, sliceCheck, hle, h1]

theorem padMaybe_some_boundary (done rest : Bytes) (off pad : Nat) (ho : off = done.length)
    (hp : pad ≤ rest.length) (h256 : pad < 256) :
    ∃ rest', padMaybe (some (done ++ rest)) off pad = .ok (some (done ++ padBytes pad ++ rest')) ∧
      rest'.length + pad = rest.length := by
  obtain ⟨rest', h1, h2⟩ := tlvPadding_boundary done rest off pad ho hp h256
  refine ⟨rest', ?_, h2⟩
  have hle : off ≤ (done ++ rest).length := by simp [ho]
  simp only [padMaybe, sliceCheck, hle, if_true, Res.bind_ok, h1, Res.pure_eq_ok]

/-! ## dry run -/

theorem tlvOptsLoop_dry (fix : Bool) : ∀ (os : List Tlv) (length : Nat),
    tlvOptsLoop fix os none length = .ok (os.map (fixOpt fix), none, (encLoop fix os length).2) := by
  intro os
  induction os with
  | nil => intro length; rfl
  | cons o os ih =>
    intro length
    unfold tlvOptsLoop
    rw [alignStep_dry]
    simp only [Res.bind_ok, sliceCheck, tlvSerializeTo_dry, ih, Res.pure_eq_ok, List.map_cons, encLoop]

theorem serializeTlvOptions_dry (fix : Bool) (os : List Tlv) :
    serializeTlvOptions none os fix = .ok (os.map (fixOpt fix), none, encLen fix os) := by
  unfold serializeTlvOptions encLen
  rw [tlvOptsLoop_dry]
  simp only [Res.bind_ok]
  by_cases hf : fix = true
  · simp only [hf, if_true]
    by_cases hp : finalPad (encLoop true os 2).2 ≠ 0
    · simp [hp, padMaybe_none]
    · have : finalPad (encLoop true os 2).2 = 0 := by omega
      simp [this]
  · simp [hf]

/-! ## panic freedom (any option list, any stale contents) -/

theorem tlvOptsLoop_ok (fix : Bool) : ∀ (os : List Tlv) (buf : Bytes) (length : Nat), 2 ≤ length →
    (encLoop fix os length).2 ≤ buf.length + 2 →
    ∃ buf', tlvOptsLoop fix os (some buf) length =
        .ok (os.map (fixOpt fix), some buf', (encLoop fix os length).2) ∧ buf'.length = buf.length := by
  intro os
  induction os with
  | nil => intro buf length _ _; exact ⟨buf, rfl, rfl⟩
  | cons o os ih =>
    intro buf length h2 hroom
    simp only [encLoop] at hroom
    have hge := encLoop_ge fix os (length + alignPad fix o length + optLen (fixOpt fix o))
    unfold tlvOptsLoop
    -- alignment
    have hal : ∃ buf1, alignStep (some buf) fix o length = .ok (some buf1, length + alignPad fix o length) ∧
        buf1.length = buf.length := by
      rcases alignPad_pos_cases fix o length with ⟨h0, h⟩ | ⟨-, h⟩
      · exact ⟨buf, by rw [h, h0]; rfl, rfl⟩
      · obtain ⟨b1, hb1, hl1⟩ := padMaybe_some_ok buf (length - 2) (alignPad fix o length) (by omega)
        exact ⟨b1, by rw [h, hb1]; rfl, hl1⟩
    obtain ⟨buf1, ha, hl1⟩ := hal
    rw [ha]
    simp only [Res.bind_ok, sliceCheck]
    rw [if_pos (by omega)]
    simp only [Res.bind_ok]
    obtain ⟨buf2, hs, hl2⟩ := tlvSerializeTo_ok o buf1 (length + alignPad fix o length - 2) fix (by omega)
    rw [hs]
    simp only [Res.bind_ok]
    obtain ⟨buf3, hr, hl3⟩ := ih buf2 (length + alignPad fix o length + optLen (fixOpt fix o)) (by omega)
      (by omega)
    rw [hr]
    exact ⟨buf3, by simp [encLoop], by omega⟩

theorem serializeTlvOptions_ok (fix : Bool) (os : List Tlv) (buf : Bytes) (h : buf.length = encLen fix os) :
    ∃ buf', serializeTlvOptions (some buf) os fix = .ok (os.map (fixOpt fix), some buf', encLen fix os) ∧
      buf'.length = buf.length := by
  unfold serializeTlvOptions
  unfold encLen at h
  have hge := encLoop_ge fix os 2
  obtain ⟨b1, h1, hl1⟩ := tlvOptsLoop_ok fix os buf 2 (Nat.le_refl _) (by dsimp only at h; split at h <;> omega)
  rw [h1]
  simp only [Res.bind_ok]
  unfold encLen
  by_cases hf : fix = true
  · subst hf
    simp only [if_true] at h ⊢
    by_cases hp : finalPad (encLoop true os 2).2 ≠ 0
    · obtain ⟨b2, h2, hl2⟩ := padMaybe_some_ok b1 ((encLoop true os 2).2 - 2) (finalPad (encLoop true os 2).2)
        (by omega)
      simp only [hp, if_true, h2, Res.bind_ok, Res.pure_eq_ok, ne_eq, not_false_eq_true]
      exact ⟨b2, rfl, by omega⟩
    · have : finalPad (encLoop true os 2).2 = 0 := by omega
      simp only [this, ne_eq, not_true_eq_false, if_false, Res.pure_eq_ok, Nat.add_zero]
      exact ⟨b1, rfl, hl1⟩
  · simp only [hf, if_false, Res.pure_eq_ok]
    exact ⟨b1, rfl, hl1⟩

end Gp.Ip6
