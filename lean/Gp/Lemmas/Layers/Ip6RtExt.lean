import Gp.Lemmas.Layers.Ip6RtTlv
import Gp.Lemmas.Layers.Ip6Ext
/-
  Round trip of IPv6HopByHop / IPv6Destination: decode ([nh, hl] ++ encOpts ++ payload).
-/
namespace Gp.Ip6
open Gp

/-! ## what is compared -/

/-- Padding options (Pad1 = 0, PadN = 1) carry no information; the serializer inserts them and the
    decoder reports them as options. -/
def Tlv.isPad (o : Tlv) : Bool := decide (o.typ ≤ 1)

/-- Type, length and data of the non-padding options, in order. -/
def optsView (os : List Tlv) : List (Nat × Nat × Bytes) :=
  (os.filter (fun o => !o.isPad)).map (fun o => (o.typ, o.len, o.bytes))

theorem optsView_append (a b : List Tlv) : optsView (a ++ b) = optsView a ++ optsView b := by
  simp [optsView, List.filter_append]

theorem optsView_padOpts (pad : Nat) : optsView (padOpts pad) = [] := by
  unfold padOpts
  split
  · rfl
  · split <;> rfl

theorem encOpts_length (fix : Bool) (os : List Tlv) (hg : GapFree fix os) :
    (encOpts fix os).length = encLen fix os := by
  have h := encLoop_length fix os 2 hg
  have hge := encLoop_ge fix os 2
  unfold encOpts encLen
  dsimp only
  rw [List.length_append]
  split
  · rw [padBytes_length]; omega
  · simp; omega

theorem encLen_mod8 (os : List Tlv) : (encLen true os + 2) % 8 = 0 := by
  have hge := encLoop_ge true os 2
  unfold encLen finalPad
  simp only [if_true]
  omega

/-- Decoding what SerializeTo wrote. -/
theorem ext_decode_encoded (old : TlvExt) (fix : Bool) (nh : Nat) (os : List Tlv) (p : Bytes)
    (hnh : nh < 256) (hg : GapFree fix os) (hr : AlignInRange os) (hi : OptsInRange fix os)
    (h8 : (encLen fix os + 2) % 8 = 0) (hmax : encLen fix os + 2 ≤ 2048) (hmin : 8 ≤ encLen fix os + 2) :
    tlvExtSpec old ([u8 nh, u8 (((encLen fix os + 2) / 8 - 1) % 256)] ++ encOpts fix os ++ p) =
      ⟨{ base := { contents := [u8 nh, u8 (((encLen fix os + 2) / 8 - 1) % 256)] ++ encOpts fix os,
                   payload := p, nextHeader := nh, headerLength := (encLen fix os + 2) / 8 - 1,
                   actualLength := encLen fix os + 2 },
         options := decItems fix os 2 ++
           (if fix then padOpts (finalPad (encLoop fix os 2).2) else []) }, false, .ok ()⟩ := by
  have hel := encOpts_length fix os hg
  have hhl : (u8 (((encLen fix os + 2) / 8 - 1) % 256)).toNat = (encLen fix os + 2) / 8 - 1 := by
    rw [u8_toNat _ (Nat.mod_lt _ (by decide)), Nat.mod_eq_of_lt (by omega)]
  have hal : ((encLen fix os + 2) / 8 - 1) * 8 + 8 = encLen fix os + 2 := by omega
  unfold tlvExtSpec
  have hext : extBaseSpec ([u8 nh, u8 (((encLen fix os + 2) / 8 - 1) % 256)] ++ encOpts fix os ++ p) =
      (.ok { contents := [u8 nh, u8 (((encLen fix os + 2) / 8 - 1) % 256)] ++ encOpts fix os, payload := p,
             nextHeader := nh, headerLength := (encLen fix os + 2) / 8 - 1,
             actualLength := encLen fix os + 2 }, false) := by
    simp only [List.cons_append, List.nil_append, extBaseSpec, hhl, hal, u8_toNat _ hnh]
    have hlt : ¬ (u8 nh :: u8 (((encLen fix os + 2) / 8 - 1) % 256) :: (encOpts fix os ++ p)).length <
        encLen fix os + 2 := by simp [hel]
    rw [if_neg hlt]
    have e : u8 nh :: u8 (((encLen fix os + 2) / 8 - 1) % 256) :: (encOpts fix os ++ p) =
        (u8 nh :: u8 (((encLen fix os + 2) / 8 - 1) % 256) :: encOpts fix os) ++ p := by simp
    have el : (u8 nh :: u8 (((encLen fix os + 2) / 8 - 1) % 256) :: encOpts fix os).length =
        encLen fix os + 2 := by simp [hel]
    rw [e, List.take_left' el, List.drop_left' el]
  rw [hext]
  simp only
  have harea : (([u8 nh, u8 (((encLen fix os + 2) / 8 - 1) % 256)] ++ encOpts fix os ++ p).take
      (encLen fix os + 2)).drop 2 = encOpts fix os := by
    have el : ([u8 nh, u8 (((encLen fix os + 2) / 8 - 1) % 256)] ++ encOpts fix os).length =
        encLen fix os + 2 := by simp [hel]
    rw [List.take_left' el]
    simp
  rw [harea, tlvAreaSpec_eq_tlvArea _ _ (by rw [hel]; omega)]
  unfold encOpts
  dsimp only
  rw [tlvArea_encLoop fix os 2 _ hg hr hi]
  by_cases hf : fix = true
  · subst hf
    simp only [if_true]
    have hfp : finalPad (encLoop true os 2).2 < 256 := by unfold finalPad; omega
    have := tlvArea_pad (finalPad (encLoop true os 2).2) [] hfp
    rw [List.append_nil] at this
    rw [this, tlvArea_nil]
    simp
  · have hff : fix = false := by cases fix <;> simp_all
    subst hff
    simp [tlvArea_nil]

/-- View of a decoded option = view of the serialized option when the data fits its length byte. -/
theorem optsView_decItems : ∀ (os : List Tlv) (length : Nat),
    (∀ o ∈ os, o.bytes.length ≤ 255) →
    optsView (decItems true os length) = optsView (os.map (fixOpt true)) := by
  intro os
  induction os with
  | nil => intro _ _; rfl
  | cons o os ih =>
    intro length h
    simp only [decItems, List.map_cons]
    rw [optsView_append, optsView_padOpts, List.nil_append]
    have e1 : ∀ (l : List Tlv) (x : Tlv), optsView (x :: l) = optsView [x] ++ optsView l := by
      intro l x; exact optsView_append [x] l
    rw [e1 _ (decOpt _), e1 _ (fixOpt true o), ih _ (fun x hx => h x (List.mem_cons_of_mem _ hx))]
    congr 1
    have hb := h o List.mem_cons_self
    unfold decOpt fixOpt
    by_cases h0 : o.typ = 0
    · simp [h0, optsView, Tlv.isPad, pad1]
    · have hlen : o.bytes.length % 256 = o.bytes.length := Nat.mod_eq_of_lt (by omega)
      have htk : o.bytes.take (o.bytes.length % 256) = o.bytes := by rw [hlen, List.take_length]
      unfold Tlv.bytes at htk hlen
      simp only [h0, if_false, if_true, optsView, Tlv.isPad, Tlv.bytes]
      by_cases h1 : o.typ ≤ 1 <;> simp [h1, htk]

end Gp.Ip6
