import Gp.Lemmas.Layers.Ip6RtIp2
/-
  Round trip of IPv6 with an embedded hop-by-hop header (non-jumbo).
-/
namespace Gp.Ip6
open Gp Gp.SBuf Gp.C18 Gp.Gen.Ip6

theorem padOpts_typ (pad : Nat) : ∀ d ∈ padOpts pad, d.typ ≤ 1 := by
  intro d hd
  unfold padOpts at hd
  split at hd
  · simp at hd
  · split at hd
    · simp at hd; subst hd; simp [pad1]
    · simp at hd; subst hd; simp

theorem decItems_typ (fix : Bool) : ∀ (os : List Tlv) (length : Nat) (d : Tlv),
    d ∈ decItems fix os length → d.typ ≤ 1 ∨ ∃ o ∈ os, d.typ = o.typ := by
  intro os
  induction os with
  | nil => intro _ d hd; simp [decItems] at hd
  | cons o os ih =>
    intro length d hd
    simp only [decItems, List.mem_append, List.mem_cons] at hd
    rcases hd with hd | hd | hd
    · exact Or.inl (padOpts_typ _ d hd)
    · subst hd
      unfold decOpt
      split
      · left; simp [pad1]
      · right; exact ⟨o, List.mem_cons_self, by simp [fixOpt_typ]⟩
    · rcases ih _ d hd with h | ⟨o', ho', he⟩
      · exact Or.inl h
      · exact Or.inr ⟨o', List.mem_cons_of_mem _ ho', he⟩

theorem getJumboLength_none (h : TlvExt) (hn : ∀ o ∈ h.options, o.typ ≠ hopByHopOptionJumbogram) :
    getJumboLength h = .ok (0, false) := by
  unfold getJumboLength
  have : h.options.find? (fun t => decide (t.typ = hopByHopOptionJumbogram)) = none := by
    rw [List.find?_eq_none]
    intro o ho
    simpa using hn o ho
  rw [this]

/-- The IPv6 layer as mutated by SerializeTo (FixLengths) when it carries hop-by-hop header `hb`
    and the payload seen by the IPv6 header has `n` bytes. -/
def ip6HbhFixed (l : IPv6) (hb : TlvExt) (n : Nat) : IPv6 :=
  { l with nextHeader := 0, hopByHop := some (fixExt true hb), length := n }

theorem nextHeader_zero (l : IPv6) : ip6SetHbhNext l = { l with nextHeader := 0 } := by
  unfold ip6SetHbhNext
  split
  · rfl
  · rename_i h
    have : l.nextHeader = 0 := by simpa [ipProtocolIPv6HopByHop] using h
    cases l
    simp_all

/-- Hop-by-hop header that SerializeTo can carry in a non-jumbo packet: in range, no jumbo option. -/
def TlvExt.plain (e : TlvExt) : Prop := e.wf ∧ ∀ o ∈ e.options, o.typ ≠ hopByHopOptionJumbogram

theorem ip6_roundtrip_hbh (l : IPv6) (hb : TlvExt) (b : SBuf) (h : Inv b) (hw : l.hdrWf)
    (hsome : l.hopByHop = some hb) (hp : hb.plain)
    (hlay : b.layers.contains layerTypeIPv6HopByHop = false)
    (hs : encLen true hb.options + 2 + (contents b).length ≤ 65535) (old : IPv6) (x : Bytes) :
    ∃ b' l' l'', serializeIPv6 l b true = .ok (b', l') ∧
      l' = ip6HbhFixed l hb (encLen true hb.options + 2 + (contents b).length) ∧
      Inv b' ∧
      decodeIp6 old (contents b') x = .ok (l'', false) ∧ l''.eqv l' ∧ l''.payload = contents b := by
  obtain ⟨hwf, hnj⟩ := hp
  obtain ⟨hg, hr, hi, hb255⟩ := hb.wf_facts hwf
  obtain ⟨hnh, -, hmax⟩ := hwf
  have h8 := encLen_mod8 hb.options
  have hmin := encLen_ge6 hb.options
  have hel := encOpts_length true hb.options hg
  rw [serializeIPv6_small l b true (by omega)]
  -- the hop-by-hop step
  have hext := serializeTlvExt_closed hb b true h hg hr
  rw [if_neg (by omega)] at hext
  obtain ⟨hc1, hi1, -⟩ := ext_result_contents b (encOpts true hb.options)
    [u8 hb.base.nextHeader, u8 (extHdrLen true hb)] h
  have hlen1 : ([u8 hb.base.nextHeader, u8 (extHdrLen true hb)] ++ encOpts true hb.options ++ contents b).length =
      encLen true hb.options + 2 + (contents b).length := by
    simp only [List.length_append, List.length_cons, List.length_nil, hel]; omega
  have hstep : ip6HbhStep l b true false =
      .ok (step (step b (.prepend (encOpts true hb.options)))
             (.prepend [u8 hb.base.nextHeader, u8 (extHdrLen true hb)]),
           { l with nextHeader := 0, hopByHop := some (fixExt true hb) },
           encLen true hb.options + 2 + (contents b).length) := by
    unfold ip6HbhStep
    rw [hsome]
    dsimp only
    rw [hlay, nextHeader_zero]
    simp only [Bool.false_eq_true, if_false, hext, Res.bind_ok, Bool.and_false, Res.pure_eq_ok, hc1, hlen1]
  rw [hstep]
  simp only [Res.bind]
  rw [ip6HeaderStep_eq _ _ true false _ hi1]
  have hc : ¬ ((!false && decide (encLen true hb.options + 2 + (contents b).length > maxPayloadLength)) = true) := by
    simp [maxPayloadLength]; omega
  have hsrc := hw.2.2.2.2.2.1
  have hdst := hw.2.2.2.2.2.2
  rw [if_neg hc, if_neg (by simpa using hsrc), if_neg (by simpa using hdst)]
  have hfl : ip6FixLength { l with nextHeader := 0, hopByHop := some (fixExt true hb) } true false
      (encLen true hb.options + 2 + (contents b).length) =
      ip6HbhFixed l hb (encLen true hb.options + 2 + (contents b).length) := by
    unfold ip6FixLength ip6HbhFixed
    simp only [if_true, Bool.false_eq_true, if_false]
    rw [Nat.mod_eq_of_lt (by omega)]
  rw [hfl]
  have hfxl : (ip6HbhFixed l hb (encLen true hb.options + 2 + (contents b).length)).length =
      encLen true hb.options + 2 + (contents b).length := rfl
  rw [hfxl]
  have hmod : (encLen true hb.options + 2 + (contents b).length) % 65536 =
      encLen true hb.options + 2 + (contents b).length := Nat.mod_eq_of_lt (by omega)
  simp only [hmod]
  -- decoding
  have hw' : (ip6HbhFixed l hb (encLen true hb.options + 2 + (contents b).length)).hdrWf :=
    ⟨hw.1, hw.2.1, hw.2.2.1, by show 0 < 256; omega, hw.2.2.2.2.1, hw.2.2.2.2.2.1, hw.2.2.2.2.2.2⟩
  have hehl : extHdrLen true hb = ((encLen true hb.options + 2) / 8 - 1) % 256 := by simp [extHdrLen]
  have hdec : ∃ l'', decodeIp6 old
        (ip6HdrBytes (ip6HbhFixed l hb (encLen true hb.options + 2 + (contents b).length))
            (encLen true hb.options + 2 + (contents b).length) ++
          ([u8 hb.base.nextHeader, u8 (extHdrLen true hb)] ++ encOpts true hb.options ++ contents b)) x =
        .ok (l'', false) ∧
      l''.eqv (ip6HbhFixed l hb (encLen true hb.options + 2 + (contents b).length)) ∧
      l''.payload = contents b := by
    unfold decodeIp6
    rw [decodeIPv6_eq_spec, ip6Spec_hdr old _ _ _ hw' (by omega)]
    dsimp only
    have hnh0 : (ip6HbhFixed l hb (encLen true hb.options + 2 + (contents b).length)).nextHeader =
        ipProtocolIPv6HopByHop := rfl
    rw [if_pos hnh0]
    rw [hehl, ext_decode_encoded old.hbh true hb.base.nextHeader hb.options (contents b) hnh hg hr hi h8 hmax hmin]
    unfold ip6HbhSpec
    simp only [if_true]
    have hnoj : getJumboLength
        { base := { contents := [u8 hb.base.nextHeader, u8 (((encLen true hb.options + 2) / 8 - 1) % 256)] ++
                      encOpts true hb.options, payload := contents b, nextHeader := hb.base.nextHeader,
                    headerLength := (encLen true hb.options + 2) / 8 - 1,
                    actualLength := encLen true hb.options + 2 },
          options := decItems true hb.options 2 ++ padOpts (finalPad (encLoop true hb.options 2).2) } =
        .ok (0, false) := by
      apply getJumboLength_none
      intro o ho
      simp only [List.mem_append] at ho
      rcases ho with ho | ho
      · rcases decItems_typ true _ _ o ho with h1 | ⟨o', ho', he⟩
        · simp [hopByHopOptionJumbogram]; omega
        · rw [he]; exact hnj o' ho'
      · have := padOpts_typ _ o ho
        simp [hopByHopOptionJumbogram]; omega
    rw [hnoj]
    simp only
    have hlen0 : ¬ (encLen true hb.options + 2 + (contents b).length = 0) := by omega
    rw [if_neg (by simp [hlen0]), if_neg (by simp), if_neg (by simp [hlen0]),
      if_neg (by omega)]
    have hdrop : ([u8 hb.base.nextHeader, u8 (((encLen true hb.options + 2) / 8 - 1) % 256)] ++
        encOpts true hb.options ++ contents b).drop (encLen true hb.options + 2) = contents b := by
      rw [List.drop_left' (by simp [hel])]
    have hsub : encLen true hb.options + 2 + (contents b).length - (encLen true hb.options + 2) =
        (contents b).length := by omega
    simp only [ip6Finish, hdrop, hsub, List.take_length, Nat.lt_irrefl, decide_false, Bool.or_false,
      gt_iff_lt]
    refine ⟨_, rfl, ⟨rfl, rfl, rfl, rfl, rfl, rfl, rfl, rfl, ?_⟩, rfl⟩
    show hbhEqv (some _) (some (fixExt true hb))
    refine ⟨rfl, ?_, ?_⟩
    · show (encLen true hb.options + 2) / 8 - 1 = extHdrLen true hb
      rw [hehl, Nat.mod_eq_of_lt (by omega)]
    · show optsView (decItems true hb.options 2 ++ padOpts _) = optsView (hb.options.map (fixOpt true))
      rw [optsView_append, optsView_padOpts, List.append_nil, optsView_decItems _ _ hb255]
  obtain ⟨l'', hd, he, hpay⟩ := hdec
  refine ⟨_, _, l'', rfl, rfl, inv_step' _ _ hi1, ?_, he, hpay⟩
  rw [contents_step_prepend _ _ hi1, hc1]
  exact hd

end Gp.Ip6
