import Gp.Model.Layers.Igmp
/-
  Helper lemmas for engine `ligmp` (IGMPv1or2, IGMP (v3), IPSecAH, IPSecESP, GTPv2 decoders), part 1:
  Go-slice lemmas, the functional specifications of IGMPv1or2 / IPSecAH / IPSecESP and the proof that the
  statement-by-statement models compute them.  Core Lean only.

  Section 1 holds the *definitions* that occur in the statements of the property theorems; the rest is
  proof machinery.
-/
namespace Gp.Igmp
open Gp Gp.Gen.Igmp

/-! ## 1. Definitions used in property statements -/

/-- Byte `i` of a byte string (0 for a missing byte; only used where the byte exists). -/
def byteAt (v : Bytes) (i : Nat) : UInt8 := v.getD i 0

/-- Big-endian 16-bit value at offset `i`. -/
def u16At (v : Bytes) (i : Nat) : Nat := be16 (byteAt v i) (byteAt v (i + 1))

/-- Big-endian 32-bit value at offset `i`. -/
def u32At (v : Bytes) (i : Nat) : Nat :=
  be32 (byteAt v i) (byteAt v (i + 1)) (byteAt v (i + 2)) (byteAt v (i + 3))

/-- The protocol version of an IGMPv1/v2 message (the rule of decodeIGMP, with ligmp-4 also of DecodeFromBytes). -/
def igmp12Version (v : Bytes) : Nat :=
  if (byteAt v 0).toNat = igmpMembershipQuery then (if (byteAt v 1).toNat = 0 then 1 else 2)
  else if (byteAt v 0).toNat = igmpMembershipReportV1 then 1
  else if (byteAt v 0).toNat = igmpLeaveGroup ∨ (byteAt v 0).toNat = igmpMembershipReportV2 then 2
  else 0

/-- The layer a successful `IGMPv1or2.DecodeFromBytes` produces: a function of the visible bytes alone. -/
def igmp12Layer (v : Bytes) : IGMPv1or2 :=
  { contents := v.take 8, payload := v.drop 8, typ := (byteAt v 0).toNat, maxResponseTime := timeDecode (byteAt v 1),
    checksum := u16At v 2, groupAddress := (v.drop 4).take 4, version := igmp12Version v }

def igmp12DecSpec (old : IGMPv1or2) (v : Bytes) : DecOut IGMPv1or2 :=
  if v.length < 8 then { layer := old, trunc := false, err := true }
  else { layer := igmp12Layer v, trunc := false, err := false }

/-- `(HeaderLength + 2) * 4` of an AH header. -/
def ahLen (v : Bytes) : Nat := ((byteAt v 1).toNat + 2) * 4

/-- The receiver after the header assignments of `IPSecAH.DecodeFromBytes` (what the two later error paths
    leave behind: BaseLayer zeroed, AuthenticationData still the previous packet's). -/
def ahHdr (old : IPSecAH) (v : Bytes) : IPSecAH :=
  { old with contents := [], payload := [], nextHeader := (byteAt v 0).toNat, headerLength := (byteAt v 1).toNat,
             reserved := u16At v 2, spi := u32At v 4, seq := u32At v 8, actualLength := ahLen v }

def ahLayer (v : Bytes) : IPSecAH :=
  { contents := v.take (ahLen v), payload := v.drop (ahLen v), nextHeader := (byteAt v 0).toNat,
    headerLength := (byteAt v 1).toNat, actualLength := ahLen v, reserved := u16At v 2, spi := u32At v 4,
    seq := u32At v 8, authenticationData := (v.drop 12).take (ahLen v - 12) }

def ahDecSpec (old : IPSecAH) (v : Bytes) : DecOut IPSecAH :=
  if v.length < 12 then { layer := old, trunc := true, err := true }
  else if ahLen v < 12 then { layer := ahHdr old v, trunc := true, err := true }
  else if v.length < ahLen v then { layer := ahHdr old v, trunc := true, err := true }
  else { layer := ahLayer v, trunc := false, err := false }

def espLayer (v : Bytes) : IPSecESP :=
  { contents := v, payload := [], spi := u32At v 0, seq := u32At v 4, encrypted := v.drop 8 }

def espDecSpec (old : IPSecESP) (v : Bytes) : DecOut IPSecESP :=
  if v.length < 8 then { layer := old, trunc := true, err := true }
  else { layer := espLayer v, trunc := false, err := false }

/-! ## 2. Go slices -/

theorem GSlice.slice_ok (s : GSlice) (a b : Nat) (hab : a ≤ b) (hb : b ≤ s.len) :
    s.slice a b = .ok { vis := (s.vis.drop a).take (b - a), tail := s.vis.drop b ++ s.tail } := by
  unfold GSlice.slice GSlice.cap
  unfold GSlice.len at hb
  have h1 : a ≤ b ∧ b ≤ s.vis.length + s.tail.length := ⟨hab, by omega⟩
  rw [if_pos h1]
  have ha : a ≤ s.vis.length := by omega
  rw [List.drop_append_of_le_length ha, List.drop_append_of_le_length hb,
    List.take_append_of_le_length (by rw [List.length_drop]; omega)]

theorem GSlice.sliceFrom_ok (s : GSlice) (a : Nat) (ha : a ≤ s.len) :
    s.sliceFrom a = .ok { vis := s.vis.drop a, tail := s.tail } := by
  unfold GSlice.sliceFrom; rw [if_pos ha]

theorem GSlice.index_ok (s : GSlice) (i : Nat) (h : i < s.len) :
    s.index i = .ok (byteAt s.vis i) := by
  unfold GSlice.index Gp.index byteAt
  have h' : i < s.vis.length := h
  simp [List.getD_eq_getElem?_getD, h']

theorem two_bytes (v : Bytes) (i : Nat) (h : i + 2 ≤ v.length) :
    (v.drop i).take 2 = [byteAt v i, byteAt v (i + 1)] := by
  have h0 : i < v.length := by omega
  have h1 : i + 1 < v.length := by omega
  have e : v.drop i = v[i] :: v[i+1] :: v.drop (i+2) := by
    rw [List.drop_eq_getElem_cons h0, List.drop_eq_getElem_cons h1]
  rw [e]
  simp only [byteAt, List.take_succ_cons, List.take_zero, List.getD_eq_getElem?_getD,
    List.getElem?_eq_getElem h0, List.getElem?_eq_getElem h1, Option.getD_some]

theorem four_bytes (v : Bytes) (i : Nat) (h : i + 4 ≤ v.length) :
    (v.drop i).take 4 = [byteAt v i, byteAt v (i + 1), byteAt v (i + 2), byteAt v (i + 3)] := by
  have h0 : i < v.length := by omega
  have h1 : i + 1 < v.length := by omega
  have h2 : i + 2 < v.length := by omega
  have h3 : i + 3 < v.length := by omega
  have e : v.drop i = v[i] :: v[i+1] :: v[i+2] :: v[i+3] :: v.drop (i+4) := by
    rw [List.drop_eq_getElem_cons h0, List.drop_eq_getElem_cons h1, List.drop_eq_getElem_cons h2,
      List.drop_eq_getElem_cons h3]
  rw [e]
  simp only [byteAt, List.take_succ_cons, List.take_zero, List.getD_eq_getElem?_getD,
    List.getElem?_eq_getElem h0, List.getElem?_eq_getElem h1, List.getElem?_eq_getElem h2,
    List.getElem?_eq_getElem h3, Option.getD_some]

theorem uint16_two (a b : UInt8) (t : Bytes) : uint16 { vis := [a, b], tail := t } = .ok (be16 a b) := by
  simp [uint16, GSlice.index, Gp.index, bind, Res.bind, pure]

theorem uint32_four (a b c d : UInt8) (t : Bytes) :
    uint32 { vis := [a, b, c, d], tail := t } = .ok (be32 a b c d) := by
  simp [uint32, GSlice.index, Gp.index, bind, Res.bind, pure]

theorem uint16_vis (v t : Bytes) (i : Nat) (h : i + 2 ≤ v.length) :
    uint16 { vis := (v.drop i).take 2, tail := t } = .ok (u16At v i) := by
  rw [two_bytes v i h]; exact uint16_two _ _ _

theorem uint32_vis (v t : Bytes) (i : Nat) (h : i + 4 ≤ v.length) :
    uint32 { vis := (v.drop i).take 4, tail := t } = .ok (u32At v i) := by
  rw [four_bytes v i h]; exact uint32_four _ _ _ _ _

theorem be16_lt (a b : UInt8) : be16 a b < 65536 := by
  have := a.toNat_lt; have := b.toNat_lt
  unfold be16; omega

theorem u16At_lt (v : Bytes) (i : Nat) : u16At v i < 65536 := be16_lt _ _

/-- `data[i:i+2]` then reading a 16-bit word: the word at offset `i` of the data. -/
theorem slice_uint16 (d : GSlice) (i : Nat) (h : i + 2 ≤ d.len) :
    (d.slice i (i + 2) >>= fun s => uint16 s) = .ok (u16At d.vis i) := by
  have hl : i + 2 ≤ d.vis.length := h
  rw [GSlice.slice_ok d i (i + 2) (by omega) h, Res.bind_ok]
  have e : i + 2 - i = 2 := by omega
  rw [e]
  exact uint16_vis d.vis _ i hl

/-! ## 3. DecodeFromBytes = its functional specification (IGMPv1or2, IPSecAH, IPSecESP) -/

theorem IGMPv1or2.decode_eq (old : IGMPv1or2) (d : GSlice) :
    old.decodeFromBytes d = .ok (igmp12DecSpec old d.vis) := by
  unfold IGMPv1or2.decodeFromBytes igmp12DecSpec
  by_cases hs : d.len < 8
  · rw [if_pos hs, if_pos (show d.vis.length < 8 from hs)]
  · have hl : 8 ≤ d.vis.length := by unfold GSlice.len at hs; omega
    have hl' : 8 ≤ d.len := hl
    rw [if_neg hs, if_neg (show ¬ d.vis.length < 8 by omega)]
    rw [GSlice.index_ok d 0 (by omega), Res.bind_ok]
    rw [GSlice.index_ok d 1 (by omega), Res.bind_ok]
    rw [GSlice.slice_ok d 2 4 (by omega) (by omega), Res.bind_ok]
    simp only [Nat.reduceSub]
    rw [uint16_vis d.vis _ 2 (by omega), Res.bind_ok]
    rw [GSlice.slice_ok d 4 8 (by omega) (by omega), Res.bind_ok]
    rw [GSlice.slice_ok d 0 8 (by omega) (by omega), Res.bind_ok]
    rw [GSlice.sliceFrom_ok d 8 hl', Res.bind_ok]
    simp only [Nat.reduceSub, List.drop_zero, Nat.sub_zero]
    unfold igmp12Layer igmp12Version
    by_cases hq : (byteAt d.vis 0).toNat = igmpMembershipQuery
    · rw [if_pos hq, if_pos hq]
      rw [Res.bind_ok]
      by_cases h0 : (byteAt d.vis 1).toNat = 0
      · rw [if_pos h0, if_pos h0]; rfl
      · rw [if_neg h0, if_neg h0]; rfl
    · rw [if_neg hq, if_neg hq]
      by_cases h1 : (byteAt d.vis 0).toNat = igmpMembershipReportV1
      · rw [if_pos h1, if_pos h1]; rfl
      · rw [if_neg h1, if_neg h1]
        by_cases h2 : (byteAt d.vis 0).toNat = igmpLeaveGroup ∨ (byteAt d.vis 0).toNat = igmpMembershipReportV2
        · rw [if_pos h2, if_pos h2]; rfl
        · rw [if_neg h2, if_neg h2]; rfl

theorem IPSecAH.decode_eq (old : IPSecAH) (d : GSlice) :
    old.decodeFromBytes d = .ok (ahDecSpec old d.vis) := by
  unfold IPSecAH.decodeFromBytes ahDecSpec
  by_cases hs : d.len < 12
  · rw [if_pos hs, if_pos (show d.vis.length < 12 from hs)]
  · have hl : 12 ≤ d.vis.length := by unfold GSlice.len at hs; omega
    have hl' : 12 ≤ d.len := hl
    rw [if_neg hs, if_neg (show ¬ d.vis.length < 12 by omega)]
    rw [GSlice.index_ok d 0 (by omega), Res.bind_ok]
    rw [GSlice.index_ok d 1 (by omega), Res.bind_ok]
    rw [GSlice.slice_ok d 2 4 (by omega) (by omega), Res.bind_ok]
    simp only [Nat.reduceSub]
    rw [uint16_vis d.vis _ 2 (by omega), Res.bind_ok]
    rw [GSlice.slice_ok d 4 8 (by omega) (by omega), Res.bind_ok]
    simp only [Nat.reduceSub]
    rw [uint32_vis d.vis _ 4 (by omega), Res.bind_ok]
    rw [GSlice.slice_ok d 8 12 (by omega) (by omega), Res.bind_ok]
    simp only [Nat.reduceSub]
    rw [uint32_vis d.vis _ 8 (by omega), Res.bind_ok]
    have eal : ((byteAt d.vis 1).toNat + 2) * 4 = ahLen d.vis := rfl
    simp only [eal]
    by_cases h12 : ahLen d.vis < 12
    · rw [if_pos h12, if_pos h12]; rfl
    · rw [if_neg h12, if_neg h12]
      by_cases hlen : d.len < ahLen d.vis
      · rw [if_pos hlen, if_pos (show d.vis.length < ahLen d.vis from hlen)]; rfl
      · rw [if_neg hlen, if_neg (show ¬ d.vis.length < ahLen d.vis from hlen)]
        have hle : ahLen d.vis ≤ d.len := by omega
        rw [GSlice.slice_ok d 12 (ahLen d.vis) (by omega) hle, Res.bind_ok]
        rw [GSlice.slice_ok d 0 (ahLen d.vis) (by omega) hle, Res.bind_ok]
        rw [GSlice.sliceFrom_ok d (ahLen d.vis) hle, Res.bind_ok]
        simp only [List.drop_zero, Nat.sub_zero, pure, ahLayer]

theorem IPSecESP.decode_eq (old : IPSecESP) (d : GSlice) :
    old.decodeFromBytes d = .ok (espDecSpec old d.vis) := by
  unfold IPSecESP.decodeFromBytes espDecSpec
  by_cases hs : d.len < 8
  · rw [if_pos hs, if_pos (show d.vis.length < 8 from hs)]
  · have hl : 8 ≤ d.vis.length := by unfold GSlice.len at hs; omega
    have hl' : 8 ≤ d.len := hl
    rw [if_neg hs, if_neg (show ¬ d.vis.length < 8 by omega)]
    rw [GSlice.slice_ok d 0 4 (by omega) (by omega), Res.bind_ok]
    simp only [Nat.reduceSub]
    rw [uint32_vis d.vis _ 0 (by omega), Res.bind_ok]
    rw [GSlice.slice_ok d 4 8 (by omega) (by omega), Res.bind_ok]
    simp only [Nat.reduceSub]
    rw [uint32_vis d.vis _ 4 (by omega), Res.bind_ok]
    rw [GSlice.sliceFrom_ok d 8 hl', Res.bind_ok]
    simp only [pure, espLayer]

end Gp.Igmp
