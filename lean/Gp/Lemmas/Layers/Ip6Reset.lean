import Gp.Lemmas.Layers.Ip6Dec2
/-
  No stale state: the result of DecodeFromBytes does not depend on the previous contents of the
  layer object (C05).  Core Lean only.
-/
namespace Gp.Ip6
open Gp Gp.Gen.Ip6

/-- The public part of an IPv6 layer: the private scratch field `hbh` (which `HopByHop` points to
    whenever it is non-nil after a decode) is erased. -/
def IPv6.pub (l : IPv6) : IPv6 := { l with hbh := TlvExt.zero }

theorem tlvExtSpec_res_tr (old old' : TlvExt) (b : Bytes) :
    (tlvExtSpec old b).res = (tlvExtSpec old' b).res ∧ (tlvExtSpec old b).tr = (tlvExtSpec old' b).tr := by
  unfold tlvExtSpec
  match extBaseSpec b with
  | (.panic p, tr) => exact ⟨rfl, rfl⟩
  | (.err e, tr) => exact ⟨rfl, rfl⟩
  | (.ok base, tr) => exact ⟨rfl, rfl⟩

theorem ip6HbhSpec_not_ok (l1 : IPv6) (pay : Bytes) (ho : DecOut TlvExt) (h : ho.res ≠ .ok ()) :
    (ip6HbhSpec l1 pay ho).res = ho.res ∧ (ip6HbhSpec l1 pay ho).tr = ho.tr := by
  unfold ip6HbhSpec
  match hr : ho.res with
  | .panic k => exact ⟨rfl, rfl⟩
  | .err e => exact ⟨rfl, rfl⟩
  | .ok () => exact absurd hr h

/-- Outcome, truncation flag and all public fields of a decode are the same for every old layer
    value (on error the outcome and flag still agree). -/
theorem ip6Spec_old (old old' : IPv6) (b : Bytes) :
    (ip6Spec old b).res = (ip6Spec old' b).res ∧ (ip6Spec old b).tr = (ip6Spec old' b).tr ∧
    ((ip6Spec old b).res = .ok () → (ip6Spec old b).layer.pub = (ip6Spec old' b).layer.pub) := by
  unfold ip6Spec
  split
  · rename_i b0 b1 b2 b3 b4 b5 b6 b7 rest
    split
    · exact ⟨rfl, rfl, fun h => by simp at h⟩
    · dsimp only
      split
      · -- hop-by-hop
        obtain ⟨hr, ht⟩ := tlvExtSpec_res_tr old.hbh old'.hbh (rest.drop 32)
        by_cases hres : (tlvExtSpec old.hbh (rest.drop 32)).res = .ok ()
        · have heq := tlvExtSpec_old old.hbh old'.hbh (rest.drop 32) hres
          rw [← heq]
          exact ⟨rfl, rfl, fun _ => rfl⟩
        · have hres' : (tlvExtSpec old'.hbh (rest.drop 32)).res ≠ .ok () := by rw [← hr]; exact hres
          have a := fun l1 => ip6HbhSpec_not_ok l1 (rest.drop 32) _ hres
          have c := fun l1 => ip6HbhSpec_not_ok l1 (rest.drop 32) _ hres'
          refine ⟨by rw [(a _).1, (c _).1, hr], by rw [(a _).2, (c _).2, ht], fun h => ?_⟩
          rw [(a _).1] at h; exact absurd h hres
      · exact ⟨rfl, rfl, fun _ => rfl⟩
  · exact ⟨rfl, rfl, fun h => by simp at h⟩

end Gp.Ip6
