import Gp.Lemmas.Layers.Radius
/-
  Helper lemmas for engine `lradius`, part 2: serialization over the C18 buffer model.  Core Lean only.

  Section 1 holds the *definitions* used in property statements (functional specification of
  SerializeTo, the observable view `serView`); the rest is proof machinery.
-/
namespace Gp.Radius
open Gp Gp.SBuf Gp.C18 Gp.Gen.Radius

/-! ## 1. Definitions used in property statements -/

/-- Functional specification of a SerializeTo call: the receiver afterwards, whether an error was
    returned, and (when not) the bytes the buffer then holds. -/
structure SerSpec (L : Type) where
  layer : L
  err   : Bool
  bytes : Bytes
  deriving Repr, DecidableEq

/-- What a caller can observe of a SerializeTo call: the receiver afterwards, the error flag and,
    when no error was returned, the bytes in the buffer (`Bytes()`); not the buffer's internals. -/
def serView {L : Type} (r : Res (SerOut L)) : Res (SerSpec L) :=
  match r with
  | .ok o => .ok { layer := o.layer, err := o.err, bytes := if o.err then [] else SBuf.contents o.buf }
  | .err k => .err k
  | .panic k => .panic k

/-- The receiver after the FixLengths assignment `radius.Length = RADIUSLength(plen)` (uint16). -/
def radiusFixed (l : RADIUS) (plen : Nat) (fix : Bool) : RADIUS :=
  if fix then { l with length := plen % 65536 } else l

/-- The limit of `attributeValueLength`. -/
def valLim (v : Variant) : Nat := match v with | .orig => 255 | .fixed => 253

/-- Bytes the attributes occupy. -/
def attrsWidth : List Attr → Nat
  | [] => 0
  | a :: rest => (a.value.length + 2) + attrsWidth rest

/-- No attribute value is longer than `attributeValueLength` accepts. -/
def valsOk (v : Variant) : List Attr → Prop
  | [] => True
  | a :: rest => a.value.length ≤ valLim v ∧ valsOk v rest

instance valsOkDec (v : Variant) : (as : List Attr) → Decidable (valsOk v as)
  | [] => isTrue trivial
  | a :: rest =>
    have := valsOkDec v rest
    by unfold valsOk; infer_instance

/-- The value stored in the Length octet of an acceptable attribute. -/
def lenByteOf (v : Variant) (fix : Bool) (a : Attr) : Nat :=
  if fix then (match v with | .orig => a.value.length % 256 | .fixed => (a.value.length + 2) % 256)
  else a.length

def attrBytes (v : Variant) (fix : Bool) (a : Attr) : Bytes := [u8 a.typ, u8 (lenByteOf v fix a)] ++ a.value

def attrsBytes (v : Variant) (fix : Bool) : List Attr → Bytes
  | [] => []
  | a :: rest => attrBytes v fix a ++ attrsBytes v fix rest

/-- The 20 header bytes. -/
def hdrBytes (l : RADIUS) : Bytes := [u8 l.code, u8 l.identifier] ++ putBe16 l.length ++ l.authenticator

/-- The whole message. -/
def radiusEncode (v : Variant) (fix : Bool) (l : RADIUS) : Bytes := hdrBytes l ++ attrsBytes v fix l.attributes

/-- What `RADIUS.SerializeTo` does, as a function of the layer, the bytes already in the buffer and
    FixLengths: an error iff some value is too long; otherwise `20 + attrsWidth` bytes in front. -/
def serSpec (v : Variant) (l : RADIUS) (p : Bytes) (fix : Bool) : SerSpec RADIUS :=
  if valsOk v l.attributes then
    let l' := radiusFixed l (20 + attrsWidth l.attributes) fix
    { layer := l', err := false, bytes := radiusEncode v fix l' ++ p }
  else { layer := l, err := true, bytes := [] }

/-! ## 2. Len() -/

theorem valLen_some (v : Variant) (x : Bytes) (h : x.length ≤ valLim v) : valLen v x = some x.length := by
  unfold valLen
  unfold valLim at h
  have h255 : x.length ≤ 255 := by cases v <;> simp at h <;> omega
  cases v <;> simp only at h ⊢ <;> rw [if_neg (by omega), Nat.mod_eq_of_lt (by omega)]

theorem valLen_none (v : Variant) (x : Bytes) (h : ¬ x.length ≤ valLim v) : valLen v x = none := by
  unfold valLen
  unfold valLim at h
  cases v <;> simp only at h ⊢ <;> rw [if_pos (by omega)]

theorem lenLoop_ok (v : Variant) : ∀ (as : List Attr) (n : Nat), valsOk v as →
    lenLoop v as n = some (n + attrsWidth as) := by
  intro as
  induction as with
  | nil => intro n _; simp [lenLoop, attrsWidth]
  | cons a rest ih =>
    intro n h
    unfold lenLoop
    rw [valLen_some v _ h.1]
    simp only
    rw [ih _ h.2, attrsWidth]
    congr 1; omega

theorem lenLoop_bad (v : Variant) : ∀ (as : List Attr) (n : Nat), ¬ valsOk v as → lenLoop v as n = none := by
  intro as
  induction as with
  | nil => intro n h; exact absurd trivial h
  | cons a rest ih =>
    intro n h
    unfold lenLoop
    by_cases ha : a.value.length ≤ valLim v
    · rw [valLen_some v _ ha]
      simp only
      exact ih _ (fun hr => h ⟨ha, hr⟩)
    · rw [valLen_none v _ ha]

theorem len_ok (v : Variant) (l : RADIUS) (h : valsOk v l.attributes) :
    l.len v = some (20 + attrsWidth l.attributes) := by
  unfold RADIUS.len; rw [lenLoop_ok v _ _ h]; rfl

theorem len_bad (v : Variant) (l : RADIUS) (h : ¬ valsOk v l.attributes) : l.len v = none := by
  unfold RADIUS.len; exact lenLoop_bad v _ _ h

theorem attrLenByte_ok (v : Variant) (fix : Bool) (a : Attr) (h : a.value.length ≤ valLim v) :
    attrLenByte v fix a = some (lenByteOf v fix a) := by
  unfold attrLenByte lenByteOf
  cases fix
  · rfl
  · simp only [if_true]
    rw [valLen_some v _ h]
    cases v
    · have h255 : a.value.length ≤ 255 := h
      simp only
      rw [Nat.mod_eq_of_lt (by omega)]
    · rfl

/-! ## 3. SerializeTo never panics — every field value, every buffer state (no invariant needed) -/

theorem write_ok (b : SBuf) (w : Win) (i : Nat) (v : UInt8) (h : i < w.n) : ∃ b', write b w i v = .ok b' := by
  unfold write; rw [if_pos h]; split <;> exact ⟨_, rfl⟩

theorem winSlice_ok (w : Win) (a c : Nat) (h1 : a ≤ c) (h2 : c ≤ w.n) :
    winSlice w a c = .ok { gen := w.gen, off := w.off + a, n := c - a } := by
  unfold winSlice; rw [if_pos ⟨h1, h2⟩]

theorem winFrom_ok (w : Win) (a : Nat) (h : a ≤ w.n) :
    winFrom w a = .ok { gen := w.gen, off := w.off + a, n := w.n - a } := by
  unfold winFrom; rw [if_pos h]

theorem putUint16_ok (b : SBuf) (w : Win) (v : Nat) (h : 2 ≤ w.n) : putUint16 b w v = .ok (fill b w (putBe16 v)) := by
  unfold putUint16; rw [if_neg (by omega)]

theorem serLoop_total (v : Variant) (fix : Bool) : ∀ (as : List Attr) (b : SBuf) (data : Win) (pos : Nat),
    pos + attrsWidth as ≤ data.n → ∃ q, serLoop v fix as b data pos = .ok q := by
  intro as
  induction as with
  | nil => intro b data pos _; exact ⟨_, rfl⟩
  | cons a rest ih =>
    intro b data pos h
    simp only [attrsWidth] at h
    unfold serLoop
    cases attrLenByte v fix a with
    | none => exact ⟨_, rfl⟩
    | some alen =>
      simp only
      obtain ⟨b1, e1⟩ := write_ok b data pos (u8 a.typ) (by omega)
      rw [e1]
      simp only
      obtain ⟨b2, e2⟩ := write_ok b1 data (pos + 1) (u8 alen) (by omega)
      rw [e2]
      simp only
      rw [winFrom_ok data (pos + 2) (by omega)]
      simp only
      exact ih _ data (pos + (a.value.length + 2)) (by omega)

/-- `RADIUS.SerializeTo` never panics: every field value, every attribute list, every buffer state,
    both variants of the source. -/
theorem serializeTo_ok (v : Variant) (l : RADIUS) (b : SBuf) (fix csum : Bool) :
    ∃ o, l.serializeTo v b fix csum = .ok o := by
  unfold RADIUS.serializeTo
  by_cases hv : valsOk v l.attributes
  · rw [len_ok v l hv]
    simp only
    generalize hplen : 20 + attrsWidth l.attributes = plen
    have hn : (prepend b plen).2.n = plen := rfl
    generalize prepend b plen = r at hn
    obtain ⟨b1, w⟩ := r
    simp only at hn ⊢
    generalize hl' : (if fix = true then { l with length := plen % 65536 } else l) = l'
    have hattrs : l'.attributes = l.attributes := by rw [← hl']; cases fix <;> rfl
    obtain ⟨b2, e2⟩ := write_ok b1 w 0 (u8 l'.code) (by omega)
    rw [e2, Res.bind_ok]
    obtain ⟨b3, e3⟩ := write_ok b2 w 1 (u8 l'.identifier) (by omega)
    rw [e3, Res.bind_ok, winFrom_ok w 2 (by omega), Res.bind_ok, putUint16_ok _ _ _ (by simp only; omega), Res.bind_ok,
      winSlice_ok w 4 20 (by omega) (by omega), Res.bind_ok]
    simp only [radiusMinRecord]
    obtain ⟨q, eq⟩ := serLoop_total v fix l'.attributes
      (copyTo (fill b3 { gen := w.gen, off := w.off + 2, n := w.n - 2 } (putBe16 l'.length))
        { gen := w.gen, off := w.off + 4, n := 20 - 4 } l'.authenticator) w 20 (by rw [hattrs]; omega)
    rw [eq, Res.bind_ok]
    exact ⟨_, rfl⟩
  · rw [len_bad v l hv]; exact ⟨_, rfl⟩

/-! ## 4. Writing a window front to back (the window is NOT cleared: what is not written stays) -/

/-- A store of `vs` through a current window positioned right behind the already written prefix `W`
    of the contents replaces the next `|vs|` bytes. -/
theorem fill_next (b : SBuf) (h : Inv b) (w : Win) (W R vs : Bytes)
    (hg : w.gen = b.gen) (ho : w.off = b.start + W.length) (hc : contents b = W ++ R)
    (hv : vs.length ≤ R.length) :
    contents (fill b w vs) = (W ++ vs) ++ R.drop vs.length ∧ Inv (fill b w vs) ∧
    (fill b w vs).start = b.start ∧ (fill b w vs).gen = b.gen := by
  have hcl := contents_length b h
  rw [hc, List.length_append] at hcl
  have h' := h
  obtain ⟨i1, i2, i3⟩ := h
  have h1 : b.start ≤ w.off := by omega
  have h2 : w.off + vs.length ≤ b.len := by omega
  refine ⟨?_, inv_fill' b w vs h' (by omega), (fill_fields b w vs).1, (fill_fields b w vs).2.2.2.1⟩
  rw [fill_contents b w vs h' hg h1 h2, hc]
  have : w.off - b.start = W.length := by omega
  rw [this, List.take_left' rfl, List.drop_length_add_append]

/-- The same for a single indexed store `w[i] = v`. -/
theorem write_next (b : SBuf) (h : Inv b) (w : Win) (i : Nat) (v : UInt8) (W R : Bytes)
    (hg : w.gen = b.gen) (hi : i < w.n) (ho : w.off + i = b.start + W.length)
    (hc : contents b = W ++ R) (hr : 1 ≤ R.length) :
    ∃ b', write b w i v = .ok b' ∧ contents b' = (W ++ [v]) ++ R.drop 1 ∧ Inv b' ∧
      b'.start = b.start ∧ b'.gen = b.gen := by
  refine ⟨_, write_current b w i v hg hi, ?_, inv_set b _ v h, rfl, rfl⟩
  rw [contents_set b (w.off + i) v (by omega), hc]
  have : w.off + i - b.start = W.length := by omega
  rw [this]
  cases R with
  | nil => simp at hr
  | cons r rs => simp

/-- The buffer while SerializeTo fills its window front to back: `W` is written, `plen - |W|` bytes of
    whatever the memory held (`R`) follow, then the bytes `P` the buffer held before. -/
structure SerInv (b0 : SBuf) (plen : Nat) (P : Bytes) (b : SBuf) (W : Bytes) : Prop where
  inv : Inv b
  start : b.start = b0.start
  gen : b.gen = b0.gen
  le : W.length ≤ plen
  cont : ∃ R : Bytes, R.length = plen - W.length ∧ contents b = W ++ (R ++ P)

theorem ser_fill {b0 : SBuf} {plen : Nat} {P : Bytes} {b : SBuf} {W : Bytes} (h : SerInv b0 plen P b W)
    (w : Win) (vs : Bytes) (hg : w.gen = b0.gen) (ho : w.off = b0.start + W.length)
    (hv : W.length + vs.length ≤ plen) : SerInv b0 plen P (fill b w vs) (W ++ vs) := by
  obtain ⟨R, hR, hc⟩ := h.cont
  obtain ⟨c, i, s, g⟩ := fill_next b h.inv w W (R ++ P) vs (by rw [h.gen]; exact hg)
    (by rw [h.start]; exact ho) hc (by rw [List.length_append]; omega)
  refine ⟨i, by rw [s, h.start], by rw [g, h.gen], by rw [List.length_append]; omega, R.drop vs.length, ?_, ?_⟩
  · rw [List.length_drop, List.length_append]; omega
  · rw [c, List.drop_append_of_le_length (by omega)]

theorem ser_write {b0 : SBuf} {plen : Nat} {P : Bytes} {b : SBuf} {W : Bytes} (h : SerInv b0 plen P b W)
    (w : Win) (i : Nat) (v : UInt8) (hg : w.gen = b0.gen) (hi : i < w.n) (ho : w.off + i = b0.start + W.length)
    (hv : W.length < plen) : ∃ b', write b w i v = .ok b' ∧ SerInv b0 plen P b' (W ++ [v]) := by
  obtain ⟨R, hR, hc⟩ := h.cont
  obtain ⟨b', e, c, i', s, g⟩ := write_next b h.inv w i v W (R ++ P) (by rw [h.gen]; exact hg) hi
    (by rw [h.start]; exact ho) hc (by rw [List.length_append]; omega)
  refine ⟨b', e, i', by rw [s, h.start], by rw [g, h.gen], by rw [List.length_append]; simp; omega, R.drop 1, ?_, ?_⟩
  · rw [List.length_drop, List.length_append]; simp; omega
  · rw [c, List.drop_append_of_le_length (by omega)]

/-! ## 5. The attributes -/

theorem attrBytes_length (v : Variant) (fix : Bool) (a : Attr) : (attrBytes v fix a).length = a.value.length + 2 := by
  unfold attrBytes; simp

theorem attrsBytes_length (v : Variant) (fix : Bool) : ∀ as : List Attr, (attrsBytes v fix as).length = attrsWidth as := by
  intro as
  induction as with
  | nil => rfl
  | cons a rest ih => simp only [attrsBytes, attrsWidth, List.length_append, attrBytes_length, ih]

theorem serLoop_spec (v : Variant) (fix : Bool) : ∀ (as : List Attr) {b0 : SBuf} {plen : Nat} {P : Bytes} {b : SBuf} {W : Bytes}
    (_ : SerInv b0 plen P b W) (data : Win), data.gen = b0.gen → data.off = b0.start → data.n = plen →
    valsOk v as → W.length + attrsWidth as ≤ plen →
    ∃ b', serLoop v fix as b data W.length = .ok (b', false) ∧ SerInv b0 plen P b' (W ++ attrsBytes v fix as) := by
  intro as
  induction as with
  | nil =>
    intro b0 plen P b W h data _ _ _ _ _
    exact ⟨b, rfl, by simpa [attrsBytes] using h⟩
  | cons a rest ih =>
    intro b0 plen P b W h data hg ho hn hok hv
    simp only [attrsWidth] at hv
    unfold serLoop
    rw [attrLenByte_ok v fix a hok.1]
    simp only
    obtain ⟨b1, e1, h1⟩ := ser_write h data W.length (u8 a.typ) hg (by omega) (by omega) (by omega)
    rw [e1]
    simp only
    obtain ⟨b2, e2, h2⟩ := ser_write h1 data (W.length + 1) (u8 (lenByteOf v fix a)) hg (by omega)
      (by rw [List.length_append]; simp; omega) (by rw [List.length_append]; simp; omega)
    rw [e2]
    simp only
    rw [winFrom_ok data (W.length + 2) (by omega)]
    simp only
    have hcopy : copyTo b2 { gen := data.gen, off := data.off + (W.length + 2), n := data.n - (W.length + 2) } a.value =
        fill b2 { gen := data.gen, off := data.off + (W.length + 2), n := data.n - (W.length + 2) } a.value := by
      unfold copyTo
      simp only
      rw [List.take_of_length_le (by omega)]
    rw [hcopy]
    have h3 := ser_fill h2 { gen := data.gen, off := data.off + (W.length + 2), n := data.n - (W.length + 2) } a.value hg
      (by simp only [List.length_append, List.length_singleton]; omega)
      (by simp only [List.length_append, List.length_singleton]; omega)
    have hW : (W ++ [u8 a.typ] ++ [u8 (lenByteOf v fix a)] ++ a.value) = W ++ attrBytes v fix a := by
      simp [attrBytes, List.append_assoc]
    rw [hW] at h3
    have hl : (W ++ attrBytes v fix a).length = W.length + (a.value.length + 2) := by
      rw [List.length_append, attrBytes_length]
    obtain ⟨b3, e3, h4⟩ := ih h3 data hg ho hn hok.2 (by rw [hl]; omega)
    rw [hl] at e3
    refine ⟨b3, e3, ?_⟩
    simpa [attrsBytes, List.append_assoc] using h4

/-! ## 6. The whole call -/

theorem putBe16_length (v : Nat) : (putBe16 v).length = 2 := rfl

/-- What is known about the buffer and the window right after `PrependBytes(n)`. -/
theorem prepend_facts (b : SBuf) (n : Nat) (h : Inv b) :
    Inv (prepend b n).1 ∧ (prepend b n).2.n = n ∧ (prepend b n).2.gen = (prepend b n).1.gen ∧
    (prepend b n).2.off = (prepend b n).1.start ∧
    (contents (prepend b n).1).length = n + (contents b).length ∧
    (contents (prepend b n).1).drop n = contents b :=
  ⟨inv_prepend' b n h, rfl, rfl, rfl, prepend_contents_length b n h, prepend_contents_drop b n h⟩

theorem radiusFixed_fields (l : RADIUS) (plen : Nat) (fix : Bool) :
    (radiusFixed l plen fix).attributes = l.attributes ∧ (radiusFixed l plen fix).code = l.code ∧
    (radiusFixed l plen fix).identifier = l.identifier ∧ (radiusFixed l plen fix).authenticator = l.authenticator ∧
    (radiusFixed l plen fix).contents = l.contents ∧ (radiusFixed l plen fix).payload = l.payload := by
  unfold radiusFixed; cases fix <;> exact ⟨rfl, rfl, rfl, rfl, rfl, rfl⟩

/-- Refinement: on every buffer satisfying the C18 invariant, `RADIUS.serializeTo` returns — never
    panics — with exactly the receiver / error / bytes of `serSpec`: every requested byte is written
    (`typed`: the Authenticator array has its 16 bytes). -/
theorem serializeTo_refines (v : Variant) (l : RADIUS) (b : SBuf) (fix csum : Bool) (h : Inv b) (ht : l.typed) :
    ∃ o, l.serializeTo v b fix csum = .ok o ∧
      o.layer = (serSpec v l (SBuf.contents b) fix).layer ∧ o.err = (serSpec v l (SBuf.contents b) fix).err ∧
      ((serSpec v l (SBuf.contents b) fix).err = false →
        Inv o.buf ∧ SBuf.contents o.buf = (serSpec v l (SBuf.contents b) fix).bytes) := by
  unfold RADIUS.serializeTo serSpec
  by_cases hv : valsOk v l.attributes
  · rw [len_ok v l hv, if_pos hv]
    simp only
    generalize hplen : 20 + attrsWidth l.attributes = plen
    have hl' : (if fix = true then { l with length := plen % 65536 } else l) = radiusFixed l plen fix := rfl
    rw [hl']
    obtain ⟨fa, fc, fi, fau, -, -⟩ := radiusFixed_fields l plen fix
    generalize radiusFixed l plen fix = l' at fa fc fi fau ⊢
    have hauth : l'.authenticator.length = 16 := by rw [fau]; exact ht
    obtain ⟨hi1, hn, hgen, hoff, hlen, hdrop⟩ := prepend_facts b plen h
    generalize prepend b plen = r at hi1 hn hgen hoff hlen hdrop
    obtain ⟨b1, w⟩ := r
    simp only at hi1 hn hgen hoff hlen hdrop ⊢
    have h0 : SerInv b1 plen (contents b) b1 [] := by
      refine ⟨hi1, rfl, rfl, by simp, (contents b1).take plen, ?_, ?_⟩
      · rw [List.length_take]; simp; omega
      · rw [← hdrop]; simp
    obtain ⟨b2, e2, h2⟩ := ser_write h0 w 0 (u8 l'.code) hgen (by omega) (by simpa using hoff) (by simp; omega)
    rw [e2, Res.bind_ok]
    obtain ⟨b3, e3, h3⟩ := ser_write h2 w 1 (u8 l'.identifier) hgen (by omega) (by simp; omega) (by simp; omega)
    rw [e3, Res.bind_ok, winFrom_ok w 2 (by omega), Res.bind_ok, putUint16_ok _ _ _ (by simp only; omega), Res.bind_ok,
      winSlice_ok w 4 20 (by omega) (by omega), Res.bind_ok]
    have h4 := ser_fill h3 { gen := w.gen, off := w.off + 2, n := w.n - 2 } (putBe16 l'.length) hgen (by simp; omega)
      (by simp [putBe16_length]; omega)
    have hcopy : ∀ bb : SBuf, copyTo bb { gen := w.gen, off := w.off + 4, n := 20 - 4 } l'.authenticator =
        fill bb { gen := w.gen, off := w.off + 4, n := 20 - 4 } l'.authenticator := by
      intro bb; unfold copyTo; simp only; rw [List.take_of_length_le (by omega)]
    rw [hcopy]
    have h5 := ser_fill h4 { gen := w.gen, off := w.off + 4, n := 20 - 4 } l'.authenticator hgen
      (by simp [putBe16_length]; omega) (by simp [putBe16_length, hauth]; omega)
    have hW : ([] ++ [u8 l'.code] ++ [u8 l'.identifier] ++ putBe16 l'.length ++ l'.authenticator) = hdrBytes l' := by
      simp [hdrBytes]
    rw [hW] at h5
    have hWl : (hdrBytes l').length = 20 := by simp [hdrBytes, putBe16_length, hauth]
    simp only [radiusMinRecord]
    obtain ⟨b4, e4, h6⟩ := serLoop_spec v fix l'.attributes h5 w hgen hoff hn (by rw [fa]; exact hv)
      (by rw [hWl, fa]; omega)
    rw [hWl] at e4
    rw [e4, Res.bind_ok]
    refine ⟨_, rfl, rfl, rfl, fun _ => ⟨h6.inv, ?_⟩⟩
    obtain ⟨R, hR, hc⟩ := h6.cont
    have hfull : (hdrBytes l' ++ attrsBytes v fix l'.attributes).length = plen := by
      rw [List.length_append, hWl, attrsBytes_length, fa]; exact hplen
    rw [hfull, Nat.sub_self] at hR
    have : R = [] := List.eq_nil_of_length_eq_zero hR
    rw [this] at hc
    simp only
    rw [hc]; rfl
  · rw [len_bad v l hv, if_neg hv]
    exact ⟨_, rfl, rfl, rfl, fun hh => by cases hh⟩

/-! ## 7. Observable view; spec-level laws -/

theorem serSpec_err_bytes (v : Variant) (l : RADIUS) (p : Bytes) (fix : Bool)
    (h : (serSpec v l p fix).err = true) : (serSpec v l p fix).bytes = [] := by
  unfold serSpec at h ⊢
  split
  · rename_i h1; rw [if_pos h1] at h; cases h
  · rfl

theorem serView_of_refines {L : Type} (r : Res (SerOut L)) (s : SerSpec L)
    (hs : s.err = true → s.bytes = [])
    (h : ∃ o, r = .ok o ∧ o.layer = s.layer ∧ o.err = s.err ∧ (s.err = false → SBuf.contents o.buf = s.bytes)) :
    serView r = .ok s := by
  obtain ⟨o, ho, hl, he, hb⟩ := h
  rw [ho]
  unfold serView
  simp only
  congr 1
  cases s with
  | mk sl se sb =>
    simp only at hl he hb hs
    cases se
    · simp only [he, hl, hb rfl]; rfl
    · simp only [he, hl, hs rfl]; rfl

theorem radius_serView (v : Variant) (l : RADIUS) (b : SBuf) (fix csum : Bool) (h : Inv b) (ht : l.typed) :
    serView (l.serializeTo v b fix csum) = .ok (serSpec v l (SBuf.contents b) fix) := by
  obtain ⟨o, ho, hl, he, hb⟩ := serializeTo_refines v l b fix csum h ht
  exact serView_of_refines _ _ (serSpec_err_bytes v l _ fix) ⟨o, ho, hl, he, fun x => (hb x).2⟩

theorem radiusFixed_idem (l : RADIUS) (plen : Nat) (fix : Bool) :
    radiusFixed (radiusFixed l plen fix) plen fix = radiusFixed l plen fix := by
  unfold radiusFixed; cases fix <;> rfl

/-- Idempotence at the level of the specification, including the error returns. -/
theorem serSpec_idem (v : Variant) (l : RADIUS) (p : Bytes) (fix : Bool) :
    serSpec v (serSpec v l p fix).layer p fix = serSpec v l p fix := by
  unfold serSpec
  by_cases hv : valsOk v l.attributes
  · simp only [hv, if_true, (radiusFixed_fields l _ fix).1, radiusFixed_idem]
  · simp only [hv, if_false]

/-! ## 8. A concrete dirty buffer (used by the non-vacuity examples of C07) -/

/-- a buffer that held 300+300 bytes 0xA5 and was cleared -/
def dirtyBuf : SBuf :=
  clear (step (step (new 0 0) (.append (List.replicate 300 0xA5))) (.prepend (List.replicate 300 0xA5)))

theorem dirtyBuf_inv : Inv dirtyBuf :=
  inv_clear' _ (inv_step' _ _ (inv_step' _ _ (inv_new' 0 0)))

end Gp.Radius
