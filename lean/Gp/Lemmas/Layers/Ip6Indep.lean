import Gp.Lemmas.Layers.Ip6SerIp2
import Gp.Lemmas.Layers.Ip6SerRt
/-
  Buffer independence (C07): definitions used in the statements and the lemmas for IPv6.
-/
namespace Gp.Ip6
open Gp Gp.SBuf Gp.C18 Gp.Gen.Ip6

/-- Two buffers a caller cannot tell apart: same contents and recorded layers (arbitrary capacity,
    stale bytes, history), both satisfying the invariant every reachable buffer satisfies. -/
def BufEq (b1 b2 : SBuf) : Prop :=
  Inv b1 ∧ Inv b2 ∧ contents b1 = contents b2 ∧ b1.layers = b2.layers

/-- Two serializer outcomes a caller cannot tell apart. -/
def SameOut {α} (r1 r2 : Res (SBuf × α)) : Prop :=
  match r1, r2 with
  | .ok (o1, l1), .ok (o2, l2) => BufEq o1 o2 ∧ l1 = l2
  | .err x, .err y => x = y
  | _, _ => False

def SameBuf (r1 r2 : Res SBuf) : Prop :=
  match r1, r2 with
  | .ok o1, .ok o2 => BufEq o1 o2
  | .err x, .err y => x = y
  | _, _ => False

theorem bufEq_prepend (b1 b2 : SBuf) (vs : Bytes) (h : BufEq b1 b2) :
    BufEq (step b1 (.prepend vs)) (step b2 (.prepend vs)) := by
  obtain ⟨i1, i2, hc, hl⟩ := h
  refine ⟨inv_step' _ _ i1, inv_step' _ _ i2, ?_, ?_⟩
  · rw [contents_step_prepend _ _ i1, contents_step_prepend _ _ i2, hc]
  · rw [layers_step, layers_step, hl, hc]

theorem bufEq_setContents (b1 b2 : SBuf) (p : Bytes) (h : BufEq b1 b2) (hl : p.length = (contents b1).length) :
    BufEq (setContents b1 p) (setContents b2 p) := by
  obtain ⟨i1, i2, hc, hlay⟩ := h
  obtain ⟨c1, j1, l1⟩ := setContents_spec b1 p i1 hl
  obtain ⟨c2, j2, l2⟩ := setContents_spec b2 p i2 (by rw [← hc]; exact hl)
  exact ⟨j1, j2, by rw [c1, c2], by rw [l1, l2, hlay]⟩

/-- The hop-by-hop header of the layer writes every byte it requests. -/
def IPv6.Consistent (fix : Bool) (l : IPv6) : Prop :=
  match l.hopByHop with
  | none => True
  | some h => GapFree fix h.options ∧ AlignInRange h.options

theorem serializeTlvExt_sameOut (e : TlvExt) (b1 b2 : SBuf) (fix : Bool) (h : BufEq b1 b2)
    (hg : GapFree fix e.options) (hr : AlignInRange e.options) :
    SameOut (serializeTlvExt e b1 fix) (serializeTlvExt e b2 fix) := by
  rw [serializeTlvExt_closed e b1 fix h.1 hg hr, serializeTlvExt_closed e b2 fix h.2.1 hg hr]
  split
  · rfl
  · exact ⟨bufEq_prepend _ _ _ (bufEq_prepend _ _ _ h), rfl⟩

/-! ## the jumbo option keeps the hop-by-hop header consistent -/

theorem setJumboLength_spec (o o' : Tlv) (n : Nat) (h : setJumboLength o n = .ok o') :
    o'.typ = hopByHopOptionJumbogram ∧ o'.len = 4 ∧ o'.bytes.length = 4 ∧ o'.ax = 4 ∧ o'.ay = 2 := by
  unfold setJumboLength at h
  dsimp only at h
  by_cases h4 : o.bytes.length ≠ 4
  · rw [if_pos h4] at h
    simp only [List.length_cons, List.length_nil, Nat.lt_irrefl, if_false, Res.ok.injEq, Nat.reduceAdd] at h
    rw [← h]
    exact ⟨rfl, rfl, by simp [Tlv.bytes, putBe32], rfl, rfl⟩
  · have h4' : o.bytes.length = 4 := by omega
    rw [if_neg h4] at h
    have : ¬ o.bytes.length < 4 := by omega
    rw [if_neg this] at h
    simp only [Res.ok.injEq] at h
    rw [← h]
    exact ⟨rfl, rfl, by simp [Tlv.bytes, putBe32, h4']; simp [Tlv.bytes] at h4'; omega, rfl, rfl⟩

theorem jumboOpt_ok (fix : Bool) (o' : Tlv)
    (h : o'.len = 4 ∧ o'.bytes.length = 4 ∧ o'.ax = 4 ∧ o'.ay = 2) :
    (o'.typ ≠ 0 → (fixOpt fix o').len ≤ o'.bytes.length) ∧ (o'.ax < 256 ∧ o'.ay < 256) := by
  obtain ⟨h1, h2, h3, h4⟩ := h
  refine ⟨fun ht => ?_, by omega⟩
  unfold fixOpt
  rw [if_neg ht]
  split
  · show o'.bytes.length % 256 ≤ o'.bytes.length
    exact Nat.mod_le _ _
  · omega

theorem setFirstJumbo_consistent (fix : Bool) : ∀ (os os' : List Tlv) (f : Bool),
    setFirstJumbo os = .ok (os', f) → GapFree fix os → AlignInRange os →
    GapFree fix os' ∧ AlignInRange os' := by
  intro os
  induction os with
  | nil =>
    intro os' f h hg hr
    simp only [setFirstJumbo, Res.ok.injEq, Prod.mk.injEq] at h
    rw [← h.1]; exact ⟨hg, hr⟩
  | cons o os ih =>
    intro os' f h hg hr
    unfold setFirstJumbo at h
    split at h
    · match hs : setJumboLength o 0 with
      | .ok o' =>
        rw [hs] at h
        simp only [Res.bind_ok, Res.pure_eq_ok, Res.ok.injEq, Prod.mk.injEq] at h
        obtain ⟨-, s2, s3, s4, s5⟩ := setJumboLength_spec o o' 0 hs
        obtain ⟨g1, g2⟩ := jumboOpt_ok fix o' ⟨s2, s3, s4, s5⟩
        rw [← h.1]
        refine ⟨fun x hx => ?_, fun x hx => ?_⟩
        · rcases List.mem_cons.1 hx with rfl | hx
          · exact g1
          · exact hg x (List.mem_cons_of_mem _ hx)
        · rcases List.mem_cons.1 hx with rfl | hx
          · exact g2
          · exact hr x (List.mem_cons_of_mem _ hx)
      | .err e => rw [hs] at h; simp at h
      | .panic k => rw [hs] at h; simp at h
    · match hs : setFirstJumbo os with
      | .ok (os2, f2) =>
        rw [hs] at h
        simp only [Res.bind_ok, Res.pure_eq_ok, Res.ok.injEq, Prod.mk.injEq] at h
        obtain ⟨g1, g2⟩ := ih os2 f2 hs (fun x hx => hg x (List.mem_cons_of_mem _ hx))
          (fun x hx => hr x (List.mem_cons_of_mem _ hx))
        rw [← h.1]
        refine ⟨fun x hx => ?_, fun x hx => ?_⟩
        · rcases List.mem_cons.1 hx with rfl | hx
          · exact hg _ List.mem_cons_self
          · exact g1 x hx
        · rcases List.mem_cons.1 hx with rfl | hx
          · exact hr _ List.mem_cons_self
          · exact g2 x hx
      | .err e => rw [hs] at h; simp at h
      | .panic k => rw [hs] at h; simp at h

theorem addJumboOption_consistent (fix : Bool) (l l' : IPv6) (h : addJumboOption l = .ok l')
    (hc : l.Consistent fix) : l'.Consistent fix := by
  unfold addJumboOption at h
  obtain ⟨t, ht⟩ := setJumboLength_ok Tlv.zero 0
  obtain ⟨-, s2, s3, s4, s5⟩ := setJumboLength_spec _ t 0 ht
  obtain ⟨g1, g2⟩ := jumboOpt_ok fix t ⟨s2, s3, s4, s5⟩
  unfold IPv6.Consistent at hc ⊢
  match hh : l.hopByHop with
  | none =>
    rw [hh] at h
    simp only [setFirstJumbo, Res.bind_ok, ht, Res.pure_eq_ok, Bool.false_eq_true, if_false,
      Res.ok.injEq] at h
    rw [← h]
    simp only [List.nil_append]
    exact ⟨fun x hx => by rw [List.mem_singleton.1 hx]; exact g1,
           fun x hx => by rw [List.mem_singleton.1 hx]; exact g2⟩
  | some hb =>
    rw [hh] at h hc
    obtain ⟨hg, hr⟩ := hc
    obtain ⟨⟨os, f⟩, hr'⟩ := setFirstJumbo_ok hb.options
    obtain ⟨c1, c2⟩ := setFirstJumbo_consistent fix _ _ _ hr' hg hr
    simp only [hr', Res.bind_ok, ht, Res.pure_eq_ok] at h
    split at h
    · simp only [Res.ok.injEq] at h
      rw [← h]; exact ⟨c1, c2⟩
    · simp only [Res.ok.injEq] at h
      rw [← h]
      refine ⟨fun x hx => ?_, fun x hx => ?_⟩
      · rcases List.mem_append.1 hx with hx | hx
        · exact hg x hx
        · rw [List.mem_singleton.1 hx]; exact g1
      · rcases List.mem_append.1 hx with hx | hx
        · exact hr x hx
        · rw [List.mem_singleton.1 hx]; exact g2

theorem ip6JumboPrep_consistent (fix jumbo : Bool) (l l' : IPv6) (h : ip6JumboPrep l fix jumbo = .ok l')
    (hc : l.Consistent fix) : l'.Consistent fix := by
  unfold ip6JumboPrep at h
  split at h
  · split at h
    · exact addJumboOption_consistent fix l l' h hc
    · split at h
      · cases h
      · rename_i hb hhb
        match hj : getJumboLength hb with
        | .ok (n, ok) =>
          rw [hj] at h
          simp only [Res.bind_ok] at h
          split at h
          · simp only [Res.pure_eq_ok, Res.ok.injEq] at h; rw [← h]; exact hc
          · cases h
        | .err e => rw [hj] at h; simp at h
        | .panic k => rw [hj] at h; simp at h
  · simp only [Res.pure_eq_ok, Res.ok.injEq] at h; rw [← h]; exact hc

end Gp.Ip6
