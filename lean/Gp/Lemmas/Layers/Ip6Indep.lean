import Gp.Lemmas.Layers.Ip6SerIp2
import Gp.Lemmas.Layers.Ip6SerRt
/-
  Buffer independence (C07): definitions used in the statements and the lemmas for IPv6.
-/
namespace Gp.Ip6
open Gp Gp.SBuf Gp.C18 Gp.Gen.Ip6

/-- Two buffers a caller cannot tell apart: same contents and recorded layers (arbitrary capacity,
    stale bytes, history), both satisfying the invariant every reachable buffer satisfies. -/
def BufEq (b1 b2 : SBuf) : Prop :=
  Inv b1 ∧ Inv b2 ∧ contents b1 = contents b2 ∧ b1.layers = b2.layers

/-- Two serializer outcomes a caller cannot tell apart. -/
def SameOut {α} (r1 r2 : Res (SBuf × α)) : Prop :=
  match r1, r2 with
  | .ok (o1, l1), .ok (o2, l2) => BufEq o1 o2 ∧ l1 = l2
  | .err x, .err y => x = y
  | _, _ => False

def SameBuf (r1 r2 : Res SBuf) : Prop :=
  match r1, r2 with
  | .ok o1, .ok o2 => BufEq o1 o2
  | .err x, .err y => x = y
  | _, _ => False

theorem bufEq_prepend (b1 b2 : SBuf) (vs : Bytes) (h : BufEq b1 b2) :
    BufEq (step b1 (.prepend vs)) (step b2 (.prepend vs)) := by
  obtain ⟨i1, i2, hc, hl⟩ := h
  refine ⟨inv_step' _ _ i1, inv_step' _ _ i2, ?_, ?_⟩
  · rw [contents_step_prepend _ _ i1, contents_step_prepend _ _ i2, hc]
  · rw [layers_step, layers_step, hl, hc]

theorem bufEq_setContents (b1 b2 : SBuf) (p : Bytes) (h : BufEq b1 b2) (hl : p.length = (contents b1).length) :
    BufEq (setContents b1 p) (setContents b2 p) := by
  obtain ⟨i1, i2, hc, hlay⟩ := h
  obtain ⟨c1, j1, l1⟩ := setContents_spec b1 p i1 hl
  obtain ⟨c2, j2, l2⟩ := setContents_spec b2 p i2 (by rw [← hc]; exact hl)
  exact ⟨j1, j2, by rw [c1, c2], by rw [l1, l2, hlay]⟩

/-- The hop-by-hop header of the layer writes every byte it requests. -/
def IPv6.Consistent (fix : Bool) (l : IPv6) : Prop :=
  match l.hopByHop with
  | none => True
  | some h => GapFree fix h.options ∧ AlignInRange h.options

theorem serializeTlvExt_sameOut (e : TlvExt) (b1 b2 : SBuf) (fix : Bool) (h : BufEq b1 b2)
    (hg : GapFree fix e.options) (hr : AlignInRange e.options) :
    SameOut (serializeTlvExt e b1 fix) (serializeTlvExt e b2 fix) := by
  rw [serializeTlvExt_closed e b1 fix h.1 hg hr, serializeTlvExt_closed e b2 fix h.2.1 hg hr]
  split
  · rfl
  · exact ⟨bufEq_prepend _ _ _ (bufEq_prepend _ _ _ h), rfl⟩

end Gp.Ip6
