import Gp.Model.Layers.Sll
/-
  Helper lemmas for engine `lsll` (LinuxSLL, LinuxSLL2, EtherIP, UDPLite, RUDP decoders), part 1:
  the functional specifications of the five decoders and the proof that the statement-by-statement
  models compute them.  Core Lean only.

  Section 1 holds the *definitions* that occur in the statements of the property theorems; the rest
  is proof machinery.
-/
namespace Gp.Sll
open Gp Gp.Gen.Sll

/-! ## 1. Definitions used in property statements -/

/-- Byte `i` of a byte string (0 for a missing byte; only used where the byte exists). -/
def byteAt (v : Bytes) (i : Nat) : UInt8 := v.getD i 0

/-- Big-endian 16-bit value at offset `i`. -/
def u16At (v : Bytes) (i : Nat) : Nat := be16 (byteAt v i) (byteAt v (i + 1))

/-- Big-endian 32-bit value at offset `i`. -/
def u32At (v : Bytes) (i : Nat) : Nat :=
  be32 (byteAt v i) (byteAt v (i + 1)) (byteAt v (i + 2)) (byteAt v (i + 3))

/-- The receiver after the three header assignments of `LinuxSLL.DecodeFromBytes` (what the
    "address length exceeds" error path leaves behind). -/
def sllHdr (old : LinuxSLL) (v : Bytes) : LinuxSLL :=
  { old with packetType := u16At v 0, addrType := u16At v 2, addrLen := u16At v 4 }

/-- The layer a successful `LinuxSLL.DecodeFromBytes` produces: a function of the visible bytes alone. -/
def sllLayer (v : Bytes) : LinuxSLL :=
  { contents := v.take 16, payload := v.drop 16, packetType := u16At v 0, addrLen := u16At v 4,
    addr := (v.drop 6).take (u16At v 4), ethernetType := u16At v 14, addrType := u16At v 2 }

/-- What `LinuxSLL.DecodeFromBytes` computes from the receiver and the visible bytes. -/
def sllDecSpec (old : LinuxSLL) (v : Bytes) : DecOut LinuxSLL :=
  if v.length < 16 then { layer := old, trunc := false, err := true }
  else if u16At v 4 > 8 then { layer := sllHdr old v, trunc := false, err := true }
  else { layer := sllLayer v, trunc := false, err := false }

/-- The receiver after the five header assignments of `LinuxSLL2.DecodeFromBytes`. -/
def sll2Hdr (old : LinuxSLL2) (v : Bytes) : LinuxSLL2 :=
  { old with protocolType := u16At v 0, interfaceIndex := u32At v 4, arpHardwareType := u16At v 8,
             packetType := (byteAt v 10).toNat, addrLength := (byteAt v 11).toNat }

def sll2Layer (v : Bytes) : LinuxSLL2 :=
  { contents := v.take 20, payload := v.drop 20, protocolType := u16At v 0, interfaceIndex := u32At v 4,
    arpHardwareType := u16At v 8, packetType := (byteAt v 10).toNat, addrLength := (byteAt v 11).toNat,
    addr := (v.drop 12).take (byteAt v 11).toNat }

def sll2DecSpec (old : LinuxSLL2) (v : Bytes) : DecOut LinuxSLL2 :=
  if v.length < 20 then { layer := old, trunc := false, err := true }
  else if (byteAt v 11).toNat > 8 then { layer := sll2Hdr old v, trunc := false, err := true }
  else { layer := sll2Layer v, trunc := false, err := false }

def eipLayer (v : Bytes) : EtherIP :=
  { contents := v.take 2, payload := v.drop 2, version := (byteAt v 0).toNat >>> 4,
    reserved := u16At v 0 &&& 0x0fff }

def eipDecSpec (old : EtherIP) (v : Bytes) : DecOut EtherIP :=
  if v.length < 2 then { layer := old, trunc := true, err := true }
  else { layer := eipLayer v, trunc := false, err := false }

/-- The layer `decodeUDPLite` adds. -/
def udpliteLayer (v : Bytes) : UDPLite :=
  { contents := v.take 8, payload := v.drop 8, srcPort := u16At v 0, dstPort := u16At v 2,
    checksumCoverage := u16At v 4, checksum := u16At v 6,
    sPort := v.take 2, dPort := (v.drop 2).take 2 }

/-- What `decodeUDPLite` does, as a function of the visible bytes. -/
def udpliteSpec (v : Bytes) : Beh × Option UDPLite :=
  if v.length < 8 then failed []
  else ({ acts := [.addLayer LayerTypeUDPLite, .setTransportLayer], tail := .nextLayerType LayerTypePayload },
        some (udpliteLayer v))

/-- The RUDP header fields that `decodeRUDP` reads from the first 18 bytes. -/
def rudpBase (v : Bytes) : RUDP :=
  { contents := [], payload := [],
    syn := ((byteAt v 0).toNat &&& 0x80 != 0), ack := ((byteAt v 0).toNat &&& 0x40 != 0),
    eack := ((byteAt v 0).toNat &&& 0x20 != 0), rst := ((byteAt v 0).toNat &&& 0x10 != 0),
    nul := ((byteAt v 0).toNat &&& 0x08 != 0), version := (byteAt v 0).toNat &&& 0x3,
    headerLength := (byteAt v 1).toNat, srcPort := (byteAt v 2).toNat, dstPort := (byteAt v 3).toNat,
    dataLength := u16At v 4, seq := u32At v 6, ackNum := u32At v 10, checksum := u32At v 14,
    variableHeaderArea := [], headerSYN := none, headerEACK := none }

def rudpHlen (v : Bytes) : Nat := (byteAt v 1).toNat * 2
def rudpEnd (v : Bytes) : Nat := rudpHlen v + u16At v 4
/-- `data[18:hlen]`. -/
def rudpVha (v : Bytes) : Bytes := (v.drop 18).take (rudpHlen v - 18)

/-- … with Contents, Payload and VariableHeaderArea. -/
def rudpBody (v : Bytes) : RUDP :=
  { rudpBase v with contents := v.take (rudpHlen v), payload := (v.drop (rudpHlen v)).take (u16At v 4),
                    variableHeaderArea := rudpVha v }

/-- The sequence numbers of an EACK header: the consecutive big-endian 32-bit words of the variable
    header area, in order. -/
def eackSeqs (hd : Bytes) : List Nat := (List.range (hd.length / 4)).map (fun j => u32At hd (4 * j))

def rudpAdded (r : RUDP) : Beh × Option RUDP :=
  ({ acts := [.addLayer LayerTypeRUDP, .setTransportLayer], tail := .nextLayerType LayerTypePayload }, some r)

/-- What `decodeRUDP` does, as a function of the visible bytes. -/
def rudpSpec (v : Bytes) : Beh × Option RUDP :=
  if v.length < 18 then failed [.setTruncated]
  else if (byteAt v 1).toNat < 9 then failed []
  else if v.length < rudpHlen v then failed [.setTruncated]
  else if v.length < rudpEnd v then failed [.setTruncated]
  else if (rudpBase v).syn then
    if (rudpVha v).length ≠ 6 then failed []
    else rudpAdded { rudpBody v with
           headerSYN := some { maxOutstandingSegments := u16At (rudpVha v) 0, maxSegmentSize := u16At (rudpVha v) 2,
                               optionFlags := u16At (rudpVha v) 4 } }
  else if (rudpBase v).eack then
    if (rudpVha v).length % 4 ≠ 0 then failed []
    else rudpAdded { rudpBody v with headerEACK := some (eackSeqs (rudpVha v)) }
  else rudpAdded (rudpBody v)

/-! ## 2. Go slices -/

theorem GSlice.slice_ok (s : GSlice) (a b : Nat) (hab : a ≤ b) (hb : b ≤ s.len) :
    s.slice a b = .ok { vis := (s.vis.drop a).take (b - a), tail := s.vis.drop b ++ s.tail } := by
  unfold GSlice.slice GSlice.cap
  unfold GSlice.len at hb
  have h1 : a ≤ b ∧ b ≤ s.vis.length + s.tail.length := ⟨hab, by omega⟩
  rw [if_pos h1]
  have ha : a ≤ s.vis.length := by omega
  rw [List.drop_append_of_le_length ha, List.drop_append_of_le_length hb,
    List.take_append_of_le_length (by rw [List.length_drop]; omega)]

theorem GSlice.sliceFrom_ok (s : GSlice) (a : Nat) (ha : a ≤ s.len) :
    s.sliceFrom a = .ok { vis := s.vis.drop a, tail := s.tail } := by
  unfold GSlice.sliceFrom; rw [if_pos ha]

theorem GSlice.index_ok (s : GSlice) (i : Nat) (h : i < s.len) :
    s.index i = .ok (byteAt s.vis i) := by
  unfold GSlice.index Gp.index byteAt
  have h' : i < s.vis.length := h
  simp [List.getD_eq_getElem?_getD, h']

/-- The two-byte window `[i, i+2)` of a long enough byte string. -/
theorem two_bytes (v : Bytes) (i : Nat) (h : i + 2 ≤ v.length) :
    (v.drop i).take 2 = [byteAt v i, byteAt v (i + 1)] := by
  have h0 : i < v.length := by omega
  have h1 : i + 1 < v.length := by omega
  have e : v.drop i = v[i] :: v[i+1] :: v.drop (i+2) := by
    rw [List.drop_eq_getElem_cons h0, List.drop_eq_getElem_cons h1]
  rw [e]
  simp only [byteAt, List.take_succ_cons, List.take_zero, List.getD_eq_getElem?_getD,
    List.getElem?_eq_getElem h0, List.getElem?_eq_getElem h1, Option.getD_some]

/-- The four-byte window `[i, i+4)`. -/
theorem four_bytes (v : Bytes) (i : Nat) (h : i + 4 ≤ v.length) :
    (v.drop i).take 4 = [byteAt v i, byteAt v (i + 1), byteAt v (i + 2), byteAt v (i + 3)] := by
  have h0 : i < v.length := by omega
  have h1 : i + 1 < v.length := by omega
  have h2 : i + 2 < v.length := by omega
  have h3 : i + 3 < v.length := by omega
  have e : v.drop i = v[i] :: v[i+1] :: v[i+2] :: v[i+3] :: v.drop (i+4) := by
    rw [List.drop_eq_getElem_cons h0, List.drop_eq_getElem_cons h1, List.drop_eq_getElem_cons h2,
      List.drop_eq_getElem_cons h3]
  rw [e]
  simp only [byteAt, List.take_succ_cons, List.take_zero, List.getD_eq_getElem?_getD,
    List.getElem?_eq_getElem h0, List.getElem?_eq_getElem h1, List.getElem?_eq_getElem h2,
    List.getElem?_eq_getElem h3, Option.getD_some]

theorem uint16_two (a b : UInt8) (t : Bytes) : uint16 { vis := [a, b], tail := t } = .ok (be16 a b) := by
  simp [uint16, GSlice.index, Gp.index, bind, Res.bind, pure]

theorem uint32_four (a b c d : UInt8) (t : Bytes) :
    uint32 { vis := [a, b, c, d], tail := t } = .ok (be32 a b c d) := by
  simp [uint32, GSlice.index, Gp.index, bind, Res.bind, pure]

theorem uint16_vis (v t : Bytes) (i : Nat) (h : i + 2 ≤ v.length) :
    uint16 { vis := (v.drop i).take 2, tail := t } = .ok (u16At v i) := by
  rw [two_bytes v i h]; exact uint16_two _ _ _

theorem uint32_vis (v t : Bytes) (i : Nat) (h : i + 4 ≤ v.length) :
    uint32 { vis := (v.drop i).take 4, tail := t } = .ok (u32At v i) := by
  rw [four_bytes v i h]; exact uint32_four _ _ _ _ _

theorem be16_lt (a b : UInt8) : be16 a b < 65536 := by
  have := a.toNat_lt; have := b.toNat_lt
  unfold be16; omega

theorem u16At_lt (v : Bytes) (i : Nat) : u16At v i < 65536 := be16_lt _ _

/-- `data[i:j]` then reading a 16-bit word at the start: the word at offset `i` of the data. -/
theorem slice_uint16 (d : GSlice) (i : Nat) (h : i + 2 ≤ d.len) :
    (d.slice i (i + 2) >>= uint16) = .ok (u16At d.vis i) := by
  have hl : i + 2 ≤ d.vis.length := h
  rw [GSlice.slice_ok d i (i + 2) (by omega) h, Res.bind_ok]
  have e : i + 2 - i = 2 := by omega
  rw [e]
  exact uint16_vis d.vis _ i hl

theorem slice_uint32 (d : GSlice) (i : Nat) (h : i + 4 ≤ d.len) :
    (d.slice i (i + 4) >>= uint32) = .ok (u32At d.vis i) := by
  have hl : i + 4 ≤ d.vis.length := h
  rw [GSlice.slice_ok d i (i + 4) (by omega) h, Res.bind_ok]
  have e : i + 4 - i = 4 := by omega
  rw [e]
  exact uint32_vis d.vis _ i hl

/-! ## 3. DecodeFromBytes = its functional specification -/

theorem LinuxSLL.decode_eq (old : LinuxSLL) (d : GSlice) :
    old.decodeFromBytes d = .ok (sllDecSpec old d.vis) := by
  unfold LinuxSLL.decodeFromBytes sllDecSpec
  by_cases hs : d.len < 16
  · rw [if_pos hs, if_pos (show d.vis.length < 16 from hs)]
  · have hl : 16 ≤ d.vis.length := by unfold GSlice.len at hs; omega
    have hl' : 16 ≤ d.len := hl
    rw [if_neg hs, if_neg (show ¬ d.vis.length < 16 by omega)]
    rw [GSlice.slice_ok d 0 2 (by omega) (by omega), Res.bind_ok]
    simp only [Nat.reduceSub]
    rw [uint16_vis d.vis _ 0 (by omega), Res.bind_ok]
    rw [GSlice.slice_ok d 2 4 (by omega) (by omega), Res.bind_ok]
    simp only [Nat.reduceSub]
    rw [uint16_vis d.vis _ 2 (by omega), Res.bind_ok]
    rw [GSlice.slice_ok d 4 6 (by omega) (by omega), Res.bind_ok]
    simp only [Nat.reduceSub]
    rw [uint16_vis d.vis _ 4 (by omega), Res.bind_ok]
    by_cases ha : u16At d.vis 4 > 8
    · rw [if_pos ha, if_pos ha]; rfl
    · rw [if_neg ha, if_neg ha]
      have hm : (u16At d.vis 4 + 6) % 65536 = u16At d.vis 4 + 6 := Nat.mod_eq_of_lt (by omega)
      rw [hm]
      rw [GSlice.slice_ok d 6 (u16At d.vis 4 + 6) (by omega) (by omega), Res.bind_ok]
      rw [GSlice.slice_ok d 14 16 (by omega) (by omega), Res.bind_ok]
      simp only [Nat.reduceSub]
      rw [uint16_vis d.vis _ 14 (by omega), Res.bind_ok]
      rw [GSlice.slice_ok d 0 16 (by omega) (by omega), Res.bind_ok]
      rw [GSlice.sliceFrom_ok d 16 hl', Res.bind_ok]
      have e1 : u16At d.vis 4 + 6 - 6 = u16At d.vis 4 := by omega
      simp only [e1, List.drop_zero, Nat.sub_zero, pure, sllLayer]

theorem take_take_le (l : Bytes) (n m : Nat) (h : n ≤ m) : (l.take m).take n = l.take n := by
  rw [List.take_take, Nat.min_eq_left h]

theorem LinuxSLL2.decode_eq (old : LinuxSLL2) (d : GSlice) :
    old.decodeFromBytes d = .ok (sll2DecSpec old d.vis) := by
  unfold LinuxSLL2.decodeFromBytes sll2DecSpec
  by_cases hs : d.len < 20
  · rw [if_pos hs, if_pos (show d.vis.length < 20 from hs)]
  · have hl : 20 ≤ d.vis.length := by unfold GSlice.len at hs; omega
    have hl' : 20 ≤ d.len := hl
    rw [if_neg hs, if_neg (show ¬ d.vis.length < 20 by omega)]
    rw [GSlice.slice_ok d 0 2 (by omega) (by omega), Res.bind_ok]
    simp only [Nat.reduceSub]
    rw [uint16_vis d.vis _ 0 (by omega), Res.bind_ok]
    rw [GSlice.slice_ok d 4 8 (by omega) (by omega), Res.bind_ok]
    simp only [Nat.reduceSub]
    rw [uint32_vis d.vis _ 4 (by omega), Res.bind_ok]
    rw [GSlice.slice_ok d 8 10 (by omega) (by omega), Res.bind_ok]
    simp only [Nat.reduceSub]
    rw [uint16_vis d.vis _ 8 (by omega), Res.bind_ok]
    rw [GSlice.index_ok d 10 (by omega), Res.bind_ok]
    rw [GSlice.index_ok d 11 (by omega), Res.bind_ok]
    by_cases ha : (byteAt d.vis 11).toNat > 8
    · rw [if_pos ha, if_pos ha]; rfl
    · rw [if_neg ha, if_neg ha]
      rw [GSlice.slice_ok d 12 20 (by omega) (by omega), Res.bind_ok]
      simp only [Nat.reduceSub]
      have h8 : ((d.vis.drop 12).take 8).length = 8 := by
        rw [List.length_take, List.length_drop]; omega
      rw [GSlice.slice_ok _ 0 (byteAt d.vis 11).toNat (by omega) (by unfold GSlice.len; simp only; omega), Res.bind_ok]
      rw [GSlice.slice_ok d 0 20 (by omega) (by omega), Res.bind_ok]
      rw [GSlice.sliceFrom_ok d 20 hl', Res.bind_ok]
      simp only [List.drop_zero, Nat.sub_zero, pure, sll2Layer]
      rw [take_take_le _ _ _ (by omega)]

theorem EtherIP.decode_eq (old : EtherIP) (d : GSlice) :
    old.decodeFromBytes d = .ok (eipDecSpec old d.vis) := by
  unfold EtherIP.decodeFromBytes eipDecSpec
  by_cases hs : d.len < 2
  · rw [if_pos hs, if_pos (show d.vis.length < 2 from hs)]
  · have hl : 2 ≤ d.vis.length := by unfold GSlice.len at hs; omega
    have hl' : 2 ≤ d.len := hl
    rw [if_neg hs, if_neg (show ¬ d.vis.length < 2 by omega)]
    rw [GSlice.index_ok d 0 (by omega), Res.bind_ok]
    rw [GSlice.slice_ok d 0 2 (by omega) (by omega), Res.bind_ok]
    simp only [Nat.reduceSub]
    rw [uint16_vis d.vis _ 0 (by omega), Res.bind_ok]
    rw [GSlice.sliceFrom_ok d 2 hl', Res.bind_ok]
    simp only [List.drop_zero, Res.bind_ok, pure, eipLayer]

/-! ## 4. The decoder functions = their functional specifications -/

theorem decodeUDPLite_eq (d : GSlice) : decodeUDPLite d = .ok (udpliteSpec d.vis) := by
  unfold decodeUDPLite udpliteSpec
  by_cases hs : d.len < 8
  · rw [if_pos hs, if_pos (show d.vis.length < 8 from hs)]
  · have hl : 8 ≤ d.vis.length := by unfold GSlice.len at hs; omega
    have hl' : 8 ≤ d.len := hl
    rw [if_neg hs, if_neg (show ¬ d.vis.length < 8 by omega)]
    rw [GSlice.slice_ok d 0 2 (by omega) (by omega), Res.bind_ok]
    simp only [Nat.reduceSub]
    rw [uint16_vis d.vis _ 0 (by omega), Res.bind_ok, Res.bind_ok]
    rw [GSlice.slice_ok d 2 4 (by omega) (by omega), Res.bind_ok]
    simp only [Nat.reduceSub]
    rw [uint16_vis d.vis _ 2 (by omega), Res.bind_ok, Res.bind_ok]
    rw [GSlice.slice_ok d 4 6 (by omega) (by omega), Res.bind_ok]
    simp only [Nat.reduceSub]
    rw [uint16_vis d.vis _ 4 (by omega), Res.bind_ok]
    rw [GSlice.slice_ok d 6 8 (by omega) (by omega), Res.bind_ok]
    simp only [Nat.reduceSub]
    rw [uint16_vis d.vis _ 6 (by omega), Res.bind_ok]
    rw [GSlice.slice_ok d 0 8 (by omega) (by omega), Res.bind_ok]
    rw [GSlice.sliceFrom_ok d 8 hl', Res.bind_ok]
    simp only [List.drop_zero, Nat.sub_zero, pure, udpliteLayer]

/-! ### The EACK loop -/

/-- The loop of `decodeRUDP` as a pure function: `m` more iterations starting at word `k`. -/
def eackFill (hd : Bytes) : Nat → Nat → List Nat → List Nat
  | 0, _, seqs => seqs
  | m + 1, k, seqs => eackFill hd m (k + 1) (seqs.set k (u32At hd (4 * k)))

theorem eackFill_length (hd : Bytes) (m k : Nat) (seqs : List Nat) :
    (eackFill hd m k seqs).length = seqs.length := by
  induction m generalizing k seqs with
  | zero => rfl
  | succ m ih => simp only [eackFill, ih, List.length_set]

/-- With enough fuel the loop over a variable header area of `4·n` bytes, entered at word `k` with a
    slice of `n` words, runs its `n - k` iterations without a panic and without running out of fuel. -/
theorem eackLoop_ok (hd : GSlice) (n : Nat) (hn : hd.len = 4 * n) (m : Nat) :
    ∀ (k fuel : Nat) (seqs : List Nat), k + m = n → seqs.length = n → m < fuel →
      eackLoop hd fuel (4 * k) seqs = .ok (eackFill hd.vis m k seqs) := by
  induction m with
  | zero =>
    intro k fuel seqs hk _ hf
    cases fuel with
    | zero => omega
    | succ fuel =>
      unfold eackLoop
      rw [if_neg (by omega)]
      rfl
  | succ m ih =>
    intro k fuel seqs hk hlen hf
    cases fuel with
    | zero => omega
    | succ fuel =>
      unfold eackLoop
      rw [if_pos (by omega)]
      have hl : 4 * k + 4 ≤ hd.len := by omega
      have hv : 4 * k + 4 ≤ hd.vis.length := hl
      rw [GSlice.slice_ok hd (4 * k) (4 * k + 4) (by omega) hl, Res.bind_ok]
      have e : 4 * k + 4 - 4 * k = 4 := by omega
      rw [e, uint32_vis hd.vis _ (4 * k) hv, Res.bind_ok]
      have ed : 4 * k / 4 = k := by omega
      unfold setIdx
      rw [ed, if_pos (by omega), Res.bind_ok]
      have e4 : 4 * k + 4 = 4 * (k + 1) := by omega
      rw [e4, ih (k + 1) fuel _ (by omega) (by rw [List.length_set]; exact hlen) (by omega)]
      rfl

/-- The loop fills the slice with the consecutive 32-bit words: closed form. -/
theorem eackFill_eq (hd : Bytes) (m : Nat) :
    ∀ (k : Nat) (seqs : List Nat), seqs.length = k + m →
      eackFill hd m k seqs = seqs.take k ++ (List.range' k m).map (fun j => u32At hd (4 * j)) := by
  induction m with
  | zero =>
    intro k seqs h
    simp only [eackFill, List.range'_zero, List.map_nil, List.append_nil]
    rw [List.take_of_length_le (by omega)]
  | succ m ih =>
    intro k seqs h
    simp only [eackFill]
    rw [ih (k + 1) _ (by rw [List.length_set]; omega)]
    have hk : k < seqs.length := by omega
    have e1 : (seqs.set k (u32At hd (4 * k))).take (k + 1) = seqs.take k ++ [u32At hd (4 * k)] := by
      rw [List.take_add_one, List.take_set_of_le (Nat.le_refl k)]
      have : (seqs.set k (u32At hd (4 * k)))[k]? = some (u32At hd (4 * k)) := by
        rw [List.getElem?_set_self hk]
      rw [this]; rfl
    rw [e1, List.range'_succ, List.map_cons, List.append_assoc]
    rfl

theorem eackFill_all (hd : Bytes) (n : Nat) (h : hd.length / 4 = n) :
    eackFill hd n 0 (List.replicate n 0) = eackSeqs hd := by
  rw [eackFill_eq hd n 0 _ (by rw [List.length_replicate]; omega)]
  unfold eackSeqs
  rw [h, List.take_zero, List.nil_append, List.range_eq_range']

/-- The EACK loop as run by `decodeRUDP`: no panic, fuel suffices, result = the words in order. -/
theorem eackLoop_run (hd : GSlice) (h4 : hd.len % 4 = 0) :
    eackLoop hd (hd.len + 1) 0 (List.replicate (hd.len / 4) 0) = .ok (eackSeqs hd.vis) := by
  have hn : hd.len = 4 * (hd.len / 4) := by omega
  have := eackLoop_ok hd (hd.len / 4) hn (hd.len / 4) 0 (hd.len + 1) (List.replicate (hd.len / 4) 0)
    (by omega) (List.length_replicate) (by omega)
  rw [Nat.mul_zero] at this
  rw [this, eackFill_all hd.vis (hd.len / 4) rfl]

/-! ### decodeRUDP -/

theorem decodeRUDP_eq (d : GSlice) : decodeRUDP d = .ok (rudpSpec d.vis) := by
  unfold decodeRUDP rudpSpec
  by_cases hs : d.len < 18
  · rw [if_pos hs, if_pos (show d.vis.length < 18 from hs)]
  · have hl : 18 ≤ d.vis.length := by unfold GSlice.len at hs; omega
    have hl' : 18 ≤ d.len := hl
    rw [if_neg hs, if_neg (show ¬ d.vis.length < 18 by omega)]
    rw [GSlice.index_ok d 0 (by omega)]
    simp only [Res.bind_ok]
    rw [GSlice.index_ok d 1 (by omega), Res.bind_ok]
    rw [GSlice.index_ok d 2 (by omega), Res.bind_ok]
    rw [GSlice.index_ok d 3 (by omega), Res.bind_ok]
    rw [GSlice.slice_ok d 4 6 (by omega) (by omega), Res.bind_ok]
    simp only [Nat.reduceSub]
    rw [uint16_vis d.vis _ 4 (by omega), Res.bind_ok]
    rw [GSlice.slice_ok d 6 10 (by omega) (by omega), Res.bind_ok]
    simp only [Nat.reduceSub]
    rw [uint32_vis d.vis _ 6 (by omega), Res.bind_ok]
    rw [GSlice.slice_ok d 10 14 (by omega) (by omega), Res.bind_ok]
    simp only [Nat.reduceSub]
    rw [uint32_vis d.vis _ 10 (by omega), Res.bind_ok]
    rw [GSlice.slice_ok d 14 18 (by omega) (by omega), Res.bind_ok]
    simp only [Nat.reduceSub]
    rw [uint32_vis d.vis _ 14 (by omega), Res.bind_ok]
    by_cases h9 : (byteAt d.vis 1).toNat < 9
    · rw [if_pos h9, if_pos h9]; rfl
    · rw [if_neg h9, if_neg h9]
      have ehl : (byteAt d.vis 1).toNat * 2 = rudpHlen d.vis := rfl
      rw [ehl]
      by_cases hh : d.len < rudpHlen d.vis
      · rw [if_pos hh, if_pos (show d.vis.length < rudpHlen d.vis from hh)]; rfl
      · rw [if_neg hh, if_neg (show ¬ d.vis.length < rudpHlen d.vis from hh)]
        have eend : rudpHlen d.vis + u16At d.vis 4 = rudpEnd d.vis := rfl
        rw [eend]
        by_cases he : d.len < rudpEnd d.vis
        · rw [if_pos he, if_pos (show d.vis.length < rudpEnd d.vis from he)]; rfl
        · rw [if_neg he, if_neg (show ¬ d.vis.length < rudpEnd d.vis from he)]
          have hhl : 18 ≤ rudpHlen d.vis := by unfold rudpHlen; omega
          have hle : rudpHlen d.vis ≤ rudpEnd d.vis := by unfold rudpEnd; omega
          have hend : rudpEnd d.vis ≤ d.len := by omega
          rw [GSlice.slice_ok d 0 (rudpHlen d.vis) (by omega) (by omega), Res.bind_ok]
          rw [GSlice.slice_ok d (rudpHlen d.vis) (rudpEnd d.vis) hle hend, Res.bind_ok]
          rw [GSlice.slice_ok d 18 (rudpHlen d.vis) hhl (by omega), Res.bind_ok]
          have ep : rudpEnd d.vis - rudpHlen d.vis = u16At d.vis 4 := by unfold rudpEnd; omega
          have evha : (d.vis.drop 18).take (rudpHlen d.vis - 18) = rudpVha d.vis := rfl
          simp only [ep, evha, List.drop_zero, Nat.sub_zero]
          have esyn : (rudpBase d.vis).syn = ((byteAt d.vis 0).toNat &&& 0x80 != 0) := rfl
          have eeack : (rudpBase d.vis).eack = ((byteAt d.vis 0).toNat &&& 0x20 != 0) := rfl
          rw [esyn, eeack]
          have hvl : ∀ t, GSlice.len { vis := rudpVha d.vis, tail := t } = (rudpVha d.vis).length := fun _ => rfl
          by_cases hsyn : ((byteAt d.vis 0).toNat &&& 0x80 != 0) = true
          · rw [if_pos hsyn, if_pos hsyn]
            simp only [hvl]
            by_cases h6 : (rudpVha d.vis).length ≠ 6
            · rw [if_pos h6, if_pos h6]; rfl
            · rw [if_neg h6, if_neg h6]
              have h6' : (rudpVha d.vis).length = 6 := by omega
              have hg : ∀ t, 6 ≤ GSlice.len { vis := rudpVha d.vis, tail := t } := fun t => by rw [hvl]; omega
              rw [GSlice.slice_ok _ 0 2 (by omega) (by have := hg (List.drop (rudpHlen d.vis) d.vis ++ d.tail); omega), Res.bind_ok]
              simp only [Nat.reduceSub, List.drop_zero]
              have z2 : List.take 2 (rudpVha d.vis) = ((rudpVha d.vis).drop 0).take 2 := by rw [List.drop_zero]
              rw [z2, uint16_vis (rudpVha d.vis) _ 0 (by omega), Res.bind_ok]
              rw [GSlice.slice_ok _ 2 4 (by omega) (by have := hg (List.drop (rudpHlen d.vis) d.vis ++ d.tail); omega), Res.bind_ok]
              simp only [Nat.reduceSub]
              rw [uint16_vis (rudpVha d.vis) _ 2 (by omega), Res.bind_ok]
              rw [GSlice.slice_ok _ 4 6 (by omega) (by have := hg (List.drop (rudpHlen d.vis) d.vis ++ d.tail); omega), Res.bind_ok]
              simp only [Nat.reduceSub]
              rw [uint16_vis (rudpVha d.vis) _ 4 (by omega), Res.bind_ok]
              rfl
          · rw [if_neg hsyn, if_neg hsyn]
            by_cases heack : ((byteAt d.vis 0).toNat &&& 0x20 != 0) = true
            · rw [if_pos heack, if_pos heack]
              simp only [hvl]
              by_cases h4 : (rudpVha d.vis).length % 4 ≠ 0
              · rw [if_pos h4, if_pos h4]; rfl
              · rw [if_neg h4, if_neg h4]
                have := eackLoop_run { vis := rudpVha d.vis, tail := List.drop (rudpHlen d.vis) d.vis ++ d.tail }
                  (by rw [hvl]; omega)
                rw [hvl] at this
                rw [this, Res.bind_ok]
                rfl
            · rw [if_neg heack, if_neg heack]
              rfl

/-! ## 5. Facts about the specifications -/

theorem sllDecSpec_payload_le (old : LinuxSLL) (v : Bytes) (h : (sllDecSpec old v).err = false) :
    (sllDecSpec old v).layer.payload.length + 16 ≤ v.length := by
  unfold sllDecSpec at h ⊢
  by_cases h1 : v.length < 16
  · rw [if_pos h1] at h; cases h
  · rw [if_neg h1] at h ⊢
    by_cases h2 : u16At v 4 > 8
    · rw [if_pos h2] at h; cases h
    · rw [if_neg h2]; simp only [sllLayer, List.length_drop]; omega

theorem sll2DecSpec_payload_le (old : LinuxSLL2) (v : Bytes) (h : (sll2DecSpec old v).err = false) :
    (sll2DecSpec old v).layer.payload.length + 20 ≤ v.length := by
  unfold sll2DecSpec at h ⊢
  by_cases h1 : v.length < 20
  · rw [if_pos h1] at h; cases h
  · rw [if_neg h1] at h ⊢
    by_cases h2 : (byteAt v 11).toNat > 8
    · rw [if_pos h2] at h; cases h
    · rw [if_neg h2]; simp only [sll2Layer, List.length_drop]; omega

theorem eipDecSpec_payload_le (old : EtherIP) (v : Bytes) (h : (eipDecSpec old v).err = false) :
    (eipDecSpec old v).layer.payload.length + 2 ≤ v.length := by
  unfold eipDecSpec at h ⊢
  by_cases h1 : v.length < 2
  · rw [if_pos h1] at h; cases h
  · rw [if_neg h1]; simp only [eipLayer, List.length_drop]; omega

/-- Error flag and truncation contribution do not depend on the receiver; on success neither does the layer. -/
theorem sllDecSpec_indep (a b : LinuxSLL) (v : Bytes) : (sllDecSpec a v).err = (sllDecSpec b v).err ∧
    (sllDecSpec a v).trunc = (sllDecSpec b v).trunc ∧
    ((sllDecSpec a v).err = false → (sllDecSpec a v).layer = (sllDecSpec b v).layer) := by
  unfold sllDecSpec
  by_cases h1 : v.length < 16
  · rw [if_pos h1, if_pos h1]; exact ⟨rfl, rfl, fun hh => by cases hh⟩
  · rw [if_neg h1, if_neg h1]
    by_cases h2 : u16At v 4 > 8
    · rw [if_pos h2, if_pos h2]; exact ⟨rfl, rfl, fun hh => by cases hh⟩
    · rw [if_neg h2, if_neg h2]; exact ⟨rfl, rfl, fun _ => rfl⟩

theorem sll2DecSpec_indep (a b : LinuxSLL2) (v : Bytes) : (sll2DecSpec a v).err = (sll2DecSpec b v).err ∧
    (sll2DecSpec a v).trunc = (sll2DecSpec b v).trunc ∧
    ((sll2DecSpec a v).err = false → (sll2DecSpec a v).layer = (sll2DecSpec b v).layer) := by
  unfold sll2DecSpec
  by_cases h1 : v.length < 20
  · rw [if_pos h1, if_pos h1]; exact ⟨rfl, rfl, fun hh => by cases hh⟩
  · rw [if_neg h1, if_neg h1]
    by_cases h2 : (byteAt v 11).toNat > 8
    · rw [if_pos h2, if_pos h2]; exact ⟨rfl, rfl, fun hh => by cases hh⟩
    · rw [if_neg h2, if_neg h2]; exact ⟨rfl, rfl, fun _ => rfl⟩

theorem eipDecSpec_indep (a b : EtherIP) (v : Bytes) : (eipDecSpec a v).err = (eipDecSpec b v).err ∧
    (eipDecSpec a v).trunc = (eipDecSpec b v).trunc ∧
    ((eipDecSpec a v).err = false → (eipDecSpec a v).layer = (eipDecSpec b v).layer) := by
  unfold eipDecSpec
  by_cases h1 : v.length < 2
  · rw [if_pos h1, if_pos h1]; exact ⟨rfl, rfl, fun hh => by cases hh⟩
  · rw [if_neg h1, if_neg h1]; exact ⟨rfl, rfl, fun _ => rfl⟩

end Gp.Sll
