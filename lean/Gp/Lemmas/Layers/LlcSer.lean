import Gp.Lemmas.Layers.Llc
import Gp.Lemmas.SBuf
/-
  Helper lemmas for engine `lllc`, part 3: serialization over the C18 buffer model.

  Section 1 holds the *definitions* that occur in the statements of the property theorems
  (functional specifications of the three SerializeTo methods, the observable view of a call).
-/
namespace Gp.Llc
open Gp Gp.SBuf Gp.C18 Gp.Gen.Llc

/-! ## 1. Definitions used in property statements -/

/-- Functional specification of a SerializeTo call: the receiver afterwards, whether an error was
    returned, and (when not) the bytes the buffer then holds. -/
structure SerSpec (L : Type) where
  layer : L
  err   : Bool
  bytes : Bytes
  deriving Repr, DecidableEq

/-- What a caller can observe of a SerializeTo call: the receiver afterwards, the error flag and,
    when no error was returned, the bytes in the buffer (`Bytes()`); not the buffer's internals. -/
def serView {L : Type} (r : Res (SerOut L)) : Res (SerSpec L) :=
  match r with
  | .ok o => .ok { layer := o.layer, err := o.err, bytes := if o.err then [] else SBuf.contents o.buf }
  | .err k => .err k
  | .panic k => .panic k

/-- Length of the LLC header chosen by the (fixed) serializer: 3 for a U-format control field
    (≤ 0xFF, both low bits set), 4 otherwise. -/
def llcLen (l : LLC) : Nat := if l.control &&& 0xFF00 ≠ 0 ∨ l.control &&& 0x3 ≠ 0x3 then 4 else 3

/-- … and the one chosen before proposed_fixes/lllc-1. -/
def llcLenPreFix (l : LLC) : Nat := if l.control &&& 0xFF00 ≠ 0 then 4 else 3

/-- The header bytes `LLC.SerializeTo` writes for a header of `length` (3 or 4) bytes. -/
def llcHdr (l : LLC) (length : Nat) : Bytes :=
  [u8 (l.dsap + (if l.ig then 1 else 0)), u8 (l.ssap + (if l.cr then 1 else 0))] ++
    (if length = 4 then [u8 (l.control >>> 8), u8 l.control] else [u8 l.control])

def llcSerSpecWith (l : LLC) (length : Nat) (p : Bytes) : SerSpec LLC :=
  if l.dsap &&& 0x1 ≠ 0 then { layer := l, err := true, bytes := [] }
  else if l.ssap &&& 0x1 ≠ 0 then { layer := l, err := true, bytes := [] }
  else { layer := l, err := false, bytes := llcHdr l length ++ p }

/-- What `LLC.SerializeTo` (with lllc-1) does, as a function of the layer and the payload in the buffer. -/
def llcSerSpec (l : LLC) (p : Bytes) : SerSpec LLC := llcSerSpecWith l (llcLen l) p

/-- What `SNAP.SerializeTo` (with lllc-2) does. -/
def snapSerSpec (l : SNAP) (p : Bytes) : SerSpec SNAP :=
  if l.org.length < 3 then { layer := l, err := true, bytes := [] }
  else { layer := l, err := false, bytes := l.org.take 3 ++ putBe16 l.type ++ p }

/-- `copy(bytes[a:a+6], lotsOfZeros[:]); copy(bytes[a:a+6], hw)`: the address, cut to 6 bytes and
    zero padded to 6 bytes. -/
def padHw (hw : Bytes) : Bytes := hw.take 6 ++ (zeros 6).drop (hw.take 6).length

def stpFlags (l : STP) : Nat :=
  let f := 0x00
  let f := if l.tc then f ||| 0x01 else f
  if l.tca then f ||| 0x80 else f

/-- The 35 header bytes `STP.SerializeTo` (with lllc-3) writes. -/
def stpHdr (l : STP) : Bytes :=
  putBe16 l.protocolID ++ [u8 l.version] ++ [u8 l.type] ++ [u8 (stpFlags l)] ++
  putBe16 (l.routeID.priority ||| l.routeID.sysID) ++ padHw l.routeID.hwAddr ++ putBe32 l.cost ++
  putBe16 (l.bridgeID.priority ||| l.bridgeID.sysID) ++ padHw l.bridgeID.hwAddr ++
  putBe16 l.portID ++ putBe16 l.messageAge ++ putBe16 l.maxAge ++ putBe16 l.helloTime ++ putBe16 l.fDelay

/-- A switch id is rejected by `STP.SerializeTo`. -/
def switchBad (chk : Nat → Bool) (s : SwitchID) : Bool := chk s.priority || decide (s.sysID ≥ 4096)

/-- What `STP.SerializeTo` (all-21, lllc-3, lllc-4) does. -/
def stpSerSpec (l : STP) (p : Bytes) : SerSpec STP :=
  if switchBad checkPriorityErr l.routeID || switchBad checkPriorityErr l.bridgeID
  then { layer := l, err := true, bytes := [] }
  else { layer := l, err := false, bytes := stpHdr l ++ p }

/-- Error flag and the two 6-byte address fields of a serialised BPDU (for stating lllc-3's defect). -/
def stpAddrFields (r : Res (SerSpec STP)) : Option (Bool × Bytes × Bytes) :=
  match r with
  | .ok s => some (s.err, (s.bytes.drop 7).take 6, (s.bytes.drop 19).take 6)
  | _ => none

/-! ## 2. Windows onto the prepended header; tracking a sequence of stores -/

/-- Splicing `vs` into `c` at offset `k`. -/
def splice (c : Bytes) (k : Nat) (vs : Bytes) : Bytes := c.take k ++ vs ++ c.drop (k + vs.length)

theorem fill_at (b : SBuf) (h : Inv b) (w : Win) (k : Nat) (vs : Bytes)
    (hg : w.gen = b.gen) (ho : w.off = b.start + k) (hk : k + vs.length ≤ (contents b).length) :
    contents (fill b w vs) = splice (contents b) k vs ∧
    Inv (fill b w vs) ∧ (fill b w vs).start = b.start ∧ (fill b w vs).gen = b.gen := by
  have hcl := contents_length b h
  have h' := h
  obtain ⟨i1, i2, i3⟩ := h
  have h1 : b.start ≤ w.off := by omega
  have h2 : w.off + vs.length ≤ b.len := by omega
  refine ⟨?_, inv_fill' b w vs h' (by omega), (fill_fields b w vs).1, (fill_fields b w vs).2.2.2.1⟩
  rw [fill_contents b w vs h' hg h1 h2]
  have : w.off - b.start = k := by omega
  rw [this]; rfl

/-- `w` is the slice most recently handed out by `PrependBytes`: current, and lying on the first
    `w.n` bytes of the contents. -/
structure Hdr (b : SBuf) (w : Win) : Prop where
  inv : Inv b
  gen : w.gen = b.gen
  off : w.off = b.start
  len : w.n ≤ (contents b).length

theorem prepend_hdr (b : SBuf) (n : Nat) (h : Inv b) :
    Hdr (prepend b n).1 (prepend b n).2 ∧ (prepend b n).2.n = n ∧
    (contents (prepend b n).1).drop n = contents b ∧
    (contents (prepend b n).1).length = n + (contents b).length := by
  have hl := prepend_contents_length b n h
  refine ⟨⟨inv_prepend' b n h, rfl, rfl, ?_⟩, rfl, prepend_contents_drop b n h, hl⟩
  show n ≤ _
  omega

/-- The stores made so far through `w` have produced `pre` on the first `|pre|` bytes of the
    contents; the rest is what the buffer held when the window was handed out (`C`). -/
structure Track (b : SBuf) (w : Win) (C pre : Bytes) : Prop where
  hdr  : Hdr b w
  cont : contents b = pre ++ C.drop pre.length
  le   : pre.length ≤ w.n
  wn   : w.n ≤ C.length

theorem track_init (b : SBuf) (w : Win) (h : Hdr b w) : Track b w (contents b) [] :=
  ⟨h, by simp, Nat.zero_le _, h.len⟩

theorem track_length (b : SBuf) (w : Win) (C pre : Bytes) (t : Track b w C pre) :
    (contents b).length = C.length := by
  have := t.le; have := t.wn
  rw [t.cont, List.length_append, List.length_drop]; omega

theorem splice_next (pre C vs : Bytes) (h : pre.length + vs.length ≤ C.length) :
    splice (pre ++ C.drop pre.length) pre.length vs = (pre ++ vs) ++ C.drop (pre ++ vs).length := by
  unfold splice
  rw [List.take_left' rfl, List.drop_append, List.drop_of_length_le (by omega : pre.length ≤ pre.length + vs.length)]
  simp only [List.nil_append, List.length_append, Nat.add_sub_cancel_left, List.drop_drop]

/-- A store of `vs` directly behind what was written so far. -/
theorem track_fill (b : SBuf) (w : Win) (C pre vs : Bytes) (n m : Nat) (t : Track b w C pre)
    (hn : pre.length = n) (hv : n + vs.length ≤ w.n) :
    Track (fill b { gen := w.gen, off := w.off + n, n := m } vs) w C (pre ++ vs) := by
  subst hn
  have hlen := track_length b w C pre t
  obtain ⟨⟨hi, hg, ho, hl⟩, hc, hle, hwn⟩ := t
  obtain ⟨c, i, s, g⟩ := fill_at b hi { gen := w.gen, off := w.off + pre.length, n := m } pre.length vs
    hg (by simp only; omega) (by omega)
  have hc' : contents (fill b { gen := w.gen, off := w.off + pre.length, n := m } vs) =
      (pre ++ vs) ++ C.drop (pre ++ vs).length := by
    rw [c, hc, splice_next pre C vs (by omega)]
  refine ⟨⟨i, by rw [g]; exact hg, by rw [s]; exact ho, ?_⟩, hc', by rw [List.length_append]; omega, hwn⟩
  rw [hc', List.length_append, List.length_drop, List.length_append]; omega

theorem splice_over (pre z rest h : Bytes) (hz : h.length ≤ z.length) :
    splice (pre ++ z ++ rest) pre.length h = pre ++ (h ++ z.drop h.length) ++ rest := by
  unfold splice
  rw [List.append_assoc pre z rest, List.take_left' rfl, List.drop_append,
    List.drop_of_length_le (by omega : pre.length ≤ pre.length + h.length)]
  simp only [List.nil_append, Nat.add_sub_cancel_left]
  rw [List.drop_append_of_le_length hz]
  simp only [List.append_assoc]

/-- A store of `h` OVER the last `|z|` bytes written (`copy` after the zero fill). -/
theorem track_over (b : SBuf) (w : Win) (C pre z h : Bytes) (n m : Nat) (t : Track b w C (pre ++ z))
    (hn : pre.length = n) (hz : h.length ≤ z.length) :
    Track (fill b { gen := w.gen, off := w.off + n, n := m } h) w C (pre ++ (h ++ z.drop h.length)) := by
  subst hn
  have hlen := track_length b w C _ t
  obtain ⟨⟨hi, hg, ho, hl⟩, hc, hle, hwn⟩ := t
  have hpl : (pre ++ (h ++ z.drop h.length)).length = (pre ++ z).length := by
    simp only [List.length_append, List.length_drop]; omega
  rw [List.length_append] at hle
  obtain ⟨c, i, s, g⟩ := fill_at b hi { gen := w.gen, off := w.off + pre.length, n := m } pre.length h
    hg (by simp only; omega) (by omega)
  have hc' : contents (fill b { gen := w.gen, off := w.off + pre.length, n := m } h) =
      (pre ++ (h ++ z.drop h.length)) ++ C.drop (pre ++ (h ++ z.drop h.length)).length := by
    rw [c, hc, splice_over pre z _ h hz, hpl]
  refine ⟨⟨i, by rw [g]; exact hg, by rw [s]; exact ho, ?_⟩, hc', by rw [hpl, List.length_append]; exact hle, hwn⟩
  rw [hc']
  simp only [List.length_append, List.length_drop] at hwn ⊢
  omega

/-- When the whole window has been written, the contents are the header followed by the payload. -/
theorem track_done (b b0 : SBuf) (w : Win) (pre : Bytes) (n : Nat)
    (t : Track b w (contents b0) pre) (hn : pre.length = n) (p : Bytes) (hd : (contents b0).drop n = p) :
    Inv b ∧ contents b = pre ++ p := by
  refine ⟨t.hdr.inv, ?_⟩
  rw [t.cont, hn, hd]

theorem putBe16_length (v : Nat) : (putBe16 v).length = 2 := rfl
theorem putBe32_length (v : Nat) : (putBe32 v).length = 4 := rfl

theorem lotsOfZeros_take (n : Nat) (h : n ≤ 1024) : lotsOfZeros.take n = zeros n := by
  unfold lotsOfZeros zeros
  rw [List.take_replicate, Nat.min_eq_left h]

end Gp.Llc
