import Gp.Lemmas.Layers.Mld2
import Gp.Lemmas.Layers.MldSer
/-
  Helper lemmas for engine `lmld2`, part 2: serialization over the C18 buffer model.  Core Lean only.

  Section 1 holds the *definitions* used in property statements (functional specifications of the
  SerializeTo methods; the observable view `serView` and `SerSpec` are those of Gp.Mld); the rest
  is proof machinery.
-/
namespace Gp.Mld2
open Gp Gp.SBuf Gp.C18 Gp.Mld Gp.Gen.Mld2

/-! ## 1. Definitions used in property statements -/

/-- The source-address loop as a function on the bytes already in the buffer: the list is given in
    visiting order (last address first), each address goes in front; `none` = an address that is
    neither 4 nor 16 bytes long (error return). -/
def srcsSpec : List Bytes → Bytes → Option Bytes
  | [], p => some p
  | a :: rest, p =>
    match to16 a with
    | none => none
    | some a16 => srcsSpec rest (a16 ++ p)

/-- The 24 header bytes of a query. -/
def queryHeader (l : Query) (ma16 : Bytes) : Bytes :=
  putBe16 l.mrc ++ [0, 0] ++ ma16 ++ [u8 (byte20 l), u8 l.qqic] ++ putBe16 l.n

/-- The receiver after the FixLengths assignment. -/
def queryFixed (l : Query) (fix : Bool) : Query := if fix then { l with n := l.srcs.length } else l

def queryFixedSpec (l : Query) (p : Bytes) : SerSpec Query :=
  match srcsSpec l.srcs.reverse p with
  | none => { layer := l, err := true, bytes := [] }
  | some c =>
    match to16 l.addr with
    | none => { layer := l, err := true, bytes := [] }
    | some ma16 => { layer := l, err := false, bytes := queryHeader l ma16 ++ c }

/-- What the query's `SerializeTo` does, as a function of layer, payload and FixLengths. -/
def querySerSpec (l : Query) (p : Bytes) (fix : Bool) : SerSpec Query :=
  if l.srcs.length > 65535 then { layer := l, err := true, bytes := [] }
  else queryFixedSpec (queryFixed l fix) p

/-- Outcome of a record's serializeTo. -/
structure RecSpec where
  mar   : Rec
  err   : Bool
  bytes : Bytes
  deriving Repr, DecidableEq

/-- The 20 header bytes of a record. -/
def recHeader (r : Rec) (ma16 : Bytes) : Bytes := [u8 r.typ, u8 r.auxLen] ++ putBe16 r.n ++ ma16

def recTailSpec (r : Rec) (p : Bytes) : RecSpec :=
  match srcsSpec r.srcs.reverse p with
  | none => { mar := r, err := true, bytes := [] }
  | some c =>
    match to16 r.addr with
    | none => { mar := r, err := true, bytes := [] }
    | some ma16 => { mar := r, err := false, bytes := recHeader r ma16 ++ c }

/-- What a record's `serializeTo` does. -/
def recSerSpec (pad : Bytes → Bytes) (r : Rec) (p : Bytes) (fix : Bool) : RecSpec :=
  let r1 := Rec.fixAux pad r fix
  if fix ∧ r1.aux.length / 4 > 255 then { mar := r1, err := true, bytes := [] }
  else if fix ∧ r1.srcs.length > 65535 then { mar := r1, err := true, bytes := [] }
  else recTailSpec (Rec.fixN r1 fix) (r1.aux ++ p)

/-- The record loop (visiting order: last record first): mutated records, error, bytes. -/
def recsSpec (pad : Bytes → Bytes) (fix : Bool) : List Rec → Bytes → (List Rec × Bool × Bytes)
  | [], p => ([], false, p)
  | r :: rest, p =>
    let o := recSerSpec pad r p fix
    if o.err then (o.mar :: rest, true, [])
    else
      let t := recsSpec pad fix rest o.bytes
      (o.mar :: t.1, t.2.1, t.2.2)

/-- What the report's `SerializeTo` does. -/
def reportSerSpecWith (pad : Bytes → Bytes) (l : Report) (p : Bytes) (fix : Bool) : SerSpec Report :=
  let t := recsSpec pad fix l.recs.reverse p
  let l1 := { l with recs := t.1.reverse }
  if t.2.1 then { layer := l1, err := true, bytes := [] }
  else if fix ∧ l1.recs.length > 65535 then { layer := l1, err := true, bytes := [] }
  else
    let l2 := if fix then { l1 with nrec := l1.recs.length } else l1
    { layer := l2, err := false, bytes := [0, 0] ++ putBe16 l2.nrec ++ t.2.2 }

def reportSerSpec (l : Report) (p : Bytes) (fix : Bool) : SerSpec Report := reportSerSpecWith auxPad l p fix

/-! ## 2. Writing into a freshly prepended window -/

/-- `b` is `b1` (same backing array, same start) after some stores; its contents split into the
    part already written `W` and the rest `R`. -/
def Wr (b1 b : SBuf) (W R : Bytes) : Prop :=
  Inv b ∧ b.start = b1.start ∧ b.gen = b1.gen ∧ contents b = W ++ R

theorem wr_init (b1 : SBuf) (h : Inv b1) : Wr b1 b1 [] (contents b1) := ⟨h, rfl, rfl, rfl⟩

theorem wr_fill (b1 b : SBuf) (W R vs : Bytes) (w : Win) (h : Wr b1 b W R) (hg : w.gen = b1.gen)
    (ho : w.off = b1.start + W.length) (hv : vs.length ≤ R.length) :
    Wr b1 (fill b w vs) (W ++ vs) (R.drop vs.length) := by
  obtain ⟨hi, hs, hgen, hc⟩ := h
  obtain ⟨c, i, s, g⟩ := fill_next b hi w W R vs (by rw [hg, hgen]) (by rw [ho, hs]) hc hv
  exact ⟨i, by rw [s, hs], by rw [g, hgen], c⟩

theorem wr_write (b1 b : SBuf) (W R : Bytes) (w : Win) (i : Nat) (v : UInt8) (h : Wr b1 b W R)
    (hg : w.gen = b1.gen) (hi : i < w.n) (ho : w.off + i = b1.start + W.length) (hr : 1 ≤ R.length) :
    ∃ b', write b w i v = .ok b' ∧ Wr b1 b' (W ++ [v]) (R.drop 1) := by
  obtain ⟨hinv, hs, hgen, hc⟩ := h
  refine ⟨_, write_current b w i v (by rw [hg, hgen]) hi, inv_set b _ v hinv, hs, hgen, ?_⟩
  rw [contents_set b (w.off + i) v (by omega), hc]
  have : w.off + i - b.start = W.length := by omega
  rw [this]
  cases R with
  | nil => simp at hr
  | cons r rs => simp

theorem wr_re (b1 b : SBuf) (W R W' R' : Bytes) (h : Wr b1 b W R) (e : W ++ R = W' ++ R') : Wr b1 b W' R' := by
  obtain ⟨hi, hs, hg, hc⟩ := h
  exact ⟨hi, hs, hg, by rw [hc, e]⟩

/-- `PrependBytes(n); copy(w, vs)` with |vs| = n through a window equal to the one handed out. -/
theorem front_copy (b : SBuf) (h : Inv b) (n : Nat) (vs : Bytes) (w : Win) (hv : vs.length = n)
    (hg : w.gen = (prepend b n).2.gen) (ho : w.off = (prepend b n).2.off) (hn : w.n = n) :
    Inv (copyTo (prepend b n).1 w vs) ∧ contents (copyTo (prepend b n).1 w vs) = vs ++ contents b := by
  obtain ⟨hi1, _, hgen, hoff, hlen, hdrop⟩ := prepend_facts b n h
  have t : vs.take w.n = vs := List.take_of_length_le (by omega)
  unfold copyTo
  rw [t]
  obtain ⟨c, i, -, -⟩ := fill_next (prepend b n).1 hi1 w [] (contents (prepend b n).1) vs (by rw [hg, hgen])
    (by rw [ho, hoff]; rfl) rfl (by omega)
  exact ⟨i, by rw [c, hv, hdrop, List.nil_append]⟩

/-! ## 3. The source-address loop -/

theorem serSrcs_refines (sl : Bool) : ∀ (xs : List Bytes) (b : SBuf), Inv b →
    ∃ r, serSrcs sl xs b = .ok r ∧
      (match srcsSpec xs (contents b) with
       | none => r.2 = true
       | some c => r.2 = false ∧ Inv r.1 ∧ contents r.1 = c) := by
  intro xs
  induction xs with
  | nil => intro b h; exact ⟨_, rfl, rfl, h, rfl⟩
  | cons a rest ih =>
    intro b h
    unfold serSrcs srcsSpec
    simp only
    cases ha : to16 a with
    | none => exact ⟨_, rfl, rfl⟩
    | some a16 =>
      have hl := to16_length _ _ ha
      simp only
      cases sl
      · simp only [Bool.false_eq_true, if_false, pure, Res.bind_ok]
        obtain ⟨i, c⟩ := front_copy b h 16 a16 (prepend b 16).2 hl rfl rfl rfl
        obtain ⟨r, hr, hm⟩ := ih _ i
        rw [c] at hm
        exact ⟨r, hr, hm⟩
      · have hw : winSlice (prepend b 16).2 0 16 =
            Res.ok { gen := (prepend b 16).2.gen, off := (prepend b 16).2.off + 0, n := 16 - 0 } := by
          unfold winSlice; rw [if_pos (by exact ⟨by omega, Nat.le_refl _⟩)]
        simp only [if_true]
        rw [hw, Res.bind_ok]
        obtain ⟨i, c⟩ := front_copy b h 16 a16
          { gen := (prepend b 16).2.gen, off := (prepend b 16).2.off + 0, n := 16 - 0 } hl rfl rfl rfl
        obtain ⟨r, hr, hm⟩ := ih _ i
        rw [c] at hm
        exact ⟨r, hr, hm⟩

/-! ## 4. The query -/

theorem query_header_refines (l : Query) (b1 : SBuf) (w : Win) (p : Bytes) (h : Inv b1) (hn : w.n = 24)
    (hg : w.gen = b1.gen) (ho : w.off = b1.start) (hlen : (contents b1).length = 24 + p.length)
    (hdrop : (contents b1).drop 24 = p) :
    ∃ o, Query.header l b1 w = .ok o ∧ o.layer = l ∧
      (match to16 l.addr with
       | none => o.err = true
       | some ma16 => o.err = false ∧ Inv o.buf ∧ contents o.buf = queryHeader l ma16 ++ p) := by
  unfold Query.header
  have s02 : winSlice w 0 2 = .ok { gen := w.gen, off := w.off + 0, n := 2 - 0 } := by
    unfold winSlice; rw [if_pos (by omega)]
  have s24 : winSlice w 2 4 = .ok { gen := w.gen, off := w.off + 2, n := 4 - 2 } := by
    unfold winSlice; rw [if_pos (by omega)]
  have s420 : winSlice w 4 20 = .ok { gen := w.gen, off := w.off + 4, n := 20 - 4 } := by
    unfold winSlice; rw [if_pos (by omega)]
  have s2224 : winSlice w 22 24 = .ok { gen := w.gen, off := w.off + 22, n := 24 - 22 } := by
    unfold winSlice; rw [if_pos (by omega)]
  rw [s02, Res.bind_ok]
  have p1 : ∀ b v, putUint16 b { gen := w.gen, off := w.off + 0, n := 2 - 0 } v =
      .ok (fill b { gen := w.gen, off := w.off + 0, n := 2 - 0 } (putBe16 v)) := by
    intro b v; unfold putUint16; rw [if_neg (by simp only; omega)]
  have p2 : ∀ b v, putUint16 b { gen := w.gen, off := w.off + 22, n := 24 - 22 } v =
      .ok (fill b { gen := w.gen, off := w.off + 22, n := 24 - 22 } (putBe16 v)) := by
    intro b v; unfold putUint16; rw [if_neg (by simp only; omega)]
  rw [p1, Res.bind_ok, s24, Res.bind_ok]
  have h1 := wr_fill b1 b1 [] (contents b1) (putBe16 l.mrc) { gen := w.gen, off := w.off + 0, n := 2 - 0 }
    (wr_init b1 h) hg (by simp only [List.length_nil]; omega) (by rw [putBe16_length]; omega)
  rw [putBe16_length] at h1
  have t2 : ([0, 0] : Bytes).take (4 - 2) = [0, 0] := rfl
  simp only [copyTo, t2]
  have h2 := wr_fill b1 _ _ _ [0, 0] { gen := w.gen, off := w.off + 2, n := 4 - 2 } h1 hg
    (by simp only [List.nil_append, putBe16_length]; omega)
    (by rw [List.length_drop]; simp only [List.length_cons, List.length_nil]; omega)
  rw [List.drop_drop] at h2
  simp only [List.length_cons, List.length_nil, Nat.reduceAdd] at h2
  cases hm : to16 l.addr with
  | none => exact ⟨_, rfl, rfl, rfl⟩
  | some ma16 =>
    have hl16 := to16_length _ _ hm
    simp only
    rw [s420, Res.bind_ok]
    have t16 : ma16.take (20 - 4) = ma16 := List.take_of_length_le (by omega)
    simp only [t16]
    have h3 := wr_fill b1 _ _ _ ma16 { gen := w.gen, off := w.off + 4, n := 20 - 4 } h2 hg
      (by simp only [List.nil_append, List.length_append, putBe16_length, List.length_cons, List.length_nil]; omega)
      (by rw [List.length_drop]; omega)
    rw [List.drop_drop, hl16] at h3
    simp only [List.length_cons, List.length_nil, Nat.reduceAdd] at h3
    obtain ⟨b4, e4, h4⟩ := wr_write b1 _ _ _ w 20 (u8 (byte20 l)) h3 hg (by omega)
      (by simp only [List.nil_append, List.length_append, putBe16_length, List.length_cons, List.length_nil, hl16]; omega)
      (by rw [List.length_drop]; omega)
    rw [e4, Res.bind_ok, s2224, Res.bind_ok, p2, Res.bind_ok]
    rw [List.drop_drop] at h4
    simp only [Nat.reduceAdd] at h4
    obtain ⟨x, hx⟩ : ∃ x, (contents b1).drop 21 = x :: (contents b1).drop 22 :=
      ⟨_, List.drop_eq_getElem_cons (by omega)⟩
    have h4' := wr_re b1 b4 _ _ (([] ++ putBe16 l.mrc ++ [0, 0] ++ ma16 ++ [u8 (byte20 l)]) ++ [x])
      ((contents b1).drop 22) h4 (by rw [hx]; simp only [List.append_assoc, List.cons_append, List.nil_append])
    have h5 := wr_fill b1 _ _ _ (putBe16 l.n) { gen := w.gen, off := w.off + 22, n := 24 - 22 } h4' hg
      (by simp only [List.nil_append, List.length_append, putBe16_length, List.length_cons, List.length_nil, hl16]; omega)
      (by rw [List.length_drop, putBe16_length]; omega)
    rw [List.drop_drop, putBe16_length] at h5
    simp only [Nat.reduceAdd] at h5
    have h5' := wr_re b1 _ _ _ ([] ++ putBe16 l.mrc ++ [0, 0] ++ ma16 ++ [u8 (byte20 l)])
      ([x] ++ (putBe16 l.n ++ (contents b1).drop 24)) h5
      (by simp only [List.append_assoc, List.cons_append, List.nil_append])
    obtain ⟨b6, e6, h6⟩ := wr_write b1 _ _ _ w 21 (u8 l.qqic) h5' hg (by omega)
      (by simp only [List.nil_append, List.length_append, putBe16_length, List.length_cons, List.length_nil, hl16]; omega)
      (by simp only [List.length_append, List.length_cons, List.length_nil]; omega)
    rw [e6, Res.bind_ok]
    obtain ⟨i6, -, -, c6⟩ := h6
    refine ⟨_, rfl, rfl, rfl, i6, ?_⟩
    rw [c6, hdrop]
    simp [queryHeader, List.append_assoc]

theorem queryFixed_refines (l : Query) (b : SBuf) (h : Inv b) :
    ∃ o, Query.serializeFixed l b = .ok o ∧ o.layer = (queryFixedSpec l (contents b)).layer ∧
      o.err = (queryFixedSpec l (contents b)).err ∧
      ((queryFixedSpec l (contents b)).err = false →
        Inv o.buf ∧ contents o.buf = (queryFixedSpec l (contents b)).bytes) := by
  unfold Query.serializeFixed queryFixedSpec
  obtain ⟨r, hr, hm⟩ := serSrcs_refines true l.srcs.reverse b h
  rw [hr, Res.bind_ok]
  cases hs : srcsSpec l.srcs.reverse (contents b) with
  | none =>
    rw [hs] at hm
    simp only at hm ⊢
    rw [hm]
    exact ⟨_, rfl, rfl, rfl, fun hh => by cases hh⟩
  | some c =>
    rw [hs] at hm
    simp only at hm ⊢
    obtain ⟨he, hi, hc⟩ := hm
    rw [he]
    simp only [Bool.false_eq_true, if_false]
    obtain ⟨hi1, hn, hgen, hoff, hlen, hdrop⟩ := prepend_facts r.1 24 hi
    obtain ⟨o, ho, hl, hmm⟩ := query_header_refines l (prepend r.1 24).1 (prepend r.1 24).2 (contents r.1) hi1 hn hgen hoff
      hlen hdrop
    refine ⟨o, ho, ?_⟩
    cases hma : to16 l.addr with
    | none =>
      rw [hma] at hmm
      simp only at hmm ⊢
      exact ⟨hl, hmm, fun hh => by cases hh⟩
    | some ma16 =>
      rw [hma] at hmm
      simp only at hmm ⊢
      rw [← hc]
      exact ⟨hl, hmm.1, fun _ => hmm.2⟩

theorem query_serializeTo_refines (l : Query) (b : SBuf) (fix csum : Bool) (h : Inv b) :
    ∃ o, l.serializeTo b fix csum = .ok o ∧ o.layer = (querySerSpec l (contents b) fix).layer ∧
      o.err = (querySerSpec l (contents b) fix).err ∧
      ((querySerSpec l (contents b) fix).err = false →
        Inv o.buf ∧ contents o.buf = (querySerSpec l (contents b) fix).bytes) := by
  unfold Query.serializeTo querySerSpec
  by_cases hc : l.srcs.length > 65535
  · rw [if_pos hc, if_pos hc]
    exact ⟨_, rfl, rfl, rfl, fun hh => by cases hh⟩
  · rw [if_neg hc, if_neg hc]
    exact queryFixed_refines _ b h

/-! ## 5. Records -/

theorem rec_header_refines (r : Rec) (b1 : SBuf) (w : Win) (p : Bytes) (h : Inv b1) (hn : w.n = 20)
    (hg : w.gen = b1.gen) (ho : w.off = b1.start) (hlen : (contents b1).length = 20 + p.length)
    (hdrop : (contents b1).drop 20 = p) :
    ∃ o, Rec.header r b1 w = .ok o ∧ o.mar = r ∧
      (match to16 r.addr with
       | none => o.err = true
       | some ma16 => o.err = false ∧ Inv o.buf ∧ contents o.buf = recHeader r ma16 ++ p) := by
  unfold Rec.header
  have s24 : winSlice w 2 4 = .ok { gen := w.gen, off := w.off + 2, n := 4 - 2 } := by
    unfold winSlice; rw [if_pos (by omega)]
  have s420 : winSlice w 4 20 = .ok { gen := w.gen, off := w.off + 4, n := 20 - 4 } := by
    unfold winSlice; rw [if_pos (by omega)]
  have p1 : ∀ b v, putUint16 b { gen := w.gen, off := w.off + 2, n := 4 - 2 } v =
      .ok (fill b { gen := w.gen, off := w.off + 2, n := 4 - 2 } (putBe16 v)) := by
    intro b v; unfold putUint16; rw [if_neg (by simp only; omega)]
  obtain ⟨b2, e2, h2⟩ := wr_write b1 b1 [] (contents b1) w 0 (u8 r.typ) (wr_init b1 h) hg (by omega)
    (by simp only [List.length_nil]; omega) (by omega)
  rw [e2, Res.bind_ok]
  obtain ⟨b3, e3, h3⟩ := wr_write b1 b2 _ _ w 1 (u8 r.auxLen) h2 hg (by omega)
    (by simp only [List.nil_append, List.length_cons, List.length_nil]; omega)
    (by rw [List.length_drop]; omega)
  rw [e3, Res.bind_ok, s24, Res.bind_ok, p1, Res.bind_ok]
  rw [List.drop_drop] at h3
  simp only [Nat.reduceAdd] at h3
  have h4 := wr_fill b1 _ _ _ (putBe16 r.n) { gen := w.gen, off := w.off + 2, n := 4 - 2 } h3 hg
    (by simp only [List.nil_append, List.length_append, List.length_cons, List.length_nil]; omega)
    (by rw [List.length_drop, putBe16_length]; omega)
  rw [List.drop_drop, putBe16_length] at h4
  simp only [Nat.reduceAdd] at h4
  cases hm : to16 r.addr with
  | none => exact ⟨_, rfl, rfl, rfl⟩
  | some ma16 =>
    have hl16 := to16_length _ _ hm
    simp only
    rw [s420, Res.bind_ok]
    have t16 : ma16.take (20 - 4) = ma16 := List.take_of_length_le (by omega)
    simp only [copyTo, t16]
    have h5 := wr_fill b1 _ _ _ ma16 { gen := w.gen, off := w.off + 4, n := 20 - 4 } h4 hg
      (by simp only [List.nil_append, List.length_append, putBe16_length, List.length_cons, List.length_nil]; omega)
      (by rw [List.length_drop]; omega)
    rw [List.drop_drop, hl16] at h5
    simp only [Nat.reduceAdd] at h5
    obtain ⟨i5, -, -, c5⟩ := h5
    refine ⟨_, rfl, rfl, rfl, i5, ?_⟩
    rw [c5, hdrop]
    simp [recHeader, List.append_assoc]

theorem rec_tail_refines (r : Rec) (b : SBuf) (h : Inv b) :
    ∃ o, Rec.serializeTail r b = .ok o ∧ o.mar = (recTailSpec r (contents b)).mar ∧
      o.err = (recTailSpec r (contents b)).err ∧
      ((recTailSpec r (contents b)).err = false →
        Inv o.buf ∧ contents o.buf = (recTailSpec r (contents b)).bytes) := by
  unfold Rec.serializeTail recTailSpec
  obtain ⟨s, hs, hm⟩ := serSrcs_refines false r.srcs.reverse b h
  rw [hs, Res.bind_ok]
  cases hsp : srcsSpec r.srcs.reverse (contents b) with
  | none =>
    rw [hsp] at hm
    simp only at hm ⊢
    rw [hm]
    exact ⟨_, rfl, rfl, rfl, fun hh => by cases hh⟩
  | some c =>
    rw [hsp] at hm
    simp only at hm ⊢
    obtain ⟨he, hi, hc⟩ := hm
    rw [he]
    simp only [Bool.false_eq_true, if_false]
    obtain ⟨hi1, hn, hgen, hoff, hlen, hdrop⟩ := prepend_facts s.1 20 hi
    obtain ⟨o, ho, hl, hmm⟩ := rec_header_refines r (prepend s.1 20).1 (prepend s.1 20).2 (contents s.1) hi1 hn hgen hoff
      hlen hdrop
    refine ⟨o, ho, ?_⟩
    cases hma : to16 r.addr with
    | none =>
      rw [hma] at hmm
      simp only at hmm ⊢
      exact ⟨hl, hmm, fun hh => by cases hh⟩
    | some ma16 =>
      rw [hma] at hmm
      simp only at hmm ⊢
      rw [← hc]
      exact ⟨hl, hmm.1, fun _ => hmm.2⟩

theorem rec_serialize_refines (pad : Bytes → Bytes) (r : Rec) (b : SBuf) (fix : Bool) (h : Inv b) :
    ∃ o, Rec.serializeWith pad r b fix = .ok o ∧ o.mar = (recSerSpec pad r (contents b) fix).mar ∧
      o.err = (recSerSpec pad r (contents b) fix).err ∧
      ((recSerSpec pad r (contents b) fix).err = false →
        Inv o.buf ∧ contents o.buf = (recSerSpec pad r (contents b) fix).bytes) := by
  unfold Rec.serializeWith recSerSpec
  simp only
  by_cases c1 : fix = true ∧ (Rec.fixAux pad r fix).aux.length / 4 > 255
  · rw [if_pos c1, if_pos c1]
    exact ⟨_, rfl, rfl, rfl, fun hh => by cases hh⟩
  · rw [if_neg c1, if_neg c1]
    by_cases c2 : fix = true ∧ (Rec.fixAux pad r fix).srcs.length > 65535
    · rw [if_pos c2, if_pos c2]
      exact ⟨_, rfl, rfl, rfl, fun hh => by cases hh⟩
    · rw [if_neg c2, if_neg c2]
      obtain ⟨i, c⟩ := front_copy b h (Rec.fixAux pad r fix).aux.length (Rec.fixAux pad r fix).aux
        (prepend b (Rec.fixAux pad r fix).aux.length).2 rfl rfl rfl rfl
      have := rec_tail_refines (Rec.fixN (Rec.fixAux pad r fix) fix) _ i
      rw [c] at this
      exact this

theorem serRecs_refines (pad : Bytes → Bytes) (fix : Bool) : ∀ (xs : List Rec) (b : SBuf), Inv b →
    ∃ t, serRecs pad fix xs b = .ok t ∧ t.2.1 = (recsSpec pad fix xs (contents b)).1 ∧
      t.2.2 = (recsSpec pad fix xs (contents b)).2.1 ∧
      ((recsSpec pad fix xs (contents b)).2.1 = false →
        Inv t.1 ∧ contents t.1 = (recsSpec pad fix xs (contents b)).2.2) := by
  intro xs
  induction xs with
  | nil => intro b h; exact ⟨_, rfl, rfl, rfl, fun _ => ⟨h, rfl⟩⟩
  | cons r rest ih =>
    intro b h
    unfold serRecs recsSpec
    obtain ⟨o, ho, hmar, herr, hok⟩ := rec_serialize_refines pad r b fix h
    rw [ho, Res.bind_ok]
    simp only
    cases he : (recSerSpec pad r (contents b) fix).err with
    | true =>
      rw [he] at herr
      simp only [herr, if_true, pure, hmar]
      exact ⟨_, rfl, rfl, rfl, fun hh => by cases hh⟩
    | false =>
      rw [he] at herr
      obtain ⟨io, co⟩ := hok he
      obtain ⟨t, ht, h1, h2, h3⟩ := ih o.buf io
      simp only [herr, Bool.false_eq_true, if_false, ht, Res.bind_ok, pure, hmar]
      rw [co] at h1 h2 h3
      exact ⟨_, rfl, by rw [h1], h2, h3⟩

/-! ## 6. The report -/

theorem report_serialize_refines (pad : Bytes → Bytes) (l : Report) (b : SBuf) (fix csum : Bool) (h : Inv b) :
    ∃ o, Report.serializeWith pad l b fix csum = .ok o ∧
      o.layer = (reportSerSpecWith pad l (contents b) fix).layer ∧
      o.err = (reportSerSpecWith pad l (contents b) fix).err ∧
      ((reportSerSpecWith pad l (contents b) fix).err = false →
        Inv o.buf ∧ contents o.buf = (reportSerSpecWith pad l (contents b) fix).bytes) := by
  unfold Report.serializeWith reportSerSpecWith
  obtain ⟨t, ht, h1, h2, h3⟩ := serRecs_refines pad fix l.recs.reverse b h
  rw [ht, Res.bind_ok]
  simp only
  rw [h1, h2]
  cases he : (recsSpec pad fix l.recs.reverse (contents b)).2.1 with
  | true =>
    simp only [if_true, pure]
    exact ⟨_, rfl, rfl, rfl, fun hh => by cases hh⟩
  | false =>
    obtain ⟨it, ct⟩ := h3 he
    simp only [Bool.false_eq_true, if_false]
    by_cases c2 : fix = true ∧ (recsSpec pad fix l.recs.reverse (contents b)).1.reverse.length > 65535
    · rw [if_pos c2, if_pos c2]
      exact ⟨_, rfl, rfl, rfl, fun hh => by cases hh⟩
    · rw [if_neg c2, if_neg c2]
      obtain ⟨hi1, hn, hgen, hoff, hlen, hdrop⟩ := prepend_facts t.1 4 it
      generalize hb1 : (prepend t.1 4).1 = b1 at hi1 hgen hoff hlen hdrop
      generalize hw : (prepend t.1 4).2 = w at hn hgen hoff
      simp only [hb1, hw]
      have s02 : winSlice w 0 2 = .ok { gen := w.gen, off := w.off + 0, n := 2 - 0 } := by
        unfold winSlice; rw [if_pos (by omega)]
      have s24 : winSlice w 2 4 = .ok { gen := w.gen, off := w.off + 2, n := 4 - 2 } := by
        unfold winSlice; rw [if_pos (by omega)]
      have p1 : ∀ b v, putUint16 b { gen := w.gen, off := w.off + 2, n := 4 - 2 } v =
          .ok (fill b { gen := w.gen, off := w.off + 2, n := 4 - 2 } (putBe16 v)) := by
        intro b v; unfold putUint16; rw [if_neg (by simp only; omega)]
      rw [s02, Res.bind_ok, s24, Res.bind_ok, p1, Res.bind_ok]
      have t2 : ([0, 0] : Bytes).take (2 - 0) = [0, 0] := rfl
      simp only [copyTo, t2]
      have w1 := wr_fill b1 b1 [] (contents b1) [0, 0] { gen := w.gen, off := w.off + 0, n := 2 - 0 }
        (wr_init b1 hi1) hgen (by simp only [List.length_nil]; omega)
        (by simp only [List.length_cons, List.length_nil]; omega)
      simp only [List.length_cons, List.length_nil, Nat.reduceAdd] at w1
      have key : ∀ vs : Bytes, vs.length = 2 →
          Wr b1 (fill (fill b1 { gen := w.gen, off := w.off + 0, n := 2 - 0 } [0, 0])
            { gen := w.gen, off := w.off + 2, n := 4 - 2 } vs) ([] ++ [0, 0] ++ vs) ((contents b1).drop 4) := by
        intro vs hv
        have w2 := wr_fill b1 _ _ _ vs { gen := w.gen, off := w.off + 2, n := 4 - 2 } w1 hgen
          (by simp only [List.nil_append, List.length_cons, List.length_nil]; omega)
          (by rw [List.length_drop, hv]; omega)
        rw [List.drop_drop, hv] at w2
        exact w2
      refine ⟨_, rfl, rfl, rfl, fun _ => ?_⟩
      refine ⟨(key _ (putBe16_length _)).1, (key _ (putBe16_length _)).2.2.2.trans ?_⟩
      rw [hdrop, ct]
      simp [List.append_assoc]

end Gp.Mld2
