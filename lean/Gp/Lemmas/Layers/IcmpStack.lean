import Gp.Lemmas.Layers.IcmpRt
/-
  Stack round trip for engine `licmp` (C06): ICMPv6 header over one of its messages over a
  payload, written innermost-first as SerializeLayers does, decoded by the NewPacket chain.
-/
namespace Gp.Icmp
open Gp Gp.SBuf Gp.C18

theorem kind_lt_kind (k : Kind) : k.lt.kind? = some k := by cases k <;> rfl

theorem kind_lt_ne_payload (k : Kind) : k.lt ≠ .payload := by cases k <;> (intro h; cases h)

theorem fresh_kind (k : Kind) : (fresh k).kind = k := by cases k <;> rfl

theorem setBase_kind (l : AnyLayer) (c p : Bytes) : (setBase l c p).kind = l.kind := by cases l <;> rfl
theorem setNet_kind (l : AnyLayer) (ps : Pseudo) : (setNet l ps).kind = l.kind := by cases l <;> rfl

/-- typeCode of an ICMPv6 layer value inside `AnyLayer` (0 for other kinds; only used on ICMPv6). -/
def tcOf : AnyLayer → Nat
  | .icmp6 v => v.typeCode
  | _ => 0

theorem serialize_ok_of_spec (l : AnyLayer) (b : SBuf) (o : SOpts) (h : Inv b) (out : Bytes) (lf : AnyLayer)
    (hs : specAny l (contents b) o = .ok (out, lf)) :
    ∃ b', l.serialize b o = .ok (b', lf) ∧ contents b' = out ∧ Inv b' := by
  obtain ⟨hspec, hinv⟩ := serializeAny_spec l b o h
  rw [hs] at hspec
  cases hser : l.serialize b o with
  | panic k => rw [hser] at hspec; cases hspec
  | err e => rw [hser] at hspec; cases hspec
  | ok r =>
    obtain ⟨b', lf'⟩ := r
    rw [hser] at hspec
    simp only [outOf, Res.ok.injEq, Prod.mk.injEq] at hspec
    obtain ⟨hb, hl⟩ := hspec
    subst hl
    exact ⟨b', rfl, hb, hinv b' lf' hser⟩

/-- The encoding of any layer is at least its fixed header: never empty. -/
theorem spec_out_ne_nil (l lf : AnyLayer) (p out : Bytes) (o : SOpts)
    (hs : specAny l p o = .ok (out, lf)) : out ≠ [] := by
  cases l with
  | icmp4 v => simp only [specAny, specICMPv4, liftSpec] at hs; cases hs; simp [hdrICMPv4, putBe16]
  | icmp6 v =>
    simp only [specAny, specICMPv6] at hs
    cases hf : fixICMPv6 v p o with
    | none => rw [hf] at hs; cases hs
    | some v' => rw [hf] at hs; simp only [liftSpec] at hs; cases hs; simp [hdrICMPv6, putBe16]
  | echo v => simp only [specAny, specEcho, liftSpec] at hs; cases hs; simp [hdrEcho, putBe16]
  | rs v => simp only [specAny, specRS, liftSpec] at hs; cases hs; simp [zeros]
  | ra v => simp only [specAny, specRA, liftSpec] at hs; cases hs; simp [hdrRA]
  | ns v =>
    simp only [specAny, specNS] at hs
    split at hs
    · simp only [liftSpec] at hs; cases hs; simp [hdrNS, zeros]
    · cases hs
  | na v =>
    simp only [specAny, specNA] at hs
    split at hs
    · simp only [liftSpec] at hs; cases hs; simp [hdrNA]
    · cases hs
  | redirect v =>
    simp only [specAny, specRedirect] at hs
    split at hs
    · split at hs
      · simp only [liftSpec] at hs; cases hs; simp [hdrRedirect, zeros]
      · cases hs
    · cases hs

theorem next_setBase_icmp6 (v : ICMPv6) (c p : Bytes) (k : Kind)
    (hd : ∀ w : ICMPv6, w.typeCode = v.typeCode → nextICMPv6 w = k.lt) :
    (setBase (setNet (.icmp6 v) .absent) c p).next = k.lt := by
  simp only [setNet, setBase, AnyLayer.next]
  exact hd _ rfl

theorem spec_icmp6_tc (v : ICMPv6) (p out : Bytes) (o : SOpts) (lf : AnyLayer)
    (hs : specAny (.icmp6 v) p o = .ok (out, lf)) : ∃ v', lf = .icmp6 v' ∧ v'.typeCode = v.typeCode := by
  simp only [specAny, specICMPv6] at hs
  cases hf : fixICMPv6 v p o with
  | none => rw [hf] at hs; cases hs
  | some v' =>
    rw [hf] at hs; simp only [liftSpec] at hs; cases hs
    refine ⟨v', rfl, ?_⟩
    unfold fixICMPv6 at hf
    split at hf
    · cases hp : v.pseudo.sum with
      | none => rw [hp] at hf; cases hf
      | some ps => rw [hp] at hf; simp only [Option.some.injEq] at hf; subst hf; rfl
    · cases hf; rfl

theorem hasNet_of_not_icmp6 (l : AnyLayer) (h : l.kind ≠ .icmp6) : hasNet l := by
  cases l <;> first | trivial | exact absurd rfl h

/-- The tail of the chain: a message layer (not ICMPv6) over its payload. -/
theorem pktRun_message (f : Nat) (k : Kind) (hk : k ≠ .icmp6) (data : Bytes) (L : AnyLayer) (p : Bytes)
    (hL : L.kind = k) (hpl : L.payload = p)
    (hd : pureAny (fresh k) data = ⟨L, false, false⟩) :
    ∃ acts, pktRun (f + 1) k data =
      .ok ⟨.lay L :: (if p = [] then [] else [.payload p]), acts, false, false⟩ := by
  unfold pktRun
  rw [decodeAny_eq, hd]
  simp only [Res.bind_ok, Bool.false_eq_true, if_false]
  have hnext := next_of_not_icmp6 L (by rw [hL]; exact hk)
  rw [hpl]
  by_cases hp : p = []
  · subst hp
    simp only [List.length_nil, if_true]
    exact ⟨_, rfl⟩
  · have : ¬ p.length = 0 := by
      intro h0; exact hp (List.eq_nil_of_length_eq_zero h0)
    simp only [this, if_false, hnext, if_true, hp]
    exact ⟨_, rfl⟩

/-- ICMPv6 header + message + payload written innermost-first and decoded by the packet chain. -/
theorem stack_roundtrip_core (hv : ICMPv6) (l : AnyLayer) (b : SBuf) (hI : Inv b)
    (hwfh : wf (.icmp6 hv)) (hn : hv.pseudo ≠ .absent) (hwfl : wf l)
    (hp : payloadAllowed l (contents b)) (hk : l.kind ≠ .icmp6)
    (hdisp : ∀ w : ICMPv6, w.typeCode = hv.typeCode → nextICMPv6 w = l.kind.lt) :
    ∃ b1 lf b2 hf H L acts,
      l.serialize b ⟨true, true⟩ = .ok (b1, lf) ∧
      (AnyLayer.icmp6 hv).serialize b1 ⟨true, true⟩ = .ok (b2, hf) ∧
      pktRun 3 .icmp6 (contents b2) =
        .ok ⟨.lay H :: .lay L :: (if contents b = [] then [] else [.payload (contents b)]),
             acts, false, false⟩ ∧
      strip H = strip hf ∧ strip L = strip lf := by
  obtain ⟨out1, lf, hs1⟩ := spec_ok_of_wf l (contents b) hwfl (hasNet_of_not_icmp6 l hk)
  obtain ⟨b1, e1, hc1, hI1⟩ := serialize_ok_of_spec l b _ hI out1 lf hs1
  obtain ⟨out2, hf, hs2⟩ := spec_ok_of_wf (.icmp6 hv) (contents b1) hwfh hn
  obtain ⟨b2, e2, hc2, hI2⟩ := serialize_ok_of_spec (.icmp6 hv) b1 _ hI1 out2 hf hs2
  obtain ⟨_, hkl, _, c1, hd1⟩ := decode_spec_enc l lf (contents b) out1 hwfl hp hs1
  obtain ⟨_, _, _, c2, hd2⟩ := decode_spec_enc (.icmp6 hv) hf (contents b1) out2 hwfh trivial hs2
  obtain ⟨hv', hhf, htc⟩ := spec_icmp6_tc hv _ _ _ hf hs2
  have hne : out1 ≠ [] := spec_out_ne_nil l lf _ _ _ hs1
  -- the message layer
  have hLk : (setBase (setNet lf .absent) c1 (contents b)).kind = l.kind := by
    rw [setBase_kind, setNet_kind, hkl]
  obtain ⟨acts1, hm⟩ := pktRun_message 1 l.kind hk out1 _ (contents b) hLk (payload_setBase _ _ _) hd1
  -- the ICMPv6 layer
  refine ⟨b1, lf, b2, hf, setBase (setNet hf .absent) c2 (contents b1),
    setBase (setNet lf .absent) c1 (contents b), .add :: acts1, e1, e2, ?_,
    by rw [strip_setBase, strip_setNet], by rw [strip_setBase, strip_setNet]⟩
  unfold pktRun
  simp only [AnyLayer.kind] at hd2
  rw [decodeAny_eq, hc2, hd2]
  simp only [Res.bind_ok, Bool.false_eq_true, if_false]
  rw [payload_setBase, hc1]
  have hlen : ¬ out1.length = 0 := fun h0 => hne (List.eq_nil_of_length_eq_zero h0)
  have hnext : (setBase (setNet hf .absent) c2 out1).next = l.kind.lt := by
    rw [hhf]
    exact next_setBase_icmp6 hv' c2 out1 l.kind (fun w hw => hdisp w (by rw [hw, htc]))
  simp only [hlen, if_false, hnext, kind_lt_ne_payload, kind_lt_kind]
  rw [hm]
  simp only [Res.bind_ok, Bool.or_self]
  rfl

/-- One layer (ICMPv4, or a message decoded directly) + payload through the packet chain. -/
theorem stack_roundtrip_single_core (l : AnyLayer) (b : SBuf) (hI : Inv b) (hwfl : wf l)
    (hp : payloadAllowed l (contents b)) (hk : l.kind ≠ .icmp6) :
    ∃ b1 lf L acts,
      l.serialize b ⟨true, true⟩ = .ok (b1, lf) ∧
      pktRun 3 l.kind (contents b1) =
        .ok ⟨.lay L :: (if contents b = [] then [] else [.payload (contents b)]), acts, false, false⟩ ∧
      strip L = strip lf := by
  obtain ⟨out1, lf, hs1⟩ := spec_ok_of_wf l (contents b) hwfl (hasNet_of_not_icmp6 l hk)
  obtain ⟨b1, e1, hc1, hI1⟩ := serialize_ok_of_spec l b _ hI out1 lf hs1
  obtain ⟨_, hkl, _, c1, hd1⟩ := decode_spec_enc l lf (contents b) out1 hwfl hp hs1
  have hLk : (setBase (setNet lf .absent) c1 (contents b)).kind = l.kind := by
    rw [setBase_kind, setNet_kind, hkl]
  obtain ⟨acts1, hm⟩ := pktRun_message 2 l.kind hk out1 _ (contents b) hLk (payload_setBase _ _ _) hd1
  exact ⟨b1, lf, _, acts1, e1, by rw [hc1]; exact hm, by rw [strip_setBase, strip_setNet]⟩

end Gp.Icmp
