import Gp.Lemmas.Layers.TcpRt
/-
  `ltcp` part 6: every successfully decoded layer satisfies the C06 well-formedness predicate.
-/
namespace Gp.Tcp
open Gp Gp.Gen.Tcp

/-- options collected so far by the loop: all in normal form, none is End-of-list -/
def Pre (os : List TcpOption) : Prop := ∀ o ∈ os, optWf o = true ∧ o.optionType ≠ 0

theorem pre_nil : Pre [] := by intro o h; cases h

theorem pre_snoc {os : List TcpOption} {o : TcpOption} (h : Pre os) (h1 : optWf o = true) (h2 : o.optionType ≠ 0) :
    Pre (os ++ [o]) := by
  intro x hx
  rcases List.mem_append.mp hx with hx | hx
  · exact h x hx
  · have : x = o := by simpa using hx
    subst this; exact ⟨h1, h2⟩

theorem wfOptsG_pre : ∀ (os : List TcpOption), Pre os → wfOptsG os [] = true := by
  intro os
  induction os with
  | nil => intro _; rfl
  | cons o os ih =>
    intro h
    have ho := h o (by simp)
    simp only [wfOptsG, ho.1, Bool.true_and, ho.2, if_false]
    exact ih fun x hx => h x (by simp [hx])

theorem wfOptsG_snoc_eol : ∀ (os : List TcpOption) (e : TcpOption) (pad : Bytes), Pre os →
    optNorm e = true → e.optionType = 0 → wfOptsG (os ++ [e]) pad = true := by
  intro os
  induction os with
  | nil =>
    intro e pad _ hn h0
    simp [wfOptsG, optWf, hn, h0]
  | cons o os ih =>
    intro e pad h hn h0
    have ho := h o (by simp)
    simp only [List.cons_append, wfOptsG, ho.1, Bool.true_and, ho.2, if_false]
    exact ih e pad (fun x hx => h x (by simp [hx])) hn h0

theorem optsWire_append (os : List TcpOption) (o : TcpOption) : optsWire (os ++ [o]) = optsWire os + wireLen o := by
  induction os with
  | nil => simp [optsWire]
  | cons x xs ih => simp [optsWire, ih]; omega

/-- Loop invariant ⇒ on a successful run the options/padding left behind are well formed and
    account for exactly the bytes of the option area. -/
theorem optLoop_wf : ∀ (fuel : Nat) (st : OptSt) (data : Sl) (out : LoopOut),
    data.vis.length ≤ fuel → Pre st.options → st.padding = [] →
    optLoop Variant.fixed fuel st data = .ok out → out.err = false →
    wfOptsG out.st.options out.st.padding = true ∧
    optsWire out.st.options + out.st.padding.length = optsWire st.options + data.vis.length := by
  intro fuel
  induction fuel with
  | zero =>
    intro st data out hf hpre hpad h he
    have h0 : data.vis.length = 0 := by omega
    unfold optLoop at h
    simp only [h0, if_true, Res.ok.injEq] at h
    subst h
    exact ⟨by simp only [hpad]; exact wfOptsG_pre _ hpre, by simp only [hpad, List.length_nil, h0]⟩
  | succ fuel ih =>
    intro st data out hf hpre hpad h he
    unfold optLoop at h
    by_cases h0 : data.vis.length = 0
    · simp only [h0, if_true, Res.ok.injEq] at h
      subst h
      exact ⟨by simp only [hpad]; exact wfOptsG_pre _ hpre, by simp only [hpad, List.length_nil, h0]⟩
    · simp only [h0, if_false] at h
      have hs := sim_optStep (d1 := data) (d2 := data) rfl st (by omega)
      generalize optStep Variant.fixed st data = r at hs h
      cases hs with
      | err e => cases h
      | ok hr =>
        obtain ⟨_, hok⟩ := hr
        rename_i a _
        cases a with
        | stop o =>
          simp only [Res.ok.injEq] at h
          subst h
          obtain ⟨e, ho, hn, ht, hp⟩ := hok he
          rw [ho, hp]
          refine ⟨wfOptsG_snoc_eol _ _ _ hpre hn ht, ?_⟩
          rw [optsWire_append]
          have : wireLen e = 1 := by simp [wireLen, isOneByte, ht]
          simp only [this, List.length_drop]
          omega
        | cont st' n =>
          obtain ⟨h1, h2, o, ho, hp, hw, ht, hwl⟩ := hok
          simp only [show ¬ n > data.vis.length by omega, if_false] at h
          have := ih st' ⟨data.vis.drop n, data.ext⟩ out (by simp [List.length_drop]; omega)
            (by rw [ho]; exact pre_snoc hpre hw ht) (by rw [hp]; exact hpad) h he
          refine ⟨this.1, ?_⟩
          rw [this.2, ho, optsWire_append, hwl]
          simp only [List.length_drop]
          omega

theorem be16_lt (a b : UInt8) : be16 a b < 65536 := by
  have := UInt8.toNat_lt a; have := UInt8.toNat_lt b
  simp only [be16]; omega

theorem be32_lt (a b c d : UInt8) : be32 a b c d < 4294967296 := by
  have := UInt8.toNat_lt a; have := UInt8.toNat_lt b; have := UInt8.toNat_lt c; have := UInt8.toNat_lt d
  simp only [be32]; omega

/-- the fixed-header reads produce in-range values -/
theorem parseFixed_ranges (d : Sl) (hlen : 20 ≤ d.vis.length) :
    ∃ h, parseFixed d = .ok h ∧ h.srcPort < 65536 ∧ h.dstPort < 65536 ∧ h.seq < 4294967296 ∧
      h.ack < 4294967296 ∧ h.window < 65536 ∧ h.checksum < 65536 ∧ h.urgent < 65536 := by
  obtain ⟨vis, e⟩ := d
  obtain ⟨a0, a1, a2, a3, a4, a5, a6, a7, a8, a9, a10, a11, a12, a13, a14, a15, a16, a17, a18, a19, t, rfl⟩ :=
    ge20_decomp vis hlen
  exact ⟨_, parseFixed_cons20 .., be16_lt _ _, be16_lt _ _, be32_lt _ _ _ _, be32_lt _ _ _ _,
    be16_lt _ _, be16_lt _ _, be16_lt _ _⟩

/-- decoded_wf: every successfully decoded TCP layer is well formed. -/
theorem decoded_wf' (old : Layer) (data foreign : Bytes) (o : DecOut)
    (h : decode Variant.fixed old data foreign = .ok o) (he : o.err = false) : wf o.layer = true := by
  have hlen : 20 ≤ data.length := decode_ok_len _ old data foreign o h he
  unfold decode decodeFromBytes at h
  simp only [Sl.len] at h
  have hn20 : ¬ data.length < 20 := by omega
  simp only [hn20, if_false] at h
  obtain ⟨hd, hp, r1, r2, r3, r4, r6, r7, r8⟩ := parseFixed_ranges ⟨data, foreign⟩ hlen
  rw [hp] at h
  simp only [Res.bind_ok] at h
  have hb12 := UInt8.toNat_lt hd.b12
  by_cases h5 : hd.b12.toNat / 16 < 5
  · simp only [h5, if_true, pure_eq_ok, Res.ok.injEq] at h
    subst h; cases he
  simp only [h5, if_false] at h
  by_cases hds : hd.b12.toNat / 16 * 4 > data.length
  · simp only [hds, if_true, pure_eq_ok, Res.ok.injEq] at h
    subst h; cases he
  simp only [hds, if_false] at h
  unfold Sl.sliceTo at h
  rw [Sl.slice_ok (Nat.zero_le _) (by simp only; omega), Sl.sliceFrom_ok (by simp only; omega),
      Sl.slice_ok (by omega) (by simp only; omega)] at h
  simp only [Res.bind_ok, Sl.len] at h
  generalize hloop : optLoop Variant.fixed _ _ _ = rl at h
  cases rl with
  | err e => cases h
  | panic k => cases h
  | ok out =>
    simp only [Res.bind_ok, pure_eq_ok, Res.ok.injEq] at h
    subst h
    simp only at he
    have hw := optLoop_wf ((List.take (hd.b12.toNat / 16 * 4 - 20) (List.drop 20 data)).length)
      { multipath := if Variant.fixed.resetMultipath = true then false else old.multipath }
      ⟨List.take (hd.b12.toNat / 16 * 4 - 20) (List.drop 20 data), List.drop (hd.b12.toNat / 16 * 4) data ++ foreign⟩
      out (Nat.le_refl _) pre_nil rfl hloop he
    obtain ⟨hw1, hw2⟩ := hw
    simp only [optsWire, Nat.zero_add, List.length_take, List.length_drop] at hw2
    simp only [wf, rangesB, Bool.and_eq_true, decide_eq_true_eq]
    refine ⟨⟨⟨⟨⟨⟨⟨⟨⟨⟨r1, r2⟩, r3⟩, r4⟩, by omega⟩, r6⟩, r8⟩, r7⟩, hw1⟩, ?_⟩, ?_⟩
    · omega
    · omega

end Gp.Tcp
