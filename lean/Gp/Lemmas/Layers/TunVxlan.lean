import Gp.Lemmas.Layers.Tun
/-
  Helper lemmas for engine `ltun`, part 2: VXLAN.  A panic-free, capacity-free specification of the
  decoder (`spec`), the refinement theorem `decode_cases`, the pure encoder `encode`, the refinement
  of SerializeTo (`serialize_spec`) and decode ∘ encode = id on well-formed layers.
-/
namespace Gp.Tun.Vxlan
open Gp Gp.Tun Gp.SBuf

/-- What DecodeFromBytes computes (`none` = "vxlan packet too small"). -/
def spec (data : Bytes) : Option Layer :=
  match data with
  | d0 :: d1 :: d2 :: d3 :: d4 :: d5 :: d6 :: d7 :: rest =>
    some { contents := [d0, d1, d2, d3, d4, d5, d6, d7], payload := rest,
           validIDFlag := decide (d0.toNat &&& 0x08 > 0), vni := be32 0 d4 d5 d6,
           gbpExtension := decide (d0.toNat &&& 0x80 > 0),
           gbpDontLearn := decide (d1.toNat &&& 0x40 > 0),
           gbpApplied := decide (d1.toNat &&& 0x80 > 0),
           gbpGroupPolicyID := be16 d2 d3 }
  | _ => none

/-- **The transcription of DecodeFromBytes computes the specification** — for every receiver value,
    every capacity and every content of the spare capacity. -/
theorem decode_cases (old : Layer) (data foreign : Bytes) :
    decode old data foreign =
      match spec data with
      | some l => .ok (l, false)
      | none => .err "vxlan packet too small" := by
  match data with
  | [] => rfl
  | [_] => rfl
  | [_, _] => rfl
  | [_, _, _] => rfl
  | [_, _, _, _] => rfl
  | [_, _, _, _, _] => rfl
  | [_, _, _, _, _, _] => rfl
  | [_, _, _, _, _, _, _] => rfl
  | d0 :: d1 :: d2 :: d3 :: d4 :: d5 :: d6 :: d7 :: rest =>
    have h1 : sliceCap (d0 :: d1 :: d2 :: d3 :: d4 :: d5 :: d6 :: d7 :: rest) foreign 4 7 = .ok [d4, d5, d6] :=
      sliceCap_mid [d0, d1, d2, d3] [d4, d5, d6] (d7 :: rest) foreign
    have h2 : sliceCap (d0 :: d1 :: d2 :: d3 :: d4 :: d5 :: d6 :: d7 :: rest) foreign 2 4 = .ok [d2, d3] :=
      sliceCap_mid [d0, d1] [d2, d3] (d4 :: d5 :: d6 :: d7 :: rest) foreign
    have h3 : sliceCap (d0 :: d1 :: d2 :: d3 :: d4 :: d5 :: d6 :: d7 :: rest) foreign 0 8
        = .ok [d0, d1, d2, d3, d4, d5, d6, d7] :=
      sliceCap_mid [] [d0, d1, d2, d3, d4, d5, d6, d7] rest foreign
    have h4 : sliceFrom (d0 :: d1 :: d2 :: d3 :: d4 :: d5 :: d6 :: d7 :: rest) 8 = .ok rest :=
      sliceFrom_append [d0, d1, d2, d3, d4, d5, d6, d7] rest
    have hlen : ¬ (d0 :: d1 :: d2 :: d3 :: d4 :: d5 :: d6 :: d7 :: rest).length < 8 := by
      simp only [List.length_cons]; omega
    unfold decode
    rw [if_neg hlen, h1, h2, h3, h4]
    rfl

/-! ### the pure encoder -/

/-- the VXLAN header of `l`. -/
def encode (l : Layer) : Bytes :=
  [byte0 l] ++ [byte1 l] ++ putBe16 l.gbpGroupPolicyID ++ putBe32 ((l.vni <<< 8) % 4294967296)

/-- SerializeTo returns an error exactly when the VNI does not fit 24 bits. -/
def serErr (l : Layer) : Bool := decide (l.vni ≥ 16777216)

theorem encode_length (l : Layer) : (encode l).length = 8 := rfl

/-- **SerializeTo computes the pure encoder**: for every layer value, every option set and every
    buffer satisfying the C18 invariant the call does not panic, does not touch the receiver, returns
    the error exactly for an oversized VNI, and otherwise leaves `encode l ++ old contents`. -/
theorem serialize_spec (l : Layer) (b : SBuf) (opts : Opts) (hb : Gp.C18.Inv b) :
    ∃ b', serializeTo l b opts = .ok { buf := b', layer := l, err := serErr l } ∧ Gp.C18.Inv b' ∧
      (serErr l = false → contents b' = encode l ++ contents b) := by
  have hm := prepend_win_in_mem b 8 hb
  have hn : (prepend b 8).2.n = 8 := rfl
  obtain ⟨c1, e1, w1⟩ := put_wrote _ _ _ [] [byte0 l] (wrote_init (prepend b 8).1 (prepend b 8).2)
    (by rw [hn]; simp) hm
  obtain ⟨c2, e2, w2⟩ := put_wrote _ _ c1 _ [byte1 l] w1 (by rw [hn]; simp) hm
  obtain ⟨c3, e3, w3⟩ := put_wrote _ _ c2 _ (putBe16 l.gbpGroupPolicyID) w2 (by rw [hn]; simp [putBe16_length]) hm
  unfold serializeTo
  simp only [e1, e2, e3, Res.bind_ok]
  by_cases hv : l.vni ≥ 16777216
  · rw [if_pos hv]
    refine ⟨c3.b, ?_, ?_, ?_⟩
    · simp [serErr, hv]; rfl
    · exact wrote_inv b 8 c3 _ hb w3 (by simp [putBe16_length])
    · intro h; simp [serErr, hv] at h
  · rw [if_neg hv]
    obtain ⟨c4, e4, w4⟩ := put_wrote _ _ c3 _ (putBe32 ((l.vni <<< 8) % 4294967296)) w3
      (by rw [hn]; simp [putBe16_length, putBe32_length]) hm
    simp only [e4, Res.bind_ok]
    have hall := wrote_all b 8 c4 _ w4 (by simp [putBe16_length, putBe32_length])
    have hsp := step_prepend_spec b ([] ++ [byte0 l] ++ [byte1 l] ++ putBe16 l.gbpGroupPolicyID ++
      putBe32 ((l.vni <<< 8) % 4294967296)) hb
    refine ⟨c4.b, ?_, ?_, ?_⟩
    · simp [serErr, hv]; rfl
    · rw [hall]; exact hsp.1
    · intro _; rw [hall, hsp.2]; rfl

/-! ### well-formed layers, field equivalence, decode ∘ encode -/

/-- In-range field values: the VNI fits 24 bits, the policy id 16 bits. -/
def wf (l : Layer) : Prop := l.vni < 16777216 ∧ l.gbpGroupPolicyID < 65536

instance (l : Layer) : Decidable (wf l) := by unfold wf; infer_instance

/-- `≈`: every public field except BaseLayer's Contents/Payload. -/
def sameFields (a b : Layer) : Prop :=
  a.validIDFlag = b.validIDFlag ∧ a.vni = b.vni ∧ a.gbpExtension = b.gbpExtension ∧
  a.gbpDontLearn = b.gbpDontLearn ∧ a.gbpApplied = b.gbpApplied ∧
  a.gbpGroupPolicyID = b.gbpGroupPolicyID

instance (a b : Layer) : Decidable (sameFields a b) := by unfold sameFields; infer_instance

theorem byte0_bits (l : Layer) :
    decide ((byte0 l).toNat &&& 0x08 > 0) = l.validIDFlag ∧
    decide ((byte0 l).toNat &&& 0x80 > 0) = l.gbpExtension := by
  unfold byte0
  cases l.validIDFlag <;> cases l.gbpExtension <;> decide

theorem byte1_bits (l : Layer) :
    decide ((byte1 l).toNat &&& 0x40 > 0) = l.gbpDontLearn ∧
    decide ((byte1 l).toNat &&& 0x80 > 0) = l.gbpApplied := by
  unfold byte1
  cases l.gbpDontLearn <;> cases l.gbpApplied <;> decide

/-- decode ∘ encode = id on well-formed layers, over any payload. -/
theorem spec_encode (l : Layer) (p : Bytes) (h : wf l) :
    spec (encode l ++ p) = some { l with contents := encode l, payload := p } := by
  obtain ⟨hv, hg⟩ := h
  have e : encode l ++ p =
      byte0 l :: byte1 l :: u8 (l.gbpGroupPolicyID / 256) :: u8 l.gbpGroupPolicyID ::
      u8 ((l.vni <<< 8) % 4294967296 / 16777216) :: u8 ((l.vni <<< 8) % 4294967296 / 65536) ::
      u8 ((l.vni <<< 8) % 4294967296 / 256) :: u8 ((l.vni <<< 8) % 4294967296) :: p := rfl
  rw [e]
  simp only [spec]
  rw [(byte0_bits l).1, (byte0_bits l).2, (byte1_bits l).1, (byte1_bits l).2,
    be16_putBe16 _ hg, vni_roundtrip _ hv]
  rfl

/-- every layer the specification produces is well-formed. -/
theorem spec_wf (data : Bytes) (l : Layer) (h : spec data = some l) : wf l := by
  match data, h with
  | d0 :: d1 :: d2 :: d3 :: d4 :: d5 :: d6 :: d7 :: rest, h =>
    simp only [spec, Option.some.injEq] at h
    rw [← h]
    exact ⟨be32_zero_lt d4 d5 d6, be16_lt d2 d3⟩

/-- the decoded layer partitions its input. -/
theorem spec_partitions (data : Bytes) (l : Layer) (h : spec data = some l) :
    l.contents ++ l.payload = data ∧ l.contents.length = 8 := by
  match data, h with
  | d0 :: d1 :: d2 :: d3 :: d4 :: d5 :: d6 :: d7 :: rest, h =>
    simp only [spec, Option.some.injEq] at h
    rw [← h]
    exact ⟨rfl, rfl⟩

/-- A history of DecodeFromBytes calls on ONE layer object: each input is decoded into whatever
    the previous call left behind.  After a successful call that is the decoded layer; after a
    failed call the object is whatever `afterErr` (ARBITRARY) says. -/
def decodeSeq (afterErr : Layer → Bytes → Layer) : Layer → List (Bytes × Bytes) → List (Res (Layer × Bool))
  | _, [] => []
  | cur, (data, foreign) :: rest =>
    let r := decode cur data foreign
    let next := match r with
      | .ok (l, _) => l
      | _ => afterErr cur data
    r :: decodeSeq afterErr next rest

end Gp.Tun.Vxlan
