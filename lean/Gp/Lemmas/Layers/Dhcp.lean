import Gp.Model.Layers.Dhcp
import Gp.Lemmas.SBuf
/-
  Helper lemmas for engine `ldhcp` (DHCPv4 codec), part 1: decoding.  Core Lean only.

  Section 1 holds the *definitions* that occur in the statements of the property theorems
  (functional specification of DecodeFromBytes on the visible bytes); the rest is proof machinery.
-/
namespace Gp.Dhcp
open Gp Gp.SBuf Gp.Gen.Dhcp

/-! ## 1. Definitions used in property statements -/

/-- Byte `i` of a byte string (0 for a missing byte; only used where the byte exists). -/
def byteAt (v : Bytes) (i : Nat) : UInt8 := v.getD i 0

/-- Big-endian 16-bit value at offset `i`. -/
def u16At (v : Bytes) (i : Nat) : Nat := be16 (byteAt v i) (byteAt v (i + 1))

/-- Big-endian 32-bit value at offset `i`. -/
def u32At (v : Bytes) (i : Nat) : Nat :=
  be32 (byteAt v i) (byteAt v (i + 1)) (byteAt v (i + 2)) (byteAt v (i + 3))

/-- The hardware-address length byte. -/
def hwLenOf (v : Bytes) : Nat := (byteAt v 2).toNat

/-- The receiver after the first four assignments of DecodeFromBytes (what the hardware-length error
    return leaves behind). -/
def hdr3 (old : DHCPv4) (v : Bytes) : DHCPv4 :=
  { old with options := [], operation := (byteAt v 0).toNat, hardwareType := (byteAt v 1).toNat,
             hardwareLen := hwLenOf v }

/-- The receiver after all fixed-header assignments (what the bad-magic error return leaves behind). -/
def hdrAll (old : DHCPv4) (v : Bytes) : DHCPv4 :=
  { hdr3 old v with relayHops := (byteAt v 3).toNat, xid := u32At v 4, secs := u16At v 8, flags := u16At v 10,
                    clientIP := (v.drop 12).take 4, yourClientIP := (v.drop 16).take 4,
                    nextServerIP := (v.drop 20).take 4, relayAgentIP := (v.drop 24).take 4,
                    clientHWAddr := (v.drop 28).take (hwLenOf v), serverName := (v.drop 44).take 64,
                    file := (v.drop 108).take 128 }

/-- The fixed code's receiver when it enters the option loop: every field assigned from the input. -/
def hdrFixed (v : Bytes) : DHCPv4 := { hdrAll DHCPv4.fresh v with contents := v, payload := [] }

/-- `DHCPOption{}.decode(bs)` on the visible bytes `bs`. -/
def optSpec (bs : Bytes) : DHCPOption × Bool :=
  match bs with
  | [] => (DHCPOption.zero, true)
  | t :: rest =>
    if t.toNat = dhcpOptPad ∨ t.toNat = dhcpOptEnd then ({ typ := t.toNat, length := 0, data := [] }, false)
    else match rest with
      | [] => ({ typ := t.toNat, length := 0, data := [] }, true)
      | l :: body =>
        if l.toNat > body.length then ({ typ := t.toNat, length := l.toNat, data := [] }, true)
        else ({ typ := t.toNat, length := l.toNat, data := body.take l.toNat }, false)

/-- The option loop on the visible option bytes, consuming from the front: the options appended and
    whether an option failed to decode.  `fuel` ≥ |bs| is never exhausted. -/
def parseOpts : Nat → Bytes → List DHCPOption × Bool
  | 0, _ => ([], false)
  | fuel + 1, bs =>
    if bs.length = 0 then ([], false)
    else
      let r := optSpec bs
      if r.2 then ([], true)
      else if r.1.typ = dhcpOptEnd then ([], false)
      else
        let rest := parseOpts fuel (bs.drop (if r.1.typ = dhcpOptPad then 1 else r.1.length + 2))
        (r.1 :: rest.1, rest.2)

/-- What `DHCPv4.DecodeFromBytes` (fixed code) computes from the receiver and the visible bytes. -/
def decSpec (old : DHCPv4) (v : Bytes) : DecOut DHCPv4 :=
  if v.length < 240 then { layer := old, trunc := true, err := true }
  else if hwLenOf v > 16 then { layer := hdr3 old v, trunc := false, err := true }
  else if u32At v 236 ≠ dhcpMagic then { layer := hdrAll old v, trunc := false, err := true }
  else
    let r := parseOpts (v.length - 240) (v.drop 240)
    { layer := { hdrFixed v with options := r.1 }, trunc := false, err := r.2 }

/-- The same for the pinned code: Contents is assigned only behind the option loop, Payload never. -/
def decSpecOrig (old : DHCPv4) (v : Bytes) : DecOut DHCPv4 :=
  if v.length < 240 then { layer := old, trunc := true, err := true }
  else if hwLenOf v > 16 then { layer := hdr3 old v, trunc := false, err := true }
  else if u32At v 236 ≠ dhcpMagic then { layer := hdrAll old v, trunc := false, err := true }
  else if v.length ≤ 240 then { layer := hdrAll old v, trunc := false, err := false }
  else
    let r := parseOpts (v.length - 240) (v.drop 240)
    if r.2 then { layer := { hdrAll old v with options := r.1 }, trunc := false, err := true }
    else { layer := { hdrAll old v with options := r.1, contents := v }, trunc := false, err := false }

/-! ## 2. Go slices -/

theorem GSlice.slice_ok (s : GSlice) (a b : Nat) (hab : a ≤ b) (hb : b ≤ s.len) :
    s.slice a b = .ok { vis := (s.vis.drop a).take (b - a), tail := s.vis.drop b ++ s.tail } := by
  unfold GSlice.slice GSlice.cap
  unfold GSlice.len at hb
  have h1 : a ≤ b ∧ b ≤ s.vis.length + s.tail.length := ⟨hab, by omega⟩
  rw [if_pos h1]
  have ha : a ≤ s.vis.length := by omega
  rw [List.drop_append_of_le_length ha, List.drop_append_of_le_length hb,
    List.take_append_of_le_length (by rw [List.length_drop]; omega)]

theorem GSlice.sliceFrom_ok (s : GSlice) (a : Nat) (ha : a ≤ s.len) :
    s.sliceFrom a = .ok { vis := s.vis.drop a, tail := s.tail } := by
  unfold GSlice.sliceFrom; rw [if_pos ha]

theorem GSlice.index_ok (s : GSlice) (i : Nat) (h : i < s.len) :
    s.index i = .ok (byteAt s.vis i) := by
  unfold GSlice.index Gp.index byteAt
  have h' : i < s.vis.length := h
  simp [List.getD_eq_getElem?_getD, h']

/-- The two-byte window `[i, i+2)` of a long enough byte string. -/
theorem two_bytes (v : Bytes) (i : Nat) (h : i + 2 ≤ v.length) :
    (v.drop i).take 2 = [byteAt v i, byteAt v (i + 1)] := by
  have h0 : i < v.length := by omega
  have h1 : i + 1 < v.length := by omega
  have e : v.drop i = v[i] :: v[i+1] :: v.drop (i+2) := by
    rw [List.drop_eq_getElem_cons h0, List.drop_eq_getElem_cons h1]
  rw [e]
  simp only [byteAt, List.take_succ_cons, List.take_zero, List.getD_eq_getElem?_getD,
    List.getElem?_eq_getElem h0, List.getElem?_eq_getElem h1, Option.getD_some]

/-- The four-byte window `[i, i+4)`. -/
theorem four_bytes (v : Bytes) (i : Nat) (h : i + 4 ≤ v.length) :
    (v.drop i).take 4 = [byteAt v i, byteAt v (i + 1), byteAt v (i + 2), byteAt v (i + 3)] := by
  have h0 : i < v.length := by omega
  have h1 : i + 1 < v.length := by omega
  have h2 : i + 2 < v.length := by omega
  have h3 : i + 3 < v.length := by omega
  have e : v.drop i = v[i] :: v[i+1] :: v[i+2] :: v[i+3] :: v.drop (i+4) := by
    rw [List.drop_eq_getElem_cons h0, List.drop_eq_getElem_cons h1, List.drop_eq_getElem_cons h2,
      List.drop_eq_getElem_cons h3]
  rw [e]
  simp only [byteAt, List.take_succ_cons, List.take_zero, List.getD_eq_getElem?_getD,
    List.getElem?_eq_getElem h0, List.getElem?_eq_getElem h1, List.getElem?_eq_getElem h2,
    List.getElem?_eq_getElem h3, Option.getD_some]

theorem uint16_two (a b : UInt8) (t : Bytes) : uint16 { vis := [a, b], tail := t } = .ok (be16 a b) := by
  simp [uint16, GSlice.index, Gp.index, bind, Res.bind, pure]

theorem uint32be_four (a b c d : UInt8) (t : Bytes) :
    uint32be { vis := [a, b, c, d], tail := t } = .ok (be32 a b c d) := by
  simp [uint32be, GSlice.index, Gp.index, bind, Res.bind, pure]

theorem uint16_vis (v t : Bytes) (i : Nat) (h : i + 2 ≤ v.length) :
    uint16 { vis := (v.drop i).take 2, tail := t } = .ok (u16At v i) := by
  rw [two_bytes v i h]; exact uint16_two _ _ _

theorem uint32be_vis (v t : Bytes) (i : Nat) (h : i + 4 ≤ v.length) :
    uint32be { vis := (v.drop i).take 4, tail := t } = .ok (u32At v i) := by
  rw [four_bytes v i h]; exact uint32be_four _ _ _ _ _

/-! ## 3. One option -/

theorem byteAt_cons_zero (a : UInt8) (l : Bytes) : byteAt (a :: l) 0 = a := rfl
theorem byteAt_cons_one (a b : UInt8) (l : Bytes) : byteAt (a :: b :: l) 1 = b := rfl

/-- `DHCPOption{}.decode` returns (never panics) with exactly `optSpec` of the visible bytes,
    whatever lies between len and cap. -/
theorem opt_decode_spec (vis tail : Bytes) :
    DHCPOption.zero.decode { vis := vis, tail := tail } = .ok (optSpec vis) := by
  match vis with
  | [] => rfl
  | [t] =>
    by_cases hpe : t.toNat = dhcpOptPad ∨ t.toNat = dhcpOptEnd
    · simp [DHCPOption.decode, optSpec, GSlice.len, GSlice.index, Gp.index, hpe, DHCPOption.zero, pure]
    · simp [DHCPOption.decode, optSpec, GSlice.len, GSlice.index, Gp.index, hpe, DHCPOption.zero, pure]
  | t :: l :: body =>
    by_cases hpe : t.toNat = dhcpOptPad ∨ t.toNat = dhcpOptEnd
    · simp [DHCPOption.decode, optSpec, GSlice.len, GSlice.index, Gp.index, hpe, DHCPOption.zero, pure]
    · by_cases hm : l.toNat > body.length
      · simp [DHCPOption.decode, optSpec, GSlice.len, GSlice.index, Gp.index, hpe, DHCPOption.zero, pure,
          GSlice.sliceFrom, hm]
        intro h; omega
      · have hc : 2 + l.toNat ≤ body.length + 1 + 1 + tail.length := by omega
        have ht : List.take l.toNat (body ++ tail) = List.take l.toNat body :=
          List.take_append_of_le_length (by omega)
        simp [DHCPOption.decode, optSpec, GSlice.len, GSlice.index, Gp.index, hpe, DHCPOption.zero, pure,
          GSlice.sliceFrom, hm, GSlice.slice, GSlice.cap, hc, ht]

/-- An option that decoded without error consumed at least one byte and lies inside the input. -/
theorem optSpec_progress (bs : Bytes) :
    (if (optSpec bs).1.typ = dhcpOptPad then 1 else (optSpec bs).1.length + 2) ≥ 1 := by
  split <;> omega

/-! ## 4. The option loop -/

/-- The option loop with enough fuel returns (never panics, never runs out of fuel): it appends
    exactly `parseOpts` of the visible option bytes behind `start`, whatever lies beyond len. -/
theorem optLoop_spec : ∀ (fuel : Nat) (d : DHCPv4) (vis tail : Bytes) (start : Nat),
    vis.length - start ≤ fuel →
    optLoop fuel d { vis := vis, tail := tail } start =
      .ok ({ d with options := d.options ++ (parseOpts fuel (vis.drop start)).1 }, (parseOpts fuel (vis.drop start)).2) := by
  intro fuel
  induction fuel with
  | zero =>
    intro d vis tail start h
    unfold optLoop
    have : ¬ (start < GSlice.len { vis := vis, tail := tail }) := by simp [GSlice.len]; omega
    simp only [this, not_false_eq_true, if_true, parseOpts, List.append_nil]
  | succ fuel ih =>
    intro d vis tail start h
    unfold optLoop
    by_cases hs : start < GSlice.len { vis := vis, tail := tail }
    · have hs' : start < vis.length := hs
      simp only [hs, not_true_eq_false, if_false]
      rw [GSlice.sliceFrom_ok _ start (Nat.le_of_lt hs)]
      simp only [opt_decode_spec]
      have hne : ¬ ((vis.drop start).length = 0) := by rw [List.length_drop]; omega
      rw [parseOpts, if_neg hne]
      simp only
      generalize hr : optSpec (vis.drop start) = r
      obtain ⟨o, e⟩ := r
      simp only
      cases e with
      | true => simp
      | false =>
        simp only [Bool.false_eq_true, if_false]
        by_cases he : o.typ = dhcpOptEnd
        · simp [he]
        · simp only [he, if_false]
          by_cases hp : o.typ = dhcpOptPad
          · simp only [hp, if_true]
            rw [ih _ vis tail (start + 1) (by omega)]
            simp [List.drop_drop, List.append_assoc]
          · simp only [hp, if_false]
            rw [ih _ vis tail (start + (o.length + 2)) (by omega)]
            simp [List.drop_drop, List.append_assoc]
    · have hs' : ¬ start < vis.length := hs
      have hz : (vis.drop start).length = 0 := by rw [List.length_drop]; omega
      simp only [hs, not_false_eq_true, if_true]
      rw [parseOpts, if_pos hz]
      simp

/-! ## 5. DecodeFromBytes = its specification on the visible bytes -/

theorem hdrFixed_eq (old : DHCPv4) (v : Bytes) :
    { hdrAll old v with contents := v, payload := [] } = hdrFixed v := rfl

theorem decode_spec_fixed (old : DHCPv4) (vis tail : Bytes) :
    old.decodeFromBytes .fixed { vis := vis, tail := tail } = .ok (decSpec old vis) := by
  unfold DHCPv4.decodeFromBytes decSpec
  by_cases hl : vis.length < 240
  · simp only [GSlice.len, hl, if_true]
  · have hl' : ¬ (GSlice.len { vis := vis, tail := tail } < 240) := hl
    rw [if_neg hl', if_neg hl]
    have L : GSlice.len { vis := vis, tail := tail } = vis.length := rfl
    rw [GSlice.index_ok _ 0 (by omega), Res.bind_ok, GSlice.index_ok _ 1 (by omega), Res.bind_ok,
      GSlice.index_ok _ 2 (by omega), Res.bind_ok]
    simp only
    by_cases hh : hwLenOf vis > 16
    · have : (byteAt vis 2).toNat > 16 := hh
      rw [if_pos this, if_pos hh]; rfl
    · have hh' : ¬ (byteAt vis 2).toNat > 16 := hh
      rw [if_neg hh', if_neg hh]
      have hmod : (28 + (byteAt vis 2).toNat) % 256 = 28 + (byteAt vis 2).toNat := Nat.mod_eq_of_lt (by omega)
      rw [GSlice.index_ok _ 3 (by omega), Res.bind_ok,
        GSlice.slice_ok _ 4 8 (by omega) (by omega), Res.bind_ok, uint32be_vis vis _ 4 (by omega), Res.bind_ok,
        GSlice.slice_ok _ 8 10 (by omega) (by omega), Res.bind_ok, uint16_vis vis _ 8 (by omega), Res.bind_ok,
        GSlice.slice_ok _ 10 12 (by omega) (by omega), Res.bind_ok, uint16_vis vis _ 10 (by omega), Res.bind_ok,
        GSlice.slice_ok _ 12 16 (by omega) (by omega), Res.bind_ok,
        GSlice.slice_ok _ 16 20 (by omega) (by omega), Res.bind_ok,
        GSlice.slice_ok _ 20 24 (by omega) (by omega), Res.bind_ok,
        GSlice.slice_ok _ 24 28 (by omega) (by omega), Res.bind_ok]
      simp only [hmod]
      rw [GSlice.slice_ok _ 28 (28 + (byteAt vis 2).toNat) (by omega) (by omega), Res.bind_ok,
        GSlice.slice_ok _ 44 108 (by omega) (by omega), Res.bind_ok,
        GSlice.slice_ok _ 108 236 (by omega) (by omega), Res.bind_ok,
        GSlice.slice_ok _ 236 240 (by omega) (by omega), Res.bind_ok, uint32be_vis vis _ 236 (by omega), Res.bind_ok]
      simp only [Nat.add_sub_cancel_left]
      by_cases hm : u32At vis 236 ≠ dhcpMagic
      · rw [if_pos hm, if_pos hm]; rfl
      · rw [if_neg hm, if_neg hm]
        by_cases h240 : vis.length ≤ 240
        · have e240 : vis.length - 240 = 0 := by omega
          simp only [GSlice.len, h240, if_true, e240, parseOpts, pure]
          rfl
        · simp only [GSlice.len, h240, if_false]
          rw [GSlice.sliceFrom_ok _ 240 (by simp [GSlice.len]; omega), Res.bind_ok]
          simp only [List.length_drop]
          rw [optLoop_spec _ _ _ _ 0 (by simp), Res.bind_ok]
          simp only [List.drop_zero, List.nil_append]
          cases (parseOpts (vis.length - 240) (List.drop 240 vis)).2 <;> rfl
theorem decode_spec_orig (old : DHCPv4) (vis tail : Bytes) :
    old.decodeFromBytes .orig { vis := vis, tail := tail } = .ok (decSpecOrig old vis) := by
  unfold DHCPv4.decodeFromBytes decSpecOrig
  by_cases hl : vis.length < 240
  · simp only [GSlice.len, hl, if_true]
  · have hl' : ¬ (GSlice.len { vis := vis, tail := tail } < 240) := hl
    rw [if_neg hl', if_neg hl]
    have L : GSlice.len { vis := vis, tail := tail } = vis.length := rfl
    rw [GSlice.index_ok _ 0 (by omega), Res.bind_ok, GSlice.index_ok _ 1 (by omega), Res.bind_ok,
      GSlice.index_ok _ 2 (by omega), Res.bind_ok]
    simp only
    by_cases hh : hwLenOf vis > 16
    · have : (byteAt vis 2).toNat > 16 := hh
      rw [if_pos this, if_pos hh]; rfl
    · have hh' : ¬ (byteAt vis 2).toNat > 16 := hh
      rw [if_neg hh', if_neg hh]
      have hmod : (28 + (byteAt vis 2).toNat) % 256 = 28 + (byteAt vis 2).toNat := Nat.mod_eq_of_lt (by omega)
      rw [GSlice.index_ok _ 3 (by omega), Res.bind_ok,
        GSlice.slice_ok _ 4 8 (by omega) (by omega), Res.bind_ok, uint32be_vis vis _ 4 (by omega), Res.bind_ok,
        GSlice.slice_ok _ 8 10 (by omega) (by omega), Res.bind_ok, uint16_vis vis _ 8 (by omega), Res.bind_ok,
        GSlice.slice_ok _ 10 12 (by omega) (by omega), Res.bind_ok, uint16_vis vis _ 10 (by omega), Res.bind_ok,
        GSlice.slice_ok _ 12 16 (by omega) (by omega), Res.bind_ok,
        GSlice.slice_ok _ 16 20 (by omega) (by omega), Res.bind_ok,
        GSlice.slice_ok _ 20 24 (by omega) (by omega), Res.bind_ok,
        GSlice.slice_ok _ 24 28 (by omega) (by omega), Res.bind_ok]
      simp only [hmod]
      rw [GSlice.slice_ok _ 28 (28 + (byteAt vis 2).toNat) (by omega) (by omega), Res.bind_ok,
        GSlice.slice_ok _ 44 108 (by omega) (by omega), Res.bind_ok,
        GSlice.slice_ok _ 108 236 (by omega) (by omega), Res.bind_ok,
        GSlice.slice_ok _ 236 240 (by omega) (by omega), Res.bind_ok, uint32be_vis vis _ 236 (by omega), Res.bind_ok]
      simp only [Nat.add_sub_cancel_left]
      by_cases hm : u32At vis 236 ≠ dhcpMagic
      · rw [if_pos hm, if_pos hm]; rfl
      · rw [if_neg hm, if_neg hm]
        by_cases h240 : vis.length ≤ 240
        · have e240 : vis.length - 240 = 0 := by omega
          simp only [GSlice.len, h240, if_true, e240, parseOpts, pure]
          rfl
        · simp only [GSlice.len, h240, if_false]
          rw [GSlice.sliceFrom_ok _ 240 (by simp [GSlice.len]; omega), Res.bind_ok]
          simp only [List.length_drop]
          rw [optLoop_spec _ _ _ _ 0 (by simp), Res.bind_ok]
          simp only [List.drop_zero, List.nil_append]
          cases (parseOpts (vis.length - 240) (List.drop 240 vis)).2 <;> rfl

/-! ## 6. Progress and fuel -/

/-- bytes an option decoded by `optSpec` occupies -/
def optWidth (o : DHCPOption) : Nat := if o.typ = dhcpOptPad then 1 else o.length + 2

/-- An option decoded without error occupies at least one byte and lies inside the input; its Data
    has exactly Length bytes (none for Pad/End). -/
theorem optSpec_ok (bs : Bytes) (h : (optSpec bs).2 = false) :
    1 ≤ optWidth (optSpec bs).1 ∧
    ((optSpec bs).1.typ = dhcpOptPad ∨ (optSpec bs).1.typ = dhcpOptEnd → 1 ≤ bs.length ∧ (optSpec bs).1.length = 0 ∧ (optSpec bs).1.data = []) ∧
    (¬ ((optSpec bs).1.typ = dhcpOptPad ∨ (optSpec bs).1.typ = dhcpOptEnd) → optWidth (optSpec bs).1 ≤ bs.length ∧
      (optSpec bs).1.data.length = (optSpec bs).1.length) ∧
    (optSpec bs).1.typ < 256 ∧ (optSpec bs).1.length < 256 := by
  unfold optWidth
  match bs with
  | [] => simp [optSpec] at h
  | [t] =>
    have ht := t.toNat_lt
    by_cases hpe : t.toNat = dhcpOptPad ∨ t.toNat = dhcpOptEnd
    · simp [optSpec, hpe]; split <;> omega
    · simp [optSpec, hpe] at h
  | t :: l :: body =>
    have ht := t.toNat_lt
    have hl := l.toNat_lt
    by_cases hpe : t.toNat = dhcpOptPad ∨ t.toNat = dhcpOptEnd
    · simp [optSpec, hpe]; split <;> omega
    · by_cases hm : l.toNat > body.length
      · simp [optSpec, hpe, hm] at h
      · have hp : ¬ t.toNat = dhcpOptPad := fun x => hpe (Or.inl x)
        have he : ¬ t.toNat = dhcpOptEnd := fun x => hpe (Or.inr x)
        simp [optSpec, hm, hp, he]
        omega

theorem parseOpts_fuel : ∀ (fuel : Nat) (bs : Bytes) (extra : Nat), bs.length ≤ fuel →
    parseOpts (fuel + extra) bs = parseOpts fuel bs := by
  intro fuel
  induction fuel with
  | zero =>
    intro bs extra h
    cases extra with
    | zero => rfl
    | succ e =>
      have : bs.length = 0 := by omega
      simp [parseOpts, this]
  | succ fuel ih =>
    intro bs extra h
    have e : fuel + 1 + extra = (fuel + extra) + 1 := by omega
    rw [e, parseOpts, parseOpts]
    by_cases hz : bs.length = 0
    · simp [hz]
    · simp only [hz, if_false]
      by_cases he : (optSpec bs).2 = true
      · simp [he]
      · have he' : (optSpec bs).2 = false := by simpa using he
        obtain ⟨w1, -, -, -⟩ := optSpec_ok bs he'
        unfold optWidth at w1
        simp only [he', Bool.false_eq_true, if_false]
        rw [ih _ extra (by rw [List.length_drop]; omega)]


/-! ## 7. Consequences of the specification -/

/-- Whether the fixed decoder fails depends on the bytes only. -/
theorem decSpec_err_indep (old old' : DHCPv4) (v : Bytes) :
    (decSpec old v).err = (decSpec old' v).err ∧ (decSpec old v).trunc = (decSpec old' v).trunc := by
  unfold decSpec
  split
  · exact ⟨rfl, rfl⟩
  · split
    · exact ⟨rfl, rfl⟩
    · split <;> exact ⟨rfl, rfl⟩

/-- On success the fixed decoder's layer does not depend on the receiver. -/
theorem decSpec_layer_indep (old old' : DHCPv4) (v : Bytes) (h : (decSpec old v).err = false) :
    (decSpec old v).layer = (decSpec old' v).layer := by
  unfold decSpec at h ⊢
  split
  · rename_i h1; rw [if_pos h1] at h; cases h
  · rename_i h1
    rw [if_neg h1] at h
    split
    · rename_i h2; rw [if_pos h2] at h; cases h
    · rename_i h2
      rw [if_neg h2] at h
      split
      · rename_i h3; rw [if_pos h3] at h; cases h
      · rfl

/-- A successfully decoded layer: Contents is the whole input, Payload is empty, the truncation flag
    is not set. -/
theorem decSpec_ok_base (old : DHCPv4) (v : Bytes) (h : (decSpec old v).err = false) :
    (decSpec old v).layer.contents = v ∧ (decSpec old v).layer.payload = [] ∧ (decSpec old v).trunc = false ∧
    240 ≤ v.length ∧ hwLenOf v ≤ 16 ∧ u32At v 236 = dhcpMagic ∧
    (decSpec old v).layer = { hdrFixed v with options := (parseOpts (v.length - 240) (v.drop 240)).1 } ∧
    (parseOpts (v.length - 240) (v.drop 240)).2 = false := by
  unfold decSpec at h ⊢
  by_cases h1 : v.length < 240
  · rw [if_pos h1] at h; cases h
  · rw [if_neg h1] at h ⊢
    by_cases h2 : hwLenOf v > 16
    · rw [if_pos h2] at h; cases h
    · rw [if_neg h2] at h ⊢
      by_cases h3 : u32At v 236 ≠ dhcpMagic
      · rw [if_pos h3] at h; cases h
      · rw [if_neg h3] at h ⊢
        have h3' : u32At v 236 = dhcpMagic := Decidable.of_not_not h3
        have g1 : 240 ≤ v.length := Nat.le_of_not_lt h1
        have g2 : hwLenOf v ≤ 16 := Nat.le_of_not_lt h2
        simp only at h
        exact ⟨rfl, rfl, rfl, g1, g2, h3', rfl, h⟩

/-- The observable view used by the property statements, written out. -/
theorem decodeDhcp_eq (old : DHCPv4) (data foreign : Bytes) :
    decodeDhcp old data foreign =
      if (decSpec old data).err then .err "dhcpv4" else .ok ((decSpec old data).layer, (decSpec old data).trunc) := by
  unfold decodeDhcp; rw [decode_spec_fixed]

/-- The registered decoder function = fresh DecodeFromBytes + AddLayer + NextDecoder(Payload). -/
theorem decodeDHCPv4Fn_eq (data foreign : Bytes) :
    decodeDHCPv4Fn .fixed { vis := data, tail := foreign } =
      .ok (if (decSpec DHCPv4.fresh data).err then
             ({ acts := if (decSpec DHCPv4.fresh data).trunc then [Act.setTruncated] else [], tail := .fail }, none)
           else ({ acts := (if (decSpec DHCPv4.fresh data).trunc then [Act.setTruncated] else []) ++ [.addLayer LayerTypeDHCPv4],
                   tail := .nextLayerType LayerTypePayload }, some (decSpec DHCPv4.fresh data).layer)) := by
  unfold decodeDHCPv4Fn
  rw [decode_spec_fixed, Res.bind_ok]
  generalize decSpec DHCPv4.fresh data = r
  obtain ⟨l, t, e⟩ := r
  cases t <;> cases e <;> rfl

/-- One DecodeLayers call of a parser over {DHCPv4}, written out. -/
theorem dlp_eq (obj : DHCPv4) (data foreign : Bytes) :
    dlpDecodeLayers .fixed obj { vis := data, tail := foreign } =
      .ok (if (decSpec obj data).err then
             { layer := (decSpec obj data).layer, decoded := [], trunc := (decSpec obj data).trunc, code := 1 }
           else { layer := (decSpec obj data).layer, decoded := [LayerTypeDHCPv4], trunc := (decSpec obj data).trunc, code := 0 }) := by
  unfold dlpDecodeLayers
  rw [decode_spec_fixed, Res.bind_ok]
  by_cases he : (decSpec obj data).err = true
  · rw [if_pos he, if_pos he]; rfl
  · have he' : (decSpec obj data).err = false := by simpa using he
    rw [if_neg he, if_neg he]
    have hp : (decSpec obj data).layer.layerPayload.length = 0 := by
      unfold DHCPv4.layerPayload; rw [(decSpec_ok_base obj data he').2.1]; rfl
    rw [if_pos hp]; rfl

end Gp.Dhcp
