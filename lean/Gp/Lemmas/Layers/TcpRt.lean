import Gp.Lemmas.Layers.TcpSer
import Gp.Lemmas.Layers.TcpDecode
/-
  `ltcp` part 5: serialize → decode round trip (exact evaluation of the decoder on the bytes
  the serializer produces).
-/
namespace Gp.Tcp
open Gp Gp.Gen.Tcp


theorem u8_toNat (n : Nat) : (u8 n).toNat = n % 256 := by
  simp [u8]

theorem be16_put (n : Nat) (h : n < 65536) : be16 (u8 (n / 256)) (u8 n) = n := by
  simp only [be16, u8_toNat]; omega

theorem be32_put (n : Nat) (h : n < 4294967296) :
    be32 (u8 (n / 16777216)) (u8 (n / 65536)) (u8 (n / 256)) (u8 n) = n := by
  simp only [be32, u8_toNat]; omega

def b2n (b : Bool) : Nat := if b then 1 else 0

theorem flags_eq (l : Layer) : flagsAndOffset l = ((l.dataOffset % 256) * 4096) % 65536 +
    b2n l.fin + 2 * b2n l.syn + 4 * b2n l.rst + 8 * b2n l.psh + 16 * b2n l.ackF + 32 * b2n l.urg +
    64 * b2n l.ece + 128 * b2n l.cwr + 256 * b2n l.ns := by
  unfold flagsAndOffset b2n
  cases l.fin <;> cases l.syn <;> cases l.rst <;> cases l.psh <;> cases l.ackF <;> cases l.urg <;>
    cases l.ece <;> cases l.cwr <;> cases l.ns <;> simp

theorem b2n_le (b : Bool) : b2n b ≤ 1 := by cases b <;> simp [b2n]
theorem b2n_eq (b : Bool) : (b2n b == 1) = b := by cases b <;> simp [b2n]

theorem flag_bits (l : Layer) (hd : l.dataOffset < 16) :
    let f := flagsAndOffset l
    (f % 256) / 1 % 2 = b2n l.fin ∧ (f % 256) / 2 % 2 = b2n l.syn ∧ (f % 256) / 4 % 2 = b2n l.rst ∧
    (f % 256) / 8 % 2 = b2n l.psh ∧ (f % 256) / 16 % 2 = b2n l.ackF ∧ (f % 256) / 32 % 2 = b2n l.urg ∧
    (f % 256) / 64 % 2 = b2n l.ece ∧ (f % 256) / 128 % 2 = b2n l.cwr ∧ (f / 256 % 256) / 1 % 2 = b2n l.ns ∧
    (f / 256 % 256) / 16 = l.dataOffset := by
  have := b2n_le l.fin; have := b2n_le l.syn; have := b2n_le l.rst; have := b2n_le l.psh
  have := b2n_le l.ackF; have := b2n_le l.urg; have := b2n_le l.ece; have := b2n_le l.cwr; have := b2n_le l.ns
  simp only [flags_eq]
  refine ⟨?_, ?_, ?_, ?_, ?_, ?_, ?_, ?_, ?_, ?_⟩ <;> omega

end Gp.Tcp
