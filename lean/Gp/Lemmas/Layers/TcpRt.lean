import Gp.Lemmas.Layers.TcpSer
import Gp.Lemmas.Layers.TcpDecode
/-
  `ltcp` part 5: serialize → decode round trip (exact evaluation of the decoder on the bytes
  the serializer produces).
-/
namespace Gp.Tcp
open Gp Gp.Gen.Tcp


theorem u8_toNat (n : Nat) : (u8 n).toNat = n % 256 := by
  simp [u8]

theorem be16_put (n : Nat) (h : n < 65536) : be16 (u8 (n / 256)) (u8 n) = n := by
  simp only [be16, u8_toNat]; omega

theorem be32_put (n : Nat) (h : n < 4294967296) :
    be32 (u8 (n / 16777216)) (u8 (n / 65536)) (u8 (n / 256)) (u8 n) = n := by
  simp only [be32, u8_toNat]; omega

def b2n (b : Bool) : Nat := if b then 1 else 0

theorem flags_eq (l : Layer) : flagsAndOffset l = ((l.dataOffset % 256) * 4096) % 65536 +
    b2n l.fin + 2 * b2n l.syn + 4 * b2n l.rst + 8 * b2n l.psh + 16 * b2n l.ackF + 32 * b2n l.urg +
    64 * b2n l.ece + 128 * b2n l.cwr + 256 * b2n l.ns := by
  unfold flagsAndOffset b2n
  cases l.fin <;> cases l.syn <;> cases l.rst <;> cases l.psh <;> cases l.ackF <;> cases l.urg <;>
    cases l.ece <;> cases l.cwr <;> cases l.ns <;> simp

theorem b2n_le (b : Bool) : b2n b ≤ 1 := by cases b <;> simp [b2n]
theorem b2n_eq (b : Bool) : (b2n b == 1) = b := by cases b <;> simp [b2n]

theorem flag_bits (l : Layer) (hd : l.dataOffset < 16) :
    let f := flagsAndOffset l
    (f % 256) / 1 % 2 = b2n l.fin ∧ (f % 256) / 2 % 2 = b2n l.syn ∧ (f % 256) / 4 % 2 = b2n l.rst ∧
    (f % 256) / 8 % 2 = b2n l.psh ∧ (f % 256) / 16 % 2 = b2n l.ackF ∧ (f % 256) / 32 % 2 = b2n l.urg ∧
    (f % 256) / 64 % 2 = b2n l.ece ∧ (f % 256) / 128 % 2 = b2n l.cwr ∧ (f / 256 % 256) / 1 % 2 = b2n l.ns ∧
    (f / 256 % 256) / 16 = l.dataOffset := by
  have := b2n_le l.fin; have := b2n_le l.syn; have := b2n_le l.rst; have := b2n_le l.psh
  have := b2n_le l.ackF; have := b2n_le l.urg; have := b2n_le l.ece; have := b2n_le l.cwr; have := b2n_le l.ns
  simp only [flags_eq]
  refine ⟨?_, ?_, ?_, ?_, ?_, ?_, ?_, ?_, ?_, ?_⟩ <;> omega


theorem parseFixed_cons20 (a0 a1 a2 a3 a4 a5 a6 a7 a8 a9 a10 a11 a12 a13 a14 a15 a16 a17 a18 a19 : UInt8) (rest e : Bytes) :
    parseFixed ⟨a0 :: a1 :: a2 :: a3 :: a4 :: a5 :: a6 :: a7 :: a8 :: a9 :: a10 :: a11 :: a12 :: a13 :: a14 :: a15 :: a16 :: a17 :: a18 :: a19 :: rest, e⟩ =
      .ok { srcPort := be16 a0 a1, sPort := [a0, a1], dstPort := be16 a2 a3, dPort := [a2, a3],
            seq := be32 a4 a5 a6 a7, ack := be32 a8 a9 a10 a11, b12 := a12, b13 := a13,
            window := be16 a14 a15, checksum := be16 a16 a17, urgent := be16 a18 a19 } := by
  have L : ∀ k, k ≤ 20 → k ≤ (⟨a0 :: a1 :: a2 :: a3 :: a4 :: a5 :: a6 :: a7 :: a8 :: a9 :: a10 :: a11 :: a12 :: a13 :: a14 :: a15 :: a16 :: a17 :: a18 :: a19 :: rest, e⟩ : Sl).vis.length := by
    intro k hk; simp only [List.length_cons]; omega
  unfold parseFixed
  rw [Sl.slice_ok (by omega) (L 2 (by omega)), Sl.slice_ok (by omega) (L 4 (by omega)),
      Sl.slice_ok (by omega) (L 8 (by omega)), Sl.slice_ok (by omega) (L 12 (by omega)),
      Sl.slice_ok (by omega) (L 16 (by omega)), Sl.slice_ok (by omega) (L 18 (by omega)),
      Sl.slice_ok (by omega) (L 20 (by omega))]
  simp [u16, u32, Sl.idx, index]

/-- numeric field ranges of the Go types (DataOffset is a 4-bit field on the wire) -/
def Ranges (l : Layer) : Prop :=
  l.srcPort < 65536 ∧ l.dstPort < 65536 ∧ l.seq < 4294967296 ∧ l.ack < 4294967296 ∧
  l.dataOffset < 16 ∧ l.window < 65536 ∧ l.urgent < 65536

instance (l : Layer) : Decidable (Ranges l) := by unfold Ranges; exact inferInstance

/-- the fixed-header reads applied to the fixed-header stores give the fields back -/
theorem parseFixed_fixed20 (l : Layer) (x y : UInt8) (tail e : Bytes) (hr : Ranges l) :
    parseFixed ⟨fixed20 l x y ++ tail, e⟩ =
      .ok { srcPort := l.srcPort, sPort := putBe16 l.srcPort, dstPort := l.dstPort, dPort := putBe16 l.dstPort,
            seq := l.seq, ack := l.ack, b12 := u8 (flagsAndOffset l / 256), b13 := u8 (flagsAndOffset l),
            window := l.window, checksum := be16 x y, urgent := l.urgent } := by
  obtain ⟨h1, h2, h3, h4, h5, h6, h7⟩ := hr
  simp only [fixed20, putBe16, putBe32, List.cons_append, List.nil_append, List.append_assoc]
  rw [parseFixed_cons20]
  simp only [be16_put _ h1, be16_put _ h2, be32_put _ h3, be32_put _ h4, be16_put _ h6, be16_put _ h7]

theorem bit_eq (b : UInt8) (d : Nat) : bit b d = (b.toNat / d % 2 == 1) := rfl

/-- DecodeFromBytes on (fixed header of `l`) ++ option area ++ payload: the fixed fields come
    back, Contents/Payload are split at DataOffset*4 and the option loop runs on the area. -/
theorem decode_fixed20 (old l : Layer) (x y : UInt8) (area payload e : Bytes)
    (hr : Ranges l) (hD : 5 ≤ l.dataOffset) (ha : area.length + 20 = l.dataOffset * 4) :
    decodeFromBytes Variant.fixed old ⟨fixed20 l x y ++ (area ++ payload), e⟩ =
      (optLoop Variant.fixed area.length { multipath := false } ⟨area, payload ++ e⟩ >>= fun r =>
        .ok { layer := { old with
                srcPort := l.srcPort, sPort := putBe16 l.srcPort, dstPort := l.dstPort, dPort := putBe16 l.dstPort,
                seq := l.seq, ack := l.ack, dataOffset := l.dataOffset,
                fin := l.fin, syn := l.syn, rst := l.rst, psh := l.psh, ackF := l.ackF, urg := l.urg,
                ece := l.ece, cwr := l.cwr, ns := l.ns, window := l.window, checksum := be16 x y,
                urgent := l.urgent, contents := fixed20 l x y ++ area, payload := payload,
                options := r.st.options, padding := r.st.padding, multipath := r.st.multipath },
              trunc := r.trunc, err := r.err }) := by
  have hD16 : l.dataOffset < 16 := hr.2.2.2.2.1
  have hfb := flag_bits l hD16
  simp only at hfb
  obtain ⟨f0, f1, f2, f3, f4, f5, f6, f7, f8, f9⟩ := hfb
  have hlen : (fixed20 l x y ++ (area ++ payload)).length = 20 + area.length + payload.length := by
    simp [fixed20_length]; omega
  unfold decodeFromBytes
  simp only [Sl.len, hlen]
  rw [if_neg (by omega), parseFixed_fixed20 l x y _ e hr]
  simp only [Res.bind_ok, bit_eq, u8_toNat, f0, f1, f2, f3, f4, f5, f6, f7, f8, f9, b2n_eq]
  rw [if_neg (by omega), if_neg (by omega)]
  have h20 : (fixed20 l x y).length = 20 := fixed20_length l x y
  have hvis : ∀ k, k ≤ 20 + area.length + payload.length →
      k ≤ (⟨fixed20 l x y ++ (area ++ payload), e⟩ : Sl).vis.length := fun k hk => by rw [hlen]; exact hk
  rw [show Variant.fixed.resetMultipath = true from rfl]
  unfold Sl.sliceTo
  rw [Sl.slice_ok (Nat.zero_le _) (hvis _ (by omega)), Sl.sliceFrom_ok (hvis _ (by omega)),
      Sl.slice_ok (by omega) (hvis _ (by omega))]
  simp only [Res.bind_ok, Sl.len]
  have e1 : ((fixed20 l x y ++ (area ++ payload)).drop 0).take (l.dataOffset * 4 - 0) = fixed20 l x y ++ area := by
    rw [List.drop_zero, Nat.sub_zero, ← List.append_assoc, List.take_left' (by simp [h20]; omega)]
  have e2 : (fixed20 l x y ++ (area ++ payload)).drop (l.dataOffset * 4) = payload := by
    rw [← List.append_assoc, List.drop_left' (by simp [h20]; omega)]
  have e3 : ((fixed20 l x y ++ (area ++ payload)).drop 20).take (l.dataOffset * 4 - 20) = area := by
    rw [List.drop_left' h20, List.take_left' (by omega)]
  simp only [e1, e2, e3, if_true]
  rfl

theorem optStep_nop (st : OptSt) (rest e : Bytes) :
    optStep Variant.fixed st ⟨1 :: rest, e⟩ =
      .ok (.cont (pushOpt st { optionType := 1, optionLength := 1 }) 1) := by
  simp [optStep, Sl.idx, index, tCPOptionKindEndList, tCPOptionKindNop]

theorem optStep_eol (st : OptSt) (rest e : Bytes) :
    optStep Variant.fixed st ⟨0 :: rest, e⟩ =
      .ok (.stop { st := pushOpt { st with padding := rest } { optionType := 0, optionLength := 1 },
                   trunc := false, err := false }) := by
  have h : (⟨0 :: rest, e⟩ : Sl).sliceFrom 1 = .ok ⟨rest, e⟩ := by
    rw [Sl.sliceFrom_ok (by simp)]; simp
  simp [optStep, Sl.idx, index, tCPOptionKindEndList, h]

theorem optStep_generic (st : OptSt) (k n : Nat) (d rest e : Bytes)
    (hk : k < 256) (hk0 : k ≠ 0) (hk1 : k ≠ 1) (hk30 : k ≠ 30) (hn : n = d.length + 2) (hn256 : n < 256) :
    optStep Variant.fixed st ⟨u8 k :: u8 n :: (d ++ rest), e⟩ =
      .ok (.cont (pushOpt st { optionType := k, optionLength := n, optionData := d }) n) := by
  have hk' : (u8 k).toNat = k := by rw [u8_toNat]; omega
  have hn' : (u8 n).toNat = n := by rw [u8_toNat]; omega
  have hs : (⟨u8 k :: u8 n :: (d ++ rest), e⟩ : Sl).slice 2 n = .ok ⟨d, rest ++ e⟩ := by
    rw [Sl.slice_ok (by omega) (by simp; omega)]
    simp [hn]
  simp [optStep, genericOpt, Sl.idx, index, Sl.len, hk', hn', tCPOptionKindEndList, tCPOptionKindNop,
    tCPOptionKindMultipathTCP, hk0, hk1, hk30, hs]
  rw [if_neg (by omega), if_neg (by omega), if_neg (by omega)]

/-- option list + padding as the decoder can leave them (no MPTCP): every option normal, an
    End-of-list option only in last position, padding only behind an End-of-list option. -/
def wfOpts : List TcpOption → Bytes → Bool
  | [], pad => decide (pad = [])
  | o :: os, pad => optNorm o && (if o.optionType = 0 then decide (os = []) else wfOpts os pad)

/-- what the option loop leaves behind on `encOpts os ++ pad` -/
def loopSpec : List TcpOption → OptSt → Bytes → OptSt
  | [], st, _ => st
  | o :: os, st, pad =>
    if o.optionType = 0 then pushOpt { st with padding := pad } o else loopSpec os (pushOpt st o) pad

theorem optNorm_elim {o : TcpOption} (h : optNorm o = true) :
    o.optionType < 256 ∧ o.optionType ≠ 30 ∧
    o = { optionType := o.optionType, optionLength := o.optionLength, optionData := o.optionData } ∧
    (isOneByte o = true → o.optionLength = 1 ∧ o.optionData = []) ∧
    (isOneByte o = false → o.optionLength = o.optionData.length + 2 ∧ o.optionLength < 256) := by
  unfold optNorm at h
  simp only [Bool.and_eq_true, decide_eq_true_eq] at h
  obtain ⟨⟨⟨h1, h2⟩, h3⟩, h4⟩ := h
  refine ⟨h1, h2, h3, fun hb => ?_, fun hb => ?_⟩
  · rw [hb] at h4
    simpa using h4
  · rw [hb] at h4
    simpa using h4

/-- The option loop run on the serializer's encoding of a well-formed option list + padding
    yields exactly that list and padding. -/
theorem optLoop_enc : ∀ (os : List TcpOption) (st : OptSt) (pad e : Bytes) (fuel : Nat),
    wfOpts os pad = true → (encOpts true os ++ pad).length ≤ fuel →
    optLoop Variant.fixed fuel st ⟨encOpts true os ++ pad, e⟩ =
      .ok { st := loopSpec os st pad, trunc := false, err := false } := by
  intro os
  induction os with
  | nil =>
    intro st pad e fuel hw _
    have : pad = [] := by simpa [wfOpts] using hw
    subst this
    unfold optLoop
    simp [encOpts, loopSpec]
  | cons o os ih =>
    intro st pad e fuel hw hf
    simp only [wfOpts, Bool.and_eq_true] at hw
    obtain ⟨hno, hrest⟩ := hw
    obtain ⟨h256, h30, hdef, hone, hmulti⟩ := optNorm_elim hno
    have hlenpos : 0 < (encOpts true (o :: os) ++ pad).length := by
      simp [encOpts, encOpt]; split <;> simp <;> omega
    cases fuel with
    | zero => omega
    | succ fuel =>
      unfold optLoop
      rw [if_neg (by simp only; omega)]
      simp only
      by_cases h0 : o.optionType = 0
      · -- End of list: must be the last option
        simp only [h0, if_true, decide_eq_true_eq] at hrest
        subst hrest
        have hob : isOneByte o = true := by simp [isOneByte, h0]
        obtain ⟨hl1, hd⟩ := hone hob
        have eo : o = { optionType := 0, optionLength := 1 } := by rw [hdef, h0, hl1, hd]
        have : encOpts true [o] ++ pad = 0 :: pad := by
          simp [encOpts, encOpt, hob, h0]; decide
        rw [this, optStep_eol]
        simp only [loopSpec, h0, if_true, eo]
      · simp only [h0, if_false] at hrest
        by_cases h1 : o.optionType = 1
        · have hob : isOneByte o = true := by simp [isOneByte, h1]
          obtain ⟨hl1, hd⟩ := hone hob
          have eo : o = { optionType := 1, optionLength := 1 } := by rw [hdef, h1, hl1, hd]
          have henc : encOpts true (o :: os) ++ pad = 1 :: (encOpts true os ++ pad) := by
            simp [encOpts, encOpt, hob, h1]; decide
          rw [henc, optStep_nop]
          simp only [List.length_cons, List.drop_succ_cons, List.drop_zero]
          rw [if_neg (by omega)]
          rw [ih _ pad e fuel hrest (by rw [henc] at hf; simp only [List.length_cons] at hf; omega)]
          rw [← eo]
          simp only [loopSpec, h0, if_false]
        · have hob : isOneByte o = false := by simp [isOneByte, h0, h1]
          obtain ⟨hl, hl256⟩ := hmulti hob
          have eo : o = { optionType := o.optionType, optionLength := o.optionData.length + 2, optionData := o.optionData } := by
            rw [← hl]; exact hdef
          have henc : encOpts true (o :: os) ++ pad =
              u8 o.optionType :: u8 (o.optionData.length + 2) :: (o.optionData ++ (encOpts true os ++ pad)) := by
            have : (o.optionData.length + 2) % 256 = o.optionData.length + 2 := by omega
            simp [encOpts, encOpt, hob, this]
          rw [henc, optStep_generic st o.optionType (o.optionData.length + 2) o.optionData _ e h256 h0 h1 h30 rfl (by omega)]
          simp only
          have hdrop : (u8 o.optionType :: u8 (o.optionData.length + 2) :: (o.optionData ++ (encOpts true os ++ pad))).drop
              (o.optionData.length + 2) = encOpts true os ++ pad := by
            simp [List.drop_succ_cons]
          rw [if_neg (by simp only [List.length_cons, List.length_append]; omega), hdrop]
          rw [ih _ pad e fuel hrest (by
            rw [henc] at hf; simp only [List.length_cons, List.length_append] at hf ⊢; omega)]
          simp only [loopSpec, h0, if_false]
          rw [← eo]

theorem loopSpec_eq : ∀ (os : List TcpOption) (st : OptSt) (pad : Bytes),
    wfOpts os pad = true → st.padding = [] →
    loopSpec os st pad = { options := st.options ++ os, padding := pad, multipath := st.multipath } := by
  intro os
  induction os with
  | nil =>
    intro st pad hw hp
    have : pad = [] := by simpa [wfOpts] using hw
    subst this
    cases st; simp_all [loopSpec]
  | cons o os ih =>
    intro st pad hw hp
    simp only [wfOpts, Bool.and_eq_true] at hw
    obtain ⟨_, hrest⟩ := hw
    by_cases h0 : o.optionType = 0
    · simp only [h0, if_true, decide_eq_true_eq] at hrest
      subst hrest
      simp [loopSpec, h0, pushOpt]
    · simp only [h0, if_false] at hrest
      simp only [loopSpec, h0, if_false]
      rw [ih (pushOpt st o) pad hrest (by simpa [pushOpt] using hp)]
      simp [pushOpt]

theorem fold_lt (c : Nat) : Cksum.fold c < 65536 := by
  unfold Cksum.fold Gp.Gen.Cksum.foldChecksum
  simp only
  omega

theorem l4checksum_lt {p : Option Pseudo} {d : Bytes} {c : Nat} (h : l4checksum p d = some c) : c < 65536 := by
  unfold l4checksum at h
  split at h
  · cases h
  · split at h
    · cases h
    · cases h; exact fold_lt _

def endsWithEol : List TcpOption → Bool
  | [] => false
  | [o] => o.optionType == 0
  | _ :: o :: os => endsWithEol (o :: os)

theorem wfOpts_pad_nonempty : ∀ (os : List TcpOption) (pad : Bytes),
    wfOpts os pad = true → pad ≠ [] → endsWithEol os = true := by
  intro os
  induction os with
  | nil => intro pad hw hp; simp [wfOpts] at hw; exact absurd hw hp
  | cons o os ih =>
    intro pad hw hp
    simp only [wfOpts, Bool.and_eq_true] at hw
    obtain ⟨_, hrest⟩ := hw
    by_cases h0 : o.optionType = 0
    · simp only [h0, if_true, decide_eq_true_eq] at hrest
      subst hrest
      simp [endsWithEol, h0]
    · simp only [h0, if_false] at hrest
      cases os with
      | nil => simp [wfOpts] at hrest; exact absurd hrest hp
      | cons o' os' => simp only [endsWithEol]; exact ih pad hrest hp

theorem wfOpts_of_eol : ∀ (os : List TcpOption) (pad pad' : Bytes),
    wfOpts os pad = true → endsWithEol os = true → wfOpts os pad' = true := by
  intro os
  induction os with
  | nil => intro pad pad' _ he; simp [endsWithEol] at he
  | cons o os ih =>
    intro pad pad' hw he
    simp only [wfOpts, Bool.and_eq_true] at hw ⊢
    obtain ⟨hno, hrest⟩ := hw
    refine ⟨hno, ?_⟩
    by_cases h0 : o.optionType = 0
    · simpa [h0] using hrest
    · simp only [h0, if_false] at hrest ⊢
      cases os with
      | nil => simp [endsWithEol, h0] at he
      | cons o' os' => exact ih pad pad' hrest (by simpa [endsWithEol] using he)

/-- field-equivalence `≈` of C06: everything but Contents/Payload (BaseLayer), the private port
    slices behind TransportFlow, the Multipath flag derived from the options, and the checksum
    pseudo-header configuration -/
def Layer.core (l : Layer) : Layer :=
  { l with contents := [], payload := [], sPort := [], dPort := [], multipath := false, pseudo := none }

theorem fixLengths_fields (l : Layer) :
    (fixLengths l).options = l.options ∧ (fixLengths l).srcPort = l.srcPort ∧ (fixLengths l).dstPort = l.dstPort ∧
    (fixLengths l).seq = l.seq ∧ (fixLengths l).ack = l.ack ∧ (fixLengths l).window = l.window ∧
    (fixLengths l).urgent = l.urgent ∧ (fixLengths l).checksum = l.checksum ∧
    (fixLengths l).padding = (if optLen l.options % 4 ≠ 0 then SBuf.zeros (4 - optLen l.options % 4) else l.padding) ∧
    (fixLengths l).dataOffset = (((fixLengths l).padding.length + optLen l.options + 20) / 4) % 256 := by
  unfold fixLengths
  by_cases h : optLen l.options % 4 ≠ 0 <;> simp [h]

/-- Round trip of a layer without MPTCP options: decoding what SerializeTo(FixLengths) wrote
    gives back the (length-fixed, checksummed) layer, the payload, no error, no truncation. -/
theorem roundtrip_plain (l : Layer) (payload e : Bytes) (c : Nat) (csum : Bool)
    (hr : Ranges l) (hck : l.checksum < 65536)
    (hw : wfOpts l.options l.padding = true)
    (hal : (optLen l.options + l.padding.length) % 4 = 0)
    (h60 : 20 + optLen l.options + l.padding.length ≤ 60)
    (hc : serCk (fixLengths l) true csum payload = some c) :
    decodeFromBytes Variant.fixed fresh ⟨hdrBytes (fixLengths l) true c ++ payload, e⟩ =
      .ok { layer := { fixLengths l with
                        checksum := c, contents := hdrBytes (fixLengths l) true c, payload := payload,
                        sPort := putBe16 l.srcPort, dPort := putBe16 l.dstPort, multipath := false,
                        pseudo := none },
            trunc := false, err := false } := by
  obtain ⟨r1, r2, r3, r4, r5, r6, r7⟩ := hr
  obtain ⟨hopt, f1, f2, f3, f4, f5, f6, f7, hpad, hdo0⟩ := fixLengths_fields l
  -- the checksum value fits 16 bits
  have hc16 : c < 65536 := by
    unfold serCk at hc
    cases csum with
    | false =>
      simp only [Bool.false_eq_true, if_false, Option.some.injEq] at hc
      omega
    | true => simp only [if_true] at hc; exact l4checksum_lt hc
  -- the length-fixed layer
  have hfacts : (optLen l.options + (fixLengths l).padding.length) % 4 = 0 ∧
      20 + optLen l.options + (fixLengths l).padding.length ≤ 60 ∧
      wfOpts l.options (fixLengths l).padding = true := by
    rw [hpad]
    by_cases h4 : optLen l.options % 4 ≠ 0
    · have hpne : l.padding ≠ [] := by
        intro hp; rw [hp] at hal; simp at hal; omega
      have hpl : 0 < l.padding.length := List.length_pos_iff.mpr hpne
      rw [if_pos h4]
      simp only [SBuf.zeros, List.length_replicate]
      refine ⟨by omega, by omega, ?_⟩
      exact wfOpts_of_eol _ _ _ hw (wfOpts_pad_nonempty _ _ hw hpne)
    · rw [if_neg h4]
      exact ⟨hal, h60, hw⟩
  obtain ⟨hal', h60', hw'⟩ := hfacts
  have hdo : (fixLengths l).dataOffset = ((fixLengths l).padding.length + optLen l.options + 20) / 4 := by
    rw [hdo0]; omega
  have hrf : Ranges (fixLengths l) := ⟨by omega, by omega, by omega, by omega, by omega, by omega, by omega⟩
  have harea : (encOpts true l.options ++ (fixLengths l).padding).length + 20 = (fixLengths l).dataOffset * 4 := by
    simp only [List.length_append, encOpts_length]; omega
  -- decode
  have hh : hdrBytes (fixLengths l) true c =
      fixed20 (fixLengths l) (u8 (c / 256)) (u8 c) ++ (encOpts true l.options ++ (fixLengths l).padding) := by
    simp [hdrBytes, hopt]
  rw [hh, List.append_assoc,
    decode_fixed20 fresh (fixLengths l) _ _ _ payload e hrf (by omega) harea]
  rw [optLoop_enc l.options _ _ _ _ hw' (Nat.le_refl _)]
  simp only [Res.bind_ok]
  rw [loopSpec_eq l.options _ _ hw' rfl]
  simp only [List.nil_append, be16_put c hc16, f1, f2]
  simp only [fresh, hopt]

/-! ## The well-formedness predicate of C06 and what the serializer looks at -/

def optsWire : List TcpOption → Nat
  | [] => 0
  | o :: os => wireLen o + optsWire os

/-- `wfOpts` with MPTCP options admitted -/
def wfOptsG : List TcpOption → Bytes → Bool
  | [], pad => decide (pad = [])
  | o :: os, pad => optWf o && (if o.optionType = 0 then decide (os = []) else wfOptsG os pad)

def rangesB (l : Layer) : Bool :=
  decide (l.srcPort < 65536) && decide (l.dstPort < 65536) && decide (l.seq < 4294967296) &&
  decide (l.ack < 4294967296) && decide (l.dataOffset < 16) && decide (l.window < 65536) &&
  decide (l.urgent < 65536) && decide (l.checksum < 65536)

/-- C06 `wf`: every field in the range of its wire encoding; options in the decoder's normal form
    (End-of-list only last, padding only behind it); the header a whole number of 32-bit words of
    at most 60 bytes. -/
def wf (l : Layer) : Bool :=
  rangesB l && wfOptsG l.options l.padding &&
  decide ((optsWire l.options + l.padding.length) % 4 = 0) &&
  decide (20 + optsWire l.options + l.padding.length ≤ 60)

def noMptcp (l : Layer) : Bool := l.options.all (fun o => decide (o.optionType ≠ 30))

theorem rangesB_elim {l : Layer} (h : rangesB l = true) : Ranges l ∧ l.checksum < 65536 := by
  simp only [rangesB, Bool.and_eq_true, decide_eq_true_eq] at h
  obtain ⟨⟨⟨⟨⟨⟨⟨a, b⟩, c⟩, d⟩, e⟩, f⟩, g⟩, i⟩ := h
  exact ⟨⟨a, b, c, d, e, f, g⟩, i⟩

theorem plain_of_noMptcp : ∀ (os : List TcpOption) (pad : Bytes),
    os.all (fun o => decide (o.optionType ≠ 30)) = true → wfOptsG os pad = true →
    wfOpts os pad = true ∧ optsWire os = optLen os := by
  intro os
  induction os with
  | nil => intro pad _ hw; exact ⟨by simpa [wfOptsG, wfOpts] using hw, rfl⟩
  | cons o os ih =>
    intro pad hn hw
    simp only [List.all_cons, Bool.and_eq_true, decide_eq_true_eq] at hn
    obtain ⟨hn0, hns⟩ := hn
    simp only [wfOptsG, Bool.and_eq_true] at hw
    obtain ⟨ho, hrest⟩ := hw
    have hon : optNorm o = true := by
      simp only [optWf, Bool.or_eq_true] at ho
      rcases ho with ho | ho
      · exact ho
      · simp [mptcpNorm, hn0] at ho
    have hwl : wireLen o = (if isOneByte o then 1 else 2 + o.optionData.length) := by
      simp [wireLen, hn0]
    by_cases h0 : o.optionType = 0
    · simp only [h0, if_true, decide_eq_true_eq] at hrest
      subst hrest
      refine ⟨by simp [wfOpts, hon, h0], ?_⟩
      simp [optsWire, optLen, hwl]
    · simp only [h0, if_false] at hrest
      obtain ⟨i1, i2⟩ := ih pad hns hrest
      refine ⟨by simp [wfOpts, hon, h0, i1], ?_⟩
      simp [optsWire, optLen, hwl, i2]

/-- the fields SerializeTo reads -/
def Layer.ser (l : Layer) : Layer :=
  { l with contents := [], payload := [], sPort := [], dPort := [], multipath := false }

theorem fixLengths_ser (l : Layer) : (fixLengths l).ser = fixLengths l.ser := by
  unfold fixLengths Layer.ser
  by_cases h : optLen l.options % 4 ≠ 0 <;> simp [h]

theorem hdrBytes_ser (l : Layer) (fix : Bool) (c : Nat) : hdrBytes l.ser fix c = hdrBytes l fix c := by
  rfl

theorem fixedLayer_ser (l : Layer) (fix : Bool) : (fixedLayer l fix).ser = fixedLayer l.ser fix := by
  cases fix <;> simp [fixedLayer, fixLengths_ser]

theorem serCk_ser (l : Layer) (fix csum : Bool) (p : Bytes) : serCk l.ser fix csum p = serCk l fix csum p := by
  unfold serCk
  rw [hdrBytes_ser]
  rfl

/-- the bytes SerializeTo produces (ignoring the mutated layer) -/
def serBytes (r : Res (Bytes × Layer)) : Res Bytes :=
  match r with
  | .ok (b, _) => .ok b
  | .err e => .err e
  | .panic k => .panic k

/-- the output bytes depend only on the fields SerializeTo reads -/
theorem serSpec_bytes_ser (l : Layer) (fix csum : Bool) (p : Bytes) :
    serBytes (serSpec l.ser fix csum p) = serBytes (serSpec l fix csum p) := by
  unfold serSpec
  rw [← fixedLayer_ser, serCk_ser]
  cases serCk (fixedLayer l fix) fix csum p with
  | none => rfl
  | some c => simp only [serBytes, hdrBytes_ser]

end Gp.Tcp
