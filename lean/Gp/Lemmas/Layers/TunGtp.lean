import Gp.Model.Layers.TunGtp
import Gp.Lemmas.Layers.Tun
/-
  Helper lemmas for engine `ltun`, part 5: GTPv1-U, decode side.  A panic-free, capacity-free
  specification (`specExts`, `spec`) and the refinement theorem `decode_cases`.

  The extension header chain is read on the view that starts at the TYPE byte of a header (index
  cIndex-1 of the Go code): `type, length, content…, next type, length, …`; a header of length byte
  `n` occupies `4n` bytes of that view.
-/
namespace Gp.Tun.Gtp
open Gp Gp.Tun

/-! ### the specification -/

/-- the extension header chain on the view starting at a (non-zero, or first) type byte; returns the
    headers and the number of bytes of the view they occupy. -/
def specExts : Nat → Bytes → Res (List Ext × Nat)
  | 0, _ => .panic .explicit
  | fuel + 1, t :: ln :: rest =>
    if ln.toNat = 0 then errExt
    else if rest.length + 1 < ln.toNat * 4 then errExt
    else
      match rest.drop (ln.toNat * 4 - 2) with
      | nt :: r' =>
        if nt.toNat ≠ 0 then
          match specExts fuel (nt :: r') with
          | .ok (es, m) => .ok ({ typ := t.toNat, content := rest.take (ln.toNat * 4 - 2) } :: es, ln.toNat * 4 + m)
          | .err e => .err e
          | .panic k => .panic k
        else .ok ([{ typ := t.toNat, content := rest.take (ln.toNat * 4 - 2) }], ln.toNat * 4)
      | [] => errExt
  | _ + 1, _ => errSmall

/-- the optional part: `(headers, bytes they occupy after offset 12)`. -/
def specOptExts (eFlag : Bool) (fuel : Nat) (x : UInt8) (r1 : Bytes) : Res (List Ext × Nat) :=
  if eFlag then
    if x.toNat == 0 then .ok ([], 0) else specExts fuel (x :: r1)
  else .ok ([], 0)

/-- What DecodeFromBytes (tree with ltun-4/5/6) computes on `data`. -/
def spec (data : Bytes) : Res (Layer × Bool) :=
  match data with
  | d0 :: d1 :: m0 :: m1 :: t0 :: t1 :: t2 :: t3 :: r0 =>
    if r0.length < be16 m0 m1 then errSmall
    else
      let sFlag := decide ((d0.toNat >>> 1) &&& 0x01 = 1)
      let pnFlag := decide (d0.toNat &&& 0x01 = 1)
      let eFlag := decide ((d0.toNat >>> 2) &&& 0x01 = 1)
      if sFlag || pnFlag || eFlag then
        match r0 with
        | s0 :: s1 :: n :: x :: r1 =>
          match specOptExts eFlag (r0.length + 8) x r1 with
          | .ok (es, m) =>
            .ok ({ contents := (d0 :: d1 :: m0 :: m1 :: t0 :: t1 :: t2 :: t3 :: r0).take (12 + m),
                   payload := r1.drop m,
                   version := (d0.toNat >>> 5) &&& 0x07, protocolType := (d0.toNat >>> 4) &&& 0x01,
                   reserved := (d0.toNat >>> 3) &&& 0x01,
                   extensionHeaderFlag := eFlag, sequenceNumberFlag := sFlag, npduFlag := pnFlag,
                   messageType := d1.toNat, messageLength := be16 m0 m1, teid := be32 t0 t1 t2 t3,
                   sequenceNumber := if sFlag then be16 s0 s1 else 0,
                   npdu := if pnFlag then n.toNat else 0,
                   extensionHeaders := es }, false)
          | .err e => .err e
          | .panic k => .panic k
        | _ => errSmall
      else
        .ok ({ contents := [d0, d1, m0, m1, t0, t1, t2, t3], payload := r0,
               version := (d0.toNat >>> 5) &&& 0x07, protocolType := (d0.toNat >>> 4) &&& 0x01,
               reserved := (d0.toNat >>> 3) &&& 0x01,
               extensionHeaderFlag := eFlag, sequenceNumberFlag := sFlag, npduFlag := pnFlag,
               messageType := d1.toNat, messageLength := be16 m0 m1, teid := be32 t0 t1 t2 t3,
               sequenceNumber := 0, npdu := 0, extensionHeaders := [] }, false)
  | _ => errSmall

/-! ### facts about the specification -/

/-- what a successfully parsed extension header looks like. -/
def ExtOk (e : Ext) : Prop :=
  e.typ < 256 ∧ e.content.length % 4 = 2 ∧ e.content.length ≤ 1018

/-- a successful chain: every header is in range, all but the first have a non-zero type, the
    consumed length is the sum of the header sizes and is followed by a zero type byte. -/
def chainSize : List Ext → Nat
  | [] => 0
  | e :: es => e.content.length + 2 + chainSize es

def tailTypesNonzero : List Ext → Prop
  | [] => True
  | [_] => True
  | _ :: e :: es => e.typ ≠ 0 ∧ tailTypesNonzero (e :: es)

theorem specExts_no_panic : ∀ (fuel : Nat) (v : Bytes), v.length < 4 * fuel → ∀ k, specExts fuel v ≠ .panic k := by
  intro fuel
  induction fuel with
  | zero => intro v h; omega
  | succ fuel ih =>
    intro v h k
    match v, h with
    | [], _ => intro hk; cases hk
    | [_], _ => intro hk; cases hk
    | t :: ln :: rest, h =>
      rw [specExts]
      split
      · intro hk; cases hk
      · rename_i hln
        split
        · intro hk; cases hk
        · rename_i hlen
          split
          · rename_i nt r' hd
            split
            · have hl : (nt :: r').length < 4 * fuel := by
                rw [← hd, List.length_drop]
                simp only [List.length_cons] at h
                omega
              have := ih (nt :: r') hl
              cases hr : specExts fuel (nt :: r') with
              | panic k' => exact absurd hr (this k')
              | err e => intro hk; cases hk
              | ok y => intro hk; cases hk
            · intro hk; cases hk
          · intro hk; cases hk

/-- type of the first header of a chain. -/
def headTyp (es : List Ext) : Option Nat := es.head?.map (·.typ)

theorem specExts_ok : ∀ (fuel : Nat) (v : Bytes) (es : List Ext) (m : Nat),
    specExts fuel v = .ok (es, m) →
      es ≠ [] ∧ headTyp es = v.head?.map (·.toNat) ∧ (∀ e ∈ es, ExtOk e) ∧ tailTypesNonzero es ∧
      m = chainSize es ∧ m + 1 ≤ v.length ∧ (v.drop m).head? = some 0 := by
  intro fuel
  induction fuel with
  | zero => intro v es m h; simp [specExts] at h
  | succ fuel ih =>
    intro v es m h
    match v, h with
    | [], h => simp [specExts, errSmall] at h
    | [_], h => simp [specExts, errSmall] at h
    | t :: ln :: rest, h =>
      rw [specExts] at h
      have hln256 := ln.toNat_lt
      split at h
      · cases h
      · rename_i hln
        split at h
        · cases h
        · rename_i hlen
          have hcl : (List.take (ln.toNat * 4 - 2) rest).length = ln.toNat * 4 - 2 := by
            rw [List.length_take]; omega
          have hexo : ExtOk { typ := t.toNat, content := List.take (ln.toNat * 4 - 2) rest } :=
            ⟨t.toNat_lt, by simp only [hcl]; omega, by simp only [hcl]; omega⟩
          split at h
          · rename_i nt r' hd
            have hdropv : List.drop (ln.toNat * 4) (t :: ln :: rest) = nt :: r' := by
              have : ln.toNat * 4 = (ln.toNat * 4 - 2) + 2 := by omega
              rw [this, ← hd]; rfl
            split at h
            · rename_i hnt
              cases hr : specExts fuel (nt :: r') with
              | panic k' => rw [hr] at h; cases h
              | err e => rw [hr] at h; cases h
              | ok y =>
                obtain ⟨es', m'⟩ := y
                rw [hr] at h
                simp only [Res.ok.injEq, Prod.mk.injEq] at h
                obtain ⟨h1, h2⟩ := h
                obtain ⟨hne, hhead, hall, htl, hm, hml, hhd⟩ := ih _ _ _ hr
                subst h1 h2
                refine ⟨by simp, rfl, ?_, ?_, ?_, ?_, ?_⟩
                · intro e he
                  rcases List.mem_cons.mp he with he | he
                  · subst he; exact hexo
                  · exact hall e he
                · cases es' with
                  | nil => exact absurd rfl hne
                  | cons e' es'' =>
                    refine ⟨?_, htl⟩
                    have : e'.typ = nt.toNat := by
                      simpa [headTyp] using hhead
                    rw [this]; exact hnt
                · simp only [chainSize, hcl, hm]; omega
                · have : (nt :: r').length = (t :: ln :: rest).length - ln.toNat * 4 := by
                    rw [← hdropv, List.length_drop]
                  simp only [List.length_cons] at this hml ⊢
                  omega
                · rw [← List.drop_drop, hdropv]; exact hhd
            · rename_i hnt
              simp only [Res.ok.injEq, Prod.mk.injEq] at h
              obtain ⟨h1, h2⟩ := h
              subst h1 h2
              have hnt0 : nt = 0 := by
                have : nt.toNat = 0 := by simpa using hnt
                exact UInt8.toNat_inj.mp this
              refine ⟨by simp, rfl, ?_, trivial, ?_, ?_, ?_⟩
              · intro e he
                rcases List.mem_cons.mp he with he | he
                · subst he; exact hexo
                · cases he
              · simp only [chainSize, hcl]; omega
              · simp only [List.length_cons]; omega
              · rw [hdropv, hnt0]; rfl
          · cases h

/-! ### refinement of the extension header loop -/

/-- lift of a chain result from view coordinates to the absolute cIndex. -/
def liftExts (c : Nat) (r : Res (List Ext × Nat)) : Res (List Ext × Nat) :=
  match r with
  | .ok (es, m) => .ok (es, c + m)
  | .err e => .err e
  | .panic k => .panic k

theorem two_view (l : Bytes) : l.length < 2 ∨ ∃ a b r, l = a :: b :: r := by
  match l with
  | [] => left; simp
  | [_] => left; simp
  | a :: b :: r => right; exact ⟨a, b, r, rfl⟩

/-- **the extension header loop computes its specification**, entered at any cIndex = p+1. -/
theorem decodeExts_spec (data foreign : Bytes) :
    ∀ (fuel p : Nat), decodeExts data foreign fuel (p + 1) = liftExts (p + 1) (specExts fuel (data.drop p)) := by
  intro fuel
  induction fuel with
  | zero => intro p; rfl
  | succ fuel ih =>
    intro p
    have hdl : (data.drop p).length = data.length - p := List.length_drop
    rw [decodeExts]
    rcases two_view (data.drop p) with hlt | ⟨t, ln, rest, hv⟩
    · rw [if_pos (by omega)]
      generalize data.drop p = v at hlt
      match v, hlt with
      | [], _ => rfl
      | [_], _ => rfl
      | _ :: _ :: _, h => simp only [List.length_cons] at h; omega
    · have hlen : data.length = p + rest.length + 2 := by
        have : (data.drop p).length = rest.length + 2 := by rw [hv]; simp
        omega
      rw [hv, specExts]
      rw [if_neg (by omega)]
      have it : indexPred data (p + 1) = .ok t := by
        unfold indexPred
        rw [if_neg (by omega)]
        exact index_cons_view data p t (ln :: rest) hv
      have iln : index data (p + 1) = .ok ln := index_drop data p 1 ln (by rw [hv]; rfl)
      rw [it, iln]
      simp only [Res.bind_ok]
      by_cases hln : ln.toNat = 0
      · rw [if_pos hln, if_pos hln]
        rfl
      · rw [if_neg hln, if_neg hln]
        by_cases hshort : rest.length + 1 < ln.toNat * 4
        · rw [if_pos (by omega), if_pos hshort]
          rfl
        · rw [if_neg (by omega), if_neg hshort, if_neg (by omega)]
          have hd2 : data.drop (p + 2) = rest := drop_add_of_view data p [t, ln] rest hv
          have hsl : sliceCap data foreign (p + 1 + 1) (p + 1 + ln.toNat * 4 - 1)
              = .ok (rest.take (ln.toNat * 4 - 2)) := by
            rw [sliceCap_le data foreign _ _ (by omega) (by omega)]
            have e1 : p + 1 + 1 = p + 2 := by omega
            have e2 : p + 1 + ln.toNat * 4 - 1 - (p + 1 + 1) = ln.toNat * 4 - 2 := by omega
            rw [e2, e1, hd2]
          rw [hsl]
          simp only [Res.bind_ok]
          have hd3 : data.drop (p + ln.toNat * 4) = rest.drop (ln.toNat * 4 - 2) := by
            have : p + ln.toNat * 4 = p + 2 + (ln.toNat * 4 - 2) := by omega
            rw [this, ← List.drop_drop, hd2]
          have hne : (rest.drop (ln.toNat * 4 - 2)).length ≠ 0 := by
            rw [List.length_drop]; omega
          cases hv' : rest.drop (ln.toNat * 4 - 2) with
          | nil => rw [hv'] at hne; simp at hne
          | cons nt r' =>
            have int : indexPred data (p + 1 + ln.toNat * 4) = .ok nt := by
              unfold indexPred
              rw [if_neg (by omega)]
              have : p + 1 + ln.toNat * 4 - 1 = p + ln.toNat * 4 := by omega
              rw [this]
              exact index_cons_view data _ nt r' (by rw [hd3, hv'])
            rw [int]
            simp only [Res.bind_ok]
            by_cases hnt : nt.toNat ≠ 0
            · rw [if_pos hnt, if_pos hnt]
              have : p + 1 + ln.toNat * 4 = (p + ln.toNat * 4) + 1 := by omega
              rw [this, ih (p + ln.toNat * 4), hd3, hv']
              cases specExts fuel (nt :: r') with
              | panic k => rfl
              | err e => rfl
              | ok y =>
                obtain ⟨es, m⟩ := y
                simp only [liftExts, Res.bind_ok]
                show Res.ok (_, p + ln.toNat * 4 + 1 + m) = Res.ok (_, p + 1 + (ln.toNat * 4 + m))
                congr 2
                omega
            · rw [if_neg hnt, if_neg hnt]
              rfl

/-! ### refinement of DecodeFromBytes -/

/-- **The transcription of DecodeFromBytes computes the specification** — for every receiver value,
    every capacity and every content of the spare capacity. -/
theorem decode_cases (old : Layer) (data foreign : Bytes) : decode old data foreign = spec data := by
  match data with
  | [] => rfl
  | [_] => rfl
  | [_, _] => rfl
  | [_, _, _] => rfl
  | [_, _, _, _] => rfl
  | [_, _, _, _, _] => rfl
  | [_, _, _, _, _, _] => rfl
  | [_, _, _, _, _, _, _] => rfl
  | d0 :: d1 :: m0 :: m1 :: t0 :: t1 :: t2 :: t3 :: r0 =>
    generalize hdata : d0 :: d1 :: m0 :: m1 :: t0 :: t1 :: t2 :: t3 :: r0 = data
    have hlen : data.length = r0.length + 8 := by rw [← hdata]; simp
    have hd8 : data.drop 8 = r0 := by rw [← hdata]; rfl
    have i0 : index data 0 = .ok d0 := by rw [← hdata]; rfl
    have i1 : index data 1 = .ok d1 := by rw [← hdata]; rfl
    have h1 : sliceCap data foreign 2 4 = .ok [m0, m1] := by
      rw [← hdata]; exact sliceCap_mid [d0, d1] [m0, m1] (t0 :: t1 :: t2 :: t3 :: r0) foreign
    have h2 : sliceCap data foreign 4 8 = .ok [t0, t1, t2, t3] := by
      rw [← hdata]; exact sliceCap_mid [d0, d1, m0, m1] [t0, t1, t2, t3] r0 foreign
    have hspec : spec data = spec (d0 :: d1 :: m0 :: m1 :: t0 :: t1 :: t2 :: t3 :: r0) := by rw [hdata]
    rw [hspec]
    unfold decode decodeV spec
    simp only [Gp.Gen.Tun.gtpMinimumSizeInBytes]
    have hge : ¬ data.length < 8 := by omega
    have hr : Variant.fixed.resets = true := rfl
    have hz : Variant.fixed.stopOnZeroType = true := rfl
    simp only [hge, ↓reduceIte, i0, i1, h1, h2, Res.bind_ok, beUint16_pair, beUint32_quad, hr, hz,
      Bool.true_and, List.nil_append]
    rw [hdata]
    by_cases hshort : r0.length < be16 m0 m1
    · have hlt : data.length < 8 + be16 m0 m1 := by omega
      simp only [hlt, hshort, ↓reduceIte]
    · have hlt : ¬ data.length < 8 + be16 m0 m1 := by omega
      simp only [hlt, hshort, ↓reduceIte]
      generalize decide ((d0.toNat >>> 1) &&& 0x01 = 1) = sFlag
      generalize decide (d0.toNat &&& 0x01 = 1) = pnFlag
      generalize decide ((d0.toNat >>> 2) &&& 0x01 = 1) = eFlag
      by_cases hopt : (sFlag || pnFlag || eFlag) = true
      · simp only [hopt, ↓reduceIte]
        match r0, hlen, hd8 with
        | [], hlen, _ =>
          have : data.length < 8 + 4 := by simp only [List.length_nil] at hlen; omega
          simp only [this, ↓reduceIte]; rfl
        | [_], hlen, _ =>
          have : data.length < 8 + 4 := by simp only [List.length_cons, List.length_nil] at hlen; omega
          simp only [this, ↓reduceIte]; rfl
        | [_, _], hlen, _ =>
          have : data.length < 8 + 4 := by simp only [List.length_cons, List.length_nil] at hlen; omega
          simp only [this, ↓reduceIte]; rfl
        | [_, _, _], hlen, _ =>
          have : data.length < 8 + 4 := by simp only [List.length_cons, List.length_nil] at hlen; omega
          simp only [this, ↓reduceIte]; rfl
        | s0 :: s1 :: n :: x :: r1, hlen, hd8 =>
          have hlen' : data.length = r1.length + 12 := by simp only [List.length_cons] at hlen; omega
          have hge12 : ¬ data.length < 8 + 4 := by omega
          simp only [hge12, ↓reduceIte]
          have hd8' : data.drop 8 = [s0, s1] ++ (n :: x :: r1) := hd8
          have hd10 : data.drop 10 = n :: x :: r1 := drop_add_of_view data 8 [s0, s1] _ hd8'
          have hd11 : data.drop 11 = x :: r1 := drop_add_of_view data 10 [n] (x :: r1) hd10
          have hd12 : data.drop 12 = r1 := drop_add_of_view data 11 [x] r1 hd11
          have hseq : (if sFlag = true then (sliceCap data foreign 8 10 >>= fun s => beUint16 s) else pure 0)
              = Res.ok (if sFlag = true then be16 s0 s1 else 0) := by
            cases sFlag with
            | false => rfl
            | true =>
              simp only [if_true]
              rw [sliceCap_le data foreign 8 10 (by omega) (by omega), hd8]
              rfl
          have hnp : (if pnFlag = true then (index data 10 >>= fun b => pure b.toNat) else pure 0)
              = Res.ok (if pnFlag = true then n.toNat else 0) := by
            cases pnFlag with
            | false => rfl
            | true =>
              simp only [if_true]
              rw [index_cons_view data 10 n (x :: r1) hd10]
              rfl
          have hex : (if eFlag = true then
                (indexPred data (8 + 4) >>= fun t0 =>
                  if (t0.toNat == 0) = true then pure ([], 8 + 4)
                  else decodeExts data foreign data.length (8 + 4))
              else pure ([], 8 + 4))
              = liftExts 12 (specOptExts eFlag ((s0 :: s1 :: n :: x :: r1).length + 8) x r1) := by
            unfold specOptExts
            cases eFlag with
            | false => rfl
            | true =>
              simp only [if_true]
              have : indexPred data (8 + 4) = .ok x := by
                unfold indexPred
                rw [if_neg (by omega)]
                exact index_cons_view data 11 x r1 hd11
              rw [this]
              simp only [Res.bind_ok]
              by_cases hx : (x.toNat == 0) = true
              · simp only [hx, ↓reduceIte]; rfl
              · simp only [hx]
                have := decodeExts_spec data foreign data.length 11
                rw [hd11] at this
                rw [show 8 + 4 = 11 + 1 from rfl, this, hlen']
                congr 2
          rw [hseq, hnp, hex]
          simp only [Res.bind_ok]
          cases hs : specOptExts eFlag ((s0 :: s1 :: n :: x :: r1).length + 8) x r1 with
          | panic k => rfl
          | err e => rfl
          | ok y =>
            obtain ⟨es, m⟩ := y
            have hm : 12 + m ≤ data.length := by
              unfold specOptExts at hs
              split at hs
              · split at hs
                · simp only [Res.ok.injEq, Prod.mk.injEq] at hs; omega
                · obtain ⟨_, _, _, _, _, h5, _⟩ := specExts_ok _ _ _ _ hs
                  simp only [List.length_cons] at h5; omega
              · simp only [Res.ok.injEq, Prod.mk.injEq] at hs; omega
            simp only [liftExts, Res.bind_ok, res_pure_bind]
            rw [sliceCap_le data foreign 0 (12 + m) (by omega) hm, sliceFrom_le data (12 + m) hm]
            simp only [Res.bind_ok, List.drop_zero, Nat.sub_zero]
            rw [← List.drop_drop, hd12]
            rfl
      · have hopt' : (sFlag || pnFlag || eFlag) = false := by simpa using hopt
        simp only [hopt', Bool.false_eq_true, ↓reduceIte, res_pure_bind]
        rw [sliceCap_le data foreign 0 8 (by omega) (by omega), sliceFrom_le data 8 (by omega), hd8]
        simp only [Res.bind_ok, List.drop_zero, Nat.sub_zero]
        rw [← hdata]
        rfl

/-- the specification never panics (in particular: the loop fuel `len(data)` suffices). -/
theorem spec_no_panic (data : Bytes) (k : PanicKind) : spec data ≠ .panic k := by
  match data with
  | [] => intro h; cases h
  | [_] => intro h; cases h
  | [_, _] => intro h; cases h
  | [_, _, _] => intro h; cases h
  | [_, _, _, _] => intro h; cases h
  | [_, _, _, _, _] => intro h; cases h
  | [_, _, _, _, _, _] => intro h; cases h
  | [_, _, _, _, _, _, _] => intro h; cases h
  | d0 :: d1 :: m0 :: m1 :: t0 :: t1 :: t2 :: t3 :: r0 =>
    simp only [spec]
    split
    · intro h; cases h
    · split
      · match r0 with
        | [] => intro h; cases h
        | [_] => intro h; cases h
        | [_, _] => intro h; cases h
        | [_, _, _] => intro h; cases h
        | s0 :: s1 :: n :: x :: r1 =>
          simp only
          have hnp : ∀ k', specOptExts (decide ((d0.toNat >>> 2) &&& 0x01 = 1))
              ((s0 :: s1 :: n :: x :: r1).length + 8) x r1 ≠ .panic k' := by
            intro k'
            unfold specOptExts
            split
            · split
              · intro h; cases h
              · exact specExts_no_panic _ _ (by simp only [List.length_cons]; omega) k'
            · intro h; cases h
          cases hs : specOptExts (decide ((d0.toNat >>> 2) &&& 0x01 = 1))
              ((s0 :: s1 :: n :: x :: r1).length + 8) x r1 with
          | panic k' => exact absurd hs (hnp k')
          | err e => intro h; cases h
          | ok y => intro h; cases h
      · intro h; cases h

/-- A history of DecodeFromBytes calls on ONE layer object (see Vxlan.decodeSeq). -/
def decodeSeq (afterErr : Layer → Bytes → Layer) : Layer → List (Bytes × Bytes) → List (Res (Layer × Bool))
  | _, [] => []
  | cur, (data, foreign) :: rest =>
    let r := decode cur data foreign
    let next := match r with
      | .ok (l, _) => l
      | _ => afterErr cur data
    r :: decodeSeq afterErr next rest

end Gp.Tun.Gtp
