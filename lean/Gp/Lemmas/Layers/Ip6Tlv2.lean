import Gp.Lemmas.Layers.Ip6Tlv
/-
  serializeIPv6HeaderTLVOptions, single steps: dry run, panic freedom, boundary closed forms.
-/
namespace Gp.Ip6
open Gp

/-! ## tlvPadding -/

theorem tlvPadding_ok (bf : Bytes) (off pad : Nat) (h : off + pad ≤ bf.length) :
    ∃ bf', tlvPadding bf off pad = .ok bf' ∧ bf'.length = bf.length := by
  unfold tlvPadding
  by_cases h0 : pad = 0
  · simp [h0]
  · by_cases h1 : pad = 1
    · rw [if_neg h0, if_pos h1, wr_ok _ _ _ (by omega)]
      exact ⟨_, rfl, by simp⟩
    · rw [if_neg h0, if_neg h1]
      dsimp only
      rw [wr_ok _ _ _ (by omega)]
      simp only [Res.bind_ok]
      rw [wr_ok _ _ _ (by simp; omega)]
      simp only [Res.bind_ok]
      split
      · obtain ⟨b', hb, hl⟩ := zeroFrom_ok ((bf.set off 1).set (off + 1) (u8 ((pad % 256 + 254) % 256)))
          (off + 2) (by simp; omega)
        exact ⟨b', hb, by rw [hl]; simp⟩
      · exact ⟨_, rfl, by simp⟩

theorem tlvPadding_boundary (done rest : Bytes) (off pad : Nat) (ho : off = done.length)
    (hp : pad ≤ rest.length) (h256 : pad < 256) :
    ∃ rest', tlvPadding (done ++ rest) off pad = .ok (done ++ padBytes pad ++ rest') ∧
      rest'.length + pad = rest.length := by
  unfold tlvPadding padBytes
  by_cases h0 : pad = 0
  · exact ⟨rest, by simp [h0], by omega⟩
  · by_cases h1 : pad = 1
    · rw [if_neg h0, if_pos h1, if_neg h0, if_pos h1]
      match rest, hp with
      | [], hp => exact absurd (show pad ≤ 0 from hp) (by omega)
      | a :: r, _ =>
        rw [wr_boundary' done a r 0 off ho]
        exact ⟨r, by simp, by simp [h1]⟩
    · rw [if_neg h0, if_neg h1, if_neg h0, if_neg h1]
      match rest, hp with
      | [], hp => exact absurd (show pad ≤ 0 from hp) (by omega)
      | [a], hp => exact absurd (show pad ≤ 1 from hp) (by omega)
      | a :: b :: r, hp =>
        dsimp only
        rw [wr_boundary' done a (b :: r) 1 off ho]
        simp only [Res.bind_ok]
        have e1 : done ++ 1 :: b :: r = (done ++ [1]) ++ b :: r := by simp
        rw [e1, wr_boundary' (done ++ [1]) b r _ (off + 1) (by simp [ho])]
        simp only [Res.bind_ok]
        by_cases ht : (pad % 256 + 254) % 256 ≠ 0
        · rw [if_pos ht]
          have e2 : done ++ [1] ++ u8 ((pad % 256 + 254) % 256) :: r =
              (done ++ [1, u8 ((pad % 256 + 254) % 256)]) ++ r := by simp
          rw [e2, zeroFrom_boundary _ r (off + 2) (by simp [ho])]
          simp only [List.length_cons] at hp
          refine ⟨List.replicate (r.length - (pad - 2)) 0, ?_, by simp; omega⟩
          have e3 : r.length = (pad - 2) + (r.length - (pad - 2)) := by omega
          conv => lhs; rw [e3, ← List.replicate_append_replicate]
          simp
        · rw [if_neg ht]
          have hp2 : pad = 2 := by omega
          refine ⟨r, ?_, by simp; omega⟩
          simp [hp2]

/-! ## alignStep -/

theorem alignPad_pos_cases (fix : Bool) (o : Tlv) (length : Nat) :
    (alignPad fix o length = 0 ∧ ∀ buf, alignStep buf fix o length = .ok (buf, length)) ∨
    (0 < alignPad fix o length ∧ ∀ buf, alignStep buf fix o length =
        (padMaybe buf (length - 2) (alignPad fix o length)).bind
          (fun b => .ok (b, length + alignPad fix o length))) := by
  unfold alignStep alignPad
  by_cases hf : fix = true
  · by_cases hx : o.ax ≠ 0
    · dsimp only
      rw [if_pos hf, if_pos hx]
      have hx' : 0 < o.ax := Nat.pos_of_ne_zero hx
      have h1 : o.ax * (length / o.ax) ≤ length := Nat.mul_div_le length o.ax
      have h2 : length < o.ax * (length / o.ax) + o.ax := by
        have := Nat.lt_mul_div_succ length hx'
        rw [Nat.mul_succ] at this; exact this
      generalize hoff : (if o.ax * (length / o.ax) + o.ay < length then o.ax * (length / o.ax) + o.ay + o.ax
          else o.ax * (length / o.ax) + o.ay) = offset
      have hge : length ≤ offset := by rw [← hoff]; split <;> omega
      by_cases hne : length ≠ offset
      · right
        rw [if_pos hne]
        refine ⟨by omega, fun buf => ?_⟩
        rw [if_pos hf, if_pos hx, if_pos hne]
        rfl
      · left
        rw [if_neg hne]
        refine ⟨rfl, fun buf => ?_⟩
        rw [if_pos hf, if_pos hx, if_neg hne]
    · left
      dsimp only
      rw [if_pos hf, if_neg hx]
      refine ⟨rfl, fun buf => ?_⟩
      rw [if_pos hf, if_neg hx]
  · left
    rw [if_neg hf]
    refine ⟨rfl, fun buf => ?_⟩
    rw [if_neg hf]

theorem alignStep_dry (fix : Bool) (o : Tlv) (length : Nat) :
    alignStep none fix o length = .ok (none, length + alignPad fix o length) := by
  rcases alignPad_pos_cases fix o length with ⟨h0, h⟩ | ⟨-, h⟩
  · rw [h, h0]; rfl
  · rw [h]; rfl

/-! ## tlvSerializeTo -/

theorem tlvSerializeTo_dry (o : Tlv) (off : Nat) (fix : Bool) :
    tlvSerializeTo o none off fix = .ok (fixOpt fix o, none, optLen (fixOpt fix o)) := by
  unfold tlvSerializeTo fixOpt optLen
  by_cases h : o.typ = 0
  · simp [h]
  · by_cases hf : fix = true <;> simp [h, hf]

theorem tlvSerializeTo_ok (o : Tlv) (bf : Bytes) (off : Nat) (fix : Bool)
    (h : off + optLen (fixOpt fix o) ≤ bf.length) :
    ∃ bf', tlvSerializeTo o (some bf) off fix = .ok (fixOpt fix o, some bf', optLen (fixOpt fix o)) ∧
      bf'.length = bf.length := by
  unfold tlvSerializeTo
  by_cases ht : o.typ = 0
  · have : optLen (fixOpt fix o) = 1 := by simp [optLen, fixOpt, ht]
    rw [if_pos ht]
    dsimp only
    rw [wr_ok _ _ _ (by omega)]
    exact ⟨bf.set off 0, by simp [fixOpt, optLen, ht], by simp⟩
  · rw [if_neg ht]
    have hl : optLen (fixOpt fix o) = (fixOpt fix o).len + 2 := by
      simp [optLen, fixOpt_typ, ht]
    have hfo : (if fix then { o with len := o.bytes.length % 256 } else o : Tlv) = fixOpt fix o := by
      simp [fixOpt, ht]
    dsimp only
    rw [hfo, wr_ok _ _ _ (by omega)]
    simp only [Res.bind_ok]
    rw [wr_ok _ _ _ (by simp; omega)]
    simp only [Res.bind_ok]
    obtain ⟨b', hb, hlen⟩ := cp_ok ((bf.set off (u8 (fixOpt fix o).typ)).set (off + 1) (u8 (fixOpt fix o).len))
      (off + 2) (fixOpt fix o).bytes (by simp; omega)
    rw [hb]
    exact ⟨b', by simp [hl], by rw [hlen]; simp⟩

theorem tlvSerializeTo_boundary (o : Tlv) (done rest : Bytes) (off : Nat) (fix : Bool)
    (ho : off = done.length) (hroom : optLen (fixOpt fix o) ≤ rest.length)
    (hgap : o.typ ≠ 0 → (fixOpt fix o).len ≤ o.bytes.length) :
    ∃ rest', tlvSerializeTo o (some (done ++ rest)) off fix =
        .ok (fixOpt fix o, some (done ++ optBytes (fixOpt fix o) ++ rest'), optLen (fixOpt fix o)) ∧
      rest'.length + optLen (fixOpt fix o) = rest.length := by
  unfold tlvSerializeTo
  by_cases ht : o.typ = 0
  · have h1 : optLen (fixOpt fix o) = 1 := by simp [optLen, fixOpt, ht]
    rw [if_pos ht]
    match rest, hroom with
    | [], hroom => simp [h1] at hroom
    | a :: r, _ =>
      dsimp only
      rw [wr_boundary' done a r 0 off ho]
      refine ⟨r, ?_, by simp [h1]⟩
      simp [fixOpt, optLen, optBytes, ht]
  · rw [if_neg ht]
    have hl : optLen (fixOpt fix o) = (fixOpt fix o).len + 2 := by
      simp [optLen, fixOpt_typ, ht]
    have hfo : (if fix then { o with len := o.bytes.length % 256 } else o : Tlv) = fixOpt fix o := by
      simp [fixOpt, ht]
    dsimp only
    rw [hfo]
    rw [hl] at hroom
    match rest, hroom with
    | [], hroom => simp at hroom
    | [a], hroom => simp at hroom
    | a :: b :: r, hroom =>
      rw [wr_boundary' done a (b :: r) _ off ho]
      simp only [Res.bind_ok]
      have e1 : done ++ u8 (fixOpt fix o).typ :: b :: r = (done ++ [u8 (fixOpt fix o).typ]) ++ b :: r := by simp
      rw [e1, wr_boundary' _ b r _ (off + 1) (by simp [ho])]
      simp only [Res.bind_ok]
      have e2 : done ++ [u8 (fixOpt fix o).typ] ++ u8 (fixOpt fix o).len :: r =
          (done ++ [u8 (fixOpt fix o).typ, u8 (fixOpt fix o).len]) ++ r := by simp
      rw [e2, cp_boundary _ r _ (off + 2) (by simp [ho])]
      simp only [List.length_cons] at hroom
      have hg := hgap ht
      rw [fixOpt_bytes]
      generalize hn : min r.length o.bytes.length = n
      have hnl : (fixOpt fix o).len ≤ n := by rw [← hn]; omega
      refine ⟨(o.bytes.take n).drop (fixOpt fix o).len ++ r.drop n, ?_, ?_⟩
      · simp only [Res.bind_ok, Res.pure_eq_ok, hl, optBytes, fixOpt_typ, ht, if_false, fixOpt_bytes]
        have this : o.bytes.take (fixOpt fix o).len ++ (o.bytes.take n).drop (fixOpt fix o).len = o.bytes.take n := by
          conv => rhs; rw [← List.take_append_drop (fixOpt fix o).len (o.bytes.take n)]
          rw [List.take_take, Nat.min_eq_left hnl]
        simp only [List.append_assoc, List.cons_append, List.nil_append]
        rw [← List.append_assoc (o.bytes.take (fixOpt fix o).len), this]
      · simp only [List.length_append, List.length_drop, List.length_take, List.length_cons, hl]
        omega

end Gp.Ip6
