import Gp.Lemmas.Layers.LlcSer2
import Gp.Lemmas.Layers.LlcSer3
/-
  Helper lemmas for engine `lllc`, part 6: serializers never panic (on ANY buffer state), the
  observable view of a SerializeTo call, and laws of the three specifications.
-/
namespace Gp.Llc
open Gp Gp.SBuf Gp.C18 Gp.Gen.Llc

/-! ## No panic, for every field value and every buffer state whatsoever (no invariant needed) -/

theorem llc_body_no_panic (l : LLC) (b : SBuf) (length : Nat) (hlen : length = 3 ∨ length = 4) (k : PanicKind) :
    l.serializeBody b length ≠ .panic k := by
  unfold LLC.serializeBody
  have hn : (prepend b length).2.n = length := rfl
  generalize prepend b length = r at hn
  obtain ⟨b1, w⟩ := r
  simp only at hn
  rcases hlen with h3 | h4
  · subst h3
    simp only [store, hn, Nat.reduceLT, if_true, Nat.reduceEqDiff, if_false, pure, bind, Res.bind]
    repeat' split
    all_goals (intro h; cases h)
  · subst h4
    simp only [store, hn, Nat.reduceLT, if_true, pure, bind, Res.bind]
    repeat' split
    all_goals (intro h; cases h)

theorem llc_serializeTo_no_panic (l : LLC) (b : SBuf) (fix csum : Bool) (k : PanicKind) :
    l.serializeTo b fix csum ≠ .panic k := by
  unfold LLC.serializeTo
  exact llc_body_no_panic l b _ (by split <;> simp) k

theorem snap_serializeTo_no_panic (l : SNAP) (b : SBuf) (fix csum : Bool) (k : PanicKind) :
    l.serializeTo b fix csum ≠ .panic k := by
  unfold SNAP.serializeTo
  by_cases hs : l.org.length < 3
  · rw [if_pos hs]; exact fun h => nomatch h
  rw [if_neg hs]
  obtain ⟨x0, x1, x2, xr, horg⟩ := three_of_length l.org hs
  unfold SNAP.serializeBody
  have hn : (prepend b 5).2.n = 5 := rfl
  generalize prepend b 5 = r at hn
  obtain ⟨b1, w⟩ := r
  simp only at hn
  simp only [orgIndex, Gp.index, horg, store, winSlice, putUint16, hn, Nat.reduceLT, Nat.reduceLeDiff, and_self,
    if_true, if_false, Nat.reduceSub, Nat.lt_irrefl, pure, bind, Res.bind,
    List.getElem?_cons_zero, List.getElem?_cons_succ]
  exact fun h => nomatch h

theorem stp_serializeTo_no_panic (l : STP) (b : SBuf) (fix csum : Bool) (k : PanicKind) :
    l.serializeTo b fix csum ≠ .panic k := by
  unfold STP.serializeTo STP.serializeWith
  have hn : (prepend b 35).2.n = 35 := rfl
  generalize prepend b 35 = r at hn
  obtain ⟨b1, w⟩ := r
  simp only at hn
  simp only [putUint16, putUint32, store, winSlice, copyTo, hn, Nat.reduceLT, Nat.reduceLeDiff, and_self,
    if_true, if_false, Nat.reduceSub, Nat.lt_irrefl, pure, bind, Res.bind]
  repeat' split
  all_goals (intro h; cases h)

/-! ## Laws of the specifications -/

theorem llcSerSpec_layer (l : LLC) (p : Bytes) : (llcSerSpec l p).layer = l := by
  unfold llcSerSpec llcSerSpecWith; repeat' split
  all_goals rfl

theorem llcSerSpec_err_bytes (l : LLC) (p : Bytes) (h : (llcSerSpec l p).err = true) : (llcSerSpec l p).bytes = [] := by
  unfold llcSerSpec llcSerSpecWith at h ⊢
  by_cases hd : l.dsap &&& 0x1 ≠ 0
  · simp only [if_pos hd]
  by_cases hs : l.ssap &&& 0x1 ≠ 0
  · simp only [if_neg hd, if_pos hs]
  simp only [if_neg hd, if_neg hs] at h; cases h

theorem snapSerSpec_layer (l : SNAP) (p : Bytes) : (snapSerSpec l p).layer = l := by
  unfold snapSerSpec; split <;> rfl

theorem snapSerSpec_err_bytes (l : SNAP) (p : Bytes) (h : (snapSerSpec l p).err = true) : (snapSerSpec l p).bytes = [] := by
  unfold snapSerSpec at h ⊢
  by_cases hs : l.org.length < 3
  · simp only [if_pos hs]
  · simp only [if_neg hs] at h; cases h

theorem stpSerSpec_layer (l : STP) (p : Bytes) : (stpSerSpec l p).layer = l := by
  unfold stpSerSpec; split <;> rfl

theorem stpSerSpec_err_bytes (l : STP) (p : Bytes) (h : (stpSerSpec l p).err = true) : (stpSerSpec l p).bytes = [] := by
  unfold stpSerSpec at h ⊢
  split
  · rfl
  · rename_i hc; rw [if_neg hc] at h; cases h

/-! ## The observable view -/

theorem serView_of_refines {L : Type} (r : Res (SerOut L)) (spec : SerSpec L)
    (hr : ∃ o, r = .ok o ∧ Inv o.buf ∧ o.layer = spec.layer ∧ o.err = spec.err ∧
      (spec.err = false → contents o.buf = spec.bytes))
    (hb : spec.err = true → spec.bytes = []) : serView r = .ok spec := by
  obtain ⟨o, ho, -, hl, he, hbytes⟩ := hr
  rw [ho]
  unfold serView
  simp only
  congr 1
  cases spec with
  | mk sl se sb =>
    simp only at hl he hbytes hb
    cases se
    · simp only [he, hl, hbytes rfl]; rfl
    · simp only [he, hl, hb rfl]; rfl

theorem llc_serView (l : LLC) (b : SBuf) (fix csum : Bool) (h : Inv b) :
    serView (l.serializeTo b fix csum) = .ok (llcSerSpec l (contents b)) :=
  serView_of_refines _ _ (llc_serializeTo_refines l b fix csum h) (llcSerSpec_err_bytes l _)

theorem snap_serView (l : SNAP) (b : SBuf) (fix csum : Bool) (h : Inv b) :
    serView (l.serializeTo b fix csum) = .ok (snapSerSpec l (contents b)) :=
  serView_of_refines _ _ (snap_serializeTo_refines l b fix csum h) (snapSerSpec_err_bytes l _)

theorem stp_serView (l : STP) (b : SBuf) (fix csum : Bool) (h : Inv b) :
    serView (l.serializeTo b fix csum) = .ok (stpSerSpec l (contents b)) :=
  serView_of_refines _ _ (stp_serializeTo_refines l b fix csum h) (stpSerSpec_err_bytes l _)

end Gp.Llc
