import Gp.Model.Layers.Udp
import Gp.Lemmas.SBuf
/-
  Helper lemmas for the UDP layer (engine `ludp`).  Core Lean only.
  First section: definitions that occur in the statements of the property theorems.
-/
namespace Gp.Udp
open Gp

/-! ## Specification of DecodeFromBytes as a pure function of the visible bytes -/

/-- What DecodeFromBytes computes, written directly on the byte list (no slices, no capacity).
    `decode_eq` proves the transcription `decodeFromBytes` equal to it for every input. -/
def decodeSpec (old : Layer) : Bytes → DecOut
  | a0 :: a1 :: a2 :: a3 :: a4 :: a5 :: a6 :: a7 :: rest =>
    let base : Layer :=
      { srcPort := be16 a0 a1, dstPort := be16 a2 a3, length := be16 a4 a5, checksum := be16 a6 a7,
        sPort := [a0, a1], dPort := [a2, a3], contents := [a0, a1, a2, a3, a4, a5, a6, a7],
        payload := [], pseudo := old.pseudo }
    if be16 a4 a5 ≥ 8 then
      if be16 a4 a5 > rest.length + 8 then
        { layer := { base with payload := rest }, trunc := true, err := false }
      else
        { layer := { base with payload := rest.take (be16 a4 a5 - 8) }, trunc := false, err := false }
    else if be16 a4 a5 = 0 then
      { layer := { base with payload := rest }, trunc := false, err := false }
    else { layer := base, trunc := false, err := true }
  | _ => { layer := old, trunc := true, err := true }

theorem decode_eq (old : Layer) (data foreign : Bytes) :
    decodeFromBytes old { data := data, foreign := foreign } = .ok (decodeSpec old data) := by
  match data with
  | [] => simp [decodeFromBytes, decodeSpec, GoSlice.len]
  | [_] => simp [decodeFromBytes, decodeSpec, GoSlice.len]
  | [_, _] => simp [decodeFromBytes, decodeSpec, GoSlice.len]
  | [_, _, _] => simp [decodeFromBytes, decodeSpec, GoSlice.len]
  | [_, _, _, _] => simp [decodeFromBytes, decodeSpec, GoSlice.len]
  | [_, _, _, _, _] => simp [decodeFromBytes, decodeSpec, GoSlice.len]
  | [_, _, _, _, _, _] => simp [decodeFromBytes, decodeSpec, GoSlice.len]
  | [_, _, _, _, _, _, _] => simp [decodeFromBytes, decodeSpec, GoSlice.len]
  | a0 :: a1 :: a2 :: a3 :: a4 :: a5 :: a6 :: a7 :: rest =>
    have hx : ∀ k, k ≤ 8 → k ≤ rest.length + 1 + 1 + 1 + 1 + 1 + 1 + 1 + 1 + foreign.length := by
      intro k hk; omega
    simp [decodeFromBytes, decodeSpec, GoSlice.len, GoSlice.slice, GoSlice.cap, GoSlice.index, uint16, Gp.index, hx]
    have hl : ¬ (rest.length + 1 + 1 + 1 + 1 + 1 + 1 + 1 + 1 < 8) := by omega
    simp only [hl, if_false, pure, bind, Res.bind]
    generalize be16 a4 a5 = L
    by_cases h8 : 8 ≤ L
    · by_cases ht : rest.length + 8 < L
      · have ht' : rest.length + 1 + 1 + 1 + 1 + 1 + 1 + 1 + 1 < L := by omega
        simp [h8, ht]
      · have ht' : ¬ (rest.length + 1 + 1 + 1 + 1 + 1 + 1 + 1 + 1 < L) := by omega
        have hc : L ≤ rest.length + 1 + 1 + 1 + 1 + 1 + 1 + 1 + 1 + foreign.length := by omega
        have htk : List.take (L - 8) (rest ++ foreign) = List.take (L - 8) rest :=
          List.take_append_of_le_length (by omega)
        simp [h8, ht, hc, htk]
    · by_cases h0 : L = 0
      · simp [h0]
      · simp [h8, h0]

/-! ## Specification of SerializeTo as a pure function of the payload bytes -/

/-- The eight header bytes of a layer value. -/
def header (l : Layer) : Bytes :=
  putBe16 l.srcPort ++ putBe16 l.dstPort ++ putBe16 l.length ++ putBe16 l.checksum

/-- The layer after the FixLengths step. -/
def fixLen (l : Layer) (payloadLen : Nat) (fix : Bool) : Layer :=
  if fix then { l with length := fixedLength l.pseudo payloadLen } else l

/-- What SerializeTo produces, written on the payload bytes alone: new contents and mutated layer. -/
def serializeSpec (l : Layer) (payload : Bytes) (fix csum : Bool) : Res (Bytes × Layer) :=
  let l1 := fixLen l payload.length fix
  if csum then
    match computeChecksum l1.pseudo (header { l1 with checksum := 0 } ++ payload) with
    | .ok sum => .ok (header { l1 with checksum := emitChecksum sum } ++ payload, { l1 with checksum := emitChecksum sum })
    | .err k => .err k
    | .panic k => .panic k
  else .ok (header l1 ++ payload, l1)

/-- Observable part of a serialisation result: the buffer's contents and the mutated layer. -/
def view : Res (SBuf.SBuf × Layer) → Res (Bytes × Layer)
  | .ok (b, l) => .ok (SBuf.contents b, l)
  | .err k => .err k
  | .panic k => .panic k

/-- C06 `wf`: every public field is in its uint16 range. -/
def wf (l : Layer) : Prop :=
  l.srcPort < 65536 ∧ l.dstPort < 65536 ∧ l.length < 65536 ∧ l.checksum < 65536

instance (l : Layer) : Decidable (wf l) := by unfold wf; infer_instance

/-- The network layer installed for checksums has usable addresses (AddressTo4/AddressTo16 succeed). -/
def pseudoOk : Pseudo → Prop
  | .none => False
  | .v4 s d => (to4 s).isSome = true ∧ (to4 d).isSome = true
  | .v6 s d => s.length = 16 ∧ d.length = 16

instance (p : Pseudo) : Decidable (pseudoOk p) := by cases p <;> unfold pseudoOk <;> infer_instance

/-- "where the protocol allows": a payload above 65527 bytes needs the IPv6 jumbogram form. -/
def fits (p : Pseudo) (payloadLen : Nat) : Prop := isV6 p = true ∨ payloadLen + 8 ≤ 65535

instance (p : Pseudo) (n : Nat) : Decidable (fits p n) := by unfold fits; infer_instance

/-- `≈` of C06: equal public fields (ignores Contents/Payload, the private port slices and the
    checksum configuration). -/
def sameFields (a b : Layer) : Prop :=
  a.srcPort = b.srcPort ∧ a.dstPort = b.dstPort ∧ a.length = b.length ∧ a.checksum = b.checksum

instance (a b : Layer) : Decidable (sameFields a b) := by unfold sameFields; infer_instance

theorem set8 (c : Bytes) (h : 8 ≤ c.length) (x0 x1 x2 x3 x4 x5 x6 x7 : UInt8) :
    (((((((c.set 0 x0).set 1 x1).set 2 x2).set 3 x3).set 4 x4).set 5 x5).set 6 x6).set 7 x7
      = [x0, x1, x2, x3, x4, x5, x6, x7] ++ c.drop 8 := by
  match c, h with
  | _ :: _ :: _ :: _ :: _ :: _ :: _ :: _ :: rest, _ => simp

theorem contents_mem (b : SBuf.SBuf) (m : List UInt8) :
    SBuf.contents { b with mem := m } = (m.drop b.start).take (b.len - b.start) := rfl

/-- Eight stores at the start of the contents replace exactly the first eight bytes. -/
theorem drop_take_set8 (m : List UInt8) (s k : Nat) (hk : 8 ≤ k) (hm : s + k ≤ m.length)
    (x0 x1 x2 x3 x4 x5 x6 x7 : UInt8) :
    ((((((((((m.set s x0).set (s + 1) x1).set (s + 2) x2).set (s + 3) x3).set (s + 4) x4).set (s + 5) x5).set
      (s + 6) x6).set (s + 7) x7).drop s).take k)
      = [x0, x1, x2, x3, x4, x5, x6, x7] ++ ((m.drop s).take k).drop 8 := by
  have e : ∀ i, s + i - s = i := by intro i; omega
  have n : ∀ i, ¬ (s + i < s) := by intro i; omega
  have n0 : ¬ (s < s) := by omega
  simp only [List.drop_set, List.take_set, n, n0, if_false, e, Nat.sub_self]
  exact set8 _ (by simp [List.length_take, List.length_drop]; omega) ..

theorem set10 (c : Bytes) (h : 8 ≤ c.length) (x0 x1 x2 x3 x4 x5 x6 x7 y6 y7 : UInt8) :
    (((((((((c.set 0 x0).set 1 x1).set 2 x2).set 3 x3).set 4 x4).set 5 x5).set 6 x6).set 7 x7).set 6 y6).set 7 y7
      = [x0, x1, x2, x3, x4, x5, y6, y7] ++ c.drop 8 := by
  match c, h with
  | _ :: _ :: _ :: _ :: _ :: _ :: _ :: _ :: rest, _ => simp

/-- … and storing bytes 6 and 7 a second time keeps only the second values. -/
theorem drop_take_set10 (m : List UInt8) (s k : Nat) (hk : 8 ≤ k) (hm : s + k ≤ m.length)
    (x0 x1 x2 x3 x4 x5 x6 x7 y6 y7 : UInt8) :
    ((((((((((((m.set s x0).set (s + 1) x1).set (s + 2) x2).set (s + 3) x3).set (s + 4) x4).set (s + 5) x5).set
      (s + 6) x6).set (s + 7) x7).set (s + 6) y6).set (s + 7) y7).drop s).take k)
      = [x0, x1, x2, x3, x4, x5, y6, y7] ++ ((m.drop s).take k).drop 8 := by
  have e : ∀ i, s + i - s = i := by intro i; omega
  have n : ∀ i, ¬ (s + i < s) := by intro i; omega
  have n0 : ¬ (s < s) := by omega
  simp only [List.drop_set, List.take_set, n, n0, if_false, e, Nat.sub_self]
  exact set10 _ (by simp [List.length_take, List.length_drop]; omega) ..

theorem u8_zero : u8 0 = 0 := by decide

theorem serializeInto_spec (l : Layer) (n : Nat) (b : SBuf.SBuf) (w : SBuf.Win) (fix csum : Bool)
    (hI : Gp.C18.Inv b) (hg : w.gen = b.gen) (ho : w.off = b.start) (hn : w.n = 8)
    (hl : b.start + 8 ≤ b.len) (hlen : ((SBuf.contents b).drop 8).length = n) :
    view (serializeInto l n b w fix csum) = serializeSpec l ((SBuf.contents b).drop 8) fix csum := by
  obtain ⟨_, h2, _⟩ := hI
  have hk : 8 ≤ b.len - b.start := by omega
  have hm : b.start + (b.len - b.start) ≤ b.mem.length := by omega
  have hc : SBuf.contents b = (b.mem.drop b.start).take (b.len - b.start) := rfl
  cases fix <;> cases csum <;>
    simp only [serializeInto, put16At, SBuf.write, hn, hg, ho, serializeSpec, fixLen, view, header, putBe16, hlen,
      pure, bind, Res.bind, u8_zero, Nat.zero_add, Nat.add_zero, Nat.reduceAdd, Nat.reduceLT, Nat.reduceLeDiff,
      Nat.zero_le, if_true, Bool.false_eq_true, if_false, List.cons_append, List.nil_append]
  all_goals simp only [contents_mem, drop_take_set8 _ _ _ hk hm, ← hc, Nat.zero_div, u8_zero,
    List.cons_append, List.nil_append]
  all_goals try (generalize computeChecksum _ _ = r; cases r)
  all_goals simp only [contents_mem, drop_take_set10 _ _ _ hk hm, ← hc, List.cons_append, List.nil_append]

/-- SerializeTo refines its byte-level specification on every well-formed buffer. -/
theorem serialize_spec (l : Layer) (b : SBuf.SBuf) (fix csum : Bool) (hI : Gp.C18.Inv b) :
    view (serializeUdp l b fix csum) = serializeSpec l (SBuf.contents b) fix csum := by
  unfold serializeUdp
  have hd := Gp.C18.prepend_contents_drop b 8 hI
  have h := serializeInto_spec l (SBuf.contents b).length (SBuf.prepend b 8).1 (SBuf.prepend b 8).2 fix csum
    (Gp.C18.inv_prepend' b 8 hI) rfl rfl rfl (Gp.C18.prepend_start_len b 8 hI) (by rw [hd])
  rw [h, hd]

theorem pseudoSum_ne_panic (p : Pseudo) (k : PanicKind) : pseudoSum p ≠ .panic k := by
  cases p with
  | none => intro h; cases h
  | v4 s d => simp only [pseudoSum]; split <;> simp
  | v6 s d => simp only [pseudoSum]; split <;> simp

theorem computeChecksum_ne_panic (p : Pseudo) (x : Bytes) (k : PanicKind) : computeChecksum p x ≠ .panic k := by
  unfold computeChecksum
  cases h : pseudoSum p with
  | ok a => intro h'; cases h'
  | err e => intro h'; cases h'
  | panic k' => exact absurd h (pseudoSum_ne_panic _ _)

/-- The stores never panic, whatever the buffer (no invariant needed): the window has 8 bytes. -/
theorem serializeInto_no_panic (l : Layer) (n : Nat) (b : SBuf.SBuf) (w : SBuf.Win) (fix csum : Bool)
    (hn : w.n = 8) (k : PanicKind) : serializeInto l n b w fix csum ≠ .panic k := by
  by_cases hg : w.gen = b.gen <;> cases fix <;> cases csum <;>
    simp only [serializeInto, put16At, SBuf.write, hn, hg, pure, bind, Res.bind, Nat.zero_add, Nat.reduceAdd,
      Nat.reduceLT, Nat.reduceLeDiff, Nat.zero_le, if_true, Bool.false_eq_true, if_false] <;>
    first
    | (intro h; cases h)
    | (generalize hr : computeChecksum _ _ = r
       cases r with
       | ok a => intro h; cases h
       | err e => intro h; cases h
       | panic k' => exact absurd hr (computeChecksum_ne_panic _ _ _))

/-- What SerializeTo leaves alone in the buffer. -/
theorem serializeInto_frame (l l' : Layer) (n : Nat) (b b' : SBuf.SBuf) (w : SBuf.Win) (fix csum : Bool)
    (hn : w.n = 8) (h : serializeInto l n b w fix csum = .ok (b', l')) :
    b'.start = b.start ∧ b'.len = b.len ∧ b'.mem.length = b.mem.length ∧ b'.prepended = b.prepended ∧
    b'.appended = b.appended ∧ b'.layers = b.layers ∧ b'.gen = b.gen := by
  revert h
  by_cases hg : w.gen = b.gen <;> cases fix <;> cases csum <;>
    simp only [serializeInto, put16At, SBuf.write, hn, hg, pure, bind, Res.bind, Nat.zero_add, Nat.reduceAdd,
      Nat.reduceLT, Nat.reduceLeDiff, Nat.zero_le, if_true, Bool.false_eq_true, if_false] <;>
    first
    | (intro h; cases h; simp)
    | (generalize computeChecksum _ _ = r
       cases r with
       | ok a => intro h; cases h; simp
       | err e => intro h; cases h
       | panic k' => intro h; cases h)

/-! ## Byte-level facts for the round trip -/

theorem be16_u8 (n : Nat) (h : n < 65536) : be16 (u8 (n / 256)) (u8 n) = n := by
  simp only [be16, u8, UInt8.toNat_ofNat']
  omega

theorem be16_lt (a b : UInt8) : be16 a b < 65536 := by
  have := a.toNat_lt; have := b.toNat_lt
  simp only [be16]; omega

end Gp.Udp
