import Gp.Model.Layers.Ntp
import Gp.Lemmas.SBuf
/-
  Helper lemmas for engine `lntp` (NTP and VRRPv2 codecs), part 1: decoding.  Core Lean only.

  Section 1 holds the *definitions* that occur in the statements of the property theorems
  (functional specifications of the two DecodeFromBytes methods); the rest is proof machinery.
-/
namespace Gp.Ntp
open Gp Gp.SBuf Gp.Gen.Ntp

/-! ## 1. Definitions used in property statements -/

/-- Byte `i` of a byte string (0 for a missing byte; only used where the byte exists). -/
def byteAt (v : Bytes) (i : Nat) : UInt8 := v.getD i 0

/-- Big-endian 16-bit value at offset `i`. -/
def u16At (v : Bytes) (i : Nat) : Nat := be16 (byteAt v i) (byteAt v (i + 1))

/-- Big-endian 32-bit value at offset `i`. -/
def u32At (v : Bytes) (i : Nat) : Nat :=
  be32 (byteAt v i) (byteAt v (i + 1)) (byteAt v (i + 2)) (byteAt v (i + 3))

/-- Big-endian 64-bit value at offset `i`. -/
def u64At (v : Bytes) (i : Nat) : Nat :=
  be64 (byteAt v i) (byteAt v (i + 1)) (byteAt v (i + 2)) (byteAt v (i + 3))
       (byteAt v (i + 4)) (byteAt v (i + 5)) (byteAt v (i + 6)) (byteAt v (i + 7))

/-- The layer a successful `NTP.DecodeFromBytes` produces: a function of the visible bytes alone.
    Contents = the whole input, BaseLayer.Payload = nil, ExtensionBytes = everything behind the 48
    header bytes. -/
def ntpLayer (v : Bytes) : NTP :=
  { contents := v, payload := [],
    leapIndicator := ((byteAt v 0).toNat &&& 0xC0) >>> 6,
    version := ((byteAt v 0).toNat &&& 0x38) >>> 3,
    mode := (byteAt v 0).toNat &&& 0x07,
    stratum := (byteAt v 1).toNat,
    poll := int8OfByte (byteAt v 2),
    precision := int8OfByte (byteAt v 3),
    rootDelay := u32At v 4, rootDispersion := u32At v 8, referenceID := u32At v 12,
    referenceTimestamp := u64At v 16, originTimestamp := u64At v 24,
    receiveTimestamp := u64At v 32, transmitTimestamp := u64At v 40,
    extensionBytes := v.drop 48 }

/-- What `NTP.DecodeFromBytes` computes from at least 48 visible bytes. -/
def ntpDecSpec (v : Bytes) : DecOut NTP := { layer := ntpLayer v, trunc := false, err := false }

/-- The VRRP address count byte. -/
def vrrpCount (v : Bytes) : Nat := (byteAt v 3).toNat

/-- The receiver after the BaseLayer/Version/Type assignments of `VRRPv2.DecodeFromBytes` (what the
    "unrecognized type" error return leaves behind). -/
def vrrpHdr1 (old : VRRP) (v : Bytes) : VRRP :=
  { old with contents := v, payload := [], version := (byteAt v 0).toNat >>> 4,
             type := (byteAt v 0).toNat &&& 0x0F }

/-- … and after VirtualRtrID/Priority/CountIPAddr (what the two count-related error returns leave). -/
def vrrpHdr2 (old : VRRP) (v : Bytes) : VRRP :=
  { vrrpHdr1 old v with virtualRtrID := (byteAt v 1).toNat, priority := (byteAt v 2).toNat,
                        countIPAddr := vrrpCount v }

/-- The address list: `n` consecutive 4-byte windows starting at `off`. -/
def vrrpAddrs (v : Bytes) : Nat → Nat → List Bytes
  | 0, _ => []
  | n + 1, off => (v.drop off).take 4 :: vrrpAddrs v n (off + 4)

/-- The layer a successful `VRRPv2.DecodeFromBytes` produces: a function of the visible bytes alone. -/
def vrrpLayer (v : Bytes) : VRRP :=
  { contents := v, payload := [], version := (byteAt v 0).toNat >>> 4,
    type := (byteAt v 0).toNat &&& 0x0F, virtualRtrID := (byteAt v 1).toNat,
    priority := (byteAt v 2).toNat, countIPAddr := vrrpCount v, authType := (byteAt v 4).toNat,
    adverInt := (byteAt v 5).toNat, checksum := u16At v 6, ipAddress := vrrpAddrs v (vrrpCount v) 8 }

/-- What `VRRPv2.DecodeFromBytes` computes from the visible bytes `v` (|v| ≥ 8) and the receiver. -/
def vrrpDecSpec (old : VRRP) (v : Bytes) : DecOut VRRP :=
  if (byteAt v 0).toNat &&& 0x0F ≠ 1 then { layer := vrrpHdr1 old v, trunc := false, err := true }
  else if vrrpCount v < 1 then { layer := vrrpHdr2 old v, trunc := false, err := true }
  else if v.length < 8 + 4 * vrrpCount v then { layer := vrrpHdr2 old v, trunc := true, err := true }
  else { layer := vrrpLayer v, trunc := false, err := false }

/-- Two parser states agree on everything a caller may rely on after DecodeLayers: the decoded type
    list, the truncation flag, and the contents of every layer object whose type is in the list. -/
def DlpAgree (s1 s2 : DlpState) : Prop :=
  s1.decoded = s2.decoded ∧ s1.trunc = s2.trunc ∧
  (LayerTypeNTP ∈ s1.decoded → s1.ntp = s2.ntp) ∧
  (LayerTypeVRRP ∈ s1.decoded → s1.vrrp = s2.vrrp)

/-! ## 2. Go slices -/

theorem min_size : ntpMinimumRecordSizeInBytes = 48 := rfl

theorem GSlice.slice_ok (s : GSlice) (a b : Nat) (hab : a ≤ b) (hb : b ≤ s.len) :
    s.slice a b = .ok { vis := (s.vis.drop a).take (b - a), tail := s.vis.drop b ++ s.tail } := by
  unfold GSlice.slice GSlice.cap
  unfold GSlice.len at hb
  have h1 : a ≤ b ∧ b ≤ s.vis.length + s.tail.length := ⟨hab, by omega⟩
  rw [if_pos h1]
  have ha : a ≤ s.vis.length := by omega
  rw [List.drop_append_of_le_length ha, List.drop_append_of_le_length hb,
    List.take_append_of_le_length (by rw [List.length_drop]; omega)]

/-- `data[:len(data)]` -/
theorem GSlice.slice_all (s : GSlice) :
    s.slice 0 s.len = .ok { vis := s.vis, tail := s.tail } := by
  rw [GSlice.slice_ok s 0 s.len (Nat.zero_le _) (Nat.le_refl _)]
  unfold GSlice.len
  simp

theorem GSlice.sliceFrom_ok (s : GSlice) (a : Nat) (ha : a ≤ s.len) :
    s.sliceFrom a = .ok { vis := s.vis.drop a, tail := s.tail } := by
  unfold GSlice.sliceFrom; rw [if_pos ha]

theorem GSlice.index_ok (s : GSlice) (i : Nat) (h : i < s.len) :
    s.index i = .ok (byteAt s.vis i) := by
  unfold GSlice.index Gp.index byteAt
  have h' : i < s.vis.length := h
  simp [List.getD_eq_getElem?_getD, h']

/-- The two-byte window `[i, i+2)` of a long enough byte string. -/
theorem two_bytes (v : Bytes) (i : Nat) (h : i + 2 ≤ v.length) :
    (v.drop i).take 2 = [byteAt v i, byteAt v (i + 1)] := by
  have h0 : i < v.length := by omega
  have h1 : i + 1 < v.length := by omega
  have e : v.drop i = v[i] :: v[i+1] :: v.drop (i+2) := by
    rw [List.drop_eq_getElem_cons h0, List.drop_eq_getElem_cons h1]
  rw [e]
  simp only [byteAt, List.take_succ_cons, List.take_zero, List.getD_eq_getElem?_getD,
    List.getElem?_eq_getElem h0, List.getElem?_eq_getElem h1, Option.getD_some]

/-- The four-byte window `[i, i+4)`. -/
theorem four_bytes (v : Bytes) (i : Nat) (h : i + 4 ≤ v.length) :
    (v.drop i).take 4 = [byteAt v i, byteAt v (i + 1), byteAt v (i + 2), byteAt v (i + 3)] := by
  have h0 : i < v.length := by omega
  have h1 : i + 1 < v.length := by omega
  have h2 : i + 2 < v.length := by omega
  have h3 : i + 3 < v.length := by omega
  have e : v.drop i = v[i] :: v[i+1] :: v[i+2] :: v[i+3] :: v.drop (i+4) := by
    rw [List.drop_eq_getElem_cons h0, List.drop_eq_getElem_cons h1, List.drop_eq_getElem_cons h2,
      List.drop_eq_getElem_cons h3]
  rw [e]
  simp only [byteAt, List.take_succ_cons, List.take_zero, List.getD_eq_getElem?_getD,
    List.getElem?_eq_getElem h0, List.getElem?_eq_getElem h1, List.getElem?_eq_getElem h2,
    List.getElem?_eq_getElem h3, Option.getD_some]

/-- The eight-byte window `[i, i+8)`. -/
theorem eight_bytes (v : Bytes) (i : Nat) (h : i + 8 ≤ v.length) :
    (v.drop i).take 8 = [byteAt v i, byteAt v (i + 1), byteAt v (i + 2), byteAt v (i + 3),
      byteAt v (i + 4), byteAt v (i + 5), byteAt v (i + 6), byteAt v (i + 7)] := by
  have e : (v.drop i).take 8 = (v.drop i).take 4 ++ (v.drop (i + 4)).take 4 := by
    have : (8 : Nat) = 4 + 4 := rfl
    rw [this, List.take_add, List.drop_drop]
  rw [e, four_bytes v i (by omega), four_bytes v (i + 4) (by omega)]
  rfl

theorem uint16_two (a b : UInt8) (t : Bytes) : uint16 { vis := [a, b], tail := t } = .ok (be16 a b) := by
  simp [uint16, GSlice.index, Gp.index, bind, Res.bind, pure]

theorem uint32be_four (a b c d : UInt8) (t : Bytes) :
    uint32be { vis := [a, b, c, d], tail := t } = .ok (be32 a b c d) := by
  simp [uint32be, GSlice.index, Gp.index, bind, Res.bind, pure]

theorem uint64be_eight (a b c d e f g h : UInt8) (t : Bytes) :
    uint64be { vis := [a, b, c, d, e, f, g, h], tail := t } = .ok (be64 a b c d e f g h) := by
  simp [uint64be, GSlice.index, Gp.index, bind, Res.bind, pure]

theorem uint16_vis (v t : Bytes) (i : Nat) (h : i + 2 ≤ v.length) :
    uint16 { vis := (v.drop i).take 2, tail := t } = .ok (u16At v i) := by
  rw [two_bytes v i h]; exact uint16_two _ _ _

theorem uint32be_vis (v t : Bytes) (i : Nat) (h : i + 4 ≤ v.length) :
    uint32be { vis := (v.drop i).take 4, tail := t } = .ok (u32At v i) := by
  rw [four_bytes v i h]; exact uint32be_four _ _ _ _ _

theorem uint64be_vis (v t : Bytes) (i : Nat) (h : i + 8 ≤ v.length) :
    uint64be { vis := (v.drop i).take 8, tail := t } = .ok (u64At v i) := by
  rw [eight_bytes v i h]; exact uint64be_eight _ _ _ _ _ _ _ _ _

theorem be16_lt (a b : UInt8) : be16 a b < 65536 := by
  have := a.toNat_lt; have := b.toNat_lt
  unfold be16; omega

theorem be32_lt (a b c d : UInt8) : be32 a b c d < 4294967296 := by
  have := a.toNat_lt; have := b.toNat_lt; have := c.toNat_lt; have := d.toNat_lt
  unfold be32; omega

theorem be64_lt (a b c d e f g h : UInt8) : be64 a b c d e f g h < 18446744073709551616 := by
  have h1 := be32_lt a b c d
  have h2 := be32_lt e f g h
  unfold be64; omega

theorem u16At_lt (v : Bytes) (i : Nat) : u16At v i < 65536 := be16_lt _ _
theorem u32At_lt (v : Bytes) (i : Nat) : u32At v i < 4294967296 := be32_lt _ _ _ _
theorem u64At_lt (v : Bytes) (i : Nat) : u64At v i < 18446744073709551616 := be64_lt _ _ _ _ _ _ _ _

/-! ## 3. DecodeFromBytes = its functional specification -/

theorem NTP.decode_short (old : NTP) (d : GSlice) (h : d.len < 48) :
    old.decodeFromBytes d = .ok { layer := old, trunc := true, err := true } := by
  unfold NTP.decodeFromBytes; rw [min_size, if_pos h]

theorem NTP.decode_long (old : NTP) (d : GSlice) (h : 48 ≤ d.len) :
    old.decodeFromBytes d = .ok (ntpDecSpec d.vis) := by
  have hl : 48 ≤ d.vis.length := h
  unfold NTP.decodeFromBytes
  rw [min_size, if_neg (by omega)]
  rw [GSlice.slice_all d, Res.bind_ok]
  rw [GSlice.index_ok d 0 (by omega), Res.bind_ok]
  rw [GSlice.index_ok d 1 (by omega), Res.bind_ok]
  rw [GSlice.index_ok d 2 (by omega), Res.bind_ok]
  rw [GSlice.index_ok d 3 (by omega), Res.bind_ok]
  rw [GSlice.slice_ok d 4 8 (by omega) (by omega), Res.bind_ok]
  simp only [Nat.reduceSub]
  rw [uint32be_vis d.vis _ 4 (by omega), Res.bind_ok]
  rw [GSlice.slice_ok d 8 12 (by omega) (by omega), Res.bind_ok]
  simp only [Nat.reduceSub]
  rw [uint32be_vis d.vis _ 8 (by omega), Res.bind_ok]
  rw [GSlice.slice_ok d 12 16 (by omega) (by omega), Res.bind_ok]
  simp only [Nat.reduceSub]
  rw [uint32be_vis d.vis _ 12 (by omega), Res.bind_ok]
  rw [GSlice.slice_ok d 16 24 (by omega) (by omega), Res.bind_ok]
  simp only [Nat.reduceSub]
  rw [uint64be_vis d.vis _ 16 (by omega), Res.bind_ok]
  rw [GSlice.slice_ok d 24 32 (by omega) (by omega), Res.bind_ok]
  simp only [Nat.reduceSub]
  rw [uint64be_vis d.vis _ 24 (by omega), Res.bind_ok]
  rw [GSlice.slice_ok d 32 40 (by omega) (by omega), Res.bind_ok]
  simp only [Nat.reduceSub]
  rw [uint64be_vis d.vis _ 32 (by omega), Res.bind_ok]
  rw [GSlice.slice_ok d 40 48 (by omega) (by omega), Res.bind_ok]
  simp only [Nat.reduceSub]
  rw [uint64be_vis d.vis _ 40 (by omega), Res.bind_ok]
  rw [GSlice.sliceFrom_ok d 48 h, Res.bind_ok]
  simp only [pure, ntpDecSpec, ntpLayer]

theorem NTP.decode_vis (old : NTP) (v foreign : Bytes) (h : 48 ≤ v.length) :
    old.decodeFromBytes { vis := v, tail := foreign } = .ok (ntpDecSpec v) :=
  NTP.decode_long old { vis := v, tail := foreign } h

/-- The address loop: with `off + 4n` bytes visible every iteration's slice is in range and the
    result is the accumulator followed by the `n` windows. -/
theorem vrrpAddrLoop_ok (d : GSlice) : ∀ (n off : Nat) (acc : List Bytes), off + 4 * n ≤ d.len →
    vrrpAddrLoop d n off acc = .ok (acc ++ vrrpAddrs d.vis n off) := by
  intro n
  induction n with
  | zero => intro off acc _; simp [vrrpAddrLoop, vrrpAddrs]
  | succ n ih =>
    intro off acc h
    unfold vrrpAddrLoop
    rw [GSlice.slice_ok d off (off + 4) (by omega) (by omega), Res.bind_ok]
    simp only [Nat.add_sub_cancel_left]
    rw [ih (off + 4) _ (by omega)]
    simp [vrrpAddrs, List.append_assoc]

theorem VRRP.decode_short (old : VRRP) (d : GSlice) (h : d.len < 8) :
    old.decodeFromBytes d = .ok { layer := old, trunc := true, err := true } := by
  unfold VRRP.decodeFromBytes; rw [if_pos h]

theorem VRRP.decode_long (old : VRRP) (d : GSlice) (h : 8 ≤ d.len) :
    old.decodeFromBytes d = .ok (vrrpDecSpec old d.vis) := by
  have hl : 8 ≤ d.vis.length := h
  unfold VRRP.decodeFromBytes
  rw [if_neg (by omega)]
  rw [GSlice.slice_all d, Res.bind_ok]
  rw [GSlice.index_ok d 0 (by omega), Res.bind_ok, Res.bind_ok]
  unfold vrrpDecSpec
  simp only
  by_cases ht : (byteAt d.vis 0).toNat &&& 0x0F ≠ 1
  · rw [if_pos ht, if_pos ht]; rfl
  · rw [if_neg ht, if_neg ht]
    rw [GSlice.index_ok d 1 (by omega), Res.bind_ok]
    rw [GSlice.index_ok d 2 (by omega), Res.bind_ok]
    rw [GSlice.index_ok d 3 (by omega), Res.bind_ok]
    by_cases hc : vrrpCount d.vis < 1
    · rw [if_pos (show (byteAt d.vis 3).toNat < 1 from hc), if_pos hc]; rfl
    · rw [if_neg (show ¬ (byteAt d.vis 3).toNat < 1 from hc), if_neg hc]
      by_cases hs : d.len < 8 + 4 * vrrpCount d.vis
      · rw [if_pos (show d.len < 8 + 4 * (byteAt d.vis 3).toNat from hs),
          if_pos (show d.vis.length < 8 + 4 * vrrpCount d.vis from hs)]; rfl
      · rw [if_neg (show ¬ d.len < 8 + 4 * (byteAt d.vis 3).toNat from hs),
          if_neg (show ¬ d.vis.length < 8 + 4 * vrrpCount d.vis from hs)]
        rw [GSlice.index_ok d 4 (by omega), Res.bind_ok]
        rw [GSlice.index_ok d 5 (by omega), Res.bind_ok]
        rw [GSlice.slice_ok d 6 8 (by omega) (by omega), Res.bind_ok]
        simp only [Nat.reduceSub]
        rw [uint16_vis d.vis _ 6 (by omega), Res.bind_ok]
        rw [vrrpAddrLoop_ok d _ 8 _ (by unfold vrrpCount at hs; omega), Res.bind_ok]
        simp only [pure, vrrpLayer, List.nil_append]
        rfl

theorem VRRP.decode_vis (old : VRRP) (v foreign : Bytes) (h : 8 ≤ v.length) :
    old.decodeFromBytes { vis := v, tail := foreign } = .ok (vrrpDecSpec old v) :=
  VRRP.decode_long old { vis := v, tail := foreign } h

/-! ## 4. Facts about the specifications -/

theorem vrrpDecSpec_payload (old : VRRP) (v : Bytes) : (vrrpDecSpec old v).layer.payload = [] := by
  unfold vrrpDecSpec
  split
  · rfl
  · split
    · rfl
    · split <;> rfl

theorem vrrpDecSpec_err_indep (a b : VRRP) (v : Bytes) : (vrrpDecSpec a v).err = (vrrpDecSpec b v).err ∧
    (vrrpDecSpec a v).trunc = (vrrpDecSpec b v).trunc ∧
    ((vrrpDecSpec a v).err = false → (vrrpDecSpec a v).layer = (vrrpDecSpec b v).layer) := by
  unfold vrrpDecSpec
  by_cases h1 : (byteAt v 0).toNat &&& 0x0F ≠ 1
  · rw [if_pos h1, if_pos h1]; exact ⟨rfl, rfl, fun hh => by cases hh⟩
  · rw [if_neg h1, if_neg h1]
    by_cases h2 : vrrpCount v < 1
    · rw [if_pos h2, if_pos h2]; exact ⟨rfl, rfl, fun hh => by cases hh⟩
    · rw [if_neg h2, if_neg h2]
      by_cases h3 : v.length < 8 + 4 * vrrpCount v
      · rw [if_pos h3, if_pos h3]; exact ⟨rfl, rfl, fun hh => by cases hh⟩
      · rw [if_neg h3, if_neg h3]; exact ⟨rfl, rfl, fun _ => rfl⟩

theorem vrrpAddrs_length (v : Bytes) : ∀ (n off : Nat), (vrrpAddrs v n off).length = n := by
  intro n
  induction n with
  | zero => intro off; rfl
  | succ n ih => intro off; simp [vrrpAddrs, ih]

/-- Address `i` of the list is the 4-byte window at `off + 4i`. -/
theorem vrrpAddrs_get (v : Bytes) : ∀ (n off i : Nat), i < n →
    (vrrpAddrs v n off)[i]? = some ((v.drop (off + 4 * i)).take 4) := by
  intro n
  induction n with
  | zero => intro off i h; omega
  | succ n ih =>
    intro off i h
    cases i with
    | zero => simp [vrrpAddrs]
    | succ i =>
      simp only [vrrpAddrs, List.getElem?_cons_succ]
      rw [ih (off + 4) i (by omega)]
      congr 3; omega

/-! ## 5. The DecodingLayerParser loop over {NTP, VRRPv2}: one iteration -/

theorem lt_ne_1 : ¬ (LayerTypeVRRP = LayerTypeNTP) := by decide

/-- One run of the parser loop on an NTP layer: the payload handed on is empty, so the loop ends. -/
theorem dlpLoop_ntp (fuel : Nat) (st : DlpState) (data : GSlice) :
    dlpLoop (fuel + 1) st LayerTypeNTP data =
      if data.len < 48 then .ok ({ st with trunc := st.trunc || true }, 1)
      else .ok ({ st with ntp := ntpLayer data.vis, trunc := st.trunc || false,
                          decoded := st.decoded ++ [LayerTypeNTP] }, 0) := by
  by_cases h : data.len < 48
  · rw [if_pos h]
    unfold dlpLoop
    simp only [if_true, NTP.decode_short st.ntp data h]
  · rw [if_neg h]
    unfold dlpLoop
    simp only [if_true, NTP.decode_long st.ntp data (by omega)]
    rfl

theorem dlpLoop_vrrp (fuel : Nat) (st : DlpState) (data : GSlice) :
    dlpLoop (fuel + 1) st LayerTypeVRRP data =
      if data.len < 8 then .ok ({ st with trunc := st.trunc || true }, 1)
      else
        let o := vrrpDecSpec st.vrrp data.vis
        let st1 : DlpState := { st with vrrp := o.layer, trunc := st.trunc || o.trunc }
        if o.err then .ok (st1, 1)
        else .ok ({ st1 with decoded := st.decoded ++ [LayerTypeVRRP] }, 0) := by
  by_cases h : data.len < 8
  · rw [if_pos h]
    unfold dlpLoop
    simp only [lt_ne_1, if_false, if_true, VRRP.decode_short st.vrrp data h]
  · rw [if_neg h]
    unfold dlpLoop
    simp only [lt_ne_1, if_false, if_true, VRRP.decode_long st.vrrp data (by omega)]
    split
    · rfl
    · have hp := vrrpDecSpec_payload st.vrrp data.vis
      simp only [VRRP.layerPayload, hp, GSlice.len, List.length_nil, if_true]

theorem dlpLoop_other (fuel : Nat) (st : DlpState) (typ : Nat) (data : GSlice)
    (h1 : typ ≠ LayerTypeNTP) (h2 : typ ≠ LayerTypeVRRP) :
    dlpLoop (fuel + 1) st typ data = if typ = LayerTypeZero then .ok (st, 0) else .ok (st, 2) := by
  unfold dlpLoop
  simp only [h1, h2, if_false]

theorem dlpLoop_no_panic (fuel : Nat) (st : DlpState) (typ : Nat) (data : GSlice) (k : PanicKind) :
    dlpLoop fuel st typ data ≠ .panic k := by
  cases fuel with
  | zero => unfold dlpLoop; exact fun h => nomatch h
  | succ fuel =>
    by_cases h1 : typ = LayerTypeNTP
    · subst h1; rw [dlpLoop_ntp]
      split <;> exact fun h => nomatch h
    · by_cases h2 : typ = LayerTypeVRRP
      · subst h2; rw [dlpLoop_vrrp]
        split
        · exact fun h => nomatch h
        · simp only; split <;> exact fun h => nomatch h
      · rw [dlpLoop_other _ _ _ _ h1 h2]; split <;> exact fun h => nomatch h

/-- Any two positive amounts of fuel give the same run (the loop body runs once). -/
theorem dlpLoop_fuel (f1 f2 : Nat) (st : DlpState) (typ : Nat) (data : GSlice) :
    dlpLoop (f1 + 1) st typ data = dlpLoop (f2 + 1) st typ data := by
  by_cases e1 : typ = LayerTypeNTP
  · subst e1; rw [dlpLoop_ntp, dlpLoop_ntp]
  · by_cases e2 : typ = LayerTypeVRRP
    · subst e2; rw [dlpLoop_vrrp, dlpLoop_vrrp]
    · rw [dlpLoop_other _ _ _ _ e1 e2, dlpLoop_other _ _ _ _ e1 e2]

/-- The result of the parser loop does not depend on the capacity of the packet buffer / the bytes
    behind the input. -/
theorem dlpLoop_cap (fuel : Nat) (st : DlpState) (typ : Nat) (v t1 t2 : Bytes) :
    dlpLoop fuel st typ { vis := v, tail := t1 } = dlpLoop fuel st typ { vis := v, tail := t2 } := by
  cases fuel with
  | zero => unfold dlpLoop; rfl
  | succ fuel =>
    by_cases e1 : typ = LayerTypeNTP
    · subst e1; rw [dlpLoop_ntp, dlpLoop_ntp]; rfl
    · by_cases e2 : typ = LayerTypeVRRP
      · subst e2; rw [dlpLoop_vrrp, dlpLoop_vrrp]; rfl
      · rw [dlpLoop_other _ _ _ _ e1 e2, dlpLoop_other _ _ _ _ e1 e2]

theorem dlpLoop_agree (fuel : Nat) (s1 s2 : DlpState) (typ : Nat) (data : GSlice) (h : DlpAgree s1 s2) :
    ∃ r1 r2 c, dlpLoop fuel s1 typ data = .ok (r1, c) ∧ dlpLoop fuel s2 typ data = .ok (r2, c) ∧
      DlpAgree r1 r2 := by
  cases fuel with
  | zero => exact ⟨s1, s2, 0, by unfold dlpLoop; rfl, by unfold dlpLoop; rfl, h⟩
  | succ fuel =>
    obtain ⟨hd, ht, hn, hv⟩ := h
    by_cases e1 : typ = LayerTypeNTP
    · subst e1; rw [dlpLoop_ntp, dlpLoop_ntp]
      by_cases hs : data.len < 48
      · rw [if_pos hs, if_pos hs]
        exact ⟨_, _, 1, rfl, rfl, hd, by simp only [ht], hn, hv⟩
      · rw [if_neg hs, if_neg hs]
        refine ⟨_, _, 0, rfl, rfl, by simp only [hd], by simp only [ht], fun _ => rfl, fun hm => ?_⟩
        simp only [List.mem_append, List.mem_singleton] at hm
        rcases hm with hm | hm
        · exact hv hm
        · exact absurd hm lt_ne_1
    · by_cases e2 : typ = LayerTypeVRRP
      · subst e2; rw [dlpLoop_vrrp, dlpLoop_vrrp]
        by_cases hs : data.len < 8
        · rw [if_pos hs, if_pos hs]
          exact ⟨_, _, 1, rfl, rfl, hd, by simp only [ht], hn, hv⟩
        · rw [if_neg hs, if_neg hs]
          simp only
          obtain ⟨x1, x2, x3⟩ := vrrpDecSpec_err_indep s1.vrrp s2.vrrp data.vis
          by_cases hee : (vrrpDecSpec s1.vrrp data.vis).err = true
          · have hee2 : (vrrpDecSpec s2.vrrp data.vis).err = true := by rw [← x1]; exact hee
            rw [if_pos hee, if_pos hee2]
            refine ⟨_, _, 1, rfl, rfl, hd, by simp only [ht, x2], hn, fun hm => ?_⟩
            -- 119 ∈ decoded: both objects held the same value before, and a failed decode overwrites
            -- the same fields with the same values
            have hv' := hv hm
            simp only
            rw [hv']
          · have hef : (vrrpDecSpec s1.vrrp data.vis).err = false := by simpa using hee
            have hee2 : ¬ (vrrpDecSpec s2.vrrp data.vis).err = true := by rw [← x1]; exact hee
            rw [if_neg hee, if_neg hee2, ← x3 hef]
            refine ⟨_, _, 0, rfl, rfl, by simp only [hd], by simp only [ht, x2], fun hm => ?_, fun _ => rfl⟩
            simp only [List.mem_append, List.mem_singleton] at hm
            rcases hm with hm | hm
            · exact hn hm
            · exact absurd hm.symm lt_ne_1
      · rw [dlpLoop_other _ _ _ _ e1 e2, dlpLoop_other _ _ _ _ e1 e2]
        split
        · exact ⟨_, _, 0, rfl, rfl, hd, ht, hn, hv⟩
        · exact ⟨_, _, 2, rfl, rfl, hd, ht, hn, hv⟩

end Gp.Ntp
