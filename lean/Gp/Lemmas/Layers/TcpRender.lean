import Gp.Model.Layers.Tcp
/-
  `ltcp` part 3: the renderer TCPOption.String (fixed variant, nil-safe) never panics.
-/
namespace Gp.Tcp
open Gp Gp.Gen.Tcp

theorem guard_deref {α : Type} (o : Option α) (d : Res String) (f : α → Res String)
    (hd : ∀ k, d ≠ .panic k) (hf : ∀ a k, f a ≠ .panic k) (k : PanicKind) :
    (if (true && o.isNone) = true then d else (deref o >>= f)) ≠ .panic k := by
  cases o with
  | none => simpa using hd k
  | some a => simpa [deref] using hf a k

theorem ok_ne_panic {α : Type} (a : α) (k : PanicKind) : (Res.ok a : Res α) ≠ .panic k := by
  intro h; cases h

theorem ite_ne_panic {α : Type} {c : Prop} [Decidable c] {a b : Res α} {k : PanicKind}
    (h1 : c → a ≠ .panic k) (h2 : ¬c → b ≠ .panic k) : (if c then a else b) ≠ .panic k := by
  by_cases h : c
  · rw [if_pos h]; exact h1 h
  · rw [if_neg h]; exact h2 h

theorem optDflt_no_panic (t : TcpOption) (k : PanicKind) : optDflt t ≠ .panic k := ok_ne_panic _ _

theorem mptcpString_no_panic (v : Variant) (hv : v.renderNilSafe = true) (t : TcpOption) (k : PanicKind) :
    mptcpString v t ≠ .panic k := by
  unfold mptcpString
  rw [hv]
  have hd := optDflt_no_panic t
  generalize optDflt t = d at hd
  refine ite_ne_panic (fun _ => guard_deref _ _ _ hd (fun _ => ok_ne_panic _) k) fun _ => ?_
  refine ite_ne_panic (fun _ => guard_deref _ _ _ hd (fun _ => ok_ne_panic _) k) fun _ => ?_
  refine ite_ne_panic (fun _ => ok_ne_panic _ _) fun _ => ?_
  refine ite_ne_panic (fun _ => guard_deref _ _ _ hd (fun _ => ok_ne_panic _) k) fun _ => ?_
  refine ite_ne_panic (fun _ => guard_deref _ _ _ hd (fun _ => ok_ne_panic _) k) fun _ => ?_
  refine ite_ne_panic (fun _ => guard_deref _ _ _ hd (fun _ => ok_ne_panic _) k) fun _ => ?_
  refine ite_ne_panic (fun _ => ok_ne_panic _ _) fun _ => ?_
  refine ite_ne_panic (fun _ => guard_deref _ _ _ hd (fun _ => ok_ne_panic _) k) fun _ => ?_
  refine ite_ne_panic (fun _ => ok_ne_panic _ _) fun _ => hd k

/-- TCPOption.String with the nil checks of proposed_fixes/ltcp-3: total on EVERY option value. -/
theorem optionString_no_panic' (v : Variant) (hv : v.renderNilSafe = true) (t : TcpOption) (k : PanicKind) :
    optionString v t ≠ .panic k := by
  unfold optionString
  refine ite_ne_panic (fun _ => ?_) fun _ => ?_
  · split
    · exact ok_ne_panic _ _
    · exact optDflt_no_panic _ _
  refine ite_ne_panic (fun _ => ?_) fun _ => ?_
  · split
    · exact ok_ne_panic _ _
    · exact optDflt_no_panic _ _
  refine ite_ne_panic (fun _ => mptcpString_no_panic v hv t k) fun _ => optDflt_no_panic _ _

theorem optionString_no_panic (t : TcpOption) (k : PanicKind) :
    optionString Variant.fixed t ≠ .panic k := optionString_no_panic' _ rfl t k

theorem renderOptions_no_panic (os : List TcpOption) : ∀ k : PanicKind,
    renderOptions Variant.fixed os ≠ .panic k := by
  induction os with
  | nil => exact fun k => ok_ne_panic _ _
  | cons o os ih =>
    intro k
    unfold renderOptions
    have h1 := optionString_no_panic o
    generalize optionString Variant.fixed o = r1 at h1
    cases r1 with
    | panic k' => exact absurd rfl (h1 k')
    | err e => intro h; cases h
    | ok s =>
      simp only [Res.bind_ok]
      generalize renderOptions Variant.fixed os = r2 at ih
      cases r2 with
      | panic k' => exact absurd rfl (ih k')
      | err e => intro h; cases h
      | ok ss => intro h; cases h

end Gp.Tcp
