import Gp.Lemmas.Layers.Diam
import Gp.Lemmas.Layers.ArpSer
/-
  Helper lemmas for engine `ldiam`, part 2: Diameter.SerializeTo over the C18 buffer model.
  Core Lean only.  Section 1 holds the *definitions* used in property statements (functional
  specification of SerializeTo; the observable view `serView` is the one of the larp lemmas).
-/
namespace Gp.Diam
open Gp Gp.SBuf Gp.C18 Gp.Arp

/-! ## 1. Definitions used in property statements -/

/-- `20 + Σ SerializedAVPLength(avp)`. -/
def msgLen (l : Diameter) : Nat := 20 + (l.avps.map serializedAVPLength).sum

/-- The receiver after the FixLengths assignment. -/
def diamFixed (l : Diameter) (fix : Bool) : Diameter :=
  if fix then { l with messageLength := msgLen l % 4294967296 } else l

/-- The 20 header bytes `Diameter.SerializeTo` writes. -/
def diamHeader (l : Diameter) : Bytes :=
  [u8 l.version, u8 (l.messageLength / 65536), u8 (l.messageLength / 256), u8 l.messageLength,
   u8 (cmdFlagsByte l), u8 (l.commandCode / 65536), u8 (l.commandCode / 256), u8 l.commandCode] ++
    putBe32 l.applicationID ++ putBe32 l.hopByHopID ++ putBe32 l.endToEndID

/-- All bytes of the layer: header, then every AVP (padded). -/
def diamEncode (l : Diameter) : Bytes := diamHeader l ++ (l.avps.map serializeAVP).flatten

/-- What `Diameter.SerializeTo` does, as a function of the layer, the payload already in the buffer
    and FixLengths: never an error; every requested byte is written. -/
def diamSerSpec (l : Diameter) (p : Bytes) (fix : Bool) : SerSpec Diameter :=
  { layer := diamFixed l fix, err := false, bytes := diamEncode (diamFixed l fix) ++ p }

/-- The stores of SerializeTo behind `PrependBytes`. -/
def diamStores (l : Diameter) (b : SBuf) (bytes : Win) : Res (SerOut Diameter) := do
  let b ← write b bytes 0 (u8 l.version)
  let b ← write b bytes 1 (u8 (l.messageLength / 65536))
  let b ← write b bytes 2 (u8 (l.messageLength / 256))
  let b ← write b bytes 3 (u8 l.messageLength)
  let b ← write b bytes 4 (u8 (cmdFlagsByte l))
  let b ← write b bytes 5 (u8 (l.commandCode / 65536))
  let b ← write b bytes 6 (u8 (l.commandCode / 256))
  let b ← write b bytes 7 (u8 l.commandCode)
  let w ← winSlice bytes 8 12
  let b ← putUint32be b w l.applicationID
  let w ← winSlice bytes 12 16
  let b ← putUint32be b w l.hopByHopID
  let w ← winSlice bytes 16 20
  let b ← putUint32be b w l.endToEndID
  let b ← copyAddrs b bytes 20 (l.avps.map serializeAVP)
  pure { buf := b, layer := l, err := false }

/-! ## 2. Sizes -/

theorem serializeAVP_length (a : AVP) : (serializeAVP a).length = serializedAVPLength a := by
  unfold serializeAVP serializedAVPLength
  have := padded_ge ((if a.fVendor then 12 else 8) + a.data.length)
  cases hv : a.fVendor <;> simp [hv, zeros, putBe32] at this ⊢ <;> omega

theorem flatten_length (avps : List AVP) :
    (avps.map serializeAVP).flatten.length = (avps.map serializedAVPLength).sum := by
  induction avps with
  | nil => rfl
  | cons a r ih => simp [List.flatten_cons, serializeAVP_length, ih]

theorem msgLen_fixed (l : Diameter) (fix : Bool) : msgLen (diamFixed l fix) = msgLen l := by
  unfold diamFixed; cases fix <;> rfl

theorem diamFixed_avps (l : Diameter) (fix : Bool) : (diamFixed l fix).avps = l.avps := by
  unfold diamFixed; cases fix <;> rfl

theorem diamHeader_length (l : Diameter) : (diamHeader l).length = 20 := rfl

theorem diam_serializeTo_eq (l : Diameter) (b : SBuf) (fix csum : Bool) :
    l.serializeTo b fix csum =
      diamStores (diamFixed l fix) (prepend b (msgLen l)).1 (prepend b (msgLen l)).2 := by
  unfold Diameter.serializeTo diamStores diamFixed msgLen
  cases fix <;> rfl

/-! ## 3. Writing the window front to back -/

/-- `b` is `b1` with the first `|W|` bytes of its contents replaced by `W`. -/
def Front (b1 b : SBuf) (W : Bytes) : Prop :=
  Inv b ∧ b.start = b1.start ∧ b.gen = b1.gen ∧ contents b = W ++ (contents b1).drop W.length

theorem front_write (b1 b : SBuf) (W : Bytes) (w : Win) (i : Nat) (v : UInt8) (hF : Front b1 b W)
    (hg : w.gen = b1.gen) (ho : w.off = b1.start) (hi : i = W.length) (hn : i < w.n)
    (hc : i < (contents b1).length) :
    ∃ b', write b w i v = .ok b' ∧ Front b1 b' (W ++ [v]) := by
  obtain ⟨inv, hs, hgen, hcon⟩ := hF
  subst hi
  obtain ⟨b', hb', c', i', s', g'⟩ := write_next b inv w W.length v W ((contents b1).drop W.length)
    (by rw [hgen]; exact hg) hn (by rw [hs, ho]) hcon (by rw [List.length_drop]; omega)
  refine ⟨b', hb', i', by rw [s', hs], by rw [g', hgen], ?_⟩
  rw [c', List.drop_drop, List.length_append, List.length_singleton]

theorem front_put32 (b1 b : SBuf) (W : Bytes) (w : Win) (i : Nat) (v : Nat) (hF : Front b1 b W)
    (hg : w.gen = b1.gen) (ho : w.off = b1.start) (hi : i = W.length) (hn : i + 4 ≤ w.n)
    (hc : i + 4 ≤ (contents b1).length) :
    ∃ w' b', winSlice w i (i + 4) = .ok w' ∧ putUint32be b w' v = .ok b' ∧ Front b1 b' (W ++ putBe32 v) := by
  obtain ⟨inv, hs, hgen, hcon⟩ := hF
  subst hi
  have hw : winSlice w W.length (W.length + 4) = .ok { gen := w.gen, off := w.off + W.length, n := W.length + 4 - W.length } := by
    unfold winSlice; rw [if_pos ⟨by omega, hn⟩]
  have hp : putUint32be b { gen := w.gen, off := w.off + W.length, n := W.length + 4 - W.length } v =
      .ok (fill b { gen := w.gen, off := w.off + W.length, n := W.length + 4 - W.length } (putBe32 v)) := by
    unfold putUint32be; rw [if_neg (by simp only; omega)]
  obtain ⟨c', i', s', g'⟩ := fill_next b inv { gen := w.gen, off := w.off + W.length, n := W.length + 4 - W.length }
    W ((contents b1).drop W.length) (putBe32 v) (by simp only; rw [hgen]; exact hg)
    (by simp only; rw [hs, ho]) hcon (by rw [putBe32_length, List.length_drop]; omega)
  refine ⟨_, _, hw, hp, i', by rw [s', hs], by rw [g', hgen], ?_⟩
  rw [c', List.drop_drop, List.length_append, putBe32_length]

/-- The stores behind `PrependBytes(msgLen)` put exactly header ++ AVPs in front of the payload. -/
theorem diam_stores_refines (l : Diameter) (b : SBuf) (h : Inv b) :
    ∃ o, diamStores l (prepend b (msgLen l)).1 (prepend b (msgLen l)).2 = .ok o ∧ Inv o.buf ∧ o.layer = l ∧
      o.err = false ∧ contents o.buf = diamEncode l ++ contents b := by
  obtain ⟨hi1, hn, hgen, hoff, hlen, hdrop⟩ := prepend_facts b (msgLen l) h
  generalize prepend b (msgLen l) = r at hi1 hn hgen hoff hlen hdrop
  obtain ⟨b1, w⟩ := r
  simp only at hi1 hn hgen hoff hlen hdrop
  have hsz : msgLen l = 20 + (l.avps.map serializeAVP).flatten.length := by
    rw [flatten_length]; rfl
  have F0 : Front b1 b1 [] := ⟨hi1, rfl, rfl, by simp⟩
  obtain ⟨x0, e0, F0⟩ := front_write b1 b1 [] w 0 (u8 l.version) F0 hgen hoff rfl (by omega) (by omega)
  obtain ⟨x1, e1, F1⟩ := front_write b1 x0 _ w 1 (u8 (l.messageLength / 65536)) F0 hgen hoff rfl (by omega) (by omega)
  obtain ⟨x2, e2, F2⟩ := front_write b1 x1 _ w 2 (u8 (l.messageLength / 256)) F1 hgen hoff rfl (by omega) (by omega)
  obtain ⟨x3, e3, F3⟩ := front_write b1 x2 _ w 3 (u8 l.messageLength) F2 hgen hoff rfl (by omega) (by omega)
  obtain ⟨x4, e4, F4⟩ := front_write b1 x3 _ w 4 (u8 (cmdFlagsByte l)) F3 hgen hoff rfl (by omega) (by omega)
  obtain ⟨x5, e5, F5⟩ := front_write b1 x4 _ w 5 (u8 (l.commandCode / 65536)) F4 hgen hoff rfl (by omega) (by omega)
  obtain ⟨x6, e6, F6⟩ := front_write b1 x5 _ w 6 (u8 (l.commandCode / 256)) F5 hgen hoff rfl (by omega) (by omega)
  obtain ⟨x7, e7, F7⟩ := front_write b1 x6 _ w 7 (u8 l.commandCode) F6 hgen hoff rfl (by omega) (by omega)
  obtain ⟨w8, x8, s8, e8, F8⟩ := front_put32 b1 x7 _ w 8 l.applicationID F7 hgen hoff rfl (by omega) (by omega)
  obtain ⟨w12, x12, s12, e12, F12⟩ := front_put32 b1 x8 _ w 12 l.hopByHopID F8 hgen hoff rfl (by omega) (by omega)
  obtain ⟨w16, x16, s16, e16, F16⟩ := front_put32 b1 x12 _ w 16 l.endToEndID F12 hgen hoff rfl (by omega) (by omega)
  unfold diamStores
  rw [e0, Res.bind_ok, e1, Res.bind_ok, e2, Res.bind_ok, e3, Res.bind_ok, e4, Res.bind_ok, e5, Res.bind_ok,
    e6, Res.bind_ok, e7, Res.bind_ok, s8, Res.bind_ok, e8, Res.bind_ok, s12, Res.bind_ok, e12, Res.bind_ok,
    s16, Res.bind_ok, e16, Res.bind_ok]
  obtain ⟨i16, st16, g16, c16⟩ := F16
  have hW : ([] ++ [u8 l.version] ++ [u8 (l.messageLength / 65536)] ++ [u8 (l.messageLength / 256)] ++
      [u8 l.messageLength] ++ [u8 (cmdFlagsByte l)] ++ [u8 (l.commandCode / 65536)] ++ [u8 (l.commandCode / 256)] ++
      [u8 l.commandCode] ++ putBe32 l.applicationID ++ putBe32 l.hopByHopID ++ putBe32 l.endToEndID) = diamHeader l := rfl
  rw [hW, diamHeader_length] at c16
  obtain ⟨b', hb', ib', cb'⟩ := copyAddrs_spec (l.avps.map serializeAVP) x16 w (diamHeader l)
    ((contents b1).drop 20) i16 (by rw [g16]; exact hgen) (by rw [st16]; exact hoff) c16
    (by rw [diamHeader_length, hn, hsz]) (by rw [List.length_drop]; omega)
  rw [diamHeader_length] at hb'
  rw [hb', Res.bind_ok]
  refine ⟨_, rfl, ib', rfl, rfl, ?_⟩
  simp only
  rw [cb', List.drop_drop, ← hsz, hdrop]; rfl

/-- Refinement: on every buffer satisfying the C18 invariant, `Diameter.serializeTo` returns (never
    panics, never an error), with exactly the receiver / bytes of `diamSerSpec`. -/
theorem diam_serializeTo_refines (l : Diameter) (b : SBuf) (fix csum : Bool) (h : Inv b) :
    ∃ o, l.serializeTo b fix csum = .ok o ∧ Inv o.buf ∧
      o.layer = (diamSerSpec l (SBuf.contents b) fix).layer ∧ o.err = false ∧
      SBuf.contents o.buf = (diamSerSpec l (SBuf.contents b) fix).bytes := by
  rw [diam_serializeTo_eq]
  have := diam_stores_refines (diamFixed l fix) b h
  rw [msgLen_fixed] at this
  exact this

theorem diam_stores_ok (l : Diameter) (b1 : SBuf) (w : Win)
    (hn : w.n = 20 + (l.avps.map serializeAVP).flatten.length) :
    ∃ o, diamStores l b1 w = .ok o := by
  unfold diamStores
  have i0 : 0 < w.n := by omega
  have i1 : 1 < w.n := by omega
  have i2 : 2 < w.n := by omega
  have i3 : 3 < w.n := by omega
  have i4 : 4 < w.n := by omega
  have i5 : 5 < w.n := by omega
  have i6 : 6 < w.n := by omega
  have i7 : 7 < w.n := by omega
  have s1 : (8 ≤ 12 ∧ 12 ≤ w.n) := ⟨by omega, by omega⟩
  have s2 : (12 ≤ 16 ∧ 16 ≤ w.n) := ⟨by omega, by omega⟩
  have s3 : (16 ≤ 20 ∧ 20 ≤ w.n) := ⟨by omega, by omega⟩
  simp only [putUint32be, winSlice, write, i0, i1, i2, i3, i4, i5, i6, i7, s1, s2, s3, and_self, if_true,
    Nat.reduceSub, Nat.lt_irrefl, if_false, Res.bind_ok]
  have hw : ∀ (bb : SBuf) (i : Nat) (v : UInt8) (k : SBuf → Res (SerOut Diameter)),
      (∀ x, ∃ o, k x = .ok o) →
      ∃ o, ((if w.gen = bb.gen then Res.ok { bb with mem := bb.mem.set (w.off + i) v } else Res.ok bb) >>= k) = .ok o := by
    intro bb i v k hk
    split
    · exact hk _
    · exact hk _
  apply hw; intro y0
  apply hw; intro y1
  apply hw; intro y2
  apply hw; intro y3
  apply hw; intro y4
  apply hw; intro y5
  apply hw; intro y6
  apply hw; intro y7
  obtain ⟨b', hb'⟩ := copyAddrs_ok (l.avps.map serializeAVP)
    (fill (fill (fill y7 { gen := w.gen, off := w.off + 8, n := 4 } (putBe32 l.applicationID))
      { gen := w.gen, off := w.off + 12, n := 4 } (putBe32 l.hopByHopID))
      { gen := w.gen, off := w.off + 16, n := 4 } (putBe32 l.endToEndID)) w 20 (by omega)
  rw [hb', Res.bind_ok]
  exact ⟨_, rfl⟩

/-- `Diameter.SerializeTo` never panics: every field value, every option set, every buffer state. -/
theorem diam_serializeTo_ok (l : Diameter) (b : SBuf) (fix csum : Bool) : ∃ o, l.serializeTo b fix csum = .ok o := by
  rw [diam_serializeTo_eq]
  apply diam_stores_ok
  have : (prepend b (msgLen l)).2.n = msgLen l := rfl
  rw [this, diamFixed_avps, flatten_length]; rfl

theorem diam_serView (l : Diameter) (b : SBuf) (fix csum : Bool) (h : Inv b) :
    serView (l.serializeTo b fix csum) = .ok (diamSerSpec l (SBuf.contents b) fix) := by
  obtain ⟨o, ho, -, hl, he, hb⟩ := diam_serializeTo_refines l b fix csum h
  exact serView_of_refines _ _ (fun hh => by cases hh) ⟨o, ho, hl, he, fun _ => hb⟩

theorem diamFixed_idem (l : Diameter) (fix : Bool) : diamFixed (diamFixed l fix) fix = diamFixed l fix := by
  unfold diamFixed; cases fix <;> rfl

theorem diamSerSpec_idem (l : Diameter) (p : Bytes) (fix : Bool) :
    diamSerSpec (diamSerSpec l p fix).layer p fix = diamSerSpec l p fix := by
  unfold diamSerSpec; simp only [diamFixed_idem]

end Gp.Diam
