import Gp.Lemmas.Layers.Ip6Dec2
/-
  Addresses of a decoded IPv6 layer (for C17).  Core Lean only.
-/
namespace Gp.Ip6
open Gp Gp.Gen.Ip6

theorem ip6HbhSpec_addr (l1 : IPv6) (pay : Bytes) (ho : DecOut TlvExt) :
    (ip6HbhSpec l1 pay ho).layer.srcIP = l1.srcIP ∧ (ip6HbhSpec l1 pay ho).layer.dstIP = l1.dstIP := by
  unfold ip6HbhSpec
  match ho.res with
  | .panic k => exact ⟨rfl, rfl⟩
  | .err e => exact ⟨rfl, rfl⟩
  | .ok () =>
    simp only
    match getJumboLength ho.layer with
    | .panic k => exact ⟨rfl, rfl⟩
    | .err e => exact ⟨rfl, rfl⟩
    | .ok (pEnd, jumbo) =>
      simp only
      split
      · exact ⟨rfl, rfl⟩
      · split
        · exact ⟨rfl, rfl⟩
        · split
          · exact ⟨rfl, rfl⟩
          · split <;> exact ⟨rfl, rfl⟩

/-- A successful decode had at least 40 bytes and stores bytes 8..24 / 24..40 as SrcIP / DstIP. -/
theorem ip6Spec_addr (old : IPv6) (b : Bytes) (h : (ip6Spec old b).res = .ok ()) :
    40 ≤ b.length ∧ (ip6Spec old b).layer.srcIP = (b.drop 8).take 16 ∧
    (ip6Spec old b).layer.dstIP = (b.drop 24).take 16 := by
  unfold ip6Spec at h ⊢
  split at h
  · rename_i b0 b1 b2 b3 b4 b5 b6 b7 rest
    split at h
    · simp at h
    · rename_i hr
      rw [if_neg hr]
      have hd : (rest.take 32).drop 16 = (rest.drop 16).take 16 := by
        rw [List.drop_take]
      dsimp only
      split
      · refine ⟨by simp only [List.length_cons]; omega, ?_, ?_⟩
        · rw [(ip6HbhSpec_addr _ _ _).1]; rfl
        · rw [(ip6HbhSpec_addr _ _ _).2]; simp [hd]
      · refine ⟨by simp only [List.length_cons]; omega, rfl, ?_⟩
        simp [ip6Finish, hd]
  · simp at h

theorem decodeIp6_ok_addr (old : IPv6) (data foreign : Bytes) (l : IPv6) (tr : Bool)
    (h : decodeIp6 old data foreign = .ok (l, tr)) :
    40 ≤ data.length ∧ l.srcIP = (data.drop 8).take 16 ∧ l.dstIP = (data.drop 24).take 16 := by
  unfold decodeIp6 at h
  rw [decodeIPv6_eq_spec] at h
  dsimp only at h
  match hr : (ip6Spec old data).res with
  | .err e => rw [hr] at h; simp at h
  | .panic k => rw [hr] at h; simp at h
  | .ok () =>
    rw [hr] at h
    simp only [Res.ok.injEq, Prod.mk.injEq] at h
    obtain ⟨h40, hs, hd⟩ := ip6Spec_addr old data hr
    rw [h.1] at hs hd
    exact ⟨h40, hs, hd⟩

end Gp.Ip6
