import Gp.Lemmas.Layers.Ip6Indep2
/-
  Idempotence of the extension-header serializers (C07).
-/
namespace Gp.Ip6
open Gp Gp.SBuf Gp.C18 Gp.Gen.Ip6

theorem extHdrLen_fixExt (fix : Bool) (e : TlvExt) : extHdrLen fix (fixExt fix e) = extHdrLen fix e := by
  unfold extHdrLen
  by_cases hf : fix = true
  · simp only [hf, if_true, fixExt, encLen_map_fixOpt]
  · simp only [hf, fixExt]
    simp [extHdrLen, hf]

theorem fixExt_idem (fix : Bool) (e : TlvExt) : fixExt fix (fixExt fix e) = fixExt fix e := by
  have h := extHdrLen_fixExt fix e
  unfold fixExt at h ⊢
  simp only [map_fixOpt_idem, h]

/-- Serialising the mutated layer again (same buffer, same payload) is the same computation. -/
theorem serializeTlvExt_fixExt (e : TlvExt) (b : SBuf) (fix : Bool) (h : Inv b) :
    serializeTlvExt (fixExt fix e) b fix = serializeTlvExt e b fix := by
  obtain ⟨o1, -, r1, e1⟩ := serializeTlvExt_eq e b fix h
  obtain ⟨o2, -, r2, e2⟩ := serializeTlvExt_eq (fixExt fix e) b fix h
  have hopt : (fixExt fix e).options = e.options.map (fixOpt fix) := rfl
  rw [hopt, map_fixOpt_idem, encLen_map_fixOpt] at r2
  rw [r1] at r2
  simp only [Res.ok.injEq, Prod.mk.injEq, Option.some.injEq, true_and, and_true] at r2
  rw [e1, e2, hopt, encLen_map_fixOpt, extHdrLen_fixExt, fixExt_idem, ← r2]
  rfl

end Gp.Ip6
