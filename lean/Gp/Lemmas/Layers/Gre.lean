import Gp.Model.Layers.Gre
import Gp.Lemmas.SBuf
/-
  Helper lemmas for the GRE codec (engine `lgre`).

  Part 1: a panic-free, capacity-free *specification* of the decoder (`specDecode`, plain pattern
  matching on the byte list) and the refinement theorem `decode_spec`: the transcription of
  DecodeFromBytes (with Go's index/slice panics and the foreign bytes beyond `len`) computes exactly
  the specification.  C19/C05/C06 theorems are corollaries.
-/
namespace Gp.Gre
open Gp

/-! ### views of `data` at an offset -/

theorem index_view (data : Bytes) (off i : Nat) (v : UInt8) (h : (data.drop off)[i]? = some v) :
    index data (off + i) = .ok v := by
  unfold index
  rw [List.getElem?_drop] at h
  rw [h]

theorem sliceCap_view (data foreign : Bytes) (off n : Nat) (h : off ≤ data.length)
    (hn : n ≤ (data.drop off).length) :
    sliceCap data foreign off (off + n) = .ok ((data.drop off).take n) := by
  unfold sliceCap
  have hl : (data.drop off).length = data.length - off := List.length_drop
  have hc : off ≤ off + n ∧ off + n ≤ data.length + foreign.length := by omega
  rw [if_pos hc, List.drop_append_of_le_length h]
  have : off + n - off = n := by omega
  rw [this, List.take_append_of_le_length hn]

theorem short_iff (data : Bytes) (off n : Nat) : short data off n = true ↔ data.length < off + n := by
  unfold short
  simp only [decide_eq_true_eq]
  omega

theorem short_false_of_view (data : Bytes) (off n : Nat) (h : off ≤ data.length)
    (hn : n ≤ (data.drop off).length) : short data off n = false := by
  have hl : (data.drop off).length = data.length - off := List.length_drop
  cases hs : short data off n with
  | false => rfl
  | true => rw [short_iff] at hs; omega

theorem short_true_of_view (data : Bytes) (off n : Nat)
    (hn : (data.drop off).length < n) : short data off n = true := by
  have hl : (data.drop off).length = data.length - off := List.length_drop
  rw [short_iff]; omega

theorem beUint16_pair (a b : UInt8) : beUint16 [a, b] = .ok (be16 a b) := rfl
theorem beUint32_quad (a b c d : UInt8) : beUint32 [a, b, c, d] = .ok (be32 a b c d) := rfl

theorem be16_lt (a b : UInt8) : be16 a b < 65536 := by
  unfold be16
  have := a.toNat_lt; have := b.toNat_lt
  omega

theorem be32_lt (a b c d : UInt8) : be32 a b c d < 4294967296 := by
  unfold be32
  have := a.toNat_lt; have := b.toNat_lt; have := c.toNat_lt; have := d.toNat_lt
  omega

/-! ### the specification -/

/-- optional Checksum+Offset words. -/
def specCsumOff (present : Bool) : Bytes → Option (Nat × Nat × Bytes)
  | bs =>
    if present then
      match bs with
      | c0 :: c1 :: o0 :: o1 :: r => some (be16 c0 c1, be16 o0 o1, r)
      | _ => none
    else some (0, 0, bs)

/-- optional 32-bit word (Key, Seq, Ack). -/
def specU32 (present : Bool) : Bytes → Option (Nat × Bytes)
  | bs =>
    if present then
      match bs with
      | a :: b :: c :: d :: r => some (be32 a b c d, r)
      | _ => none
    else some (0, bs)

/-- the SRE list up to and including the NULL SRE. -/
def specRouting : Nat → Bytes → Option (List SRE × Bytes)
  | 0, _ => none
  | fuel + 1, a0 :: a1 :: so :: sl :: rest =>
    if rest.length < sl.toNat then none
    else if be16 a0 a1 = 0 ∧ sl.toNat = 0 then some ([], rest.drop sl.toNat)
    else
      match specRouting fuel (rest.drop sl.toNat) with
      | some (rs, r) =>
        some ({ addressFamily := be16 a0 a1, sreOffset := so.toNat, sreLength := sl.toNat,
                routingInformation := rest.take sl.toNat } :: rs, r)
      | none => none
  | _ + 1, _ => none

/-- What DecodeFromBytes computes on `data` (`none` = "GRE packet truncated"), for len ≥ 4. -/
def specDecode (data : Bytes) : Option Layer :=
  match data with
  | d0 :: d1 :: p0 :: p1 :: r0 =>
    let n0 := d0.toNat
    let n1 := d1.toNat
    let cp := n0 &&& 0x80 != 0
    let rp := n0 &&& 0x40 != 0
    let kp := n0 &&& 0x20 != 0
    let sp := n0 &&& 0x10 != 0
    let ssr := n0 &&& 0x08 != 0
    let ap := n1 &&& 0x80 != 0
    match specCsumOff (cp || rp) r0 with
    | none => none
    | some (csum, off16, r1) =>
      match specU32 kp r1 with
      | none => none
      | some (key, r2) =>
        match specU32 sp r2 with
        | none => none
        | some (seq, r3) =>
          match (if rp then specRouting data.length r3 else some ([], r3)) with
          | none => none
          | some (routing, r4) =>
            match specU32 ap r4 with
            | none => none
            | some (ack, r5) =>
              some { contents := data.take (data.length - r5.length), payload := r5,
                     checksumPresent := cp, routingPresent := rp, keyPresent := kp, seqPresent := sp,
                     strictSourceRoute := ssr, ackPresent := ap,
                     recursionControl := n0 &&& 0x7, flags := n1 >>> 3, version := n1 &&& 0x7,
                     protocol := be16 p0 p1, checksum := csum, offset := off16,
                     key := key, seq := seq, ack := ack, routing := routing }
  | _ => none

/-! ### refinement of the helpers -/

theorem four_view (l : Bytes) : l.length < 4 ∨ ∃ a b c d r, l = a :: b :: c :: d :: r := by
  match l with
  | [] => left; simp
  | [_] => left; simp
  | [_, _] => left; simp
  | [_, _, _] => left; simp
  | a :: b :: c :: d :: r => right; exact ⟨a, b, c, d, r, rfl⟩

theorem drop_add_of_view (data : Bytes) (off : Nat) (xs r : Bytes) (h : data.drop off = xs ++ r) :
    data.drop (off + xs.length) = r := by
  rw [← List.drop_drop, h]
  simp

theorem decU32_some (data foreign : Bytes) (off : Nat) (a b c d : UInt8) (r : Bytes)
    (h : off ≤ data.length) (hv : data.drop off = a :: b :: c :: d :: r) :
    decU32 true data foreign off = .ok (be32 a b c d, off + 4) := by
  unfold decU32
  have hn : 4 ≤ (data.drop off).length := by rw [hv]; simp
  rw [if_pos rfl, short_false_of_view data off 4 h hn, sliceCap_view data foreign off 4 h hn, hv]
  rfl

theorem decU32_none (data foreign : Bytes) (off : Nat) (hv : (data.drop off).length < 4) :
    decU32 true data foreign off = errTruncated := by
  unfold decU32
  rw [if_pos rfl, short_true_of_view data off 4 hv]
  rfl

/-- refinement of one optional 32-bit word. -/
theorem decU32_spec (p : Bool) (data foreign : Bytes) (off : Nat) (h : off ≤ data.length) :
    (specU32 p (data.drop off) = none → decU32 p data foreign off = errTruncated) ∧
    (∀ v r, specU32 p (data.drop off) = some (v, r) →
      ∃ n, off + n ≤ data.length ∧ r = data.drop (off + n) ∧ v < 4294967296 ∧
        decU32 p data foreign off = .ok (v, off + n)) := by
  cases p with
  | false =>
    constructor
    · intro hs; simp [specU32] at hs
    · intro v r hs
      simp only [specU32, Bool.false_eq_true, if_false, Option.some.injEq, Prod.mk.injEq] at hs
      refine ⟨0, by omega, by simp [hs.2], by omega, ?_⟩
      simp [decU32, ← hs.1]
      rfl
  | true =>
    rcases four_view (data.drop off) with hlt | ⟨a, b, c, d, r, hv⟩
    · constructor
      · intro _; exact decU32_none data foreign off hlt
      · intro v r hs
        exfalso
        revert hs hlt
        generalize data.drop off = l
        intro hlt hs
        match l, hlt with
        | [], _ => simp [specU32] at hs
        | [_], _ => simp [specU32] at hs
        | [_, _], _ => simp [specU32] at hs
        | [_, _, _], _ => simp [specU32] at hs
        | _ :: _ :: _ :: _ :: _, hlt => simp at hlt; omega
    · constructor
      · intro hs; rw [hv] at hs; simp [specU32] at hs
      · intro v r' hs
        rw [hv] at hs
        simp only [specU32, if_true, Option.some.injEq, Prod.mk.injEq] at hs
        have hl : (data.drop off).length = data.length - off := List.length_drop
        have h4 : 4 ≤ (data.drop off).length := by rw [hv]; simp
        refine ⟨4, by omega, ?_, ?_, ?_⟩
        · rw [← hs.2]
          exact (drop_add_of_view data off [a, b, c, d] r hv).symm
        · rw [← hs.1]; exact be32_lt a b c d
        · rw [← hs.1]; exact decU32_some data foreign off a b c d r h hv

theorem decChecksumOffset_spec (p : Bool) (data foreign : Bytes) (off : Nat) (h : off ≤ data.length) :
    (specCsumOff p (data.drop off) = none → decChecksumOffset p data foreign off = errTruncated) ∧
    (∀ c o r, specCsumOff p (data.drop off) = some (c, o, r) →
      ∃ n, off + n ≤ data.length ∧ r = data.drop (off + n) ∧ c < 65536 ∧ o < 65536 ∧
        (p = false → c = 0 ∧ o = 0) ∧
        decChecksumOffset p data foreign off = .ok (c, o, off + n)) := by
  cases p with
  | false =>
    constructor
    · intro hs; simp [specCsumOff] at hs
    · intro c o r hs
      simp only [specCsumOff, Bool.false_eq_true, if_false, Option.some.injEq, Prod.mk.injEq] at hs
      refine ⟨0, by omega, by simp [hs.2.2], by omega, by omega, ?_, ?_⟩
      · intro _; exact ⟨hs.1.symm, hs.2.1.symm⟩
      · simp [decChecksumOffset, ← hs.1, ← hs.2.1]
        rfl
  | true =>
    rcases four_view (data.drop off) with hlt | ⟨a, b, c', d, r, hv⟩
    · constructor
      · intro _
        unfold decChecksumOffset
        rw [if_pos rfl, short_true_of_view data off 4 hlt]
        rfl
      · intro c o r hs
        exfalso
        revert hs hlt
        generalize data.drop off = l
        intro hlt hs
        match l, hlt with
        | [], _ => simp [specCsumOff] at hs
        | [_], _ => simp [specCsumOff] at hs
        | [_, _], _ => simp [specCsumOff] at hs
        | [_, _, _], _ => simp [specCsumOff] at hs
        | _ :: _ :: _ :: _ :: _, hlt => simp at hlt; omega
    · constructor
      · intro hs; rw [hv] at hs; simp [specCsumOff] at hs
      · intro c o r' hs
        rw [hv] at hs
        simp only [specCsumOff, if_true, Option.some.injEq, Prod.mk.injEq] at hs
        have hl : (data.drop off).length = data.length - off := List.length_drop
        have h4 : 4 ≤ (data.drop off).length := by rw [hv]; simp
        have h2 : 2 ≤ (data.drop off).length := by omega
        have hv2 : data.drop (off + 2) = c' :: d :: r := drop_add_of_view data off [a, b] (c' :: d :: r) hv
        have h2' : 2 ≤ (data.drop (off + 2)).length := by rw [hv2]; simp
        refine ⟨4, by omega, ?_, ?_, ?_, ?_, ?_⟩
        · rw [← hs.2.2]
          exact (drop_add_of_view data off [a, b, c', d] r hv).symm
        · rw [← hs.1]; exact be16_lt a b
        · rw [← hs.2.1]; exact be16_lt c' d
        · intro hp; cases hp
        · unfold decChecksumOffset
          rw [if_pos rfl, short_false_of_view data off 4 h h4, sliceCap_view data foreign off 2 h h2, hv]
          have e : off + 4 = off + 2 + 2 := by omega
          rw [e, sliceCap_view data foreign (off + 2) 2 (by omega) h2', hv2, ← hs.1, ← hs.2.1]
          rfl

/-- one iteration of the SRE loop on a view that holds a complete SRE. -/
theorem decRouting_step (data foreign : Bytes) (fuel off : Nat) (a0 a1 so sl : UInt8) (rest : Bytes)
    (h : off ≤ data.length) (hv : data.drop off = a0 :: a1 :: so :: sl :: rest)
    (hl : sl.toNat ≤ rest.length) :
    decRouting data foreign (fuel + 1) off =
      if be16 a0 a1 = 0 ∧ sl.toNat = 0 then .ok ([], off + 4 + sl.toNat)
      else (decRouting data foreign fuel (off + 4 + sl.toNat)) >>= fun (x : List SRE × Nat) =>
        .ok ({ addressFamily := be16 a0 a1, sreOffset := so.toNat, sreLength := sl.toNat,
               routingInformation := rest.take sl.toNat } :: x.1, x.2) := by
  have hlen : (data.drop off).length = data.length - off := List.length_drop
  have h4 : 4 ≤ (data.drop off).length := by rw [hv]; simp
  have h2 : 2 ≤ (data.drop off).length := by omega
  have hv4 : data.drop (off + 4) = rest := drop_add_of_view data off [a0, a1, so, sl] rest hv
  have hl4 : sl.toNat ≤ (data.drop (off + 4)).length := by rw [hv4]; exact hl
  have hlen4 : (data.drop (off + 4)).length = data.length - (off + 4) := List.length_drop
  have i2 : index data (off + 2) = .ok so := index_view data off 2 so (by rw [hv]; rfl)
  have i3 : index data (off + 3) = .ok sl := index_view data off 3 sl (by rw [hv]; rfl)
  rw [decRouting]
  rw [short_false_of_view data off 4 h h4, sliceCap_view data foreign off 2 h h2, hv]
  simp only [Bool.false_eq_true, if_false, List.take_succ_cons, List.take_zero, Res.bind_ok, beUint16_pair, i2, i3]
  rw [short_false_of_view data (off + 4) sl.toNat (by omega) hl4,
      sliceCap_view data foreign (off + 4) sl.toNat (by omega) hl4, hv4]
  simp only [Bool.false_eq_true, if_false, Res.bind_ok]
  split
  · rfl
  · cases decRouting data foreign fuel (off + 4 + sl.toNat) <;> rfl

theorem decRouting_short4 (data foreign : Bytes) (fuel off : Nat) (hv : (data.drop off).length < 4) :
    decRouting data foreign (fuel + 1) off = errTruncated := by
  rw [decRouting, short_true_of_view data off 4 hv]
  rfl

theorem decRouting_shortInfo (data foreign : Bytes) (fuel off : Nat) (a0 a1 so sl : UInt8) (rest : Bytes)
    (h : off ≤ data.length) (hv : data.drop off = a0 :: a1 :: so :: sl :: rest)
    (hl : rest.length < sl.toNat) :
    decRouting data foreign (fuel + 1) off = errTruncated := by
  have hlen : (data.drop off).length = data.length - off := List.length_drop
  have h4 : 4 ≤ (data.drop off).length := by rw [hv]; simp
  have h2 : 2 ≤ (data.drop off).length := by omega
  have hv4 : data.drop (off + 4) = rest := drop_add_of_view data off [a0, a1, so, sl] rest hv
  have hl4 : (data.drop (off + 4)).length < sl.toNat := by rw [hv4]; exact hl
  have i2 : index data (off + 2) = .ok so := index_view data off 2 so (by rw [hv]; rfl)
  have i3 : index data (off + 3) = .ok sl := index_view data off 3 sl (by rw [hv]; rfl)
  rw [decRouting]
  rw [short_false_of_view data off 4 h h4, sliceCap_view data foreign off 2 h h2, hv]
  simp only [Bool.false_eq_true, if_false, List.take_succ_cons, List.take_zero, Res.bind_ok, beUint16_pair, i2, i3]
  rw [short_true_of_view data (off + 4) sl.toNat hl4]
  rfl

/-- every SRE the specification produces is in range and faithful to its length byte. -/
def SREOk (r : SRE) : Prop :=
  r.addressFamily < 65536 ∧ r.sreOffset < 256 ∧ r.sreLength < 256 ∧
  r.routingInformation.length = r.sreLength ∧ ¬ (r.addressFamily = 0 ∧ r.sreLength = 0)

/-- refinement of the SRE loop, with the fuel bound that `decodeGre` provides. -/
theorem decRouting_spec (data foreign : Bytes) :
    ∀ (fuel off : Nat), off ≤ data.length → (data.drop off).length < fuel →
    (specRouting fuel (data.drop off) = none → decRouting data foreign fuel off = errTruncated) ∧
    (∀ rs r, specRouting fuel (data.drop off) = some (rs, r) →
      ∃ n, off + n ≤ data.length ∧ r = data.drop (off + n) ∧ (∀ x ∈ rs, SREOk x) ∧
        decRouting data foreign fuel off = .ok (rs, off + n)) := by
  intro fuel
  induction fuel with
  | zero => intro off _ hf; omega
  | succ fuel ih =>
    intro off h hf
    have hlen : (data.drop off).length = data.length - off := List.length_drop
    rcases four_view (data.drop off) with hlt | ⟨a0, a1, so, sl, rest, hv⟩
    · constructor
      · intro _; exact decRouting_short4 data foreign fuel off hlt
      · intro rs r hs
        exfalso
        revert hs hlt
        generalize data.drop off = l
        intro hlt hs
        match l, hlt with
        | [], _ => simp [specRouting] at hs
        | [_], _ => simp [specRouting] at hs
        | [_, _], _ => simp [specRouting] at hs
        | [_, _, _], _ => simp [specRouting] at hs
        | _ :: _ :: _ :: _ :: _, hlt => simp at hlt; omega
    · rw [hv]
      have hrl : rest.length + 4 = data.length - off := by rw [← hlen, hv]; simp
      by_cases hl : rest.length < sl.toNat
      · constructor
        · intro _; exact decRouting_shortInfo data foreign fuel off a0 a1 so sl rest h hv hl
        · intro rs r hs
          simp only [specRouting] at hs
          rw [if_pos hl] at hs
          cases hs
      · have hl' : sl.toNat ≤ rest.length := by omega
        have hstep := decRouting_step data foreign fuel off a0 a1 so sl rest h hv hl'
        have hv4 : data.drop (off + 4 + sl.toNat) = rest.drop sl.toNat := by
          have h4' : data.drop (off + 4) = rest := drop_add_of_view data off [a0, a1, so, sl] rest hv
          rw [← List.drop_drop, h4']
        by_cases hterm : be16 a0 a1 = 0 ∧ sl.toNat = 0
        · constructor
          · intro hs
            simp only [specRouting] at hs
            rw [if_neg hl, if_pos hterm] at hs
            cases hs
          · intro rs r hs
            simp only [specRouting] at hs
            rw [if_neg hl, if_pos hterm] at hs
            simp only [Option.some.injEq, Prod.mk.injEq] at hs
            refine ⟨4 + sl.toNat, by omega, ?_, ?_, ?_⟩
            · rw [← hs.2, ← Nat.add_assoc, hv4]
            · rw [← hs.1]; intro x hx; cases hx
            · rw [hstep, if_pos hterm, ← hs.1, Nat.add_assoc]
        · have hoff' : off + 4 + sl.toNat ≤ data.length := by omega
          have hf' : (data.drop (off + 4 + sl.toNat)).length < fuel := by
            rw [List.length_drop]; omega
          have ih' := ih (off + 4 + sl.toNat) hoff' hf'
          rw [hv4] at ih'
          constructor
          · intro hs
            simp only [specRouting] at hs
            rw [if_neg hl, if_neg hterm] at hs
            cases hr : specRouting fuel (rest.drop sl.toNat) with
            | none => rw [hstep, if_neg hterm, ih'.1 hr]; rfl
            | some x => rw [hr] at hs; simp at hs
          · intro rs r hs
            simp only [specRouting] at hs
            rw [if_neg hl, if_neg hterm] at hs
            cases hr : specRouting fuel (rest.drop sl.toNat) with
            | none => rw [hr] at hs; simp at hs
            | some x =>
              obtain ⟨rs', r'⟩ := x
              rw [hr] at hs
              simp only [Option.some.injEq, Prod.mk.injEq] at hs
              obtain ⟨n, hn, hrn, hok, hdec⟩ := ih'.2 rs' r' hr
              refine ⟨4 + sl.toNat + n, by omega, ?_, ?_, ?_⟩
              · rw [← hs.2, hrn]; congr 1; omega
              · rw [← hs.1]
                intro x hx
                rcases List.mem_cons.mp hx with hx | hx
                · subst hx
                  refine ⟨be16_lt a0 a1, so.toNat_lt, sl.toNat_lt, ?_, hterm⟩
                  simp [List.length_take]; omega
                · exact hok x hx
              · rw [hstep, if_neg hterm, hdec, ← hs.1]
                simp only [Res.bind_ok]
                congr 2; omega

/-! ### refinement of DecodeFromBytes -/

theorem errTruncated_bind {α β : Type} (f : α → Res β) : ((errTruncated : Res α) >>= f) = errTruncated := rfl

/-- **The transcription of DecodeFromBytes computes the specification** — for every receiver value,
    every capacity and every content of the spare capacity. -/
theorem decode_spec (old : Layer) (data foreign : Bytes) (h4 : 4 ≤ data.length) :
    decodeGre old data foreign =
      match specDecode data with
      | some l => .ok (l, false)
      | none => errTruncated := by
  match data, h4 with
  | d0 :: d1 :: p0 :: p1 :: r0, _ =>
    generalize hdata : d0 :: d1 :: p0 :: p1 :: r0 = data
    have hlen : 4 ≤ data.length := by rw [← hdata]; simp
    have hd4 : data.drop 4 = r0 := by rw [← hdata]; rfl
    have hd2 : data.drop 2 = p0 :: p1 :: r0 := by rw [← hdata]; rfl
    have i0 : index data 0 = .ok d0 := by rw [← hdata]; rfl
    have i1 : index data 1 = .ok d1 := by rw [← hdata]; rfl
    have hs : sliceCap data foreign 2 4 = .ok [p0, p1] := by
      have := sliceCap_view data foreign 2 2 (by omega) (by rw [hd2]; simp)
      rw [hd2] at this
      exact this
    have hspec : specDecode data = specDecode (d0 :: d1 :: p0 :: p1 :: r0) := by rw [hdata]
    rw [hspec]
    unfold decodeGre specDecode
    rw [if_neg (by omega), i0, i1, hs]
    simp only [Res.bind_ok, beUint16_pair]
    rw [hdata]
    -- checksum / offset
    have hc := decChecksumOffset_spec (d0.toNat &&& 0x80 != 0 || d0.toNat &&& 0x40 != 0) data foreign 4 hlen
    rw [hd4] at hc
    cases hs1 : specCsumOff (d0.toNat &&& 0x80 != 0 || d0.toNat &&& 0x40 != 0) r0 with
    | none => rw [hc.1 hs1]; rfl
    | some x1 =>
      obtain ⟨c, o, r1⟩ := x1
      obtain ⟨n1, hn1, hr1, _, _, _, hdec1⟩ := hc.2 c o r1 hs1
      rw [hdec1]
      simp only [Res.bind_ok]
      -- key
      have hk := decU32_spec (d0.toNat &&& 0x20 != 0) data foreign (4 + n1) hn1
      rw [← hr1] at hk
      cases hs2 : specU32 (d0.toNat &&& 0x20 != 0) r1 with
      | none => rw [hk.1 hs2]; rfl
      | some x2 =>
        obtain ⟨key, r2⟩ := x2
        obtain ⟨n2, hn2, hr2, _, hdec2⟩ := hk.2 key r2 hs2
        rw [hdec2]
        simp only [Res.bind_ok]
        -- seq
        have hq := decU32_spec (d0.toNat &&& 0x10 != 0) data foreign (4 + n1 + n2) hn2
        rw [← hr2] at hq
        cases hs3 : specU32 (d0.toNat &&& 0x10 != 0) r2 with
        | none => rw [hq.1 hs3]; rfl
        | some x3 =>
          obtain ⟨seq, r3⟩ := x3
          obtain ⟨n3, hn3, hr3, _, hdec3⟩ := hq.2 seq r3 hs3
          rw [hdec3]
          simp only [Res.bind_ok]
          -- routing
          have hrt : ∀ (rp : Bool),
              ((if rp then specRouting data.length r3 else some ([], r3)) = none →
                (if rp = true then decRouting data foreign data.length (4 + n1 + n2 + n3)
                  else (pure ([], 4 + n1 + n2 + n3) : Res (List SRE × Nat))) = errTruncated) ∧
              (∀ rs r, (if rp then specRouting data.length r3 else some ([], r3)) = some (rs, r) →
                ∃ n, 4 + n1 + n2 + n3 + n ≤ data.length ∧ r = data.drop (4 + n1 + n2 + n3 + n) ∧
                  (if rp = true then decRouting data foreign data.length (4 + n1 + n2 + n3)
                    else (pure ([], 4 + n1 + n2 + n3) : Res (List SRE × Nat))) = .ok (rs, 4 + n1 + n2 + n3 + n)) := by
            intro rp
            cases rp with
            | false =>
              constructor
              · intro h; simp at h
              · intro rs r h
                simp only [Bool.false_eq_true, if_false, Option.some.injEq, Prod.mk.injEq] at h
                refine ⟨0, by omega, by rw [← h.2, hr3]; rfl, ?_⟩
                rw [← h.1]; rfl
            | true =>
              have hfuel : (data.drop (4 + n1 + n2 + n3)).length < data.length := by
                rw [List.length_drop]; omega
              have := decRouting_spec data foreign data.length (4 + n1 + n2 + n3) hn3 hfuel
              rw [← hr3] at this
              constructor
              · intro h; exact this.1 h
              · intro rs r h
                obtain ⟨n, hn, hr, _, hd⟩ := this.2 rs r h
                exact ⟨n, hn, hr, hd⟩
          have hr := hrt (d0.toNat &&& 0x40 != 0)
          cases hs4 : (if (d0.toNat &&& 0x40 != 0) = true then specRouting data.length r3 else some ([], r3)) with
          | none => rw [hr.1 hs4]; rfl
          | some x4 =>
            obtain ⟨routing, r4⟩ := x4
            obtain ⟨n4, hn4, hr4, hdec4⟩ := hr.2 routing r4 hs4
            rw [hdec4]
            simp only [Res.bind_ok]
            -- ack
            have ha := decU32_spec (d1.toNat &&& 0x80 != 0) data foreign (4 + n1 + n2 + n3 + n4) hn4
            rw [← hr4] at ha
            cases hs5 : specU32 (d1.toNat &&& 0x80 != 0) r4 with
            | none => rw [ha.1 hs5]; rfl
            | some x5 =>
              obtain ⟨ack, r5⟩ := x5
              obtain ⟨n5, hn5, hr5, _, hdec5⟩ := ha.2 ack r5 hs5
              rw [hdec5]
              simp only [Res.bind_ok]
              have hpl : sliceFrom data (4 + n1 + n2 + n3 + n4 + n5) = .ok r5 := by
                unfold sliceFrom; rw [if_pos hn5, hr5]
              have hct : sliceCap data foreign 0 (4 + n1 + n2 + n3 + n4 + n5)
                  = .ok (data.take (data.length - r5.length)) := by
                have := sliceCap_view data foreign 0 (4 + n1 + n2 + n3 + n4 + n5) (by omega) (by simp; omega)
                simp only [Nat.zero_add, List.drop_zero] at this
                rw [this, hr5, List.length_drop]
                congr 2; omega
              rw [hpl, hct]
              rfl

/-! ### definitions used in the statements of C05 -/

/-- A history of DecodeFromBytes calls on ONE layer object: each input is decoded into whatever
    the previous call left behind.  After a successful call that is the decoded layer; after a
    failed call the object is partially assigned — `afterErr` (ARBITRARY) says how. -/
def decodeSeq (afterErr : Layer → Bytes → Layer) : Layer → List (Bytes × Bytes) → List (Res (Layer × Bool))
  | _, [] => []
  | cur, (data, foreign) :: rest =>
    let r := decodeGre cur data foreign
    let next := match r with
      | .ok (l, _) => l
      | _ => afterErr cur data
    r :: decodeSeq afterErr next rest

/-- the full case analysis of DecodeFromBytes in terms of the specification. -/
theorem decode_cases (old : Layer) (data foreign : Bytes) :
    decodeGre old data foreign =
      if data.length < 4 then .err "GRE packet too small"
      else match specDecode data with
        | some l => .ok (l, false)
        | none => errTruncated := by
  by_cases h : data.length < 4
  · rw [if_pos h]; unfold decodeGre; rw [if_pos h]
  · rw [if_neg h]; exact decode_spec old data foreign (by omega)

end Gp.Gre
