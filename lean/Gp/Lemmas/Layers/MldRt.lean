import Gp.Lemmas.Layers.MldSer
/-
  Helper lemmas for engine `lmld`, part 3: round trip (serialize, then decode).  Core Lean only.

  Section 1 holds the *definitions* used in property statements; the rest is proof machinery.
-/
namespace Gp.Mld
open Gp Gp.SBuf Gp.C18 Gp.Gen.Mld

/-! ## 1. Definitions used in property statements -/

/-- In-range field values of an MLDv1 message: the delay is a whole number of milliseconds between
    0 and 65535 ms (the 16-bit field counts milliseconds), the address has the 16 bytes of an IPv6
    address.  Explicit and decidable. -/
def wfMsg (l : Msg) : Prop :=
  0 ≤ l.maximumResponseDelay ∧ l.maximumResponseDelay ≤ 65535 * millisecond ∧
  l.maximumResponseDelay % millisecond = 0 ∧ l.multicastAddress.length = 16

instance (l : Msg) : Decidable (wfMsg l) := by unfold wfMsg; infer_instance

/-- `≈`: the public protocol fields (Contents / Payload are ignored). -/
def MsgEquiv (a b : Msg) : Prop :=
  a.maximumResponseDelay = b.maximumResponseDelay ∧ a.multicastAddress = b.multicastAddress

/-- The input with its two reserved bytes (offsets 2, 3 — ignored by the decoder, always written as
    zero by the serializer) set to zero. -/
def zeroReserved (v : Bytes) : Bytes := v.take 2 ++ [0, 0] ++ v.drop 4

/-! ## 2. Bytes and words -/

theorem u8_toNat (n : Nat) : (u8 n).toNat = n % 256 := by
  simp [u8]

theorem be16_putBe16 (n : Nat) (h : n < 65536) : be16 (u8 (n / 256)) (u8 n) = n := by
  unfold be16; rw [u8_toNat, u8_toNat]; omega

/-- For a whole number of milliseconds in range the written word is that number. -/
theorem delayWord_wf (d : Int) (h0 : 0 ≤ d) (h1 : d ≤ 65535 * millisecond) (h2 : d % millisecond = 0) :
    (delayWord d : Int) * millisecond = d ∧ delayWord d < 65536 ∧ Int.tdiv d millisecond ≤ maxUint16 := by
  unfold delayWord
  rw [Int.tdiv_eq_ediv_of_nonneg h0]
  unfold millisecond maxUint16 at *
  refine ⟨?_, ?_, ?_⟩
  · omega
  · omega
  · omega

/-- Whatever the delay, the word written is below 2^16 and decodes to a whole number of ms. -/
theorem delayWord_lt (d : Int) : delayWord d < 65536 := by
  unfold delayWord; omega

theorem msgEncode_cons (d : Int) (m T : Bytes) :
    msgEncode d m ++ T = u8 (delayWord d / 256) :: u8 (delayWord d) :: 0 :: 0 :: (m ++ T) := by
  simp [msgEncode, putBe16]

theorem msgEncode_length (d : Int) (m : Bytes) : (msgEncode d m).length = 4 + m.length := by
  simp [msgEncode, putBe16]; omega

/-- Decoding what the serializer writes: the layer the decoder builds from `msgEncode d m ++ p`
    (|m| = 16). -/
theorem msgLayer_encode (d : Int) (m p : Bytes) (hm : m.length = 16) :
    msgLayer (msgEncode d m ++ p) =
      { contents := msgEncode d m, payload := p,
        maximumResponseDelay := (delayWord d : Int) * millisecond, multicastAddress := m } := by
  have hlen : (msgEncode d m).length = 20 := by rw [msgEncode_length, hm]
  unfold msgLayer
  have e1 : (msgEncode d m ++ p).take 20 = msgEncode d m := by
    rw [← hlen]; exact List.take_left' rfl
  have e2 : (msgEncode d m ++ p).drop 20 = p := by
    rw [← hlen]; exact List.drop_left' rfl
  have e3 : ((msgEncode d m ++ p).drop 4).take 16 = m := by
    rw [msgEncode_cons]
    simp only [List.drop_succ_cons, List.drop_zero]
    rw [← hm]; exact List.take_left' rfl
  have e4 : u16At (msgEncode d m ++ p) 0 = delayWord d := by
    rw [msgEncode_cons]
    show be16 (u8 (delayWord d / 256)) (u8 (delayWord d)) = _
    exact be16_putBe16 _ (delayWord_lt d)
  rw [e1, e2, e3, e4]

/-! ## 3. Well-formedness -/

theorem msgLayer_wf (v : Bytes) (h : 20 ≤ v.length) : wfMsg (msgLayer v) := by
  have := u16At_lt v 0
  unfold wfMsg msgLayer millisecond
  simp only [List.length_take, List.length_drop]
  refine ⟨?_, ?_, ?_, ?_⟩
  · omega
  · omega
  · omega
  · omega

theorem msgSerSpec_wf (l : Msg) (p : Bytes) (hw : wfMsg l) :
    msgSerSpec l p = { layer := l, err := false, bytes := msgEncode l.maximumResponseDelay l.multicastAddress ++ p } := by
  obtain ⟨h0, h1, h2, h16⟩ := hw
  obtain ⟨-, -, hle⟩ := delayWord_wf _ h0 h1 h2
  unfold msgSerSpec
  rw [if_neg (by omega), if_neg (by omega), to16_of_16 _ h16]

theorem u8_be16_hi (a b : UInt8) : u8 (be16 a b / 256) = a := by
  have := a.toNat_lt; have := b.toNat_lt
  have e : (be16 a b / 256) % 256 = a.toNat := by unfold be16; omega
  unfold u8; rw [e]; exact UInt8.ofNat_toNat

theorem u8_be16_lo (a b : UInt8) : u8 (be16 a b) = b := by
  have := a.toNat_lt; have := b.toNat_lt
  have e : (be16 a b) % 256 = b.toNat := by unfold be16; omega
  unfold u8; rw [e]; exact UInt8.ofNat_toNat

theorem delayWord_decoded (w : Nat) (h : w < 65536) : delayWord ((w : Int) * millisecond) = w := by
  unfold delayWord
  rw [Int.tdiv_eq_ediv_of_nonneg (by unfold millisecond; omega)]
  unfold millisecond; omega

/-- Serialising a decoded layer over its own payload reproduces the input, except that the two
    reserved bytes are written as zero. -/
theorem encode_decoded (v : Bytes) (h : 20 ≤ v.length) :
    msgEncode (msgLayer v).maximumResponseDelay (msgLayer v).multicastAddress ++ (msgLayer v).payload =
      zeroReserved v := by
  simp only [msgLayer]
  rw [msgEncode_cons, delayWord_decoded _ (u16At_lt v 0)]
  have t2 : v.take 2 = [byteAt v 0, byteAt v 1] := by
    have := two_bytes v 0 (by omega)
    simpa using this
  have t16 : (v.drop 4).take 16 ++ v.drop 20 = v.drop 4 := by
    have := List.take_append_drop 16 (v.drop 4)
    rw [List.drop_drop] at this
    exact this
  unfold zeroReserved
  rw [t2, t16]
  show u8 (be16 (byteAt v 0) (byteAt v 1) / 256) :: u8 (be16 (byteAt v 0) (byteAt v 1)) :: _ = _
  rw [u8_be16_hi, u8_be16_lo]
  rfl

/-- What the serializer writes has zero reserved bytes. -/
theorem zeroReserved_encode (d : Int) (m p : Bytes) : zeroReserved (msgEncode d m ++ p) = msgEncode d m ++ p := by
  rw [msgEncode_cons]; rfl

end Gp.Mld
