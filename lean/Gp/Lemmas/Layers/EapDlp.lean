import Gp.Lemmas.Layers.Eap
/-
  Helper lemmas for engine `leap`, part 2: facts about the decode specifications and the
  DecodingLayerParser loop over {EAPOL, EAP}.  Core Lean only.
-/
namespace Gp.Eap
open Gp Gp.SBuf Gp.Gen.Eap

/-! ## 1. Facts about the specifications -/

theorem eapDecSpec_payload_le (bounded : Bool) (old : EAP) (v : Bytes)
    (h : (eapDecSpec bounded old v).err = false) :
    (eapDecSpec bounded old v).layer.payload.length + 4 ≤ v.length := by
  unfold eapDecSpec at h ⊢
  by_cases hlt : v.length < eapLen v
  · rw [if_pos hlt] at h; cases h
  · rw [if_neg hlt] at h ⊢
    by_cases h4 : eapLen v < 4
    · rw [if_pos h4] at h; cases h
    · rw [if_neg h4]
      simp only [eapLayer, List.length_drop]
      omega

theorem eapolDecSpec_payload_le (v : Bytes) (h4 : 4 ≤ v.length) :
    (eapolDecSpec v).layer.payload.length + 4 ≤ v.length := by
  simp only [eapolDecSpec, eapolLayer, List.length_drop]; omega

theorem keyDecSpec_payload_le (resetKd : Bool) (old : EAPOLKey) (v : Bytes) (h95 : 95 ≤ v.length)
    (h : (keyDecSpec resetKd old v).err = false) :
    (keyDecSpec resetKd old v).layer.payload.length + 95 ≤ v.length := by
  unfold keyDecSpec at h ⊢
  by_cases hlt : v.length < 95 + keyKdl v
  · rw [if_pos hlt] at h; cases h
  · rw [if_neg hlt]
    by_cases hE : keyEnc v = true
    · rw [if_pos hE]; simp only [List.length_drop]; omega
    · rw [if_neg hE]; simp only [List.length_drop]; omega

/-- Error flag and truncation contribution never depend on the receiver; on success neither does the layer. -/
theorem eapDecSpec_err_indep (bounded : Bool) (a b : EAP) (v : Bytes) :
    (eapDecSpec bounded a v).err = (eapDecSpec bounded b v).err ∧
    (eapDecSpec bounded a v).trunc = (eapDecSpec bounded b v).trunc ∧
    ((eapDecSpec bounded a v).err = false → (eapDecSpec bounded a v).layer = (eapDecSpec bounded b v).layer) := by
  unfold eapDecSpec
  by_cases h : v.length < eapLen v
  · rw [if_pos h, if_pos h]; exact ⟨rfl, rfl, fun hh => by cases hh⟩
  · rw [if_neg h, if_neg h]
    by_cases h4 : eapLen v < 4
    · rw [if_pos h4, if_pos h4]; exact ⟨rfl, rfl, fun hh => by cases hh⟩
    · rw [if_neg h4, if_neg h4]; exact ⟨rfl, rfl, fun _ => rfl⟩

/-- With patch leap-3 the same holds for EAPOL-Key. -/
theorem keyDecSpec_err_indep (a b : EAPOLKey) (v : Bytes) :
    (keyDecSpec true a v).err = (keyDecSpec true b v).err ∧
    (keyDecSpec true a v).trunc = (keyDecSpec true b v).trunc ∧
    ((keyDecSpec true a v).err = false → (keyDecSpec true a v).layer = (keyDecSpec true b v).layer) := by
  unfold keyDecSpec
  by_cases h : v.length < 95 + keyKdl v
  · rw [if_pos h, if_pos h]; exact ⟨rfl, rfl, fun hh => by cases hh⟩
  · rw [if_neg h, if_neg h]
    by_cases hE : keyEnc v = true
    · rw [if_pos hE, if_pos hE]; exact ⟨rfl, rfl, fun _ => rfl⟩
    · rw [if_neg hE, if_neg hE]; exact ⟨rfl, rfl, fun _ => rfl⟩

/-! ## 2. The DecodingLayerParser loop over {EAPOL, EAP} -/

theorem lt_ne_1 : ¬ (LayerTypeEAP = LayerTypeEAPOL) := by decide

/-- One iteration of the parser loop on an EAPOL layer, in terms of the decode specification. -/
theorem dlpLoop_eapol (fuel : Nat) (st : DlpState) (data : GSlice) :
    dlpLoop (fuel + 1) st LayerTypeEAPOL data =
      if data.len < 4 then .ok ({ st with trunc := st.trunc || true }, 1)
      else
        let o := eapolDecSpec data.vis
        let st' : DlpState := { st with eapol := o.layer, trunc := st.trunc || o.trunc,
                                        decoded := st.decoded ++ [LayerTypeEAPOL] }
        let rest : GSlice := { vis := o.layer.payload, tail := data.tail }
        if rest.len = 0 then .ok (st', 0) else dlpLoop fuel st' o.layer.nextLayerType rest := by
  by_cases h : data.len < 4
  · rw [if_pos h]
    unfold dlpLoop
    simp only [if_true, EAPOL.decode_short st.eapol data h]
  · rw [if_neg h]
    conv => lhs; unfold dlpLoop
    simp only [if_true, EAPOL.decode_long st.eapol data (by omega)]
    all_goals rfl

theorem dlpLoop_eap (fuel : Nat) (st : DlpState) (data : GSlice) :
    dlpLoop (fuel + 1) st LayerTypeEAP data =
      if data.len < 4 then .ok ({ st with trunc := st.trunc || true }, 1)
      else
        let o := eapDecSpec true st.eap data.vis
        let st1 : DlpState := { st with eap := o.layer, trunc := st.trunc || o.trunc }
        if o.err then .ok (st1, 1) else
        let st' : DlpState := { st1 with decoded := st.decoded ++ [LayerTypeEAP] }
        let rest : GSlice := { vis := o.layer.payload, tail := data.tail }
        if rest.len = 0 then .ok (st', 0) else dlpLoop fuel st' o.layer.nextLayerType rest := by
  by_cases h : data.len < 4
  · rw [if_pos h]
    unfold dlpLoop
    simp only [lt_ne_1, if_false, if_true, EAP.decodeFromBytes, EAP.decode_short true st.eap data h]
  · rw [if_neg h]
    conv => lhs; unfold dlpLoop
    simp only [lt_ne_1, if_false, if_true, EAP.decodeFromBytes, EAP.decode_long true st.eap data (by omega)]
    all_goals rfl

theorem dlpLoop_other (fuel : Nat) (st : DlpState) (typ : Nat) (data : GSlice)
    (h1 : typ ≠ LayerTypeEAPOL) (h2 : typ ≠ LayerTypeEAP) :
    dlpLoop (fuel + 1) st typ data = if typ = LayerTypeZero then .ok (st, 0) else .ok (st, 2) := by
  unfold dlpLoop
  simp only [h1, h2, if_false]

theorem dlpLoop_no_panic (fuel : Nat) (st : DlpState) (typ : Nat) (data : GSlice) (k : PanicKind) :
    dlpLoop fuel st typ data ≠ .panic k := by
  induction fuel generalizing st typ data with
  | zero => unfold dlpLoop; exact fun h => nomatch h
  | succ fuel ih =>
    by_cases h1 : typ = LayerTypeEAPOL
    · subst h1; rw [dlpLoop_eapol]
      split
      · exact fun h => nomatch h
      · simp only; split
        · exact fun h => nomatch h
        · exact ih _ _ _
    · by_cases h2 : typ = LayerTypeEAP
      · subst h2; rw [dlpLoop_eap]
        split
        · exact fun h => nomatch h
        · simp only; split
          · exact fun h => nomatch h
          · split
            · exact fun h => nomatch h
            · exact ih _ _ _
      · rw [dlpLoop_other _ _ _ _ h1 h2]; split <;> exact fun h => nomatch h

/-- The fuel `|data| + 1` of `dlpDecodeLayers` suffices: any two amounts of fuel above the input
    length give the same run (each iteration consumes at least 4 bytes). -/
theorem dlpLoop_fuel (f1 f2 : Nat) (st : DlpState) (typ : Nat) (data : GSlice)
    (h1 : data.len < f1) (h2 : data.len < f2) :
    dlpLoop f1 st typ data = dlpLoop f2 st typ data := by
  induction f1 generalizing f2 st typ data with
  | zero => omega
  | succ f1 ih =>
    cases f2 with
    | zero => omega
    | succ f2 =>
      by_cases e1 : typ = LayerTypeEAPOL
      · subst e1; rw [dlpLoop_eapol, dlpLoop_eapol]
        by_cases hs : data.len < 4
        · rw [if_pos hs, if_pos hs]
        · rw [if_neg hs, if_neg hs]
          simp only
          have hp := eapolDecSpec_payload_le data.vis (by unfold GSlice.len at hs; omega)
          split
          · rfl
          · exact ih _ _ _ _ (by unfold GSlice.len at *; simp only; omega) (by unfold GSlice.len at *; simp only; omega)
      · by_cases e2 : typ = LayerTypeEAP
        · subst e2; rw [dlpLoop_eap, dlpLoop_eap]
          by_cases hs : data.len < 4
          · rw [if_pos hs, if_pos hs]
          · rw [if_neg hs, if_neg hs]
            simp only
            by_cases he : (eapDecSpec true st.eap data.vis).err = true
            · rw [if_pos he, if_pos he]
            · rw [if_neg he, if_neg he]
              have hp := eapDecSpec_payload_le true st.eap data.vis (by simpa using he)
              split
              · rfl
              · exact ih _ _ _ _ (by unfold GSlice.len at *; simp only; omega) (by unfold GSlice.len at *; simp only; omega)
        · rw [dlpLoop_other _ _ _ _ e1 e2, dlpLoop_other _ _ _ _ e1 e2]

/-- The result of the parser loop does not depend on the capacity of the packet buffer / the bytes
    behind the input. -/
theorem dlpLoop_cap (fuel : Nat) (st : DlpState) (typ : Nat) (v t1 t2 : Bytes) :
    dlpLoop fuel st typ { vis := v, tail := t1 } = dlpLoop fuel st typ { vis := v, tail := t2 } := by
  induction fuel generalizing st typ v t1 t2 with
  | zero => unfold dlpLoop; rfl
  | succ fuel ih =>
    have hlen : ∀ (p a b : Bytes), GSlice.len { vis := p, tail := a } = GSlice.len { vis := p, tail := b } :=
      fun _ _ _ => rfl
    by_cases e1 : typ = LayerTypeEAPOL
    · subst e1; rw [dlpLoop_eapol, dlpLoop_eapol]
      simp only [hlen v t1 t2]
      split
      · rfl
      · simp only [hlen _ t1 t2]
        split
        · rfl
        · exact ih _ _ _ _ _
    · by_cases e2 : typ = LayerTypeEAP
      · subst e2; rw [dlpLoop_eap, dlpLoop_eap]
        simp only [hlen v t1 t2]
        split
        · rfl
        · split
          · rfl
          · simp only [hlen _ t1 t2]
            split
            · rfl
            · exact ih _ _ _ _ _
      · rw [dlpLoop_other _ _ _ _ e1 e2, dlpLoop_other _ _ _ _ e1 e2]

/-- Two parser states agree on everything a caller may rely on after DecodeLayers: the decoded type
    list, the truncation flag, and the contents of every layer object whose type is in the list. -/
def DlpAgree (s1 s2 : DlpState) : Prop :=
  s1.decoded = s2.decoded ∧ s1.trunc = s2.trunc ∧
  (LayerTypeEAPOL ∈ s1.decoded → s1.eapol = s2.eapol) ∧
  (LayerTypeEAP ∈ s1.decoded → s1.eap = s2.eap)

theorem dlpLoop_agree (fuel : Nat) (s1 s2 : DlpState) (typ : Nat) (data : GSlice) (h : DlpAgree s1 s2) :
    ∃ r1 r2 c, dlpLoop fuel s1 typ data = .ok (r1, c) ∧ dlpLoop fuel s2 typ data = .ok (r2, c) ∧
      DlpAgree r1 r2 := by
  induction fuel generalizing s1 s2 typ data with
  | zero => exact ⟨s1, s2, 0, by unfold dlpLoop; rfl, by unfold dlpLoop; rfl, h⟩
  | succ fuel ih =>
    obtain ⟨hd, ht, hl, ha⟩ := h
    by_cases e1 : typ = LayerTypeEAPOL
    · subst e1; rw [dlpLoop_eapol, dlpLoop_eapol]
      by_cases hs : data.len < 4
      · rw [if_pos hs, if_pos hs]
        exact ⟨_, _, 1, rfl, rfl, hd, by simp only [ht], hl, ha⟩
      · rw [if_neg hs, if_neg hs]
        simp only
        have hag : DlpAgree
            { s1 with eapol := (eapolDecSpec data.vis).layer, trunc := s1.trunc || (eapolDecSpec data.vis).trunc,
                      decoded := s1.decoded ++ [LayerTypeEAPOL] }
            { s2 with eapol := (eapolDecSpec data.vis).layer, trunc := s2.trunc || (eapolDecSpec data.vis).trunc,
                      decoded := s2.decoded ++ [LayerTypeEAPOL] } := by
          refine ⟨by simp only [hd], by simp only [ht], fun _ => rfl, fun hm => ?_⟩
          simp only [List.mem_append, List.mem_singleton] at hm
          rcases hm with hm | hm
          · exact ha hm
          · exact absurd hm lt_ne_1
        split
        · exact ⟨_, _, 0, rfl, rfl, hag⟩
        · exact ih _ _ _ _ hag
    · by_cases e2 : typ = LayerTypeEAP
      · subst e2; rw [dlpLoop_eap, dlpLoop_eap]
        by_cases hs : data.len < 4
        · rw [if_pos hs, if_pos hs]
          exact ⟨_, _, 1, rfl, rfl, hd, by simp only [ht], hl, ha⟩
        · rw [if_neg hs, if_neg hs]
          simp only
          obtain ⟨x1, x2, x3⟩ := eapDecSpec_err_indep true s1.eap s2.eap data.vis
          by_cases hee : (eapDecSpec true s1.eap data.vis).err = true
          · have hee2 : (eapDecSpec true s2.eap data.vis).err = true := by rw [← x1]; exact hee
            rw [if_pos hee, if_pos hee2]
            refine ⟨_, _, 1, rfl, rfl, hd, by simp only [ht, x2], hl, fun hm => ?_⟩
            simp only
            -- a failed decode: both receivers get the same three header fields on top of equal objects
            have hold : ∀ o : EAP, (eapDecSpec true o data.vis).err = true →
                (eapDecSpec true o data.vis).layer = eapHdr o data.vis := by
              intro o ho
              unfold eapDecSpec at ho ⊢
              by_cases hp : data.vis.length < eapLen data.vis
              · rw [if_pos hp]
              · rw [if_neg hp] at ho ⊢
                by_cases hq : eapLen data.vis < 4
                · rw [if_pos hq]
                · rw [if_neg hq] at ho; cases ho
            rw [hold _ hee, hold _ hee2, ha hm]
          · have hef : (eapDecSpec true s1.eap data.vis).err = false := by simpa using hee
            have hee2 : ¬ (eapDecSpec true s2.eap data.vis).err = true := by rw [← x1]; exact hee
            rw [if_neg hee, if_neg hee2, ← x3 hef]
            have hag : DlpAgree
                { s1 with eap := (eapDecSpec true s1.eap data.vis).layer, trunc := s1.trunc || (eapDecSpec true s1.eap data.vis).trunc,
                          decoded := s1.decoded ++ [LayerTypeEAP] }
                { s2 with eap := (eapDecSpec true s1.eap data.vis).layer, trunc := s2.trunc || (eapDecSpec true s2.eap data.vis).trunc,
                          decoded := s2.decoded ++ [LayerTypeEAP] } := by
              refine ⟨by simp only [hd], by simp only [ht, x2], fun hm => ?_, fun _ => rfl⟩
              simp only [List.mem_append, List.mem_singleton] at hm
              rcases hm with hm | hm
              · exact hl hm
              · exact absurd hm.symm lt_ne_1
            split
            · exact ⟨_, _, 0, rfl, rfl, hag⟩
            · exact ih _ _ _ _ hag
      · rw [dlpLoop_other _ _ _ _ e1 e2, dlpLoop_other _ _ _ _ e1 e2]
        split
        · exact ⟨_, _, 0, rfl, rfl, hd, ht, hl, ha⟩
        · exact ⟨_, _, 2, rfl, rfl, hd, ht, hl, ha⟩

end Gp.Eap
