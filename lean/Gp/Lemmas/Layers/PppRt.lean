import Gp.Lemmas.Layers.PppSer
/-
  Helper lemmas for engine `lppp`, part 3: well-formedness, bit packing, decoding serialized
  headers (round trip).  Core Lean only.

  Section 1 holds the *definitions* that occur in the statements of the property theorems
  (`wf…` predicates, `≈`); the rest is proof machinery.
-/
namespace Gp.Ppp
open Gp Gp.SBuf Gp.C18 Gp.Gen.Ppp

/-! ## 1. Definitions used in property statements -/

/-- In-range PPP field values: a 16-bit protocol number of the shape RFC 1661 §2 prescribes —
    high byte even, low byte odd (this is also exactly what `decodePPP` can produce). -/
def wfPPP (l : PPP) : Prop :=
  l.pppType < 65536 ∧ l.pppType / 256 % 2 = 0 ∧ l.pppType % 2 = 1

/-- In-range PPPoE field values: 4-bit Version and Type, 8-bit Code, 16-bit SessionId / Length. -/
def wfPPPoE (l : PPPoE) : Prop :=
  l.version ≤ 15 ∧ l.type ≤ 15 ∧ l.code < 256 ∧ l.sessionId < 65536 ∧ l.length < 65536

/-- In-range MPLS field values: 20-bit label, 3-bit traffic class, 8-bit TTL. -/
def wfMPLS (l : MPLS) : Prop :=
  l.label < 1048576 ∧ l.trafficClass ≤ 7 ∧ l.ttl < 256

instance (l : PPP) : Decidable (wfPPP l) := by unfold wfPPP; infer_instance
instance (l : PPPoE) : Decidable (wfPPPoE l) := by unfold wfPPPoE; infer_instance
instance (l : MPLS) : Decidable (wfMPLS l) := by unfold wfMPLS; infer_instance

/-- Field equivalence `≈`: all public fields; ignores BaseLayer.Contents/Payload. -/
def PPPEquiv (a b : PPP) : Prop := a.pppType = b.pppType ∧ a.hasPPTPHeader = b.hasPPTPHeader

def PPPoEEquiv (a b : PPPoE) : Prop :=
  a.version = b.version ∧ a.type = b.type ∧ a.code = b.code ∧ a.sessionId = b.sessionId ∧ a.length = b.length

def MPLSEquiv (a b : MPLS) : Prop :=
  a.label = b.label ∧ a.trafficClass = b.trafficClass ∧ a.stackBottom = b.stackBottom ∧ a.ttl = b.ttl

/-- The value `MPLS.SerializeTo` packs for in-range fields. -/
def mplsWord (l : MPLS) : Nat :=
  l.label * 4096 + l.trafficClass * 512 + (if l.stackBottom then 256 else 0) + l.ttl

/-! ## 2. Byte and bit arithmetic -/

theorem u8_toNat (n : Nat) : (u8 n).toNat = n % 256 := by
  simp [u8]

theorem be16_putBe16 (n : Nat) (h : n < 65536) : be16 (u8 (n / 256)) (u8 n) = n := by
  unfold be16; rw [u8_toNat, u8_toNat]; omega

theorem be32_putBe32 (n : Nat) (h : n < 4294967296) :
    be32 (u8 (n / 16777216)) (u8 (n / 65536)) (u8 (n / 256)) (u8 n) = n := by
  unfold be32; rw [u8_toNat, u8_toNat, u8_toNat, u8_toNat]; omega

/-- `t & 0x100`: bit 8. -/
theorem and_256 (t : Nat) : t &&& 256 = if t / 256 % 2 = 1 then 256 else 0 := by
  apply Nat.eq_of_testBit_eq; intro i
  have e : (256:Nat) = 2^8 := rfl
  rw [Nat.testBit_and, e, Nat.testBit_two_pow]
  by_cases hi : 8 = i
  · subst hi
    simp only [decide_true, Bool.and_true, Nat.testBit_eq_decide_div_mod_eq]
    split
    · rename_i h; simp [h]
    · rename_i h; simp [h]
  · simp only [hi, decide_false, Bool.and_false]
    split
    · rw [Nat.testBit_two_pow]; simp [hi]
    · simp

theorem and_256_eq_zero (t : Nat) : t &&& 256 = 0 ↔ t / 256 % 2 = 0 := by
  rw [and_256]; split <;> omega

theorem and_256_ne (t : Nat) : (t &&& 256 != 0) = decide (t / 256 % 2 = 1) := by
  rw [and_256]; split
  · rename_i h; simp [h]
  · rename_i h; simp [h]

theorem and_7 (x : Nat) : x &&& 7 = x % 8 := by
  have : (7 : Nat) = 2 ^ 3 - 1 := rfl
  rw [this, Nat.and_two_pow_sub_one_eq_mod]

theorem and_15 (x : Nat) : x &&& 15 = x % 16 := by
  have : (15 : Nat) = 2 ^ 4 - 1 := rfl
  rw [this, Nat.and_two_pow_sub_one_eq_mod]

/-- mpls.go:89-95 on in-range fields: the OR-ed word is the sum of the disjoint bit fields. -/
theorem mpls_encode_wf (l : MPLS) (hw : wfMPLS l) : l.encode = mplsWord l := by
  obtain ⟨hl, ht, hq⟩ := hw
  unfold MPLS.encode mplsWord
  have e1 : (l.label <<< 12) % 4294967296 = 2 ^ 12 * l.label := by rw [Nat.shiftLeft_eq]; omega
  have e2 : (l.trafficClass % 256) <<< 9 = 2 ^ 9 * l.trafficClass := by rw [Nat.shiftLeft_eq]; omega
  have e3 : l.ttl % 256 = l.ttl := by omega
  simp only [e1, e2, e3]
  have a1 : 2 ^ 12 * l.label ||| 2 ^ 9 * l.trafficClass = 2 ^ 9 * (8 * l.label + l.trafficClass) := by
    rw [← Nat.two_pow_add_eq_or_of_lt (by omega)]; omega
  rw [a1]
  cases l.stackBottom
  · simp only [Bool.false_eq_true, if_false]
    rw [← Nat.two_pow_add_eq_or_of_lt (by omega)]; omega
  · simp only [if_true]
    rw [Nat.or_assoc]
    have a2 : l.ttl ||| 0x100 = 2 ^ 8 * 1 + l.ttl := by
      rw [Nat.or_comm, Nat.two_pow_add_eq_or_of_lt (by omega)]
    rw [a2, ← Nat.two_pow_add_eq_or_of_lt (by omega)]; omega

theorem mplsWord_lt (l : MPLS) (hw : wfMPLS l) : mplsWord l < 4294967296 := by
  obtain ⟨hl, ht, hq⟩ := hw
  unfold mplsWord; split <;> omega

/-- pppoe.go:63 on in-range fields: `(Version << 4) | Type` = Version*16 + Type. -/
theorem pppoe_b0 (ver ty : Nat) (hv : ver ≤ 15) (ht : ty ≤ 15) :
    ((ver <<< 4) % 256) ||| (ty % 256) = ver * 16 + ty := by
  have e1 : (ver <<< 4) % 256 = 2 ^ 4 * ver := by rw [Nat.shiftLeft_eq]; omega
  have e2 : ty % 256 = ty := by omega
  rw [e1, e2, ← Nat.two_pow_add_eq_or_of_lt (by omega)]; omega

/-! ## 3. Every decoded layer is well-formed -/

theorem pppDecSpec_wf (v : Bytes) (l : PPP) (h : pppDecSpec v = some l) : wfPPP l := by
  unfold pppDecSpec at h
  simp only at h
  split at h
  · cases h
  · split at h
    · split at h
      · cases h
      · split at h
        · cases h
        · rename_i he _ ho
          cases h
          unfold wfPPP u16At be16
          simp only
          rw [Nat.and_one_is_mod] at he ho
          have h1 := (v.getD (pppOff v) 0).toNat_lt
          have h2 := (v.getD (pppOff v + 1) 0).toNat_lt
          refine ⟨by omega, by omega, by omega⟩
    · rename_i he
      cases h
      unfold wfPPP
      simp only
      rw [Nat.and_one_is_mod] at he
      have h1 := (v.getD (pppOff v) 0).toNat_lt
      refine ⟨by omega, by omega, by omega⟩

theorem pppoeDecSpec_wf (v : Bytes) (l : PPPoE) (h : pppoeDecSpec v = some l) :
    wfPPPoE l ∧ l.payload.length = l.length := by
  unfold pppoeDecSpec at h
  split at h
  · cases h
  · split at h
    · cases h
    · cases h
      unfold wfPPPoE
      simp only
      have h0 := (v.getD 0 0).toNat_lt
      have h1 := (v.getD 1 0).toNat_lt
      refine ⟨⟨?_, ?_, h1, u16At_lt v 2, u16At_lt v 4⟩, ?_⟩
      · rw [Nat.shiftRight_eq_div_pow]; omega
      · rw [and_15]; omega
      · simp only [List.length_take, List.length_drop]; omega

theorem mplsDecSpec_wf (v : Bytes) (l : MPLS) (h : mplsDecSpec v = some l) : wfMPLS l := by
  unfold mplsDecSpec at h
  split at h
  · cases h
  · cases h
    unfold wfMPLS
    simp only
    have hu := u32At_lt v 0
    refine ⟨?_, ?_, by omega⟩
    · rw [Nat.shiftRight_eq_div_pow]; omega
    · rw [and_7]; omega

/-! ## 4. Decoding a serialized header -/

theorem u8_ff : (u8 0xff).toNat = 0xff := by decide
theorem u8_03 : (u8 0x03).toNat = 0x03 := by decide

/-- Decoding `[ff 03] ++ be16 type ++ p` for an in-range type: the two-byte protocol field path,
    HasPPTPHeader exactly when the prefix was written, payload `p`. -/
theorem pppDecSpec_frame (l : PPP) (p : Bytes) (hw : wfPPP l) :
    pppHdrBytes l = (if l.hasPPTPHeader then [u8 0xff, u8 0x03] else []) ++ putBe16 l.pppType ∧
    pppDecSpec (pppHdrBytes l ++ p) =
      some { contents := putBe16 l.pppType, payload := p, pppType := l.pppType,
             hasPPTPHeader := l.hasPPTPHeader } := by
  obtain ⟨h16, hhi, hlo⟩ := hw
  have hz : l.pppType &&& 0x100 = 0 := (and_256_eq_zero _).2 hhi
  have hm : l.pppType % 65536 = l.pppType := Nat.mod_eq_of_lt h16
  have hb : pppHdrBytes l = (if l.hasPPTPHeader then [u8 0xff, u8 0x03] else []) ++ putBe16 l.pppType := by
    unfold pppHdrBytes pppTypeBytes; rw [if_pos hz, hm]
  refine ⟨hb, ?_⟩
  rw [hb]
  have t0 : (u8 (l.pppType / 256)).toNat = l.pppType / 256 := by rw [u8_toNat]; omega
  have t1 : (u8 l.pppType).toNat = l.pppType % 256 := u8_toNat _
  have hbe := be16_putBe16 l.pppType h16
  cases hp : l.hasPPTPHeader
  · -- no prefix: the first byte is even, hence not 0xff
    simp only [Bool.false_eq_true, if_false, List.nil_append, putBe16, List.cons_append]
    have hh : pppHdr (u8 (l.pppType / 256) :: u8 l.pppType :: p) = false := by
      unfold pppHdr
      simp only [List.getD_cons_zero, t0]
      have : ¬ l.pppType / 256 = 0xff := by omega
      simp [this]
    unfold pppDecSpec pppOff
    simp only [hh, Bool.false_eq_true, if_false, Nat.zero_add, List.getD_cons_zero, List.getD_cons_succ,
      List.length_cons, t0, t1, Nat.and_one_is_mod, u16At, hbe, List.drop_zero, List.take_succ_cons,
      List.take_zero, List.drop_succ_cons]
    rw [if_neg (by omega), if_pos (by omega), if_neg (by omega), if_neg (by omega)]
  · simp only [if_true, putBe16, List.cons_append, List.nil_append]
    have hh : pppHdr (u8 0xff :: u8 0x03 :: u8 (l.pppType / 256) :: u8 l.pppType :: p) = true := by
      unfold pppHdr
      simp [u8_ff, u8_03]
    unfold pppDecSpec pppOff
    simp only [hh, if_true, List.getD_cons_zero, List.getD_cons_succ,
      List.length_cons, t0, t1, Nat.and_one_is_mod, u16At, hbe, List.drop_zero, List.take_succ_cons,
      List.take_zero, List.drop_succ_cons]
    rw [if_neg (by omega), if_pos (by omega), if_neg (by omega), if_neg (by omega)]

/-- Decoding the six header bytes of an in-range PPPoE layer whose Length is the payload length. -/
theorem pppoeDecSpec_frame (l : PPPoE) (p : Bytes) (hw : wfPPPoE l) (hl : l.length = p.length) :
    pppoeDecSpec (pppoeHdrBytes l ++ p) =
      some { contents := pppoeHdrBytes l, payload := p, version := l.version, type := l.type,
             code := l.code, sessionId := l.sessionId, length := l.length } := by
  obtain ⟨hv, ht, hc, hs, hn⟩ := hw
  have b0 := pppoe_b0 l.version l.type hv ht
  have m1 : l.code % 256 = l.code := Nat.mod_eq_of_lt hc
  have m2 : l.sessionId % 65536 = l.sessionId := Nat.mod_eq_of_lt hs
  have m3 : l.length % 65536 = l.length := Nat.mod_eq_of_lt hn
  have t0 : (u8 (l.version * 16 + l.type)).toNat = l.version * 16 + l.type := by rw [u8_toNat]; omega
  have t1 : (u8 l.code).toNat = l.code := by rw [u8_toNat]; omega
  have s1 := be16_putBe16 l.sessionId hs
  have s2 := be16_putBe16 l.length hn
  unfold pppoeHdrBytes
  rw [b0, m1, m2, m3]
  unfold pppoeDecSpec
  simp only [putBe16, List.cons_append, List.nil_append, List.length_cons, u16At, List.getD_cons_zero,
    List.getD_cons_succ, s1, s2, t0, t1, List.take_succ_cons, List.take_zero, List.drop_succ_cons, List.drop_zero]
  rw [if_neg (by omega), if_neg (by omega), hl, List.take_length, Nat.shiftRight_eq_div_pow, and_15]
  have e1 : (l.version * 16 + l.type) / 2 ^ 4 = l.version := by omega
  have e2 : (l.version * 16 + l.type) % 16 = l.type := by omega
  rw [e1, e2]

/-- Decoding the four header bytes of an in-range MPLS entry. -/
theorem mplsDecSpec_frame (l : MPLS) (p : Bytes) (hw : wfMPLS l) :
    mplsDecSpec (putBe32 l.encode ++ p) =
      some { contents := putBe32 l.encode, payload := p, label := l.label, trafficClass := l.trafficClass,
             stackBottom := l.stackBottom, ttl := l.ttl } := by
  have hE := mpls_encode_wf l hw
  have hlt := mplsWord_lt l hw
  obtain ⟨hl, ht, hq⟩ := hw
  rw [hE]
  have hu : u32At (putBe32 (mplsWord l) ++ p) 0 = mplsWord l := by
    simp only [u32At, putBe32, List.cons_append, List.nil_append, List.getD_cons_zero, List.getD_cons_succ]
    exact be32_putBe32 _ hlt
  unfold mplsDecSpec
  have hlen : ¬ (putBe32 (mplsWord l) ++ p).length < 4 := by simp [putBe32]
  rw [if_neg hlen, hu]
  have c1 : (putBe32 (mplsWord l) ++ p).take 4 = putBe32 (mplsWord l) := List.take_left' rfl
  have c2 : (putBe32 (mplsWord l) ++ p).drop 4 = p := List.drop_left' rfl
  rw [c1, c2, Nat.shiftRight_eq_div_pow, Nat.shiftRight_eq_div_pow, and_7, and_256_ne]
  have f1 : mplsWord l / 2 ^ 12 = l.label := by unfold mplsWord; split <;> omega
  have f2 : mplsWord l / 2 ^ 9 % 256 % 8 = l.trafficClass := by unfold mplsWord; split <;> omega
  have f3 : decide (mplsWord l / 256 % 2 = 1) = l.stackBottom := by
    unfold mplsWord
    cases l.stackBottom
    · simp only [Bool.false_eq_true, if_false, decide_eq_false_iff_not]; omega
    · simp only [if_true, decide_eq_true_eq]; omega
  have f4 : mplsWord l % 256 = l.ttl := by unfold mplsWord; split <;> omega
  rw [f1, f2, f3, f4]

/-! ## 5. The header bytes depend on the `≈` fields only -/

theorem pppHdrBytes_congr (a b : PPP) (h : PPPEquiv a b) : pppHdrBytes a = pppHdrBytes b := by
  unfold pppHdrBytes; rw [h.1, h.2]

theorem pppoeHdrBytes_congr (a b : PPPoE) (h : PPPoEEquiv a b) : pppoeHdrBytes a = pppoeHdrBytes b := by
  obtain ⟨h1, h2, h3, h4, h5⟩ := h
  unfold pppoeHdrBytes; rw [h1, h2, h3, h4, h5]

theorem mplsEncode_congr (a b : MPLS) (h : MPLSEquiv a b) : a.encode = b.encode := by
  obtain ⟨h1, h2, h3, h4⟩ := h
  unfold MPLS.encode; rw [h1, h2, h3, h4]

/-! ## 6. MPLS label stacks of any depth -/

/-- The bytes of a label stack (outermost first) over a payload. -/
def mplsFrame : List MPLS → Bytes → Bytes
  | [], p => p
  | l :: tl, p => putBe32 l.encode ++ mplsFrame tl p

/-- A label stack entry as the decoder returns it: same fields, Contents = its four bytes,
    Payload = everything behind it. -/
def mplsLayerOf (l : MPLS) (pl : Bytes) : MPLS :=
  { contents := putBe32 l.encode, payload := pl, label := l.label, trafficClass := l.trafficClass,
    stackBottom := l.stackBottom, ttl := l.ttl }

/-- The layers a label stack decodes to. -/
def mplsDecoded : List MPLS → Bytes → List AnyLayer
  | [], _ => []
  | l :: tl, p => .mpls (mplsLayerOf l (mplsFrame tl p)) :: mplsDecoded tl p

/-- SerializeLayers over a label stack: innermost entry first, each prepending its four bytes. -/
def mplsSerStack : List MPLS → SBuf → SBuf
  | [], b => b
  | l :: tl, b => mplsSerBuf l (mplsSerStack tl b)

theorem mplsSerStack_contents (ls : List MPLS) (b : SBuf) (h : Inv b) :
    contents (mplsSerStack ls b) = mplsFrame ls (contents b) ∧ Inv (mplsSerStack ls b) := by
  induction ls with
  | nil => exact ⟨rfl, h⟩
  | cons l tl ih =>
    obtain ⟨c, i⟩ := ih
    obtain ⟨c2, i2⟩ := mplsSerBuf_contents l (mplsSerStack tl b) i
    exact ⟨by simp only [mplsSerStack, mplsFrame, c2, c], i2⟩

theorem mplsFrame_length (ls : List MPLS) (p : Bytes) : (mplsFrame ls p).length = 4 * ls.length + p.length := by
  induction ls with
  | nil => simp [mplsFrame]
  | cons l tl ih => simp only [mplsFrame, List.length_append, ih, List.length_cons, List.length_nil, putBe32]; omega

/-- Eager decoding walks down a well-formed label stack of ANY depth: every entry whose S bit is
    clear re-enters decodeMPLS on the rest; the layers come out in order with all fields intact. -/
theorem mpls_stack_run (ls : List MPLS) (p : Bytes) (acc : RunOut) (fuel : Nat)
    (hne : ls ≠ []) (hw : ∀ l ∈ ls, wfMPLS l) (hs : ∀ l ∈ ls.dropLast, l.stackBottom = false)
    (hf : ls.length ≤ fuel) :
    ∃ more, (runS fuel .mpls (mplsFrame ls p) acc).layers = acc.layers ++ mplsDecoded ls p ++ more := by
  induction ls generalizing acc fuel with
  | nil => exact absurd rfl hne
  | cons l tl ih =>
    have hwl : wfMPLS l := hw l (List.mem_cons_self)
    have hstep : stepS .mpls (mplsFrame (l :: tl) p) = some
        { beh := { acts := [.addLayer LayerTypeMPLS],
                   tail := if l.stackBottom then .mplsPayload else .mplsFunc },
          layer := some (.mpls (mplsLayerOf l (mplsFrame tl p))),
          rest := mplsFrame tl p } := by
      simp only [stepS, mplsFrame, mplsDecSpec_frame l (mplsFrame tl p) hwl, mplsLayerOf]
    cases fuel with
    | zero => simp at hf
    | succ f =>
      cases tl with
      | nil =>
        obtain ⟨more, hm⟩ := runS_step_layers f .mpls (mplsFrame [l] p) acc _ _ hstep rfl
        exact ⟨more, by rw [hm]; simp only [mplsDecoded, mplsFrame, List.append_assoc, List.singleton_append]⟩
      | cons l2 tl2 =>
        have hsb : l.stackBottom = false := hs l (by simp [List.dropLast])
        have hpos : (mplsFrame (l2 :: tl2) p).length ≠ 0 := by
          rw [mplsFrame_length]; simp
        rw [runS_next f .mpls _ acc _ _ .mpls hstep rfl hpos (by simp only [hsb, resolveS]; rfl)]
        obtain ⟨more, hm⟩ := ih
          { acc with acts := acc.acts ++ [Act.addLayer LayerTypeMPLS],
                     layers := acc.layers ++ [AnyLayer.mpls (mplsLayerOf l (mplsFrame (l2 :: tl2) p))] }
          f (by simp) (fun x hx => hw x (List.mem_cons_of_mem _ hx))
          (fun x hx => hs x (by simp only [List.dropLast]; exact List.mem_cons_of_mem _ hx))
          (by simp only [List.length_cons] at hf ⊢; omega)
        exact ⟨more, by rw [hm]; simp only [mplsDecoded, List.append_assoc, List.singleton_append, List.cons_append, List.nil_append]⟩

end Gp.Ppp
