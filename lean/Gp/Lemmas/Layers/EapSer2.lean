import Gp.Lemmas.Layers.EapSer
/-
  Helper lemmas for engine `leap`, part 4: refinement of `EAP.SerializeTo` and `EAPOLKey.SerializeTo`
  (the code with leap-1 / leap-4) to their functional specifications; the observable view.
-/
namespace Gp.Eap
open Gp Gp.SBuf Gp.C18 Gp.Gen.Eap

/-! ## 1. EAP -/

theorem eapFixed_size (l : EAP) (fix : Bool) : eapSize (eapFixed l fix) = eapSize l := by
  unfold eapFixed; cases fix <;> rfl

theorem eap_serializeTo_eq (l : EAP) (b : SBuf) (fix csum : Bool) :
    l.serializeTo b fix csum =
      eapStores (eapFixed l fix) (eapSize l) (prepend b (eapSize l)).1 (prepend b (eapSize l)).2 := by
  unfold EAP.serializeTo eapFixed
  cases fix <;> rfl

theorem eapEncode_length (l : EAP) : (eapEncode l).length = eapSize l := by
  unfold eapEncode eapSize
  by_cases hc : l.typ ≠ eapTypeNone ∨ l.typeData.length > 0
  · rw [if_pos hc, if_pos (by omega)]
    simp [putBe16_length]; omega
  · rw [if_neg hc, if_neg (by omega)]
    simp [putBe16_length]

theorem eap_stores_refines (l' : EAP) (b : SBuf) (h : Inv b) :
    ∃ o, eapStores l' (eapSize l') (prepend b (eapSize l')).1 (prepend b (eapSize l')).2 = .ok o ∧ Inv o.buf ∧
      o.layer = l' ∧ o.err = false ∧ contents o.buf = eapEncode l' ++ contents b := by
  obtain ⟨hi1, hn, hgen, hoff, hlen, hdrop⟩ := prepend_facts b (eapSize l') h
  have hC : contents (prepend b (eapSize l')).1 = contents (prepend b (eapEncode l').length).1 := by
    rw [eapEncode_length]
  have hs4 : 4 ≤ eapSize l' := by unfold eapSize; split <;> omega
  generalize hr : prepend b (eapSize l') = r at hi1 hn hgen hoff hlen hdrop hC
  obtain ⟨b1, buf⟩ := r
  simp only at hi1 hn hgen hoff hlen hdrop hC
  have t0 := track_init b1 buf hi1 hgen hoff
  obtain ⟨b2, e2, t2⟩ := write_track b1 buf _ [] 0 (u8 l'.code) t0 rfl (by omega) (by simp; omega)
  obtain ⟨b3, e3, t3⟩ := write_track b2 buf _ _ 1 (u8 l'.id) t2 rfl (by omega) (by simp; omega)
  unfold eapStores
  rw [e2, Res.bind_ok, e3, Res.bind_ok, winFrom_ok buf 2 (by omega), Res.bind_ok]
  unfold putUint16
  rw [if_neg (by simp only; omega)]
  simp only [Res.bind_ok]
  have t4 := fill_track b3 buf _ _ (putBe16 l'.length) 2 (buf.n - 2) t3 rfl (by rw [putBe16_length]; omega)
    (by simp [putBe16_length]; omega)
  by_cases hc : l'.typ ≠ eapTypeNone ∨ l'.typeData.length > 0
  · have hs : eapSize l' = 5 + l'.typeData.length := by unfold eapSize; rw [if_pos hc]
    have hE : eapEncode l' = (([] ++ [u8 l'.code]) ++ [u8 l'.id] ++ putBe16 l'.length ++ [u8 l'.typ]) ++ l'.typeData := by
      unfold eapEncode; rw [if_pos (by omega)]; simp
    rw [if_pos (by omega)]
    obtain ⟨b5, e5, t5⟩ := write_track _ buf _ _ 4 (u8 l'.typ) t4 (by simp [putBe16_length]) (by omega)
      (by simp [putBe16_length]; omega)
    rw [e5, Res.bind_ok, winFrom_ok buf 5 (by omega), Res.bind_ok]
    simp only [pure, copyTo]
    have ht : l'.typeData.take (buf.n - 5) = l'.typeData := List.take_of_length_le (by omega)
    rw [ht]
    have t6 := fill_track b5 buf _ _ l'.typeData 5 (buf.n - 5) t5 (by simp [putBe16_length]) (by omega)
      (by simp [putBe16_length]; omega)
    rw [← hE, hC] at t6
    obtain ⟨i6, c6⟩ := track_done _ b buf (eapEncode l') t6 h
    exact ⟨_, rfl, i6, rfl, rfl, c6⟩
  · have hs : eapSize l' = 4 := by unfold eapSize; rw [if_neg hc]
    have hE : eapEncode l' = ([] ++ [u8 l'.code]) ++ [u8 l'.id] ++ putBe16 l'.length := by
      unfold eapEncode; rw [if_neg (by omega)]; simp
    rw [if_neg (by omega)]
    rw [← hE, hC] at t4
    obtain ⟨i4, c4⟩ := track_done _ b buf (eapEncode l') t4 h
    exact ⟨_, rfl, i4, rfl, rfl, c4⟩

/-- Refinement: on every buffer satisfying the C18 invariant, `EAP.serializeTo` returns (never
    panics, never an error), with exactly the receiver / bytes of `eapSerSpec`. -/
theorem eap_serializeTo_refines (l : EAP) (b : SBuf) (fix csum : Bool) (h : Inv b) :
    ∃ o, l.serializeTo b fix csum = .ok o ∧ Inv o.buf ∧ o.layer = eapFixed l fix ∧ o.err = false ∧
      contents o.buf = eapEncode (eapFixed l fix) ++ contents b := by
  rw [eap_serializeTo_eq, ← eapFixed_size l fix]
  exact eap_stores_refines (eapFixed l fix) b h

/-- The stores behind `PrependBytes(size)` succeed on every buffer whenever the window has `size` bytes
    and `size` is 4 or ≥ 5 (both the fixed and the pre-fix size computations). -/
theorem eap_stores_ok (l' : EAP) (size : Nat) (b1 : SBuf) (buf : Win) (hn : buf.n = size)
    (hs : size = 4 ∨ 5 ≤ size) : ∃ o, eapStores l' size b1 buf = .ok o := by
  unfold eapStores
  obtain ⟨b2, e2⟩ := write_ok b1 buf 0 (u8 l'.code) (by omega)
  rw [e2, Res.bind_ok]
  obtain ⟨b3, e3⟩ := write_ok b2 buf 1 (u8 l'.id) (by omega)
  rw [e3, Res.bind_ok, winFrom_ok buf 2 (by omega), Res.bind_ok]
  unfold putUint16
  rw [if_neg (by simp only; omega)]
  simp only [Res.bind_ok]
  by_cases h4 : size > 4
  · rw [if_pos h4]
    obtain ⟨b5, e5⟩ := write_ok (fill b3 { gen := buf.gen, off := buf.off + 2, n := buf.n - 2 } (putBe16 l'.length)) buf 4
      (u8 l'.typ) (by omega)
    rw [e5, Res.bind_ok, winFrom_ok buf 5 (by omega), Res.bind_ok]
    exact ⟨_, rfl⟩
  · rw [if_neg h4]; exact ⟨_, rfl⟩

theorem eap_serializeTo_ok (l : EAP) (b : SBuf) (fix csum : Bool) : ∃ o, l.serializeTo b fix csum = .ok o := by
  rw [eap_serializeTo_eq]
  have hs : eapSize l = 4 ∨ 5 ≤ eapSize l := by unfold eapSize; split <;> omega
  exact eap_stores_ok _ _ _ _ rfl hs

theorem eap_serializeTo_no_panic (l : EAP) (b : SBuf) (fix csum : Bool) (k : PanicKind) :
    l.serializeTo b fix csum ≠ .panic k := by
  obtain ⟨o, ho⟩ := eap_serializeTo_ok l b fix csum
  rw [ho]; exact fun h => nomatch h

/-- The serializer before leap-1 did not panic either. -/
theorem eap_serializeToPreFix_no_panic (l : EAP) (b : SBuf) (fix csum : Bool) (k : PanicKind) :
    l.serializeToPreFix b fix csum ≠ .panic k := by
  have : ∃ o, l.serializeToPreFix b fix csum = .ok o := by
    have hsz : ∀ n : Nat, (if n + 4 > 4 then n + 4 + 1 else n + 4) = 4 ∨ 5 ≤ (if n + 4 > 4 then n + 4 + 1 else n + 4) := by
      intro n; split <;> omega
    unfold EAP.serializeToPreFix
    exact eap_stores_ok _ _ _ _ rfl (hsz _)
  obtain ⟨o, ho⟩ := this
  rw [ho]; exact fun h => nomatch h

/-! ## 2. EAPOL-Key -/

theorem keyEncode_length (l : EAPOLKey) : (keyEncode l).length = 95 + l.encryptedKeyData.length := by
  unfold keyEncode
  simp only [List.length_append, List.length_cons, List.length_nil, putBe16_length, putBe64_length, pad_length]

theorem key_serializeTo_refines (l : EAPOLKey) (b : SBuf) (fix csum : Bool) (h : Inv b) :
    ∃ o, l.serializeTo b fix csum = .ok o ∧ Inv o.buf ∧ o.layer = l ∧ o.err = false ∧
      contents o.buf = keyEncode l ++ contents b := by
  unfold EAPOLKey.serializeTo EAPOLKey.serializeWith
  simp only [frameLen_eq]
  obtain ⟨hi1, hn, hgen, hoff, hlen, hdrop⟩ := prepend_facts b (95 + l.encryptedKeyData.length) h
  have hC : contents (prepend b (95 + l.encryptedKeyData.length)).1 = contents (prepend b (keyEncode l).length).1 := by
    rw [keyEncode_length]
  generalize hr : prepend b (95 + l.encryptedKeyData.length) = r at hi1 hn hgen hoff hlen hdrop hC
  obtain ⟨b1, buf⟩ := r
  simp only at hi1 hn hgen hoff hlen hdrop hC
  have lens : ∀ (a b : Bytes), (a ++ b).length = a.length + b.length := fun a b => List.length_append
  have t0 := track_init b1 buf hi1 hgen hoff
  obtain ⟨b2, e2, t2⟩ := write_track b1 buf _ [] 0 (u8 l.keyDescriptorType) t0 rfl (by omega) (by simp; omega)
  obtain ⟨b3, e3, t3⟩ := put16At_track b2 buf _ _ 1 (keyInfo l) t2 rfl (by omega) (by simp; omega)
  obtain ⟨b4, e4, t4⟩ := put16At_track b3 buf _ _ 3 l.keyLength t3 (by simp [putBe16_length]) (by omega)
    (by simp [putBe16_length]; omega)
  obtain ⟨b5, e5, t5⟩ := put64At_track b4 buf _ _ 5 l.replayCounter t4 (by simp [putBe16_length]) (by omega)
    (by simp [putBe16_length]; omega)
  obtain ⟨b6, e6, t6⟩ := copyField_track b5 buf _ _ l.nonce 13 45 32 t5 (by simp [putBe16_length, putBe64_length])
    rfl (by omega) (by simp [putBe16_length, putBe64_length]; omega) (by omega)
  obtain ⟨b7, e7, t7⟩ := copyField_track b6 buf _ _ l.iv 45 61 16 t6
    (by simp [putBe16_length, putBe64_length, pad_length]) rfl (by omega)
    (by simp [putBe16_length, putBe64_length, pad_length]; omega) (by omega)
  obtain ⟨b8, e8, t8⟩ := put64At_track b7 buf _ _ 61 l.rsc t7 (by simp [putBe16_length, putBe64_length, pad_length])
    (by omega) (by simp [putBe16_length, putBe64_length, pad_length]; omega)
  obtain ⟨b9, e9, t9⟩ := put64At_track b8 buf _ _ 69 l.id t8 (by simp [putBe16_length, putBe64_length, pad_length])
    (by omega) (by simp [putBe16_length, putBe64_length, pad_length]; omega)
  obtain ⟨b10, e10, t10⟩ := copyField_track b9 buf _ _ l.mic 77 93 16 t9
    (by simp [putBe16_length, putBe64_length, pad_length]) rfl (by omega)
    (by simp [putBe16_length, putBe64_length, pad_length]; omega) (by omega)
  obtain ⟨b11, e11, t11⟩ := put16At_track b10 buf _ _ 93 l.keyDataLength t10
    (by simp [putBe16_length, putBe64_length, pad_length]) (by omega)
    (by simp [putBe16_length, putBe64_length, pad_length]; omega)
  simp only [Res.bind_ok, pure]
  rw [e2, Res.bind_ok, e3, Res.bind_ok, e4, Res.bind_ok, e5, Res.bind_ok, e6, Res.bind_ok, e7, Res.bind_ok,
    e8, Res.bind_ok, e9, Res.bind_ok, e10, Res.bind_ok, e11, Res.bind_ok]
  by_cases hk : l.encryptedKeyData.length > 0
  · rw [if_pos hk]
    obtain ⟨w, ew, tw⟩ := copyExact_track b11 buf _ _ l.encryptedKeyData 95 t11
      (by simp [putBe16_length, putBe64_length, pad_length]) (by omega)
      (by simp [putBe16_length, putBe64_length, pad_length]; omega)
    rw [ew, Res.bind_ok]
    have hE : keyEncode l = ((((((((([] ++ [u8 l.keyDescriptorType]) ++ putBe16 (keyInfo l)) ++ putBe16 l.keyLength) ++
        putBe64 l.replayCounter) ++ pad 32 l.nonce) ++ pad 16 l.iv) ++ putBe64 l.rsc) ++ putBe64 l.id) ++ pad 16 l.mic) ++
        putBe16 l.keyDataLength ++ l.encryptedKeyData := by
      unfold keyEncode; simp
    rw [← hE, hC] at tw
    obtain ⟨iw, cw⟩ := track_done _ b buf (keyEncode l) tw h
    exact ⟨_, rfl, iw, rfl, rfl, cw⟩
  · rw [if_neg hk]
    have hnil : l.encryptedKeyData = [] := List.eq_nil_of_length_eq_zero (by omega)
    have hE : keyEncode l = ((((((((([] ++ [u8 l.keyDescriptorType]) ++ putBe16 (keyInfo l)) ++ putBe16 l.keyLength) ++
        putBe64 l.replayCounter) ++ pad 32 l.nonce) ++ pad 16 l.iv) ++ putBe64 l.rsc) ++ putBe64 l.id) ++ pad 16 l.mic) ++
        putBe16 l.keyDataLength := by
      unfold keyEncode; rw [hnil]; simp
    rw [← hE, hC] at t11
    obtain ⟨i11, c11⟩ := track_done _ b buf (keyEncode l) t11 h
    exact ⟨_, rfl, i11, rfl, rfl, c11⟩

/-- `EAPOLKey.SerializeTo` (before and after leap-4) returns on EVERY buffer, for every field value. -/
theorem key_serializeWith_ok (zp : Bool) (l : EAPOLKey) (b : SBuf) (fix csum : Bool) :
    ∃ o, EAPOLKey.serializeWith zp l b fix csum = .ok o := by
  unfold EAPOLKey.serializeWith
  simp only [frameLen_eq]
  have hn : (prepend b (95 + l.encryptedKeyData.length)).2.n = 95 + l.encryptedKeyData.length := rfl
  generalize prepend b (95 + l.encryptedKeyData.length) = r at hn
  obtain ⟨b1, buf⟩ := r
  simp only at hn
  simp only [Res.bind_ok, pure]
  obtain ⟨b2, e2⟩ := write_ok b1 buf 0 (u8 l.keyDescriptorType) (by omega)
  rw [e2, Res.bind_ok]
  obtain ⟨b3, e3⟩ := put16At_ok b2 buf 1 (keyInfo l) (by omega)
  rw [e3, Res.bind_ok]
  obtain ⟨b4, e4⟩ := put16At_ok b3 buf 3 l.keyLength (by omega)
  rw [e4, Res.bind_ok]
  obtain ⟨b5, e5⟩ := put64At_ok b4 buf 5 l.replayCounter (by omega)
  rw [e5, Res.bind_ok]
  obtain ⟨b6, e6⟩ := copyField_ok zp b5 buf 13 45 l.nonce (by omega) (by omega)
  rw [e6, Res.bind_ok]
  obtain ⟨b7, e7⟩ := copyField_ok zp b6 buf 45 61 l.iv (by omega) (by omega)
  rw [e7, Res.bind_ok]
  obtain ⟨b8, e8⟩ := put64At_ok b7 buf 61 l.rsc (by omega)
  rw [e8, Res.bind_ok]
  obtain ⟨b9, e9⟩ := put64At_ok b8 buf 69 l.id (by omega)
  rw [e9, Res.bind_ok]
  obtain ⟨b10, e10⟩ := copyField_ok zp b9 buf 77 93 l.mic (by omega) (by omega)
  rw [e10, Res.bind_ok]
  obtain ⟨b11, e11⟩ := put16At_ok b10 buf 93 l.keyDataLength (by omega)
  rw [e11, Res.bind_ok]
  split
  · rw [winSlice_ok buf 95 (95 + l.encryptedKeyData.length) (by omega) (by omega), Res.bind_ok]
    exact ⟨_, rfl⟩
  · exact ⟨_, rfl⟩

theorem key_serializeWith_no_panic (zp : Bool) (l : EAPOLKey) (b : SBuf) (fix csum : Bool) (k : PanicKind) :
    EAPOLKey.serializeWith zp l b fix csum ≠ .panic k := by
  obtain ⟨o, ho⟩ := key_serializeWith_ok zp l b fix csum
  rw [ho]; exact fun h => nomatch h

/-! ## 3. Observable view -/

theorem serView_of_refines {L : Type} (r : Res (SerOut L)) (s : SerSpec L)
    (hs : s.err = true → s.bytes = [])
    (h : ∃ o, r = .ok o ∧ o.layer = s.layer ∧ o.err = s.err ∧ (s.err = false → SBuf.contents o.buf = s.bytes)) :
    serView r = .ok s := by
  obtain ⟨o, ho, hl, he, hb⟩ := h
  rw [ho]
  unfold serView
  simp only
  congr 1
  cases s with
  | mk sl se sb =>
    simp only at hl he hb hs
    cases se
    · simp only [he, hl, hb rfl]; rfl
    · simp only [he, hl, hs rfl]; rfl

theorem eap_serView (l : EAP) (b : SBuf) (fix csum : Bool) (h : Inv b) :
    serView (l.serializeTo b fix csum) = .ok (eapSerSpec l (SBuf.contents b) fix) := by
  obtain ⟨o, ho, -, hl, he, hb⟩ := eap_serializeTo_refines l b fix csum h
  exact serView_of_refines _ _ (fun hh => by cases hh) ⟨o, ho, hl, he, fun _ => hb⟩

theorem eapol_serView (l : EAPOL) (b : SBuf) (fix csum : Bool) (h : Inv b) :
    serView (l.serializeTo b fix csum) = .ok (eapolSerSpec l (SBuf.contents b)) := by
  obtain ⟨o, ho, -, hl, he, hb⟩ := eapol_serializeTo_refines l b fix csum h
  exact serView_of_refines _ _ (fun hh => by cases hh) ⟨o, ho, hl, he, fun _ => hb⟩

theorem key_serView (l : EAPOLKey) (b : SBuf) (fix csum : Bool) (h : Inv b) :
    serView (l.serializeTo b fix csum) = .ok (keySerSpec l (SBuf.contents b)) := by
  obtain ⟨o, ho, -, hl, he, hb⟩ := key_serializeTo_refines l b fix csum h
  exact serView_of_refines _ _ (fun hh => by cases hh) ⟨o, ho, hl, he, fun _ => hb⟩

theorem eapFixed_idem (l : EAP) (fix : Bool) : eapFixed (eapFixed l fix) fix = eapFixed l fix := by
  unfold eapFixed; cases fix
  · rfl
  · simp only [if_true]; rfl

/-- Idempotence at the level of the specification. -/
theorem eapSerSpec_idem (l : EAP) (p : Bytes) (fix : Bool) :
    eapSerSpec (eapSerSpec l p fix).layer p fix = eapSerSpec l p fix := by
  unfold eapSerSpec
  simp only [eapFixed_idem]

end Gp.Eap
