import Gp.Model.Layers.Radius
import Gp.Lemmas.SBuf
/-
  Helper lemmas for engine `lradius` (RADIUS codec), part 1: decoding.  Core Lean only.

  Section 1 holds the *definitions* that occur in the statements of the property theorems
  (functional specification of DecodeFromBytes on the visible bytes); the rest is proof machinery.
-/
namespace Gp.Radius
open Gp Gp.SBuf Gp.C18 Gp.Gen.Radius

/-! ## 1. Definitions used in property statements -/

/-- Byte `i` of a byte string (0 for a missing byte; only used where the byte exists). -/
def byteAt (v : Bytes) (i : Nat) : UInt8 := v.getD i 0

/-- Big-endian 16-bit value at offset `i`. -/
def u16At (v : Bytes) (i : Nat) : Nat := be16 (byteAt v i) (byteAt v (i + 1))

/-- The attribute loop on the visible attribute bytes, consuming from the front: the attributes
    appended (also those in front of a malformed one) and whether the loop returned an error.
    `fuel` ≥ |bs| is never exhausted. -/
def parseAttrs : Nat → Bytes → List Attr × Bool
  | 0, _ => ([], false)
  | fuel + 1, bs =>
    match bs with
    | [] => ([], false)
    | [_] => ([], true)
    | t :: l :: body =>
      if l.toNat > body.length + 2 then ([], true)
      else if l.toNat < 2 then ([], true)
      else
        let rest := parseAttrs fuel (body.drop (l.toNat - 2))
        if l.toNat > 2 then
          ({ typ := t.toNat, length := l.toNat, value := body.take (l.toNat - 2) } :: rest.1, rest.2)
        else rest

/-- The receiver after the assignments up to `radius.Length = …`. -/
def hdrOf (v : Variant) (old : RADIUS) (vis : Bytes) : RADIUS :=
  { contents := vis, payload := [], code := (byteAt vis 0).toNat, identifier := (byteAt vis 1).toNat,
    length := u16At vis 2, authenticator := old.authenticator,
    attributes := match v with | .fixed => [] | .orig => old.attributes }

/-- What `RADIUS.DecodeFromBytes` computes from the receiver and the visible bytes. -/
def decSpec (v : Variant) (old : RADIUS) (vis : Bytes) : DecOut RADIUS :=
  if vis.length > 4096 then { layer := old, trunc := true, err := true }
  else if vis.length < 20 then { layer := old, trunc := true, err := true }
  else
    let r := hdrOf v old vis
    if r.length > 4096 ∨ r.length < 20 ∨ r.length > vis.length then { layer := r, trunc := true, err := true }
    else
      let d := vis.take r.length
      let cut : Bool := decide (r.length < vis.length)
      let r := { r with authenticator := (d.drop 4).take 16 }
      if r.length = 20 then { layer := r, trunc := cut, err := false }
      else
        let q := parseAttrs r.length (d.drop 20)
        if q.2 then { layer := { r with attributes := r.attributes ++ q.1 }, trunc := true, err := true }
        else { layer := { r with attributes := r.attributes ++ q.1, payload := eapPayload (r.attributes ++ q.1) },
               trunc := cut, err := false }

/-! ## 2. Go slices -/

theorem GSlice.slice_ok (s : GSlice) (a b : Nat) (hab : a ≤ b) (hb : b ≤ s.len) :
    s.slice a b = .ok { vis := (s.vis.drop a).take (b - a), tail := s.vis.drop b ++ s.tail } := by
  unfold GSlice.slice GSlice.cap
  unfold GSlice.len at hb
  have h1 : a ≤ b ∧ b ≤ s.vis.length + s.tail.length := ⟨hab, by omega⟩
  rw [if_pos h1]
  have ha : a ≤ s.vis.length := by omega
  rw [List.drop_append_of_le_length ha, List.drop_append_of_le_length hb,
    List.take_append_of_le_length (by rw [List.length_drop]; omega)]

theorem GSlice.sliceFrom_ok (s : GSlice) (a : Nat) (ha : a ≤ s.len) :
    s.sliceFrom a = .ok { vis := s.vis.drop a, tail := s.tail } := by
  unfold GSlice.sliceFrom; rw [if_pos ha]

theorem GSlice.index_ok (s : GSlice) (i : Nat) (h : i < s.len) :
    s.index i = .ok (byteAt s.vis i) := by
  unfold GSlice.index Gp.index byteAt
  have h' : i < s.vis.length := h
  simp [List.getD_eq_getElem?_getD, h']

/-- The two-byte window `[i, i+2)` of a long enough byte string. -/
theorem two_bytes (v : Bytes) (i : Nat) (h : i + 2 ≤ v.length) :
    (v.drop i).take 2 = [byteAt v i, byteAt v (i + 1)] := by
  have h0 : i < v.length := by omega
  have h1 : i + 1 < v.length := by omega
  have e : v.drop i = v[i] :: v[i+1] :: v.drop (i+2) := by
    rw [List.drop_eq_getElem_cons h0, List.drop_eq_getElem_cons h1]
  rw [e]
  simp only [byteAt, List.take_succ_cons, List.take_zero, List.getD_eq_getElem?_getD,
    List.getElem?_eq_getElem h0, List.getElem?_eq_getElem h1, Option.getD_some]

theorem uint16_two (a b : UInt8) (t : Bytes) : uint16 { vis := [a, b], tail := t } = .ok (be16 a b) := by
  simp [uint16, GSlice.index, Gp.index, bind, Res.bind, pure]

theorem uint16_vis (v t : Bytes) (i : Nat) (h : i + 2 ≤ v.length) :
    uint16 { vis := (v.drop i).take 2, tail := t } = .ok (u16At v i) := by
  rw [two_bytes v i h]; exact uint16_two _ _ _

theorem copyInto_full (dst src : Bytes) (h : src.length = dst.length) : copyInto dst src = src := by
  unfold copyInto
  rw [List.take_of_length_le (by omega), List.drop_eq_nil_of_le (by omega), List.append_nil]

theorem copyArr16_full (arr src : Bytes) (h : src.length = 16) : copyArr16 arr src = src := by
  unfold copyArr16
  rw [← h, List.take_length, List.take_append_of_le_length (Nat.le_refl _), List.take_length]

/-! ## 3. The attribute loop -/

/-- The attribute loop with enough fuel returns (never panics, never runs out of fuel): it appends
    exactly `parseAttrs` of the visible bytes behind `pos`, whatever lies beyond len. -/
theorem attrLoop_spec : ∀ (fuel : Nat) (r : RADIUS) (vis tail : Bytes) (pos : Nat),
    pos ≤ vis.length → vis.length - pos ≤ fuel →
    attrLoop fuel r { vis := vis, tail := tail } pos =
      .ok ({ r with attributes := r.attributes ++ (parseAttrs fuel (vis.drop pos)).1 },
           (parseAttrs fuel (vis.drop pos)).2) := by
  intro fuel
  induction fuel with
  | zero =>
    intro r vis tail pos hp h
    unfold attrLoop
    have : GSlice.len { vis := vis, tail := tail } = pos := by simp [GSlice.len]; omega
    simp only [this, if_true, parseAttrs, List.append_nil]
  | succ fuel ih =>
    intro r vis tail pos hp h
    unfold attrLoop
    by_cases hs : GSlice.len { vis := vis, tail := tail } = pos
    · have hs' : vis.length = pos := hs
      have hz : vis.drop pos = [] := by rw [← hs']; exact List.drop_length
      simp only [hs, if_true, hz, parseAttrs, List.append_nil]
    · have hs' : pos < vis.length := by
        have : vis.length ≠ pos := hs
        omega
      rw [if_neg hs, GSlice.sliceFrom_ok _ pos (by simp [GSlice.len]; omega)]
      simp only [GSlice.len, List.length_drop, radiusAttrMinRecord]
      -- the bytes behind pos
      have hd0 : vis.drop pos = vis[pos] :: vis.drop (pos + 1) := List.drop_eq_getElem_cons hs'
      by_cases h1 : vis.length - pos < 2
      · have hl1 : pos + 1 = vis.length := by omega
        have hd1 : vis.drop (pos + 1) = [] := by rw [hl1]; exact List.drop_length
        rw [if_pos h1, hd0, hd1]
        simp only [parseAttrs, List.append_nil]
      · rw [if_neg h1]
        have hs1 : pos + 1 < vis.length := by omega
        have hd1 : vis.drop (pos + 1) = vis[pos + 1] :: vis.drop (pos + 2) := List.drop_eq_getElem_cons hs1
        rw [GSlice.index_ok _ pos (by simp [GSlice.len]; omega), GSlice.index_ok _ (pos + 1) (by simp [GSlice.len]; omega)]
        simp only
        have hb0 : byteAt vis pos = vis[pos] := by
          simp [byteAt, List.getD_eq_getElem?_getD, List.getElem?_eq_getElem hs']
        have hb1 : byteAt vis (pos + 1) = vis[pos + 1] := by
          simp [byteAt, List.getD_eq_getElem?_getD, List.getElem?_eq_getElem hs1]
        rw [hd0, hd1, parseAttrs]
        simp only [hb0, hb1, List.length_drop]
        generalize hl : (vis[pos + 1]).toNat = l
        by_cases hbig : l > vis.length - pos
        · have hbig' : l > vis.length - (pos + 2) + 2 := by omega
          rw [if_pos hbig, if_pos hbig']; simp
        · have hbig' : ¬ l > vis.length - (pos + 2) + 2 := by omega
          rw [if_neg hbig, if_neg hbig']
          by_cases hsmall : l < 2
          · rw [if_pos hsmall, if_pos hsmall]; simp
          · rw [if_neg hsmall, if_neg hsmall]
            have hnext : vis.drop (pos + l) = (vis.drop (pos + 2)).drop (l - 2) := by
              rw [List.drop_drop]; congr 1; omega
            by_cases hgt : l > 2
            · rw [if_pos hgt, if_pos hgt]
              rw [GSlice.slice_ok _ (pos + 2) (pos + l) (by omega) (by simp [GSlice.len]; omega)]
              simp only
              have hvl : ((vis.drop (pos + 2)).take (pos + l - (pos + 2))).length = (l + 256 - 2) % 256 := by
                rw [List.length_take, List.length_drop]
                have : l < 256 := by rw [← hl]; exact UInt8.toNat_lt _
                omega
              rw [copyInto_full _ _ (by rw [hvl, zeros_length])]
              rw [ih _ vis tail (pos + l) (by omega) (by omega)]
              have e : pos + l - (pos + 2) = l - 2 := by omega
              simp only [e, hnext, List.append_assoc, List.singleton_append]
            · rw [if_neg hgt, if_neg hgt]
              rw [ih _ vis tail (pos + l) (by omega) (by omega), hnext]

/-! ## 4. DecodeFromBytes = its specification on the visible bytes -/

/-- What `decodeRest` computes (the part of DecodeFromBytes behind the padding branch). -/
def restSpec (r : RADIUS) (d : Bytes) (cut : Bool) : DecOut RADIUS :=
  let r := { r with authenticator := (d.drop 4).take 16 }
  if d.length = 20 then { layer := r, trunc := cut, err := false }
  else
    let q := parseAttrs d.length (d.drop 20)
    if q.2 then { layer := { r with attributes := r.attributes ++ q.1 }, trunc := true, err := true }
    else { layer := { r with attributes := r.attributes ++ q.1, payload := r.payload ++ eapPayload (r.attributes ++ q.1) },
           trunc := cut, err := false }

theorem decodeRest_spec (r : RADIUS) (d T : Bytes) (cut : Bool) (hd : 20 ≤ d.length) :
    decodeRest r { vis := d, tail := T } cut = .ok (restSpec r d cut) := by
  unfold decodeRest restSpec
  simp only [radiusMinRecord]
  have L : GSlice.len { vis := d, tail := T } = d.length := rfl
  rw [GSlice.slice_ok _ 4 20 (by omega) (by rw [L]; omega), Res.bind_ok, L]
  simp only
  rw [copyArr16_full _ _ (by rw [List.length_take, List.length_drop]; omega)]
  by_cases h20 : d.length = 20
  · rw [if_pos h20, if_pos h20]; rfl
  · rw [if_neg h20, if_neg h20]
    rw [attrLoop_spec _ _ _ _ 20 (by omega) (by omega), Res.bind_ok]
    simp only
    cases (parseAttrs d.length (List.drop 20 d)).2 <;> simp [pure]

theorem decode_spec (v : Variant) (old : RADIUS) (vis tail : Bytes) :
    old.decodeFromBytes v { vis := vis, tail := tail } = .ok (decSpec v old vis) := by
  unfold RADIUS.decodeFromBytes decSpec
  simp only [radiusMaxRecord, radiusMinRecord]
  have L : GSlice.len { vis := vis, tail := tail } = vis.length := rfl
  rw [L]
  by_cases hl : vis.length > 4096
  · rw [if_pos hl, if_pos hl]
  · rw [if_neg hl, if_neg hl]
    by_cases hs : vis.length < 20
    · rw [if_pos hs, if_pos hs]
    · rw [if_neg hs, if_neg hs]
      rw [GSlice.index_ok _ 0 (by rw [L]; omega), Res.bind_ok, GSlice.index_ok _ 1 (by rw [L]; omega), Res.bind_ok,
        GSlice.slice_ok _ 2 4 (by omega) (by rw [L]; omega), Res.bind_ok, uint16_vis vis _ 2 (by omega), Res.bind_ok]
      simp only [hdrOf]
      by_cases h1 : u16At vis 2 > 4096
      · rw [if_pos h1]; simp [h1, pure]; cases v <;> rfl
      · rw [if_neg h1]
        by_cases h2 : u16At vis 2 < 20
        · rw [if_pos h2]; simp [h2, pure]; cases v <;> rfl
        · rw [if_neg h2]
          by_cases h3 : u16At vis 2 > vis.length
          · rw [if_pos h3]; simp [h3, pure]; cases v <;> rfl
          · rw [if_neg h3]
            have hno : ¬ (u16At vis 2 > 4096 ∨ u16At vis 2 < 20 ∨ u16At vis 2 > vis.length) := by omega
            simp only [hno, if_false]
            have hdl : (vis.take (u16At vis 2)).length = u16At vis 2 := by rw [List.length_take]; omega
            by_cases hc : u16At vis 2 < vis.length
            · rw [if_pos hc, GSlice.slice_ok _ 0 _ (by omega) (by rw [L]; omega), Res.bind_ok]
              simp only [List.drop_zero, Nat.sub_zero]
              rw [decodeRest_spec _ _ _ _ (by rw [hdl]; omega)]
              unfold restSpec
              simp only [hdl, hc, decide_true, List.nil_append]
              cases v <;> rfl
            · rw [if_neg hc, decodeRest_spec _ _ _ _ (by omega)]
              have e : u16At vis 2 = vis.length := by omega
              unfold restSpec
              simp only [e, List.take_length, Nat.lt_irrefl, decide_false, List.nil_append]
              cases v <;> rfl

/-! ## 5. Wrappers -/

theorem decodeRadius_eq (old : RADIUS) (data foreign : Bytes) :
    decodeRadius old data foreign =
      if (decSpec .fixed old data).err then .err "radius"
      else .ok ((decSpec .fixed old data).layer, (decSpec .fixed old data).trunc) := by
  unfold decodeRadius; rw [decode_spec]

/-- What `decodeRADIUS` does with the packet builder, from the decode specification of a fresh layer. -/
def pktSpec (v : Variant) (vis : Bytes) : Beh × Option RADIUS :=
  let o := decSpec v RADIUS.fresh vis
  let tr := if o.trunc then [Act.setTruncated] else []
  if o.err then ({ acts := tr, tail := .fail }, none)
  else if o.layer.nextLayerType = LayerTypeZero then
    ({ acts := tr ++ [.addLayer LayerTypeRADIUS, .setApplicationLayer], tail := .done }, some o.layer)
  else ({ acts := tr ++ [.addLayer LayerTypeRADIUS, .setApplicationLayer], tail := .nextLayerType o.layer.nextLayerType },
        some o.layer)

theorem decodeRADIUSFn_eq (v : Variant) (vis tail : Bytes) :
    decodeRADIUSFn v { vis := vis, tail := tail } = .ok (pktSpec v vis) := by
  unfold decodeRADIUSFn pktSpec
  rw [decode_spec, Res.bind_ok]
  simp only
  split
  · rfl
  · split <;> rfl

/-- One parser run, from the decode specification. -/
def dlpSpec (v : Variant) (obj : RADIUS) (vis : Bytes) : DlpOut :=
  let o := decSpec v obj vis
  if o.err then { layer := o.layer, decoded := [], trunc := o.trunc, code := 1 }
  else if o.layer.layerPayload.length = 0 then
    { layer := o.layer, decoded := [LayerTypeRADIUS], trunc := o.trunc, code := 0 }
  else { layer := o.layer, decoded := [LayerTypeRADIUS], trunc := o.trunc, code := 2 }

theorem dlp_eq (v : Variant) (obj : RADIUS) (vis tail : Bytes) :
    dlpDecodeLayers v obj { vis := vis, tail := tail } = .ok (dlpSpec v obj vis) := by
  unfold dlpDecodeLayers dlpSpec
  rw [decode_spec, Res.bind_ok]
  simp only
  split
  · rfl
  · split <;> rfl

/-! ## 6. Progress and fuel -/

/-- More fuel than bytes changes nothing. -/
theorem parseAttrs_fuel : ∀ (fuel : Nat) (bs : Bytes) (extra : Nat), bs.length ≤ fuel →
    parseAttrs (fuel + extra) bs = parseAttrs fuel bs := by
  intro fuel
  induction fuel with
  | zero =>
    intro bs extra h
    have : bs = [] := List.eq_nil_of_length_eq_zero (by omega)
    subst this
    cases extra <;> simp [parseAttrs]
  | succ fuel ih =>
    intro bs extra h
    rw [Nat.add_right_comm]
    match bs with
    | [] => simp [parseAttrs]
    | [_] => simp [parseAttrs]
    | t :: l :: body =>
      simp only [parseAttrs]
      have hb : (body.drop (l.toNat - 2)).length ≤ fuel := by
        rw [List.length_drop]; simp at h; omega
      rw [ih _ extra hb]

/-- Each attribute the loop accepts occupies at least two bytes: with `n` bytes at most `n / 2`
    attributes are appended. -/
theorem parseAttrs_count : ∀ (fuel : Nat) (bs : Bytes), 2 * (parseAttrs fuel bs).1.length ≤ bs.length := by
  intro fuel
  induction fuel with
  | zero => intro bs; simp [parseAttrs]
  | succ fuel ih =>
    intro bs
    match bs with
    | [] => simp [parseAttrs]
    | [_] => simp [parseAttrs]
    | t :: l :: body =>
      simp only [parseAttrs]
      have := ih (body.drop (l.toNat - 2))
      rw [List.length_drop] at this
      split
      · simp
      · split
        · simp
        · split <;> simp <;> omega

/-! ## 7. No stale state (fixed code) -/

theorem decSpec_fixed_resets (old : RADIUS) (v : Bytes) (h : (decSpec .fixed old v).err = false) :
    decSpec .fixed old v = decSpec .fixed RADIUS.fresh v := by
  unfold decSpec at h ⊢
  by_cases h1 : v.length > 4096
  · simp [h1] at h
  · by_cases h2 : v.length < 20
    · simp [h1, h2] at h
    · simp only [h1, h2, if_false, hdrOf] at h ⊢
      by_cases h3 : u16At v 2 > 4096 ∨ u16At v 2 < 20 ∨ u16At v 2 > v.length
      · simp [h3] at h
      · simp only [h3, if_false]
        try rfl

/-- The error return and the truncation flag never depend on the receiver. -/
theorem decSpec_fixed_flags (old : RADIUS) (v : Bytes) :
    (decSpec .fixed old v).err = (decSpec .fixed RADIUS.fresh v).err ∧
    (decSpec .fixed old v).trunc = (decSpec .fixed RADIUS.fresh v).trunc := by
  unfold decSpec
  by_cases h1 : v.length > 4096
  · simp [h1]
  · by_cases h2 : v.length < 20
    · simp [h1, h2]
    · simp only [h1, h2, if_false, hdrOf]
      by_cases h3 : u16At v 2 > 4096 ∨ u16At v 2 < 20 ∨ u16At v 2 > v.length
      · simp [h3]
      · simp only [h3, if_false]
        by_cases h20 : u16At v 2 = 20
        · simp [h20]
        · simp only [h20, if_false]
          by_cases hq : (parseAttrs (u16At v 2) (List.drop 20 (List.take (u16At v 2) v))).2 = true
          · simp [hq]
          · simp [hq]
            first | rfl | exact (decide_eq_decide.mpr Iff.rfl)

/-- The pinned code agrees with the fixed code on receivers whose Attributes are empty. -/
theorem decSpec_orig_of_empty (old : RADIUS) (v : Bytes) (h : old.attributes = []) :
    decSpec .orig old v = decSpec .fixed old v := by
  unfold decSpec hdrOf
  simp only [h]

/-- A successfully decoded layer: Contents are the input, the authenticator has 16 bytes, Length lies in
    [20, min(4096, len)], the attributes come from the bytes [20, Length) only. -/
theorem decSpec_ok (old : RADIUS) (v : Bytes) (h : (decSpec .fixed old v).err = false) :
    20 ≤ u16At v 2 ∧ u16At v 2 ≤ v.length ∧ v.length ≤ 4096 ∧
    (decSpec .fixed old v).layer.contents = v ∧
    (decSpec .fixed old v).layer.length = u16At v 2 ∧
    (decSpec .fixed old v).layer.code = (byteAt v 0).toNat ∧
    (decSpec .fixed old v).layer.identifier = (byteAt v 1).toNat ∧
    (decSpec .fixed old v).layer.authenticator = ((v.take (u16At v 2)).drop 4).take 16 ∧
    (decSpec .fixed old v).layer.attributes = (parseAttrs (u16At v 2) ((v.take (u16At v 2)).drop 20)).1 ∧
    (parseAttrs (u16At v 2) ((v.take (u16At v 2)).drop 20)).2 = false ∧
    (decSpec .fixed old v).layer.payload = eapPayload (decSpec .fixed old v).layer.attributes ∧
    (decSpec .fixed old v).trunc = decide (u16At v 2 < v.length) := by
  unfold decSpec at h ⊢
  by_cases h1 : v.length > 4096
  · simp [h1] at h
  · by_cases h2 : v.length < 20
    · simp [h1, h2] at h
    · simp only [h1, h2, if_false, hdrOf] at h ⊢
      by_cases h3 : u16At v 2 > 4096 ∨ u16At v 2 < 20 ∨ u16At v 2 > v.length
      · simp [h3] at h
      · simp only [h3, if_false] at h ⊢
        refine ⟨by omega, by omega, by omega, ?_⟩
        by_cases h20 : u16At v 2 = 20
        · simp only [h20, if_true]
          have hd : (List.drop 20 (List.take 20 v)) = [] := by
            apply List.drop_eq_nil_of_le; rw [List.length_take]; omega
          rw [hd]
          simp [parseAttrs, eapPayload]
        · simp only [h20, if_false] at h ⊢
          by_cases hq : (parseAttrs (u16At v 2) (List.drop 20 (List.take (u16At v 2) v))).2 = true
          · simp [hq] at h
          · simp [hq]
            first | rfl | exact (decide_eq_decide.mpr Iff.rfl)

end Gp.Radius
