import Gp.Lemmas.Layers.Mld2Ser
/-
  Helper lemmas for engine `lmld2`, part 3: laws of the serializer specifications (error ⇒ no bytes,
  idempotence).  Core Lean only.
-/
namespace Gp.Mld2
open Gp Gp.SBuf Gp.C18 Gp.Mld Gp.Gen.Mld2

/-! ## error ⇒ no bytes -/

theorem queryFixedSpec_err_bytes (l : Query) (p : Bytes) (h : (queryFixedSpec l p).err = true) :
    (queryFixedSpec l p).bytes = [] := by
  unfold queryFixedSpec at h ⊢
  cases hs : srcsSpec l.srcs.reverse p with
  | none => rfl
  | some c =>
    rw [hs] at h
    simp only at h ⊢
    cases hm : to16 l.addr with
    | none => rfl
    | some m => rw [hm] at h; cases h

theorem querySerSpec_err_bytes (l : Query) (p : Bytes) (fix : Bool) (h : (querySerSpec l p fix).err = true) :
    (querySerSpec l p fix).bytes = [] := by
  unfold querySerSpec at h ⊢
  by_cases hc : l.srcs.length > 65535
  · rw [if_pos hc]
  · rw [if_neg hc] at h ⊢; exact queryFixedSpec_err_bytes _ _ h

theorem reportSerSpecWith_err_bytes (pad : Bytes → Bytes) (l : Report) (p : Bytes) (fix : Bool)
    (h : (reportSerSpecWith pad l p fix).err = true) : (reportSerSpecWith pad l p fix).bytes = [] := by
  unfold reportSerSpecWith at h ⊢
  simp only at h ⊢
  cases he : (recsSpec pad fix l.recs.reverse p).2.1 with
  | true => simp only [if_true]
  | false =>
    rw [he] at h
    simp only [Bool.false_eq_true, if_false] at h ⊢
    by_cases c2 : fix = true ∧ (recsSpec pad fix l.recs.reverse p).1.reverse.length > 65535
    · rw [if_pos c2]
    · rw [if_neg c2] at h; cases h

/-! ## the query -/

theorem queryFixed_idem (l : Query) (fix : Bool) : queryFixed (queryFixed l fix) fix = queryFixed l fix := by
  cases fix <;> rfl

theorem queryFixed_srcs (l : Query) (fix : Bool) : (queryFixed l fix).srcs = l.srcs := by
  cases fix <;> rfl

theorem queryFixedSpec_layer (l : Query) (p : Bytes) : (queryFixedSpec l p).layer = l := by
  unfold queryFixedSpec
  split
  · rfl
  · split <;> rfl

theorem querySerSpec_idem (l : Query) (p : Bytes) (fix : Bool) :
    querySerSpec (querySerSpec l p fix).layer p fix = querySerSpec l p fix := by
  unfold querySerSpec
  by_cases hc : l.srcs.length > 65535
  · rw [if_pos hc]; simp only; rw [if_pos hc]
  · rw [if_neg hc, queryFixedSpec_layer, queryFixed_srcs, if_neg hc, queryFixed_idem]

/-! ## records -/

theorem fixAux_aux (pad : Bytes → Bytes) (r : Rec) (fix : Bool) : (Rec.fixAux pad r fix).aux = pad r.aux := by
  unfold Rec.fixAux; simp only; split <;> rfl

theorem fixAux_srcs (pad : Bytes → Bytes) (r : Rec) (fix : Bool) : (Rec.fixAux pad r fix).srcs = r.srcs := by
  unfold Rec.fixAux; simp only; split <;> rfl

theorem fixN_aux (r : Rec) (fix : Bool) : (Rec.fixN r fix).aux = r.aux := by
  unfold Rec.fixN; split <;> rfl

theorem fixN_srcs (r : Rec) (fix : Bool) : (Rec.fixN r fix).srcs = r.srcs := by
  unfold Rec.fixN; split <;> rfl

theorem fixAux_idem (pad : Bytes → Bytes) (hp : ∀ a, pad (pad a) = pad a) (r : Rec) (fix : Bool) :
    Rec.fixAux pad (Rec.fixAux pad r fix) fix = Rec.fixAux pad r fix := by
  unfold Rec.fixAux
  simp only
  by_cases c : fix = true ∧ ¬ (pad r.aux).length / 4 > 255
  · rw [if_pos c]; simp only [hp]; rw [if_pos c]
  · rw [if_neg c]; simp only [hp]; rw [if_neg c]

theorem fixN_idem (r : Rec) (fix : Bool) : Rec.fixN (Rec.fixN r fix) fix = Rec.fixN r fix := by
  unfold Rec.fixN
  by_cases c : fix = true ∧ ¬ r.srcs.length > 65535
  · rw [if_pos c]; simp only; rw [if_pos c]
  · rw [if_neg c, if_neg c]

theorem fixAux_fixN (pad : Bytes → Bytes) (r : Rec) (fix : Bool) :
    Rec.fixAux pad (Rec.fixN r fix) fix = Rec.fixN (Rec.fixAux pad r fix) fix := by
  unfold Rec.fixAux Rec.fixN
  simp only
  by_cases c : fix = true ∧ ¬ r.srcs.length > 65535
  · by_cases d : fix = true ∧ ¬ (pad r.aux).length / 4 > 255
    · simp only [if_pos c, if_pos d]
    · simp only [if_pos c, if_neg d]
  · by_cases d : fix = true ∧ ¬ (pad r.aux).length / 4 > 255
    · simp only [if_neg c, if_pos d]
    · simp only [if_neg c, if_neg d]

theorem recTailSpec_mar (r : Rec) (p : Bytes) : (recTailSpec r p).mar = r := by
  unfold recTailSpec
  split
  · rfl
  · split <;> rfl

/-- Serialising the record a serializeTo call left behind gives the same outcome again — provided
    the padding function is idempotent (the fixed one is; the unpatched one is not). -/
theorem recSerSpec_idem (pad : Bytes → Bytes) (hp : ∀ a, pad (pad a) = pad a) (r : Rec) (p : Bytes) (fix : Bool) :
    recSerSpec pad (recSerSpec pad r p fix).mar p fix = recSerSpec pad r p fix := by
  unfold recSerSpec
  simp only
  by_cases c1 : fix = true ∧ (Rec.fixAux pad r fix).aux.length / 4 > 255
  · rw [if_pos c1]; simp only; rw [fixAux_idem pad hp, if_pos c1]
  · rw [if_neg c1]
    by_cases c2 : fix = true ∧ (Rec.fixAux pad r fix).srcs.length > 65535
    · rw [if_pos c2]; simp only; rw [fixAux_idem pad hp, if_neg c1, if_pos c2]
    · rw [if_neg c2, recTailSpec_mar, fixAux_fixN, fixAux_idem pad hp, fixN_aux, fixN_srcs, if_neg c1, if_neg c2,
        fixN_idem]

theorem recsSpec_cons (pad : Bytes → Bytes) (fix : Bool) (r : Rec) (rest : List Rec) (p : Bytes) :
    recsSpec pad fix (r :: rest) p =
      (if (recSerSpec pad r p fix).err then ((recSerSpec pad r p fix).mar :: rest, true, [])
       else ((recSerSpec pad r p fix).mar :: (recsSpec pad fix rest (recSerSpec pad r p fix).bytes).1,
             (recsSpec pad fix rest (recSerSpec pad r p fix).bytes).2.1,
             (recsSpec pad fix rest (recSerSpec pad r p fix).bytes).2.2)) := rfl

theorem recsSpec_idem (pad : Bytes → Bytes) (hp : ∀ a, pad (pad a) = pad a) (fix : Bool) :
    ∀ (xs : List Rec) (p : Bytes), recsSpec pad fix (recsSpec pad fix xs p).1 p = recsSpec pad fix xs p := by
  intro xs
  induction xs with
  | nil => intro p; rfl
  | cons r rest ih =>
    intro p
    rw [recsSpec_cons]
    cases he : (recSerSpec pad r p fix).err with
    | true =>
      simp only [if_true]
      rw [recsSpec_cons, recSerSpec_idem pad hp, he]
      simp only [if_true]
    | false =>
      simp only [Bool.false_eq_true, if_false]
      rw [recsSpec_cons, recSerSpec_idem pad hp, he]
      simp only [Bool.false_eq_true, if_false, ih]

/-! ## the report -/

theorem reportSerSpecWith_idem (pad : Bytes → Bytes) (hp : ∀ a, pad (pad a) = pad a) (l : Report) (p : Bytes)
    (fix : Bool) :
    reportSerSpecWith pad (reportSerSpecWith pad l p fix).layer p fix = reportSerSpecWith pad l p fix := by
  unfold reportSerSpecWith
  simp only
  cases he : (recsSpec pad fix l.recs.reverse p).2.1 with
  | true =>
    simp only [if_true, List.reverse_reverse, recsSpec_idem pad hp, he]
  | false =>
    simp only [Bool.false_eq_true, if_false]
    by_cases c2 : fix = true ∧ (recsSpec pad fix l.recs.reverse p).1.reverse.length > 65535
    · rw [if_pos c2]
      simp only [List.reverse_reverse, recsSpec_idem pad hp, he, Bool.false_eq_true, if_false, if_pos c2]
    · rw [if_neg c2]
      cases fix
      · simp only [Bool.false_eq_true, if_false, false_and, List.reverse_reverse, recsSpec_idem pad hp, he]
      · have c2' : ¬ (recsSpec pad true l.recs.reverse p).1.reverse.length > 65535 := fun hh => c2 ⟨rfl, hh⟩
        simp only [if_true, List.reverse_reverse, recsSpec_idem pad hp, he, Bool.false_eq_true, if_false, true_and,
          if_neg c2']

theorem auxPad_idem (a : Bytes) : auxPad (auxPad a) = auxPad a := by
  unfold auxPad
  by_cases h : a.length % 4 ≠ 0
  · rw [if_pos h]
    have : (a ++ List.replicate (4 - a.length % 4) 0).length % 4 = 0 := by
      rw [List.length_append, List.length_replicate]; omega
    rw [if_neg (by rw [this]; exact fun hh => hh rfl)]
  · rw [if_neg h, if_neg h]

end Gp.Mld2
