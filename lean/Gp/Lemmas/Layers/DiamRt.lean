import Gp.Lemmas.Layers.DiamSer
import Gp.Lemmas.Layers.ArpRt
/-
  Helper lemmas for engine `ldiam`, part 3: well-formedness, ≈, decode ∘ encode.  Core Lean only.
  Section 1 holds the *definitions* used in property statements.
-/
namespace Gp.Diam
open Gp Gp.SBuf Gp.C18 Gp.Arp

/-! ## 1. Definitions used in property statements -/

/-- In-range AVP: 32-bit code / vendor id, no vendor id without the V flag, Length = header + data
    (what FixLengths-free SerializeDiameterAVP writes anyway) and below 2^24. -/
def wfAVP (a : AVP) : Prop :=
  a.code < 4294967296 ∧ a.vendorID < 4294967296 ∧ (a.fVendor = false → a.vendorID = 0) ∧
  a.length = (if a.fVendor then 12 else 8) + a.data.length ∧ a.length < 16777216

/-- In-range Diameter layer: version 1 (the only one the decoder accepts), 24-bit command code,
    32-bit ids, total length below 2^24, every AVP in range.  MessageLength itself is free
    (FixLengths overwrites it). -/
def wfDiam (l : Diameter) : Prop :=
  l.version = 1 ∧ l.commandCode < 16777216 ∧ l.applicationID < 4294967296 ∧ l.hopByHopID < 4294967296 ∧
  l.endToEndID < 4294967296 ∧ msgLen l < 16777216 ∧ ∀ a ∈ l.avps, wfAVP a

instance (a : AVP) : Decidable (wfAVP a) := by unfold wfAVP; infer_instance
instance (l : Diameter) : Decidable (wfDiam l) := by unfold wfDiam; infer_instance

/-- AVP equality up to GroupedAVPs (derived from Data by the decoder, ignored by the serializer). -/
def avpEq (a b : AVP) : Prop :=
  a.code = b.code ∧ a.fVendor = b.fVendor ∧ a.fMandatory = b.fMandatory ∧ a.fProtected = b.fProtected ∧
  a.length = b.length ∧ a.vendorID = b.vendorID ∧ a.data = b.data

/-- AVP lists equal in order, element-wise up to GroupedAVPs. -/
inductive AvpsEq : List AVP → List AVP → Prop
  | nil : AvpsEq [] []
  | cons {a b : AVP} {r s : List AVP} : avpEq a b → AvpsEq r s → AvpsEq (a :: r) (b :: s)

/-- `≈`: all public header fields equal, AVP lists equal in order up to GroupedAVPs; ignores
    Contents / Payload. -/
def DiamEquiv (a b : Diameter) : Prop :=
  a.version = b.version ∧ a.messageLength = b.messageLength ∧ a.fRequest = b.fRequest ∧
  a.fProxiable = b.fProxiable ∧ a.fError = b.fError ∧ a.fRetransmitted = b.fRetransmitted ∧
  a.commandCode = b.commandCode ∧ a.applicationID = b.applicationID ∧ a.hopByHopID = b.hopByHopID ∧
  a.endToEndID = b.endToEndID ∧ AvpsEq a.avps b.avps

/-! ## 2. Byte arithmetic -/

theorem be24_u8 (n : Nat) (h : n < 16777216) : be24 (u8 (n / 65536)) (u8 (n / 256)) (u8 n) = n := by
  unfold be24; rw [u8_toNat, u8_toNat, u8_toNat]; omega

theorem avp_flag_bits : ∀ v m p : Bool,
    let x := (u8 ((if v then 0x80 else 0) + (if m then 0x40 else 0) + (if p then 0x20 else 0))).toNat
    ((x &&& 0x80) != 0) = v ∧ ((x &&& 0x40) != 0) = m ∧ ((x &&& 0x20) != 0) = p := by decide

theorem cmd_flag_bits : ∀ r p e t : Bool,
    let x := (u8 ((if r then 0x80 else 0) + (if p then 0x40 else 0) + (if e then 0x20 else 0) +
                  (if t then 0x10 else 0))).toNat
    ((x &&& 0x80) != 0) = r ∧ ((x &&& 0x40) != 0) = p ∧ ((x &&& 0x20) != 0) = e ∧ ((x &&& 0x10) != 0) = t := by
  decide

theorem shape8 (x0 x1 x2 x3 x4 x5 x6 x7 : UInt8) (T : Bytes) :
    byteAt (x0::x1::x2::x3::x4::x5::x6::x7::T) 4 = x4 ∧
    u24At (x0::x1::x2::x3::x4::x5::x6::x7::T) 5 = be24 x5 x6 x7 ∧
    u32At (x0::x1::x2::x3::x4::x5::x6::x7::T) 0 = be32 x0 x1 x2 x3 := ⟨rfl, rfl, rfl⟩

theorem shape12 (x0 x1 x2 x3 x4 x5 x6 x7 y0 y1 y2 y3 : UInt8) (T : Bytes) :
    u32At (x0::x1::x2::x3::x4::x5::x6::x7::y0::y1::y2::y3::T) 8 = be32 y0 y1 y2 y3 := rfl

/-! ## 3. decodeDiameterAVP ∘ SerializeDiameterAVP -/

/-- avpSpec under the conditions of a successful decode. -/
theorem avpSpec_ok (grp : Nat → Nat → Bool) (f : Nat) (d : Bytes) (h8 : 8 ≤ u24At d 5)
    (hh : (if ((byteAt d 4).toNat &&& 0x80) != 0 then 12 else 8) ≤ u24At d 5)
    (hp : padded (u24At d 5) ≤ d.length) :
    ∃ g, avpSpec grp (f + 1) d =
      some ({ code := u32At d 0, fVendor := ((byteAt d 4).toNat &&& 0x80) != 0,
              fMandatory := ((byteAt d 4).toNat &&& 0x40) != 0,
              fProtected := ((byteAt d 4).toNat &&& 0x20) != 0,
              length := u24At d 5,
              vendorID := if ((byteAt d 4).toNat &&& 0x80) != 0 then u32At d 8 else 0,
              data := (d.drop (if ((byteAt d 4).toNat &&& 0x80) != 0 then 12 else 8)).take
                        (u24At d 5 - (if ((byteAt d 4).toNat &&& 0x80) != 0 then 12 else 8)),
              grouped := g }, padded (u24At d 5)) := by
  have hge := padded_ge (u24At d 5)
  unfold avpSpec
  rw [if_neg (by omega), if_neg (by omega)]
  have c3 : ¬ ((((byteAt d 4).toNat &&& 0x80) != 0 && decide (d.length < 12)) = true) := by
    cases hv : ((byteAt d 4).toNat &&& 0x80) != 0
    · simp
    · rw [hv] at hh; simp only [if_true] at hh
      simp only [Bool.true_and, decide_eq_true_eq]; omega
  rw [if_neg c3, if_neg (by omega), if_neg (by omega)]
  exact ⟨_, rfl⟩

theorem serializeAVP_nv (a : AVP) (rest : Bytes) (hv : a.fVendor = false) :
    serializeAVP a ++ rest =
      u8 (a.code / 16777216) :: u8 (a.code / 65536) :: u8 (a.code / 256) :: u8 a.code ::
      u8 (avpFlagsByte a) :: u8 ((8 + a.data.length) / 65536) :: u8 ((8 + a.data.length) / 256) ::
      u8 (8 + a.data.length) ::
      (a.data ++ (zeros (padded (8 + a.data.length) - (8 + a.data.length)) ++ rest)) := by
  simp [serializeAVP, hv, putBe32, List.append_assoc]

theorem serializeAVP_v (a : AVP) (rest : Bytes) (hv : a.fVendor = true) :
    serializeAVP a ++ rest =
      u8 (a.code / 16777216) :: u8 (a.code / 65536) :: u8 (a.code / 256) :: u8 a.code ::
      u8 (avpFlagsByte a) :: u8 ((12 + a.data.length) / 65536) :: u8 ((12 + a.data.length) / 256) ::
      u8 (12 + a.data.length) ::
      u8 (a.vendorID / 16777216) :: u8 (a.vendorID / 65536) :: u8 (a.vendorID / 256) :: u8 a.vendorID ::
      (a.data ++ (zeros (padded (12 + a.data.length) - (12 + a.data.length)) ++ rest)) := by
  simp [serializeAVP, hv, putBe32, List.append_assoc]

/-- One in-range AVP, serialised and followed by anything, decodes to itself (up to GroupedAVPs)
    and consumes exactly its padded length. -/
theorem avpSpec_serialize (grp : Nat → Nat → Bool) (f : Nat) (a : AVP) (rest : Bytes) (hw : wfAVP a) :
    ∃ a', avpSpec grp (f + 1) (serializeAVP a ++ rest) = some (a', serializedAVPLength a) ∧ avpEq a' a := by
  obtain ⟨hc, hvid, hnv, hlen, hl24⟩ := hw
  have fb : (((u8 (avpFlagsByte a)).toNat &&& 0x80) != 0) = a.fVendor ∧
      (((u8 (avpFlagsByte a)).toNat &&& 0x40) != 0) = a.fMandatory ∧
      (((u8 (avpFlagsByte a)).toNat &&& 0x20) != 0) = a.fProtected :=
    avp_flag_bits a.fVendor a.fMandatory a.fProtected
  obtain ⟨fb1, fb2, fb3⟩ := fb
  have hlenD : (serializeAVP a ++ rest).length = serializedAVPLength a + rest.length := by
    rw [List.length_append, serializeAVP_length]
  cases hv : a.fVendor
  · rw [hv] at hlen; simp only [Bool.false_eq_true, if_false] at hlen
    have hser : serializedAVPLength a = padded (8 + a.data.length) := by simp [serializedAVPLength, hv]
    rw [hser] at hlenD ⊢
    rw [serializeAVP_nv a rest hv] at hlenD ⊢
    generalize hd : (u8 (a.code / 16777216) :: u8 (a.code / 65536) :: u8 (a.code / 256) :: u8 a.code ::
      u8 (avpFlagsByte a) :: u8 ((8 + a.data.length) / 65536) :: u8 ((8 + a.data.length) / 256) ::
      u8 (8 + a.data.length) ::
      (a.data ++ (zeros (padded (8 + a.data.length) - (8 + a.data.length)) ++ rest))) = d at hlenD ⊢
    obtain ⟨s4, s5, s0⟩ := shape8 (u8 (a.code / 16777216)) (u8 (a.code / 65536)) (u8 (a.code / 256)) (u8 a.code)
      (u8 (avpFlagsByte a)) (u8 ((8 + a.data.length) / 65536)) (u8 ((8 + a.data.length) / 256))
      (u8 (8 + a.data.length)) (a.data ++ (zeros (padded (8 + a.data.length) - (8 + a.data.length)) ++ rest))
    rw [hd] at s4 s5 s0
    rw [be24_u8 _ (by omega)] at s5
    rw [be32_putBe32 _ hc] at s0
    have hb4 : (((byteAt d 4).toNat &&& 0x80) != 0) = false := by rw [s4, fb1]; exact hv
    obtain ⟨g, hg⟩ := avpSpec_ok grp f d (by rw [s5]; omega) (by rw [hb4, s5]; simp) (by rw [s5]; omega)
    refine ⟨_, by rw [hg, s5], ?_⟩
    have hdrop : d.drop 8 = a.data ++ (zeros (padded (8 + a.data.length) - (8 + a.data.length)) ++ rest) := by
      rw [← hd]; rfl
    refine ⟨s0, by rw [hb4, hv], by rw [s4]; exact fb2, by rw [s4]; exact fb3, hlen.symm, ?_, ?_⟩
    · rw [hb4]; simp only [Bool.false_eq_true, if_false]; exact (hnv hv).symm
    · simp only [hb4, Bool.false_eq_true, if_false, s5, hdrop]
      have : 8 + a.data.length - 8 = a.data.length := by omega
      rw [this, List.take_left' rfl]
  · rw [hv] at hlen; simp only [if_true] at hlen
    have hser : serializedAVPLength a = padded (12 + a.data.length) := by simp [serializedAVPLength, hv]
    rw [hser] at hlenD ⊢
    rw [serializeAVP_v a rest hv] at hlenD ⊢
    generalize hd : (u8 (a.code / 16777216) :: u8 (a.code / 65536) :: u8 (a.code / 256) :: u8 a.code ::
      u8 (avpFlagsByte a) :: u8 ((12 + a.data.length) / 65536) :: u8 ((12 + a.data.length) / 256) ::
      u8 (12 + a.data.length) ::
      u8 (a.vendorID / 16777216) :: u8 (a.vendorID / 65536) :: u8 (a.vendorID / 256) :: u8 a.vendorID ::
      (a.data ++ (zeros (padded (12 + a.data.length) - (12 + a.data.length)) ++ rest))) = d at hlenD ⊢
    obtain ⟨s4, s5, s0⟩ := shape8 (u8 (a.code / 16777216)) (u8 (a.code / 65536)) (u8 (a.code / 256)) (u8 a.code)
      (u8 (avpFlagsByte a)) (u8 ((12 + a.data.length) / 65536)) (u8 ((12 + a.data.length) / 256))
      (u8 (12 + a.data.length))
      (u8 (a.vendorID / 16777216) :: u8 (a.vendorID / 65536) :: u8 (a.vendorID / 256) :: u8 a.vendorID ::
        (a.data ++ (zeros (padded (12 + a.data.length) - (12 + a.data.length)) ++ rest)))
    have s8 := shape12 (u8 (a.code / 16777216)) (u8 (a.code / 65536)) (u8 (a.code / 256)) (u8 a.code)
      (u8 (avpFlagsByte a)) (u8 ((12 + a.data.length) / 65536)) (u8 ((12 + a.data.length) / 256))
      (u8 (12 + a.data.length))
      (u8 (a.vendorID / 16777216)) (u8 (a.vendorID / 65536)) (u8 (a.vendorID / 256)) (u8 a.vendorID)
      (a.data ++ (zeros (padded (12 + a.data.length) - (12 + a.data.length)) ++ rest))
    rw [hd] at s4 s5 s0 s8
    rw [be24_u8 _ (by omega)] at s5
    rw [be32_putBe32 _ hc] at s0
    rw [be32_putBe32 _ hvid] at s8
    have hb4 : (((byteAt d 4).toNat &&& 0x80) != 0) = true := by rw [s4, fb1]; exact hv
    obtain ⟨g, hg⟩ := avpSpec_ok grp f d (by rw [s5]; omega) (by rw [hb4, s5]; simp) (by rw [s5]; omega)
    refine ⟨_, by rw [hg, s5], ?_⟩
    have hdrop : d.drop 12 = a.data ++ (zeros (padded (12 + a.data.length) - (12 + a.data.length)) ++ rest) := by
      rw [← hd]; rfl
    refine ⟨s0, by rw [hb4, hv], by rw [s4]; exact fb2, by rw [s4]; exact fb3, hlen.symm, ?_, ?_⟩
    · rw [hb4]; simp only [if_true]; exact s8
    · simp only [hb4, if_true, s5, hdrop]
      have : 12 + a.data.length - 12 = a.data.length := by omega
      rw [this, List.take_left' rfl]

theorem serializedAVPLength_ge (a : AVP) : 8 ≤ serializedAVPLength a := by
  unfold serializedAVPLength
  have := padded_ge ((if a.fVendor then 12 else 8) + a.data.length)
  split at this <;> simp_all <;> omega

/-- The AVP loop on a serialised list of in-range AVPs returns the list (up to GroupedAVPs), without
    the error flag. -/
theorem loopSpec_serialize (grp : Nat → Nat → Bool) (avps : List AVP) :
    ∀ (f : Nat) (acc : List AVP), (∀ a ∈ avps, wfAVP a) → (avps.map serializeAVP).flatten.length + 2 ≤ f →
    ∃ r, loopSpec grp f (avps.map serializeAVP).flatten acc = (acc ++ r, false) ∧ AvpsEq r avps := by
  induction avps with
  | nil =>
    intro f acc _ hf
    cases f with
    | zero => omega
    | succ f => exact ⟨[], by simp [loopSpec], AvpsEq.nil⟩
  | cons a rest ih =>
    intro f acc hw hf
    cases f with
    | zero => omega
    | succ f =>
      simp only [List.map_cons, List.flatten_cons] at hf ⊢
      have hlen : (serializeAVP a ++ (rest.map serializeAVP).flatten).length =
          serializedAVPLength a + (rest.map serializeAVP).flatten.length := by
        rw [List.length_append, serializeAVP_length]
      have h8 := serializedAVPLength_ge a
      cases f with
      | zero => omega
      | succ f =>
        obtain ⟨a', ha', he⟩ := avpSpec_serialize grp f a (rest.map serializeAVP).flatten (hw a (List.mem_cons_self ..))
        unfold loopSpec
        rw [if_neg (by omega), ha']
        simp only []
        have hdrop : (serializeAVP a ++ (rest.map serializeAVP).flatten).drop (serializedAVPLength a) =
            (rest.map serializeAVP).flatten := by
          rw [← serializeAVP_length]; exact List.drop_left' rfl
        rw [hdrop]
        obtain ⟨r, hr, hf2⟩ := ih (f + 1) (acc ++ [a']) (fun x hx => hw x (List.mem_cons_of_mem _ hx)) (by omega)
        refine ⟨a' :: r, ?_, AvpsEq.cons he hf2⟩
        rw [hr]; simp

/-! ## 4. Diameter.DecodeFromBytes ∘ Diameter.SerializeTo -/

theorem shape20 (x0 x1 x2 x3 x4 x5 x6 x7 x8 x9 x10 x11 x12 x13 x14 x15 x16 x17 x18 x19 : UInt8) (T : Bytes) :
    byteAt (x0::x1::x2::x3::x4::x5::x6::x7::x8::x9::x10::x11::x12::x13::x14::x15::x16::x17::x18::x19::T) 0 = x0 ∧ u24At (x0::x1::x2::x3::x4::x5::x6::x7::x8::x9::x10::x11::x12::x13::x14::x15::x16::x17::x18::x19::T) 1 = be24 x1 x2 x3 ∧ byteAt (x0::x1::x2::x3::x4::x5::x6::x7::x8::x9::x10::x11::x12::x13::x14::x15::x16::x17::x18::x19::T) 4 = x4 ∧
    u24At (x0::x1::x2::x3::x4::x5::x6::x7::x8::x9::x10::x11::x12::x13::x14::x15::x16::x17::x18::x19::T) 5 = be24 x5 x6 x7 ∧ u32At (x0::x1::x2::x3::x4::x5::x6::x7::x8::x9::x10::x11::x12::x13::x14::x15::x16::x17::x18::x19::T) 8 = be32 x8 x9 x10 x11 ∧
    u32At (x0::x1::x2::x3::x4::x5::x6::x7::x8::x9::x10::x11::x12::x13::x14::x15::x16::x17::x18::x19::T) 12 = be32 x12 x13 x14 x15 ∧ u32At (x0::x1::x2::x3::x4::x5::x6::x7::x8::x9::x10::x11::x12::x13::x14::x15::x16::x17::x18::x19::T) 16 = be32 x16 x17 x18 x19 ∧
    (x0::x1::x2::x3::x4::x5::x6::x7::x8::x9::x10::x11::x12::x13::x14::x15::x16::x17::x18::x19::T).drop 20 = T := ⟨rfl, rfl, rfl, rfl, rfl, rfl, rfl, rfl⟩

theorem diamEncode_length (l : Diameter) : (diamEncode l).length = msgLen l := by
  unfold diamEncode msgLen
  rw [List.length_append, diamHeader_length, flatten_length]

theorem diamFixed_ml (l : Diameter) (h : msgLen l < 16777216) : (diamFixed l true).messageLength = msgLen l := by
  show msgLen l % 4294967296 = msgLen l
  exact Nat.mod_eq_of_lt (by omega)

/-- Decoding what SerializeTo (FixLengths on) wrote for an in-range layer, followed by any payload
    bytes `p`: no error, no truncation flag, the same field values (AVPs in order, up to
    GroupedAVPs), Contents = exactly the written layer bytes, and an EMPTY Payload — the bytes behind
    MessageLength are not part of the decoded layer. -/
theorem decSpec_encode (grp : Nat → Nat → Bool) (old l : Diameter) (p : Bytes) (hw : wfDiam l) :
    ∃ l', diamDecSpec grp old (diamEncode (diamFixed l true) ++ p) = { layer := l', trunc := false, err := false } ∧
      DiamEquiv l' (diamFixed l true) ∧ l'.contents = diamEncode (diamFixed l true) ∧ l'.payload = [] := by
  obtain ⟨hver, hcc, happ, hhbh, he2e, hml, havps⟩ := hw
  have hM := diamFixed_ml l hml
  have hflat : (l.avps.map serializeAVP).flatten.length + 20 = msgLen l := by
    rw [flatten_length]; unfold msgLen; omega
  have hcons : diamEncode (diamFixed l true) ++ p =
      u8 (diamFixed l true).version :: u8 ((diamFixed l true).messageLength / 65536) ::
      u8 ((diamFixed l true).messageLength / 256) :: u8 (diamFixed l true).messageLength ::
      u8 (cmdFlagsByte (diamFixed l true)) :: u8 ((diamFixed l true).commandCode / 65536) ::
      u8 ((diamFixed l true).commandCode / 256) :: u8 (diamFixed l true).commandCode ::
      u8 ((diamFixed l true).applicationID / 16777216) :: u8 ((diamFixed l true).applicationID / 65536) ::
      u8 ((diamFixed l true).applicationID / 256) :: u8 (diamFixed l true).applicationID ::
      u8 ((diamFixed l true).hopByHopID / 16777216) :: u8 ((diamFixed l true).hopByHopID / 65536) ::
      u8 ((diamFixed l true).hopByHopID / 256) :: u8 (diamFixed l true).hopByHopID ::
      u8 ((diamFixed l true).endToEndID / 16777216) :: u8 ((diamFixed l true).endToEndID / 65536) ::
      u8 ((diamFixed l true).endToEndID / 256) :: u8 (diamFixed l true).endToEndID ::
      ((l.avps.map serializeAVP).flatten ++ p) := by
    simp [diamEncode, diamHeader, putBe32, List.append_assoc, diamFixed_avps]
  obtain ⟨s0, s1, s4, s5, s8, s12, s16, sdrop⟩ := shape20 (u8 (diamFixed l true).version)
      (u8 ((diamFixed l true).messageLength / 65536))
      (u8 ((diamFixed l true).messageLength / 256)) (u8 (diamFixed l true).messageLength)
      (u8 (cmdFlagsByte (diamFixed l true))) (u8 ((diamFixed l true).commandCode / 65536))
      (u8 ((diamFixed l true).commandCode / 256)) (u8 (diamFixed l true).commandCode)
      (u8 ((diamFixed l true).applicationID / 16777216)) (u8 ((diamFixed l true).applicationID / 65536))
      (u8 ((diamFixed l true).applicationID / 256)) (u8 (diamFixed l true).applicationID)
      (u8 ((diamFixed l true).hopByHopID / 16777216)) (u8 ((diamFixed l true).hopByHopID / 65536))
      (u8 ((diamFixed l true).hopByHopID / 256)) (u8 (diamFixed l true).hopByHopID)
      (u8 ((diamFixed l true).endToEndID / 16777216)) (u8 ((diamFixed l true).endToEndID / 65536))
      (u8 ((diamFixed l true).endToEndID / 256)) (u8 (diamFixed l true).endToEndID)
      ((l.avps.map serializeAVP).flatten ++ p)
  rw [← hcons] at s0 s1 s4 s5 s8 s12 s16 sdrop
  have hlen : (diamEncode (diamFixed l true) ++ p).length = msgLen l + p.length := by
    rw [List.length_append, diamEncode_length, msgLen_fixed]
  have fver : (diamFixed l true).version = 1 := hver
  have fcc : (diamFixed l true).commandCode = l.commandCode := rfl
  have fapp : (diamFixed l true).applicationID = l.applicationID := rfl
  have fhbh : (diamFixed l true).hopByHopID = l.hopByHopID := rfl
  have fe2e : (diamFixed l true).endToEndID = l.endToEndID := rfl
  rw [hM, be24_u8 _ hml] at s1
  rw [fcc, be24_u8 _ hcc] at s5
  rw [fapp, be32_putBe32 _ happ] at s8
  rw [fhbh, be32_putBe32 _ hhbh] at s12
  rw [fe2e, be32_putBe32 _ he2e] at s16
  have hv0 : (byteAt (diamEncode (diamFixed l true) ++ p) 0).toNat = 1 := by rw [s0, fver]; rfl
  have hge : 20 ≤ msgLen l := by unfold msgLen; omega
  generalize hv : diamEncode (diamFixed l true) ++ p = v at *
  unfold diamDecSpec
  rw [if_neg (by omega), if_neg (by omega), if_neg (by rw [s1]; omega)]
  have harg : (v.drop 20).take (u24At v 1 - 20) = (l.avps.map serializeAVP).flatten := by
    rw [sdrop, s1]; exact List.take_left' (by omega)
  simp only [harg]
  obtain ⟨r, hr, hr2⟩ := loopSpec_serialize grp l.avps (v.length + 2) [] havps (by omega)
  rw [hr]
  obtain ⟨c1, c2, c3, c4⟩ := cmd_flag_bits l.fRequest l.fProxiable l.fError l.fRetransmitted
  refine ⟨_, rfl, ⟨?_, ?_, ?_, ?_, ?_, ?_, ?_, ?_, ?_, ?_, ?_⟩, ?_, rfl⟩
  · show (byteAt v 0).toNat = _; rw [hv0, fver]
  · show u24At v 1 = _; rw [s1, hM]
  · show (((byteAt v 4).toNat &&& 0x80) != 0) = _; rw [s4]; exact c1
  · show (((byteAt v 4).toNat &&& 0x40) != 0) = _; rw [s4]; exact c2
  · show (((byteAt v 4).toNat &&& 0x20) != 0) = _; rw [s4]; exact c3
  · show (((byteAt v 4).toNat &&& 0x10) != 0) = _; rw [s4]; exact c4
  · show u24At v 5 = _; rw [s5, fcc]
  · show u32At v 8 = _; rw [s8, fapp]
  · show u32At v 12 = _; rw [s12, fhbh]
  · show u32At v 16 = _; rw [s16, fe2e]
  · show AvpsEq ([] ++ r) (diamFixed l true).avps; rw [diamFixed_avps]; simpa using hr2
  · show v.take (u24At v 1) = _
    rw [s1, ← hv]
    exact List.take_left' (by rw [diamEncode_length, msgLen_fixed])

/-! ## 5. Every decoded layer is in range -/

theorem be24_lt (a b c : UInt8) : be24 a b c < 16777216 := by
  have := a.toNat_lt; have := b.toNat_lt; have := c.toNat_lt
  unfold be24; omega

theorem u24At_lt (v : Bytes) (i : Nat) : u24At v i < 16777216 := be24_lt _ _ _

/-- A decoded AVP is in range and its serialised length is what the decoder consumed. -/
theorem avpSpec_wf (grp : Nat → Nat → Bool) (f : Nat) (d : Bytes) (a : AVP) (n : Nat)
    (h : avpSpec grp f d = some (a, n)) : wfAVP a ∧ serializedAVPLength a = n := by
  cases f with
  | zero => simp [avpSpec] at h
  | succ f =>
    unfold avpSpec at h
    by_cases c1 : d.length < 8
    · rw [if_pos c1] at h; cases h
    rw [if_neg c1] at h
    by_cases c2 : u24At d 5 < 8
    · rw [if_pos c2] at h; cases h
    rw [if_neg c2] at h
    by_cases c3 : (((byteAt d 4).toNat &&& 0x80) != 0 && decide (d.length < 12)) = true
    · rw [if_pos c3] at h; cases h
    rw [if_neg c3] at h
    by_cases c4 : d.length < padded (u24At d 5)
    · rw [if_pos c4] at h; cases h
    rw [if_neg c4] at h
    by_cases c5 : u24At d 5 < (if ((byteAt d 4).toNat &&& 0x80) != 0 then 12 else 8)
    · rw [if_pos c5] at h; cases h
    rw [if_neg c5] at h
    simp only [Option.some.injEq, Prod.mk.injEq] at h
    obtain ⟨ha, hn⟩ := h
    subst ha
    have hge := padded_ge (u24At d 5)
    have h24 := u24At_lt d 5
    have h32a := u32At_lt d 0
    have h32b := u32At_lt d 8
    cases hv : ((byteAt d 4).toNat &&& 0x80) != 0
    · rw [hv] at c5
      simp only [Bool.false_eq_true, if_false] at c5
      have hdl : ((d.drop 8).take (u24At d 5 - 8)).length = u24At d 5 - 8 := by
        rw [List.length_take, List.length_drop]; omega
      refine ⟨⟨h32a, by simp, fun _ => by simp, ?_, h24⟩, ?_⟩
      · simp only [Bool.false_eq_true, if_false, hdl]; omega
      · simp only [serializedAVPLength, Bool.false_eq_true, if_false, hdl, ← hn]
        congr 1; omega
    · rw [hv] at c5
      simp only [if_true] at c5
      have hdl : ((d.drop 12).take (u24At d 5 - 12)).length = u24At d 5 - 12 := by
        rw [List.length_take, List.length_drop]; omega
      refine ⟨⟨h32a, by simpa using h32b, fun hh => by simp at hh, ?_, h24⟩, ?_⟩
      · simp only [↓reduceIte, hdl]; omega
      · simp only [serializedAVPLength, ↓reduceIte, hdl, ← hn]
        congr 1; omega

/-- The loop only adds in-range AVPs, and their serialised lengths sum to at most the bytes given. -/
theorem loopSpec_wf (grp : Nat → Nat → Bool) (f : Nat) :
    ∀ (s : Bytes) (acc : List AVP), (∀ a ∈ acc, wfAVP a) →
      (∀ a ∈ (loopSpec grp f s acc).1, wfAVP a) ∧
      (((loopSpec grp f s acc).1).map serializedAVPLength).sum ≤ (acc.map serializedAVPLength).sum + s.length := by
  induction f with
  | zero => intro s acc h; exact ⟨by simpa [loopSpec] using h, by simp [loopSpec]⟩
  | succ f ih =>
    intro s acc h
    unfold loopSpec
    by_cases h8 : s.length < 8
    · rw [if_pos h8]; exact ⟨h, by simp⟩
    · rw [if_neg h8]
      cases hs : avpSpec grp f s with
      | none => exact ⟨h, by simp⟩
      | some pr =>
        obtain ⟨a, n⟩ := pr
        obtain ⟨hwa, hna⟩ := avpSpec_wf grp f s a n hs
        obtain ⟨hn8, hnl⟩ := avpSpec_consumed grp f s a n hs
        simp only []
        have hacc : ∀ x ∈ acc ++ [a], wfAVP x := by
          intro x hx
          rcases List.mem_append.mp hx with hx | hx
          · exact h x hx
          · simp at hx; rw [hx]; exact hwa
        obtain ⟨i1, i2⟩ := ih (s.drop n) (acc ++ [a]) hacc
        refine ⟨i1, ?_⟩
        rw [List.map_append, List.sum_append, List.length_drop] at i2
        simp only [List.map_cons, List.map_nil, List.sum_cons, List.sum_nil] at i2
        omega

/-- Every successfully decoded layer satisfies `wfDiam`. -/
theorem diamDecSpec_wf (grp : Nat → Nat → Bool) (old : Diameter) (v : Bytes)
    (he : (diamDecSpec grp old v).err = false) : wfDiam (diamDecSpec grp old v).layer := by
  unfold diamDecSpec at he ⊢
  by_cases h1 : v.length < 20
  · rw [if_pos h1] at he; cases he
  · rw [if_neg h1] at he ⊢
    by_cases h2 : (byteAt v 0).toNat ≠ 1
    · rw [if_pos h2] at he; cases he
    · rw [if_neg h2] at he ⊢
      by_cases h3 : u24At v 1 < 20 ∨ v.length < u24At v 1
      · rw [if_pos h3] at he; cases he
      · rw [if_neg h3]
        obtain ⟨w1, w2⟩ := loopSpec_wf grp (v.length + 2) ((v.drop 20).take (u24At v 1 - 20)) []
          (fun a ha => by cases ha)
        have h24 := u24At_lt v 1
        refine ⟨by show (byteAt v 0).toNat = 1; omega, u24At_lt v 5, u32At_lt v 8, u32At_lt v 12, u32At_lt v 16, ?_, w1⟩
        show 20 + _ < 16777216
        simp only [diamLayer]
        rw [List.length_take, List.length_drop] at w2
        simp only [List.map_nil, List.sum_nil] at w2
        omega

/-! ## 6. The serializer only looks at what ≈ compares -/

theorem serializeAVP_eq (a b : AVP) (h : avpEq a b) :
    serializeAVP a = serializeAVP b ∧ serializedAVPLength a = serializedAVPLength b := by
  obtain ⟨h1, h2, h3, h4, _, h6, h7⟩ := h
  unfold serializeAVP serializedAVPLength avpFlagsByte
  rw [h1, h2, h3, h4, h6, h7]
  exact ⟨rfl, rfl⟩

theorem avpsEq_map (r s : List AVP) (h : AvpsEq r s) :
    r.map serializeAVP = s.map serializeAVP ∧ r.map serializedAVPLength = s.map serializedAVPLength := by
  induction h with
  | nil => exact ⟨rfl, rfl⟩
  | cons hab _ ih =>
    obtain ⟨e1, e2⟩ := serializeAVP_eq _ _ hab
    simp only [List.map_cons, e1, e2, ih.1, ih.2, and_self]

theorem diamEncode_equiv (a b : Diameter) (h : DiamEquiv a b) : diamEncode a = diamEncode b := by
  obtain ⟨h1, h2, h3, h4, h5, h6, h7, h8, h9, h10, h11⟩ := h
  unfold diamEncode diamHeader cmdFlagsByte
  rw [h1, h2, h3, h4, h5, h6, h7, h8, h9, h10, (avpsEq_map _ _ h11).1]

theorem diamFixed_equiv (l' l : Diameter) (fix2 : Bool) (h : DiamEquiv l' (diamFixed l true)) :
    DiamEquiv (diamFixed l' fix2) (diamFixed l true) := by
  cases fix2
  · exact h
  · obtain ⟨h1, h2, h3, h4, h5, h6, h7, h8, h9, h10, h11⟩ := h
    refine ⟨h1, ?_, h3, h4, h5, h6, h7, h8, h9, h10, h11⟩
    show msgLen l' % 4294967296 = msgLen l % 4294967296
    unfold msgLen
    rw [(avpsEq_map _ _ h11).2, diamFixed_avps]

end Gp.Diam
