import Gp.Lemmas.Layers.Ip6SerIp
/-
  (*IPv6Routing).SerializeTo and (*IPv6Fragment).SerializeTo over the serialize-buffer model.
-/
namespace Gp.Ip6
open Gp Gp.SBuf Gp.C18

/-! ## Fragment -/

def fragByte3 (f : Fragment) : UInt8 :=
  let b := u8 ((f.fragmentOffset * 8) % 65536)
  let b := u8 (b.toNat ||| (((f.reserved2 * 2) % 256) &&& 6))
  if f.moreFragments then u8 (b.toNat ||| 1) else b

def fragBytes (f : Fragment) : Bytes :=
  [u8 f.nextHeader, u8 f.reserved1, u8 ((f.fragmentOffset * 8) % 65536 / 256), fragByte3 f] ++
  putBe32 (f.identification % 4294967296)

def fragStores (f : Fragment) (st : Bytes) : Res Bytes := do
  let st ← wr st 0 (u8 f.nextHeader)
  let st ← wr st 1 (u8 f.reserved1)
  let st ← cpRange st 2 4 (putBe16 ((f.fragmentOffset * 8) % 65536))
  let d3 ← index st 3
  let st ← wr st 3 (u8 (d3.toNat ||| (((f.reserved2 * 2) % 256) &&& 6)))
  let st ← (if f.moreFragments then do
              let d3 ← index st 3
              wr st 3 (u8 (d3.toNat ||| 1))
            else pure st : Res Bytes)
  cpRange st 4 8 (putBe32 (f.identification % 4294967296))

theorem serializeFragment_def (f : Fragment) (b : SBuf) :
    serializeFragment f b = prependWith b 8 (fragStores f) := rfl

theorem fragStores_eq (f : Fragment) (st : Bytes) (h : st.length = 8) :
    fragStores f st = .ok (fragBytes f) := by
  obtain ⟨a0, s1, rfl, h1⟩ := exists_cons_of_length st 7 h
  obtain ⟨a1, s2, rfl, h2⟩ := exists_cons_of_length s1 6 h1
  obtain ⟨a2, s3, rfl, h3⟩ := exists_cons_of_length s2 5 h2
  obtain ⟨a3, s4, rfl, h4⟩ := exists_cons_of_length s3 4 h3
  obtain ⟨a4, s5, rfl, h5⟩ := exists_cons_of_length s4 3 h4
  obtain ⟨a5, s6, rfl, h6⟩ := exists_cons_of_length s5 2 h5
  obtain ⟨a6, s7, rfl, h7⟩ := exists_cons_of_length s6 1 h6
  obtain ⟨a7, s8, rfl, h8⟩ := exists_cons_of_length s7 0 h7
  have : s8 = [] := List.eq_nil_of_length_eq_zero h8
  subst this
  unfold fragStores fragBytes fragByte3
  by_cases hm : f.moreFragments = true
  · simp [wr, cpRange, index, putBe16, putBe32, hm]
  · simp [wr, cpRange, index, putBe16, putBe32, hm]

theorem serializeFragment_eq (f : Fragment) (b : SBuf) (h : Inv b) :
    serializeFragment f b = .ok (step b (.prepend (fragBytes f))) := by
  rw [serializeFragment_def]
  exact prependWith_ok b 8 _ _ (fragStores_eq f _ (staleWin_length b 8 h)) (by simp [fragBytes, putBe32])

/-! ## Routing -/

theorem to16_length (ip : Bytes) (h : ip.length = 4 ∨ ip.length = 16) : (to16 ip).length = 16 := by
  unfold to16
  rcases h with h | h
  · simp [h]
  · have : ip.length ≠ 4 := by omega
    simp [h, this]

theorem cpRange_boundary (done r src : Bytes) (a b : Nat) (ha : a = done.length)
    (hb : b = a + src.length) (hr : src.length ≤ r.length) :
    cpRange (done ++ r) a b src = .ok (done ++ src ++ r.drop src.length) := by
  subst ha hb
  unfold cpRange
  rw [if_pos ⟨by omega, by simp; omega⟩]
  have e : done.length + src.length - done.length = src.length := by omega
  simp only [e, Nat.min_self, List.take_length]
  rw [List.take_left' rfl, List.drop_length_add_append]

theorem routingIPStores_ok : ∀ (ips : List Bytes) (i : Nat) (st : Bytes),
    8 + (i + ips.length) * 16 ≤ st.length →
    ∃ st', routingIPStores ips i st = .ok st' ∧ st'.length = st.length := by
  intro ips
  induction ips with
  | nil => intro i st _; exact ⟨st, rfl, rfl⟩
  | cons ip ips ih =>
    intro i st h
    simp only [List.length_cons] at h
    unfold routingIPStores
    obtain ⟨s1, h1, hl1⟩ := cpRange_ok st (8 + i * 16) (8 + i * 16 + 16) (to16 ip) ⟨by omega, by omega⟩
    rw [h1]
    simp only [Res.bind_ok]
    obtain ⟨s2, h2, hl2⟩ := ih (i + 1) s1 (by omega)
    exact ⟨s2, h2, by omega⟩

def rtStores (r : Routing) (st : Bytes) : Res Bytes := do
  let st ← wr st 0 (u8 r.base.nextHeader)
  let st ← wr st 1 (u8 ((8 + r.sourceRoutingIPs.length * 16 - 8) / 8))
  let st ← wr st 2 (u8 r.routingType)
  let st ← wr st 3 (u8 r.segmentsLeft)
  let st ← cpRange st 4 8 r.reserved
  routingIPStores r.sourceRoutingIPs 0 st

theorem serializeRouting_def (r : Routing) (b : SBuf) :
    serializeRouting r b = prependWith b (8 + r.sourceRoutingIPs.length * 16) (rtStores r) := rfl

theorem rtStores_ok (r : Routing) (st : Bytes) (h : st.length = 8 + r.sourceRoutingIPs.length * 16) :
    ∃ st', rtStores r st = .ok st' ∧ st'.length = st.length := by
  unfold rtStores
  rw [wr_ok _ _ _ (by omega)]
  simp only [Res.bind_ok]
  rw [wr_ok _ _ _ (by simp; omega)]
  simp only [Res.bind_ok]
  rw [wr_ok _ _ _ (by simp; omega)]
  simp only [Res.bind_ok]
  rw [wr_ok _ _ _ (by simp; omega)]
  simp only [Res.bind_ok]
  obtain ⟨s1, h1, hl1⟩ := cpRange_ok ((((st.set 0 (u8 r.base.nextHeader)).set 1
      (u8 ((8 + r.sourceRoutingIPs.length * 16 - 8) / 8))).set 2 (u8 r.routingType)).set 3 (u8 r.segmentsLeft))
    4 8 r.reserved ⟨by omega, by simp; omega⟩
  rw [h1]
  simp only [Res.bind_ok]
  obtain ⟨s2, h2, hl2⟩ := routingIPStores_ok r.sourceRoutingIPs 0 s1 (by rw [hl1]; simp; omega)
  exact ⟨s2, h2, by rw [hl2, hl1]; simp⟩

theorem serializeRouting_ne_panic (r : Routing) (b : SBuf) (h : Inv b) (k : PanicKind) :
    serializeRouting r b ≠ .panic k := by
  rw [serializeRouting_def]
  obtain ⟨st', hs, hl⟩ := rtStores_ok r (staleWin b _) (staleWin_length b _ h)
  rw [prependWith_ok b _ _ st' hs (by rw [hl, staleWin_length b _ h])]
  simp

/-! ### closed form for consistent routing headers -/

/-- Reserved has (at least) its 4 bytes and every address is a 4- or 16-byte IP: exactly the
    layers for which every requested byte is written. -/
def RoutingConsistent (r : Routing) : Prop :=
  4 ≤ r.reserved.length ∧ ∀ ip ∈ r.sourceRoutingIPs, ip.length = 4 ∨ ip.length = 16

def rtBytes (r : Routing) : Bytes :=
  [u8 r.base.nextHeader, u8 ((8 + r.sourceRoutingIPs.length * 16 - 8) / 8), u8 r.routingType,
   u8 r.segmentsLeft] ++ r.reserved.take 4 ++ (r.sourceRoutingIPs.map to16).flatten

theorem routingIPStores_closed : ∀ (ips : List Bytes) (i : Nat) (done rest : Bytes),
    done.length = 8 + i * 16 → rest.length = ips.length * 16 →
    (∀ ip ∈ ips, ip.length = 4 ∨ ip.length = 16) →
    routingIPStores ips i (done ++ rest) = .ok (done ++ (ips.map to16).flatten) := by
  intro ips
  induction ips with
  | nil =>
    intro i done rest _ hr _
    have : rest = [] := List.eq_nil_of_length_eq_zero (by simpa using hr)
    subst this
    simp [routingIPStores]
  | cons ip ips ih =>
    intro i done rest hd hr hc
    simp only [List.length_cons] at hr
    have h16 := to16_length ip (hc ip List.mem_cons_self)
    unfold routingIPStores
    rw [cpRange_boundary done rest (to16 ip) _ _ hd.symm (by rw [h16]) (by omega)]
    simp only [Res.bind_ok]
    have := ih (i + 1) (done ++ to16 ip) (rest.drop (to16 ip).length)
      (by simp [h16]; omega) (by rw [List.length_drop, h16]; omega)
      (fun ip' h' => hc ip' (List.mem_cons_of_mem _ h'))
    rw [this]
    simp

theorem rtStores_closed (r : Routing) (st : Bytes) (h : st.length = 8 + r.sourceRoutingIPs.length * 16)
    (hc : RoutingConsistent r) : rtStores r st = .ok (rtBytes r) := by
  obtain ⟨a0, s1, rfl, h1⟩ := exists_cons_of_length st _ (by rw [h]; omega : st.length = (7 + r.sourceRoutingIPs.length * 16) + 1)
  obtain ⟨a1, s2, rfl, h2⟩ := exists_cons_of_length s1 (6 + r.sourceRoutingIPs.length * 16) (by omega)
  obtain ⟨a2, s3, rfl, h3⟩ := exists_cons_of_length s2 (5 + r.sourceRoutingIPs.length * 16) (by omega)
  obtain ⟨a3, s4, rfl, h4⟩ := exists_cons_of_length s3 (4 + r.sourceRoutingIPs.length * 16) (by omega)
  obtain ⟨a4, s5, rfl, h5⟩ := exists_cons_of_length s4 (3 + r.sourceRoutingIPs.length * 16) (by omega)
  obtain ⟨a5, s6, rfl, h6⟩ := exists_cons_of_length s5 (2 + r.sourceRoutingIPs.length * 16) (by omega)
  obtain ⟨a6, s7, rfl, h7⟩ := exists_cons_of_length s6 (1 + r.sourceRoutingIPs.length * 16) (by omega)
  obtain ⟨a7, rest, rfl, h8⟩ := exists_cons_of_length s7 (r.sourceRoutingIPs.length * 16) (by omega)
  obtain ⟨hres, hips⟩ := hc
  unfold rtStores rtBytes
  have e : min 4 r.reserved.length = 4 := by omega
  have hl8 : 8 ≤ rest.length + 1 + 1 + 1 + 1 + 1 + 1 + 1 + 1 := by omega
  simp only [wr, cpRange, List.length_cons, List.length_set, Nat.zero_lt_succ, if_true, Res.bind_ok,
    List.set_cons_zero, List.set_cons_succ, Nat.lt_add_left_iff_pos, Nat.reduceLT, Nat.reduceLeDiff,
    true_and, hl8, Nat.reduceSub, e, Nat.reduceAdd, List.take_succ_cons, List.take_zero,
    List.drop_succ_cons, List.drop_zero]
  have := routingIPStores_closed r.sourceRoutingIPs 0
    ([u8 r.base.nextHeader, u8 ((8 + r.sourceRoutingIPs.length * 16 - 8) / 8), u8 r.routingType,
      u8 r.segmentsLeft] ++ r.reserved.take 4) rest (by simp; omega) h8 hips
  simp only [List.append_assoc, List.cons_append, List.nil_append] at this ⊢
  exact this

theorem serializeRouting_closed (r : Routing) (b : SBuf) (h : Inv b) (hc : RoutingConsistent r) :
    serializeRouting r b = .ok (step b (.prepend (rtBytes r))) := by
  rw [serializeRouting_def]
  have hs := rtStores_closed r (staleWin b _) (staleWin_length b _ h) hc
  obtain ⟨st', hs', hl⟩ := rtStores_ok r (staleWin b _) (staleWin_length b _ h)
  rw [hs] at hs'
  cases hs'
  exact prependWith_ok b _ _ _ hs (by rw [hl, staleWin_length b _ h])

end Gp.Ip6
