import Gp.Lemmas.SBuf
import Gp.Lemmas.Layers.Icmp
/-
  Helper lemmas for the serializers of engine `licmp`.  Core Lean only.
  First section: the wire encodings (pure functions of the layer value) that occur in the
  statements of the C06/C07 theorems.  Then: every SerializeTo of the model, run on a buffer
  satisfying the C18 invariant, equals "prepend these bytes" (`step b (.prepend hdr)`), which
  makes totality, buffer independence and the round trip consequences of the C18 theorems.
-/
namespace Gp.Icmp
open Gp Gp.SBuf Gp.C18

/-! ## Wire encodings used in the statements -/

def encOpt (o : Opt) : Bytes := u8 o.typ :: u8 ((o.data.length + 2) / 8) :: o.data

def encOpts : List Opt → Bytes
  | [] => []
  | o :: rest => encOpt o ++ encOpts rest

def hdrICMPv4 (l : ICMPv4) : Bytes :=
  putBe16 l.typeCode ++ putBe16 l.checksum ++ putBe16 l.id ++ putBe16 l.seq

def hdrICMPv6 (l : ICMPv6) : Bytes := putBe16 l.typeCode ++ putBe16 l.checksum

def hdrEcho (l : Echo) : Bytes := putBe16 l.identifier ++ putBe16 l.seqNumber

def hdrRA (l : RA) : Bytes :=
  [u8 l.hopLimit, u8 l.flags] ++ putBe16 l.routerLifetime ++ putBe32 l.reachableTime ++
    putBe32 l.retransTimer

def hdrNS (l : NS) : Bytes := zeros 4 ++ l.targetAddress

def hdrNA (l : NA) : Bytes := [u8 l.flags] ++ zeros 3 ++ l.targetAddress

def hdrRedirect (l : Redirect) : Bytes := zeros 4 ++ l.targetAddress ++ l.destinationAddress

/-- The layer after SerializeTo: ComputeChecksums stores the computed checksum in the layer. -/
def fixICMPv4 (l : ICMPv4) (payload : Bytes) (o : SOpts) : ICMPv4 :=
  if o.csum then
    { l with checksum := Cksum.fold (Cksum.compute (hdrICMPv4 { l with checksum := 0 } ++ payload) 0) }
  else l

/-- ICMPv6 needs the pseudo-header when checksums are computed (`none` = error). -/
def fixICMPv6 (l : ICMPv6) (payload : Bytes) (o : SOpts) : Option ICMPv6 :=
  if o.csum then
    match l.pseudo.sum with
    | none => none
    | some ps =>
      some { l with checksum := Cksum.fold (Cksum.l4sum ps Gen.Icmp.ipProtocolICMPv6
                                    (hdrICMPv6 { l with checksum := 0 } ++ payload)) }
  else some l

/-- Observable outcome of a serializer call: the buffer CONTENTS and the (mutated) layer. -/
def outOf {α : Type} (r : Res (SBuf × α)) : Res (Bytes × α) :=
  match r with
  | .ok (b, l) => .ok (contents b, l)
  | .err e => .err e
  | .panic k => .panic k

/-! ## Stores into a window -/

theorem put_seq (pre rest src : Bytes) (h : src.length ≤ rest.length) :
    put (pre ++ rest) pre.length src = pre ++ src ++ rest.drop src.length := by
  have e1 : (pre ++ rest).length - pre.length = rest.length := by simp
  simp only [put, e1, Nat.min_eq_left h]
  rw [List.take_left' rfl, List.take_of_length_le (Nat.le_refl _), List.drop_length_add_append]

theorem putR_at (buf pre rest src : Bytes) (off : Nat) (hb : buf = pre ++ rest)
    (ho : off = pre.length) (h : src.length ≤ rest.length) :
    putR buf off src = .ok (pre ++ src ++ rest.drop src.length) := by
  subst hb ho
  have : pre.length ≤ (pre ++ rest).length := by simp
  simp only [putR, this, if_true, put_seq pre rest src h]

theorem setR_at (buf pre rest : Bytes) (v : UInt8) (off : Nat) (hb : buf = pre ++ rest)
    (ho : off = pre.length) (h : 0 < rest.length) :
    setR buf off v = .ok (pre ++ [v] ++ rest.drop 1) := by
  subst hb ho
  have : pre.length < (pre ++ rest).length := by simp; omega
  simp only [setR, this, if_true]
  rw [put_seq pre rest [v] (by simp; omega)]
  rfl

theorem put16R_at (buf pre rest : Bytes) (v off : Nat) (hb : buf = pre ++ rest)
    (ho : off = pre.length) (h : 2 ≤ rest.length) :
    put16R buf off v = .ok (pre ++ putBe16 v ++ rest.drop 2) := by
  subst hb ho
  have h1 : pre.length ≤ (pre ++ rest).length := by simp
  have h2 : pre.length + 2 ≤ (pre ++ rest).length := by simp; omega
  simp only [put16R, h1, h2, if_true]
  rw [put_seq pre rest (putBe16 v) (by simpa [putBe16] using h)]
  rfl

theorem put32R_at (buf pre rest : Bytes) (v off : Nat) (hb : buf = pre ++ rest)
    (ho : off = pre.length) (h : 4 ≤ rest.length) :
    put32R buf off v = .ok (pre ++ putBe32 v ++ rest.drop 4) := by
  subst hb ho
  have h1 : pre.length ≤ (pre ++ rest).length := by simp
  have h2 : pre.length + 4 ≤ (pre ++ rest).length := by simp; omega
  simp only [put32R, h1, h2, if_true]
  rw [put_seq pre rest (putBe32 v) (by simpa [putBe32] using h)]
  rfl

theorem drop_all {α} (l : List α) (n : Nat) (h : l.length ≤ n) : l.drop n = [] :=
  List.drop_eq_nil_of_le h

/-! ## PrependBytes + stores = one abstract prepend -/

theorem winBytes_length (b : SBuf) (n : Nat) (h : Inv b) :
    (winBytes (prepend b n).1 (prepend b n).2).length = n := by
  have hi := inv_prepend' b n h
  have hs := prepend_start_len b n h
  obtain ⟨i1, i2, _⟩ := hi
  simp only [winBytes, prepend_win, List.length_take, List.length_drop]
  omega

theorem fill_prepend_eq (b : SBuf) (vs : Bytes) :
    fill (prepend b vs.length).1 (prepend b vs.length).2 vs = step b (.prepend vs) := rfl

theorem fill_fill (b : SBuf) (w : Win) (vs vs' : Bytes) (hl : vs.length = vs'.length)
    (hw : w.off + vs.length ≤ b.mem.length) : fill (fill b w vs) w vs' = fill b w vs' := by
  by_cases hg : w.gen = b.gen
  · have e : fill b w vs =
        { b with mem := b.mem.take w.off ++ vs ++ b.mem.drop (w.off + vs.length) } := by
      simp [fill, hg]
    have hto : (b.mem.take w.off).length = w.off := by
      simp [List.length_take]; omega
    rw [e]
    simp only [fill, hg, if_true]
    congr 1
    rw [← hl]
    generalize hA : b.mem.take w.off = A at hto ⊢
    generalize hD : b.mem.drop (w.off + vs.length) = D
    have e2 : w.off + vs.length = A.length + vs.length := by rw [hto]
    rw [List.append_assoc A vs D, List.take_left' hto, e2, List.drop_length_add_append,
      List.drop_left' rfl, List.append_assoc]
  · rw [fill_stale b w vs hg, fill_stale b w vs' hg]

theorem withWindow_def (b : SBuf) (n : Nat) (prog : Bytes → Res Bytes) :
    withWindow b n prog =
      (prog (winBytes (prepend b n).1 (prepend b n).2) >>= fun buf =>
        pure (fill (prepend b n).1 (prepend b n).2 buf)) := rfl

/-- If the stores turn ANY window of the right size into `hdr`, the call is "prepend hdr". -/
theorem withWindow_ok (b : SBuf) (n : Nat) (prog : Bytes → Res Bytes) (hdr : Bytes) (h : Inv b)
    (hp : ∀ buf0 : Bytes, buf0.length = n → prog buf0 = .ok hdr) (hl : hdr.length = n) :
    withWindow b n prog = .ok (step b (.prepend hdr)) := by
  rw [withWindow_def, hp _ (winBytes_length b n h)]
  subst hl
  rfl

/-! ## The individual serializers -/

theorem encOpt_length (o : Opt) : (encOpt o).length = o.data.length + 2 := by simp [encOpt]

theorem serializeOpt_eq (o : Opt) (b : SBuf) (h : Inv b) :
    serializeOpt o b = .ok (step b (.prepend (encOpt o))) := by
  unfold serializeOpt
  apply withWindow_ok _ _ _ _ h _ (encOpt_length o)
  intro buf0 hb
  rw [setR_at buf0 [] buf0 _ 0 rfl rfl (by omega)]
  simp only [Res.bind_ok]
  rw [setR_at _ [u8 o.typ] (buf0.drop 1) _ 1 (by simp) rfl (by simp [List.length_drop]; omega)]
  simp only [Res.bind_ok]
  rw [putR_at _ [u8 o.typ, u8 ((o.data.length + 2) / 8)] (buf0.drop 2) o.data 2 (by simp) rfl
    (by simp [List.length_drop]; omega)]
  rw [drop_all _ _ (by simp [List.length_drop]; omega)]
  simp [encOpt]

/-- Visiting the options `xs` in order prepends them one by one: last visited = first on the wire. -/
theorem serializeOptsIn_eq (xs : List Opt) : ∀ (b : SBuf), Inv b →
    ∃ b', serializeOptsIn xs b = .ok b' ∧ Inv b' ∧ contents b' = encOpts xs.reverse ++ contents b := by
  induction xs with
  | nil => intro b h; exact ⟨b, rfl, h, by simp [encOpts]⟩
  | cons o rest ih =>
    intro b h
    have h1 : Inv (step b (.prepend (encOpt o))) := inv_step' b _ h
    obtain ⟨b', e, hi, hc⟩ := ih _ h1
    refine ⟨b', ?_, hi, ?_⟩
    · simp only [serializeOptsIn, serializeOpt_eq o b h, Res.bind_ok, e]
    · rw [hc, contents_step_prepend b _ h, List.reverse_cons]
      have : ∀ (ys : List Opt) (x : Opt), encOpts (ys ++ [x]) = encOpts ys ++ encOpt x := by
        intro ys x
        induction ys with
        | nil => simp [encOpts]
        | cons y ys ihy => simp [encOpts, ihy, List.append_assoc]
      rw [this, List.append_assoc]

theorem serializeOpts_eq (os : List Opt) (b : SBuf) (h : Inv b) :
    ∃ b', serializeOpts os b = .ok b' ∧ Inv b' ∧ contents b' = encOpts os ++ contents b := by
  obtain ⟨b', e, hi, hc⟩ := serializeOptsIn_eq os.reverse b h
  exact ⟨b', e, hi, by rw [hc, List.reverse_reverse]⟩

theorem serializeOptsOrig_eq (os : List Opt) (b : SBuf) (h : Inv b) :
    ∃ b', serializeOptsOrig os b = .ok b' ∧ Inv b' ∧ contents b' = encOpts os.reverse ++ contents b :=
  serializeOptsIn_eq os b h

theorem len_putBe16 (v : Nat) : (putBe16 v).length = 2 := rfl
theorem len_putBe32 (v : Nat) : (putBe32 v).length = 4 := rfl

theorem serializeEcho_eq (l : Echo) (b : SBuf) (o : SOpts) (h : Inv b) :
    serializeEcho l b o = .ok (step b (.prepend (hdrEcho l)), l) := by
  unfold serializeEcho
  rw [withWindow_ok b 4 _ (hdrEcho l) h _ (by simp [hdrEcho, len_putBe16])]
  · rfl
  · intro buf0 hb
    rw [put16R_at buf0 [] buf0 _ 0 rfl rfl (by omega)]
    simp only [Res.bind_ok]
    rw [put16R_at _ (putBe16 l.identifier) (buf0.drop 2) _ 2 (by simp) rfl
      (by simp [List.length_drop]; omega)]
    rw [drop_all _ _ (by simp [List.length_drop]; omega)]
    simp [hdrEcho]

/-- Common tail of the five NDP messages: options, then a fixed header window. -/
theorem ndp_tail {α : Type} (os : List Opt) (b : SBuf) (n : Nat) (prog : Bytes → Res Bytes)
    (hdr : Bytes) (l : α) (h : Inv b)
    (hp : ∀ buf0 : Bytes, buf0.length = n → prog buf0 = .ok hdr) (hl : hdr.length = n) :
    ∃ b', (do let b0 ← serializeOpts os b
              let b' ← withWindow b0 n prog
              pure (b', l) : Res (SBuf × α)) = .ok (b', l) ∧ Inv b' ∧
          contents b' = hdr ++ encOpts os ++ contents b := by
  obtain ⟨b0, e, hi, hc⟩ := serializeOpts_eq os b h
  refine ⟨step b0 (.prepend hdr), ?_, inv_step' b0 _ hi, ?_⟩
  · rw [e]; simp only [Res.bind_ok]
    rw [withWindow_ok b0 n prog hdr hi hp hl]; rfl
  · rw [contents_step_prepend b0 _ hi, hc, List.append_assoc]

theorem progRS (buf0 : Bytes) (hb : buf0.length = 4) : putR buf0 0 (zeros 4) = .ok (zeros 4) := by
  rw [putR_at buf0 [] buf0 _ 0 rfl rfl (by simp [zeros]; omega)]
  rw [drop_all _ _ (by simp [zeros]; omega)]
  simp

theorem serializeRS_eq (l : RS) (b : SBuf) (o : SOpts) (h : Inv b) :
    ∃ b', serializeRS l b o = .ok (b', l) ∧ Inv b' ∧
      contents b' = zeros 4 ++ encOpts l.options ++ contents b := by
  unfold serializeRS
  exact ndp_tail l.options b 4 _ (zeros 4) l h progRS (by simp [zeros])

theorem progRA (l : RA) (buf0 : Bytes) (hb : buf0.length = 12) :
    (do let buf ← setR buf0 0 (u8 l.hopLimit)
        let buf ← setR buf 1 (u8 l.flags)
        let buf ← put16R buf 2 l.routerLifetime
        let buf ← put32R buf 4 l.reachableTime
        put32R buf 8 l.retransTimer) = .ok (hdrRA l) := by
  rw [setR_at buf0 [] buf0 _ 0 rfl rfl (by omega)]
  simp only [Res.bind_ok]
  rw [setR_at _ [u8 l.hopLimit] (buf0.drop 1) _ 1 (by simp) rfl (by simp [List.length_drop]; omega)]
  simp only [Res.bind_ok]
  rw [put16R_at _ [u8 l.hopLimit, u8 l.flags] (buf0.drop 2) _ 2 (by simp) rfl
    (by simp [List.length_drop]; omega)]
  simp only [Res.bind_ok]
  rw [put32R_at _ ([u8 l.hopLimit, u8 l.flags] ++ putBe16 l.routerLifetime) (buf0.drop 4) _ 4
    (by simp) (by simp [len_putBe16]) (by simp [List.length_drop]; omega)]
  simp only [Res.bind_ok]
  rw [put32R_at _ ([u8 l.hopLimit, u8 l.flags] ++ putBe16 l.routerLifetime ++ putBe32 l.reachableTime)
    (buf0.drop 8) _ 8 (by simp) (by simp [len_putBe16, len_putBe32])
    (by simp [List.length_drop]; omega)]
  rw [drop_all _ _ (by simp [List.length_drop]; omega)]
  simp [hdrRA]

theorem hdrRA_length (l : RA) : (hdrRA l).length = 12 := by
  simp [hdrRA, len_putBe16, len_putBe32]

theorem serializeRA_eq (l : RA) (b : SBuf) (o : SOpts) (h : Inv b) :
    ∃ b', serializeRA l b o = .ok (b', l) ∧ Inv b' ∧
      contents b' = hdrRA l ++ encOpts l.options ++ contents b := by
  unfold serializeRA
  exact ndp_tail l.options b 12 _ (hdrRA l) l h (progRA l) (hdrRA_length l)

theorem progNS (l : NS) (ht : l.targetAddress.length = 16) (buf0 : Bytes) (hb : buf0.length = 20) :
    (do let buf ← putR buf0 0 (zeros 4)
        putR buf 4 l.targetAddress) = .ok (hdrNS l) := by
  rw [putR_at buf0 [] buf0 _ 0 rfl rfl (by simp [zeros]; omega)]
  simp only [Res.bind_ok]
  rw [putR_at _ (zeros 4) (buf0.drop 4) _ 4 (by simp [zeros]) (by simp [zeros])
    (by simp [List.length_drop]; omega)]
  rw [drop_all _ _ (by simp [List.length_drop]; omega)]
  simp [hdrNS]

theorem serializeNS_eq (l : NS) (b : SBuf) (o : SOpts) (h : Inv b)
    (ht : l.targetAddress.length = 16) :
    ∃ b', serializeNS l b o = .ok (b', l) ∧ Inv b' ∧
      contents b' = hdrNS l ++ encOpts l.options ++ contents b := by
  unfold serializeNS
  rw [if_neg (by simp [isIPv6, ht])]
  exact ndp_tail l.options b 20 _ (hdrNS l) l h (progNS l ht) (by simp [hdrNS, zeros, ht])

theorem serializeNS_err (l : NS) (b : SBuf) (o : SOpts) (ht : l.targetAddress.length ≠ 16) :
    serializeNS l b o = .err "target address" := by
  unfold serializeNS
  rw [if_pos (by simp [isIPv6, ht])]

theorem progNA (l : NA) (ht : l.targetAddress.length = 16) (buf0 : Bytes) (hb : buf0.length = 20) :
    (do let buf ← setR buf0 0 (u8 l.flags)
        let buf ← putR buf 1 (zeros 3)
        putR buf 4 l.targetAddress) = .ok (hdrNA l) := by
  rw [setR_at buf0 [] buf0 _ 0 rfl rfl (by omega)]
  simp only [Res.bind_ok]
  rw [putR_at _ [u8 l.flags] (buf0.drop 1) _ 1 (by simp) rfl
    (by simp [zeros, List.length_drop]; omega)]
  simp only [Res.bind_ok]
  rw [putR_at _ ([u8 l.flags] ++ zeros 3) (buf0.drop 4) _ 4 (by simp [zeros]) (by simp [zeros])
    (by simp [List.length_drop]; omega)]
  rw [drop_all _ _ (by simp [List.length_drop]; omega)]
  simp [hdrNA]

theorem serializeNA_eq (l : NA) (b : SBuf) (o : SOpts) (h : Inv b)
    (ht : l.targetAddress.length = 16) :
    ∃ b', serializeNA l b o = .ok (b', l) ∧ Inv b' ∧
      contents b' = hdrNA l ++ encOpts l.options ++ contents b := by
  unfold serializeNA
  rw [if_neg (by simp [isIPv6, ht])]
  exact ndp_tail l.options b 20 _ (hdrNA l) l h (progNA l ht) (by simp [hdrNA, zeros, ht])

theorem serializeNA_err (l : NA) (b : SBuf) (o : SOpts) (ht : l.targetAddress.length ≠ 16) :
    serializeNA l b o = .err "target address" := by
  unfold serializeNA
  rw [if_pos (by simp [isIPv6, ht])]

theorem progRedirect (l : Redirect) (ht : l.targetAddress.length = 16)
    (hd : l.destinationAddress.length = 16) (buf0 : Bytes) (hb : buf0.length = 36) :
    (do let buf ← putR buf0 0 (zeros 4)
        let buf ← putR buf 4 l.targetAddress
        putR buf 20 l.destinationAddress) = .ok (hdrRedirect l) := by
  rw [putR_at buf0 [] buf0 _ 0 rfl rfl (by simp [zeros]; omega)]
  simp only [Res.bind_ok]
  rw [putR_at _ (zeros 4) (buf0.drop 4) _ 4 (by simp [zeros]) (by simp [zeros])
    (by simp [List.length_drop]; omega)]
  simp only [Res.bind_ok]
  rw [putR_at _ (zeros 4 ++ l.targetAddress) (buf0.drop 20) _ 20 (by simp [zeros, ht])
    (by simp [zeros, ht]) (by simp [List.length_drop]; omega)]
  rw [drop_all _ _ (by simp [List.length_drop]; omega)]
  simp [hdrRedirect]

theorem serializeRedirect_eq (l : Redirect) (b : SBuf) (o : SOpts) (h : Inv b)
    (ht : l.targetAddress.length = 16) (hd : l.destinationAddress.length = 16) :
    ∃ b', serializeRedirect l b o = .ok (b', l) ∧ Inv b' ∧
      contents b' = hdrRedirect l ++ encOpts l.options ++ contents b := by
  unfold serializeRedirect
  rw [if_neg (by simp [isIPv6, ht]), if_neg (by simp [isIPv6, hd])]
  exact ndp_tail l.options b 36 _ (hdrRedirect l) l h (progRedirect l ht hd)
    (by simp [hdrRedirect, zeros, ht, hd])

theorem serializeRedirect_err (l : Redirect) (b : SBuf) (o : SOpts)
    (ht : l.targetAddress.length ≠ 16 ∨ l.destinationAddress.length ≠ 16) :
    ∃ e, serializeRedirect l b o = .err e := by
  unfold serializeRedirect
  by_cases h1 : l.targetAddress.length = 16
  · have h2 : l.destinationAddress.length ≠ 16 := by
      cases ht with
      | inl h => exact absurd h1 h
      | inr h => exact h
    rw [if_neg (by simp [isIPv6, h1]), if_pos (by simp [isIPv6, h2])]
    exact ⟨_, rfl⟩
  · rw [if_pos (by simp [isIPv6, h1])]
    exact ⟨_, rfl⟩

end Gp.Icmp

namespace Gp.Icmp
open Gp Gp.SBuf Gp.C18

/-! ## ICMPv4 / ICMPv6 headers (stores out of order, checksum read back from the buffer) -/

theorem len8 (l : Bytes) (h : l.length = 8) :
    ∃ a0 a1 a2 a3 a4 a5 a6 a7, l = [a0, a1, a2, a3, a4, a5, a6, a7] := by
  match l, h with
  | [a0, a1, a2, a3, a4, a5, a6, a7], _ => exact ⟨a0, a1, a2, a3, a4, a5, a6, a7, rfl⟩

theorem len4 (l : Bytes) (h : l.length = 4) : ∃ a0 a1 a2 a3, l = [a0, a1, a2, a3] := by
  match l, h with
  | [a0, a1, a2, a3], _ => exact ⟨a0, a1, a2, a3, rfl⟩

/-- The three unconditional stores of ICMPv4.SerializeTo. -/
theorem progICMPv4_a (l : ICMPv4) (buf0 : Bytes) (hb : buf0.length = 8) :
    (do let buf ← put16R buf0 0 l.typeCode
        let buf ← put16R buf 4 l.id
        put16R buf 6 l.seq) =
      .ok (putBe16 l.typeCode ++ (buf0.drop 2).take 2 ++ putBe16 l.id ++ putBe16 l.seq) := by
  obtain ⟨a0, a1, a2, a3, a4, a5, a6, a7, rfl⟩ := len8 buf0 hb
  simp [put16R, put, putBe16]

/-- … followed by `bytes[2] = 0; bytes[3] = 0`. -/
theorem progICMPv4_zero (l : ICMPv4) (x : Bytes) (hx : x.length = 2) :
    (do let buf ← setR (putBe16 l.typeCode ++ x ++ putBe16 l.id ++ putBe16 l.seq) 2 0
        setR buf 3 0) = .ok (hdrICMPv4 { l with checksum := 0 }) := by
  match x, hx with
  | [x0, x1], _ => simp [setR, put, putBe16, hdrICMPv4, u8]

/-- … and the final `PutUint16(bytes[2:], checksum)`. -/
theorem progICMPv4_ck (l : ICMPv4) (x : Bytes) (hx : x.length = 2) (ck : Nat) :
    put16R (putBe16 l.typeCode ++ x ++ putBe16 l.id ++ putBe16 l.seq) 2 ck =
      .ok (hdrICMPv4 { l with checksum := ck }) := by
  match x, hx with
  | [x0, x1], _ => simp [put16R, put, putBe16, hdrICMPv4]

theorem hdrICMPv4_length (l : ICMPv4) : (hdrICMPv4 l).length = 8 := rfl
theorem hdrICMPv6_length (l : ICMPv6) : (hdrICMPv6 l).length = 4 := rfl

theorem step_prepend_fill8 (b : SBuf) (vs : Bytes) (h : vs.length = 8) :
    fill (prepend b 8).1 (prepend b 8).2 vs = step b (.prepend vs) := by
  rw [← h]; rfl

theorem step_prepend_fill4 (b : SBuf) (vs : Bytes) (h : vs.length = 4) :
    fill (prepend b 4).1 (prepend b 4).2 vs = step b (.prepend vs) := by
  rw [← h]; rfl

theorem serializeICMPv4_eq (l : ICMPv4) (b : SBuf) (o : SOpts) (h : Inv b) :
    serializeICMPv4 l b o =
      .ok (step b (.prepend (hdrICMPv4 (fixICMPv4 l (contents b) o))), fixICMPv4 l (contents b) o) := by
  have hw := winBytes_length b 8 h
  have hi := inv_prepend' b 8 h
  have hs := prepend_start_len b 8 h
  have hoff : (prepend b 8).2.off + 8 ≤ (prepend b 8).1.mem.length := by
    obtain ⟨_, i2, _⟩ := hi
    simp only [prepend_win]; omega
  obtain ⟨a0, a1, a2, a3, a4, a5, a6, a7, hW⟩ := len8 _ hw
  show (do
      let buf ← put16R (winBytes (prepend b 8).1 (prepend b 8).2) 0 l.typeCode
      let buf ← put16R buf 4 l.id
      let buf ← put16R buf 6 l.seq
      if o.csum then do
        let buf ← setR buf 2 0
        let buf ← setR buf 3 0
        let b2 := fill (prepend b 8).1 (prepend b 8).2 buf
        let ck := Cksum.fold (Cksum.compute (contents b2) 0)
        let buf ← put16R buf 2 ck
        pure (fill b2 (prepend b 8).2 buf, { l with checksum := ck })
      else do
        let buf ← put16R buf 2 l.checksum
        pure (fill (prepend b 8).1 (prepend b 8).2 buf, l)) = _
  rw [hW]
  have e1 : put16R [a0, a1, a2, a3, a4, a5, a6, a7] 0 l.typeCode =
      .ok (putBe16 l.typeCode ++ [a2, a3, a4, a5, a6, a7]) := rfl
  have e2 : put16R (putBe16 l.typeCode ++ [a2, a3, a4, a5, a6, a7]) 4 l.id =
      .ok (putBe16 l.typeCode ++ [a2, a3] ++ putBe16 l.id ++ [a6, a7]) := rfl
  have e3 : put16R (putBe16 l.typeCode ++ [a2, a3] ++ putBe16 l.id ++ [a6, a7]) 6 l.seq =
      .ok (putBe16 l.typeCode ++ [a2, a3] ++ putBe16 l.id ++ putBe16 l.seq) := rfl
  rw [e1, Res.bind_ok, e2, Res.bind_ok, e3, Res.bind_ok]
  cases hc : o.csum
  · have e4 : put16R (putBe16 l.typeCode ++ [a2, a3] ++ putBe16 l.id ++ putBe16 l.seq) 2 l.checksum =
        .ok (hdrICMPv4 l) := rfl
    simp only [fixICMPv4, hc, Bool.false_eq_true, if_false]
    rw [e4, Res.bind_ok, step_prepend_fill8 b _ (hdrICMPv4_length l)]
    rfl
  · have e4 : setR (putBe16 l.typeCode ++ [a2, a3] ++ putBe16 l.id ++ putBe16 l.seq) 2 0 =
        .ok (putBe16 l.typeCode ++ [0, a3] ++ putBe16 l.id ++ putBe16 l.seq) := rfl
    have e5 : setR (putBe16 l.typeCode ++ [0, a3] ++ putBe16 l.id ++ putBe16 l.seq) 3 0 =
        .ok (hdrICMPv4 { l with checksum := 0 }) := by
      simp [setR, put, putBe16, hdrICMPv4, u8]
    have e6 : ∀ ck, put16R (hdrICMPv4 { l with checksum := 0 }) 2 ck =
        .ok (hdrICMPv4 { l with checksum := ck }) := fun _ => rfl
    simp only [fixICMPv4, hc, if_true]
    rw [e4, Res.bind_ok, e5, Res.bind_ok]
    simp only [e6, Res.bind_ok]
    rw [step_prepend_fill8 b _ (hdrICMPv4_length _), contents_step_prepend b _ h]
    rw [← step_prepend_fill8 b (hdrICMPv4 { l with checksum := 0 }) (hdrICMPv4_length _)]
    rw [fill_fill _ _ _ _ (by rw [hdrICMPv4_length, hdrICMPv4_length])
      (by rw [hdrICMPv4_length]; exact hoff)]
    rw [step_prepend_fill8 b _ (hdrICMPv4_length _)]
    rfl

theorem serializeICMPv6_eq (l : ICMPv6) (b : SBuf) (o : SOpts) (h : Inv b) :
    serializeICMPv6 l b o =
      match fixICMPv6 l (contents b) o with
      | none => .err "no network layer"
      | some l' => .ok (step b (.prepend (hdrICMPv6 l')), l') := by
  have hw := winBytes_length b 4 h
  have hi := inv_prepend' b 4 h
  have hs := prepend_start_len b 4 h
  have hoff : (prepend b 4).2.off + 4 ≤ (prepend b 4).1.mem.length := by
    obtain ⟨_, i2, _⟩ := hi
    simp only [prepend_win]; omega
  obtain ⟨a0, a1, a2, a3, hW⟩ := len4 _ hw
  show (do
      let buf ← put16R (winBytes (prepend b 4).1 (prepend b 4).2) 0 l.typeCode
      if o.csum then do
        let buf ← setR buf 2 0
        let buf ← setR buf 3 0
        let b2 := fill (prepend b 4).1 (prepend b 4).2 buf
        match l.pseudo.sum with
        | none => .err "no network layer"
        | some ps =>
          let ck := Cksum.fold (Cksum.l4sum ps Gen.Icmp.ipProtocolICMPv6 (contents b2))
          let buf ← put16R buf 2 ck
          pure (fill b2 (prepend b 4).2 buf, { l with checksum := ck })
      else do
        let buf ← put16R buf 2 l.checksum
        pure (fill (prepend b 4).1 (prepend b 4).2 buf, l)) = _
  rw [hW]
  have e1 : put16R [a0, a1, a2, a3] 0 l.typeCode = .ok (putBe16 l.typeCode ++ [a2, a3]) := rfl
  rw [e1, Res.bind_ok]
  cases hc : o.csum
  · have e4 : put16R (putBe16 l.typeCode ++ [a2, a3]) 2 l.checksum = .ok (hdrICMPv6 l) := rfl
    simp only [fixICMPv6, hc, Bool.false_eq_true, if_false]
    rw [e4, Res.bind_ok, step_prepend_fill4 b _ (hdrICMPv6_length l)]
    rfl
  · have e4 : setR (putBe16 l.typeCode ++ [a2, a3]) 2 0 = .ok (putBe16 l.typeCode ++ [0, a3]) := rfl
    have e5 : setR (putBe16 l.typeCode ++ [0, a3]) 3 0 = .ok (hdrICMPv6 { l with checksum := 0 }) := by
      simp [setR, put, putBe16, hdrICMPv6, u8]
    have e6 : ∀ ck, put16R (hdrICMPv6 { l with checksum := 0 }) 2 ck =
        .ok (hdrICMPv6 { l with checksum := ck }) := fun _ => rfl
    simp only [fixICMPv6, hc, if_true]
    rw [e4, Res.bind_ok, e5, Res.bind_ok]
    cases hp : l.pseudo.sum with
    | none => rfl
    | some ps =>
      simp only [e6, Res.bind_ok]
      rw [step_prepend_fill4 b _ (hdrICMPv6_length _), contents_step_prepend b _ h]
      rw [← step_prepend_fill4 b (hdrICMPv6 { l with checksum := 0 }) (hdrICMPv6_length _)]
      rw [fill_fill _ _ _ _ (by rw [hdrICMPv6_length, hdrICMPv6_length])
        (by rw [hdrICMPv6_length]; exact hoff)]
      rw [step_prepend_fill4 b _ (hdrICMPv6_length _)]
      rfl

/-! ## One pure function per serializer: `outOf (serializeX l b o) = specX l (contents b) o` -/

def specICMPv4 (l : ICMPv4) (p : Bytes) (o : SOpts) : Res (Bytes × ICMPv4) :=
  .ok (hdrICMPv4 (fixICMPv4 l p o) ++ p, fixICMPv4 l p o)

def specICMPv6 (l : ICMPv6) (p : Bytes) (o : SOpts) : Res (Bytes × ICMPv6) :=
  match fixICMPv6 l p o with
  | none => .err "no network layer"
  | some l' => .ok (hdrICMPv6 l' ++ p, l')

def specEcho (l : Echo) (p : Bytes) (_o : SOpts) : Res (Bytes × Echo) := .ok (hdrEcho l ++ p, l)

def specRS (l : RS) (p : Bytes) (_o : SOpts) : Res (Bytes × RS) :=
  .ok (zeros 4 ++ encOpts l.options ++ p, l)

def specRA (l : RA) (p : Bytes) (_o : SOpts) : Res (Bytes × RA) :=
  .ok (hdrRA l ++ encOpts l.options ++ p, l)

def specNS (l : NS) (p : Bytes) (_o : SOpts) : Res (Bytes × NS) :=
  if l.targetAddress.length = 16 then .ok (hdrNS l ++ encOpts l.options ++ p, l)
  else .err "target address"

def specNA (l : NA) (p : Bytes) (_o : SOpts) : Res (Bytes × NA) :=
  if l.targetAddress.length = 16 then .ok (hdrNA l ++ encOpts l.options ++ p, l)
  else .err "target address"

def specRedirect (l : Redirect) (p : Bytes) (_o : SOpts) : Res (Bytes × Redirect) :=
  if l.targetAddress.length = 16 then
    (if l.destinationAddress.length = 16 then .ok (hdrRedirect l ++ encOpts l.options ++ p, l)
     else .err "destination address")
  else .err "target address"

def liftSpec {α : Type} (f : α → AnyLayer) (r : Res (Bytes × α)) : Res (Bytes × AnyLayer) :=
  match r with
  | .ok (bs, l) => .ok (bs, f l)
  | .err e => .err e
  | .panic k => .panic k

/-- SerializeTo of any of the eight layers as a pure function of layer, payload, options. -/
def specAny : AnyLayer → Bytes → SOpts → Res (Bytes × AnyLayer)
  | .icmp4 l, p, o => liftSpec .icmp4 (specICMPv4 l p o)
  | .icmp6 l, p, o => liftSpec .icmp6 (specICMPv6 l p o)
  | .echo l, p, o => liftSpec .echo (specEcho l p o)
  | .rs l, p, o => liftSpec .rs (specRS l p o)
  | .ra l, p, o => liftSpec .ra (specRA l p o)
  | .ns l, p, o => liftSpec .ns (specNS l p o)
  | .na l, p, o => liftSpec .na (specNA l p o)
  | .redirect l, p, o => liftSpec .redirect (specRedirect l p o)

theorem outOf_ok_iff {α : Type} (r : Res (SBuf × α)) (b' : SBuf) (l' : α) (h : r = .ok (b', l')) :
    outOf r = .ok (contents b', l') := by subst h; rfl

/-- The serializer of any kind on a buffer satisfying the C18 invariant: outcome = `specAny`
    of the buffer's contents, and the resulting buffer satisfies the invariant again. -/
theorem serializeAny_spec (l : AnyLayer) (b : SBuf) (o : SOpts) (h : Inv b) :
    outOf (l.serialize b o) = specAny l (contents b) o ∧
    (∀ b' l', l.serialize b o = .ok (b', l') → Inv b') := by
  cases l with
  | icmp4 v =>
    simp only [AnyLayer.serialize, serializeICMPv4_eq v b o h, Res.bind_ok, specAny, specICMPv4, liftSpec]
    refine ⟨?_, ?_⟩
    · simp only [outOf, pure, contents_step_prepend b _ h]
    · intro b' l' e; cases e; exact inv_step' b _ h
  | icmp6 v =>
    simp only [AnyLayer.serialize, serializeICMPv6_eq v b o h, specAny, specICMPv6]
    cases hf : fixICMPv6 v (contents b) o with
    | none => simp only [liftSpec]; exact ⟨rfl, fun _ _ e => by cases e⟩
    | some v' =>
      simp only [Res.bind_ok, liftSpec]
      refine ⟨?_, ?_⟩
      · simp only [outOf, pure, contents_step_prepend b _ h]
      · intro b' l' e; cases e; exact inv_step' b _ h
  | echo v =>
    simp only [AnyLayer.serialize, serializeEcho_eq v b o h, Res.bind_ok, specAny, specEcho, liftSpec]
    refine ⟨?_, ?_⟩
    · simp only [outOf, pure, contents_step_prepend b _ h]
    · intro b' l' e; cases e; exact inv_step' b _ h
  | rs v =>
    obtain ⟨b1, e, hi, hc⟩ := serializeRS_eq v b o h
    simp only [AnyLayer.serialize, e, Res.bind_ok, specAny, specRS, liftSpec]
    refine ⟨?_, ?_⟩
    · simp only [outOf, pure, hc]
    · intro b' l' e'; cases e'; exact hi
  | ra v =>
    obtain ⟨b1, e, hi, hc⟩ := serializeRA_eq v b o h
    simp only [AnyLayer.serialize, e, Res.bind_ok, specAny, specRA, liftSpec]
    refine ⟨?_, ?_⟩
    · simp only [outOf, pure, hc]
    · intro b' l' e'; cases e'; exact hi
  | ns v =>
    by_cases ht : v.targetAddress.length = 16
    · obtain ⟨b1, e, hi, hc⟩ := serializeNS_eq v b o h ht
      simp only [AnyLayer.serialize, e, Res.bind_ok, specAny, specNS, ht, if_true, liftSpec]
      refine ⟨?_, ?_⟩
      · simp only [outOf, pure, hc]
      · intro b' l' e'; cases e'; exact hi
    · simp only [AnyLayer.serialize, serializeNS_err v b o ht, specAny, specNS, ht, if_false, liftSpec]
      exact ⟨rfl, fun _ _ e => by cases e⟩
  | na v =>
    by_cases ht : v.targetAddress.length = 16
    · obtain ⟨b1, e, hi, hc⟩ := serializeNA_eq v b o h ht
      simp only [AnyLayer.serialize, e, Res.bind_ok, specAny, specNA, ht, if_true, liftSpec]
      refine ⟨?_, ?_⟩
      · simp only [outOf, pure, hc]
      · intro b' l' e'; cases e'; exact hi
    · simp only [AnyLayer.serialize, serializeNA_err v b o ht, specAny, specNA, ht, if_false, liftSpec]
      exact ⟨rfl, fun _ _ e => by cases e⟩
  | redirect v =>
    by_cases ht : v.targetAddress.length = 16
    · by_cases hd : v.destinationAddress.length = 16
      · obtain ⟨b1, e, hi, hc⟩ := serializeRedirect_eq v b o h ht hd
        simp only [AnyLayer.serialize, e, Res.bind_ok, specAny, specRedirect, ht, hd, if_true, liftSpec]
        refine ⟨?_, ?_⟩
        · simp only [outOf, pure, hc]
        · intro b' l' e'; cases e'; exact hi
      · have : serializeRedirect v b o = .err "destination address" := by
          unfold serializeRedirect
          rw [if_neg (by simp [isIPv6, ht]), if_pos (by simp [isIPv6, hd])]
        simp only [AnyLayer.serialize, this, specAny, specRedirect, ht, hd, if_true, if_false, liftSpec]
        exact ⟨rfl, fun _ _ e => by cases e⟩
    · have : serializeRedirect v b o = .err "target address" := by
        unfold serializeRedirect
        rw [if_pos (by simp [isIPv6, ht])]
      simp only [AnyLayer.serialize, this, specAny, specRedirect, ht, if_false, liftSpec]
      exact ⟨rfl, fun _ _ e => by cases e⟩

/-- A second call on the mutated layer over the same payload is a fixpoint of the spec. -/
theorem spec_idempotent (l l' : AnyLayer) (p out : Bytes) (o : SOpts)
    (e : specAny l p o = .ok (out, l')) : specAny l' p o = .ok (out, l') := by
  cases l with
  | icmp4 v =>
    simp only [specAny, specICMPv4, liftSpec] at e
    cases e
    simp only [specAny, specICMPv4, liftSpec]
    have : fixICMPv4 (fixICMPv4 v p o) p o = fixICMPv4 v p o := by
      unfold fixICMPv4; split <;> rfl
    rw [this]
  | icmp6 v =>
    simp only [specAny, specICMPv6] at e
    cases hf : fixICMPv6 v p o with
    | none => rw [hf] at e; cases e
    | some v' =>
      rw [hf] at e; simp only [liftSpec] at e; cases e
      have : fixICMPv6 v' p o = some v' := by
        unfold fixICMPv6 at hf ⊢
        split at hf
        · rename_i hc
          rw [if_pos hc]
          cases hp : v.pseudo.sum with
          | none => rw [hp] at hf; cases hf
          | some ps =>
            rw [hp] at hf; simp only [Option.some.injEq] at hf
            subst hf
            simp only [hp]
        · rename_i hc
          rw [if_neg hc]
      simp only [specAny, specICMPv6, this, liftSpec]
  | echo v => simp only [specAny, specEcho, liftSpec] at e; cases e; rfl
  | rs v => simp only [specAny, specRS, liftSpec] at e; cases e; rfl
  | ra v => simp only [specAny, specRA, liftSpec] at e; cases e; rfl
  | ns v =>
    simp only [specAny, specNS] at e
    split at e
    · rename_i ht; simp only [liftSpec] at e; cases e; simp only [specAny, specNS, ht, if_true, liftSpec]
    · cases e
  | na v =>
    simp only [specAny, specNA] at e
    split at e
    · rename_i ht; simp only [liftSpec] at e; cases e; simp only [specAny, specNA, ht, if_true, liftSpec]
    · cases e
  | redirect v =>
    simp only [specAny, specRedirect] at e
    split at e
    · rename_i ht
      split at e
      · rename_i hd; simp only [liftSpec] at e; cases e
        simp only [specAny, specRedirect, ht, hd, if_true, liftSpec]
      · cases e
    · cases e


end Gp.Icmp
