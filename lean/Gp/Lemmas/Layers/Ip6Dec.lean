import Gp.Lemmas.Layers.Ip6
/-
  (*IPv6).DecodeFromBytes: closed form on the bytes (`ip6Spec`), equality with the model
  (`decodeIPv6_eq_spec`), panic freedom.  Core Lean only.
-/
namespace Gp.Ip6
open Gp Gp.Gen.Ip6

theorem rd16_drop (v : View) (a : Nat) (x y : UInt8) (t : Bytes) (h : v.b.drop a = x :: y :: t) :
    rd16 v a = .ok (be16 x y) := by
  have hl : a + 2 ≤ v.len := by
    have := congrArg List.length h
    simp only [List.length_drop, List.length_cons] at this
    unfold View.len; omega
  unfold rd16
  rw [View.slice_le v a (a + 2) (by omega) hl, h]
  have : a + 2 - a = 2 := by omega
  simp [this, View.idx, index]

theorem rd32_drop (v : View) (a : Nat) (x y z w : UInt8) (t : Bytes)
    (h : v.b.drop a = x :: y :: z :: w :: t) : rd32 v a = .ok (be32 x y z w) := by
  have hl : a + 4 ≤ v.len := by
    have := congrArg List.length h
    simp only [List.length_drop, List.length_cons] at this
    unfold View.len; omega
  unfold rd32
  rw [View.slice_le v a (a + 4) (by omega) hl, h]
  have : a + 4 - a = 4 := by omega
  simp [this, View.idx, index]

/-- The straight-line header parse on at least 40 bytes. -/
theorem parseHdr_ok (b0 b1 b2 b3 b4 b5 b6 b7 : UInt8) (rest x : Bytes) (h : 32 ≤ rest.length) :
    parseHdr ⟨b0 :: b1 :: b2 :: b3 :: b4 :: b5 :: b6 :: b7 :: rest, x⟩ =
      .ok { version := b0.toNat / 16, tc := (be16 b0 b1 / 16) % 256,
            fl := be32 b0 b1 b2 b3 % 1048576, length := be16 b4 b5, nh := b6.toNat, hl := b7.toNat,
            src := rest.take 16, dst := (rest.take 32).drop 16,
            contents := b0 :: b1 :: b2 :: b3 :: b4 :: b5 :: b6 :: b7 :: rest.take 32,
            payload := ⟨rest.drop 32, x⟩ } := by
  unfold parseHdr
  have hlen : (View.mk (b0 :: b1 :: b2 :: b3 :: b4 :: b5 :: b6 :: b7 :: rest) x).len = rest.length + 8 := by
    simp [View.len]
  rw [View.idx_lt _ 0 (by omega), rd16_drop _ 0 b0 b1 _ rfl, rd32_drop _ 0 b0 b1 b2 b3 _ rfl,
    rd16_drop _ 4 b4 b5 _ rfl, View.idx_lt _ 6 (by omega), View.idx_lt _ 7 (by omega),
    View.slice_le _ 8 24 (by omega) (by omega), View.slice_le _ 24 40 (by omega) (by omega),
    View.sliceTo_le _ 40 (by omega), View.sliceFrom_le _ 40 (by omega)]
  simp [List.take_drop]
  exact ⟨rfl, rfl, rfl⟩

theorem clampPayload_eq (p x : Bytes) (n : Nat) :
    clampPayload ⟨p, x⟩ n = .ok (p.take n, decide (n > p.length)) := by
  unfold clampPayload
  by_cases h : n > p.length
  · have h' : n > (View.mk p x).len := h
    rw [if_pos h', View.sliceTo_le _ _ (Nat.le_refl _)]
    simp only [View.len, List.take_length, h, decide_true]
    rw [List.take_of_length_le (by omega)]
  · have h' : ¬ n > (View.mk p x).len := h
    rw [if_neg h', View.sliceTo_le _ _ (by simp [View.len]; omega)]
    simp [h]

theorem getJumboLength_ne_panic (h : TlvExt) (k : PanicKind) : getJumboLength h ≠ .panic k := by
  unfold getJumboLength
  split
  · simp
  · split
    · dsimp only
      split <;> simp
    · simp

/-! ## Closed form of (*IPv6).DecodeFromBytes -/

/-- `pEnd := …; if pEnd > len(Payload) { SetTruncated; pEnd = len }; Payload = Payload[:pEnd]` -/
def ip6Finish (l : IPv6) (p : Bytes) (tr : Bool) (pEnd : Nat) : DecOut IPv6 :=
  ⟨{ l with payload := p.take pEnd }, tr || decide (pEnd > p.length), .ok ()⟩

/-- The hop-by-hop branch, given the outcome `ho` of decoding the hop-by-hop header on `pay`. -/
def ip6HbhSpec (l1 : IPv6) (pay : Bytes) (ho : DecOut TlvExt) : DecOut IPv6 :=
  let l2 : IPv6 := { l1 with hbh := ho.layer }
  match ho.res with
  | .panic k => ⟨l2, ho.tr, .panic k⟩
  | .err e => ⟨l2, ho.tr, .err e⟩
  | .ok () =>
    let l3 : IPv6 := { l2 with hopByHop := some ho.layer }
    match getJumboLength ho.layer with
    | .panic k => ⟨l3, ho.tr, .panic k⟩
    | .err e => ⟨l3, ho.tr, .err e⟩
    | .ok (pEnd, jumbo) =>
      if jumbo = true ∧ l3.length = 0 then ip6Finish l3 pay ho.tr pEnd
      else if jumbo = true ∧ l3.length ≠ 0 then
        ⟨l3, ho.tr, .err "IPv6 has jumbo length and IPv6 length is not 0"⟩
      else if jumbo = false ∧ l3.length = 0 then
        ⟨l3, ho.tr, .err "IPv6 length 0, but HopByHop header does not have jumbogram option"⟩
      else
        let al := ho.layer.base.actualLength
        let l4 : IPv6 := { l3 with payload := pay.drop al }
        if l4.length < al then ⟨l4, ho.tr, .err "IPv6 length less than hop-by-hop header length"⟩
        else ip6Finish l4 (pay.drop al) ho.tr (l4.length - al)

def ip6Spec (old : IPv6) (b : Bytes) : DecOut IPv6 :=
  match b with
  | b0 :: b1 :: b2 :: b3 :: b4 :: b5 :: b6 :: b7 :: rest =>
    if rest.length < 32 then ⟨old, true, .err "Invalid ip6 header"⟩
    else
      let pay := rest.drop 32
      let l1 : IPv6 :=
        { old with version := b0.toNat / 16, trafficClass := (be16 b0 b1 / 16) % 256,
                   flowLabel := be32 b0 b1 b2 b3 % 1048576, length := be16 b4 b5,
                   nextHeader := b6.toNat, hopLimit := b7.toNat, srcIP := rest.take 16,
                   dstIP := (rest.take 32).drop 16, hopByHop := none,
                   contents := b0 :: b1 :: b2 :: b3 :: b4 :: b5 :: b6 :: b7 :: rest.take 32,
                   payload := pay }
      if b6.toNat = ipProtocolIPv6HopByHop then ip6HbhSpec l1 pay (tlvExtSpec old.hbh pay)
      else ip6Finish l1 pay false l1.length
  | _ => ⟨old, true, .err "Invalid ip6 header"⟩

theorem short_of_not_cons8 (b : Bytes)
    (h : ∀ b0 b1 b2 b3 b4 b5 b6 b7 rest, b ≠ b0 :: b1 :: b2 :: b3 :: b4 :: b5 :: b6 :: b7 :: rest) :
    b.length < 8 := by
  match b with
  | [] | [_] | [_, _] | [_, _, _] | [_, _, _, _] | [_, _, _, _, _] | [_, _, _, _, _, _]
  | [_, _, _, _, _, _, _] => simp
  | b0 :: b1 :: b2 :: b3 :: b4 :: b5 :: b6 :: b7 :: rest => exact absurd rfl (h _ _ _ _ _ _ _ _ _)

theorem decodeIPv6_eq_spec (old : IPv6) (b x : Bytes) : decodeIPv6 old ⟨b, x⟩ = ip6Spec old b := by
  unfold ip6Spec
  split
  · rename_i b0 b1 b2 b3 b4 b5 b6 b7 rest
    unfold decodeIPv6
    by_cases hr : rest.length < 32
    · have : (View.mk (b0 :: b1 :: b2 :: b3 :: b4 :: b5 :: b6 :: b7 :: rest) x).len < 40 := by
        simp [View.len]; omega
      simp [hr, this]
    · have h40 : ¬ (View.mk (b0 :: b1 :: b2 :: b3 :: b4 :: b5 :: b6 :: b7 :: rest) x).len < 40 := by
        simp [View.len]; omega
      rw [if_neg h40, if_neg hr, parseHdr_ok _ _ _ _ _ _ _ _ _ _ (by omega)]
      simp only [decodeTlvExt_eq_spec, clampPayload_eq]
      by_cases hnh : b6.toNat = ipProtocolIPv6HopByHop
      · simp only [hnh, if_true]
        unfold ip6HbhSpec
        match hres : (tlvExtSpec old.hbh (rest.drop 32)).res with
        | .panic k => simp only [hres]
        | .err e => simp only [hres]
        | .ok () =>
          simp only [hres]
          obtain ⟨-, hal⟩ := tlvExtSpec_ok _ _ hres
          match getJumboLength (tlvExtSpec old.hbh (rest.drop 32)).layer with
          | .panic k => rfl
          | .err e => rfl
          | .ok (pEnd, jumbo) =>
            simp only
            split
            · rfl
            · split
              · rfl
              · split
                · rfl
                · rw [View.sliceFrom_le _ _ (by simpa [View.len] using hal)]
                  simp only [clampPayload_eq]
                  split <;> rfl
      · simp only [hnh, if_false]
        rfl
  · rename_i hne
    have hlt := short_of_not_cons8 b hne
    unfold decodeIPv6
    have : (View.mk b x).len < 40 := by simp [View.len]; omega
    simp [this]

end Gp.Ip6
