import Gp.Model.Layers.Llc
/-
  Helper lemmas for engine `lllc` (LLC + SNAP + STP codec), part 1: decoding.  Core Lean only.

  Section 1 holds the *definitions* that occur in the statements of the property theorems
  (functional specifications of the three DecodeFromBytes methods); the rest is proof machinery.
-/
namespace Gp.Llc
open Gp Gp.SBuf Gp.Gen.Llc

/-! ## 1. Definitions used in property statements -/

/-- Byte `i` of a byte string as a number (0 for a missing byte; only used where the byte exists). -/
def byteAt (v : Bytes) (i : Nat) : Nat := (v.getD i 0).toNat

/-- Big-endian 16-bit value at offset `i`. -/
def u16At (v : Bytes) (i : Nat) : Nat := be16 (v.getD i 0) (v.getD (i + 1) 0)

/-- Big-endian 32-bit value at offset `i`. -/
def u32At (v : Bytes) (i : Nat) : Nat :=
  be32 (v.getD i 0) (v.getD (i + 1) 0) (v.getD (i + 2) 0) (v.getD (i + 3) 0)

/-- The control field is two octets long (I format: bit 0 clear; S format: low bits 01). -/
def ctlTwoOctets (c : Nat) : Prop := c &&& 0x1 = 0 ∨ c &&& 0x3 = 0x1

instance (c : Nat) : Decidable (ctlTwoOctets c) := by unfold ctlTwoOctets; infer_instance

/-- What `LLC.DecodeFromBytes` computes from the receiver `old` and the visible bytes `v` (|v| ≥ 3).
    `old` only shows through on the error path (a two-octet control field cut off after one octet). -/
def llcDecSpec (old : LLC) (v : Bytes) : DecOut LLC :=
  let base : LLC :=
    { old with dsap := byteAt v 0 &&& 0xFE, ig := (byteAt v 0 &&& 0x1 != 0),
               ssap := byteAt v 1 &&& 0xFE, cr := (byteAt v 1 &&& 0x1 != 0), control := byteAt v 2 }
  if ctlTwoOctets (byteAt v 2) then
    if v.length < 4 then { layer := base, trunc := false, err := true }
    else
      { layer := { base with control := ((byteAt v 2 <<< 8) % 65536) ||| byteAt v 3,
                             contents := v.take 4, payload := v.drop 4 },
        trunc := false, err := false }
  else
    { layer := { base with contents := v.take 3, payload := v.drop 3 }, trunc := false, err := false }

/-- What `SNAP.DecodeFromBytes` computes from the visible bytes `v` (|v| ≥ 5). -/
def snapDecSpec (v : Bytes) : DecOut SNAP :=
  { layer := { contents := v.take 5, payload := v.drop 5, org := v.take 3, type := u16At v 3 },
    trunc := false, err := false }

/-- What `STP.DecodeFromBytes` computes from the visible bytes `v` (|v| ≥ 35). -/
def stpDecSpec (v : Bytes) : DecOut STP :=
  { layer :=
      { contents := v.take 35, payload := v.drop 35,
        protocolID := u16At v 0, version := byteAt v 2, type := byteAt v 3,
        tc := (byteAt v 4 &&& 0x01 != 0), tca := (byteAt v 4 &&& 0x80 != 0),
        routeID := { priority := u16At v 5 &&& 0xf000, sysID := u16At v 5 &&& 0x0fff,
                     hwAddr := (v.drop 7).take 6 },
        cost := u32At v 13,
        bridgeID := { priority := u16At v 17 &&& 0xf000, sysID := u16At v 17 &&& 0x0fff,
                      hwAddr := (v.drop 19).take 6 },
        portID := u16At v 25, messageAge := u16At v 27, maxAge := u16At v 29,
        helloTime := u16At v 31, fDelay := u16At v 33 },
    trunc := false, err := false }

/-! ## 2. Go slices -/

theorem GSlice.slice_ok (s : GSlice) (a b : Nat) (hab : a ≤ b) (hb : b ≤ s.len) :
    s.slice a b = .ok { vis := (s.vis.drop a).take (b - a), tail := s.vis.drop b ++ s.tail } := by
  unfold GSlice.slice GSlice.cap
  unfold GSlice.len at hb
  have h1 : a ≤ b ∧ b ≤ s.vis.length + s.tail.length := ⟨hab, by omega⟩
  rw [if_pos h1]
  have ha : a ≤ s.vis.length := by omega
  rw [List.drop_append_of_le_length ha, List.drop_append_of_le_length hb,
    List.take_append_of_le_length (by rw [List.length_drop]; omega)]

theorem GSlice.sliceFrom_ok (s : GSlice) (a : Nat) (ha : a ≤ s.len) :
    s.sliceFrom a = .ok { vis := s.vis.drop a, tail := s.tail } := by
  unfold GSlice.sliceFrom; rw [if_pos ha]

theorem GSlice.index_ok (s : GSlice) (i : Nat) (h : i < s.len) :
    s.index i = .ok (s.vis.getD i 0) := by
  unfold GSlice.index Gp.index
  have h' : i < s.vis.length := h
  simp [List.getD_eq_getElem?_getD, h']

/-- The two-byte window `[i, i+2)` of a long enough byte string. -/
theorem two_bytes (v : Bytes) (i : Nat) (h : i + 2 ≤ v.length) :
    (v.drop i).take 2 = [v.getD i 0, v.getD (i + 1) 0] := by
  have h0 : i < v.length := by omega
  have h1 : i + 1 < v.length := by omega
  have e : v.drop i = v[i] :: v[i+1] :: v.drop (i+2) := by
    rw [List.drop_eq_getElem_cons h0, List.drop_eq_getElem_cons h1]
  rw [e]
  simp only [List.take_succ_cons, List.take_zero, List.getD_eq_getElem?_getD,
    List.getElem?_eq_getElem h0, List.getElem?_eq_getElem h1, Option.getD_some]

/-- The four-byte window `[i, i+4)` of a long enough byte string. -/
theorem four_bytes (v : Bytes) (i : Nat) (h : i + 4 ≤ v.length) :
    (v.drop i).take 4 = [v.getD i 0, v.getD (i + 1) 0, v.getD (i + 2) 0, v.getD (i + 3) 0] := by
  have h0 : i < v.length := by omega
  have h1 : i + 1 < v.length := by omega
  have h2 : i + 2 < v.length := by omega
  have h3 : i + 3 < v.length := by omega
  have e : v.drop i = v[i] :: v[i+1] :: v[i+2] :: v[i+3] :: v.drop (i+4) := by
    rw [List.drop_eq_getElem_cons h0, List.drop_eq_getElem_cons h1, List.drop_eq_getElem_cons h2,
      List.drop_eq_getElem_cons h3]
  rw [e]
  simp only [List.take_succ_cons, List.take_zero, List.getD_eq_getElem?_getD,
    List.getElem?_eq_getElem h0, List.getElem?_eq_getElem h1, List.getElem?_eq_getElem h2,
    List.getElem?_eq_getElem h3, Option.getD_some]

theorem uint16_two (a b : UInt8) (t : Bytes) : uint16 { vis := [a, b], tail := t } = .ok (be16 a b) := by
  simp [uint16, GSlice.index, Gp.index, bind, Res.bind, pure]

theorem uint32_four (a b c d : UInt8) (t : Bytes) :
    uint32 { vis := [a, b, c, d], tail := t } = .ok (be32 a b c d) := by
  simp [uint32, GSlice.index, Gp.index, bind, Res.bind, pure]

/-- `BigEndian.Uint16(data[a:b])`, b = a + 2, on a slice that is long enough. -/
theorem sliceU16_ok (s : GSlice) (a b : Nat) (hb : b = a + 2) (h : b ≤ s.len) :
    sliceU16 s a b = .ok (u16At s.vis a) := by
  subst hb
  unfold sliceU16
  rw [GSlice.slice_ok s a (a + 2) (by omega) h, Res.bind_ok]
  have : a + 2 - a = 2 := by omega
  rw [this, two_bytes s.vis a h]
  exact uint16_two _ _ _

/-- `BigEndian.Uint32(data[a:b])`, b = a + 4. -/
theorem sliceU32_ok (s : GSlice) (a b : Nat) (hb : b = a + 4) (h : b ≤ s.len) :
    sliceU32 s a b = .ok (u32At s.vis a) := by
  subst hb
  unfold sliceU32
  rw [GSlice.slice_ok s a (a + 4) (by omega) h, Res.bind_ok]
  have : a + 4 - a = 4 := by omega
  rw [this, four_bytes s.vis a h]
  exact uint32_four _ _ _ _ _

theorem be16_lt (a b : UInt8) : be16 a b < 65536 := by
  have := a.toNat_lt; have := b.toNat_lt
  unfold be16; omega

theorem be32_lt (a b c d : UInt8) : be32 a b c d < 4294967296 := by
  have := a.toNat_lt; have := b.toNat_lt; have := c.toNat_lt; have := d.toNat_lt
  unfold be32; omega

theorem u16At_lt (v : Bytes) (i : Nat) : u16At v i < 65536 := be16_lt _ _
theorem u32At_lt (v : Bytes) (i : Nat) : u32At v i < 4294967296 := be32_lt _ _ _ _
theorem byteAt_lt (v : Bytes) (i : Nat) : byteAt v i < 256 := (v.getD i 0).toNat_lt

/-! ## 3. DecodeFromBytes = its functional specification -/

theorem LLC.decode_short (old : LLC) (d : GSlice) (h : d.len < 3) :
    old.decodeFromBytes d = .ok { layer := old, trunc := false, err := true } := by
  unfold LLC.decodeFromBytes; rw [if_pos h]

theorem LLC.decode_long (old : LLC) (d : GSlice) (h : 3 ≤ d.len) :
    old.decodeFromBytes d = .ok (llcDecSpec old d.vis) := by
  have hl : 3 ≤ d.vis.length := h
  unfold LLC.decodeFromBytes
  rw [if_neg (by omega)]
  rw [GSlice.index_ok d 0 (by omega), Res.bind_ok, Res.bind_ok]
  rw [GSlice.index_ok d 1 (by omega), Res.bind_ok, Res.bind_ok]
  rw [GSlice.index_ok d 2 (by omega), Res.bind_ok]
  unfold llcDecSpec ctlTwoOctets byteAt
  simp only []
  by_cases hc : (d.vis.getD 2 0).toNat &&& 0x1 = 0 ∨ (d.vis.getD 2 0).toNat &&& 0x3 = 0x1
  · rw [if_pos hc, if_pos hc]
    by_cases h4 : d.len < 4
    · have h4' : d.vis.length < 4 := h4
      rw [if_pos h4, if_pos h4']; rfl
    · have h4' : ¬ d.vis.length < 4 := h4
      rw [if_neg h4, if_neg h4']
      rw [GSlice.index_ok d 3 (by omega), Res.bind_ok]
      rw [GSlice.slice_ok d 0 4 (by omega) (by omega), Res.bind_ok]
      rw [GSlice.sliceFrom_ok d 4 (by omega), Res.bind_ok]
      simp only [List.drop_zero, Nat.sub_zero, pure]
  · rw [if_neg hc, if_neg hc]
    rw [GSlice.slice_ok d 0 3 (by omega) (by omega), Res.bind_ok]
    rw [GSlice.sliceFrom_ok d 3 (by omega), Res.bind_ok]
    simp only [List.drop_zero, Nat.sub_zero, pure]

theorem SNAP.decode_short (old : SNAP) (d : GSlice) (h : d.len < 5) :
    old.decodeFromBytes d = .ok { layer := old, trunc := false, err := true } := by
  unfold SNAP.decodeFromBytes; rw [if_pos h]

theorem SNAP.decode_long (old : SNAP) (d : GSlice) (h : 5 ≤ d.len) :
    old.decodeFromBytes d = .ok (snapDecSpec d.vis) := by
  have hl : 5 ≤ d.vis.length := h
  unfold SNAP.decodeFromBytes
  rw [if_neg (by omega)]
  rw [GSlice.slice_ok d 0 3 (by omega) (by omega), Res.bind_ok]
  rw [sliceU16_ok d 3 5 rfl h, Res.bind_ok]
  rw [GSlice.slice_ok d 0 5 (by omega) (by omega), Res.bind_ok]
  rw [GSlice.sliceFrom_ok d 5 h, Res.bind_ok]
  simp only [List.drop_zero, Nat.sub_zero, pure, snapDecSpec]

theorem STP.decode_short (old : STP) (d : GSlice) (h : d.len < 35) :
    old.decodeFromBytes d = .ok { layer := old, trunc := true, err := true } := by
  unfold STP.decodeFromBytes; simp only []; rw [if_pos h]

theorem STP.decode_long (old : STP) (d : GSlice) (h : 35 ≤ d.len) :
    old.decodeFromBytes d = .ok (stpDecSpec d.vis) := by
  have hl : 35 ≤ d.vis.length := h
  unfold STP.decodeFromBytes
  simp only []
  rw [if_neg (by omega)]
  rw [GSlice.slice_ok d 0 2 (by omega) (by omega), Res.bind_ok]
  have e0 : uint16 { vis := (d.vis.drop 0).take (2 - 0), tail := d.vis.drop 2 ++ d.tail } = .ok (u16At d.vis 0) := by
    have := two_bytes d.vis 0 (by omega)
    simp only [Nat.sub_zero] at this ⊢
    rw [this]; exact uint16_two _ _ _
  rw [e0, Res.bind_ok]
  rw [GSlice.index_ok d 2 (by omega), Res.bind_ok]
  rw [GSlice.index_ok d 3 (by omega), Res.bind_ok]
  rw [GSlice.index_ok d 4 (by omega), Res.bind_ok, Res.bind_ok]
  rw [sliceU16_ok d 5 7 rfl (by omega), Res.bind_ok, Res.bind_ok]
  rw [GSlice.slice_ok d 7 13 (by omega) (by omega), Res.bind_ok]
  rw [sliceU32_ok d 13 17 rfl (by omega), Res.bind_ok]
  rw [sliceU16_ok d 17 19 rfl (by omega), Res.bind_ok, Res.bind_ok]
  rw [GSlice.slice_ok d 19 25 (by omega) (by omega), Res.bind_ok]
  rw [sliceU16_ok d 25 27 rfl (by omega), Res.bind_ok]
  rw [sliceU16_ok d 27 29 rfl (by omega), Res.bind_ok]
  rw [sliceU16_ok d 29 31 rfl (by omega), Res.bind_ok]
  rw [sliceU16_ok d 31 33 rfl (by omega), Res.bind_ok]
  rw [sliceU16_ok d 33 35 rfl (by omega), Res.bind_ok]
  rw [GSlice.slice_ok d 0 35 (by omega) (by omega), Res.bind_ok]
  rw [GSlice.sliceFrom_ok d 35 h, Res.bind_ok]
  simp only [List.drop_zero, Nat.sub_zero, Nat.reduceSub, pure, stpDecSpec, byteAt]

theorem LLC.decode_vis (old : LLC) (v foreign : Bytes) (h : 3 ≤ v.length) :
    old.decodeFromBytes { vis := v, tail := foreign } = .ok (llcDecSpec old v) :=
  LLC.decode_long old { vis := v, tail := foreign } h

theorem SNAP.decode_vis (old : SNAP) (v foreign : Bytes) (h : 5 ≤ v.length) :
    old.decodeFromBytes { vis := v, tail := foreign } = .ok (snapDecSpec v) :=
  SNAP.decode_long old { vis := v, tail := foreign } h

theorem STP.decode_vis (old : STP) (v foreign : Bytes) (h : 35 ≤ v.length) :
    old.decodeFromBytes { vis := v, tail := foreign } = .ok (stpDecSpec v) :=
  STP.decode_long old { vis := v, tail := foreign } h

/-! ## 4. Facts about the LLC specification -/

/-- Whether LLC decoding fails does not depend on the receiver. -/
theorem llcDecSpec_err_indep (o1 o2 : LLC) (v : Bytes) : (llcDecSpec o1 v).err = (llcDecSpec o2 v).err := by
  unfold llcDecSpec; simp only []
  split
  · split <;> rfl
  · rfl

/-- A successful LLC decode does not depend on the receiver (every field is assigned). -/
theorem llcDecSpec_ok_indep (o1 o2 : LLC) (v : Bytes) (h : (llcDecSpec o1 v).err = false) :
    llcDecSpec o1 v = llcDecSpec o2 v := by
  unfold llcDecSpec at h ⊢; simp only [] at h ⊢
  split
  · rename_i hc
    rw [if_pos hc] at h
    split
    · rename_i h4; rw [if_pos h4] at h; cases h
    · rfl
  · rfl

theorem llcDecSpec_trunc (o : LLC) (v : Bytes) : (llcDecSpec o v).trunc = false := by
  unfold llcDecSpec; simp only []
  split
  · split <;> rfl
  · rfl

/-- Progress: a successfully decoded LLC header hands on a payload at least 3 bytes shorter. -/
theorem llcDecSpec_payload_le (o : LLC) (v : Bytes) (h3 : 3 ≤ v.length) (h : (llcDecSpec o v).err = false) :
    (llcDecSpec o v).layer.payload.length + 3 ≤ v.length := by
  unfold llcDecSpec at h ⊢; simp only [] at h ⊢
  split
  · rename_i hc
    rw [if_pos hc] at h
    split
    · rename_i h4; rw [if_pos h4] at h; cases h
    · simp only [List.length_drop]; omega
  · simp only [List.length_drop]; omega

end Gp.Llc
