import Gp.Model.Layers.Ip6
/-
  Helper lemmas about the decode half of the ip6.go model (engine `lip6`).  Core Lean only.
-/
namespace Gp.Ip6
open Gp Gp.Gen.Ip6

/-! ## Res plumbing -/

theorem Res.bind_eq_ok' {α β} (r : Res α) (f : α → Res β) (a : α) (h : r = .ok a) :
    (r >>= f) = f a := by subst h; rfl

@[simp] theorem Res.pure_eq_ok {α} (a : α) : (pure a : Res α) = .ok a := rfl

/-! ## Views: in-range indexing and slicing -/

theorem index_lt (s : Bytes) (i : Nat) (h : i < s.length) : index s i = .ok (s[i]) := by
  unfold index
  rw [List.getElem?_eq_getElem h]

theorem index_ne_panic_of_lt (s : Bytes) (i : Nat) (h : i < s.length) (k : PanicKind) :
    index s i ≠ .panic k := by
  rw [index_lt s i h]; intro h; cases h

namespace View

theorem idx_lt (v : View) (i : Nat) (h : i < v.len) : v.idx i = .ok (v.b[i]'h) :=
  index_lt v.b i h

/-- A slice that ends inside the `len` part never sees the spare capacity in its `b` part. -/
theorem slice_le (v : View) (a b : Nat) (hab : a ≤ b) (hb : b ≤ v.len) :
    v.slice a b = .ok ⟨(v.b.drop a).take (b - a), v.b.drop b ++ v.x⟩ := by
  unfold slice cap all
  unfold len at hb
  have h1 : a ≤ b ∧ b ≤ v.b.length + v.x.length := ⟨hab, by omega⟩
  rw [if_pos h1]
  congr 2
  · rw [List.drop_append_of_le_length (by omega), List.take_append_of_le_length]
    rw [List.length_drop]; omega
  · rw [List.drop_append_of_le_length hb]

theorem sliceFrom_le (v : View) (a : Nat) (h : a ≤ v.len) :
    v.sliceFrom a = .ok ⟨v.b.drop a, v.x⟩ := by
  unfold sliceFrom
  rw [slice_le v a v.len h (Nat.le_refl _)]
  unfold len
  congr 2
  · rw [List.take_of_length_le]; rw [List.length_drop]; omega
  · simp

theorem sliceTo_le (v : View) (b : Nat) (h : b ≤ v.len) :
    v.sliceTo b = .ok ⟨v.b.take b, v.b.drop b ++ v.x⟩ := by
  unfold sliceTo
  rw [slice_le v 0 b (Nat.zero_le _) h]
  simp

end View

/-! ## decodeIPv6HeaderTLVOption: closed form on the bytes (no capacity, no panic) -/

def decodeTlvSpec : Bytes → Res Tlv × Bool
  | [] => (.err "IPv6 header option too small", true)
  | t :: rest =>
    if t = 0 then (.ok pad1, false)
    else
      match rest with
      | [] => (.err "IPv6 header option too small", true)
      | l :: d =>
        if d.length < l.toNat then (.err "IPv6 header TLV option too small", true)
        else (.ok { typ := t.toNat, len := l.toNat, alen := l.toNat + 2, data := some (d.take l.toNat),
                    ax := 0, ay := 0 }, false)

theorem decodeTlv_eq_spec (v : View) : decodeTlv v = decodeTlvSpec v.b := by
  obtain ⟨b, x⟩ := v
  match b with
  | [] => simp [decodeTlv, decodeTlvRest, decodeTlvSpec, View.len]
  | [t] =>
    by_cases ht : t = 0
    · simp [decodeTlv, decodeTlvSpec, View.len, View.idx, index, ht]
    · simp [decodeTlv, decodeTlvRest, decodeTlvSpec, View.len, View.idx, index, ht]
  | t :: l :: d =>
    by_cases ht : t = 0
    · simp [decodeTlv, decodeTlvSpec, View.len, View.idx, index, ht]
    · simp only [decodeTlv, decodeTlvSpec, View.len, View.idx, index, ht, List.length_cons,
        Nat.zero_lt_succ, if_true, if_false, List.getElem?_cons_zero, decodeTlvRest]
      have h2 : ¬ (d.length + 1 + 1 < 2) := by omega
      simp only [h2, if_false, List.getElem?_cons_succ, List.getElem?_cons_zero]
      by_cases hl : d.length < l.toNat
      · have : d.length + 1 + 1 < l.toNat + 2 := by omega
        simp [hl, this]
      · have h3 : ¬ (d.length + 1 + 1 < l.toNat + 2) := by omega
        simp only [h3, hl, if_false]
        rw [View.slice_le _ 2 (l.toNat + 2) (by omega) (by simp [View.len]; omega)]
        simp

theorem decodeTlvSpec_ne_panic (b : Bytes) (k : PanicKind) : (decodeTlvSpec b).1 ≠ .panic k := by
  unfold decodeTlvSpec
  split
  · simp
  · split
    · simp
    · split
      · simp
      · split <;> simp

theorem decodeTlv_ne_panic (v : View) (k : PanicKind) : (decodeTlv v).1 ≠ .panic k := by
  rw [decodeTlv_eq_spec]; exact decodeTlvSpec_ne_panic _ k

/-- A successfully decoded option consumes at least one byte and lies inside the slice. -/
theorem decodeTlvSpec_ok (b : Bytes) (o : Tlv) (tr : Bool) (h : decodeTlvSpec b = (.ok o, tr)) :
    1 ≤ o.alen ∧ o.alen ≤ b.length ∧ tr = false := by
  unfold decodeTlvSpec at h
  split at h
  · simp at h
  · split at h
    · simp only [Prod.mk.injEq, Res.ok.injEq] at h
      obtain ⟨h1, h2⟩ := h
      subst h1; simp [pad1, h2.symm]
    · split at h
      · simp at h
      · split at h
        · simp at h
        · simp only [Prod.mk.injEq, Res.ok.injEq] at h
          obtain ⟨h1, h2⟩ := h
          subst h1; simp [h2.symm]; omega

/-! ## The option loop: closed form on the option area -/

/-- The loop of DecodeFromBytes on the option area (the bytes `data[offset:ActualLength]` still
    to be consumed). -/
def tlvAreaSpec : Nat → Bytes → (List Tlv × Bool × Res Unit)
  | _, [] => ([], false, .ok ())
  | 0, _ :: _ => ([], false, .panic .explicit)
  | fuel + 1, a :: as =>
    match decodeTlvSpec (a :: as) with
    | (.panic k, tr) => ([], tr, .panic k)
    | (.err e, tr) => ([], tr, .err e)
    | (.ok o, tr) =>
      let r := tlvAreaSpec fuel ((a :: as).drop o.alen)
      (o :: r.1, tr || r.2.1, r.2.2)

theorem tlvLoop_eq_spec (b x : Bytes) (al : Nat) (hal : al ≤ b.length) :
    ∀ (fuel off : Nat), off ≤ al →
      tlvLoop ⟨b, x⟩ al fuel off = tlvAreaSpec fuel ((b.take al).drop off) := by
  intro fuel
  induction fuel with
  | zero =>
    intro off hoff
    unfold tlvLoop
    by_cases h : off < al
    · simp only [h, if_true]
      have hl : ((b.take al).drop off).length = al - off := by
        rw [List.length_drop, List.length_take]; omega
      match hm : (b.take al).drop off with
      | [] => rw [hm] at hl; simp at hl; omega
      | _ :: _ => simp [tlvAreaSpec]
    · have : (b.take al).drop off = [] := by
        apply List.drop_eq_nil_of_le; rw [List.length_take]; omega
      simp [h, this, tlvAreaSpec]
  | succ fuel ih =>
    intro off hoff
    unfold tlvLoop
    by_cases h : off < al
    · simp only [h, if_true]
      rw [View.slice_le _ off al (by omega) (by simp [View.len]; omega)]
      simp only [decodeTlv_eq_spec]
      have harea : (b.drop off).take (al - off) = (b.take al).drop off := by
        rw [List.drop_take]
      rw [harea]
      have hl : ((b.take al).drop off).length = al - off := by
        rw [List.length_drop, List.length_take]; omega
      match hm : (b.take al).drop off with
      | [] => rw [hm] at hl; simp at hl; omega
      | a :: as =>
        simp only [tlvAreaSpec]
        match hd : decodeTlvSpec (a :: as) with
        | (.panic k, tr) => rfl
        | (.err e, tr) => rfl
        | (.ok o, tr) =>
          obtain ⟨h1, h2, -⟩ := decodeTlvSpec_ok _ o tr hd
          have h3 : o.alen ≤ al - off := by rw [← hl, hm]; exact h2
          simp only
          rw [ih (off + o.alen) (by omega), ← hm, List.drop_drop]
    · have : (b.take al).drop off = [] := by
        apply List.drop_eq_nil_of_le; rw [List.length_take]; omega
      simp [h, this, tlvAreaSpec]

/-- With at least as much fuel as bytes the loop never runs out of fuel and never panics. -/
theorem tlvAreaSpec_ne_panic : ∀ (fuel : Nat) (area : Bytes), area.length ≤ fuel →
    ∀ k, (tlvAreaSpec fuel area).2.2 ≠ .panic k := by
  intro fuel
  induction fuel with
  | zero =>
    intro area h k
    match area with
    | [] => simp [tlvAreaSpec]
    | _ :: _ => simp at h
  | succ fuel ih =>
    intro area h k
    match area with
    | [] => simp [tlvAreaSpec]
    | a :: as =>
      simp only [tlvAreaSpec]
      match hd : decodeTlvSpec (a :: as) with
      | (.panic k', tr) => exact absurd (by rw [hd]) (decodeTlvSpec_ne_panic (a :: as) k')
      | (.err e, tr) => simp
      | (.ok o, tr) =>
        obtain ⟨h1, h2, -⟩ := decodeTlvSpec_ok _ o tr hd
        simp only
        apply ih
        rw [List.length_drop]
        simp only [List.length_cons] at h h2 ⊢
        omega

/-! ## decodeIPv6ExtensionBase: closed form -/

def extBaseSpec (b : Bytes) : Res ExtBase × Bool :=
  match b with
  | nh :: hl :: _ =>
    let al := hl.toNat * 8 + 8
    if b.length < al then (.err "Invalid ip6-extension header (specified length)", false)
    else (.ok { contents := b.take al, payload := b.drop al, nextHeader := nh.toNat,
                headerLength := hl.toNat, actualLength := al }, false)
  | _ => (.err "Invalid ip6-extension header (less than 2)", true)

theorem decodeExtBase_eq_spec (v : View) : decodeExtBase v = extBaseSpec v.b := by
  obtain ⟨b, x⟩ := v
  match b with
  | [] => simp [decodeExtBase, extBaseSpec, View.len]
  | [_] => simp [decodeExtBase, extBaseSpec, View.len]
  | nh :: hl :: rest =>
    simp only [decodeExtBase, extBaseSpec, View.len, List.length_cons]
    have h2 : ¬ (rest.length + 1 + 1 < 2) := by omega
    simp only [h2, if_false, decodeExtBaseOk, View.idx, index, List.getElem?_cons_zero,
      List.getElem?_cons_succ, Res.bind_ok, View.len, List.length_cons]
    by_cases hl' : rest.length + 1 + 1 < hl.toNat * 8 + 8
    · simp [hl']
    · simp only [hl', if_false]
      rw [View.sliceTo_le _ _ (by simp [View.len]; omega),
        View.sliceFrom_le _ _ (by simp [View.len]; omega)]
      rfl

theorem extBaseSpec_ok (b : Bytes) (e : ExtBase) (tr : Bool) (h : extBaseSpec b = (.ok e, tr)) :
    8 ≤ e.actualLength ∧ e.actualLength ≤ b.length ∧ tr = false ∧
    e.contents = b.take e.actualLength ∧ e.payload = b.drop e.actualLength ∧
    e.actualLength = e.headerLength * 8 + 8 := by
  unfold extBaseSpec at h
  split at h
  · dsimp only at h
    split at h
    · simp at h
    · simp only [Prod.mk.injEq, Res.ok.injEq] at h
      obtain ⟨h1, h2⟩ := h
      subst h1
      rename_i hlt
      simp only [List.length_cons] at hlt
      refine ⟨?_, ?_, h2.symm, rfl, rfl, rfl⟩
      · show 8 ≤ _ * 8 + 8
        omega
      · show _ * 8 + 8 ≤ _
        simp only [List.length_cons]; omega
  · simp at h

theorem extBaseSpec_ne_panic (b : Bytes) (k : PanicKind) : (extBaseSpec b).1 ≠ .panic k := by
  unfold extBaseSpec
  split
  · dsimp only
    split <;> simp
  · simp

/-! ## (*IPv6HopByHop).DecodeFromBytes / (*IPv6Destination).DecodeFromBytes: closed form -/

def tlvExtSpec (old : TlvExt) (b : Bytes) : DecOut TlvExt :=
  match extBaseSpec b with
  | (.panic p, tr) => ⟨old, tr, .panic p⟩
  | (.err e, tr) => ⟨{ old with base := ExtBase.zero }, tr, .err e⟩
  | (.ok base, tr) =>
    let r := tlvAreaSpec base.actualLength ((b.take base.actualLength).drop 2)
    ⟨{ base := base, options := r.1 }, tr || r.2.1, r.2.2⟩

theorem decodeTlvExt_eq_spec (k : ExtKind) (old : TlvExt) (v : View) :
    decodeTlvExt k old v = tlvExtSpec old v.b := by
  obtain ⟨b, x⟩ := v
  unfold decodeTlvExt tlvExtSpec
  rw [decodeExtBase_eq_spec]
  match hb : extBaseSpec b with
  | (.panic p, tr) => rfl
  | (.err e, tr) => rfl
  | (.ok base, tr) =>
    obtain ⟨h8, hal, -, -, -, -⟩ := extBaseSpec_ok b base tr hb
    simp only
    rw [tlvLoop_eq_spec b x base.actualLength hal base.actualLength 2 (by omega)]
    cases k <;> simp

theorem tlvExtSpec_ne_panic (old : TlvExt) (b : Bytes) (k : PanicKind) :
    (tlvExtSpec old b).res ≠ .panic k := by
  unfold tlvExtSpec
  match hb : extBaseSpec b with
  | (.panic p, tr) => exact absurd (by rw [hb]) (extBaseSpec_ne_panic b p)
  | (.err e, tr) => simp
  | (.ok base, tr) =>
    simp only
    apply tlvAreaSpec_ne_panic
    rw [List.length_drop, List.length_take]; omega

/-- The result of a successful decode does not depend on the old layer at all. -/
theorem tlvExtSpec_old (old old' : TlvExt) (b : Bytes) (h : (tlvExtSpec old b).res = .ok ()) :
    tlvExtSpec old b = tlvExtSpec old' b := by
  unfold tlvExtSpec at h ⊢
  match hb : extBaseSpec b with
  | (.panic p, tr) => rw [hb] at h; simp at h
  | (.err e, tr) => rw [hb] at h; simp at h
  | (.ok base, tr) => rfl

theorem tlvExtSpec_ok (old : TlvExt) (b : Bytes) (h : (tlvExtSpec old b).res = .ok ()) :
    8 ≤ (tlvExtSpec old b).layer.base.actualLength ∧
    (tlvExtSpec old b).layer.base.actualLength ≤ b.length := by
  unfold tlvExtSpec at h ⊢
  match hb : extBaseSpec b with
  | (.panic p, tr) => rw [hb] at h; simp at h
  | (.err e, tr) => rw [hb] at h; simp at h
  | (.ok base, tr) =>
    obtain ⟨h8, hal, -, -, -, -⟩ := extBaseSpec_ok b base tr hb
    exact ⟨h8, hal⟩

end Gp.Ip6
