import Gp.Model.Layers.Ip6
/-
  Helper lemmas about the decode half of the ip6.go model (engine `lip6`).  Core Lean only.
-/
namespace Gp.Ip6
open Gp Gp.Gen.Ip6

/-! ## Res plumbing -/

theorem Res.bind_eq_ok' {α β} (r : Res α) (f : α → Res β) (a : α) (h : r = .ok a) :
    (r >>= f) = f a := by subst h; rfl

/-! ## Views: in-range indexing and slicing -/

theorem index_lt (s : Bytes) (i : Nat) (h : i < s.length) : index s i = .ok (s[i]) := by
  unfold index
  rw [List.getElem?_eq_getElem h]

theorem index_ne_panic_of_lt (s : Bytes) (i : Nat) (h : i < s.length) (k : PanicKind) :
    index s i ≠ .panic k := by
  rw [index_lt s i h]; intro h; cases h

namespace View

theorem idx_lt (v : View) (i : Nat) (h : i < v.len) : v.idx i = .ok (v.b[i]'h) :=
  index_lt v.b i h

/-- A slice that ends inside the `len` part never sees the spare capacity in its `b` part. -/
theorem slice_le (v : View) (a b : Nat) (hab : a ≤ b) (hb : b ≤ v.len) :
    v.slice a b = .ok ⟨(v.b.drop a).take (b - a), v.b.drop b ++ v.x⟩ := by
  unfold slice cap all
  unfold len at hb
  have h1 : a ≤ b ∧ b ≤ v.b.length + v.x.length := ⟨hab, by omega⟩
  rw [if_pos h1]
  congr 2
  · rw [List.drop_append_of_le_length (by omega), List.take_append_of_le_length]
    rw [List.length_drop]; omega
  · rw [List.drop_append_of_le_length hb]

theorem sliceFrom_le (v : View) (a : Nat) (h : a ≤ v.len) :
    v.sliceFrom a = .ok ⟨v.b.drop a, v.x⟩ := by
  unfold sliceFrom
  rw [slice_le v a v.len h (Nat.le_refl _)]
  unfold len
  congr 2
  · rw [List.take_of_length_le]; rw [List.length_drop]; omega
  · simp

theorem sliceTo_le (v : View) (b : Nat) (h : b ≤ v.len) :
    v.sliceTo b = .ok ⟨v.b.take b, v.b.drop b ++ v.x⟩ := by
  unfold sliceTo
  rw [slice_le v 0 b (Nat.zero_le _) h]
  simp

end View

/-! ## decodeIPv6HeaderTLVOption: closed form on the bytes (no capacity, no panic) -/

def decodeTlvSpec : Bytes → Res Tlv × Bool
  | [] => (.err "IPv6 header option too small", true)
  | t :: rest =>
    if t = 0 then (.ok pad1, false)
    else
      match rest with
      | [] => (.err "IPv6 header option too small", true)
      | l :: d =>
        if d.length < l.toNat then (.err "IPv6 header TLV option too small", true)
        else (.ok { typ := t.toNat, len := l.toNat, alen := l.toNat + 2, data := some (d.take l.toNat),
                    ax := 0, ay := 0 }, false)

theorem decodeTlv_eq_spec (v : View) : decodeTlv v = decodeTlvSpec v.b := by
  obtain ⟨b, x⟩ := v
  match b with
  | [] => simp [decodeTlv, decodeTlvRest, decodeTlvSpec, View.len]
  | [t] =>
    by_cases ht : t = 0
    · simp [decodeTlv, decodeTlvSpec, View.len, View.idx, index, ht]
    · simp [decodeTlv, decodeTlvRest, decodeTlvSpec, View.len, View.idx, index, ht]
  | t :: l :: d =>
    by_cases ht : t = 0
    · simp [decodeTlv, decodeTlvSpec, View.len, View.idx, index, ht]
    · simp only [decodeTlv, decodeTlvSpec, View.len, View.idx, index, ht, List.length_cons,
        Nat.zero_lt_succ, if_true, if_false, List.getElem?_cons_zero, decodeTlvRest]
      have h2 : ¬ (d.length + 1 + 1 < 2) := by omega
      simp only [h2, if_false, List.getElem?_cons_succ, List.getElem?_cons_zero]
      by_cases hl : d.length < l.toNat
      · have : d.length + 1 + 1 < l.toNat + 2 := by omega
        simp [hl, this]
      · have h3 : ¬ (d.length + 1 + 1 < l.toNat + 2) := by omega
        simp only [h3, hl, if_false]
        rw [View.slice_le _ 2 (l.toNat + 2) (by omega) (by simp [View.len]; omega)]
        simp

theorem decodeTlvSpec_ne_panic (b : Bytes) (k : PanicKind) : (decodeTlvSpec b).1 ≠ .panic k := by
  unfold decodeTlvSpec
  split
  · simp
  · split
    · simp
    · split
      · simp
      · split <;> simp

theorem decodeTlv_ne_panic (v : View) (k : PanicKind) : (decodeTlv v).1 ≠ .panic k := by
  rw [decodeTlv_eq_spec]; exact decodeTlvSpec_ne_panic _ k

/-- A successfully decoded option consumes at least one byte and lies inside the slice. -/
theorem decodeTlvSpec_ok (b : Bytes) (o : Tlv) (tr : Bool) (h : decodeTlvSpec b = (.ok o, tr)) :
    1 ≤ o.alen ∧ o.alen ≤ b.length ∧ tr = false := by
  unfold decodeTlvSpec at h
  split at h
  · simp at h
  · split at h
    · simp only [Prod.mk.injEq, Res.ok.injEq] at h
      obtain ⟨h1, h2⟩ := h
      subst h1; simp [pad1, h2.symm]
    · split at h
      · simp at h
      · split at h
        · simp at h
        · simp only [Prod.mk.injEq, Res.ok.injEq] at h
          obtain ⟨h1, h2⟩ := h
          subst h1; simp [h2.symm]; omega

end Gp.Ip6
