import Gp.Lemmas.Layers.Llc
/-
  Helper lemmas for engine `lllc`, part 2: the DecodingLayerParser loop over {LLC, SNAP, STP}.
-/
namespace Gp.Llc
open Gp Gp.SBuf Gp.Gen.Llc

/-! ## One iteration per layer type, in terms of the decode specifications -/

theorem dlpLoop_llc (fuel : Nat) (st : DlpState) (data : GSlice) :
    dlpLoop (fuel + 1) st LayerTypeLLC data =
      if data.len < 3 then .ok ({ st with trunc := st.trunc || false }, 1)
      else
        let o := llcDecSpec st.llc data.vis
        let st1 : DlpState := { st with llc := o.layer, trunc := st.trunc || o.trunc }
        if o.err then .ok (st1, 1) else
        let st' : DlpState := { st1 with decoded := st.decoded ++ [LayerTypeLLC] }
        let rest : GSlice := { vis := o.layer.payload, tail := data.tail }
        if rest.len = 0 then .ok (st', 0) else dlpLoop fuel st' o.layer.nextLayerType rest := by
  by_cases h : data.len < 3
  · rw [if_pos h]
    unfold dlpLoop
    simp only [if_true, LLC.decode_short st.llc data h]
  · rw [if_neg h]
    conv => lhs; unfold dlpLoop
    simp only [if_true, LLC.decode_long st.llc data (by omega)]

theorem dlpLoop_snap (fuel : Nat) (st : DlpState) (data : GSlice) :
    dlpLoop (fuel + 1) st LayerTypeSNAP data =
      if data.len < 5 then .ok ({ st with trunc := st.trunc || false }, 1)
      else
        let o := snapDecSpec data.vis
        let st' : DlpState := { st with snap := o.layer, trunc := st.trunc || o.trunc,
                                        decoded := st.decoded ++ [LayerTypeSNAP] }
        let rest : GSlice := { vis := o.layer.payload, tail := data.tail }
        if rest.len = 0 then .ok (st', 0) else dlpLoop fuel st' o.layer.nextLayerType rest := by
  have hne : ¬ (LayerTypeSNAP = LayerTypeLLC) := by decide
  by_cases h : data.len < 5
  · rw [if_pos h]
    unfold dlpLoop
    simp only [hne, if_false, if_true, SNAP.decode_short st.snap data h]
  · rw [if_neg h]
    conv => lhs; unfold dlpLoop
    simp only [hne, if_false, if_true, SNAP.decode_long st.snap data (by omega)]
    rfl

theorem dlpLoop_stp (fuel : Nat) (st : DlpState) (data : GSlice) :
    dlpLoop (fuel + 1) st LayerTypeSTP data =
      if data.len < 35 then .ok ({ st with trunc := st.trunc || true }, 1)
      else
        let o := stpDecSpec data.vis
        let st' : DlpState := { st with stp := o.layer, trunc := st.trunc || o.trunc,
                                        decoded := st.decoded ++ [LayerTypeSTP] }
        let rest : GSlice := { vis := o.layer.payload, tail := data.tail }
        if rest.len = 0 then .ok (st', 0) else dlpLoop fuel st' o.layer.nextLayerType rest := by
  have hne1 : ¬ (LayerTypeSTP = LayerTypeLLC) := by decide
  have hne2 : ¬ (LayerTypeSTP = LayerTypeSNAP) := by decide
  by_cases h : data.len < 35
  · rw [if_pos h]
    unfold dlpLoop
    simp only [hne1, hne2, if_false, if_true, STP.decode_short st.stp data h]
  · rw [if_neg h]
    conv => lhs; unfold dlpLoop
    simp only [hne1, hne2, if_false, if_true, STP.decode_long st.stp data (by omega)]
    rfl

theorem dlpLoop_other (fuel : Nat) (st : DlpState) (typ : Nat) (data : GSlice)
    (h1 : typ ≠ LayerTypeLLC) (h2 : typ ≠ LayerTypeSNAP) (h3 : typ ≠ LayerTypeSTP) :
    dlpLoop (fuel + 1) st typ data = if typ = LayerTypeZero then .ok (st, 0) else .ok (st, 2) := by
  unfold dlpLoop
  simp only [h1, h2, h3, if_false]

/-! ## No panic -/

theorem dlpLoop_no_panic (fuel : Nat) (st : DlpState) (typ : Nat) (data : GSlice) (k : PanicKind) :
    dlpLoop fuel st typ data ≠ .panic k := by
  induction fuel generalizing st typ data with
  | zero => unfold dlpLoop; exact fun h => nomatch h
  | succ fuel ih =>
    by_cases h1 : typ = LayerTypeLLC
    · subst h1; rw [dlpLoop_llc]
      split
      · exact fun h => nomatch h
      · simp only; split
        · exact fun h => nomatch h
        · split
          · exact fun h => nomatch h
          · exact ih _ _ _
    · by_cases h2 : typ = LayerTypeSNAP
      · subst h2; rw [dlpLoop_snap]
        split
        · exact fun h => nomatch h
        · simp only; split
          · exact fun h => nomatch h
          · exact ih _ _ _
      · by_cases h3 : typ = LayerTypeSTP
        · subst h3; rw [dlpLoop_stp]
          split
          · exact fun h => nomatch h
          · simp only; split
            · exact fun h => nomatch h
            · exact ih _ _ _
        · rw [dlpLoop_other _ _ _ _ h1 h2 h3]; split <;> exact fun h => nomatch h

/-! ## Fuel -/

/-- The fuel `|data| + 1` of `dlpDecodeLayers` suffices: any two amounts of fuel above the input
    length give the same run (each iteration consumes at least 3 bytes). -/
theorem dlpLoop_fuel (f1 f2 : Nat) (st : DlpState) (typ : Nat) (data : GSlice)
    (h1 : data.len < f1) (h2 : data.len < f2) :
    dlpLoop f1 st typ data = dlpLoop f2 st typ data := by
  induction f1 generalizing f2 st typ data with
  | zero => omega
  | succ f1 ih =>
    cases f2 with
    | zero => omega
    | succ f2 =>
      by_cases e1 : typ = LayerTypeLLC
      · subst e1; rw [dlpLoop_llc, dlpLoop_llc]
        by_cases hs : data.len < 3
        · rw [if_pos hs, if_pos hs]
        · rw [if_neg hs, if_neg hs]
          simp only
          by_cases he : (llcDecSpec st.llc data.vis).err = true
          · rw [if_pos he, if_pos he]
          · rw [if_neg he, if_neg he]
            have hp := llcDecSpec_payload_le st.llc data.vis (by unfold GSlice.len at hs; omega)
              (by cases hh : (llcDecSpec st.llc data.vis).err <;> simp_all)
            split
            · rfl
            · exact ih _ _ _ _ (by unfold GSlice.len at *; simp only; omega) (by unfold GSlice.len at *; simp only; omega)
      · by_cases e2 : typ = LayerTypeSNAP
        · subst e2; rw [dlpLoop_snap, dlpLoop_snap]
          by_cases hs : data.len < 5
          · rw [if_pos hs, if_pos hs]
          · rw [if_neg hs, if_neg hs]
            simp only
            split
            · rfl
            · refine ih _ _ _ _ ?_ ?_ <;>
                (unfold GSlice.len at *; simp only [snapDecSpec, List.length_drop]; omega)
        · by_cases e3 : typ = LayerTypeSTP
          · subst e3; rw [dlpLoop_stp, dlpLoop_stp]
            by_cases hs : data.len < 35
            · rw [if_pos hs, if_pos hs]
            · rw [if_neg hs, if_neg hs]
              simp only
              split
              · rfl
              · refine ih _ _ _ _ ?_ ?_ <;>
                  (unfold GSlice.len at *; simp only [stpDecSpec, List.length_drop]; omega)
          · rw [dlpLoop_other _ _ _ _ e1 e2 e3, dlpLoop_other _ _ _ _ e1 e2 e3]

/-! ## Capacity independence -/

theorem dlpLoop_cap (fuel : Nat) (st : DlpState) (typ : Nat) (v t1 t2 : Bytes) :
    dlpLoop fuel st typ { vis := v, tail := t1 } = dlpLoop fuel st typ { vis := v, tail := t2 } := by
  induction fuel generalizing st typ v t1 t2 with
  | zero => unfold dlpLoop; rfl
  | succ fuel ih =>
    have hlen : ∀ (x t : Bytes), GSlice.len { vis := x, tail := t } = x.length := fun _ _ => rfl
    by_cases e1 : typ = LayerTypeLLC
    · subst e1; rw [dlpLoop_llc, dlpLoop_llc]
      simp only [hlen]
      split
      · rfl
      · split
        · rfl
        · split
          · rfl
          · exact ih _ _ _ _ _
    · by_cases e2 : typ = LayerTypeSNAP
      · subst e2; rw [dlpLoop_snap, dlpLoop_snap]
        simp only [hlen]
        split
        · rfl
        · split
          · rfl
          · exact ih _ _ _ _ _
      · by_cases e3 : typ = LayerTypeSTP
        · subst e3; rw [dlpLoop_stp, dlpLoop_stp]
          simp only [hlen]
          split
          · rfl
          · split
            · rfl
            · exact ih _ _ _ _ _
        · rw [dlpLoop_other _ _ _ _ e1 e2 e3, dlpLoop_other _ _ _ _ e1 e2 e3]

/-! ## No stale state through the parser -/

/-- Two parser states agree on everything a caller may rely on after DecodeLayers: the decoded type
    list, the truncation flag, and the contents of every layer object whose type is in the list. -/
def DlpAgree (s1 s2 : DlpState) : Prop :=
  s1.decoded = s2.decoded ∧ s1.trunc = s2.trunc ∧
  (LayerTypeLLC ∈ s1.decoded → s1.llc = s2.llc) ∧
  (LayerTypeSNAP ∈ s1.decoded → s1.snap = s2.snap) ∧
  (LayerTypeSTP ∈ s1.decoded → s1.stp = s2.stp)

theorem dlpLoop_agree (fuel : Nat) (s1 s2 : DlpState) (typ : Nat) (data : GSlice) (h : DlpAgree s1 s2) :
    ∃ r1 r2 c, dlpLoop fuel s1 typ data = .ok (r1, c) ∧ dlpLoop fuel s2 typ data = .ok (r2, c) ∧
      DlpAgree r1 r2 := by
  induction fuel generalizing s1 s2 typ data with
  | zero => exact ⟨s1, s2, 0, by unfold dlpLoop; rfl, by unfold dlpLoop; rfl, h⟩
  | succ fuel ih =>
    obtain ⟨hd, ht, hl, hs, hp⟩ := h
    have n1 : LayerTypeSNAP ≠ LayerTypeLLC := by decide
    have n2 : LayerTypeSTP ≠ LayerTypeLLC := by decide
    have n3 : LayerTypeSTP ≠ LayerTypeSNAP := by decide
    by_cases e1 : typ = LayerTypeLLC
    · subst e1; rw [dlpLoop_llc, dlpLoop_llc]
      by_cases hsh : data.len < 3
      · rw [if_pos hsh, if_pos hsh]
        exact ⟨_, _, 1, rfl, rfl, hd, by simp only [ht], hl, hs, hp⟩
      · rw [if_neg hsh, if_neg hsh]
        simp only
        have herr := llcDecSpec_err_indep s1.llc s2.llc data.vis
        by_cases he : (llcDecSpec s1.llc data.vis).err = true
        · have he2 : (llcDecSpec s2.llc data.vis).err = true := by rw [← herr]; exact he
          rw [if_pos he, if_pos he2]
          refine ⟨_, _, 1, rfl, rfl, hd, ?_, ?_, hs, hp⟩
          · simp only [ht, llcDecSpec_trunc]
          · intro hm; simp only; rw [hl hm]
        · have he' : (llcDecSpec s1.llc data.vis).err = false := by
            cases hh : (llcDecSpec s1.llc data.vis).err <;> simp_all
          have he2 : ¬ (llcDecSpec s2.llc data.vis).err = true := by rw [← herr]; exact he
          rw [if_neg he, if_neg he2]
          have heq := llcDecSpec_ok_indep s1.llc s2.llc data.vis he'
          rw [← heq]
          have hag : DlpAgree
              { s1 with llc := (llcDecSpec s1.llc data.vis).layer, trunc := s1.trunc || (llcDecSpec s1.llc data.vis).trunc,
                        decoded := s1.decoded ++ [LayerTypeLLC] }
              { s2 with llc := (llcDecSpec s1.llc data.vis).layer, trunc := s2.trunc || (llcDecSpec s1.llc data.vis).trunc,
                        decoded := s2.decoded ++ [LayerTypeLLC] } := by
            refine ⟨by simp only [hd], by simp only [ht], fun _ => rfl, fun hm => ?_, fun hm => ?_⟩
            · simp only [List.mem_append, List.mem_singleton] at hm
              rcases hm with hm | hm
              · exact hs hm
              · exact absurd hm n1
            · simp only [List.mem_append, List.mem_singleton] at hm
              rcases hm with hm | hm
              · exact hp hm
              · exact absurd hm n2
          split
          · exact ⟨_, _, 0, rfl, rfl, hag⟩
          · exact ih _ _ _ _ hag
    · by_cases e2 : typ = LayerTypeSNAP
      · subst e2; rw [dlpLoop_snap, dlpLoop_snap]
        by_cases hsh : data.len < 5
        · rw [if_pos hsh, if_pos hsh]
          exact ⟨_, _, 1, rfl, rfl, hd, by simp only [ht], hl, hs, hp⟩
        · rw [if_neg hsh, if_neg hsh]
          simp only
          have hag : DlpAgree
              { s1 with snap := (snapDecSpec data.vis).layer, trunc := s1.trunc || (snapDecSpec data.vis).trunc,
                        decoded := s1.decoded ++ [LayerTypeSNAP] }
              { s2 with snap := (snapDecSpec data.vis).layer, trunc := s2.trunc || (snapDecSpec data.vis).trunc,
                        decoded := s2.decoded ++ [LayerTypeSNAP] } := by
            refine ⟨by simp only [hd], by simp only [ht], fun hm => ?_, fun _ => rfl, fun hm => ?_⟩
            · simp only [List.mem_append, List.mem_singleton] at hm
              rcases hm with hm | hm
              · exact hl hm
              · exact absurd hm.symm n1
            · simp only [List.mem_append, List.mem_singleton] at hm
              rcases hm with hm | hm
              · exact hp hm
              · exact absurd hm n3
          split
          · exact ⟨_, _, 0, rfl, rfl, hag⟩
          · exact ih _ _ _ _ hag
      · by_cases e3 : typ = LayerTypeSTP
        · subst e3; rw [dlpLoop_stp, dlpLoop_stp]
          by_cases hsh : data.len < 35
          · rw [if_pos hsh, if_pos hsh]
            exact ⟨_, _, 1, rfl, rfl, hd, by simp only [ht], hl, hs, hp⟩
          · rw [if_neg hsh, if_neg hsh]
            simp only
            have hag : DlpAgree
                { s1 with stp := (stpDecSpec data.vis).layer, trunc := s1.trunc || (stpDecSpec data.vis).trunc,
                          decoded := s1.decoded ++ [LayerTypeSTP] }
                { s2 with stp := (stpDecSpec data.vis).layer, trunc := s2.trunc || (stpDecSpec data.vis).trunc,
                          decoded := s2.decoded ++ [LayerTypeSTP] } := by
              refine ⟨by simp only [hd], by simp only [ht], fun hm => ?_, fun hm => ?_, fun _ => rfl⟩
              · simp only [List.mem_append, List.mem_singleton] at hm
                rcases hm with hm | hm
                · exact hl hm
                · exact absurd hm.symm n2
              · simp only [List.mem_append, List.mem_singleton] at hm
                rcases hm with hm | hm
                · exact hs hm
                · exact absurd hm.symm n3
            split
            · exact ⟨_, _, 0, rfl, rfl, hag⟩
            · exact ih _ _ _ _ hag
        · rw [dlpLoop_other _ _ _ _ e1 e2 e3, dlpLoop_other _ _ _ _ e1 e2 e3]
          split
          · exact ⟨_, _, 0, rfl, rfl, hd, ht, hl, hs, hp⟩
          · exact ⟨_, _, 2, rfl, rfl, hd, ht, hl, hs, hp⟩

end Gp.Llc
