import Gp.Lemmas.Layers.Ntp
/-
  Helper lemmas for engine `lntp`, part 2: NTP serialization over the C18 buffer model.  Core Lean only.

  Section 1 holds the *definitions* used in property statements (functional specification of
  `NTP.SerializeTo`, the observable view `serView`); the rest is proof machinery.
-/
namespace Gp.Ntp
open Gp Gp.SBuf Gp.C18 Gp.Gen.Ntp

/-! ## 1. Definitions used in property statements -/

/-- Functional specification of a SerializeTo call: the receiver afterwards, whether an error was
    returned, and (when not) the bytes the buffer then holds. -/
structure SerSpec (L : Type) where
  layer : L
  err   : Bool
  bytes : Bytes
  deriving Repr, DecidableEq

/-- What a caller can observe of a SerializeTo call: the receiver afterwards, the error flag and,
    when no error was returned, the bytes in the buffer (`Bytes()`); not the buffer's internals. -/
def serView {L : Type} (r : Res (SerOut L)) : Res (SerSpec L) :=
  match r with
  | .ok o => .ok { layer := o.layer, err := o.err, bytes := if o.err then [] else SBuf.contents o.buf }
  | .err k => .err k
  | .panic k => .panic k

/-- The 48 header bytes `NTP.SerializeTo` writes. -/
def ntpEncode (l : NTP) : Bytes :=
  [u8 (ntpFirstByte l), u8 l.stratum, byteOfInt8 l.poll, byteOfInt8 l.precision] ++
    putBe32 l.rootDelay ++ putBe32 l.rootDispersion ++ putBe32 l.referenceID ++
    putBe64 l.referenceTimestamp ++ putBe64 l.originTimestamp ++ putBe64 l.receiveTimestamp ++
    putBe64 l.transmitTimestamp

/-- What `NTP.SerializeTo` does, as a function of the layer and the payload `p` already in the buffer:
    never an error, the receiver unchanged, header ++ p ++ ExtensionBytes. -/
def ntpSerSpec (l : NTP) (p : Bytes) : SerSpec NTP :=
  { layer := l, err := false, bytes := ntpEncode l ++ p ++ l.extensionBytes }

/-! ## 2. Writing a window front to back -/

/-- A store of `vs` through a current window positioned right behind the already written prefix `W`
    of the contents replaces the next `|vs|` bytes. -/
theorem fill_next (b : SBuf) (h : Inv b) (w : Win) (W R vs : Bytes)
    (hg : w.gen = b.gen) (ho : w.off = b.start + W.length) (hc : contents b = W ++ R)
    (hv : vs.length ≤ R.length) :
    contents (fill b w vs) = (W ++ vs) ++ R.drop vs.length ∧ Inv (fill b w vs) ∧
    (fill b w vs).start = b.start ∧ (fill b w vs).gen = b.gen := by
  have hcl := contents_length b h
  rw [hc, List.length_append] at hcl
  have h' := h
  obtain ⟨i1, i2, i3⟩ := h
  have h1 : b.start ≤ w.off := by omega
  have h2 : w.off + vs.length ≤ b.len := by omega
  refine ⟨?_, inv_fill' b w vs h' (by omega), (fill_fields b w vs).1, (fill_fields b w vs).2.2.2.1⟩
  rw [fill_contents b w vs h' hg h1 h2, hc]
  have : w.off - b.start = W.length := by omega
  rw [this, List.take_left' rfl, List.drop_length_add_append]

/-- The same for a single indexed store `w[i] = v`. -/
theorem write_next (b : SBuf) (h : Inv b) (w : Win) (i : Nat) (v : UInt8) (W R : Bytes)
    (hg : w.gen = b.gen) (hi : i < w.n) (ho : w.off + i = b.start + W.length)
    (hc : contents b = W ++ R) (hr : 1 ≤ R.length) :
    ∃ b', write b w i v = .ok b' ∧ contents b' = (W ++ [v]) ++ R.drop 1 ∧ Inv b' ∧
      b'.start = b.start ∧ b'.gen = b.gen := by
  refine ⟨_, write_current b w i v hg hi, ?_, inv_set b _ v h, rfl, rfl⟩
  rw [contents_set b (w.off + i) v (by omega), hc]
  have : w.off + i - b.start = W.length := by omega
  rw [this]
  cases R with
  | nil => simp at hr
  | cons r rs => simp

theorem putBe32_length (v : Nat) : (putBe32 v).length = 4 := rfl
theorem putBe64_length (v : Nat) : (putBe64 v).length = 8 := rfl

/-- `binary.BigEndian.PutUint32(data[a:e], v)` right behind the written prefix. -/
theorem put32_next (b : SBuf) (h : Inv b) (data : Win) (a e v : Nat) (W R : Bytes)
    (he : e = a + 4) (hg : data.gen = b.gen) (ho : data.off + a = b.start + W.length) (hn : e ≤ data.n)
    (hc : contents b = W ++ R) (hr : 4 ≤ R.length) :
    ∃ w b', winSlice data a e = .ok w ∧ putUint32be b w v = .ok b' ∧
      contents b' = (W ++ putBe32 v) ++ R.drop 4 ∧ Inv b' ∧ b'.start = b.start ∧ b'.gen = b.gen := by
  subst he
  have hw : winSlice data a (a + 4) = .ok { gen := data.gen, off := data.off + a, n := a + 4 - a } := by
    unfold winSlice; rw [if_pos ⟨by omega, hn⟩]
  have hp : putUint32be b { gen := data.gen, off := data.off + a, n := a + 4 - a } v =
      .ok (fill b { gen := data.gen, off := data.off + a, n := a + 4 - a } (putBe32 v)) := by
    unfold putUint32be; rw [if_neg (by simp only; omega)]
  obtain ⟨c, i, s, g⟩ := fill_next b h { gen := data.gen, off := data.off + a, n := a + 4 - a } W R (putBe32 v)
    hg ho hc (by rw [putBe32_length]; exact hr)
  rw [putBe32_length] at c
  exact ⟨_, _, hw, hp, c, i, s, g⟩

/-- `binary.BigEndian.PutUint64(data[a:e], v)` right behind the written prefix. -/
theorem put64_next (b : SBuf) (h : Inv b) (data : Win) (a e v : Nat) (W R : Bytes)
    (he : e = a + 8) (hg : data.gen = b.gen) (ho : data.off + a = b.start + W.length) (hn : e ≤ data.n)
    (hc : contents b = W ++ R) (hr : 8 ≤ R.length) :
    ∃ w b', winSlice data a e = .ok w ∧ putUint64be b w v = .ok b' ∧
      contents b' = (W ++ putBe64 v) ++ R.drop 8 ∧ Inv b' ∧ b'.start = b.start ∧ b'.gen = b.gen := by
  subst he
  have hw : winSlice data a (a + 8) = .ok { gen := data.gen, off := data.off + a, n := a + 8 - a } := by
    unfold winSlice; rw [if_pos ⟨by omega, hn⟩]
  have hp : putUint64be b { gen := data.gen, off := data.off + a, n := a + 8 - a } v =
      .ok (fill b { gen := data.gen, off := data.off + a, n := a + 8 - a } (putBe64 v)) := by
    unfold putUint64be; rw [if_neg (by simp only; omega)]
  obtain ⟨c, i, s, g⟩ := fill_next b h { gen := data.gen, off := data.off + a, n := a + 8 - a } W R (putBe64 v)
    hg ho hc (by rw [putBe64_length]; exact hr)
  rw [putBe64_length] at c
  exact ⟨_, _, hw, hp, c, i, s, g⟩

/-! ## 3. The 48 header bytes -/

theorem ntpEncode_length (l : NTP) : (ntpEncode l).length = 48 := rfl

/-- ntp.go:359-375: the eleven stores behind `PrependBytes(48)` put exactly the 48 header bytes in
    front, for every buffer state (every requested byte is written). -/
theorem ntp_header_refines (l : NTP) (b1 : SBuf) (data : Win) (h : Inv b1) (hg : data.gen = b1.gen)
    (ho : data.off = b1.start) (hn : data.n = 48) (hc : 48 ≤ (contents b1).length) :
    ∃ b', ntpHeaderStores l b1 data = .ok b' ∧ Inv b' ∧ b'.start = b1.start ∧ b'.gen = b1.gen ∧
      contents b' = ntpEncode l ++ (contents b1).drop 48 := by
  unfold ntpHeaderStores
  obtain ⟨b2, e2, c2, i2, s2, g2⟩ := write_next b1 h data 0 (u8 (ntpFirstByte l)) [] (contents b1)
    hg (by omega) (by simpa using ho) rfl (by omega)
  rw [e2, Res.bind_ok]
  obtain ⟨b3, e3, c3, i3, s3, g3⟩ := write_next b2 i2 data 1 (u8 l.stratum) _ _
    (by omega) (by omega) (by simp only [List.length_append, List.length_nil, List.length_singleton]; omega) c2
    (by rw [List.length_drop]; omega)
  rw [e3, Res.bind_ok]
  rw [List.drop_drop] at c3
  obtain ⟨b4, e4, c4, i4, s4, g4⟩ := write_next b3 i3 data 2 (byteOfInt8 l.poll) _ _
    (by omega) (by omega) (by simp only [List.length_append, List.length_nil, List.length_singleton]; omega) c3
    (by rw [List.length_drop]; omega)
  rw [e4, Res.bind_ok]
  rw [List.drop_drop] at c4
  obtain ⟨b5, e5, c5, i5, s5, g5⟩ := write_next b4 i4 data 3 (byteOfInt8 l.precision) _ _
    (by omega) (by omega) (by simp only [List.length_append, List.length_nil, List.length_singleton]; omega) c4
    (by rw [List.length_drop]; omega)
  rw [e5, Res.bind_ok]
  rw [List.drop_drop] at c5
  obtain ⟨w6, b6, ew6, e6, c6, i6, s6, g6⟩ := put32_next b5 i5 data 4 8 l.rootDelay _ _ rfl
    (by omega) (by simp only [List.length_append, List.length_nil, List.length_singleton]; omega) (by omega) c5
    (by rw [List.length_drop]; omega)
  rw [ew6, Res.bind_ok, e6, Res.bind_ok]
  rw [List.drop_drop] at c6
  obtain ⟨w7, b7, ew7, e7, c7, i7, s7, g7⟩ := put32_next b6 i6 data 8 12 l.rootDispersion _ _ rfl
    (by omega) (by simp only [List.length_append, List.length_nil, List.length_singleton, putBe32_length]; omega)
    (by omega) c6 (by rw [List.length_drop]; omega)
  rw [ew7, Res.bind_ok, e7, Res.bind_ok]
  rw [List.drop_drop] at c7
  obtain ⟨w8, b8, ew8, e8, c8, i8, s8, g8⟩ := put32_next b7 i7 data 12 16 l.referenceID _ _ rfl
    (by omega) (by simp only [List.length_append, List.length_nil, List.length_singleton, putBe32_length]; omega)
    (by omega) c7 (by rw [List.length_drop]; omega)
  rw [ew8, Res.bind_ok, e8, Res.bind_ok]
  rw [List.drop_drop] at c8
  obtain ⟨w9, b9, ew9, e9, c9, i9, s9, g9⟩ := put64_next b8 i8 data 16 24 l.referenceTimestamp _ _ rfl
    (by omega) (by simp only [List.length_append, List.length_nil, List.length_singleton, putBe32_length]; omega)
    (by omega) c8 (by rw [List.length_drop]; omega)
  rw [ew9, Res.bind_ok, e9, Res.bind_ok]
  rw [List.drop_drop] at c9
  obtain ⟨w10, b10, ew10, e10, c10, i10, s10, g10⟩ := put64_next b9 i9 data 24 32 l.originTimestamp _ _ rfl
    (by omega)
    (by simp only [List.length_append, List.length_nil, List.length_singleton, putBe32_length, putBe64_length]; omega)
    (by omega) c9 (by rw [List.length_drop]; omega)
  rw [ew10, Res.bind_ok, e10, Res.bind_ok]
  rw [List.drop_drop] at c10
  obtain ⟨w11, b11, ew11, e11, c11, i11, s11, g11⟩ := put64_next b10 i10 data 32 40 l.receiveTimestamp _ _ rfl
    (by omega)
    (by simp only [List.length_append, List.length_nil, List.length_singleton, putBe32_length, putBe64_length]; omega)
    (by omega) c10 (by rw [List.length_drop]; omega)
  rw [ew11, Res.bind_ok, e11, Res.bind_ok]
  rw [List.drop_drop] at c11
  obtain ⟨w12, b12, ew12, e12, c12, i12, s12, g12⟩ := put64_next b11 i11 data 40 48 l.transmitTimestamp _ _ rfl
    (by omega)
    (by simp only [List.length_append, List.length_nil, List.length_singleton, putBe32_length, putBe64_length]; omega)
    (by omega) c11 (by rw [List.length_drop]; omega)
  rw [ew12, Res.bind_ok, e12]
  rw [List.drop_drop] at c12
  refine ⟨b12, rfl, i12, by omega, by omega, ?_⟩
  rw [c12]
  rfl

theorem write_ok (b : SBuf) (w : Win) (i : Nat) (v : UInt8) (hi : i < w.n) : ∃ b', write b w i v = .ok b' := by
  unfold write
  rw [if_pos hi]
  split
  · exact ⟨_, rfl⟩
  · exact ⟨_, rfl⟩

/-- The header stores never panic on a 48-byte window, whatever the buffer (no invariant needed). -/
theorem ntpHeaderStores_ok (l : NTP) (b : SBuf) (data : Win) (hn : data.n = 48) :
    ∃ b', ntpHeaderStores l b data = .ok b' := by
  unfold ntpHeaderStores
  obtain ⟨b1, h1⟩ := write_ok b data 0 (u8 (ntpFirstByte l)) (by omega)
  rw [h1, Res.bind_ok]
  obtain ⟨b2, h2⟩ := write_ok b1 data 1 (u8 l.stratum) (by omega)
  rw [h2, Res.bind_ok]
  obtain ⟨b3, h3⟩ := write_ok b2 data 2 (byteOfInt8 l.poll) (by omega)
  rw [h3, Res.bind_ok]
  obtain ⟨b4, h4⟩ := write_ok b3 data 3 (byteOfInt8 l.precision) (by omega)
  rw [h4, Res.bind_ok]
  have a1 : (4 : Nat) ≤ 8 ∧ 8 ≤ data.n := by omega
  have a2 : (8 : Nat) ≤ 12 ∧ 12 ≤ data.n := by omega
  have a3 : (12 : Nat) ≤ 16 ∧ 16 ≤ data.n := by omega
  have a4 : (16 : Nat) ≤ 24 ∧ 24 ≤ data.n := by omega
  have a5 : (24 : Nat) ≤ 32 ∧ 32 ≤ data.n := by omega
  have a6 : (32 : Nat) ≤ 40 ∧ 40 ≤ data.n := by omega
  have a7 : (40 : Nat) ≤ 48 ∧ 48 ≤ data.n := by omega
  simp only [winSlice, a1, a2, a3, a4, a5, a6, a7, and_self, if_true, Res.bind_ok, putUint32be, putUint64be,
    Nat.reduceSub, Nat.lt_irrefl, if_false]
  exact ⟨_, rfl⟩

/-! ## 4. SerializeTo -/

/-- Refinement: on every buffer satisfying the C18 invariant, `NTP.serializeTo` returns (never
    panics, never an error), leaves the receiver alone, and the buffer then holds
    header ++ (what it held) ++ ExtensionBytes. -/
theorem ntp_serializeTo_refines (l : NTP) (b : SBuf) (fix csum : Bool) (h : Inv b) :
    ∃ o, l.serializeTo b fix csum = .ok o ∧ Inv o.buf ∧ o.layer = l ∧ o.err = false ∧
      contents o.buf = ntpEncode l ++ contents b ++ l.extensionBytes := by
  unfold NTP.serializeTo
  rw [min_size]
  have hi1 := inv_prepend' b 48 h
  have hn : (prepend b 48).2.n = 48 := rfl
  have hgen : (prepend b 48).2.gen = (prepend b 48).1.gen := rfl
  have hoff : (prepend b 48).2.off = (prepend b 48).1.start := rfl
  have hlen := prepend_contents_length b 48 h
  have hdrop := prepend_contents_drop b 48 h
  generalize prepend b 48 = r at hi1 hn hgen hoff hlen hdrop
  obtain ⟨b1, data⟩ := r
  simp only at hi1 hn hgen hoff hlen hdrop
  obtain ⟨b2, e2, i2, -, -, c2⟩ := ntp_header_refines l b1 data hi1 hgen hoff hn (by omega)
  simp only
  rw [e2, Res.bind_ok]
  rw [hdrop] at c2
  -- AppendBytes(len(ext)); copy(ex, ext)  =  one `append` step of the C18 history
  have hstep : copyTo (append b2 l.extensionBytes.length).1 (append b2 l.extensionBytes.length).2 l.extensionBytes =
      step b2 (.append l.extensionBytes) := by
    rw [step_append]
    unfold copyTo
    have : (append b2 l.extensionBytes.length).2.n = l.extensionBytes.length := rfl
    rw [this, List.take_of_length_le (Nat.le_refl _)]
  refine ⟨_, rfl, ?_, rfl, rfl, ?_⟩
  · show Inv (copyTo (append b2 l.extensionBytes.length).1 (append b2 l.extensionBytes.length).2 l.extensionBytes)
    rw [hstep]; exact inv_step' b2 _ i2
  · show contents (copyTo (append b2 l.extensionBytes.length).1 (append b2 l.extensionBytes.length).2 l.extensionBytes) = _
    rw [hstep, contents_step_append b2 _ i2, c2]

/-- `NTP.SerializeTo` never panics: every field value, every option set, every buffer state. -/
theorem ntp_serializeTo_ok (l : NTP) (b : SBuf) (fix csum : Bool) : ∃ o, l.serializeTo b fix csum = .ok o := by
  unfold NTP.serializeTo
  rw [min_size]
  have hn : (prepend b 48).2.n = 48 := rfl
  generalize prepend b 48 = r at hn
  obtain ⟨b1, data⟩ := r
  simp only at hn
  obtain ⟨b2, e2⟩ := ntpHeaderStores_ok l b1 data hn
  simp only
  rw [e2, Res.bind_ok]
  exact ⟨_, rfl⟩

theorem ntp_serializeTo_no_panic (l : NTP) (b : SBuf) (fix csum : Bool) (k : PanicKind) :
    l.serializeTo b fix csum ≠ .panic k := by
  obtain ⟨o, ho⟩ := ntp_serializeTo_ok l b fix csum
  rw [ho]; exact fun h => nomatch h

/-! ## 5. Observable view -/

theorem ntp_serView (l : NTP) (b : SBuf) (fix csum : Bool) (h : Inv b) :
    serView (l.serializeTo b fix csum) = .ok (ntpSerSpec l (SBuf.contents b)) := by
  obtain ⟨o, ho, -, hl, he, hb⟩ := ntp_serializeTo_refines l b fix csum h
  rw [ho]
  unfold serView ntpSerSpec
  simp only [hl, he, hb, Bool.false_eq_true, if_false]

end Gp.Ntp
