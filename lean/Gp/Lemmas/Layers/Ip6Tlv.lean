import Gp.Lemmas.Layers.Ip6Wr
/-
  serializeIPv6HeaderTLVOptions: layout (dry run), panic freedom for EVERY option list, and the
  closed form of the bytes written when every requested byte is written (`GapFree`).
  Core Lean only.
-/
namespace Gp.Ip6
open Gp

/-! ## Definitions used in statements -/

/-- The padding length inserted before option `o` when the running length is `length`. -/
def alignPad (fix : Bool) (o : Tlv) (length : Nat) : Nat :=
  if fix then
    if o.ax ≠ 0 then
      let n := length / o.ax
      let offset := o.ax * n + o.ay
      let offset := if offset < length then offset + o.ax else offset
      if length ≠ offset then offset - length else 0
    else 0
  else 0

/-- The option as mutated by serializeTo. -/
def fixOpt (fix : Bool) (o : Tlv) : Tlv :=
  if o.typ = 0 then o else if fix then { o with len := o.bytes.length % 256 } else o

/-- Length consumed by a (mutated) option. -/
def optLen (o : Tlv) : Nat := if o.typ = 0 then 1 else o.len + 2

/-- Bytes of a PadN/Pad1 padding of `pad` bytes. -/
def padBytes (pad : Nat) : Bytes :=
  if pad = 0 then [] else if pad = 1 then [0]
  else 1 :: u8 ((pad % 256 + 254) % 256) :: List.replicate (pad - 2) 0

/-- Bytes of a (mutated) option whose data is at least as long as its length field says. -/
def optBytes (o : Tlv) : Bytes :=
  if o.typ = 0 then [0] else u8 o.typ :: u8 o.len :: o.bytes.take o.len

/-- Layout + contents of the option loop started at `length`: (bytes, final length). -/
def encLoop (fix : Bool) : List Tlv → Nat → Bytes × Nat
  | [], length => ([], length)
  | o :: os, length =>
    let pad := alignPad fix o length
    let o' := fixOpt fix o
    let r := encLoop fix os (length + pad + optLen o')
    (padBytes pad ++ optBytes o' ++ r.1, r.2)

/-- The whole option area written by serializeIPv6HeaderTLVOptions. -/
def encOpts (fix : Bool) (os : List Tlv) : Bytes :=
  let r := encLoop fix os 2
  r.1 ++ (if fix then padBytes (finalPad r.2) else [])

/-- Length of the option area (what the dry run returns). -/
def encLen (fix : Bool) (os : List Tlv) : Nat :=
  let l := (encLoop fix os 2).2
  (if fix then l + finalPad l else l) - 2

/-- Every byte of every option region gets written: the data is at least as long as the length
    field says (always true with FixLengths, and for every decoded option). -/
def GapFree (fix : Bool) (os : List Tlv) : Prop :=
  ∀ o ∈ os, o.typ ≠ 0 → (fixOpt fix o).len ≤ o.bytes.length

/-- Alignment values are `uint8`. -/
def AlignInRange (os : List Tlv) : Prop := ∀ o ∈ os, o.ax < 256 ∧ o.ay < 256

/-! ## basic facts -/

theorem fixOpt_bytes (fix : Bool) (o : Tlv) : (fixOpt fix o).bytes = o.bytes := by
  unfold fixOpt; split
  · rfl
  · split <;> rfl

theorem fixOpt_typ (fix : Bool) (o : Tlv) : (fixOpt fix o).typ = o.typ := by
  unfold fixOpt; split
  · rfl
  · split <;> rfl

theorem fixOpt_idem (fix : Bool) (o : Tlv) : fixOpt fix (fixOpt fix o) = fixOpt fix o := by
  unfold fixOpt
  by_cases h : o.typ = 0
  · simp [h]
  · by_cases hf : fix = true
    · simp [h, hf, Tlv.bytes]
    · simp [h, hf]

theorem fixOpt_align (fix : Bool) (o : Tlv) : (fixOpt fix o).ax = o.ax ∧ (fixOpt fix o).ay = o.ay := by
  unfold fixOpt; split
  · exact ⟨rfl, rfl⟩
  · split <;> exact ⟨rfl, rfl⟩

theorem alignPad_fixOpt (fix : Bool) (o : Tlv) (length : Nat) :
    alignPad fix (fixOpt fix o) length = alignPad fix o length := by
  unfold alignPad
  rw [(fixOpt_align fix o).1, (fixOpt_align fix o).2]

theorem padBytes_length (pad : Nat) : (padBytes pad).length = pad := by
  unfold padBytes
  split
  · simp_all
  · split
    · simp_all
    · simp; omega

theorem optBytes_length (o : Tlv) (h : o.typ ≠ 0 → o.len ≤ o.bytes.length) :
    (optBytes o).length = optLen o := by
  unfold optBytes optLen
  split
  · simp
  · rename_i ht
    simp [List.length_take, Nat.min_eq_left (h ht)]

theorem encLoop_ge (fix : Bool) : ∀ (os : List Tlv) (length : Nat), length ≤ (encLoop fix os length).2 := by
  intro os
  induction os with
  | nil => intro length; simp [encLoop]
  | cons o os ih =>
    intro length
    simp only [encLoop]
    have := ih (length + alignPad fix o length + optLen (fixOpt fix o))
    omega

/-- the alignment padding is smaller than 256 for uint8 alignments -/
theorem alignPad_lt (fix : Bool) (o : Tlv) (length : Nat) (h : o.ax < 256 ∧ o.ay < 256) :
    alignPad fix o length < 256 := by
  unfold alignPad
  split
  · split
    · rename_i hx
      dsimp only
      have hx' : 0 < o.ax := Nat.pos_of_ne_zero hx
      have h1 : o.ax * (length / o.ax) ≤ length := Nat.mul_div_le length o.ax
      have h2 : length < o.ax * (length / o.ax) + o.ax := by
        have := Nat.lt_mul_div_succ length hx'
        rw [Nat.mul_succ] at this; exact this
      split <;> split <;> omega
    · omega
  · omega

end Gp.Ip6
