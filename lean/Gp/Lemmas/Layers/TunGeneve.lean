import Gp.Model.Layers.TunGeneve
import Gp.Lemmas.Layers.Tun
/-
  Helper lemmas for engine `ltun`, part 3: Geneve, decode side.  A panic-free, capacity-free
  specification of the decoder (`specOption`, `specLoop`, `spec`: plain pattern matching on byte
  lists) and the refinement theorem `decode_cases`: the transcription of DecodeFromBytes (with Go's
  index/slice panics, the running offset and the foreign bytes beyond `len`) computes exactly the
  specification, which never panics and never runs out of fuel.
-/
namespace Gp.Tun.Geneve
open Gp Gp.Tun

/-! ### the specification -/

/-- one option at the head of a view. -/
def specOption (d : Bytes) : Res (GOpt × Nat) :=
  match d with
  | c0 :: c1 :: t :: b3 :: rest =>
    let len := (b3.toNat &&& 0x1f) * 4 + 4
    if rest.length + 4 < len then errTruncated
    else .ok ({ cls := be16 c0 c1, typ := t.toNat, flags := b3.toNat >>> 5, length := len,
                data := rest.take (len - 4) }, len)
  | _ => errTruncated

/-- the option loop on a view: `len` bytes of options are still announced; returns the options and
    the number of bytes they occupy. -/
def specLoop : Nat → Nat → Bytes → Res (List GOpt × Nat)
  | 0, _, _ => .panic .explicit
  | fuel + 1, len, d =>
    if len = 0 then .ok ([], 0)
    else
      match specOption d with
      | .ok (o, n) =>
        if n > len then errOverrun
        else
          match specLoop fuel (len - n) (d.drop n) with
          | .ok (os, m) => .ok (o :: os, n + m)
          | .err e => .err e
          | .panic k => .panic k
      | .err e => .err e
      | .panic k => .panic k

/-- What DecodeFromBytes (tree with ltun-1/2/3) computes on `data`. -/
def spec (data : Bytes) : Res (Layer × Bool) :=
  match data with
  | d0 :: d1 :: p0 :: p1 :: v0 :: v1 :: v2 :: d7 :: r0 =>
    let ol := (d0.toNat &&& 0x3f) * 4
    if r0.length < ol then errTruncated
    else
      match specLoop (r0.length + 8) ol r0 with
      | .ok (os, m) =>
        .ok ({ contents := (d0 :: d1 :: p0 :: p1 :: v0 :: v1 :: v2 :: d7 :: r0).take (8 + m),
               payload := r0.drop m,
               version := d0.toNat >>> 6, optionsLength := ol,
               oamPacket := decide (d1.toNat &&& 0x80 > 0),
               criticalOption := decide (d1.toNat &&& 0x40 > 0),
               protocol := be16 p0 p1, vni := be32 0 v0 v1 v2, options := os }, false)
      | .err e => .err e
      | .panic k => .panic k
  | _ => errTruncated

/-! ### facts about the specification -/

/-- what a successfully parsed option looks like. -/
def OptOk (o : GOpt) : Prop :=
  o.cls < 65536 ∧ o.typ < 256 ∧ o.flags < 8 ∧ o.length = 4 + o.data.length ∧
  o.data.length % 4 = 0 ∧ o.data.length ≤ 124

theorem and_1f_le (n : Nat) : n &&& 0x1f ≤ 31 := Nat.and_le_right
theorem and_3f_le (n : Nat) : n &&& 0x3f ≤ 63 := Nat.and_le_right

theorem shr5_lt (b : UInt8) : b.toNat >>> 5 < 8 := by
  have := b.toNat_lt
  rw [Nat.shiftRight_eq_div_pow]
  omega

theorem shr6_lt (b : UInt8) : b.toNat >>> 6 < 4 := by
  have := b.toNat_lt
  rw [Nat.shiftRight_eq_div_pow]
  omega

theorem specOption_ok (d : Bytes) (o : GOpt) (n : Nat) (h : specOption d = .ok (o, n)) :
    OptOk o ∧ n = o.length ∧ 4 ≤ n ∧ n % 4 = 0 ∧ n ≤ d.length := by
  match d, h with
  | c0 :: c1 :: t :: b3 :: rest, h =>
    simp only [specOption] at h
    have hk := and_1f_le b3.toNat
    generalize b3.toNat &&& 0x1f = k at h hk
    split at h
    · cases h
    · rename_i hl
      simp only [Res.ok.injEq, Prod.mk.injEq] at h
      obtain ⟨ho, hn⟩ := h
      subst ho hn
      have hlen : (List.take (k * 4 + 4 - 4) rest).length = k * 4 := by
        rw [List.length_take]; omega
      refine ⟨⟨be16_lt c0 c1, t.toNat_lt, shr5_lt b3, ?_, ?_, ?_⟩, rfl, by omega, by omega, ?_⟩
      · simp only [hlen]; omega
      · simp only [hlen]; omega
      · simp only [hlen]; omega
      · simp only [List.length_cons]; omega

theorem specOption_no_panic (d : Bytes) (k : PanicKind) : specOption d ≠ .panic k := by
  unfold specOption
  split
  · dsimp only
    split
    · intro h; cases h
    · intro h; cases h
  · intro h; cases h

/-- with the fuel DecodeFromBytes provides the loop never runs dry. -/
theorem specLoop_no_panic : ∀ (fuel len : Nat) (d : Bytes), len < 4 * fuel → ∀ k, specLoop fuel len d ≠ .panic k := by
  intro fuel
  induction fuel with
  | zero => intro len d h; omega
  | succ fuel ih =>
    intro len d h k
    rw [specLoop]
    split
    · intro hk; cases hk
    · cases ho : specOption d with
      | panic k' => exact absurd ho (specOption_no_panic d k')
      | err e => intro hk; cases hk
      | ok x =>
        obtain ⟨o, n⟩ := x
        obtain ⟨_, _, h4, _, _⟩ := specOption_ok d o n ho
        simp only
        split
        · intro hk; cases hk
        · have := ih (len - n) (d.drop n) (by omega)
          cases hr : specLoop fuel (len - n) (d.drop n) with
          | panic k' => exact absurd hr (this k')
          | err e => intro hk; cases hk
          | ok y => intro hk; cases hk

/-- a successful loop consumes exactly the announced length, and all its options are in range. -/
theorem specLoop_ok : ∀ (fuel len : Nat) (d : Bytes) (os : List GOpt) (m : Nat),
    specLoop fuel len d = .ok (os, m) → m = len ∧ m ≤ d.length ∧ ∀ o ∈ os, OptOk o := by
  intro fuel
  induction fuel with
  | zero => intro len d os m h; simp [specLoop] at h
  | succ fuel ih =>
    intro len d os m h
    rw [specLoop] at h
    split at h
    · rename_i h0
      simp only [Res.ok.injEq, Prod.mk.injEq] at h
      obtain ⟨h1, h2⟩ := h
      subst h1 h2
      exact ⟨h0.symm, by omega, by intro o ho; cases ho⟩
    · cases ho : specOption d with
      | panic k' => rw [ho] at h; cases h
      | err e => rw [ho] at h; cases h
      | ok x =>
        obtain ⟨o, n⟩ := x
        obtain ⟨hok, _, h4, _, hnd⟩ := specOption_ok d o n ho
        rw [ho] at h
        simp only at h
        split at h
        · cases h
        · cases hr : specLoop fuel (len - n) (d.drop n) with
          | panic k' => rw [hr] at h; cases h
          | err e => rw [hr] at h; cases h
          | ok y =>
            obtain ⟨os', m'⟩ := y
            rw [hr] at h
            simp only [Res.ok.injEq, Prod.mk.injEq] at h
            obtain ⟨h1, h2⟩ := h
            obtain ⟨e1, e2, e3⟩ := ih (len - n) (d.drop n) os' m' hr
            rw [List.length_drop] at e2
            subst h1 h2
            refine ⟨by omega, by omega, ?_⟩
            intro x hx
            rcases List.mem_cons.mp hx with hx | hx
            · subst hx; exact hok
            · exact e3 x hx

/-! ### refinement of decodeGeneveOption and of the loop -/

/-- decodeGeneveOption on a slice that holds at least the 4-byte option header. -/
theorem decodeOption_spec (c0 c1 t b3 : UInt8) (rest foreign : Bytes) :
    decodeOption (c0 :: c1 :: t :: b3 :: rest) foreign = specOption (c0 :: c1 :: t :: b3 :: rest) := by
  have hs : sliceCap (c0 :: c1 :: t :: b3 :: rest) foreign 0 2 = .ok [c0, c1] :=
    sliceCap_mid [] [c0, c1] (t :: b3 :: rest) foreign
  have i2 : index (c0 :: c1 :: t :: b3 :: rest) 2 = .ok t := rfl
  have i3 : index (c0 :: c1 :: t :: b3 :: rest) 3 = .ok b3 := rfl
  have hk := and_1f_le b3.toNat
  unfold decodeOption specOption
  rw [if_neg (by simp only [List.length_cons]; omega), hs]
  simp only [Res.bind_ok, beUint16_pair, i2, i3]
  generalize b3.toNat &&& 0x1f = k at hk
  have hmod : (k * 4 + 4) % 256 = k * 4 + 4 := by omega
  have hdl : (k * 4 + 4 + 256 - 4) % 256 = k * 4 := by omega
  rw [hmod, hdl]
  by_cases hl : rest.length + 4 < k * 4 + 4
  · rw [if_pos (by simp only [List.length_cons]; omega), if_pos hl]
  · rw [if_neg (by simp only [List.length_cons]; omega), if_neg hl]
    have hs2 : sliceCap (c0 :: c1 :: t :: b3 :: rest) foreign 4 (k * 4 + 4) = .ok (rest.take (k * 4)) := by
      have := sliceCap_take [c0, c1, t, b3] rest foreign (k * 4) (by omega)
      rw [show [c0, c1, t, b3].length + k * 4 = k * 4 + 4 from by simp; omega] at this
      exact this
    rw [hs2]
    simp only [Res.bind_ok]
    rw [copyInto_same_length _ _ (by rw [List.length_take, Gp.C18.zeros_length]; omega)]
    have : k * 4 + 4 - 4 = k * 4 := by omega
    rw [this]
    rfl

/-- a view of at least four bytes is four conses. -/
theorem four_view (l : Bytes) (h : 4 ≤ l.length) : ∃ a b c d r, l = a :: b :: c :: d :: r := by
  match l, h with
  | a :: b :: c :: d :: r, _ => exact ⟨a, b, c, d, r, rfl⟩

/-- lift of a loop result from view coordinates to absolute offsets. -/
def liftLoop (offset : Nat) (r : Res (List GOpt × Nat)) : Res (List GOpt × Nat) :=
  match r with
  | .ok (os, m) => .ok (os, offset + m)
  | .err e => .err e
  | .panic k => .panic k

/-- **the option loop computes its specification** whenever it is entered with the invariant of
    DecodeFromBytes: the offset lies inside the data, the announced length is a multiple of 4 and
    not more than what is left. -/
theorem decodeLoop_spec (data foreign : Bytes) :
    ∀ (fuel offset len : Nat), offset ≤ data.length → len % 4 = 0 → len ≤ (data.drop offset).length →
      decodeLoop Variant.fixed data foreign fuel offset (len : Int)
        = liftLoop offset (specLoop fuel len (data.drop offset)) := by
  intro fuel
  induction fuel with
  | zero => intro offset len _ _ _; rfl
  | succ fuel ih =>
    intro offset len hoff h4 hlen
    have hdl : (data.drop offset).length = data.length - offset := List.length_drop
    rw [decodeLoop, specLoop]
    by_cases h0 : len = 0
    · subst h0
      simp [liftLoop]
      rfl
    · have hpos : ((len : Nat) : Int) > 0 := by omega
      rw [if_pos hpos, if_neg h0, sliceFrom_le data offset hoff]
      simp only [Res.bind_ok]
      obtain ⟨c0, c1, t, b3, rest, hv⟩ := four_view (data.drop offset) (by omega)
      rw [hv, decodeOption_spec]
      rw [← hv]
      cases ho : specOption (data.drop offset) with
      | panic k' => exact absurd ho (specOption_no_panic _ k')
      | err e => rfl
      | ok x =>
        obtain ⟨o, n⟩ := x
        obtain ⟨_, _, hn4, hnm, hnd⟩ := specOption_ok _ o n ho
        simp only [Res.bind_ok]
        have hfix1 : Variant.fixed.rejectOverrun = true := rfl
        have hfix2 : Variant.fixed.intOffset = true := rfl
        simp only [hfix1, hfix2, Bool.true_and, if_true]
        by_cases hov : n > len
        · have : ((n : Nat) : Int) > (len : Int) := by omega
          rw [if_pos (by simpa using this), if_pos hov]
          rfl
        · have : ¬ ((n : Nat) : Int) > (len : Int) := by omega
          rw [if_neg (by simpa using this), if_neg hov]
          have hsub : ((len : Nat) : Int) - ((n : Nat) : Int) = ((len - n : Nat) : Int) := by omega
          rw [hsub, ih (offset + n) (len - n) (by omega) (by omega)
            (by rw [List.length_drop]; omega), ← List.drop_drop]
          cases specLoop fuel (len - n) (List.drop n (List.drop offset data)) with
          | panic k' => rfl
          | err e => rfl
          | ok y =>
            obtain ⟨os', m'⟩ := y
            simp only [liftLoop, Res.bind_ok]
            show Res.ok (o :: os', offset + n + m') = Res.ok (o :: os', offset + (n + m'))
            rw [Nat.add_assoc]

/-! ### refinement of DecodeFromBytes -/

/-- **The transcription of DecodeFromBytes computes the specification** — for every receiver value,
    every capacity and every content of the spare capacity. -/
theorem decode_cases (old : Layer) (data foreign : Bytes) : decode old data foreign = spec data := by
  match data with
  | [] => rfl
  | [_] => rfl
  | [_, _] => rfl
  | [_, _, _] => rfl
  | [_, _, _, _] => rfl
  | [_, _, _, _, _] => rfl
  | [_, _, _, _, _, _] => rfl
  | [_, _, _, _, _, _, _] => rfl
  | d0 :: d1 :: p0 :: p1 :: v0 :: v1 :: v2 :: d7 :: r0 =>
    generalize hdata : d0 :: d1 :: p0 :: p1 :: v0 :: v1 :: v2 :: d7 :: r0 = data
    have hlen : data.length = r0.length + 8 := by rw [← hdata]; simp
    have hd8 : data.drop 8 = r0 := by rw [← hdata]; rfl
    have i0 : index data 0 = .ok d0 := by rw [← hdata]; rfl
    have i1 : index data 1 = .ok d1 := by rw [← hdata]; rfl
    have h1 : sliceCap data foreign 2 4 = .ok [p0, p1] := by
      rw [← hdata]; exact sliceCap_mid [d0, d1] [p0, p1] (v0 :: v1 :: v2 :: d7 :: r0) foreign
    have h2 : sliceCap data foreign 4 7 = .ok [v0, v1, v2] := by
      rw [← hdata]; exact sliceCap_mid [d0, d1, p0, p1] [v0, v1, v2] (d7 :: r0) foreign
    have hk := and_3f_le d0.toNat
    have hspec : spec data = spec (d0 :: d1 :: p0 :: p1 :: v0 :: v1 :: v2 :: d7 :: r0) := by rw [hdata]
    rw [hspec]
    unfold decode decodeV spec
    rw [if_neg (by omega), i0, i1, h1, h2]
    simp only [Res.bind_ok, beUint16_pair, vni24_three]
    have hv6 : Variant.fixed.version6 = true := rfl
    simp only [hv6, if_true]
    generalize d0.toNat &&& 0x3f = j at hk
    have hmod : j * 4 % 256 = j * 4 := by omega
    rw [hmod, hdata]
    by_cases hshort : r0.length < j * 4
    · rw [if_pos (by omega), if_pos hshort]
    · rw [if_neg (by omega), if_neg hshort]
      have hloop := decodeLoop_spec data foreign data.length 8 (j * 4) (by omega) (by omega)
        (by rw [hd8]; omega)
      rw [hloop, hd8, hlen]
      cases hs : specLoop (r0.length + 8) (j * 4) r0 with
      | panic k => rfl
      | err e => rfl
      | ok y =>
        obtain ⟨os, m⟩ := y
        obtain ⟨hm, hmr, _⟩ := specLoop_ok _ _ _ _ _ hs
        simp only [liftLoop, Res.bind_ok]
        rw [sliceCap_le data foreign 0 (8 + m) (by omega) (by omega), sliceFrom_le data (8 + m) (by omega)]
        simp only [Res.bind_ok, List.drop_zero, Nat.sub_zero]
        rw [← List.drop_drop, hd8]
        rfl

/-- the specification never panics (in particular: the loop fuel `len(data)` suffices). -/
theorem spec_no_panic (data : Bytes) (k : PanicKind) : spec data ≠ .panic k := by
  unfold spec
  split
  · rename_i d0 d1 p0 p1 v0 v1 v2 d7 r0
    have hk := and_3f_le d0.toNat
    dsimp only
    split
    · intro h; cases h
    · have := specLoop_no_panic (r0.length + 8) ((d0.toNat &&& 0x3f) * 4) r0 (by omega)
      cases hs : specLoop (r0.length + 8) ((d0.toNat &&& 0x3f) * 4) r0 with
      | panic k' => exact absurd hs (this k')
      | err e => intro h; cases h
      | ok y => intro h; cases h
  · intro h; cases h

/-- the only error texts: the two SetTruncated ones and the overrun. -/
theorem specLoop_err : ∀ (fuel len : Nat) (d : Bytes) (e : String), specLoop fuel len d = .err e →
    e = "geneve:truncated" ∨ e = "geneve option exceeds the options length" := by
  intro fuel
  induction fuel with
  | zero => intro len d e h; simp [specLoop] at h
  | succ fuel ih =>
    intro len d e h
    rw [specLoop] at h
    split at h
    · cases h
    · cases ho : specOption d with
      | panic k' => rw [ho] at h; cases h
      | err e' =>
        rw [ho] at h
        simp only [Res.err.injEq] at h
        subst h
        left
        unfold specOption at ho
        split at ho
        · dsimp only at ho
          split at ho
          · simp only [errTruncated, Res.err.injEq] at ho; exact ho.symm
          · cases ho
        · simp only [errTruncated, Res.err.injEq] at ho; exact ho.symm
      | ok x =>
        obtain ⟨o, n⟩ := x
        rw [ho] at h
        simp only at h
        split at h
        · simp only [errOverrun, Res.err.injEq] at h; right; exact h.symm
        · cases hr : specLoop fuel (len - n) (d.drop n) with
          | panic k' => rw [hr] at h; cases h
          | err e' =>
            rw [hr] at h
            simp only [Res.err.injEq] at h
            subst h
            exact ih _ _ _ hr
          | ok y => rw [hr] at h; cases h

/-- A history of DecodeFromBytes calls on ONE layer object (see Vxlan.decodeSeq). -/
def decodeSeq (afterErr : Layer → Bytes → Layer) : Layer → List (Bytes × Bytes) → List (Res (Layer × Bool))
  | _, [] => []
  | cur, (data, foreign) :: rest =>
    let r := decode cur data foreign
    let next := match r with
      | .ok (l, _) => l
      | _ => afterErr cur data
    r :: decodeSeq afterErr next rest

end Gp.Tun.Geneve
