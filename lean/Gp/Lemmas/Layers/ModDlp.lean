import Gp.Lemmas.Layers.ModSpec
/-
  Helper lemmas for engine `lmod`, part 3: the DecodingLayerParser loop over {ModbusTCP, LCM, PFLog}.
  Core Lean only.
-/
namespace Gp.Mod
open Gp Gp.Gen.Mod

/-! ## 1. The parser loop, one iteration in terms of the decode specifications -/

theorem lt_ne_1 : ¬ (LayerTypeLCM = LayerTypeModbusTCP) := by decide
theorem lt_ne_2 : ¬ (LayerTypePFLog = LayerTypeModbusTCP) := by decide
theorem lt_ne_3 : ¬ (LayerTypePFLog = LayerTypeLCM) := by decide

theorem dlpLoop_modbus (reg : List (Nat × Nat)) (fuel : Nat) (st : DlpState) (data : GSlice) :
    dlpLoop reg (fuel + 1) st LayerTypeModbusTCP data =
      let o := modbusDecSpec st.modbus data.vis
      let st1 : DlpState := { st with modbus := o.layer, trunc := st.trunc || o.trunc }
      if o.err then .ok (st1, 1) else
      let st' : DlpState := { st1 with decoded := st.decoded ++ [LayerTypeModbusTCP] }
      let rest : GSlice := { vis := o.layer.payload, tail := data.tail }
      if rest.len = 0 then .ok (st', 0) else dlpLoop reg fuel st' o.layer.nextLayerType rest := by
  conv => lhs; unfold dlpLoop
  simp only [if_true, ModbusTCP.decode_eq st.modbus data]

theorem dlpLoop_lcm (reg : List (Nat × Nat)) (fuel : Nat) (st : DlpState) (data : GSlice) :
    dlpLoop reg (fuel + 1) st LayerTypeLCM data =
      let o := lcmDecSpec st.lcm data.vis
      let st1 : DlpState := { st with lcm := o.layer, trunc := st.trunc || o.trunc }
      if o.err then .ok (st1, 1) else
      let st' : DlpState := { st1 with decoded := st.decoded ++ [LayerTypeLCM] }
      let rest : GSlice := { vis := o.layer.payload, tail := data.tail }
      if rest.len = 0 then .ok (st', 0) else dlpLoop reg fuel st' (o.layer.nextLayerType reg) rest := by
  conv => lhs; unfold dlpLoop
  simp only [lt_ne_1, if_false, if_true, LCM.decode_eq st.lcm data]

theorem dlpLoop_pflog (reg : List (Nat × Nat)) (fuel : Nat) (st : DlpState) (data : GSlice) :
    dlpLoop reg (fuel + 1) st LayerTypePFLog data =
      let o := pflogDecSpec st.pflog data.vis
      let st1 : DlpState := { st with pflog := o.layer, trunc := st.trunc || o.trunc }
      if o.err then .ok (st1, 1) else
      let st' : DlpState := { st1 with decoded := st.decoded ++ [LayerTypePFLog] }
      let rest : GSlice := { vis := o.layer.payload, tail := data.tail }
      if rest.len = 0 then .ok (st', 0) else dlpLoop reg fuel st' o.layer.nextLayerType rest := by
  conv => lhs; unfold dlpLoop
  simp only [lt_ne_2, lt_ne_3, if_false, if_true, PFLog.decode_eq st.pflog data]

theorem dlpLoop_other (reg : List (Nat × Nat)) (fuel : Nat) (st : DlpState) (typ : Nat) (data : GSlice)
    (h1 : typ ≠ LayerTypeModbusTCP) (h2 : typ ≠ LayerTypeLCM) (h3 : typ ≠ LayerTypePFLog) :
    dlpLoop reg (fuel + 1) st typ data = if typ = LayerTypeZero then .ok (st, 0) else .ok (st, 2) := by
  unfold dlpLoop
  simp only [h1, h2, h3, if_false]

/-! ## 2. No panic, fuel, capacity -/

theorem dlpLoop_no_panic (reg : List (Nat × Nat)) (fuel : Nat) (st : DlpState) (typ : Nat) (data : GSlice) (k : PanicKind) :
    dlpLoop reg fuel st typ data ≠ .panic k := by
  induction fuel generalizing st typ data with
  | zero => unfold dlpLoop; exact fun h => nomatch h
  | succ fuel ih =>
    by_cases h1 : typ = LayerTypeModbusTCP
    · subst h1; rw [dlpLoop_modbus]
      simp only; split
      · exact fun h => nomatch h
      · split
        · exact fun h => nomatch h
        · exact ih _ _ _
    · by_cases h2 : typ = LayerTypeLCM
      · subst h2; rw [dlpLoop_lcm]
        simp only; split
        · exact fun h => nomatch h
        · split
          · exact fun h => nomatch h
          · exact ih _ _ _
      · by_cases h3 : typ = LayerTypePFLog
        · subst h3; rw [dlpLoop_pflog]
          simp only; split
          · exact fun h => nomatch h
          · split
            · exact fun h => nomatch h
            · exact ih _ _ _
        · rw [dlpLoop_other reg _ _ _ _ h1 h2 h3]; split <;> exact fun h => nomatch h

/-- The result of the parser loop does not depend on the capacity of the packet buffer / the bytes
    behind the input. -/
theorem dlpLoop_cap (reg : List (Nat × Nat)) (fuel : Nat) (st : DlpState) (typ : Nat) (v t1 t2 : Bytes) :
    dlpLoop reg fuel st typ { vis := v, tail := t1 } = dlpLoop reg fuel st typ { vis := v, tail := t2 } := by
  induction fuel generalizing st typ v t1 t2 with
  | zero => unfold dlpLoop; rfl
  | succ fuel ih =>
    have hlen : ∀ (p a b : Bytes), GSlice.len { vis := p, tail := a } = GSlice.len { vis := p, tail := b } :=
      fun _ _ _ => rfl
    by_cases e1 : typ = LayerTypeModbusTCP
    · subst e1; rw [dlpLoop_modbus, dlpLoop_modbus]
      simp only
      split
      · rfl
      · simp only [hlen _ t1 t2]
        split
        · rfl
        · exact ih _ _ _ _ _
    · by_cases e2 : typ = LayerTypeLCM
      · subst e2; rw [dlpLoop_lcm, dlpLoop_lcm]
        simp only
        split
        · rfl
        · simp only [hlen _ t1 t2]
          split
          · rfl
          · exact ih _ _ _ _ _
      · by_cases e3 : typ = LayerTypePFLog
        · subst e3; rw [dlpLoop_pflog, dlpLoop_pflog]
          simp only
          split
          · rfl
          · simp only [hlen _ t1 t2]
            split
            · rfl
            · exact ih _ _ _ _ _
        · rw [dlpLoop_other reg _ _ _ _ e1 e2 e3, dlpLoop_other reg _ _ _ _ e1 e2 e3]

/-! ## 3. No stale state through the parser -/

/-- Two parser states agree on everything a caller may rely on after DecodeLayers: the decoded type
    list, the truncation flag, and the contents of every layer object whose type is in the list. -/
def DlpAgree (s1 s2 : DlpState) : Prop :=
  s1.decoded = s2.decoded ∧ s1.trunc = s2.trunc ∧
  (LayerTypeModbusTCP ∈ s1.decoded → s1.modbus = s2.modbus) ∧
  (LayerTypeLCM ∈ s1.decoded → s1.lcm = s2.lcm) ∧
  (LayerTypePFLog ∈ s1.decoded → s1.pflog = s2.pflog)

theorem dlpLoop_agree (reg : List (Nat × Nat)) (fuel : Nat) (s1 s2 : DlpState) (typ : Nat) (data : GSlice) (h : DlpAgree s1 s2) :
    ∃ r1 r2 c, dlpLoop reg fuel s1 typ data = .ok (r1, c) ∧ dlpLoop reg fuel s2 typ data = .ok (r2, c) ∧
      DlpAgree r1 r2 := by
  induction fuel generalizing s1 s2 typ data with
  | zero => exact ⟨s1, s2, 0, by unfold dlpLoop; rfl, by unfold dlpLoop; rfl, h⟩
  | succ fuel ih =>
    obtain ⟨hd, ht, ha, hl, he⟩ := h
    by_cases e1 : typ = LayerTypeModbusTCP
    · subst e1; rw [dlpLoop_modbus, dlpLoop_modbus]
      simp only
      obtain ⟨x1, x2, x3⟩ := modbusDecSpec_indep s1.modbus s2.modbus data.vis
      by_cases hee : (modbusDecSpec s1.modbus data.vis).err = true
      · have hee2 : (modbusDecSpec s2.modbus data.vis).err = true := by rw [← x1]; exact hee
        rw [if_pos hee, if_pos hee2]
        refine ⟨_, _, 1, rfl, rfl, hd, by simp only [ht, x2], fun hm => ?_, hl, he⟩
        -- a failed decode may leave a half-updated receiver, but only as a function of the old one
        simp only
        have hs := ha hm
        rw [hs]
      · have hef : (modbusDecSpec s1.modbus data.vis).err = false := by simpa using hee
        have hee2 : ¬ (modbusDecSpec s2.modbus data.vis).err = true := by rw [← x1]; exact hee
        rw [if_neg hee, if_neg hee2, ← x3 hef]
        have hag : DlpAgree
            { s1 with modbus := (modbusDecSpec s1.modbus data.vis).layer, trunc := s1.trunc || (modbusDecSpec s1.modbus data.vis).trunc,
                      decoded := s1.decoded ++ [LayerTypeModbusTCP] }
            { s2 with modbus := (modbusDecSpec s1.modbus data.vis).layer, trunc := s2.trunc || (modbusDecSpec s2.modbus data.vis).trunc,
                      decoded := s2.decoded ++ [LayerTypeModbusTCP] } := by
          refine ⟨by simp only [hd], by simp only [ht, x2], fun _ => rfl, fun hm => ?_, fun hm => ?_⟩
          · simp only [List.mem_append, List.mem_singleton] at hm
            rcases hm with hm | hm
            · exact hl hm
            · exact absurd hm lt_ne_1
          · simp only [List.mem_append, List.mem_singleton] at hm
            rcases hm with hm | hm
            · exact he hm
            · exact absurd hm lt_ne_2
        split
        · exact ⟨_, _, 0, rfl, rfl, hag⟩
        · exact ih _ _ _ _ hag
    · by_cases e2 : typ = LayerTypeLCM
      · subst e2; rw [dlpLoop_lcm, dlpLoop_lcm]
        simp only
        obtain ⟨x1, x2, x3⟩ := lcmDecSpec_indep s1.lcm s2.lcm data.vis
        by_cases hee : (lcmDecSpec s1.lcm data.vis).err = true
        · have hee2 : (lcmDecSpec s2.lcm data.vis).err = true := by rw [← x1]; exact hee
          rw [if_pos hee, if_pos hee2]
          refine ⟨_, _, 1, rfl, rfl, hd, by simp only [ht, x2], ha, fun hm => ?_, he⟩
          simp only
          have hs := hl hm
          rw [hs]
        · have hef : (lcmDecSpec s1.lcm data.vis).err = false := by simpa using hee
          have hee2 : ¬ (lcmDecSpec s2.lcm data.vis).err = true := by rw [← x1]; exact hee
          rw [if_neg hee, if_neg hee2, ← x3 hef]
          have hag : DlpAgree
              { s1 with lcm := (lcmDecSpec s1.lcm data.vis).layer, trunc := s1.trunc || (lcmDecSpec s1.lcm data.vis).trunc,
                        decoded := s1.decoded ++ [LayerTypeLCM] }
              { s2 with lcm := (lcmDecSpec s1.lcm data.vis).layer, trunc := s2.trunc || (lcmDecSpec s2.lcm data.vis).trunc,
                        decoded := s2.decoded ++ [LayerTypeLCM] } := by
            refine ⟨by simp only [hd], by simp only [ht, x2], fun hm => ?_, fun _ => rfl, fun hm => ?_⟩
            · simp only [List.mem_append, List.mem_singleton] at hm
              rcases hm with hm | hm
              · exact ha hm
              · exact absurd hm.symm lt_ne_1
            · simp only [List.mem_append, List.mem_singleton] at hm
              rcases hm with hm | hm
              · exact he hm
              · exact absurd hm lt_ne_3
          split
          · exact ⟨_, _, 0, rfl, rfl, hag⟩
          · exact ih _ _ _ _ hag
      · by_cases e3 : typ = LayerTypePFLog
        · subst e3; rw [dlpLoop_pflog, dlpLoop_pflog]
          simp only
          obtain ⟨x1, x2, x3⟩ := pflogDecSpec_indep s1.pflog s2.pflog data.vis
          by_cases hee : (pflogDecSpec s1.pflog data.vis).err = true
          · have hee2 : (pflogDecSpec s2.pflog data.vis).err = true := by rw [← x1]; exact hee
            rw [if_pos hee, if_pos hee2]
            refine ⟨_, _, 1, rfl, rfl, hd, by simp only [ht, x2], ha, hl, fun hm => ?_⟩
            simp only
            have hs := he hm
            rw [hs]
          · have hef : (pflogDecSpec s1.pflog data.vis).err = false := by simpa using hee
            have hee2 : ¬ (pflogDecSpec s2.pflog data.vis).err = true := by rw [← x1]; exact hee
            rw [if_neg hee, if_neg hee2, ← x3 hef]
            have hag : DlpAgree
                { s1 with pflog := (pflogDecSpec s1.pflog data.vis).layer, trunc := s1.trunc || (pflogDecSpec s1.pflog data.vis).trunc,
                          decoded := s1.decoded ++ [LayerTypePFLog] }
                { s2 with pflog := (pflogDecSpec s1.pflog data.vis).layer, trunc := s2.trunc || (pflogDecSpec s2.pflog data.vis).trunc,
                          decoded := s2.decoded ++ [LayerTypePFLog] } := by
              refine ⟨by simp only [hd], by simp only [ht, x2], fun hm => ?_, fun hm => ?_, fun _ => rfl⟩
              · simp only [List.mem_append, List.mem_singleton] at hm
                rcases hm with hm | hm
                · exact ha hm
                · exact absurd hm.symm lt_ne_2
              · simp only [List.mem_append, List.mem_singleton] at hm
                rcases hm with hm | hm
                · exact hl hm
                · exact absurd hm.symm lt_ne_3
            split
            · exact ⟨_, _, 0, rfl, rfl, hag⟩
            · exact ih _ _ _ _ hag
        · rw [dlpLoop_other reg _ _ _ _ e1 e2 e3, dlpLoop_other reg _ _ _ _ e1 e2 e3]
          split
          · exact ⟨_, _, 0, rfl, rfl, hd, ht, ha, hl, he⟩
          · exact ⟨_, _, 2, rfl, rfl, hd, ht, ha, hl, he⟩


theorem lookup_getD_mem (t : List (Nat × Nat)) (a d : Nat) :
    (t.lookup a).getD d = d ∨ (t.lookup a).getD d ∈ t.map (·.2) := by
  induction t with
  | nil => exact Or.inl rfl
  | cons r t ih =>
    rcases r with ⟨k, v⟩
    by_cases h : a = k
    · subst h
      right
      simp [List.lookup]
    · have hb : (a == k) = false := by simpa using h
      simp only [List.lookup, hb, List.map_cons, List.mem_cons]
      rcases ih with ih | ih
      · exact Or.inl ih
      · exact Or.inr (Or.inr ih)

/-! ## 4. Flows -/

theorem pad16_take (b : Bytes) : (pad16 b).take b.length = b := by
  unfold pad16
  rw [List.take_append_of_le_length (Nat.le_refl _), List.take_length]

/-- `NewFlow` on two addresses of at most MaxEndpointSize bytes: no panic, and the flow's source /
    destination byte strings are exactly the two addresses. -/
theorem newFlow_ok (t : Nat) (src dst : Bytes) (hs : src.length ≤ maxEndpointSize) (hd : dst.length ≤ maxEndpointSize) :
    ∃ f, newFlow t src dst = .ok f ∧ f.typ = t ∧ f.srcBytes = src ∧ f.dstBytes = dst ∧
      f.reverse.srcBytes = dst ∧ f.reverse.dstBytes = src ∧ f.reverse.typ = t := by
  unfold newFlow
  rw [if_neg (by omega)]
  exact ⟨_, rfl, rfl, pad16_take src, pad16_take dst, pad16_take dst, pad16_take src, rfl⟩

/-- The flows of the two directions: NewFlow with the arguments exchanged is the reverse. -/
theorem newFlow_swap (t : Nat) (a b : Bytes) (f : Flow) (h : newFlow t a b = .ok f) :
    newFlow t b a = .ok f.reverse := by
  unfold newFlow at h ⊢
  by_cases hc : a.length > maxEndpointSize ∨ b.length > maxEndpointSize
  · rw [if_pos hc] at h; cases h
  · rw [if_neg hc] at h
    rw [if_neg (by omega)]
    cases h; rfl

/-- A successfully decoded FDDI layer is `fddiLayer` of the visible bytes, of at least 13 bytes. -/
theorem decodeFDDI_some (d : GSlice) (b : Beh) (l : FDDI) (h : decodeFDDI d = .ok (b, some l)) :
    13 ≤ d.vis.length ∧ l = fddiLayer d.vis ∧
      b = { acts := [.setLinkLayer, .addLayer LayerTypeFDDI], tail := .nextFrameControl l.frameControl } := by
  rw [decodeFDDI_eq] at h
  unfold fddiSpec at h
  by_cases hs : d.vis.length < 13
  · rw [if_pos hs] at h; cases h
  · rw [if_neg hs] at h; cases h
    exact ⟨by omega, rfl, rfl⟩

theorem fddi_mac_len (v : Bytes) (h : 13 ≤ v.length) :
    (fddiLayer v).srcMAC.length = 6 ∧ (fddiLayer v).dstMAC.length = 6 := by
  simp only [fddiLayer, List.length_take, List.length_drop]; omega

/-! ## 5. The fuel of the parser loop suffices -/

/-- The next type a decoded PFLog layer announces is never one of the three types of the parser. -/
theorem pflog_next_outside (l : PFLog) :
    l.nextLayerType ≠ LayerTypeModbusTCP ∧ l.nextLayerType ≠ LayerTypeLCM ∧ l.nextLayerType ≠ LayerTypePFLog := by
  unfold PFLog.nextLayerType familyLayerType
  have hall : ∀ x ∈ LayerTypeZero :: familyTable.map (·.2),
      x ≠ LayerTypeModbusTCP ∧ x ≠ LayerTypeLCM ∧ x ≠ LayerTypePFLog := by decide
  rcases lookup_getD_mem familyTable l.family LayerTypeZero with h | h
  · rw [h]; exact hall _ (List.mem_cons_self)
  · exact hall _ (List.mem_cons_of_mem _ h)

/-- The fuel `|data| + 2` of `dlpDecodeLayers` suffices: any two amounts of fuel of at least that much
    give the same run.  ModbusTCP consumes 7 bytes, LCM at least 8; PFLog may consume nothing, but the
    type it hands on to is outside the set, so the iteration after it is the last one. -/
theorem dlpLoop_fuel (reg : List (Nat × Nat)) (f1 f2 : Nat) (st : DlpState) (typ : Nat) (data : GSlice)
    (h1 : data.len + 2 ≤ f1) (h2 : data.len + 2 ≤ f2) :
    dlpLoop reg f1 st typ data = dlpLoop reg f2 st typ data := by
  induction f1 generalizing f2 st typ data with
  | zero => omega
  | succ f1 ih =>
    cases f2 with
    | zero => omega
    | succ f2 =>
      by_cases e1 : typ = LayerTypeModbusTCP
      · subst e1; rw [dlpLoop_modbus, dlpLoop_modbus]
        simp only
        by_cases he : (modbusDecSpec st.modbus data.vis).err = true
        · rw [if_pos he, if_pos he]
        · rw [if_neg he, if_neg he]
          have hp := modbusDecSpec_payload_le st.modbus data.vis (by simpa using he)
          split
          · rfl
          · exact ih _ _ _ _ (by unfold GSlice.len at *; simp only; omega) (by unfold GSlice.len at *; simp only; omega)
      · by_cases e2 : typ = LayerTypeLCM
        · subst e2; rw [dlpLoop_lcm, dlpLoop_lcm]
          simp only
          by_cases he : (lcmDecSpec st.lcm data.vis).err = true
          · rw [if_pos he, if_pos he]
          · rw [if_neg he, if_neg he]
            have hp := lcmDecSpec_payload_le st.lcm data.vis (by simpa using he)
            split
            · rfl
            · exact ih _ _ _ _ (by unfold GSlice.len at *; simp only; omega) (by unfold GSlice.len at *; simp only; omega)
        · by_cases e3 : typ = LayerTypePFLog
          · subst e3; rw [dlpLoop_pflog, dlpLoop_pflog]
            simp only
            by_cases he : (pflogDecSpec st.pflog data.vis).err = true
            · rw [if_pos he, if_pos he]
            · rw [if_neg he, if_neg he]
              split
              · rfl
              · obtain ⟨n1, n2, n3⟩ := pflog_next_outside (pflogDecSpec st.pflog data.vis).layer
                cases f1 with
                | zero => omega
                | succ f1 =>
                  cases f2 with
                  | zero => omega
                  | succ f2 => rw [dlpLoop_other reg _ _ _ _ n1 n2 n3, dlpLoop_other reg _ _ _ _ n1 n2 n3]
          · rw [dlpLoop_other reg _ _ _ _ e1 e2 e3, dlpLoop_other reg _ _ _ _ e1 e2 e3]

end Gp.Mod
