import Gp.Model.Layers.Eap
import Gp.Lemmas.SBuf
/-
  Helper lemmas for engine `leap` (EAP, EAPOL, EAPOL-Key codecs), part 1: decoding.  Core Lean only.

  Section 1 holds the *definitions* that occur in the statements of the property theorems
  (functional specifications of the three DecodeFromBytes methods); the rest is proof machinery.
-/
namespace Gp.Eap
open Gp Gp.SBuf Gp.Gen.Eap

/-! ## 1. Definitions used in property statements -/

/-- Byte `i` of a byte string (0 for a missing byte; only used where the byte exists). -/
def byteAt (v : Bytes) (i : Nat) : UInt8 := v.getD i 0

/-- Big-endian 16-bit value at offset `i`. -/
def u16At (v : Bytes) (i : Nat) : Nat := be16 (byteAt v i) (byteAt v (i + 1))

/-- Big-endian 64-bit value at offset `i`. -/
def u64At (v : Bytes) (i : Nat) : Nat :=
  be64 (byteAt v i) (byteAt v (i + 1)) (byteAt v (i + 2)) (byteAt v (i + 3))
       (byteAt v (i + 4)) (byteAt v (i + 5)) (byteAt v (i + 6)) (byteAt v (i + 7))

/-- The Length field of an EAP packet. -/
def eapLen (v : Bytes) : Nat := u16At v 2

/-- The receiver after the three header assignments of `EAP.DecodeFromBytes` (what the second and
    third error returns leave behind). -/
def eapHdr (old : EAP) (v : Bytes) : EAP :=
  { old with code := (byteAt v 0).toNat, id := (byteAt v 1).toNat, length := eapLen v }

/-- The layer a successful `EAP.DecodeFromBytes` produces: a function of the visible bytes alone.
    `bounded = false` is the decoder before leap-2 (TypeData up to the end of the input). -/
def eapLayer (bounded : Bool) (v : Bytes) : EAP :=
  { contents := v.take (eapLen v), payload := v.drop (eapLen v),
    code := (byteAt v 0).toNat, id := (byteAt v 1).toNat, length := eapLen v,
    typ := if eapLen v > 4 then (byteAt v 4).toNat else 0,
    typeData := if eapLen v > 4 then (if bounded then (v.drop 5).take (eapLen v - 5) else v.drop 5) else [] }

/-- What `EAP.DecodeFromBytes` computes from the visible bytes `v` (|v| ≥ 4) and the receiver. -/
def eapDecSpec (bounded : Bool) (old : EAP) (v : Bytes) : DecOut EAP :=
  if v.length < eapLen v then { layer := eapHdr old v, trunc := true, err := true }
  else if eapLen v < 4 then { layer := eapHdr old v, trunc := false, err := true }
  else { layer := eapLayer bounded v, trunc := false, err := false }

/-- The layer `EAPOL.DecodeFromBytes` produces from the visible bytes `v` (|v| ≥ 4). -/
def eapolLayer (v : Bytes) : EAPOL :=
  { contents := v.take 4, payload := v.drop 4, version := (byteAt v 0).toNat, typ := (byteAt v 1).toNat,
    length := u16At v 2 }

def eapolDecSpec (v : Bytes) : DecOut EAPOL := { layer := eapolLayer v, trunc := false, err := false }

/-- The receiver after all header assignments of `EAPOLKey.DecodeFromBytes` (everything up to
    KeyDataLength; EncryptedKeyData, Contents and Payload still those of `old`): what the second
    error return leaves behind. -/
def keyHdr (old : EAPOLKey) (v : Bytes) : EAPOLKey :=
  { keyInfoFields { old with keyDescriptorType := (byteAt v 0).toNat } (u16At v 1) with
    keyLength := u16At v 3, replayCounter := u64At v 5, nonce := (v.drop 13).take 32,
    iv := (v.drop 45).take 16, rsc := u64At v 61, id := u64At v 69, mic := (v.drop 77).take 16,
    keyDataLength := u16At v 93 }

/-- The announced key data length and the total frame length. -/
def keyKdl (v : Bytes) : Nat := u16At v 93
def keyEnc (v : Bytes) : Bool := (u16At v 1 &&& 0x1000) != 0

/-- What `EAPOLKey.DecodeFromBytes` computes from the visible bytes `v` (|v| ≥ 95) and the receiver.
    `resetKd = false` is the decoder before leap-3. -/
def keyDecSpec (resetKd : Bool) (old : EAPOLKey) (v : Bytes) : DecOut EAPOLKey :=
  if v.length < 95 + keyKdl v then { layer := keyHdr old v, trunc := true, err := true }
  else if keyEnc v then
    { layer := { keyHdr old v with encryptedKeyData := (v.drop 95).take (keyKdl v),
                                   contents := v.take (95 + keyKdl v), payload := v.drop (95 + keyKdl v) },
      trunc := false, err := false }
  else
    { layer := { keyHdr old v with
                 encryptedKeyData := if resetKd then [] else old.encryptedKeyData,
                 contents := v.take 95, payload := v.drop 95 },
      trunc := false, err := false }

/-! ## 2. Go slices -/

theorem GSlice.slice_ok (s : GSlice) (a b : Nat) (hab : a ≤ b) (hb : b ≤ s.len) :
    s.slice a b = .ok { vis := (s.vis.drop a).take (b - a), tail := s.vis.drop b ++ s.tail } := by
  unfold GSlice.slice GSlice.cap
  unfold GSlice.len at hb
  have h1 : a ≤ b ∧ b ≤ s.vis.length + s.tail.length := ⟨hab, by omega⟩
  rw [if_pos h1]
  have ha : a ≤ s.vis.length := by omega
  rw [List.drop_append_of_le_length ha, List.drop_append_of_le_length hb,
    List.take_append_of_le_length (by rw [List.length_drop]; omega)]

theorem GSlice.sliceFrom_ok (s : GSlice) (a : Nat) (ha : a ≤ s.len) :
    s.sliceFrom a = .ok { vis := s.vis.drop a, tail := s.tail } := by
  unfold GSlice.sliceFrom; rw [if_pos ha]

theorem GSlice.index_ok (s : GSlice) (i : Nat) (h : i < s.len) :
    s.index i = .ok (byteAt s.vis i) := by
  unfold GSlice.index Gp.index byteAt
  have h' : i < s.vis.length := h
  simp [List.getD_eq_getElem?_getD, h']

/-- The two-byte window `[i, i+2)` of a long enough byte string. -/
theorem two_bytes (v : Bytes) (i : Nat) (h : i + 2 ≤ v.length) :
    (v.drop i).take 2 = [byteAt v i, byteAt v (i + 1)] := by
  have h0 : i < v.length := by omega
  have h1 : i + 1 < v.length := by omega
  have e : v.drop i = v[i] :: v[i+1] :: v.drop (i+2) := by
    rw [List.drop_eq_getElem_cons h0, List.drop_eq_getElem_cons h1]
  rw [e]
  simp only [byteAt, List.take_succ_cons, List.take_zero, List.getD_eq_getElem?_getD,
    List.getElem?_eq_getElem h0, List.getElem?_eq_getElem h1, Option.getD_some]

/-- The eight-byte window `[i, i+8)`. -/
theorem eight_bytes (v : Bytes) (i : Nat) (h : i + 8 ≤ v.length) :
    (v.drop i).take 8 = [byteAt v i, byteAt v (i + 1), byteAt v (i + 2), byteAt v (i + 3),
      byteAt v (i + 4), byteAt v (i + 5), byteAt v (i + 6), byteAt v (i + 7)] := by
  have h0 : i < v.length := by omega
  have h1 : i + 1 < v.length := by omega
  have h2 : i + 2 < v.length := by omega
  have h3 : i + 3 < v.length := by omega
  have h4 : i + 4 < v.length := by omega
  have h5 : i + 5 < v.length := by omega
  have h6 : i + 6 < v.length := by omega
  have h7 : i + 7 < v.length := by omega
  have e : v.drop i = v[i] :: v[i+1] :: v[i+2] :: v[i+3] :: v[i+4] :: v[i+5] :: v[i+6] :: v[i+7] :: v.drop (i+8) := by
    rw [List.drop_eq_getElem_cons h0, List.drop_eq_getElem_cons h1, List.drop_eq_getElem_cons h2,
      List.drop_eq_getElem_cons h3, List.drop_eq_getElem_cons h4, List.drop_eq_getElem_cons h5,
      List.drop_eq_getElem_cons h6, List.drop_eq_getElem_cons h7]
  rw [e]
  simp only [byteAt, List.take_succ_cons, List.take_zero, List.getD_eq_getElem?_getD,
    List.getElem?_eq_getElem h0, List.getElem?_eq_getElem h1, List.getElem?_eq_getElem h2,
    List.getElem?_eq_getElem h3, List.getElem?_eq_getElem h4, List.getElem?_eq_getElem h5,
    List.getElem?_eq_getElem h6, List.getElem?_eq_getElem h7, Option.getD_some]

theorem uint16_two (a b : UInt8) (t : Bytes) : uint16 { vis := [a, b], tail := t } = .ok (be16 a b) := by
  simp [uint16, GSlice.index, Gp.index, bind, Res.bind, pure]

theorem uint64be_eight (a b c d e f g h : UInt8) (t : Bytes) :
    uint64be { vis := [a, b, c, d, e, f, g, h], tail := t } = .ok (be64 a b c d e f g h) := by
  simp [uint64be, GSlice.index, Gp.index, bind, Res.bind, pure]

theorem uint16_vis (v t : Bytes) (i : Nat) (h : i + 2 ≤ v.length) :
    uint16 { vis := (v.drop i).take 2, tail := t } = .ok (u16At v i) := by
  rw [two_bytes v i h]; exact uint16_two _ _ _

theorem uint64be_vis (v t : Bytes) (i : Nat) (h : i + 8 ≤ v.length) :
    uint64be { vis := (v.drop i).take 8, tail := t } = .ok (u64At v i) := by
  rw [eight_bytes v i h]; exact uint64be_eight _ _ _ _ _ _ _ _ _

theorem be16_lt (a b : UInt8) : be16 a b < 65536 := by
  have := a.toNat_lt; have := b.toNat_lt
  unfold be16; omega

theorem be32_lt (a b c d : UInt8) : be32 a b c d < 4294967296 := by
  have := a.toNat_lt; have := b.toNat_lt; have := c.toNat_lt; have := d.toNat_lt
  unfold be32; omega

theorem be64_lt (a b c d e f g h : UInt8) : be64 a b c d e f g h < 18446744073709551616 := by
  have := be32_lt a b c d; have := be32_lt e f g h
  unfold be64; omega

theorem u16At_lt (v : Bytes) (i : Nat) : u16At v i < 65536 := be16_lt _ _
theorem u64At_lt (v : Bytes) (i : Nat) : u64At v i < 18446744073709551616 := be64_lt _ _ _ _ _ _ _ _

theorem frameLen_eq : eapolKeyFrameLen = 95 := rfl

/-! ## 3. DecodeFromBytes = its functional specification -/

theorem EAP.decode_short (bounded : Bool) (old : EAP) (d : GSlice) (h : d.len < 4) :
    EAP.decodeWith bounded old d = .ok { layer := old, trunc := true, err := true } := by
  unfold EAP.decodeWith; rw [if_pos h]

theorem EAP.decode_long (bounded : Bool) (old : EAP) (d : GSlice) (h : 4 ≤ d.len) :
    EAP.decodeWith bounded old d = .ok (eapDecSpec bounded old d.vis) := by
  have hl : 4 ≤ d.vis.length := h
  unfold EAP.decodeWith
  rw [if_neg (by omega)]
  rw [GSlice.index_ok d 0 (by omega), Res.bind_ok, GSlice.index_ok d 1 (by omega), Res.bind_ok]
  rw [GSlice.slice_ok d 2 4 (by omega) (by omega), Res.bind_ok]
  simp only [Nat.reduceSub]
  rw [uint16_vis d.vis _ 2 (by omega), Res.bind_ok]
  have eL : u16At d.vis 2 = eapLen d.vis := rfl
  simp only [eL]
  unfold eapDecSpec
  by_cases hlt : d.len < eapLen d.vis
  · rw [if_pos hlt, if_pos (show d.vis.length < eapLen d.vis from hlt)]
    rfl
  · rw [if_neg hlt, if_neg (show ¬ d.vis.length < eapLen d.vis from hlt)]
    have hL : eapLen d.vis ≤ d.len := by omega
    by_cases h4 : eapLen d.vis > 4
    · rw [if_pos h4, if_neg (show ¬ eapLen d.vis < 4 by omega)]
      rw [GSlice.index_ok d 4 (by omega), Res.bind_ok]
      cases bounded
      · simp only [Bool.false_eq_true, if_false]
        rw [GSlice.sliceFrom_ok d 5 (by omega), Res.bind_ok]
        simp only [pure, Res.bind_ok]
        rw [GSlice.slice_ok d 0 (eapLen d.vis) (by omega) hL, Res.bind_ok,
          GSlice.sliceFrom_ok d (eapLen d.vis) hL, Res.bind_ok]
        simp only [eapLayer, if_pos h4, List.drop_zero, Nat.sub_zero, Bool.false_eq_true, if_false]
      · simp only [if_true]
        rw [GSlice.slice_ok d 5 (eapLen d.vis) (by omega) hL, Res.bind_ok]
        simp only [pure, Res.bind_ok]
        rw [GSlice.slice_ok d 0 (eapLen d.vis) (by omega) hL, Res.bind_ok,
          GSlice.sliceFrom_ok d (eapLen d.vis) hL, Res.bind_ok]
        simp only [eapLayer, if_pos h4, List.drop_zero, Nat.sub_zero, if_true]
    · rw [if_neg h4]
      by_cases h44 : eapLen d.vis = 4
      · rw [if_pos h44, if_neg (show ¬ eapLen d.vis < 4 by omega)]
        simp only [pure, Res.bind_ok]
        rw [GSlice.slice_ok d 0 (eapLen d.vis) (by omega) hL, Res.bind_ok,
          GSlice.sliceFrom_ok d (eapLen d.vis) hL, Res.bind_ok]
        simp only [eapLayer, if_neg h4, List.drop_zero, Nat.sub_zero]
      · rw [if_neg h44, if_pos (show eapLen d.vis < 4 by omega)]
        rfl

theorem EAP.decode_vis (bounded : Bool) (old : EAP) (v foreign : Bytes) (h : 4 ≤ v.length) :
    EAP.decodeWith bounded old { vis := v, tail := foreign } = .ok (eapDecSpec bounded old v) :=
  EAP.decode_long bounded old { vis := v, tail := foreign } h

theorem EAPOL.decode_short (old : EAPOL) (d : GSlice) (h : d.len < 4) :
    old.decodeFromBytes d = .ok { layer := old, trunc := true, err := true } := by
  unfold EAPOL.decodeFromBytes; rw [if_pos h]

theorem EAPOL.decode_long (old : EAPOL) (d : GSlice) (h : 4 ≤ d.len) :
    old.decodeFromBytes d = .ok (eapolDecSpec d.vis) := by
  have hl : 4 ≤ d.vis.length := h
  unfold EAPOL.decodeFromBytes
  rw [if_neg (by omega)]
  rw [GSlice.index_ok d 0 (by omega), Res.bind_ok, GSlice.index_ok d 1 (by omega), Res.bind_ok]
  rw [GSlice.slice_ok d 2 4 (by omega) (by omega), Res.bind_ok]
  simp only [Nat.reduceSub]
  rw [uint16_vis d.vis _ 2 (by omega), Res.bind_ok]
  rw [GSlice.slice_ok d 0 4 (by omega) (by omega), Res.bind_ok, GSlice.sliceFrom_ok d 4 h, Res.bind_ok]
  simp only [List.drop_zero, Nat.sub_zero, pure, eapolDecSpec, eapolLayer]

theorem EAPOL.decode_vis (old : EAPOL) (v foreign : Bytes) (h : 4 ≤ v.length) :
    old.decodeFromBytes { vis := v, tail := foreign } = .ok (eapolDecSpec v) :=
  EAPOL.decode_long old { vis := v, tail := foreign } h

theorem EAPOLKey.decode_short (resetKd : Bool) (old : EAPOLKey) (d : GSlice) (h : d.len < 95) :
    EAPOLKey.decodeWith resetKd old d = .ok { layer := old, trunc := true, err := true } := by
  unfold EAPOLKey.decodeWith; rw [if_pos (by rw [frameLen_eq]; exact h)]

theorem EAPOLKey.decode_long (resetKd : Bool) (old : EAPOLKey) (d : GSlice) (h : 95 ≤ d.len) :
    EAPOLKey.decodeWith resetKd old d = .ok (keyDecSpec resetKd old d.vis) := by
  have hl : 95 ≤ d.vis.length := h
  unfold EAPOLKey.decodeWith
  rw [if_neg (by rw [frameLen_eq]; omega)]
  rw [GSlice.index_ok d 0 (by omega), Res.bind_ok]
  rw [GSlice.slice_ok d 1 3 (by omega) (by omega), Res.bind_ok]
  simp only [Nat.reduceSub]
  rw [uint16_vis d.vis _ 1 (by omega), Res.bind_ok]
  rw [GSlice.slice_ok d 3 5 (by omega) (by omega), Res.bind_ok]
  simp only [Nat.reduceSub]
  rw [uint16_vis d.vis _ 3 (by omega), Res.bind_ok]
  rw [GSlice.slice_ok d 5 13 (by omega) (by omega), Res.bind_ok]
  simp only [Nat.reduceSub]
  rw [uint64be_vis d.vis _ 5 (by omega), Res.bind_ok]
  rw [GSlice.slice_ok d 13 45 (by omega) (by omega), Res.bind_ok]
  rw [GSlice.slice_ok d 45 61 (by omega) (by omega), Res.bind_ok]
  rw [GSlice.slice_ok d 61 69 (by omega) (by omega), Res.bind_ok]
  simp only [Nat.reduceSub]
  rw [uint64be_vis d.vis _ 61 (by omega), Res.bind_ok]
  rw [GSlice.slice_ok d 69 77 (by omega) (by omega), Res.bind_ok]
  simp only [Nat.reduceSub]
  rw [uint64be_vis d.vis _ 69 (by omega), Res.bind_ok]
  rw [GSlice.slice_ok d 77 93 (by omega) (by omega), Res.bind_ok]
  rw [GSlice.slice_ok d 93 95 (by omega) (by omega), Res.bind_ok]
  simp only [Nat.reduceSub]
  rw [uint16_vis d.vis _ 93 (by omega), Res.bind_ok]
  have eK : u16At d.vis 93 = keyKdl d.vis := rfl
  have eE : ((u16At d.vis 1 &&& 0x1000) != 0) = keyEnc d.vis := rfl
  simp only [frameLen_eq, keyInfoFields, eK, eE, pure]
  unfold keyDecSpec
  by_cases hlt : d.len < 95 + keyKdl d.vis
  · rw [if_pos hlt, if_pos (show d.vis.length < 95 + keyKdl d.vis from hlt)]
    rfl
  · rw [if_neg hlt, if_neg (show ¬ d.vis.length < 95 + keyKdl d.vis from hlt)]
    have hT : 95 + keyKdl d.vis ≤ d.len := by omega
    by_cases hE : keyEnc d.vis = true
    · rw [if_pos hE, if_pos hE]
      rw [GSlice.slice_ok d 95 (95 + keyKdl d.vis) (by omega) hT, Res.bind_ok,
        GSlice.slice_ok d 0 (95 + keyKdl d.vis) (by omega) hT, Res.bind_ok,
        GSlice.sliceFrom_ok d (95 + keyKdl d.vis) hT, Res.bind_ok]
      simp only [Nat.add_sub_cancel_left, List.drop_zero, Nat.sub_zero]
      rfl
    · rw [if_neg hE, if_neg hE]
      rw [GSlice.slice_ok d 0 95 (by omega) (by omega), Res.bind_ok, GSlice.sliceFrom_ok d 95 h, Res.bind_ok]
      cases resetKd <;> rfl

theorem EAPOLKey.decode_vis (resetKd : Bool) (old : EAPOLKey) (v foreign : Bytes) (h : 95 ≤ v.length) :
    EAPOLKey.decodeWith resetKd old { vis := v, tail := foreign } = .ok (keyDecSpec resetKd old v) :=
  EAPOLKey.decode_long resetKd old { vis := v, tail := foreign } h

end Gp.Eap
