import Gp.Lemmas.Layers.ArpSer
/-
  Helper lemmas for engine `larp`, part 3: well-formedness, ≈, and decode ∘ encode.  Core Lean only.

  Section 1 holds the *definitions* used in property statements.
-/
namespace Gp.Arp
open Gp Gp.SBuf Gp.C18 Gp.Gen.Arp

/-! ## 1. Definitions used in property statements -/

/-- In-range ARP field values: 16-bit AddrType/Protocol/Operation, 8-bit size fields, source and
    destination addresses of equal length ≤ 255 (what the one-byte size fields can express).  The
    size FIELDS need not agree with the slices: FixLengths repairs them (`arpFixed`). -/
def wfArp (l : ARP) : Prop :=
  l.addrType < 65536 ∧ l.protocol < 65536 ∧ l.operation < 65536 ∧
  l.hwAddressSize < 256 ∧ l.protAddressSize < 256 ∧
  l.sourceHwAddress.length = l.dstHwAddress.length ∧ l.sourceHwAddress.length ≤ 255 ∧
  l.sourceProtAddress.length = l.dstProtAddress.length ∧ l.sourceProtAddress.length ≤ 255

/-- The size fields say what the slices are (true of every decoded layer and after FixLengths). -/
def arpSizesAgree (l : ARP) : Prop :=
  l.hwAddressSize = l.sourceHwAddress.length ∧ l.protAddressSize = l.sourceProtAddress.length

/-- Field equivalence `≈` for ARP: all public fields; ignores BaseLayer.Contents/Payload. -/
def ArpEquiv (a b : ARP) : Prop :=
  a.addrType = b.addrType ∧ a.protocol = b.protocol ∧ a.hwAddressSize = b.hwAddressSize ∧
  a.protAddressSize = b.protAddressSize ∧ a.operation = b.operation ∧
  a.sourceHwAddress = b.sourceHwAddress ∧ a.sourceProtAddress = b.sourceProtAddress ∧
  a.dstHwAddress = b.dstHwAddress ∧ a.dstProtAddress = b.dstProtAddress

/-- In-range Loopback field values (ProtocolFamily is a uint8). -/
def wfLo (l : Loopback) : Prop := l.family < 256

def LoEquiv (a b : Loopback) : Prop := a.family = b.family

/-- In-range ERSPAN II field values: the widths of the header's bit fields. -/
def wfEr (l : ERSPANII) : Prop :=
  l.version ≤ 0xF ∧ l.vlan ≤ 0xFFF ∧ l.cos ≤ 7 ∧ l.trunkEncap ≤ 3 ∧ l.sessionID ≤ 0x3FF ∧
  l.reserved ≤ 0xFFF ∧ l.index ≤ 0xFFFFF

def ErEquiv (a b : ERSPANII) : Prop :=
  a.isTruncated = b.isTruncated ∧ a.version = b.version ∧ a.cos = b.cos ∧ a.trunkEncap = b.trunkEncap ∧
  a.vlan = b.vlan ∧ a.sessionID = b.sessionID ∧ a.reserved = b.reserved ∧ a.index = b.index

instance (l : ARP) : Decidable (wfArp l) := by unfold wfArp; infer_instance
instance (l : ARP) : Decidable (arpSizesAgree l) := by unfold arpSizesAgree; infer_instance
instance (a b : ARP) : Decidable (ArpEquiv a b) := by unfold ArpEquiv; infer_instance
instance (l : Loopback) : Decidable (wfLo l) := by unfold wfLo; infer_instance
instance (l : ERSPANII) : Decidable (wfEr l) := by unfold wfEr; infer_instance
instance (a b : ERSPANII) : Decidable (ErEquiv a b) := by unfold ErEquiv; infer_instance

/-! ## 2. Byte arithmetic -/

theorem u8_toNat (n : Nat) : (u8 n).toNat = n % 256 := by
  simp [u8]
theorem be16_putBe16 (n : Nat) (h : n < 65536) : be16 (u8 (n / 256)) (u8 n) = n := by
  unfold be16; rw [u8_toNat, u8_toNat]; omega
theorem be32_putBe32 (n : Nat) (h : n < 4294967296) :
    be32 (u8 (n / 16777216)) (u8 (n / 65536)) (u8 (n / 256)) (u8 n) = n := by
  unfold be32; rw [u8_toNat, u8_toNat, u8_toNat, u8_toNat]; omega

set_option maxRecDepth 8000 in
theorem byte_hi4 : ∀ x, x < 256 → (x &&& 0xF0) >>> 4 = x / 16 := by decide
set_option maxRecDepth 8000 in
theorem byte_cos : ∀ x, x < 256 → (x &&& 0xE0) >>> 5 = x / 32 := by decide
set_option maxRecDepth 8000 in
theorem byte_te : ∀ x, x < 256 → (x &&& 0x18) >>> 3 = x / 8 % 4 := by decide
set_option maxRecDepth 8000 in
theorem byte_t : ∀ x, x < 256 → ((x &&& 0x4) >>> 2 != 0) = decide (x / 4 % 2 = 1) := by decide

theorem and_fff0 (v : Nat) (h : v < 65536) : (v &&& 0xFFF0) >>> 4 = v / 16 := by
  rw [Nat.shiftRight_and_distrib]
  have : (0xFFF0 : Nat) >>> 4 = 2 ^ 12 - 1 := by decide
  rw [this, Nat.and_two_pow_sub_one_eq_mod, Nat.shiftRight_eq_div_pow]
  omega

theorem and_0fff (v : Nat) : v &&& 0x0FFF = v % 4096 := by
  have : (0x0FFF : Nat) = 2 ^ 12 - 1 := by decide
  rw [this, Nat.and_two_pow_sub_one_eq_mod]
theorem and_03ff (v : Nat) : v &&& 0x03FF = v % 1024 := by
  have : (0x03FF : Nat) = 2 ^ 10 - 1 := by decide
  rw [this, Nat.and_two_pow_sub_one_eq_mod]
theorem and_fffff (v : Nat) : v &&& 0x000FFFFF = v % 1048576 := by
  have : (0x000FFFFF : Nat) = 2 ^ 20 - 1 := by decide
  rw [this, Nat.and_two_pow_sub_one_eq_mod]
theorem and_f (v : Nat) : v &&& 0xF = v % 16 := by
  have : (0xF : Nat) = 2 ^ 4 - 1 := by decide
  rw [this, Nat.and_two_pow_sub_one_eq_mod]
theorem and_7 (v : Nat) : v &&& 0x7 = v % 8 := by
  have : (0x7 : Nat) = 2 ^ 3 - 1 := by decide
  rw [this, Nat.and_two_pow_sub_one_eq_mod]
theorem and_3 (v : Nat) : v &&& 0x3 = v % 4 := by
  have : (0x3 : Nat) = 2 ^ 2 - 1 := by decide
  rw [this, Nat.and_two_pow_sub_one_eq_mod]

/-- The three header words of a well-formed ERSPAN II layer as sums. -/
theorem erspanWord1_sum (l : ERSPANII) (h : wfEr l) : erspanWord1 l = l.version * 4096 + l.vlan := by
  obtain ⟨h1, h2, -⟩ := h
  unfold erspanWord1
  rw [and_f, and_0fff, Nat.shiftLeft_eq]
  have e1 : l.version % 16 * 2 ^ 12 % 65536 = 2 ^ 12 * l.version := by omega
  have e2 : l.vlan % 4096 = l.vlan := by omega
  rw [e1, e2, ← Nat.two_pow_add_eq_or_of_lt (by omega)]; omega

set_option maxRecDepth 8000 in
theorem erspanWord2_sum (l : ERSPANII) (h : wfEr l) :
    erspanWord2 l = l.cos * 8192 + l.trunkEncap * 2048 + (if l.isTruncated then 1024 else 0) + l.sessionID := by
  obtain ⟨-, -, h3, h4, h5, -⟩ := h
  unfold erspanWord2
  simp only
  rw [and_7, and_3, and_03ff, Nat.shiftLeft_eq, Nat.shiftLeft_eq]
  have e1 : l.cos % 8 * 2 ^ 13 % 65536 = 2 ^ 13 * l.cos := by omega
  have e2 : l.trunkEncap % 4 * 2 ^ 11 % 65536 = 2 ^ 11 * l.trunkEncap := by omega
  have e3 : l.sessionID % 1024 = l.sessionID := by omega
  rw [e1, e2, e3]
  have a1 : 2 ^ 13 * l.cos ||| 2 ^ 11 * l.trunkEncap = 2 ^ 13 * l.cos + 2 ^ 11 * l.trunkEncap := by
    rw [← Nat.two_pow_add_eq_or_of_lt (by omega)]
  cases l.isTruncated
  · simp only [Bool.false_eq_true, if_false]
    rw [a1]
    have : 2 ^ 13 * l.cos + 2 ^ 11 * l.trunkEncap = 2 ^ 11 * (4 * l.cos + l.trunkEncap) := by omega
    rw [this, ← Nat.two_pow_add_eq_or_of_lt (by omega)]; omega
  · simp only [if_true]
    rw [a1, Nat.or_assoc]
    have e4 : l.sessionID ||| 0x400 = 2 ^ 10 * 1 + l.sessionID := by
      rw [Nat.or_comm, Nat.two_pow_add_eq_or_of_lt (by omega)]
    rw [e4]
    have : 2 ^ 13 * l.cos + 2 ^ 11 * l.trunkEncap = 2 ^ 11 * (4 * l.cos + l.trunkEncap) := by omega
    rw [this, ← Nat.two_pow_add_eq_or_of_lt (by omega)]; omega

theorem erspanWord3_sum (l : ERSPANII) (h : wfEr l) : erspanWord3 l = l.reserved * 1048576 + l.index := by
  obtain ⟨-, -, -, -, -, h6, h7⟩ := h
  unfold erspanWord3
  rw [and_0fff, and_fffff, Nat.shiftLeft_eq]
  have p20 : (2 : Nat) ^ 20 = 1048576 := by decide
  have e1 : l.reserved % 4096 * 2 ^ 20 % 4294967296 = 2 ^ 20 * l.reserved := by rw [p20]; omega
  have e2 : l.index % 1048576 = l.index := by omega
  rw [e1, e2, ← Nat.two_pow_add_eq_or_of_lt (by rw [p20]; omega), p20]; omega

/-! ## 3. ARP: decode ∘ encode -/

theorem arp_parts (H A B C D p : Bytes) (hw pr : Nat) (hH : H.length = 8) (hA : A.length = hw)
    (hB : B.length = pr) (hC : C.length = hw) (hD : D.length = pr) :
    let v := H ++ (A ++ (B ++ (C ++ (D ++ p))))
    (v.drop 8).take hw = A ∧ (v.drop (8 + hw)).take pr = B ∧ (v.drop (8 + hw + pr)).take hw = C ∧
    (v.drop (8 + 2 * hw + pr)).take pr = D ∧ v.take (8 + 2 * hw + 2 * pr) = H ++ (A ++ (B ++ (C ++ D))) ∧
    v.drop (8 + 2 * hw + 2 * pr) = p ∧ v.length = 8 + 2 * hw + 2 * pr + p.length := by
  intro v
  have v1 : v = (H ++ A) ++ (B ++ (C ++ (D ++ p))) := by simp [v, List.append_assoc]
  have v2 : v = (H ++ A ++ B) ++ (C ++ (D ++ p)) := by simp [v, List.append_assoc]
  have v3 : v = (H ++ A ++ B ++ C) ++ (D ++ p) := by simp [v, List.append_assoc]
  have v4 : v = (H ++ (A ++ (B ++ (C ++ D)))) ++ p := by simp [v, List.append_assoc]
  have l1 : (H ++ A).length = 8 + hw := by simp [hH, hA]
  have l2 : (H ++ A ++ B).length = 8 + hw + pr := by simp [hH, hA, hB]; omega
  have l3 : (H ++ A ++ B ++ C).length = 8 + 2 * hw + pr := by simp [hH, hA, hB, hC]; omega
  have l4 : (H ++ (A ++ (B ++ (C ++ D)))).length = 8 + 2 * hw + 2 * pr := by simp [hH, hA, hB, hC, hD]; omega
  refine ⟨?_, ?_, ?_, ?_, ?_, ?_, ?_⟩
  · show ((H ++ (A ++ (B ++ (C ++ (D ++ p))))).drop 8).take hw = A
    rw [List.drop_left' hH, List.take_left' hA]
  · rw [v1, List.drop_left' l1, List.take_left' hB]
  · rw [v2, List.drop_left' l2, List.take_left' hC]
  · rw [v3, List.drop_left' l3, List.take_left' hD]
  · rw [v4, List.take_left' l4]
  · rw [v4, List.drop_left' l4]
  · rw [v4, List.length_append, l4]

/-- The encoding of a layer as explicit header bytes in front of the addresses and the payload. -/
theorem arpEncode_cons (l : ARP) (p : Bytes) :
    arpEncode l ++ p = arpHeader l ++ (l.sourceHwAddress ++ (l.sourceProtAddress ++ (l.dstHwAddress ++
      (l.dstProtAddress ++ p)))) := by
  simp [arpEncode, List.append_assoc]

theorem arpHeader_bytes (l : ARP) (T : Bytes) :
    arpHeader l ++ T = u8 (l.addrType / 256) :: u8 l.addrType :: u8 (l.protocol / 256) :: u8 l.protocol ::
      u8 l.hwAddressSize :: u8 l.protAddressSize :: u8 (l.operation / 256) :: u8 l.operation :: T := rfl

/-- Decoding the bytes `ARP.SerializeTo` writes for a well-formed layer whose size fields agree with
    its slices gives back exactly that layer (Contents = the layer's bytes, Payload = `p`). -/
theorem arpDecSpec_encode (old l : ARP) (p : Bytes) (hw : wfArp l) (hs : arpSizesAgree l) :
    arpDecSpec old (arpEncode l ++ p) =
      { layer := { l with contents := arpEncode l, payload := p }, trunc := false, err := false } := by
  obtain ⟨w1, w2, w3, w4, w5, w6, w7, w8, w9⟩ := hw
  obtain ⟨s1, s2⟩ := hs
  have eH : arpHw (arpEncode l ++ p) = l.hwAddressSize := by
    rw [arpEncode_cons, arpHeader_bytes]
    show (u8 l.hwAddressSize).toNat = _
    rw [u8_toNat]; omega
  have eP : arpPr (arpEncode l ++ p) = l.protAddressSize := by
    rw [arpEncode_cons, arpHeader_bytes]
    show (u8 l.protAddressSize).toNat = _
    rw [u8_toNat]; omega
  have eA : u16At (arpEncode l ++ p) 0 = l.addrType := by
    rw [arpEncode_cons, arpHeader_bytes]
    exact be16_putBe16 _ w1
  have eR : u16At (arpEncode l ++ p) 2 = l.protocol := by
    rw [arpEncode_cons, arpHeader_bytes]
    exact be16_putBe16 _ w2
  have eO : u16At (arpEncode l ++ p) 6 = l.operation := by
    rw [arpEncode_cons, arpHeader_bytes]
    exact be16_putBe16 _ w3
  have eL : arpLen (arpEncode l ++ p) = 8 + 2 * l.hwAddressSize + 2 * l.protAddressSize := by
    unfold arpLen; rw [eH, eP]
  obtain ⟨p1, p2, p3, p4, p5, p6, p7⟩ := arp_parts (arpHeader l) l.sourceHwAddress l.sourceProtAddress
    l.dstHwAddress l.dstProtAddress p l.hwAddressSize l.protAddressSize rfl s1.symm s2.symm
    (by omega) (by omega)
  rw [← arpEncode_cons] at p1 p2 p3 p4 p5 p6 p7
  unfold arpDecSpec
  rw [if_neg (by rw [eL, p7]; omega)]
  unfold arpLayer
  rw [eL, eH, eP, eA, eR, eO, p1, p2, p3, p4, p5, p6]
  have : arpHeader l ++ (l.sourceHwAddress ++ (l.sourceProtAddress ++ (l.dstHwAddress ++ l.dstProtAddress))) =
      arpEncode l := by simp [arpEncode]
  rw [this]

theorem arpFixed_wf (l : ARP) (h : wfArp l) : wfArp (arpFixed l true) ∧ arpSizesAgree (arpFixed l true) := by
  obtain ⟨w1, w2, w3, w4, w5, w6, w7, w8, w9⟩ := h
  unfold arpFixed wfArp arpSizesAgree
  simp only [if_true]
  refine ⟨⟨w1, w2, w3, by omega, by omega, w6, w7, w8, w9⟩, by omega, by omega⟩

theorem arpFixed_of_agree (l : ARP) (fix : Bool) (hw : wfArp l) (hs : arpSizesAgree l) : arpFixed l fix = l := by
  obtain ⟨-, -, -, -, -, -, w7, -, w9⟩ := hw
  obtain ⟨s1, s2⟩ := hs
  unfold arpFixed
  cases fix
  · rfl
  · simp only [if_true]
    have e1 : l.sourceHwAddress.length % 256 = l.hwAddressSize := by omega
    have e2 : l.sourceProtAddress.length % 256 = l.protAddressSize := by omega
    rw [e1, e2]

/-- The serialization of a well-formed layer never fails. -/
theorem arpSerSpec_wf (l : ARP) (p : Bytes) (fix : Bool) (hw : wfArp l) :
    arpSerSpec l p fix = { layer := arpFixed l fix, err := false, bytes := arpEncode (arpFixed l fix) ++ p } := by
  obtain ⟨-, -, -, -, -, w6, -, w8, -⟩ := hw
  unfold arpSerSpec
  rw [if_neg (by simp [w6]), if_neg (by simp [w8])]

theorem arpEncode_base (l : ARP) (c q : Bytes) : arpEncode { l with contents := c, payload := q } = arpEncode l := rfl

/-- Every successfully decoded ARP layer is well-formed and its size fields agree with its slices. -/
theorem arpLayer_wf (v : Bytes) (h : ¬ v.length < arpLen v) : wfArp (arpLayer v) ∧ arpSizesAgree (arpLayer v) := by
  have hH : arpHw v < 256 := (byteAt v 4).toNat_lt
  have hP : arpPr v < 256 := (byteAt v 5).toNat_lt
  unfold arpLen at h
  unfold wfArp arpSizesAgree arpLayer
  simp only [List.length_take, List.length_drop]
  refine ⟨⟨u16At_lt v 0, u16At_lt v 2, u16At_lt v 6, hH, hP, ?_, ?_, ?_, ?_⟩, ?_, ?_⟩ <;> omega

/-! ## 4. Loopback: decode ∘ encode -/

set_option maxRecDepth 8000 in
theorem loProt_putLe32 : ∀ f, f < 256 → loProt (putLe32 f) = f := by decide

theorem loDecSpec_encode (old l : Loopback) (p : Bytes) (hw : wfLo l) :
    loDecSpec old (putLe32 l.family ++ p) =
      { layer := { l with contents := putLe32 l.family, payload := p }, trunc := false, err := false } := by
  have e : loProt (putLe32 l.family ++ p) = l.family := by
    have : loProt (putLe32 l.family ++ p) = loProt (putLe32 l.family) := rfl
    rw [this]; exact loProt_putLe32 _ hw
  unfold wfLo at hw
  unfold loDecSpec
  rw [e, if_neg (by omega)]
  have e1 : l.family % 256 = l.family := by omega
  rw [e1]
  rfl

theorem loDecSpec_wf (old : Loopback) (v : Bytes) (h : (loDecSpec old v).err = false) :
    wfLo (loDecSpec old v).layer := by
  unfold loDecSpec at h ⊢
  by_cases hp : loProt v > 0xFF
  · rw [if_pos hp] at h; cases h
  · rw [if_neg hp]; unfold wfLo; simp only; omega

/-! ## 5. ERSPAN II: decode ∘ encode -/

theorem er_w2_fields (l : ERSPANII) (hw : wfEr l) :
    erspanWord2 l < 65536 ∧ erspanWord2 l / 256 / 32 = l.cos ∧ erspanWord2 l / 256 / 8 % 4 = l.trunkEncap ∧
    erspanWord2 l % 1024 = l.sessionID ∧ decide (erspanWord2 l / 256 / 4 % 2 = 1) = l.isTruncated := by
  have s2 := erspanWord2_sum l hw
  obtain ⟨-, -, h3, h4, h5, -, -⟩ := hw
  cases ht : l.isTruncated
  · rw [ht] at s2; simp only [Bool.false_eq_true, if_false] at s2
    refine ⟨by omega, by omega, by omega, by omega, ?_⟩
    simp only [decide_eq_false_iff_not]; omega
  · rw [ht] at s2; simp only [if_true] at s2
    refine ⟨by omega, by omega, by omega, by omega, ?_⟩
    simp only [decide_eq_true_eq]; omega

theorem erEncode_bytes (l : ERSPANII) (T : Bytes) :
    erEncode l ++ T = u8 (erspanWord1 l / 256) :: u8 (erspanWord1 l) :: u8 (erspanWord2 l / 256) :: u8 (erspanWord2 l) ::
      u8 (erspanWord3 l / 16777216) :: u8 (erspanWord3 l / 65536) :: u8 (erspanWord3 l / 256) :: u8 (erspanWord3 l) :: T := rfl

theorem erLayer_encode (l : ERSPANII) (p : Bytes) (hw : wfEr l) :
    erLayer (erEncode l ++ p) = { l with contents := erEncode l, payload := p } := by
  have s1 := erspanWord1_sum l hw
  have s3 := erspanWord3_sum l hw
  obtain ⟨b2, f3, f4, f5, f8⟩ := er_w2_fields l hw
  obtain ⟨h1, h2, h3, h4, h5, h6, h7⟩ := hw
  have b1 : erspanWord1 l < 65536 := by omega
  have b3 : erspanWord3 l < 4294967296 := by omega
  have e0 : byteAt (erEncode l ++ p) 0 = u8 (erspanWord1 l / 256) := rfl
  have e2 : byteAt (erEncode l ++ p) 2 = u8 (erspanWord2 l / 256) := rfl
  have u0 : u16At (erEncode l ++ p) 0 = erspanWord1 l := by
    rw [erEncode_bytes]; exact be16_putBe16 _ b1
  have u2 : u16At (erEncode l ++ p) 2 = erspanWord2 l := by
    rw [erEncode_bytes]; exact be16_putBe16 _ b2
  have u4 : u16At (erEncode l ++ p) 4 = erspanWord3 l / 65536 := by
    rw [erEncode_bytes]
    show be16 (u8 (erspanWord3 l / 16777216)) (u8 (erspanWord3 l / 65536)) = _
    unfold be16; rw [u8_toNat, u8_toNat]; omega
  have u32 : u32At (erEncode l ++ p) 4 = erspanWord3 l := by
    rw [erEncode_bytes]; exact be32_putBe32 _ b3
  have t8 : (erEncode l ++ p).take 8 = erEncode l := List.take_left' rfl
  have d8 : (erEncode l ++ p).drop 8 = p := List.drop_left' rfl
  have x1 : (u8 (erspanWord1 l / 256)).toNat = erspanWord1 l / 256 := by rw [u8_toNat]; omega
  have x2 : (u8 (erspanWord2 l / 256)).toNat = erspanWord2 l / 256 := by rw [u8_toNat]; omega
  unfold erLayer
  rw [e0, e2, u0, u2, u4, u32, t8, d8, x1, x2, byte_hi4 _ (by omega), byte_cos _ (by omega), byte_te _ (by omega),
    byte_t _ (by omega), and_0fff, and_03ff, and_fff0 _ (by omega), and_fffff]
  have f1 : erspanWord1 l / 256 / 16 = l.version := by omega
  have f2 : erspanWord1 l % 4096 = l.vlan := by omega
  have f6 : erspanWord3 l / 65536 / 16 = l.reserved := by omega
  have f7 : erspanWord3 l % 1048576 = l.index := by omega
  rw [f1, f2, f3, f4, f5, f6, f7, f8]

/-- Every decoded ERSPAN II layer is well-formed. -/
theorem erLayer_wf (v : Bytes) : wfEr (erLayer v) := by
  have h0 := (byteAt v 0).toNat_lt
  have h2 := (byteAt v 2).toNat_lt
  have g1 := u16At_lt v 4
  unfold wfEr erLayer
  simp only
  rw [byte_hi4 _ h0, byte_cos _ h2, byte_te _ h2, and_0fff, and_03ff, and_fff0 _ g1, and_fffff]
  refine ⟨?_, ?_, ?_, ?_, ?_, ?_, ?_⟩ <;> omega

end Gp.Arp
