import Gp.Model.Layers.Rmcp
import Gp.Lemmas.SBuf
/-
  Helper lemmas for engine `lrmcp` (RMCP, ASF, AGUEVar0 codecs), part 1: decoding.  Core Lean only.

  Section 1 holds the *definitions* that occur in the statements of the property theorems
  (functional specifications of the three DecodeFromBytes methods); the rest is proof machinery.
-/
namespace Gp.Rmcp
open Gp Gp.SBuf Gp.Gen.Rmcp

/-! ## 1. Definitions used in property statements -/

/-- Byte `i` of a byte string (0 for a missing byte; only used where the byte exists). -/
def byteAt (v : Bytes) (i : Nat) : UInt8 := v.getD i 0

/-- Big-endian 32-bit value at offset `i`. -/
def u32At (v : Bytes) (i : Nat) : Nat :=
  be32 (byteAt v i) (byteAt v (i + 1)) (byteAt v (i + 2)) (byteAt v (i + 3))

/-- The layer a successful `RMCP.DecodeFromBytes` produces: a function of the visible bytes alone. -/
def rmcpLayer (v : Bytes) : RMCP :=
  { contents := v.take 4, payload := v.drop 4, version := (byteAt v 0).toNat, sequence := (byteAt v 2).toNat,
    ack := ((byteAt v 3).toNat &&& rmcpAck != 0), cls := (byteAt v 3).toNat &&& 0xF }

def rmcpDecSpec (v : Bytes) : DecOut RMCP := { layer := rmcpLayer v, trunc := false, err := false }

/-- `RMCPClass.LayerType()` for a class below 16. -/
def rmcpNextOf (c : Nat) : Nat := if c = rmcpClassASF then LayerTypeASF else LayerTypePayload

/-- The layer a successful `ASF.DecodeFromBytes` produces. -/
def asfLayer (v : Bytes) : ASF :=
  { contents := v.take 8, payload := v.drop 8, enterprise := u32At v 0, typ := (byteAt v 4).toNat,
    tag := (byteAt v 5).toNat, length := (byteAt v 7).toNat }

def asfDecSpec (v : Bytes) : DecOut ASF := { layer := asfLayer v, trunc := false, err := false }

/-- The extension length announced by the first byte of an AGUEVar0 header. -/
def agueHlen (v : Bytes) : Nat := (byteAt v 0).toNat &&& 0x1f

/-- The layer a successful `AGUEVar0.DecodeFromBytes` produces. -/
def agueLayer (v : Bytes) : AGUE :=
  { version := (byteAt v 0).toNat >>> 6, c := ((byteAt v 0).toNat &&& 0x20 != 0), protocol := (byteAt v 1).toNat,
    flags := (((byteAt v 2).toNat <<< 8) % 65536) ||| (byteAt v 3).toNat,
    extensions := (v.drop 4).take (agueHlen v), data := v.drop (4 + agueHlen v) }

/-- What `AGUEVar0.DecodeFromBytes` computes from the visible bytes `v` (|v| ≥ 4) and the receiver. -/
def agueDecSpec (old : AGUE) (v : Bytes) : DecOut AGUE :=
  if v.length < 4 + agueHlen v then { layer := old, trunc := false, err := true }
  else { layer := agueLayer v, trunc := false, err := false }

/-! ## 2. Go slices -/

theorem GSlice.slice_ok (s : GSlice) (a b : Nat) (hab : a ≤ b) (hb : b ≤ s.len) :
    s.slice a b = .ok { vis := (s.vis.drop a).take (b - a), tail := s.vis.drop b ++ s.tail } := by
  unfold GSlice.slice GSlice.cap
  unfold GSlice.len at hb
  have h1 : a ≤ b ∧ b ≤ s.vis.length + s.tail.length := ⟨hab, by omega⟩
  rw [if_pos h1]
  have ha : a ≤ s.vis.length := by omega
  rw [List.drop_append_of_le_length ha, List.drop_append_of_le_length hb,
    List.take_append_of_le_length (by rw [List.length_drop]; omega)]

theorem GSlice.sliceFrom_ok (s : GSlice) (a : Nat) (ha : a ≤ s.len) :
    s.sliceFrom a = .ok { vis := s.vis.drop a, tail := s.tail } := by
  unfold GSlice.sliceFrom; rw [if_pos ha]

theorem GSlice.index_ok (s : GSlice) (i : Nat) (h : i < s.len) :
    s.index i = .ok (byteAt s.vis i) := by
  unfold GSlice.index Gp.index byteAt
  have h' : i < s.vis.length := h
  simp [List.getD_eq_getElem?_getD, h']

/-- The four-byte window `[i, i+4)`. -/
theorem four_bytes (v : Bytes) (i : Nat) (h : i + 4 ≤ v.length) :
    (v.drop i).take 4 = [byteAt v i, byteAt v (i + 1), byteAt v (i + 2), byteAt v (i + 3)] := by
  have h0 : i < v.length := by omega
  have h1 : i + 1 < v.length := by omega
  have h2 : i + 2 < v.length := by omega
  have h3 : i + 3 < v.length := by omega
  have e : v.drop i = v[i] :: v[i+1] :: v[i+2] :: v[i+3] :: v.drop (i+4) := by
    rw [List.drop_eq_getElem_cons h0, List.drop_eq_getElem_cons h1, List.drop_eq_getElem_cons h2,
      List.drop_eq_getElem_cons h3]
  rw [e]
  simp only [byteAt, List.take_succ_cons, List.take_zero, List.getD_eq_getElem?_getD,
    List.getElem?_eq_getElem h0, List.getElem?_eq_getElem h1, List.getElem?_eq_getElem h2,
    List.getElem?_eq_getElem h3, Option.getD_some]

theorem uint32be_four (a b c d : UInt8) (t : Bytes) :
    uint32be { vis := [a, b, c, d], tail := t } = .ok (be32 a b c d) := by
  simp [uint32be, GSlice.index, Gp.index, bind, Res.bind, pure]

theorem uint32be_vis (v t : Bytes) (i : Nat) (h : i + 4 ≤ v.length) :
    uint32be { vis := (v.drop i).take 4, tail := t } = .ok (u32At v i) := by
  rw [four_bytes v i h]; exact uint32be_four _ _ _ _ _

theorem be32_lt (a b c d : UInt8) : be32 a b c d < 4294967296 := by
  have := a.toNat_lt; have := b.toNat_lt; have := c.toNat_lt; have := d.toNat_lt
  unfold be32; omega

theorem u32At_lt (v : Bytes) (i : Nat) : u32At v i < 4294967296 := be32_lt _ _ _ _

theorem agueHlen_le (v : Bytes) : agueHlen v ≤ 31 := by
  unfold agueHlen; exact Nat.and_le_right

/-! ## 3. DecodeFromBytes = its functional specification -/

theorem RMCP.decode_short (old : RMCP) (d : GSlice) (h : d.len < 4) :
    old.decodeFromBytes d = .ok { layer := old, trunc := true, err := true } := by
  unfold RMCP.decodeFromBytes; rw [if_pos h]

theorem RMCP.decode_long (old : RMCP) (d : GSlice) (h : 4 ≤ d.len) :
    old.decodeFromBytes d = .ok (rmcpDecSpec d.vis) := by
  have hl : 4 ≤ d.vis.length := h
  unfold RMCP.decodeFromBytes
  rw [if_neg (by omega)]
  rw [GSlice.slice_ok d 0 4 (by omega) (by omega), Res.bind_ok]
  rw [GSlice.sliceFrom_ok d 4 h, Res.bind_ok]
  rw [GSlice.index_ok d 0 (by omega), Res.bind_ok]
  rw [GSlice.index_ok d 2 (by omega), Res.bind_ok]
  rw [GSlice.index_ok d 3 (by omega), Res.bind_ok, Res.bind_ok]
  simp only [List.drop_zero, Nat.sub_zero, pure, rmcpDecSpec, rmcpLayer]

theorem RMCP.decode_vis (old : RMCP) (v foreign : Bytes) (h : 4 ≤ v.length) :
    old.decodeFromBytes { vis := v, tail := foreign } = .ok (rmcpDecSpec v) :=
  RMCP.decode_long old { vis := v, tail := foreign } h

theorem ASF.decode_short (old : ASF) (d : GSlice) (h : d.len < 8) :
    old.decodeFromBytes d = .ok { layer := old, trunc := true, err := true } := by
  unfold ASF.decodeFromBytes; rw [if_pos h]

theorem ASF.decode_long (old : ASF) (d : GSlice) (h : 8 ≤ d.len) :
    old.decodeFromBytes d = .ok (asfDecSpec d.vis) := by
  have hl : 8 ≤ d.vis.length := h
  unfold ASF.decodeFromBytes
  rw [if_neg (by omega)]
  rw [GSlice.slice_ok d 0 8 (by omega) (by omega), Res.bind_ok]
  rw [GSlice.sliceFrom_ok d 8 h, Res.bind_ok]
  rw [GSlice.slice_ok d 0 4 (by omega) (by omega), Res.bind_ok]
  simp only [Nat.sub_zero]
  rw [uint32be_vis d.vis _ 0 (by omega), Res.bind_ok]
  rw [GSlice.index_ok d 4 (by omega), Res.bind_ok]
  rw [GSlice.index_ok d 5 (by omega), Res.bind_ok]
  rw [GSlice.index_ok d 7 (by omega), Res.bind_ok]
  simp only [List.drop_zero, pure, asfDecSpec, asfLayer]

theorem ASF.decode_vis (old : ASF) (v foreign : Bytes) (h : 8 ≤ v.length) :
    old.decodeFromBytes { vis := v, tail := foreign } = .ok (asfDecSpec v) :=
  ASF.decode_long old { vis := v, tail := foreign } h

theorem AGUE.decode_short (old : AGUE) (d : GSlice) (h : d.len < 4) :
    old.decodeFromBytes d = .ok { layer := old, trunc := false, err := true } := by
  unfold AGUE.decodeFromBytes; rw [if_pos h]

theorem AGUE.decode_long (old : AGUE) (d : GSlice) (h : 4 ≤ d.len) :
    old.decodeFromBytes d = .ok (agueDecSpec old d.vis) := by
  have hl : 4 ≤ d.vis.length := h
  unfold AGUE.decodeFromBytes
  rw [if_neg (by omega)]
  rw [GSlice.index_ok d 0 (by omega), Res.bind_ok]
  unfold agueDecSpec
  have eh : (byteAt d.vis 0).toNat &&& 0x1f = agueHlen d.vis := rfl
  simp only [eh]
  have hle := agueHlen_le d.vis
  by_cases hlt : d.len < 4 + agueHlen d.vis
  · rw [if_pos hlt, if_pos (show d.vis.length < 4 + agueHlen d.vis from hlt)]; rfl
  · rw [if_neg hlt, if_neg (show ¬ d.vis.length < 4 + agueHlen d.vis from hlt)]
    have hm : (4 + agueHlen d.vis) % 256 = 4 + agueHlen d.vis := by omega
    rw [Res.bind_ok, Res.bind_ok]
    rw [GSlice.index_ok d 1 (by omega), Res.bind_ok]
    rw [GSlice.index_ok d 2 (by omega), Res.bind_ok]
    rw [GSlice.index_ok d 3 (by omega), Res.bind_ok, Res.bind_ok]
    simp only [eh, hm]
    rw [GSlice.slice_ok d 4 (4 + agueHlen d.vis) (by omega) (by omega), Res.bind_ok]
    rw [GSlice.sliceFrom_ok d (4 + agueHlen d.vis) (by omega), Res.bind_ok]
    have e1 : 4 + agueHlen d.vis - 4 = agueHlen d.vis := by omega
    simp only [e1, pure, agueLayer]

theorem AGUE.decode_vis (old : AGUE) (v foreign : Bytes) (h : 4 ≤ v.length) :
    old.decodeFromBytes { vis := v, tail := foreign } = .ok (agueDecSpec old v) :=
  AGUE.decode_long old { vis := v, tail := foreign } h

/-! ## 4. Facts about the specifications -/

theorem rmcpLayer_cls_lt (v : Bytes) : (rmcpLayer v).cls < 16 := by
  have : (rmcpLayer v).cls ≤ 15 := Nat.and_le_right
  omega

theorem rmcpClassLayerType_lt : ∀ c, c < 16 → rmcpClassLayerType c = .ok (rmcpNextOf c) := by decide

theorem rmcpLayer_next (v : Bytes) : (rmcpLayer v).nextLayerType = .ok (rmcpNextOf (rmcpLayer v).cls) :=
  rmcpClassLayerType_lt _ (rmcpLayer_cls_lt v)

theorem rmcpDecSpec_payload_le (v : Bytes) (h4 : 4 ≤ v.length) :
    (rmcpDecSpec v).layer.payload.length + 4 ≤ v.length := by
  simp only [rmcpDecSpec, rmcpLayer, List.length_drop]; omega

theorem asfDecSpec_payload_le (v : Bytes) (h8 : 8 ≤ v.length) :
    (asfDecSpec v).layer.payload.length + 8 ≤ v.length := by
  simp only [asfDecSpec, asfLayer, List.length_drop]; omega

theorem agueDecSpec_payload_le (old : AGUE) (v : Bytes) (h : (agueDecSpec old v).err = false) :
    (agueDecSpec old v).layer.layerPayload.length + 4 ≤ v.length := by
  unfold agueDecSpec at h ⊢
  by_cases hlt : v.length < 4 + agueHlen v
  · rw [if_pos hlt] at h; cases h
  · rw [if_neg hlt]
    simp only [agueLayer, AGUE.layerPayload, List.length_drop]
    omega

theorem agueDecSpec_err_indep (a b : AGUE) (v : Bytes) : (agueDecSpec a v).err = (agueDecSpec b v).err ∧
    (agueDecSpec a v).trunc = (agueDecSpec b v).trunc ∧
    ((agueDecSpec a v).err = false → (agueDecSpec a v).layer = (agueDecSpec b v).layer) := by
  unfold agueDecSpec
  by_cases h : v.length < 4 + agueHlen v
  · rw [if_pos h, if_pos h]; exact ⟨rfl, rfl, fun hh => by cases hh⟩
  · rw [if_neg h, if_neg h]; exact ⟨rfl, rfl, fun _ => rfl⟩

theorem agueDecSpec_err_keeps (o : AGUE) (v : Bytes) (h : (agueDecSpec o v).err = true) :
    (agueDecSpec o v).layer = o := by
  unfold agueDecSpec at h ⊢
  by_cases hp : v.length < 4 + agueHlen v
  · rw [if_pos hp]
  · rw [if_neg hp] at h; cases h

/-! ## 5. The DecodingLayerParser loop over {RMCP, ASF, AGUEVar0} -/

theorem lt_ne_1 : ¬ (LayerTypeASF = LayerTypeRMCP) := by decide
theorem lt_ne_2 : ¬ (LayerTypeAGUEVar0 = LayerTypeRMCP) := by decide
theorem lt_ne_3 : ¬ (LayerTypeAGUEVar0 = LayerTypeASF) := by decide

/-- One iteration of the parser loop on an RMCP layer, in terms of the decode specification. -/
theorem dlpLoop_rmcp (fuel : Nat) (st : DlpState) (data : GSlice) :
    dlpLoop (fuel + 1) st LayerTypeRMCP data =
      if data.len < 4 then .ok ({ st with trunc := st.trunc || true }, 1)
      else
        let o := rmcpDecSpec data.vis
        let st' : DlpState := { st with rmcp := o.layer, trunc := st.trunc || o.trunc,
                                        decoded := st.decoded ++ [LayerTypeRMCP] }
        let rest : GSlice := { vis := o.layer.payload, tail := data.tail }
        if rest.len = 0 then .ok (st', 0) else dlpLoop fuel st' (rmcpNextOf o.layer.cls) rest := by
  by_cases h : data.len < 4
  · rw [if_pos h]
    unfold dlpLoop
    simp only [if_true, RMCP.decode_short st.rmcp data h]
  · rw [if_neg h]
    conv => lhs; unfold dlpLoop
    simp only [if_true, RMCP.decode_long st.rmcp data (by omega)]
    have hn : (rmcpDecSpec data.vis).layer.nextLayerType = .ok (rmcpNextOf (rmcpDecSpec data.vis).layer.cls) :=
      rmcpLayer_next data.vis
    simp only [hn]
    all_goals rfl

theorem dlpLoop_asf (fuel : Nat) (st : DlpState) (data : GSlice) :
    dlpLoop (fuel + 1) st LayerTypeASF data =
      if data.len < 8 then .ok ({ st with trunc := st.trunc || true }, 1)
      else
        let o := asfDecSpec data.vis
        let st' : DlpState := { st with asf := o.layer, trunc := st.trunc || o.trunc,
                                        decoded := st.decoded ++ [LayerTypeASF] }
        let rest : GSlice := { vis := o.layer.payload, tail := data.tail }
        if rest.len = 0 then .ok (st', 0) else dlpLoop fuel st' o.layer.nextLayerType rest := by
  by_cases h : data.len < 8
  · rw [if_pos h]
    unfold dlpLoop
    simp only [lt_ne_1, if_false, if_true, ASF.decode_short st.asf data h]
  · rw [if_neg h]
    conv => lhs; unfold dlpLoop
    simp only [lt_ne_1, if_false, if_true, ASF.decode_long st.asf data (by omega)]
    all_goals rfl

theorem dlpLoop_ague (fuel : Nat) (st : DlpState) (data : GSlice) :
    dlpLoop (fuel + 1) st LayerTypeAGUEVar0 data =
      if data.len < 4 then .ok ({ st with trunc := st.trunc || false }, 1)
      else
        let o := agueDecSpec st.ague data.vis
        let st1 : DlpState := { st with ague := o.layer, trunc := st.trunc || o.trunc }
        if o.err then .ok (st1, 1) else
        let st' : DlpState := { st1 with decoded := st.decoded ++ [LayerTypeAGUEVar0] }
        let rest : GSlice := { vis := o.layer.layerPayload, tail := data.tail }
        if rest.len = 0 then .ok (st', 0) else dlpLoop fuel st' o.layer.nextLayerType rest := by
  by_cases h : data.len < 4
  · rw [if_pos h]
    unfold dlpLoop
    simp only [lt_ne_2, lt_ne_3, if_false, if_true, AGUE.decode_short st.ague data h]
  · rw [if_neg h]
    conv => lhs; unfold dlpLoop
    simp only [lt_ne_2, lt_ne_3, if_false, if_true, AGUE.decode_long st.ague data (by omega)]
    all_goals rfl

theorem dlpLoop_other (fuel : Nat) (st : DlpState) (typ : Nat) (data : GSlice)
    (h1 : typ ≠ LayerTypeRMCP) (h2 : typ ≠ LayerTypeASF) (h3 : typ ≠ LayerTypeAGUEVar0) :
    dlpLoop (fuel + 1) st typ data = if typ = LayerTypeZero then .ok (st, 0) else .ok (st, 2) := by
  unfold dlpLoop
  simp only [h1, h2, h3, if_false]

theorem dlpLoop_no_panic (fuel : Nat) (st : DlpState) (typ : Nat) (data : GSlice) (k : PanicKind) :
    dlpLoop fuel st typ data ≠ .panic k := by
  induction fuel generalizing st typ data with
  | zero => unfold dlpLoop; exact fun h => nomatch h
  | succ fuel ih =>
    by_cases h1 : typ = LayerTypeRMCP
    · subst h1; rw [dlpLoop_rmcp]
      split
      · exact fun h => nomatch h
      · simp only; split
        · exact fun h => nomatch h
        · exact ih _ _ _
    · by_cases h2 : typ = LayerTypeASF
      · subst h2; rw [dlpLoop_asf]
        split
        · exact fun h => nomatch h
        · simp only; split
          · exact fun h => nomatch h
          · exact ih _ _ _
      · by_cases h3 : typ = LayerTypeAGUEVar0
        · subst h3; rw [dlpLoop_ague]
          split
          · exact fun h => nomatch h
          · simp only; split
            · exact fun h => nomatch h
            · split
              · exact fun h => nomatch h
              · exact ih _ _ _
        · rw [dlpLoop_other _ _ _ _ h1 h2 h3]; split <;> exact fun h => nomatch h

/-- The fuel `|data| + 1` of `dlpDecodeLayers` suffices: any two amounts of fuel above the input
    length give the same run (each iteration consumes at least 4 bytes). -/
theorem dlpLoop_fuel (f1 f2 : Nat) (st : DlpState) (typ : Nat) (data : GSlice)
    (h1 : data.len < f1) (h2 : data.len < f2) :
    dlpLoop f1 st typ data = dlpLoop f2 st typ data := by
  induction f1 generalizing f2 st typ data with
  | zero => omega
  | succ f1 ih =>
    cases f2 with
    | zero => omega
    | succ f2 =>
      by_cases e1 : typ = LayerTypeRMCP
      · subst e1; rw [dlpLoop_rmcp, dlpLoop_rmcp]
        by_cases hs : data.len < 4
        · rw [if_pos hs, if_pos hs]
        · rw [if_neg hs, if_neg hs]
          simp only
          have hp := rmcpDecSpec_payload_le data.vis (by unfold GSlice.len at hs; omega)
          split
          · rfl
          · exact ih _ _ _ _ (by unfold GSlice.len at *; simp only; omega) (by unfold GSlice.len at *; simp only; omega)
      · by_cases e2 : typ = LayerTypeASF
        · subst e2; rw [dlpLoop_asf, dlpLoop_asf]
          by_cases hs : data.len < 8
          · rw [if_pos hs, if_pos hs]
          · rw [if_neg hs, if_neg hs]
            simp only
            have hp := asfDecSpec_payload_le data.vis (by unfold GSlice.len at hs; omega)
            split
            · rfl
            · exact ih _ _ _ _ (by unfold GSlice.len at *; simp only; omega) (by unfold GSlice.len at *; simp only; omega)
        · by_cases e3 : typ = LayerTypeAGUEVar0
          · subst e3; rw [dlpLoop_ague, dlpLoop_ague]
            by_cases hs : data.len < 4
            · rw [if_pos hs, if_pos hs]
            · rw [if_neg hs, if_neg hs]
              simp only
              by_cases he : (agueDecSpec st.ague data.vis).err = true
              · rw [if_pos he, if_pos he]
              · rw [if_neg he, if_neg he]
                have hp := agueDecSpec_payload_le st.ague data.vis (by simpa using he)
                split
                · rfl
                · exact ih _ _ _ _ (by unfold GSlice.len at *; simp only; omega) (by unfold GSlice.len at *; simp only; omega)
          · rw [dlpLoop_other _ _ _ _ e1 e2 e3, dlpLoop_other _ _ _ _ e1 e2 e3]

/-- The result of the parser loop does not depend on the capacity of the packet buffer / the bytes
    behind the input. -/
theorem dlpLoop_cap (fuel : Nat) (st : DlpState) (typ : Nat) (v t1 t2 : Bytes) :
    dlpLoop fuel st typ { vis := v, tail := t1 } = dlpLoop fuel st typ { vis := v, tail := t2 } := by
  induction fuel generalizing st typ v t1 t2 with
  | zero => unfold dlpLoop; rfl
  | succ fuel ih =>
    have hlen : ∀ (p a b : Bytes), GSlice.len { vis := p, tail := a } = GSlice.len { vis := p, tail := b } :=
      fun _ _ _ => rfl
    by_cases e1 : typ = LayerTypeRMCP
    · subst e1; rw [dlpLoop_rmcp, dlpLoop_rmcp]
      simp only [hlen v t1 t2]
      split
      · rfl
      · simp only [hlen _ t1 t2]
        split
        · rfl
        · exact ih _ _ _ _ _
    · by_cases e2 : typ = LayerTypeASF
      · subst e2; rw [dlpLoop_asf, dlpLoop_asf]
        simp only [hlen v t1 t2]
        split
        · rfl
        · simp only [hlen _ t1 t2]
          split
          · rfl
          · exact ih _ _ _ _ _
      · by_cases e3 : typ = LayerTypeAGUEVar0
        · subst e3; rw [dlpLoop_ague, dlpLoop_ague]
          simp only [hlen v t1 t2]
          split
          · rfl
          · split
            · rfl
            · simp only [hlen _ t1 t2]
              split
              · rfl
              · exact ih _ _ _ _ _
        · rw [dlpLoop_other _ _ _ _ e1 e2 e3, dlpLoop_other _ _ _ _ e1 e2 e3]

/-- Two parser states agree on everything a caller may rely on after DecodeLayers: the decoded type
    list, the truncation flag, and the contents of every layer object whose type is in the list. -/
def DlpAgree (s1 s2 : DlpState) : Prop :=
  s1.decoded = s2.decoded ∧ s1.trunc = s2.trunc ∧
  (LayerTypeRMCP ∈ s1.decoded → s1.rmcp = s2.rmcp) ∧
  (LayerTypeASF ∈ s1.decoded → s1.asf = s2.asf) ∧
  (LayerTypeAGUEVar0 ∈ s1.decoded → s1.ague = s2.ague)

theorem dlpLoop_agree (fuel : Nat) (s1 s2 : DlpState) (typ : Nat) (data : GSlice) (h : DlpAgree s1 s2) :
    ∃ r1 r2 c, dlpLoop fuel s1 typ data = .ok (r1, c) ∧ dlpLoop fuel s2 typ data = .ok (r2, c) ∧
      DlpAgree r1 r2 := by
  induction fuel generalizing s1 s2 typ data with
  | zero => exact ⟨s1, s2, 0, by unfold dlpLoop; rfl, by unfold dlpLoop; rfl, h⟩
  | succ fuel ih =>
    obtain ⟨hd, ht, hr, ha, hg⟩ := h
    by_cases e1 : typ = LayerTypeRMCP
    · subst e1; rw [dlpLoop_rmcp, dlpLoop_rmcp]
      by_cases hs : data.len < 4
      · rw [if_pos hs, if_pos hs]
        exact ⟨_, _, 1, rfl, rfl, hd, by simp only [ht], hr, ha, hg⟩
      · rw [if_neg hs, if_neg hs]
        simp only
        have hag : DlpAgree
            { s1 with rmcp := (rmcpDecSpec data.vis).layer, trunc := s1.trunc || (rmcpDecSpec data.vis).trunc,
                      decoded := s1.decoded ++ [LayerTypeRMCP] }
            { s2 with rmcp := (rmcpDecSpec data.vis).layer, trunc := s2.trunc || (rmcpDecSpec data.vis).trunc,
                      decoded := s2.decoded ++ [LayerTypeRMCP] } := by
          refine ⟨by simp only [hd], by simp only [ht], fun _ => rfl, fun hm => ?_, fun hm => ?_⟩
          · simp only [List.mem_append, List.mem_singleton] at hm
            rcases hm with hm | hm
            · exact ha hm
            · exact absurd hm lt_ne_1
          · simp only [List.mem_append, List.mem_singleton] at hm
            rcases hm with hm | hm
            · exact hg hm
            · exact absurd hm lt_ne_2
        split
        · exact ⟨_, _, 0, rfl, rfl, hag⟩
        · exact ih _ _ _ _ hag
    · by_cases e2 : typ = LayerTypeASF
      · subst e2; rw [dlpLoop_asf, dlpLoop_asf]
        by_cases hs : data.len < 8
        · rw [if_pos hs, if_pos hs]
          exact ⟨_, _, 1, rfl, rfl, hd, by simp only [ht], hr, ha, hg⟩
        · rw [if_neg hs, if_neg hs]
          simp only
          have hag : DlpAgree
              { s1 with asf := (asfDecSpec data.vis).layer, trunc := s1.trunc || (asfDecSpec data.vis).trunc,
                        decoded := s1.decoded ++ [LayerTypeASF] }
              { s2 with asf := (asfDecSpec data.vis).layer, trunc := s2.trunc || (asfDecSpec data.vis).trunc,
                        decoded := s2.decoded ++ [LayerTypeASF] } := by
            refine ⟨by simp only [hd], by simp only [ht], fun hm => ?_, fun _ => rfl, fun hm => ?_⟩
            · simp only [List.mem_append, List.mem_singleton] at hm
              rcases hm with hm | hm
              · exact hr hm
              · exact absurd hm.symm lt_ne_1
            · simp only [List.mem_append, List.mem_singleton] at hm
              rcases hm with hm | hm
              · exact hg hm
              · exact absurd hm lt_ne_3
          split
          · exact ⟨_, _, 0, rfl, rfl, hag⟩
          · exact ih _ _ _ _ hag
      · by_cases e3 : typ = LayerTypeAGUEVar0
        · subst e3; rw [dlpLoop_ague, dlpLoop_ague]
          by_cases hs : data.len < 4
          · rw [if_pos hs, if_pos hs]
            exact ⟨_, _, 1, rfl, rfl, hd, by simp only [ht], hr, ha, hg⟩
          · rw [if_neg hs, if_neg hs]
            simp only
            obtain ⟨x1, x2, x3⟩ := agueDecSpec_err_indep s1.ague s2.ague data.vis
            by_cases hee : (agueDecSpec s1.ague data.vis).err = true
            · have hee2 : (agueDecSpec s2.ague data.vis).err = true := by rw [← x1]; exact hee
              rw [if_pos hee, if_pos hee2]
              refine ⟨_, _, 1, rfl, rfl, hd, by simp only [ht, x2], hr, ha, fun hm => ?_⟩
              simp only
              rw [agueDecSpec_err_keeps _ _ hee, agueDecSpec_err_keeps _ _ hee2]
              exact hg hm
            · have hef : (agueDecSpec s1.ague data.vis).err = false := by simpa using hee
              have hee2 : ¬ (agueDecSpec s2.ague data.vis).err = true := by rw [← x1]; exact hee
              rw [if_neg hee, if_neg hee2, ← x3 hef]
              have hag : DlpAgree
                  { s1 with ague := (agueDecSpec s1.ague data.vis).layer, trunc := s1.trunc || (agueDecSpec s1.ague data.vis).trunc,
                            decoded := s1.decoded ++ [LayerTypeAGUEVar0] }
                  { s2 with ague := (agueDecSpec s1.ague data.vis).layer, trunc := s2.trunc || (agueDecSpec s2.ague data.vis).trunc,
                            decoded := s2.decoded ++ [LayerTypeAGUEVar0] } := by
                refine ⟨by simp only [hd], by simp only [ht, x2], fun hm => ?_, fun hm => ?_, fun _ => rfl⟩
                · simp only [List.mem_append, List.mem_singleton] at hm
                  rcases hm with hm | hm
                  · exact hr hm
                  · exact absurd hm.symm lt_ne_2
                · simp only [List.mem_append, List.mem_singleton] at hm
                  rcases hm with hm | hm
                  · exact ha hm
                  · exact absurd hm.symm lt_ne_3
              split
              · exact ⟨_, _, 0, rfl, rfl, hag⟩
              · exact ih _ _ _ _ hag
        · rw [dlpLoop_other _ _ _ _ e1 e2 e3, dlpLoop_other _ _ _ _ e1 e2 e3]
          split
          · exact ⟨_, _, 0, rfl, rfl, hd, ht, hr, ha, hg⟩
          · exact ⟨_, _, 2, rfl, rfl, hd, ht, hr, ha, hg⟩

end Gp.Rmcp
