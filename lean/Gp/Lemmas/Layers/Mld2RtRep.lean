import Gp.Lemmas.Layers.Mld2Rt
/-
  Helper lemmas for engine `lmld2`, part 5: round trip of the report (records, source lists,
  auxiliary data).  Core Lean only.
-/
namespace Gp.Mld2
open Gp Gp.SBuf Gp.C18 Gp.Mld Gp.Gen.Mld2

/-! ## 1. Definitions used in property statements -/

/-- The bytes of one record. -/
def encRec (r : Rec) : Bytes := recHeader r r.addr ++ (r.srcs.flatten ++ r.aux)

/-- The bytes of a record list, in order. -/
def encRecs : List Rec → Bytes
  | [] => []
  | r :: rest => encRec r ++ encRecs rest

/-! ## 2. Decoding an encoded record -/

theorem recHeader_length (r : Rec) (m : Bytes) (hm : m.length = 16) : (recHeader r m).length = 20 := by
  simp [recHeader, putBe16, hm]

theorem encRec_length (r : Rec) (hw : wfRec r) : (encRec r).length = 20 + r.n * 16 + r.auxLen * 4 := by
  obtain ⟨_, _, _, haddr, hn, hall, haux⟩ := hw
  unfold encRec
  rw [List.length_append, List.length_append, recHeader_length r _ haddr, flatten_len16 _ hall, hn, haux]
  omega

theorem recDecSpec_encode (r : Rec) (T : Bytes) (hw : wfRec r) :
    recDecSpec (encRec r ++ T) =
      { mar := r, read := 20 + r.n * 16 + r.auxLen * 4, trunc := false, err := false } := by
  have hlenE := encRec_length r hw
  obtain ⟨htyp, hal, hnn, haddr, hn, hall, haux⟩ := hw
  have hH := recHeader_length r r.addr haddr
  generalize hv : encRec r ++ T = v
  have ev : v = [u8 r.typ, u8 r.auxLen, u8 (r.n / 256), u8 r.n] ++ (r.addr ++ (r.srcs.flatten ++ (r.aux ++ T))) := by
    rw [← hv]; simp [encRec, recHeader, putBe16, List.append_assoc]
  have ev2 : v = recHeader r r.addr ++ (r.srcs.flatten ++ (r.aux ++ T)) := by
    rw [← hv]; simp only [encRec, List.append_assoc]
  have hvlen : v.length = 20 + r.n * 16 + r.auxLen * 4 + T.length := by
    rw [← hv, List.length_append, hlenE]
  have f0 : byteAt v 0 = u8 r.typ := by rw [ev]; rfl
  have f1 : byteAt v 1 = u8 r.auxLen := by rw [ev]; rfl
  have f2 : u16At v 2 = r.n := by
    rw [ev]
    show be16 (u8 (r.n / 256)) (u8 r.n) = _
    exact be16_putBe16 _ hnn
  have f4 : (v.drop 4).take 16 = r.addr := by
    rw [ev]
    simp only [List.cons_append, List.nil_append, List.drop_succ_cons, List.drop_zero]
    exact List.take_left' haddr
  have hloop := srcLoopSpec_encode 20 (r.aux ++ T) r.srcs (recHeader r r.addr) 0 0 [] hall (by rw [hH])
  rw [← ev2, hn, ← f2] at hloop
  obtain ⟨l1, l2⟩ := hloop
  have ht : r.typ % 256 = r.typ := Nat.mod_eq_of_lt htyp
  have ha : r.auxLen % 256 = r.auxLen := Nat.mod_eq_of_lt hal
  have c1 : ¬ v.length < 20 := by omega
  have c2 : ¬ v.length < r.auxLen * 4 + (20 + r.n * 16) := by omega
  rw [f2] at l1 l2
  unfold recDecSpec
  rw [if_neg c1]
  simp only [f0, f1, f2, f4, u8_toNat, ht, ha]
  simp only [l2, Bool.false_eq_true, if_false, l1, List.nil_append, if_neg c2]
  have e3 : v = (recHeader r r.addr ++ r.srcs.flatten) ++ (r.aux ++ T) := by rw [ev2]; simp only [List.append_assoc]
  have hk : (recHeader r r.addr ++ r.srcs.flatten).length = 20 + r.n * 16 := by
    rw [List.length_append, hH, flatten_len16 _ hall, hn]
  have hd : (v.drop (20 + r.n * 16)).take (r.auxLen * 4 + (20 + r.n * 16) - (20 + r.n * 16)) = r.aux := by
    rw [e3, List.drop_left' hk, Nat.add_sub_cancel]
    exact List.take_left' haux
  rw [hd]
  have hr : r.auxLen * 4 + (20 + r.n * 16) = 20 + r.n * 16 + r.auxLen * 4 := by omega
  rw [hr]

/-! ## 3. The record loop -/

theorem encRecs_append (xs ys : List Rec) : encRecs (xs ++ ys) = encRecs xs ++ encRecs ys := by
  induction xs with
  | nil => rfl
  | cons x rest ih => simp only [List.cons_append, encRecs, ih, List.append_assoc]

theorem recLoopSpec_encode (p : Bytes) : ∀ (rs : List Rec) (pre : Bytes) (acc : List Rec),
    (∀ r ∈ rs, wfRec r) →
    recLoopSpec (pre ++ (encRecs rs ++ p)) rs.length pre.length acc =
      (acc ++ rs, false, false, pre.length + (encRecs rs).length) := by
  intro rs
  induction rs with
  | nil => intro pre acc _; simp [recLoopSpec, encRecs]
  | cons r rest ih =>
    intro pre acc hall
    have hr : wfRec r := hall r (List.mem_cons_self ..)
    simp only [List.length_cons]
    unfold recLoopSpec
    have hd : (pre ++ (encRecs (r :: rest) ++ p)).drop pre.length = encRec r ++ (encRecs rest ++ p) := by
      rw [List.drop_left' rfl]; simp only [encRecs, List.append_assoc]
    rw [hd, recDecSpec_encode r _ hr]
    simp only [Bool.false_eq_true, if_false]
    have e2 : pre ++ (encRecs (r :: rest) ++ p) = (pre ++ encRec r) ++ (encRecs rest ++ p) := by
      simp only [encRecs, List.append_assoc]
    have hl : pre.length + (20 + r.n * 16 + r.auxLen * 4) = (pre ++ encRec r).length := by
      rw [List.length_append, encRec_length r hr]
    rw [e2, hl, ih (pre ++ encRec r) (acc ++ [r]) (fun x hx => hall x (List.mem_cons_of_mem _ hx))]
    simp only [List.append_assoc, List.singleton_append, List.length_append, encRecs, Nat.add_assoc]

/-! ## 4. Decoding an encoded report -/

theorem reportDecSpec_encode (old : Report) (l : Report) (p : Bytes) (hw : wfReport l) :
    reportDecSpec old ([0, 0] ++ putBe16 l.nrec ++ (encRecs l.recs ++ p)) =
      { layer := { l with contents := [0, 0] ++ putBe16 l.nrec ++ encRecs l.recs, payload := p },
        trunc := false, err := false } := by
  obtain ⟨hn, hlen, hall⟩ := hw
  have hloop := recLoopSpec_encode p l.recs ([0, 0] ++ putBe16 l.nrec) [] hall
  generalize hv : [0, 0] ++ putBe16 l.nrec ++ (encRecs l.recs ++ p) = v at hloop
  have ev : v = 0 :: 0 :: u8 (l.nrec / 256) :: u8 l.nrec :: (encRecs l.recs ++ p) := by
    rw [← hv]; simp [putBe16]
  have f2 : u16At v 2 = l.nrec := by
    rw [ev]
    show be16 (u8 (l.nrec / 256)) (u8 l.nrec) = _
    exact be16_putBe16 _ hn
  have h4 : ([0, 0] ++ putBe16 l.nrec : Bytes).length = 4 := rfl
  rw [hlen, h4] at hloop
  unfold reportDecSpec
  rw [if_neg (by rw [ev]; simp only [List.length_cons]; omega)]
  simp only [f2]
  simp only [hloop, Bool.false_eq_true, if_false, List.nil_append]
  have e3 : v = ([0, 0] ++ putBe16 l.nrec ++ encRecs l.recs) ++ p := by rw [← hv]; simp only [List.append_assoc]
  have hk : 4 + (encRecs l.recs).length = ([0, 0] ++ putBe16 l.nrec ++ encRecs l.recs).length := by
    rw [List.length_append, h4]
  rw [hk, e3, List.take_left' rfl, List.drop_left' rfl]

/-! ## 5. Serialising well-formed records -/

theorem auxPad_wf (a : Bytes) (h : a.length % 4 = 0) : auxPad a = a := by
  unfold auxPad; rw [if_neg (by omega)]

theorem recSerSpec_wf (r : Rec) (p : Bytes) (hw : wfRec r) :
    recSerSpec auxPad r p true = { mar := r, err := false, bytes := encRec r ++ p } := by
  obtain ⟨htyp, hal, hnn, haddr, hn, hall, haux⟩ := hw
  have hpad : auxPad r.aux = r.aux := auxPad_wf _ (by omega)
  have hdiv : r.aux.length / 4 = r.auxLen := by omega
  have h1 : Rec.fixAux auxPad r true = r := by
    unfold Rec.fixAux
    simp only [hpad, hdiv]
    rw [if_pos ⟨trivial, by omega⟩]
  have h2 : Rec.fixN r true = r := by
    unfold Rec.fixN
    rw [if_pos ⟨rfl, by omega⟩, hn]
  unfold recSerSpec
  simp only [h1, h2]
  rw [if_neg (by omega), if_neg (by omega)]
  unfold recTailSpec
  rw [srcsSpec_wf r.srcs _ hall, to16_of_16 _ haddr]
  simp only [encRec, List.append_assoc]

theorem recsSpec_append (pad : Bytes → Bytes) (fix : Bool) : ∀ (ys zs : List Rec) (p : Bytes),
    (recsSpec pad fix ys p).2.1 = false →
    recsSpec pad fix (ys ++ zs) p =
      ((recsSpec pad fix ys p).1 ++ (recsSpec pad fix zs (recsSpec pad fix ys p).2.2).1,
       (recsSpec pad fix zs (recsSpec pad fix ys p).2.2).2.1,
       (recsSpec pad fix zs (recsSpec pad fix ys p).2.2).2.2) := by
  intro ys
  induction ys with
  | nil => intro zs p _; rfl
  | cons r rest ih =>
    intro zs p hok
    rw [List.cons_append, recsSpec_cons]
    rw [recsSpec_cons] at hok ⊢
    cases he : (recSerSpec pad r p fix).err with
    | true => rw [he] at hok; simp only [if_true] at hok; cases hok
    | false =>
      rw [he] at hok
      simp only [Bool.false_eq_true, if_false] at hok ⊢
      rw [ih zs _ hok]
      simp only [List.cons_append]

theorem recsSpec_wf : ∀ (rs : List Rec) (p : Bytes), (∀ r ∈ rs, wfRec r) →
    recsSpec auxPad true rs.reverse p = (rs.reverse, false, encRecs rs ++ p) := by
  intro rs
  induction rs with
  | nil => intro p _; rfl
  | cons r rest ih =>
    intro p hall
    have hr : wfRec r := hall r (List.mem_cons_self ..)
    have ihr := ih p (fun x hx => hall x (List.mem_cons_of_mem _ hx))
    rw [List.reverse_cons, recsSpec_append auxPad true _ _ _ (by rw [ihr]), ihr]
    simp only [recsSpec_cons, recSerSpec_wf r _ hr, Bool.false_eq_true, if_false, recsSpec, encRecs,
      List.append_assoc]

/-- What `SerializeTo` (FixLengths on) writes for a well-formed report. -/
theorem reportSerSpec_wf (l : Report) (p : Bytes) (hw : wfReport l) :
    reportSerSpec l p true =
      { layer := l, err := false, bytes := [0, 0] ++ putBe16 l.nrec ++ (encRecs l.recs ++ p) } := by
  obtain ⟨hn, hlen, hall⟩ := hw
  unfold reportSerSpec reportSerSpecWith
  simp only [recsSpec_wf l.recs p hall, List.reverse_reverse, Bool.false_eq_true, if_false, if_true]
  rw [if_neg (by omega), hlen]

/-! ## 6. Decoded reports are well-formed -/

theorem recDecSpec_wf (v : Bytes) (h : (recDecSpec v).err = false) : wfRec (recDecSpec v).mar := by
  unfold recDecSpec at h ⊢
  by_cases h1 : v.length < 20
  · rw [if_pos h1] at h; cases h
  · rw [if_neg h1] at h ⊢
    simp only at h ⊢
    by_cases h2 : (srcLoopSpec v 20 (u16At v 2) 0 0 []).2.1 = true
    · rw [if_pos h2] at h; cases h
    · rw [if_neg h2] at h ⊢
      have h2' : (srcLoopSpec v 20 (u16At v 2) 0 0 []).2.1 = false := by
        cases hh : (srcLoopSpec v 20 (u16At v 2) 0 0 []).2.1
        · rfl
        · exact absurd hh h2
      by_cases h3 : v.length < (byteAt v 1).toNat * 4 + (20 + u16At v 2 * 16)
      · rw [if_pos h3] at h; cases h
      · rw [if_neg h3]
        obtain ⟨w1, w2⟩ := srcLoopSpec_wf v 20 _ 0 0 [] h2'
        simp only [List.length_nil, Nat.zero_add] at w1
        have := u16At_lt v 2
        have := (byteAt v 0).toNat_lt
        have := (byteAt v 1).toNat_lt
        refine ⟨by omega, by omega, by omega, ?_, w1, ?_, ?_⟩
        · simp only [List.length_take, List.length_drop]; omega
        · intro s hs
          rcases w2 s hs with hm | hm
          · cases hm
          · exact hm
        · simp only [List.length_take, List.length_drop]; omega

theorem recLoopSpec_wf (v : Bytes) : ∀ (k begin_ : Nat) (acc : List Rec), (∀ r ∈ acc, wfRec r) →
    (recLoopSpec v k begin_ acc).2.2.1 = false →
    (∀ r ∈ (recLoopSpec v k begin_ acc).1, wfRec r) ∧ (recLoopSpec v k begin_ acc).1.length = acc.length + k := by
  intro k
  induction k with
  | zero => intro b acc hacc _; exact ⟨hacc, rfl⟩
  | succ k ih =>
    intro b acc hacc hok
    unfold recLoopSpec at hok ⊢
    simp only at hok ⊢
    cases he : (recDecSpec (v.drop b)).err with
    | true => rw [he] at hok; simp only [if_true] at hok; cases hok
    | false =>
      rw [he] at hok
      simp only [Bool.false_eq_true, if_false] at hok ⊢
      have hr := recDecSpec_wf _ he
      obtain ⟨a1, a2⟩ := ih _ (acc ++ [(recDecSpec (v.drop b)).mar])
        (by
          intro r hm
          rcases List.mem_append.mp hm with hm | hm
          · exact hacc r hm
          · rw [List.mem_singleton] at hm; rw [hm]; exact hr) hok
      refine ⟨a1, ?_⟩
      rw [a2, List.length_append]; simp only [List.length_cons, List.length_nil]; omega

/-- A successfully decoded report is well-formed. -/
theorem reportDecSpec_wf (old : Report) (v : Bytes) (h : (reportDecSpec old v).err = false) :
    wfReport (reportDecSpec old v).layer := by
  unfold reportDecSpec at h ⊢
  by_cases hl : v.length < 4
  · rw [if_pos hl] at h; cases h
  · rw [if_neg hl] at h ⊢
    simp only at h ⊢
    by_cases he : (recLoopSpec v (u16At v 2) 4 []).2.2.1 = true
    · rw [if_pos he] at h; cases h
    · rw [if_neg he]
      have he' : (recLoopSpec v (u16At v 2) 4 []).2.2.1 = false := by
        cases hh : (recLoopSpec v (u16At v 2) 4 []).2.2.1
        · rfl
        · exact absurd hh he
      obtain ⟨a1, a2⟩ := recLoopSpec_wf v _ 4 [] (fun r hr => by cases hr) he'
      simp only [List.length_nil, Nat.zero_add] at a2
      exact ⟨u16At_lt v 2, a2, a1⟩

/-- The observable view of the report's SerializeTo is its specification. -/
theorem report_refines_view (l : Report) (b : SBuf) (fix csum : Bool) (h : Inv b) :
    serView (l.serializeTo b fix csum) = .ok (reportSerSpec l (SBuf.contents b) fix) := by
  obtain ⟨o, ho, hl, he, hb⟩ := report_serialize_refines auxPad l b fix csum h
  exact serView_of_refines _ _ (reportSerSpecWith_err_bytes auxPad l _ fix) ⟨o, ho, hl, he, fun hh => (hb hh).2⟩

end Gp.Mld2
