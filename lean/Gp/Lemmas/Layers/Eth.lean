import Gp.Model.Layers.Eth
import Gp.Lemmas.SBuf
/-
  Helper lemmas for engine `leth` (Ethernet + Dot1Q codec).  Core Lean only.

  Section 1 holds the *definitions* that occur in the statements of the property theorems
  (functional specifications of decode / serialize, well-formedness predicates, ≈); the rest is
  proof machinery.
-/
namespace Gp.Eth
open Gp Gp.SBuf Gp.C18 Gp.Gen.Eth

/-! ## 1. Definitions used in property statements -/

/-- Big-endian 16-bit value at offset `i` of a byte string (0 for missing bytes; only used where
    the bytes exist). -/
def u16At (v : Bytes) (i : Nat) : Nat := be16 (v.getD i 0) (v.getD (i + 1) 0)

/-- What `Ethernet.DecodeFromBytes` computes from the visible bytes `v` (|v| ≥ 14). -/
def ethDecSpec (v : Bytes) : DecOut Ethernet :=
  let ty := u16At v 12
  let base : Ethernet :=
    { contents := v.take 14, payload := v.drop 14, srcMAC := (v.drop 6).take 6, dstMAC := v.take 6,
      ethernetType := ty, length := 0 }
  if ty < 0x0600 then
    if (v.drop 14).length < ty then
      { layer := { base with ethernetType := ethernetTypeLLC, length := ty }, trunc := true, err := false }
    else
      { layer := { base with ethernetType := ethernetTypeLLC, length := ty, payload := (v.drop 14).take ty },
        trunc := false, err := false }
  else { layer := base, trunc := false, err := false }

/-- What `Dot1Q.DecodeFromBytes` computes from the visible bytes `v` (|v| ≥ 4). -/
def dot1qDecSpec (v : Bytes) : DecOut Dot1Q :=
  { layer :=
      { contents := v.take 4, payload := v.drop 4,
        priority := ((v.getD 0 0).toNat &&& 0xE0) >>> 5,
        dropEligible := ((v.getD 0 0).toNat &&& 0x10 != 0),
        vlan := u16At v 0 &&& 0x0FFF, type := u16At v 2 },
    trunc := false, err := false }

/-! ## 2. Go slices -/

theorem GSlice.slice_ok (s : GSlice) (a b : Nat) (hab : a ≤ b) (hb : b ≤ s.len) :
    s.slice a b = .ok { vis := (s.vis.drop a).take (b - a), tail := s.vis.drop b ++ s.tail } := by
  unfold GSlice.slice GSlice.cap
  unfold GSlice.len at hb
  have h1 : a ≤ b ∧ b ≤ s.vis.length + s.tail.length := ⟨hab, by omega⟩
  rw [if_pos h1]
  have ha : a ≤ s.vis.length := by omega
  rw [List.drop_append_of_le_length ha, List.drop_append_of_le_length hb,
    List.take_append_of_le_length (by rw [List.length_drop]; omega)]

theorem GSlice.sliceFrom_ok (s : GSlice) (a : Nat) (ha : a ≤ s.len) :
    s.sliceFrom a = .ok { vis := s.vis.drop a, tail := s.tail } := by
  unfold GSlice.sliceFrom; rw [if_pos ha]

/-- The two-byte window `[i, i+2)` of a long enough byte string. -/
theorem two_bytes (v : Bytes) (i : Nat) (h : i + 2 ≤ v.length) :
    (v.drop i).take 2 = [v.getD i 0, v.getD (i + 1) 0] := by
  have h0 : i < v.length := by omega
  have h1 : i + 1 < v.length := by omega
  have e : v.drop i = v[i] :: v[i+1] :: v.drop (i+2) := by
    rw [List.drop_eq_getElem_cons h0, List.drop_eq_getElem_cons h1]
  rw [e]
  simp only [List.take_succ_cons, List.take_zero, List.getD_eq_getElem?_getD,
    List.getElem?_eq_getElem h0, List.getElem?_eq_getElem h1, Option.getD_some]

theorem uint16_two (a b : UInt8) (t : Bytes) : uint16 { vis := [a, b], tail := t } = .ok (be16 a b) := by
  simp [uint16, GSlice.index, Gp.index, bind, Res.bind, pure]

/-- `BigEndian.Uint16(data[i:i+2])` on a slice that is long enough. -/
theorem uint16_slice (s : GSlice) (i : Nat) (h : i + 2 ≤ s.len) :
    (s.slice i (i + 2) >>= uint16) = .ok (u16At s.vis i) := by
  rw [GSlice.slice_ok s i (i + 2) (by omega) h]
  have : i + 2 - i = 2 := by omega
  rw [this, two_bytes s.vis i h, Res.bind_ok]
  exact uint16_two _ _ _

theorem be16_lt (a b : UInt8) : be16 a b < 65536 := by
  have := a.toNat_lt; have := b.toNat_lt
  unfold be16; omega

theorem u16At_lt (v : Bytes) (i : Nat) : u16At v i < 65536 := be16_lt _ _

/-! ## 3. DecodeFromBytes = its functional specification -/


theorem uint16_vis (v t : Bytes) (i : Nat) (h : i + 2 ≤ v.length) :
    uint16 { vis := (v.drop i).take 2, tail := t } = .ok (u16At v i) := by
  rw [two_bytes v i h]; exact uint16_two _ _ _

theorem Ethernet.decode_short (old : Ethernet) (d : GSlice) (h : d.len < 14) :
    old.decodeFromBytes d = .ok { layer := old, trunc := false, err := true } := by
  unfold Ethernet.decodeFromBytes; rw [if_pos h]

theorem Ethernet.decode_long (old : Ethernet) (d : GSlice) (h : 14 ≤ d.len) :
    old.decodeFromBytes d = .ok (ethDecSpec d.vis) := by
  have hl : 14 ≤ d.vis.length := h
  unfold Ethernet.decodeFromBytes
  rw [if_neg (by omega)]
  rw [GSlice.slice_ok d 0 6 (by omega) (by omega), Res.bind_ok]
  rw [GSlice.slice_ok d 6 12 (by omega) (by omega), Res.bind_ok]
  rw [GSlice.slice_ok d 12 14 (by omega) (by omega), Res.bind_ok]
  simp only [Nat.reduceSub]
  rw [uint16_vis d.vis _ 12 (by omega), Res.bind_ok]
  rw [GSlice.slice_ok d 0 14 (by omega) (by omega), Res.bind_ok]
  rw [GSlice.sliceFrom_ok d 14 h, Res.bind_ok]
  simp only [List.drop_zero, Nat.sub_zero]
  unfold ethDecSpec
  have hty := u16At_lt d.vis 12
  generalize u16At d.vis 12 = ty at hty ⊢
  by_cases hlt : ty < 0x0600
  · have e : ty % 65536 = ty := Nat.mod_eq_of_lt (by omega)
    simp only [hlt, if_true, e, GSlice.len]
    generalize List.drop 14 d.vis = P
    by_cases h1 : P.length < ty
    · have : (P.length : Int) - (ty : Int) < 0 := by omega
      simp only [this, if_true, h1, pure]
    · by_cases h2 : ty < P.length
      · have n1 : ¬ ((P.length : Int) - (ty : Int) < 0) := by omega
        have n2 : (P.length : Int) - (ty : Int) > 0 := by omega
        have n3 : ¬ ((P.length : Int) - ((P.length : Int) - (ty : Int)) < 0) := by omega
        have n4 : ((P.length : Int) - ((P.length : Int) - (ty : Int))).toNat = ty := by omega
        simp only [n1, n2, n3, n4, if_true, if_false, h1]
        rw [GSlice.slice_ok _ 0 ty (by omega) (by show ty ≤ P.length; omega), Res.bind_ok]
        simp only [List.drop_zero, Nat.sub_zero, pure]
      · have n1 : ¬ ((P.length : Int) - (ty : Int) < 0) := by omega
        have n2 : ¬ ((P.length : Int) - (ty : Int) > 0) := by omega
        simp only [n1, n2, if_false, h1, pure]
        rw [List.take_of_length_le (l := P) (by omega)]
  · simp [hlt, pure]


theorem GSlice.index_ok (s : GSlice) (i : Nat) (h : i < s.len) :
    s.index i = .ok (s.vis.getD i 0) := by
  unfold GSlice.index Gp.index
  have h' : i < s.vis.length := h
  simp [List.getD_eq_getElem?_getD, h']

theorem Dot1Q.decode_short (old : Dot1Q) (d : GSlice) (h : d.len < 4) :
    old.decodeFromBytes d = .ok { layer := old, trunc := true, err := true } := by
  unfold Dot1Q.decodeFromBytes; rw [if_pos h]

theorem Dot1Q.decode_long (old : Dot1Q) (d : GSlice) (h : 4 ≤ d.len) :
    old.decodeFromBytes d = .ok (dot1qDecSpec d.vis) := by
  have hl : 4 ≤ d.vis.length := h
  unfold Dot1Q.decodeFromBytes
  rw [if_neg (by omega)]
  rw [GSlice.index_ok d 0 (by omega), Res.bind_ok, Res.bind_ok]
  rw [GSlice.slice_ok d 0 2 (by omega) (by omega), Res.bind_ok]
  simp only [Nat.reduceSub]
  rw [uint16_vis d.vis _ 0 (by omega), Res.bind_ok]
  rw [GSlice.slice_ok d 2 4 (by omega) (by omega), Res.bind_ok]
  simp only [Nat.reduceSub]
  rw [uint16_vis d.vis _ 2 (by omega), Res.bind_ok]
  rw [GSlice.slice_ok d 0 4 (by omega) (by omega), Res.bind_ok]
  rw [GSlice.sliceFrom_ok d 4 h, Res.bind_ok]
  simp only [List.drop_zero, Nat.sub_zero, pure, dot1qDecSpec]

theorem Ethernet.decode_vis (old : Ethernet) (v foreign : Bytes) (h : 14 ≤ v.length) :
    old.decodeFromBytes { vis := v, tail := foreign } = .ok (ethDecSpec v) :=
  Ethernet.decode_long old { vis := v, tail := foreign } h

theorem Dot1Q.decode_vis (old : Dot1Q) (v foreign : Bytes) (h : 4 ≤ v.length) :
    old.decodeFromBytes { vis := v, tail := foreign } = .ok (dot1qDecSpec v) :=
  Dot1Q.decode_long old { vis := v, tail := foreign } h

/-! ## 4. SerializeTo = its functional specification, on every buffer satisfying the C18 invariant -/

theorem fill_at (b : SBuf) (h : Inv b) (w : Win) (k : Nat) (vs : Bytes)
    (hg : w.gen = b.gen) (ho : w.off = b.start + k) (hk : k + vs.length ≤ (contents b).length) :
    contents (fill b w vs) = (contents b).take k ++ vs ++ (contents b).drop (k + vs.length) ∧
    Inv (fill b w vs) ∧ (fill b w vs).start = b.start ∧ (fill b w vs).gen = b.gen := by
  have hcl := contents_length b h
  have h' := h
  obtain ⟨i1, i2, i3⟩ := h
  have h1 : b.start ≤ w.off := by omega
  have h2 : w.off + vs.length ≤ b.len := by omega
  refine ⟨?_, inv_fill' b w vs h' (by omega), (fill_fields b w vs).1, (fill_fields b w vs).2.2.2.1⟩
  rw [fill_contents b w vs h' hg h1 h2]
  have : w.off - b.start = k := by omega
  rw [this]

theorem splice3 (c d s e : Bytes) (hd : d.length = 6) (hs : s.length = 6) (he : e.length = 2) :
    let c2 := c.take 0 ++ d ++ c.drop (0 + d.length)
    let c3 := c2.take 6 ++ s ++ c2.drop (6 + s.length)
    c3.take 12 ++ e ++ c3.drop (12 + e.length) = d ++ s ++ e ++ c.drop 14 := by
  intro c2 c3
  have e2 : c2 = d ++ c.drop 6 := by simp [c2, hd]
  have e3 : c3 = d ++ s ++ c.drop 12 := by
    simp only [c3, e2, hs]
    rw [List.take_left' hd, List.drop_append, hd]
    simp [List.drop_drop, List.drop_of_length_le, hd]
  rw [e3, he]
  have hds : (d ++ s).length = 12 := by simp [hd, hs]
  rw [List.take_left' hds, List.drop_append, hds]
  simp [List.drop_drop, List.drop_of_length_le, hds]

theorem putBe16_length (v : Nat) : (putBe16 v).length = 2 := rfl

/-- ethernet.go:76-94: PrependBytes(14), the two `copy`s and PutUint16(bytes[12:], v) put exactly
    `dst ++ src ++ be16 v` in front of the payload, for every buffer state. -/
theorem eth_header (b : SBuf) (h : Inv b) (d s : Bytes) (hd : d.length = 6) (hs : s.length = 6) :
    ∃ w6 w12, winFrom (prepend b 14).2 6 = .ok w6 ∧ winFrom (prepend b 14).2 12 = .ok w12 ∧
      Inv (copyTo (copyTo (prepend b 14).1 (prepend b 14).2 d) w6 s) ∧
      ∀ v, ∃ b4,
        putUint16 (copyTo (copyTo (prepend b 14).1 (prepend b 14).2 d) w6 s) w12 v = .ok b4 ∧
        Inv b4 ∧ contents b4 = d ++ s ++ putBe16 v ++ contents b := by
  have hi1 := inv_prepend' b 14 h
  have hn : (prepend b 14).2.n = 14 := rfl
  have hgen : (prepend b 14).2.gen = (prepend b 14).1.gen := rfl
  have hoff : (prepend b 14).2.off = (prepend b 14).1.start := rfl
  have hlen := prepend_contents_length b 14 h
  have hdrop := prepend_contents_drop b 14 h
  generalize prepend b 14 = r at hi1 hn hgen hoff hlen hdrop
  obtain ⟨b1, w⟩ := r
  simp only at hi1 hn hgen hoff hlen hdrop
  refine ⟨{ gen := w.gen, off := w.off + 6, n := w.n - 6 }, { gen := w.gen, off := w.off + 12, n := w.n - 12 },
    by simp [winFrom, hn], by simp [winFrom, hn], ?_⟩
  have t1 : d.take w.n = d := List.take_of_length_le (by omega)
  have t2 : s.take (w.n - 6) = s := List.take_of_length_le (by omega)
  simp only [copyTo, t1, t2]
  obtain ⟨c2, i2, s2, g2⟩ := fill_at b1 hi1 w 0 d hgen (by omega) (by omega)
  have l2 : (contents (fill b1 w d)).length = (contents b1).length := by
    rw [c2]; simp [hd]; omega
  obtain ⟨c3, i3, s3, g3⟩ := fill_at (fill b1 w d) i2 { gen := w.gen, off := w.off + 6, n := w.n - 6 } 6 s
    (by simp only; omega) (by simp only; omega) (by omega)
  have l3 : (contents (fill (fill b1 w d) { gen := w.gen, off := w.off + 6, n := w.n - 6 } s)).length
      = (contents b1).length := by
    rw [c3]; simp [hs]; omega
  refine ⟨i3, ?_⟩
  intro v
  have hput : putUint16 (fill (fill b1 w d) { gen := w.gen, off := w.off + 6, n := w.n - 6 } s)
      { gen := w.gen, off := w.off + 12, n := w.n - 12 } v = .ok (fill (fill (fill b1 w d)
        { gen := w.gen, off := w.off + 6, n := w.n - 6 } s) { gen := w.gen, off := w.off + 12, n := w.n - 12 } (putBe16 v)) := by
    simp [putUint16, hn]
  obtain ⟨c4, i4, -, -⟩ := fill_at _ i3 { gen := w.gen, off := w.off + 12, n := w.n - 12 } 12 (putBe16 v)
    (by simp only; omega) (by simp only; omega) (by rw [putBe16_length]; omega)
  refine ⟨_, hput, i4, ?_⟩
  rw [c4, c3, c2, splice3 (contents b1) d s (putBe16 v) hd hs rfl, hdrop]

theorem lotsOfZeros_take (n : Nat) (h : n ≤ 1024) : lotsOfZeros.take n = zeros n := by
  unfold lotsOfZeros zeros
  rw [List.take_replicate, Nat.min_eq_left h]

def pad60 (c : Bytes) : Bytes := if c.length < 60 then c ++ zeros (60 - c.length) else c

/-- ethernet.go:95-104: the frame is padded to 60 bytes with zeros that are really written. -/
theorem eth_pad (b : SBuf) (h : Inv b) (l : Ethernet) :
    ∃ o, Ethernet.serializeTo.pad b l = .ok o ∧ o.layer = l ∧ o.err = false ∧ Inv o.buf ∧
      contents o.buf = pad60 (contents b) := by
  unfold Ethernet.serializeTo.pad pad60
  by_cases hlt : (contents b).length < 60
  · simp only [hlt, if_true]
    have hi := inv_append' b (60 - (contents b).length) h
    have hn : (append b (60 - (contents b).length)).2.n = 60 - (contents b).length := rfl
    have hgen : (append b (60 - (contents b).length)).2.gen = (append b (60 - (contents b).length)).1.gen := rfl
    have hoff : (append b (60 - (contents b).length)).2.off = b.len := rfl
    have hstart := (append_fields b (60 - (contents b).length)).1
    have hlen := append_contents_length b (60 - (contents b).length) h
    have htake := append_contents_take b (60 - (contents b).length) h
    have hcl := contents_length b h
    have hsl : b.start ≤ b.len := h.1
    generalize append b (60 - (contents b).length) = r at hi hn hgen hoff hstart hlen htake
    obtain ⟨b5, w⟩ := r
    simp only at hi hn hgen hoff hstart hlen htake
    refine ⟨_, rfl, rfl, rfl, ?_⟩
    simp only [copyTo, hn]
    rw [lotsOfZeros_take _ (by omega)]
    obtain ⟨c, i, -, -⟩ := fill_at b5 hi w (contents b).length (zeros (60 - (contents b).length)) hgen
      (by omega) (by rw [zeros_length]; omega)
    refine ⟨i, ?_⟩
    rw [c, htake, zeros_length, List.drop_of_length_le (by omega), List.append_nil]
  · simp only [hlt, if_false]
    exact ⟨_, rfl, rfl, rfl, h, rfl⟩

/-- Functional specification of a SerializeTo call: the receiver afterwards, whether an error was
    returned, and (when not) the bytes the buffer then holds. -/
structure SerSpec (L : Type) where
  layer : L
  err   : Bool
  bytes : Bytes
  deriving Repr, DecidableEq

/-- What `Ethernet.SerializeTo` (with proposed_fixes/leth-1) does, as a function of the layer, the
    payload already in the buffer and FixLengths. -/
def ethSerSpec (l : Ethernet) (p : Bytes) (fix : Bool) : SerSpec Ethernet :=
  if l.dstMAC.length ≠ 6 then { layer := l, err := true, bytes := [] }
  else if l.srcMAC.length ≠ 6 then { layer := l, err := true, bytes := [] }
  else if l.length ≠ 0 ∨ l.ethernetType = ethernetTypeLLC then
    if l.ethernetType ≠ ethernetTypeLLC then { layer := l, err := true, bytes := [] }
    else
      let l' := if fix then { l with length := p.length % 65536 } else l
      if l'.length > 0x0600 then { layer := l', err := true, bytes := [] }
      else { layer := l', err := false, bytes := pad60 (l.dstMAC ++ l.srcMAC ++ putBe16 l'.length ++ p) }
  else { layer := l, err := false, bytes := pad60 (l.dstMAC ++ l.srcMAC ++ putBe16 l.ethernetType ++ p) }

/-- Refinement: on every buffer satisfying the C18 invariant, `Ethernet.serializeTo` returns
    (never panics), with exactly the receiver / error / bytes of `ethSerSpec`. -/
theorem eth_serializeTo_refines (l : Ethernet) (b : SBuf) (fix csum : Bool) (h : Inv b) :
    ∃ o, l.serializeTo b fix csum = .ok o ∧ Inv o.buf ∧
      o.layer = (ethSerSpec l (SBuf.contents b) fix).layer ∧ o.err = (ethSerSpec l (SBuf.contents b) fix).err ∧
      ((ethSerSpec l (SBuf.contents b) fix).err = false →
        SBuf.contents o.buf = (ethSerSpec l (SBuf.contents b) fix).bytes) := by
  unfold Ethernet.serializeTo ethSerSpec
  by_cases hd : l.dstMAC.length ≠ 6
  · simp only [if_pos hd]; exact ⟨_, rfl, h, rfl, rfl, fun hh => by cases hh⟩
  by_cases hs : l.srcMAC.length ≠ 6
  · simp only [if_neg hd, if_pos hs]; exact ⟨_, rfl, h, rfl, rfl, fun hh => by cases hh⟩
  simp only [if_neg hd, if_neg hs]
  have hd' : l.dstMAC.length = 6 := by omega
  have hs' : l.srcMAC.length = 6 := by omega
  obtain ⟨w6, w12, e6, e12, hi2, hput⟩ := eth_header b h l.dstMAC l.srcMAC hd' hs'
  generalize prepend b 14 = r at e6 e12 hi2 hput
  obtain ⟨b1, w⟩ := r
  simp only at e6 e12 hi2 hput
  simp only [e6, e12, Res.bind_ok]
  by_cases hA : l.length ≠ 0 ∨ l.ethernetType = ethernetTypeLLC
  · simp only [if_pos hA]
    by_cases hT : l.ethernetType ≠ ethernetTypeLLC
    · simp only [if_pos hT, pure]; exact ⟨_, rfl, hi2, rfl, rfl, fun hh => by cases hh⟩
    · simp only [if_neg hT]
      generalize hl' : (if fix = true then ({ l with length := (SBuf.contents b).length % 65536 } : Ethernet) else l) = l'
      have hmac : l'.dstMAC = l.dstMAC ∧ l'.srcMAC = l.srcMAC := by
        subst hl'; cases fix <;> exact ⟨rfl, rfl⟩
      by_cases hL : l'.length > 1536
      · simp only [if_pos hL, pure]; exact ⟨_, rfl, hi2, rfl, rfl, fun hh => by cases hh⟩
      · simp only [if_neg hL]
        obtain ⟨b4, hb4, i4, c4⟩ := hput l'.length
        rw [hb4, Res.bind_ok]
        obtain ⟨o, ho, ol, oe, oi, oc⟩ := eth_pad b4 i4 l'
        exact ⟨o, ho, oi, ol, oe, fun _ => by rw [oc, c4]⟩
  · simp only [if_neg hA]
    obtain ⟨b4, hb4, i4, c4⟩ := hput l.ethernetType
    rw [hb4, Res.bind_ok]
    obtain ⟨o, ho, ol, oe, oi, oc⟩ := eth_pad b4 i4 l
    exact ⟨o, ho, oi, ol, oe, fun _ => by rw [oc, c4]⟩

/-- `uint16(d.Priority)<<13 | d.VLANIdentifier`, `|= 0x1000` when DropEligible. -/
def dot1qFirst (l : Dot1Q) : Nat :=
  let fb := ((l.priority <<< 13) % 65536) ||| l.vlan
  if l.dropEligible then fb ||| 0x1000 else fb

def dot1qSerSpec (l : Dot1Q) (p : Bytes) : SerSpec Dot1Q :=
  if l.vlan > 0xFFF then { layer := l, err := true, bytes := [] }
  else { layer := l, err := false, bytes := putBe16 (dot1qFirst l) ++ putBe16 l.type ++ p }

theorem splice2 (c x y : Bytes) (hx : x.length = 2) (hy : y.length = 2) :
    let c2 := c.take 0 ++ x ++ c.drop (0 + x.length)
    c2.take 2 ++ y ++ c2.drop (2 + y.length) = x ++ y ++ c.drop 4 := by
  intro c2
  have e2 : c2 = x ++ c.drop 2 := by simp [c2, hx]
  rw [e2, hy, List.take_left' hx, List.drop_append, hx]
  simp [List.drop_drop, List.drop_of_length_le, hx]

theorem dot1q_serializeTo_refines (l : Dot1Q) (b : SBuf) (fix csum : Bool) (h : Inv b) :
    ∃ o, l.serializeTo b fix csum = .ok o ∧ Inv o.buf ∧
      o.layer = (dot1qSerSpec l (SBuf.contents b)).layer ∧ o.err = (dot1qSerSpec l (SBuf.contents b)).err ∧
      ((dot1qSerSpec l (SBuf.contents b)).err = false →
        SBuf.contents o.buf = (dot1qSerSpec l (SBuf.contents b)).bytes) := by
  unfold Dot1Q.serializeTo dot1qSerSpec
  have hi1 := inv_prepend' b 4 h
  have hn : (prepend b 4).2.n = 4 := rfl
  have hgen : (prepend b 4).2.gen = (prepend b 4).1.gen := rfl
  have hoff : (prepend b 4).2.off = (prepend b 4).1.start := rfl
  have hlen := prepend_contents_length b 4 h
  have hdrop := prepend_contents_drop b 4 h
  generalize prepend b 4 = r at hi1 hn hgen hoff hlen hdrop
  obtain ⟨b1, w⟩ := r
  simp only at hi1 hn hgen hoff hlen hdrop
  simp only [pure]
  by_cases hv : l.vlan > 0xFFF
  · simp only [if_pos hv]; exact ⟨_, rfl, hi1, rfl, rfl, fun hh => by cases hh⟩
  · simp only [if_neg hv]
    have efb : (if l.dropEligible = true then (l.priority <<< 13 % 65536 ||| l.vlan) ||| 4096
        else l.priority <<< 13 % 65536 ||| l.vlan) = dot1qFirst l := rfl
    rw [efb]
    generalize dot1qFirst l = fb
    obtain ⟨c2, i2, s2, g2⟩ := fill_at b1 hi1 w 0 (putBe16 fb) hgen (by omega) (by rw [putBe16_length]; omega)
    have l2 : (SBuf.contents (fill b1 w (putBe16 fb))).length = (SBuf.contents b1).length := by
      rw [c2]; simp [putBe16_length]; omega
    have p1 : putUint16 b1 w fb = .ok (fill b1 w (putBe16 fb)) := by simp [putUint16, hn]
    have w2 : winFrom w 2 = .ok { gen := w.gen, off := w.off + 2, n := w.n - 2 } := by simp [winFrom, hn]
    rw [p1, Res.bind_ok, w2, Res.bind_ok]
    have p2 : putUint16 (fill b1 w (putBe16 fb)) { gen := w.gen, off := w.off + 2, n := w.n - 2 } l.type
        = .ok (fill (fill b1 w (putBe16 fb)) { gen := w.gen, off := w.off + 2, n := w.n - 2 } (putBe16 l.type)) := by
      simp [putUint16, hn]
    rw [p2, Res.bind_ok]
    obtain ⟨c3, i3, -, -⟩ := fill_at _ i2 { gen := w.gen, off := w.off + 2, n := w.n - 2 } 2 (putBe16 l.type)
      (by simp only; omega) (by simp only; omega) (by rw [putBe16_length]; omega)
    refine ⟨_, rfl, i3, rfl, rfl, fun _ => ?_⟩
    rw [c3, c2, splice2 _ _ _ (putBe16_length _) (putBe16_length _), hdrop]

/-! ## 5. Byte arithmetic -/

theorem u8_toNat (n : Nat) : (u8 n).toNat = n % 256 := by
  simp [u8]
theorem be16_putBe16 (n : Nat) (h : n < 65536) : be16 (u8 (n / 256)) (u8 n) = n := by
  unfold be16; rw [u8_toNat, u8_toNat]; omega
set_option maxRecDepth 8000 in
theorem byte_prio : ∀ x, x < 256 → (x &&& 0xE0) >>> 5 = x / 32 := by decide
set_option maxRecDepth 8000 in
theorem byte_dei : ∀ x, x < 256 → (x &&& 0x10 != 0) = decide (x / 16 % 2 = 1) := by decide

/-- the first 16 bits of a 802.1Q tag as a sum -/
theorem first_sum (prio vlan : Nat) (dei : Bool) (hp : prio ≤ 7) (hv : vlan ≤ 0xFFF) :
    (let fb := ((prio <<< 13) % 65536) ||| vlan
     if dei then fb ||| 0x1000 else fb) = prio * 8192 + (if dei then 4096 else 0) + vlan := by
  have e1 : (prio <<< 13) % 65536 = 2 ^ 13 * prio := by
    rw [Nat.shiftLeft_eq]; omega
  simp only [e1]
  cases dei
  · simp only [Bool.false_eq_true, if_false]
    rw [← Nat.two_pow_add_eq_or_of_lt (by omega)]; omega
  · simp only [if_true]
    rw [Nat.or_assoc]
    have e2 : vlan ||| 0x1000 = 2 ^ 12 * 1 + vlan := by
      rw [Nat.or_comm, Nat.two_pow_add_eq_or_of_lt (by omega)]
    rw [e2, ← Nat.two_pow_add_eq_or_of_lt (by omega)]; omega

/-! ## 6. Frames -/

theorem u16At_append (pre rest : Bytes) (a b : UInt8) (i : Nat) (h : pre.length = i) :
    u16At (pre ++ a :: b :: rest) i = be16 a b := by
  subst h
  simp [u16At, List.getD_eq_getElem?_getD]

/-- What the Ethernet padding appends behind a payload: zeros up to 46 bytes. -/
def padBody (p : Bytes) : Bytes := if p.length < 46 then p ++ zeros (46 - p.length) else p

theorem pad60_hdr (hdr p : Bytes) (h : hdr.length = 14) : pad60 (hdr ++ p) = hdr ++ padBody p := by
  unfold pad60 padBody
  by_cases hp : p.length < 46
  · have : (hdr ++ p).length < 60 := by simp [h]; omega
    rw [if_pos this, if_pos hp, List.append_assoc]
    have e : 60 - (hdr ++ p).length = 46 - p.length := by rw [List.length_append, h]; omega
    rw [e]
  · have : ¬ (hdr ++ p).length < 60 := by simp [h]; omega
    rw [if_neg this, if_neg hp]

/-- The parts `Ethernet.DecodeFromBytes` cuts out of a frame `dst ++ src ++ be16 ty ++ body`. -/
theorem eth_frame_parts (d s body : Bytes) (ty : Nat) (hd : d.length = 6) (hs : s.length = 6)
    (hty : ty < 65536) :
    let v := d ++ s ++ putBe16 ty ++ body
    v.take 6 = d ∧ (v.drop 6).take 6 = s ∧ u16At v 12 = ty ∧ v.take 14 = d ++ s ++ putBe16 ty ∧
    v.drop 14 = body ∧ 14 ≤ v.length := by
  intro v
  have hds : (d ++ s).length = 12 := by simp [hd, hs]
  have hh : (d ++ s ++ putBe16 ty).length = 14 := by simp [hd, hs, putBe16]
  refine ⟨?_, ?_, ?_, ?_, ?_, ?_⟩
  · simp only [v, List.append_assoc]; exact List.take_left' hd
  · simp only [v, List.append_assoc]; rw [List.drop_left' hd]; exact List.take_left' hs
  · simp only [v, putBe16]
    rw [List.append_assoc (d ++ s), List.cons_append, List.cons_append, List.nil_append,
      u16At_append _ _ _ _ 12 hds, be16_putBe16 ty hty]
  · exact List.take_left' hh
  · exact List.drop_left' hh
  · simp only [v, List.length_append, hh]; omega

/-! ## 7. Observable view of SerializeTo; spec-level laws -/

/-- What a caller can observe of a SerializeTo call: the receiver afterwards, the error flag and,
    when no error was returned, the bytes in the buffer (`Bytes()`); not the buffer's internals. -/
def serView {L : Type} (r : Res (SerOut L)) : Res (SerSpec L) :=
  match r with
  | .ok o => .ok { layer := o.layer, err := o.err, bytes := if o.err then [] else SBuf.contents o.buf }
  | .err k => .err k
  | .panic k => .panic k

theorem ethSerSpec_err_bytes (l : Ethernet) (p : Bytes) (fix : Bool)
    (h : (ethSerSpec l p fix).err = true) : (ethSerSpec l p fix).bytes = [] := by
  unfold ethSerSpec at h ⊢
  by_cases hd : l.dstMAC.length ≠ 6
  · simp only [if_pos hd]
  by_cases hs : l.srcMAC.length ≠ 6
  · simp only [if_neg hd, if_pos hs]
  simp only [if_neg hd, if_neg hs] at h ⊢
  by_cases hA : l.length ≠ 0 ∨ l.ethernetType = ethernetTypeLLC
  · simp only [if_pos hA] at h ⊢
    by_cases hT : l.ethernetType ≠ ethernetTypeLLC
    · simp only [if_pos hT]
    · simp only [if_neg hT] at h ⊢
      generalize (if fix = true then ({ l with length := p.length % 65536 } : Ethernet) else l) = l' at h ⊢
      by_cases hL : l'.length > 1536
      · simp only [if_pos hL]
      · simp only [if_neg hL] at h; cases h
  · simp only [if_neg hA] at h; cases h

theorem eth_serView (l : Ethernet) (b : SBuf) (fix csum : Bool) (h : Inv b) :
    serView (l.serializeTo b fix csum) = .ok (ethSerSpec l (SBuf.contents b) fix) := by
  obtain ⟨o, ho, -, hl, he, hb⟩ := eth_serializeTo_refines l b fix csum h
  rw [ho]
  unfold serView
  simp only
  congr 1
  cases hs : (ethSerSpec l (SBuf.contents b) fix) with
  | mk sl se sb =>
    rw [hs] at hl he hb
    simp only at hl he hb
    cases se
    · simp only [he, hl, hb rfl]; rfl
    · have := ethSerSpec_err_bytes l (SBuf.contents b) fix (by rw [hs])
      rw [hs] at this; simp only at this
      simp only [he, hl, this]; rfl

theorem ethSerSpec_idem (l : Ethernet) (p : Bytes) (fix : Bool) :
    ethSerSpec (ethSerSpec l p fix).layer p fix = ethSerSpec l p fix := by
  unfold ethSerSpec
  by_cases hd : l.dstMAC.length ≠ 6
  · simp only [if_pos hd]
  by_cases hs : l.srcMAC.length ≠ 6
  · simp only [if_neg hd, if_pos hs]
  simp only [if_neg hd, if_neg hs]
  by_cases hA : l.length ≠ 0 ∨ l.ethernetType = ethernetTypeLLC
  · simp only [if_pos hA]
    by_cases hT : l.ethernetType ≠ ethernetTypeLLC
    · simp only [if_pos hT, if_neg hd, if_neg hs, if_pos hA]
    · simp only [if_neg hT]
      have hT' : l.ethernetType = ethernetTypeLLC := by
        by_cases h : l.ethernetType = ethernetTypeLLC
        · exact h
        · exact absurd h hT
      cases fix
      · simp only [Bool.false_eq_true, if_false]
        by_cases hL : l.length > 1536
        · simp only [if_pos hL, if_neg hd, if_neg hs, if_pos hA, if_neg hT]
        · simp only [if_neg hL, if_neg hd, if_neg hs, if_pos hA, if_neg hT]
      · simp only [if_true]
        have hA' : p.length % 65536 ≠ 0 ∨ l.ethernetType = ethernetTypeLLC := Or.inr hT'
        by_cases hL : p.length % 65536 > 1536
        · simp only [if_pos hL, if_neg hd, if_neg hs, if_pos hA', if_neg hT]
        · simp only [if_neg hL, if_neg hd, if_neg hs, if_pos hA', if_neg hT]
  · simp only [if_neg hA, if_neg hd, if_neg hs]

theorem eth_serializeTo_no_panic (l : Ethernet) (b : SBuf) (fix csum : Bool) (k : PanicKind) :
    l.serializeTo b fix csum ≠ .panic k := by
  unfold Ethernet.serializeTo Ethernet.serializeTo.pad
  have e6 : winFrom (prepend b 14).2 6 = .ok { gen := (prepend b 14).2.gen, off := (prepend b 14).2.off + 6, n := 8 } := rfl
  have e12 : winFrom (prepend b 14).2 12 = .ok { gen := (prepend b 14).2.gen, off := (prepend b 14).2.off + 12, n := 2 } := rfl
  generalize prepend b 14 = r at e6 e12
  obtain ⟨b1, w⟩ := r
  simp only at e6 e12
  simp only [e6, e12, Res.bind_ok, putUint16, pure, Nat.lt_irrefl, if_false]
  repeat' split
  all_goals (intro h; cases h)

/-! ## 8. Decoding serialized frames -/

/-- Decoding a frame `dst ++ src ++ be16 ty ++ body` with an EtherType (ty ≥ 0x0600). -/
theorem ethDecSpec_ethII (d s body : Bytes) (ty : Nat) (hd : d.length = 6) (hs : s.length = 6)
    (hty : ty < 65536) (h6 : 0x0600 ≤ ty) :
    ethDecSpec (d ++ s ++ putBe16 ty ++ body) =
      { layer := { contents := d ++ s ++ putBe16 ty, payload := body, srcMAC := s, dstMAC := d,
                   ethernetType := ty, length := 0 }, trunc := false, err := false } := by
  obtain ⟨p1, p2, p3, p4, p5, -⟩ := eth_frame_parts d s body ty hd hs hty
  unfold ethDecSpec
  simp only [p1, p2, p3, p4, p5]
  rw [if_neg (by omega)]

/-- Decoding a frame `dst ++ src ++ be16 n ++ body` with an 802.3 length n ≤ |body|. -/
theorem ethDecSpec_llc (d s body : Bytes) (n : Nat) (hd : d.length = 6) (hs : s.length = 6)
    (hn : n < 0x0600) (hb : n ≤ body.length) :
    ethDecSpec (d ++ s ++ putBe16 n ++ body) =
      { layer := { contents := d ++ s ++ putBe16 n, payload := body.take n, srcMAC := s, dstMAC := d,
                   ethernetType := ethernetTypeLLC, length := n }, trunc := false, err := false } := by
  obtain ⟨p1, p2, p3, p4, p5, -⟩ := eth_frame_parts d s body n hd hs (by omega)
  unfold ethDecSpec
  simp only [p1, p2, p3, p4, p5]
  rw [if_pos hn, if_neg (by omega)]

theorem padBody_take (p : Bytes) : (padBody p).take p.length = p := by
  unfold padBody; split
  · exact List.take_left' rfl
  · exact List.take_of_length_le (Nat.le_refl _)

theorem padBody_length (p : Bytes) : p.length ≤ (padBody p).length := by
  unfold padBody; split
  · simp
  · exact Nat.le_refl _

theorem padBody_of_ge (p : Bytes) (h : 46 ≤ p.length) : padBody p = p := by
  unfold padBody; rw [if_neg (by omega)]

def wfDot1Q (l : Dot1Q) : Prop := l.priority ≤ 7 ∧ l.vlan ≤ 0xFFF ∧ l.type < 65536

theorem dot1qFirst_sum (l : Dot1Q) (hp : l.priority ≤ 7) (hv : l.vlan ≤ 0xFFF) :
    dot1qFirst l = l.priority * 8192 + (if l.dropEligible then 4096 else 0) + l.vlan :=
  first_sum l.priority l.vlan l.dropEligible hp hv

theorem dot1q_bits (prio vlan : Nat) (dei : Bool) (hp : prio ≤ 7) (hv : vlan ≤ 0xFFF) :
    let fb := prio * 8192 + (if dei then 4096 else 0) + vlan
    fb < 65536 ∧ ((u8 (fb / 256)).toNat &&& 0xE0) >>> 5 = prio ∧
    ((u8 (fb / 256)).toNat &&& 0x10 != 0) = dei ∧ fb &&& 0x0FFF = vlan := by
  intro fb
  have hfb : fb < 65536 := by simp only [fb]; split <;> omega
  have hb : (u8 (fb / 256)).toNat = fb / 256 := by rw [u8_toNat]; omega
  have hx : fb / 256 < 256 := by omega
  refine ⟨hfb, ?_, ?_, ?_⟩
  · rw [hb, byte_prio _ hx]; simp only [fb]; split <;> omega
  · rw [hb, byte_dei _ hx]
    cases dei
    · simp only [fb, Bool.false_eq_true, if_false, decide_eq_false_iff_not]; omega
    · simp only [fb, if_true, decide_eq_true_eq]; omega
  · have : (0x0FFF : Nat) = 2 ^ 12 - 1 := by decide
    rw [this, Nat.and_two_pow_sub_one_eq_mod]; simp only [fb]; split <;> omega

theorem dot1qDecSpec_frame (l : Dot1Q) (p : Bytes) (hw : wfDot1Q l) :
    dot1qDecSpec (putBe16 (dot1qFirst l) ++ putBe16 l.type ++ p) =
      { layer := { contents := putBe16 (dot1qFirst l) ++ putBe16 l.type, payload := p,
                   priority := l.priority, dropEligible := l.dropEligible, vlan := l.vlan, type := l.type },
        trunc := false, err := false } := by
  obtain ⟨hp, hv, ht⟩ := hw
  obtain ⟨hfb, b1, b2, b3⟩ := dot1q_bits l.priority l.vlan l.dropEligible hp hv
  rw [← dot1qFirst_sum l hp hv] at hfb b1 b2 b3
  generalize dot1qFirst l = fb at hfb b1 b2 b3
  have hh : (putBe16 fb ++ putBe16 l.type).length = 4 := rfl
  have e0 : (putBe16 fb ++ putBe16 l.type ++ p).getD 0 0 = u8 (fb / 256) := rfl
  have e1 : u16At (putBe16 fb ++ putBe16 l.type ++ p) 0 = fb := by
    have := u16At_append [] (putBe16 l.type ++ p) (u8 (fb / 256)) (u8 fb) 0 rfl
    rw [be16_putBe16 fb hfb] at this
    exact this
  have e2 : u16At (putBe16 fb ++ putBe16 l.type ++ p) 2 = l.type := by
    have := u16At_append (putBe16 fb) p (u8 (l.type / 256)) (u8 l.type) 2 rfl
    rw [be16_putBe16 l.type ht] at this
    exact this
  unfold dot1qDecSpec
  rw [e0, e1, e2, b1, b2, b3, List.take_left' hh, List.drop_left' hh]

/-! ## 9. Well-formedness of decoded layers; Dot1Q views -/

/-- In-range Ethernet field values: 6-byte addresses; either an 802.3 frame (EthernetType = LLC,
    Length < 0x0600) or an Ethernet II frame (EtherType ≥ 0x0600 fitting 16 bits, Length = 0). -/
def wfEth (l : Ethernet) : Prop :=
  l.dstMAC.length = 6 ∧ l.srcMAC.length = 6 ∧
  ((l.ethernetType = ethernetTypeLLC ∧ l.length < 0x0600) ∨
   (0x0600 ≤ l.ethernetType ∧ l.ethernetType < 65536 ∧ l.length = 0))

theorem ethDecSpec_wf (v : Bytes) (h : 14 ≤ v.length) :
    wfEth (ethDecSpec v).layer ∧ (ethDecSpec v).err = false ∧
    ((ethDecSpec v).layer.ethernetType = ethernetTypeLLC → (ethDecSpec v).layer.payload.length < 0x0600 ∧
       ((ethDecSpec v).trunc = false → (ethDecSpec v).layer.payload.length = (ethDecSpec v).layer.length)) := by
  have hty := u16At_lt v 12
  unfold ethDecSpec wfEth
  simp only
  generalize u16At v 12 = ty at hty
  have l1 : (v.take 6).length = 6 := by simp; omega
  have l2 : ((v.drop 6).take 6).length = 6 := by simp; omega
  by_cases h6 : ty < 0x0600
  · rw [if_pos h6]
    by_cases ht : (v.drop 14).length < ty
    · rw [if_pos ht]
      exact ⟨⟨l1, l2, Or.inl ⟨rfl, h6⟩⟩, rfl, fun _ => ⟨by simp only; omega, fun hh => by cases hh⟩⟩
    · rw [if_neg ht]
      refine ⟨⟨l1, l2, Or.inl ⟨rfl, h6⟩⟩, rfl, fun _ => ⟨?_, fun _ => ?_⟩⟩
      · simp only [List.length_take]; omega
      · simp only [List.length_take]; omega
  · rw [if_neg h6]
    refine ⟨⟨l1, l2, Or.inr ⟨(show 0x0600 ≤ ty by omega), hty, rfl⟩⟩, rfl, fun hh => ?_⟩
    have hh' : ty = 0 := hh
    omega

theorem dot1qDecSpec_wf (v : Bytes) : wfDot1Q (dot1qDecSpec v).layer := by
  unfold dot1qDecSpec wfDot1Q
  simp only
  have hx := (v.getD 0 0).toNat_lt
  refine ⟨?_, ?_, u16At_lt v 2⟩
  · rw [byte_prio _ hx]; omega
  · have : (0x0FFF : Nat) = 2 ^ 12 - 1 := by decide
    rw [this, Nat.and_two_pow_sub_one_eq_mod]; omega

theorem dot1qSerSpec_err_bytes (l : Dot1Q) (p : Bytes) (h : (dot1qSerSpec l p).err = true) :
    (dot1qSerSpec l p).bytes = [] := by
  unfold dot1qSerSpec at h ⊢
  by_cases hv : l.vlan > 0xFFF
  · simp only [if_pos hv]
  · simp only [if_neg hv] at h; cases h

theorem dot1q_serView (l : Dot1Q) (b : SBuf) (fix csum : Bool) (h : Inv b) :
    serView (l.serializeTo b fix csum) = .ok (dot1qSerSpec l (SBuf.contents b)) := by
  obtain ⟨o, ho, -, hl, he, hb⟩ := dot1q_serializeTo_refines l b fix csum h
  rw [ho]
  unfold serView
  simp only
  congr 1
  cases hs : (dot1qSerSpec l (SBuf.contents b)) with
  | mk sl se sb =>
    rw [hs] at hl he hb
    simp only at hl he hb
    cases se
    · simp only [he, hl, hb rfl]; rfl
    · have := dot1qSerSpec_err_bytes l (SBuf.contents b) (by rw [hs])
      rw [hs] at this; simp only at this
      simp only [he, hl, this]; rfl

theorem dot1q_serializeTo_no_panic (l : Dot1Q) (b : SBuf) (fix csum : Bool) (k : PanicKind) :
    l.serializeTo b fix csum ≠ .panic k := by
  unfold Dot1Q.serializeTo
  have e2 : winFrom (prepend b 4).2 2 = .ok { gen := (prepend b 4).2.gen, off := (prepend b 4).2.off + 2, n := 2 } := rfl
  have hn : (prepend b 4).2.n = 4 := rfl
  generalize prepend b 4 = r at e2 hn
  obtain ⟨b1, w⟩ := r
  simp only at e2 hn
  have h42 : ¬ (4 < 2) := by omega
  simp only [e2, Res.bind_ok, putUint16, pure, hn, Nat.lt_irrefl, if_false, h42]
  repeat' split
  all_goals (intro h; cases h)

/-! ## 10. ≈, payload scope, and the specification on well-formed layers -/

instance (l : Ethernet) : Decidable (wfEth l) := by unfold wfEth; infer_instance
instance (l : Dot1Q) : Decidable (wfDot1Q l) := by unfold wfDot1Q; infer_instance

/-- Field equivalence `≈` for Ethernet: all public fields; ignores BaseLayer.Contents/Payload. -/
def EthEquiv (a b : Ethernet) : Prop :=
  a.srcMAC = b.srcMAC ∧ a.dstMAC = b.dstMAC ∧ a.ethernetType = b.ethernetType ∧ a.length = b.length

/-- Field equivalence `≈` for Dot1Q. -/
def Dot1QEquiv (a b : Dot1Q) : Prop :=
  a.priority = b.priority ∧ a.dropEligible = b.dropEligible ∧ a.vlan = b.vlan ∧ a.type = b.type

/-- The payloads the protocol allows directly above Ethernet (DESIGN §5 C06 scope decision):
    802.3 frames delimit the payload by their length field (which must stay below 0x0600); Ethernet
    II frames are padded to 60 bytes on the wire, so a payload shorter than 46 bytes comes back with
    the padding attached (`roundtrip_eth_pad`). -/
def payloadOkEth (l : Ethernet) (p : Bytes) : Prop :=
  if l.ethernetType = ethernetTypeLLC then p.length < 0x0600 else 46 ≤ p.length

instance (l : Ethernet) (p : Bytes) : Decidable (payloadOkEth l p) := by unfold payloadOkEth; infer_instance

/-- The layer after SerializeTo with FixLengths. -/
def fixedEth (l : Ethernet) (p : Bytes) : Ethernet :=
  if l.ethernetType = ethernetTypeLLC then { l with length := p.length } else l

theorem ethSerSpec_llc (l : Ethernet) (p : Bytes) (hw : wfEth l) (hl : l.ethernetType = ethernetTypeLLC)
    (hp : p.length < 0x0600) :
    ethSerSpec l p true =
      { layer := { l with length := p.length }, err := false,
        bytes := l.dstMAC ++ l.srcMAC ++ putBe16 p.length ++ padBody p } := by
  obtain ⟨hd, hs, -⟩ := hw
  unfold ethSerSpec
  have e : p.length % 65536 = p.length := Nat.mod_eq_of_lt (by omega)
  rw [if_neg (by omega), if_neg (by omega), if_pos (Or.inr hl), if_neg (by simp [hl])]
  simp only [if_true, e]
  rw [if_neg (by omega), pad60_hdr _ _ (by simp [hd, hs, putBe16])]

theorem ethSerSpec_ethII (l : Ethernet) (p : Bytes) (fix : Bool) (hw : wfEth l)
    (h6 : 0x0600 ≤ l.ethernetType) :
    ethSerSpec l p fix =
      { layer := l, err := false, bytes := l.dstMAC ++ l.srcMAC ++ putBe16 l.ethernetType ++ padBody p } := by
  obtain ⟨hd, hs, hk⟩ := hw
  have hne : l.ethernetType ≠ ethernetTypeLLC := by
    intro h; have : l.ethernetType = 0 := h; omega
  have hl0 : l.length = 0 := by
    rcases hk with ⟨h, -⟩ | ⟨-, -, h⟩
    · exact absurd h hne
    · exact h
  unfold ethSerSpec
  rw [if_neg (by omega), if_neg (by omega), if_neg (by simp [hl0, hne]),
    pad60_hdr _ _ (by simp [hd, hs, putBe16])]

/-! ## 11. The DecodingLayerParser loop over {Ethernet, Dot1Q} -/

theorem ethDecSpec_err (w : Bytes) : (ethDecSpec w).err = false := by
  unfold ethDecSpec; simp only; split
  · split <;> rfl
  · rfl

theorem ethDecSpec_payload_le (w : Bytes) (h : 14 ≤ w.length) :
    (ethDecSpec w).layer.payload.length + 14 ≤ w.length := by
  unfold ethDecSpec; simp only; split
  · split <;> simp only [List.length_take, List.length_drop] <;> omega
  · simp only [List.length_drop]; omega

/-- One iteration of the parser loop on an Ethernet layer, in terms of the decode specification. -/
theorem dlpLoop_eth (fuel : Nat) (st : DlpState) (data : GSlice) :
    dlpLoop (fuel + 1) st LayerTypeEthernet data =
      if data.len < 14 then .ok ({ st with trunc := st.trunc || false }, 1)
      else
        let o := ethDecSpec data.vis
        let st' : DlpState := { st with eth := o.layer, trunc := st.trunc || o.trunc,
                                        decoded := st.decoded ++ [LayerTypeEthernet] }
        let rest : GSlice := { vis := o.layer.payload,
                               tail := (data.vis.drop (14 + o.layer.payload.length)) ++ data.tail }
        if rest.len = 0 then .ok (st', 0) else dlpLoop fuel st' o.layer.nextLayerType rest := by
  by_cases h : data.len < 14
  · rw [if_pos h]
    unfold dlpLoop
    simp only [if_true, Ethernet.decode_short st.eth data h]
  · rw [if_neg h]
    conv => lhs; unfold dlpLoop
    simp only [if_true, Ethernet.decode_long st.eth data (by omega), ethDecSpec_err]
    rfl

theorem dlpLoop_dot1q (fuel : Nat) (st : DlpState) (data : GSlice) :
    dlpLoop (fuel + 1) st LayerTypeDot1Q data =
      if data.len < 4 then .ok ({ st with trunc := st.trunc || true }, 1)
      else
        let o := dot1qDecSpec data.vis
        let st' : DlpState := { st with dot1q := o.layer, trunc := st.trunc || o.trunc,
                                        decoded := st.decoded ++ [LayerTypeDot1Q] }
        let rest : GSlice := { vis := o.layer.payload, tail := data.tail }
        if rest.len = 0 then .ok (st', 0) else dlpLoop fuel st' o.layer.nextLayerType rest := by
  have hne : ¬ (LayerTypeDot1Q = LayerTypeEthernet) := by decide
  by_cases h : data.len < 4
  · rw [if_pos h]
    unfold dlpLoop
    simp only [hne, if_false, if_true, Dot1Q.decode_short st.dot1q data h]
  · rw [if_neg h]
    conv => lhs; unfold dlpLoop
    simp only [hne, if_false, if_true, Dot1Q.decode_long st.dot1q data (by omega)]
    rfl

theorem dlpLoop_other (fuel : Nat) (st : DlpState) (typ : Nat) (data : GSlice)
    (h1 : typ ≠ LayerTypeEthernet) (h2 : typ ≠ LayerTypeDot1Q) :
    dlpLoop (fuel + 1) st typ data = if typ = LayerTypeZero then .ok (st, 0) else .ok (st, 2) := by
  unfold dlpLoop
  simp only [h1, h2, if_false]

theorem dlpLoop_no_panic (fuel : Nat) (st : DlpState) (typ : Nat) (data : GSlice) (k : PanicKind) :
    dlpLoop fuel st typ data ≠ .panic k := by
  induction fuel generalizing st typ data with
  | zero => unfold dlpLoop; exact fun h => nomatch h
  | succ fuel ih =>
    by_cases h1 : typ = LayerTypeEthernet
    · subst h1; rw [dlpLoop_eth]
      split
      · exact fun h => nomatch h
      · simp only; split
        · exact fun h => nomatch h
        · exact ih _ _ _
    · by_cases h2 : typ = LayerTypeDot1Q
      · subst h2; rw [dlpLoop_dot1q]
        split
        · exact fun h => nomatch h
        · simp only; split
          · exact fun h => nomatch h
          · exact ih _ _ _
      · rw [dlpLoop_other _ _ _ _ h1 h2]; split <;> exact fun h => nomatch h

/-- The fuel `|data| + 1` of `dlpDecodeLayers` suffices: any two amounts of fuel above the input
    length give the same run (each iteration consumes at least 4 bytes). -/
theorem dlpLoop_fuel (f1 f2 : Nat) (st : DlpState) (typ : Nat) (data : GSlice)
    (h1 : data.len < f1) (h2 : data.len < f2) :
    dlpLoop f1 st typ data = dlpLoop f2 st typ data := by
  induction f1 generalizing f2 st typ data with
  | zero => omega
  | succ f1 ih =>
    cases f2 with
    | zero => omega
    | succ f2 =>
      by_cases e1 : typ = LayerTypeEthernet
      · subst e1; rw [dlpLoop_eth, dlpLoop_eth]
        by_cases hs : data.len < 14
        · rw [if_pos hs, if_pos hs]
        · rw [if_neg hs, if_neg hs]
          simp only
          have hp := ethDecSpec_payload_le data.vis (by unfold GSlice.len at hs; omega)
          split
          · rfl
          · exact ih _ _ _ _ (by unfold GSlice.len at *; simp only; omega) (by unfold GSlice.len at *; simp only; omega)
      · by_cases e2 : typ = LayerTypeDot1Q
        · subst e2; rw [dlpLoop_dot1q, dlpLoop_dot1q]
          by_cases hs : data.len < 4
          · rw [if_pos hs, if_pos hs]
          · rw [if_neg hs, if_neg hs]
            simp only
            split
            · rfl
            · refine ih _ _ _ _ ?_ ?_ <;>
                (unfold GSlice.len at *; simp only [dot1qDecSpec, List.length_drop]; omega)
        · rw [dlpLoop_other _ _ _ _ e1 e2, dlpLoop_other _ _ _ _ e1 e2]

/-- The result of the parser loop does not depend on the capacity of the packet buffer / the bytes
    behind the input. -/
theorem dlpLoop_cap (fuel : Nat) (st : DlpState) (typ : Nat) (v t1 t2 : Bytes) :
    dlpLoop fuel st typ { vis := v, tail := t1 } = dlpLoop fuel st typ { vis := v, tail := t2 } := by
  induction fuel generalizing st typ v t1 t2 with
  | zero => unfold dlpLoop; rfl
  | succ fuel ih =>
    by_cases e1 : typ = LayerTypeEthernet
    · subst e1; rw [dlpLoop_eth, dlpLoop_eth]
      by_cases hs : v.length < 14
      · rw [if_pos (show GSlice.len { vis := v, tail := t1 } < 14 from hs),
          if_pos (show GSlice.len { vis := v, tail := t2 } < 14 from hs)]
      · rw [if_neg (show ¬ GSlice.len { vis := v, tail := t1 } < 14 from hs),
          if_neg (show ¬ GSlice.len { vis := v, tail := t2 } < 14 from hs)]
        simp only
        by_cases h0 : (ethDecSpec v).layer.payload.length = 0
        · rw [if_pos (show GSlice.len { vis := (ethDecSpec v).layer.payload, tail := _ } = 0 from h0),
            if_pos (show GSlice.len { vis := (ethDecSpec v).layer.payload, tail := _ } = 0 from h0)]
        · rw [if_neg (show ¬ GSlice.len { vis := (ethDecSpec v).layer.payload, tail := _ } = 0 from h0),
            if_neg (show ¬ GSlice.len { vis := (ethDecSpec v).layer.payload, tail := _ } = 0 from h0)]
          exact ih _ _ _ _ _
    · by_cases e2 : typ = LayerTypeDot1Q
      · subst e2; rw [dlpLoop_dot1q, dlpLoop_dot1q]
        by_cases hs : v.length < 4
        · rw [if_pos (show GSlice.len { vis := v, tail := t1 } < 4 from hs),
            if_pos (show GSlice.len { vis := v, tail := t2 } < 4 from hs)]
        · rw [if_neg (show ¬ GSlice.len { vis := v, tail := t1 } < 4 from hs),
            if_neg (show ¬ GSlice.len { vis := v, tail := t2 } < 4 from hs)]
          simp only
          by_cases h0 : (dot1qDecSpec v).layer.payload.length = 0
          · rw [if_pos (show GSlice.len { vis := (dot1qDecSpec v).layer.payload, tail := _ } = 0 from h0),
              if_pos (show GSlice.len { vis := (dot1qDecSpec v).layer.payload, tail := _ } = 0 from h0)]
          · rw [if_neg (show ¬ GSlice.len { vis := (dot1qDecSpec v).layer.payload, tail := _ } = 0 from h0),
              if_neg (show ¬ GSlice.len { vis := (dot1qDecSpec v).layer.payload, tail := _ } = 0 from h0)]
            exact ih _ _ _ _ _
      · rw [dlpLoop_other _ _ _ _ e1 e2, dlpLoop_other _ _ _ _ e1 e2]

/-- Two parser states agree on everything a caller may rely on after DecodeLayers: the decoded type
    list, the truncation flag, and the contents of every layer object whose type is in the list. -/
def DlpAgree (s1 s2 : DlpState) : Prop :=
  s1.decoded = s2.decoded ∧ s1.trunc = s2.trunc ∧
  (LayerTypeEthernet ∈ s1.decoded → s1.eth = s2.eth) ∧
  (LayerTypeDot1Q ∈ s1.decoded → s1.dot1q = s2.dot1q)

theorem dlpLoop_agree (fuel : Nat) (s1 s2 : DlpState) (typ : Nat) (data : GSlice) (h : DlpAgree s1 s2) :
    ∃ r1 r2 c, dlpLoop fuel s1 typ data = .ok (r1, c) ∧ dlpLoop fuel s2 typ data = .ok (r2, c) ∧
      DlpAgree r1 r2 := by
  induction fuel generalizing s1 s2 typ data with
  | zero => exact ⟨s1, s2, 0, by unfold dlpLoop; rfl, by unfold dlpLoop; rfl, h⟩
  | succ fuel ih =>
    obtain ⟨hd, ht, he, hq⟩ := h
    have hne : LayerTypeDot1Q ≠ LayerTypeEthernet := by decide
    by_cases e1 : typ = LayerTypeEthernet
    · subst e1; rw [dlpLoop_eth, dlpLoop_eth]
      by_cases hs : data.len < 14
      · rw [if_pos hs, if_pos hs]
        exact ⟨_, _, 1, rfl, rfl, hd, by simp only [ht], he, hq⟩
      · rw [if_neg hs, if_neg hs]
        simp only
        have hag : DlpAgree
            { s1 with eth := (ethDecSpec data.vis).layer, trunc := s1.trunc || (ethDecSpec data.vis).trunc,
                      decoded := s1.decoded ++ [LayerTypeEthernet] }
            { s2 with eth := (ethDecSpec data.vis).layer, trunc := s2.trunc || (ethDecSpec data.vis).trunc,
                      decoded := s2.decoded ++ [LayerTypeEthernet] } := by
          refine ⟨by simp only [hd], by simp only [ht], fun _ => rfl, fun hm => ?_⟩
          simp only [List.mem_append, List.mem_singleton] at hm
          rcases hm with hm | hm
          · exact hq hm
          · exact absurd hm hne
        split
        · exact ⟨_, _, 0, rfl, rfl, hag⟩
        · exact ih _ _ _ _ hag
    · by_cases e2 : typ = LayerTypeDot1Q
      · subst e2; rw [dlpLoop_dot1q, dlpLoop_dot1q]
        by_cases hs : data.len < 4
        · rw [if_pos hs, if_pos hs]
          exact ⟨_, _, 1, rfl, rfl, hd, by simp only [ht], he, hq⟩
        · rw [if_neg hs, if_neg hs]
          simp only
          have hag : DlpAgree
              { s1 with dot1q := (dot1qDecSpec data.vis).layer, trunc := s1.trunc || (dot1qDecSpec data.vis).trunc,
                        decoded := s1.decoded ++ [LayerTypeDot1Q] }
              { s2 with dot1q := (dot1qDecSpec data.vis).layer, trunc := s2.trunc || (dot1qDecSpec data.vis).trunc,
                        decoded := s2.decoded ++ [LayerTypeDot1Q] } := by
            refine ⟨by simp only [hd], by simp only [ht], fun hm => ?_, fun _ => rfl⟩
            simp only [List.mem_append, List.mem_singleton] at hm
            rcases hm with hm | hm
            · exact he hm
            · exact absurd hm.symm hne
          split
          · exact ⟨_, _, 0, rfl, rfl, hag⟩
          · exact ih _ _ _ _ hag
      · rw [dlpLoop_other _ _ _ _ e1 e2, dlpLoop_other _ _ _ _ e1 e2]
        split
        · exact ⟨_, _, 0, rfl, rfl, hd, ht, he, hq⟩
        · exact ⟨_, _, 2, rfl, rfl, hd, ht, he, hq⟩

end Gp.Eth
