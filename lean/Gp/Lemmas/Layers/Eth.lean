import Gp.Model.Layers.Eth
import Gp.Lemmas.SBuf
/-
  Helper lemmas for engine `leth` (Ethernet + Dot1Q codec).  Core Lean only.

  Section 1 holds the *definitions* that occur in the statements of the property theorems
  (functional specifications of decode / serialize, well-formedness predicates, ≈); the rest is
  proof machinery.
-/
namespace Gp.Eth
open Gp Gp.SBuf Gp.Gen.Eth

/-! ## 1. Definitions used in property statements -/

/-- Big-endian 16-bit value at offset `i` of a byte string (0 for missing bytes; only used where
    the bytes exist). -/
def u16At (v : Bytes) (i : Nat) : Nat := be16 (v.getD i 0) (v.getD (i + 1) 0)

/-- What `Ethernet.DecodeFromBytes` computes from the visible bytes `v` (|v| ≥ 14). -/
def ethDecSpec (v : Bytes) : DecOut Ethernet :=
  let ty := u16At v 12
  let base : Ethernet :=
    { contents := v.take 14, payload := v.drop 14, srcMAC := (v.drop 6).take 6, dstMAC := v.take 6,
      ethernetType := ty, length := 0 }
  if ty < 0x0600 then
    if (v.drop 14).length < ty then
      { layer := { base with ethernetType := ethernetTypeLLC, length := ty }, trunc := true, err := false }
    else
      { layer := { base with ethernetType := ethernetTypeLLC, length := ty, payload := (v.drop 14).take ty },
        trunc := false, err := false }
  else { layer := base, trunc := false, err := false }

/-- What `Dot1Q.DecodeFromBytes` computes from the visible bytes `v` (|v| ≥ 4). -/
def dot1qDecSpec (v : Bytes) : DecOut Dot1Q :=
  { layer :=
      { contents := v.take 4, payload := v.drop 4,
        priority := ((v.getD 0 0).toNat &&& 0xE0) >>> 5,
        dropEligible := ((v.getD 0 0).toNat &&& 0x10 != 0),
        vlan := u16At v 0 &&& 0x0FFF, type := u16At v 2 },
    trunc := false, err := false }

/-! ## 2. Go slices -/

theorem GSlice.slice_ok (s : GSlice) (a b : Nat) (hab : a ≤ b) (hb : b ≤ s.len) :
    s.slice a b = .ok { vis := (s.vis.drop a).take (b - a), tail := s.vis.drop b ++ s.tail } := by
  unfold GSlice.slice GSlice.cap
  unfold GSlice.len at hb
  have h1 : a ≤ b ∧ b ≤ s.vis.length + s.tail.length := ⟨hab, by omega⟩
  rw [if_pos h1]
  have ha : a ≤ s.vis.length := by omega
  rw [List.drop_append_of_le_length ha, List.drop_append_of_le_length hb,
    List.take_append_of_le_length (by rw [List.length_drop]; omega)]

theorem GSlice.sliceFrom_ok (s : GSlice) (a : Nat) (ha : a ≤ s.len) :
    s.sliceFrom a = .ok { vis := s.vis.drop a, tail := s.tail } := by
  unfold GSlice.sliceFrom; rw [if_pos ha]

/-- The two-byte window `[i, i+2)` of a long enough byte string. -/
theorem two_bytes (v : Bytes) (i : Nat) (h : i + 2 ≤ v.length) :
    (v.drop i).take 2 = [v.getD i 0, v.getD (i + 1) 0] := by
  have h0 : i < v.length := by omega
  have h1 : i + 1 < v.length := by omega
  have e : v.drop i = v[i] :: v[i+1] :: v.drop (i+2) := by
    rw [List.drop_eq_getElem_cons h0, List.drop_eq_getElem_cons h1]
  rw [e]
  simp only [List.take_succ_cons, List.take_zero, List.getD_eq_getElem?_getD,
    List.getElem?_eq_getElem h0, List.getElem?_eq_getElem h1, Option.getD_some]

theorem uint16_two (a b : UInt8) (t : Bytes) : uint16 { vis := [a, b], tail := t } = .ok (be16 a b) := by
  simp [uint16, GSlice.index, Gp.index, bind, Res.bind, pure]

/-- `BigEndian.Uint16(data[i:i+2])` on a slice that is long enough. -/
theorem uint16_slice (s : GSlice) (i : Nat) (h : i + 2 ≤ s.len) :
    (s.slice i (i + 2) >>= uint16) = .ok (u16At s.vis i) := by
  rw [GSlice.slice_ok s i (i + 2) (by omega) h]
  have : i + 2 - i = 2 := by omega
  rw [this, two_bytes s.vis i h, Res.bind_ok]
  exact uint16_two _ _ _

theorem be16_lt (a b : UInt8) : be16 a b < 65536 := by
  have := a.toNat_lt; have := b.toNat_lt
  unfold be16; omega

theorem u16At_lt (v : Bytes) (i : Nat) : u16At v i < 65536 := be16_lt _ _

/-! ## 3. DecodeFromBytes = its functional specification -/


theorem uint16_vis (v t : Bytes) (i : Nat) (h : i + 2 ≤ v.length) :
    uint16 { vis := (v.drop i).take 2, tail := t } = .ok (u16At v i) := by
  rw [two_bytes v i h]; exact uint16_two _ _ _

theorem Ethernet.decode_short (old : Ethernet) (d : GSlice) (h : d.len < 14) :
    old.decodeFromBytes d = .ok { layer := old, trunc := false, err := true } := by
  unfold Ethernet.decodeFromBytes; rw [if_pos h]

theorem Ethernet.decode_long (old : Ethernet) (d : GSlice) (h : 14 ≤ d.len) :
    old.decodeFromBytes d = .ok (ethDecSpec d.vis) := by
  have hl : 14 ≤ d.vis.length := h
  unfold Ethernet.decodeFromBytes
  rw [if_neg (by omega)]
  rw [GSlice.slice_ok d 0 6 (by omega) (by omega), Res.bind_ok]
  rw [GSlice.slice_ok d 6 12 (by omega) (by omega), Res.bind_ok]
  rw [GSlice.slice_ok d 12 14 (by omega) (by omega), Res.bind_ok]
  simp only [Nat.reduceSub]
  rw [uint16_vis d.vis _ 12 (by omega), Res.bind_ok]
  rw [GSlice.slice_ok d 0 14 (by omega) (by omega), Res.bind_ok]
  rw [GSlice.sliceFrom_ok d 14 h, Res.bind_ok]
  simp only [List.drop_zero, Nat.sub_zero]
  unfold ethDecSpec
  have hty := u16At_lt d.vis 12
  generalize u16At d.vis 12 = ty at hty ⊢
  by_cases hlt : ty < 0x0600
  · have e : ty % 65536 = ty := Nat.mod_eq_of_lt (by omega)
    simp only [hlt, if_true, e, GSlice.len]
    generalize List.drop 14 d.vis = P
    by_cases h1 : P.length < ty
    · have : (P.length : Int) - (ty : Int) < 0 := by omega
      simp only [this, if_true, h1, pure]
    · by_cases h2 : ty < P.length
      · have n1 : ¬ ((P.length : Int) - (ty : Int) < 0) := by omega
        have n2 : (P.length : Int) - (ty : Int) > 0 := by omega
        have n3 : ¬ ((P.length : Int) - ((P.length : Int) - (ty : Int)) < 0) := by omega
        have n4 : ((P.length : Int) - ((P.length : Int) - (ty : Int))).toNat = ty := by omega
        simp only [n1, n2, n3, n4, if_true, if_false, h1]
        rw [GSlice.slice_ok _ 0 ty (by omega) (by show ty ≤ P.length; omega), Res.bind_ok]
        simp only [List.drop_zero, Nat.sub_zero, pure]
      · have n1 : ¬ ((P.length : Int) - (ty : Int) < 0) := by omega
        have n2 : ¬ ((P.length : Int) - (ty : Int) > 0) := by omega
        simp only [n1, n2, if_false, h1, pure]
        rw [List.take_of_length_le (l := P) (by omega)]
  · simp [hlt, pure]


theorem GSlice.index_ok (s : GSlice) (i : Nat) (h : i < s.len) :
    s.index i = .ok (s.vis.getD i 0) := by
  unfold GSlice.index Gp.index
  have h' : i < s.vis.length := h
  simp [List.getD_eq_getElem?_getD, h']

theorem Dot1Q.decode_short (old : Dot1Q) (d : GSlice) (h : d.len < 4) :
    old.decodeFromBytes d = .ok { layer := old, trunc := true, err := true } := by
  unfold Dot1Q.decodeFromBytes; rw [if_pos h]

theorem Dot1Q.decode_long (old : Dot1Q) (d : GSlice) (h : 4 ≤ d.len) :
    old.decodeFromBytes d = .ok (dot1qDecSpec d.vis) := by
  have hl : 4 ≤ d.vis.length := h
  unfold Dot1Q.decodeFromBytes
  rw [if_neg (by omega)]
  rw [GSlice.index_ok d 0 (by omega), Res.bind_ok, Res.bind_ok]
  rw [GSlice.slice_ok d 0 2 (by omega) (by omega), Res.bind_ok]
  simp only [Nat.reduceSub]
  rw [uint16_vis d.vis _ 0 (by omega), Res.bind_ok]
  rw [GSlice.slice_ok d 2 4 (by omega) (by omega), Res.bind_ok]
  simp only [Nat.reduceSub]
  rw [uint16_vis d.vis _ 2 (by omega), Res.bind_ok]
  rw [GSlice.slice_ok d 0 4 (by omega) (by omega), Res.bind_ok]
  rw [GSlice.sliceFrom_ok d 4 h, Res.bind_ok]
  simp only [List.drop_zero, Nat.sub_zero, pure, dot1qDecSpec]

end Gp.Eth
