import Gp.Lemmas.Layers.Ip4
import Gp.Lemmas.Layers.Ip4Ser3
/-
  Helper lemmas for engine `lip4`, part 5: round trip (C06).  Well-formedness predicate,
  option list ↔ option bytes in both directions.
-/
namespace Gp.Ip4
open Gp Gp.SBuf

/-! ## Well-formed (in-range) layers -/

/-- One option in the form the decoder produces / a user is expected to build:
    end-of-list and no-operation have length 1 and no data; every other option has a type
    2..255, a length 3..255 and exactly `length - 2` data bytes. -/
def optWf (o : Opt) : Prop :=
  ((o.typ = 0 ∨ o.typ = 1) ∧ o.len = 1 ∧ o.data = []) ∨
  (2 ≤ o.typ ∧ o.typ < 256 ∧ 3 ≤ o.len ∧ o.len < 256 ∧ o.data.length + 2 = o.len)

instance (o : Opt) : Decidable (optWf o) := by unfold optWf; exact inferInstance

/-- Every option well formed; an end-of-list option only in the last position. -/
def optsWf : List Opt → Prop
  | [] => True
  | [o] => optWf o
  | o :: o' :: os => optWf o ∧ o.typ ≠ 0 ∧ optsWf (o' :: os)

instance : (os : List Opt) → Decidable (optsWf os)
  | [] => isTrue trivial
  | [o] => by unfold optsWf; exact inferInstance
  | o :: o' :: os => by
    unfold optsWf
    have := instDecidableOptsWf (o' :: os)
    exact inferInstance

/-- The list ends with an end-of-list option. -/
def lastIsEol : List Opt → Bool
  | [] => false
  | [o] => o.typ == 0
  | _ :: o' :: os => lastIsEol (o' :: os)

/-- In-range IPv4 layer: every field within the range its wire encoding can carry, 4-byte
    addresses, well-formed options that — together with the padding — fill a whole number of
    32-bit words and at most 40 bytes; padding only after an end-of-list option.
    (`contents`/`payload` are not constrained: the serializer does not read them.) -/
def wf (l : Layer) : Prop :=
  l.version < 16 ∧ l.ihl < 16 ∧ l.tos < 256 ∧ l.length < 65536 ∧ l.id < 65536 ∧ l.flags < 8 ∧
  l.fragOffset < 8192 ∧ l.ttl < 256 ∧ l.protocol < 256 ∧ l.checksum < 65536 ∧
  l.srcIP.length = 4 ∧ l.dstIP.length = 4 ∧ optsWf l.options ∧
  (l.padding ≠ [] → lastIsEol l.options = true) ∧
  (optsSize l.options + l.padding.length) % 4 = 0 ∧ optsSize l.options + l.padding.length ≤ 40

instance (l : Layer) : Decidable (wf l) := by unfold wf; exact inferInstance

/-- Equality of all public fields (everything except BaseLayer.Contents/Payload). -/
def fieldsEq (a b : Layer) : Prop :=
  { a with contents := [], payload := [] } = { b with contents := [], payload := [] }

theorem optWf_valid {o : Opt} (h : optWf o) : optValid o := by
  unfold optValid
  rcases h with ⟨h1 | h1, -, -⟩ | ⟨h1, h2, h3, h4, h5⟩
  · left; simp [h1]
  · right; left; simp [h1]
  · right; right
    rw [Nat.mod_eq_of_lt h4]; omega

theorem optsWf_head {o : Opt} {os : List Opt} (h : optsWf (o :: os)) : optWf o := by
  cases os with
  | nil => exact h
  | cons o' os => exact h.1

theorem optsWf_tail {o : Opt} {os : List Opt} (h : optsWf (o :: os)) : optsWf os := by
  cases os with
  | nil => trivial
  | cons o' os => exact h.2.2

theorem optsWf_valid {os : List Opt} (h : optsWf os) : ∀ o ∈ os, optValid o := by
  induction os with
  | nil => intro o ho; cases ho
  | cons o os ih =>
    intro o' ho'
    rcases List.mem_cons.mp ho' with rfl | h'
    · exact optWf_valid (optsWf_head h)
    · exact ih (optsWf_tail h) o' h'

/-- Bytes of a well-formed option (no zero gap). -/
theorem optBytes_wf {o : Opt} (h : optWf o) :
    optBytes o = if o.typ = 0 then [0] else if o.typ = 1 then [1] else [u8 o.typ, u8 o.len] ++ o.data := by
  unfold optBytes
  rcases h with ⟨h1 | h1, -, -⟩ | ⟨h1, h2, h3, h4, h5⟩
  · simp [h1]
  · simp [h1]
  · have e1 : o.typ % 256 = o.typ := Nat.mod_eq_of_lt h2
    have e2 : o.len % 256 = o.len := Nat.mod_eq_of_lt h4
    have n0 : o.typ ≠ 0 := by omega
    have n1 : o.typ ≠ 1 := by omega
    have z : o.len - 2 - o.data.length = 0 := by omega
    simp [e1, e2, n0, n1, z]

theorem u8_toNat (n : Nat) (h : n < 256) : (u8 n).toNat = n := by
  simp [u8, Nat.mod_eq_of_lt h]

/-! ## Writing an option list and parsing it again -/

theorem lastIsEol_cons_cons (o o' : Opt) (os : List Opt) : lastIsEol (o :: o' :: os) = lastIsEol (o' :: os) := rfl

theorem ser_parse : ∀ (os acc : List Opt) (pad : Bytes) (fuel : Nat),
    optsWf os → (pad ≠ [] → lastIsEol os = true) → (optsBytes os ++ pad).length < fuel →
    parseOpts fuel (optsBytes os ++ pad) acc =
      ⟨acc ++ os, if lastIsEol os then some pad else none, false, false⟩ := by
  intro os
  induction os with
  | nil =>
    intro acc pad fuel _ hp hf
    have : pad = [] := by
      cases pad with
      | nil => rfl
      | cons a t => exact absurd (hp (by simp)) (by simp [lastIsEol])
    subst this
    cases fuel with
    | zero => simp at hf
    | succ f => simp [optsBytes, parseOpts, lastIsEol]
  | cons o os ih =>
    intro acc pad fuel hw hp hf
    have hwo := optsWf_head hw
    have hwt := optsWf_tail hw
    cases fuel with
    | zero => simp at hf
    | succ f =>
      simp only [optsBytes, List.append_assoc] at hf ⊢
      rw [optBytes_wf hwo] at hf ⊢
      rcases hwo with ⟨h1 | h1, h2, h3⟩ | ⟨h1, h2, h3, h4, h5⟩
      · -- end of list: must be the last option
        have hos : os = [] := by
          cases os with
          | nil => rfl
          | cons o' os' => exact absurd h1 hw.2.1
        subst hos
        have ho : o = ⟨0, 1, []⟩ := by cases o; simp_all
        subst ho
        simp [parseOpts, optsBytes, lastIsEol]
      · have ho : o = ⟨1, 1, []⟩ := by cases o; simp_all
        subst ho
        simp only [show (1 : Nat) ≠ 0 by decide, if_false, if_true, List.cons_append, List.nil_append] at hf ⊢
        simp only [parseOpts, show (1 : UInt8).toNat = 1 by rfl, show (1 : Nat) ≠ 0 by decide, if_false, if_true]
        have hp' : pad ≠ [] → lastIsEol os = true := by
          intro h; have := hp h
          cases os with
          | nil => simp [lastIsEol] at this
          | cons o' os' => rwa [lastIsEol_cons_cons] at this
        rw [ih (acc ++ [(⟨1, 1, []⟩ : Opt)]) pad f hwt hp' (by simp only [List.length_cons, List.length_append] at hf ⊢; omega)]
        cases os with
        | nil => simp [lastIsEol]
        | cons o' os' => simp [lastIsEol_cons_cons]; rfl
      · have n0 : o.typ ≠ 0 := by omega
        have n1 : o.typ ≠ 1 := by omega
        have t0 : (u8 o.typ).toNat = o.typ := u8_toNat _ h2
        have t1 : (u8 o.len).toNat = o.len := u8_toNat _ h4
        simp only [n0, n1, if_false, List.cons_append, List.nil_append, List.append_assoc] at hf ⊢
        rw [parseOpts]
        simp only [t0, t1, n0, n1, if_false]
        have hlen : ¬ ((u8 o.typ :: u8 o.len :: (o.data ++ (optsBytes os ++ pad))).length < o.len) := by
          simp; omega
        have hle : ¬ (o.len ≤ 2) := by omega
        simp only [hlen, hle, if_false]
        have hdrop : (u8 o.typ :: u8 o.len :: (o.data ++ (optsBytes os ++ pad))).drop o.len = optsBytes os ++ pad := by
          have : o.len = (o.data.length) + 1 + 1 := by omega
          rw [this]; simp
        have hdata : ((u8 o.typ :: u8 o.len :: (o.data ++ (optsBytes os ++ pad))).drop 2).take (o.len - 2) = o.data := by
          have : o.len - 2 = o.data.length := by omega
          rw [this]; simp
        rw [hdrop, hdata]
        have hp' : pad ≠ [] → lastIsEol os = true := by
          intro h; have := hp h
          cases os with
          | nil => simp [lastIsEol] at this; exact absurd this n0
          | cons o' os' => rwa [lastIsEol_cons_cons] at this
        have ho : (⟨o.typ, o.len, o.data⟩ : Opt) = o := by cases o; rfl
        rw [ho, ih (acc ++ [o]) pad f hwt hp' (by simp only [List.length_cons, List.length_append] at hf ⊢; omega)]
        cases os with
        | nil => simp [lastIsEol, n0]
        | cons o' os' => simp only [lastIsEol_cons_cons, List.append_assoc, List.cons_append, List.nil_append]; rfl

/-! ## Parsing option bytes yields a well-formed list that serialises back to the same bytes -/

theorem lastIsEol_cons (o : Opt) (new : List Opt) (h : o.typ ≠ 0) : lastIsEol (o :: new) = lastIsEol new := by
  cases new with
  | nil => simp [lastIsEol, h]
  | cons o' os => rfl

theorem optsWf_cons (o : Opt) (new : List Opt) (ho : optWf o) (h0 : o.typ ≠ 0) (hn : optsWf new) :
    optsWf (o :: new) := by
  cases new with
  | nil => exact ho
  | cons o' os => exact ⟨ho, h0, hn⟩

theorem u8_toNat_self (t : UInt8) : u8 t.toNat = t := by
  have h : t.toNat < 256 := t.toNat_lt
  simp [u8, Nat.mod_eq_of_lt h]

theorem toNat_eq_one {t : UInt8} (h : t.toNat = 1) : t = 1 := by
  rw [← u8_toNat_self t, h]; rfl

theorem toNat_eq_zero {t : UInt8} (h : t.toNat = 0) : t = 0 := by
  rw [← u8_toNat_self t, h]; rfl

theorem parse_wf : ∀ (fuel : Nat) (xs : Bytes) (acc : List Opt), xs.length < fuel →
    (parseOpts fuel xs acc).err = false →
    ∃ new pad, parseOpts fuel xs acc = ⟨acc ++ new, if lastIsEol new then some pad else none, false, false⟩ ∧
      optsWf new ∧ (lastIsEol new = false → pad = []) ∧ optsBytes new ++ pad = xs := by
  intro fuel
  induction fuel with
  | zero => intro xs acc h; omega
  | succ f ih =>
    intro xs acc hf herr
    match xs, hf, herr with
    | [], _, _ => exact ⟨[], [], by simp [parseOpts, lastIsEol], trivial, fun _ => rfl, rfl⟩
    | t :: tl, hf, herr =>
      simp only [parseOpts] at herr ⊢
      by_cases ht0 : t.toNat = 0
      · refine ⟨[⟨0, 1, []⟩], tl, by simp [ht0, lastIsEol], by simp [optsWf, optWf], by simp [lastIsEol], ?_⟩
        simp [optsBytes, optBytes, toNat_eq_zero ht0]
      · by_cases ht1 : t.toNat = 1
        · simp only [ht1, show ((1 : Nat) = 0) = False by decide, if_false, if_true] at herr ⊢
          obtain ⟨new, pad, he, hw, hl, hb⟩ := ih tl (acc ++ [(⟨1, 1, []⟩ : Opt)]) (by simp at hf; omega) herr
          refine ⟨(⟨1, 1, []⟩ : Opt) :: new, pad, ?_, optsWf_cons _ _ (by simp [optWf]) (by simp) hw, ?_, ?_⟩
          · rw [he, lastIsEol_cons _ _ (by simp)]; simp
          · rw [lastIsEol_cons _ _ (by simp)]; exact hl
          · simp [optsBytes, optBytes, hb, toNat_eq_one ht1]
        · simp only [ht0, ht1, if_false] at herr ⊢
          match tl, hf, herr with
          | [], _, herr => simp at herr
          | ol :: tl', hf, herr =>
            simp only at herr ⊢
            simp only [List.length_cons] at herr ⊢
            by_cases c1 : tl'.length + 1 + 1 < ol.toNat
            · simp [c1] at herr
            · by_cases c2 : ol.toNat ≤ 2
              · simp [c1, c2] at herr
              · simp only [c1, c2, if_false] at herr ⊢
                have hlt : ol.toNat < 256 := ol.toNat_lt
                have htl : t.toNat < 256 := t.toNat_lt
                obtain ⟨new, pad, he, hw, hl, hb⟩ := ih _ (acc ++ [⟨t.toNat, ol.toNat,
                  ((t :: ol :: tl').drop 2).take (ol.toNat - 2)⟩]) (by simp at hf ⊢; omega) herr
                have hdl : (((t :: ol :: tl').drop 2).take (ol.toNat - 2)).length = ol.toNat - 2 := by
                  simp at c1 ⊢; omega
                have hwo : optWf ⟨t.toNat, ol.toNat, ((t :: ol :: tl').drop 2).take (ol.toNat - 2)⟩ := by
                  right; refine ⟨(by show 2 ≤ t.toNat; omega), htl, (by show 3 ≤ ol.toNat; omega), hlt, ?_⟩
                  show (((t :: ol :: tl').drop 2).take (ol.toNat - 2)).length + 2 = ol.toNat
                  omega
                refine ⟨_ :: new, pad, ?_, optsWf_cons _ _ hwo (by simpa using ht0) hw, ?_, ?_⟩
                · rw [he, lastIsEol_cons _ _ (by simpa using ht0)]; simp
                · rw [lastIsEol_cons _ _ (by simpa using ht0)]; exact hl
                · simp only [optsBytes, List.append_assoc, hb]
                  rw [optBytes_wf hwo]
                  simp only [ht0, ht1, if_false, u8_toNat_self]
                  have : ol.toNat = (ol.toNat - 2) + 2 := by omega
                  conv => lhs; arg 2; rw [this, ← List.drop_drop]
                  simp

end Gp.Ip4
