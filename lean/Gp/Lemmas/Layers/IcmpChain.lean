import Gp.Lemmas.Layers.Icmp
/-
  The DecodingLayerParser run over reused ICMP objects versus the packet's decode chain (C05,
  first sentence), for engine `licmp`.  Core Lean only.
-/
namespace Gp.Icmp
open Gp

/-- All eight reusable objects have their never-assigned fields untouched. -/
def AllUntouched (o : Objs) : Prop := ∀ k : Kind, Untouched (o.get k)

theorem allUntouched_fresh : AllUntouched {} := by
  intro k; cases k <;> simp [Objs.get, Untouched]

theorem get_kind (o : Objs) (k : Kind) : (o.get k).kind = k := by cases k <;> rfl

theorem get_set (o : Objs) (l : AnyLayer) (k : Kind) :
    (o.set l).get k = if k = l.kind then l else o.get k := by
  cases l <;> cases k <;> rfl

theorem allUntouched_set (o : Objs) (l : AnyLayer) (h : AllUntouched o) (hl : Untouched l) :
    AllUntouched (o.set l) := by
  intro k
  rw [get_set]
  split
  · exact hl
  · exact h k

/-- How a parser run relates to the packet built from the same bytes: same truncation flag, and
    the packet's layers are the parser's decoded run followed by nothing (complete), by the
    DecodeFailure layer (the parser returned the decoder's error instead), or by a layer of a
    type outside the parser's set (the parser reported UnsupportedLayerType). -/
def Agree (acc : List PLayer) (tr : Bool) (r : DlpOut) (q : PktOut) : Prop :=
  r.trunc = (tr || q.trunc) ∧
  match r.status with
  | .ok => acc ++ q.layers = r.decoded ∧ q.err = false
  | .err => acc ++ q.layers = r.decoded ++ [.failure] ∧ q.err = true
  | .unsupported => ∃ t, acc ++ q.layers = r.decoded ++ [.other t] ∧ q.err = false

theorem dlp_agrees (f : Nat) : ∀ (k : Kind) (o : Objs) (data : Bytes) (acc : List PLayer) (tr : Bool)
    (r : DlpOut) (q : PktOut), AllUntouched o →
    dlpRun f k o data acc tr = .ok r → pktRun f k data = .ok q →
    Agree acc tr r q ∧ AllUntouched r.objs := by
  induction f with
  | zero => intro k o data acc tr r q _ h; cases h
  | succ f ih =>
    intro k o data acc tr r q ho hd hp
    unfold dlpRun at hd
    unfold pktRun at hp
    rw [decodeAny_eq] at hd hp
    simp only [Res.bind_ok] at hd hp
    have hu := ho k
    have heq := pure_untouched_eq_fresh (o.get k) data hu
    rw [get_kind] at heq
    simp only at heq
    obtain ⟨e1, e2, e3⟩ := heq
    have hou : AllUntouched (o.set (pureAny (o.get k) data).layer) :=
      allUntouched_set o _ ho (untouched_pure _ _ hu)
    by_cases herr : (pureAny (o.get k) data).err = true
    · have herr' : (pureAny (fresh k) data).err = true := by rw [← e1]; exact herr
      rw [if_pos herr] at hd
      rw [if_pos herr'] at hp
      cases hd; cases hp
      refine ⟨⟨by simp [e2], ?_⟩, hou⟩
      simp
    · have herr' : ¬ (pureAny (fresh k) data).err = true := by rw [← e1]; exact herr
      rw [if_neg herr] at hd
      rw [if_neg herr'] at hp
      have hl : (pureAny (o.get k) data).layer = (pureAny (fresh k) data).layer :=
        e3 (by simpa using herr)
      rw [hl] at hd hou
      generalize (pureAny (fresh k) data).layer = L at hd hp hou
      by_cases hlen : L.payload.length = 0
      · rw [if_pos hlen] at hd hp
        cases hd; cases hp
        exact ⟨⟨by simp [e2], by simp⟩, hou⟩
      · rw [if_neg hlen] at hd hp
        by_cases hnp : L.next = .payload
        · rw [if_pos hnp] at hd hp
          cases hd; cases hp
          exact ⟨⟨by simp [e2], by simp⟩, hou⟩
        · rw [if_neg hnp] at hd hp
          cases hk : L.next.kind? with
          | none =>
            rw [hk] at hd hp
            cases hd; cases hp
            exact ⟨⟨by simp [e2], ⟨L.next, by simp, rfl⟩⟩, hou⟩
          | some k2 =>
            rw [hk] at hd hp
            simp only at hd hp
            cases hr : pktRun f k2 L.payload with
            | panic pk => rw [hr] at hp; cases hp
            | err e => rw [hr] at hp; cases hp
            | ok rest =>
              rw [hr] at hp
              simp only [Res.bind_ok] at hp
              cases hp
              obtain ⟨⟨ht, hm⟩, hou'⟩ := ih k2 _ L.payload (acc ++ [.lay L])
                (tr || (pureAny (o.get k) data).trunc) r rest hou hd hr
              refine ⟨⟨?_, ?_⟩, hou'⟩
              · rw [ht, e2]; simp [Bool.or_assoc]
              · revert hm
                cases r.status <;> simp [List.append_assoc]

end Gp.Icmp
