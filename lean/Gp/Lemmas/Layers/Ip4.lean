import Gp.Model.Layers.Ip4
/-
  Helper lemmas for engine `lip4`, part 1: DecodeFromBytes.

  `decodeSpec` is a pure, capacity-free, panic-free restatement of `decodeWith`; the central
  lemma `decodeWith_eq_spec` shows that the slice-level model (Go panic semantics, capacity,
  foreign bytes) always returns exactly the specification.  All decode-side property theorems
  are consequences.
-/
namespace Gp.Ip4
open Gp

/-! ## Go slices: the abstraction relation -/

/-- `s` is a Go slice whose elements are `xs` (whatever lies between len and cap). -/
def Rep (s : Sl) (xs : Bytes) : Prop := s.len = xs.length ∧ ∃ junk, s.arr = xs ++ junk

theorem rep_mk (xs junk : Bytes) : Rep ⟨xs ++ junk, xs.length⟩ xs := ⟨rfl, junk, rfl⟩

theorem Rep.bytes {s : Sl} {xs : Bytes} (h : Rep s xs) : s.bytes = xs := by
  obtain ⟨hl, junk, ha⟩ := h
  simp [Sl.bytes, ha, hl]

theorem Rep.idx {s : Sl} {xs : Bytes} (h : Rep s xs) {i : Nat} (hi : i < xs.length) :
    s.idx i = .ok (xs[i]'hi) := by
  obtain ⟨hl, junk, ha⟩ := h
  simp [Sl.idx, hl, hi, ha, List.getElem?_append_left hi]

theorem Rep.slice {s : Sl} {xs : Bytes} (h : Rep s xs) {a b : Nat} (hab : a ≤ b) (hb : b ≤ xs.length) :
    s.slice a b = .ok ⟨s.arr.drop a, b - a⟩ ∧ Rep ⟨s.arr.drop a, b - a⟩ ((xs.drop a).take (b - a)) := by
  obtain ⟨hl, junk, ha⟩ := h
  constructor
  · simp [Sl.slice, hab, ha]; omega
  · refine ⟨?_, (xs.drop a).drop (b - a) ++ junk, ?_⟩
    · simp [List.length_take, List.length_drop]; omega
    · show s.arr.drop a = _
      rw [ha, List.drop_append_of_le_length (by omega), ← List.append_assoc, List.take_append_drop]

theorem Rep.sliceFrom {s : Sl} {xs : Bytes} (h : Rep s xs) {a : Nat} (ha : a ≤ xs.length) :
    s.sliceFrom a = .ok ⟨s.arr.drop a, xs.length - a⟩ ∧ Rep ⟨s.arr.drop a, xs.length - a⟩ (xs.drop a) := by
  have := h.slice ha (Nat.le_refl _)
  rw [List.take_of_length_le (by simp)] at this
  simpa [Sl.sliceFrom, h.1] using this

theorem Rep.sliceTo {s : Sl} {xs : Bytes} (h : Rep s xs) {b : Nat} (hb : b ≤ xs.length) :
    s.sliceTo b = .ok ⟨s.arr, b⟩ ∧ Rep ⟨s.arr, b⟩ (xs.take b) := by
  have := h.slice (Nat.zero_le b) hb
  simpa [Sl.sliceTo] using this

theorem Rep.be16 {s : Sl} {xs : Bytes} (h : Rep s xs) (h2 : 2 ≤ xs.length) :
    s.be16 = .ok (Gp.be16 (xs[0]'(by omega)) (xs[1]'(by omega))) := by
  simp only [Sl.be16, h.idx (show 1 < xs.length by omega), h.idx (show 0 < xs.length by omega)]
  rfl

/-! ## The option loop -/

/-- Pure restatement of the `pullOutOptions` loop over the list of header-option bytes. -/
def parseOpts : Nat → Bytes → List Opt → OptOut
  | 0, _, acc => ⟨acc, none, false, false⟩
  | fuel + 1, h, acc =>
    match h with
    | [] => ⟨acc, none, false, false⟩
    | t :: tl =>
      if t.toNat = 0 then ⟨acc ++ [⟨0, 1, []⟩], some tl, false, false⟩
      else if t.toNat = 1 then parseOpts fuel tl (acc ++ [⟨1, 1, []⟩])
      else
        match tl with
        | [] => ⟨acc, none, true, true⟩
        | ol :: _ =>
          if (t :: tl).length < ol.toNat then ⟨acc, none, true, true⟩
          else if ol.toNat ≤ 2 then ⟨acc, none, false, true⟩
          else parseOpts fuel ((t :: tl).drop ol.toNat)
                 (acc ++ [⟨t.toNat, ol.toNat, ((t :: tl).drop 2).take (ol.toNat - 2)⟩])

theorem optLoop_eq (fuel : Nat) : ∀ (h : Sl) (xs : Bytes) (acc : List Opt), Rep h xs → xs.length < fuel →
    optLoop fuel h acc = .ok (parseOpts fuel xs acc) := by
  induction fuel with
  | zero => intro h xs acc _ hf; omega
  | succ fuel ih =>
    intro h xs acc hr hf
    match xs, hr with
    | [], hr =>
      have : h.len = 0 := hr.1
      simp [optLoop, parseOpts, this]
    | t :: tl, hr =>
      have hlen : h.len = tl.length + 1 := hr.1
      have h0 : h.idx 0 = .ok t := hr.idx (i := 0) (by simp)
      have hs1 := hr.sliceFrom (a := 1) (by simp)
      simp only [List.length_cons, List.drop_succ_cons, List.drop_zero, Nat.add_sub_cancel] at hs1
      unfold optLoop parseOpts
      simp only [hlen, Nat.add_one_ne_zero, if_false, h0, Res.bind_ok]
      by_cases ht0 : t.toNat = 0
      · simp only [ht0, if_true, hs1.1, Res.bind_ok, hs1.2.bytes]; rfl
      · by_cases ht1 : t.toNat = 1
        · simp only [ht0, ht1, if_true, if_false, hs1.1, Res.bind_ok]
          exact ih _ tl _ hs1.2 (by simp at hf; omega)
        · simp only [ht0, ht1, if_false]
          match tl, hr, hlen, hf with
          | [], _, hlen, _ => simp [hlen]; rfl
          | ol :: tl', hr, hlen, hf =>
            have h1 : h.idx 1 = .ok ol := hr.idx (i := 1) (by simp)
            have hl2 : ¬ (tl'.length + 1 + 1 < 2) := by omega
            simp only [List.length_cons] at hlen hf ⊢
            simp only [hlen, hl2, if_false, h1, Res.bind_ok]
            by_cases hlt : tl'.length + 1 + 1 < ol.toNat
            · simp only [hlt, if_true]; rfl
            · by_cases hle : ol.toNat ≤ 2
              · simp only [hlt, hle, if_true, if_false]; rfl
              · have hd := hr.slice (a := 2) (b := ol.toNat) (by omega) (by simp; omega)
                have hrest := hr.sliceFrom (a := ol.toNat) (by simp; omega)
                simp only [List.length_cons] at hrest
                simp only [hlt, hle, if_false, hd.1, hrest.1, Res.bind_ok, hd.2.bytes]
                refine ih _ _ _ hrest.2 ?_
                simp [List.length_drop]; omega

end Gp.Ip4
