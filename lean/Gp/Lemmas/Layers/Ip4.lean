import Gp.Model.Layers.Ip4
/-
  Helper lemmas for engine `lip4`, part 1: DecodeFromBytes.

  `decodeSpec` is a pure, capacity-free, panic-free restatement of `decodeWith`; the central
  lemma `decodeWith_eq_spec` shows that the slice-level model (Go panic semantics, capacity,
  foreign bytes) always returns exactly the specification.  All decode-side property theorems
  are consequences.
-/
namespace Gp.Ip4
open Gp

/-! ## Go slices: the abstraction relation -/

/-- `s` is a Go slice whose elements are `xs` (whatever lies between len and cap). -/
def Rep (s : Sl) (xs : Bytes) : Prop := s.len = xs.length ∧ ∃ junk, s.arr = xs ++ junk

theorem rep_mk (xs junk : Bytes) : Rep ⟨xs ++ junk, xs.length⟩ xs := ⟨rfl, junk, rfl⟩

theorem Rep.bytes {s : Sl} {xs : Bytes} (h : Rep s xs) : s.bytes = xs := by
  obtain ⟨hl, junk, ha⟩ := h
  simp [Sl.bytes, ha, hl]

theorem Rep.idx {s : Sl} {xs : Bytes} (h : Rep s xs) {i : Nat} (hi : i < xs.length) :
    s.idx i = .ok (xs[i]'hi) := by
  obtain ⟨hl, junk, ha⟩ := h
  simp [Sl.idx, hl, hi, ha, List.getElem?_append_left hi]

theorem Rep.slice {s : Sl} {xs : Bytes} (h : Rep s xs) {a b : Nat} (hab : a ≤ b) (hb : b ≤ xs.length) :
    s.slice a b = .ok ⟨s.arr.drop a, b - a⟩ ∧ Rep ⟨s.arr.drop a, b - a⟩ ((xs.drop a).take (b - a)) := by
  obtain ⟨hl, junk, ha⟩ := h
  constructor
  · simp [Sl.slice, hab, ha]; omega
  · refine ⟨?_, (xs.drop a).drop (b - a) ++ junk, ?_⟩
    · simp [List.length_take, List.length_drop]; omega
    · show s.arr.drop a = _
      rw [ha, List.drop_append_of_le_length (by omega), ← List.append_assoc, List.take_append_drop]

theorem Rep.sliceFrom {s : Sl} {xs : Bytes} (h : Rep s xs) {a : Nat} (ha : a ≤ xs.length) :
    s.sliceFrom a = .ok ⟨s.arr.drop a, xs.length - a⟩ ∧ Rep ⟨s.arr.drop a, xs.length - a⟩ (xs.drop a) := by
  have := h.slice ha (Nat.le_refl _)
  rw [List.take_of_length_le (by simp)] at this
  simpa [Sl.sliceFrom, h.1] using this

theorem Rep.sliceTo {s : Sl} {xs : Bytes} (h : Rep s xs) {b : Nat} (hb : b ≤ xs.length) :
    s.sliceTo b = .ok ⟨s.arr, b⟩ ∧ Rep ⟨s.arr, b⟩ (xs.take b) := by
  have := h.slice (Nat.zero_le b) hb
  simpa [Sl.sliceTo] using this

theorem Rep.be16 {s : Sl} {xs : Bytes} (h : Rep s xs) (h2 : 2 ≤ xs.length) :
    s.be16 = .ok (Gp.be16 (xs[0]'(by omega)) (xs[1]'(by omega))) := by
  simp only [Sl.be16, h.idx (show 1 < xs.length by omega), h.idx (show 0 < xs.length by omega)]
  rfl

/-! ## The option loop -/

/-- Pure restatement of the `pullOutOptions` loop over the list of header-option bytes. -/
def parseOpts : Nat → Bytes → List Opt → OptOut
  | 0, _, acc => ⟨acc, none, false, false⟩
  | fuel + 1, h, acc =>
    match h with
    | [] => ⟨acc, none, false, false⟩
    | t :: tl =>
      if t.toNat = 0 then ⟨acc ++ [⟨0, 1, []⟩], some tl, false, false⟩
      else if t.toNat = 1 then parseOpts fuel tl (acc ++ [⟨1, 1, []⟩])
      else
        match tl with
        | [] => ⟨acc, none, true, true⟩
        | ol :: _ =>
          if (t :: tl).length < ol.toNat then ⟨acc, none, true, true⟩
          else if ol.toNat ≤ 2 then ⟨acc, none, false, true⟩
          else parseOpts fuel ((t :: tl).drop ol.toNat)
                 (acc ++ [⟨t.toNat, ol.toNat, ((t :: tl).drop 2).take (ol.toNat - 2)⟩])

theorem optLoop_eq (fuel : Nat) : ∀ (h : Sl) (xs : Bytes) (acc : List Opt), Rep h xs → xs.length < fuel →
    optLoop fuel h acc = .ok (parseOpts fuel xs acc) := by
  induction fuel with
  | zero => intro h xs acc _ hf; omega
  | succ fuel ih =>
    intro h xs acc hr hf
    match xs, hr with
    | [], hr =>
      have : h.len = 0 := hr.1
      simp [optLoop, parseOpts, this]
    | t :: tl, hr =>
      have hlen : h.len = tl.length + 1 := hr.1
      have h0 : h.idx 0 = .ok t := hr.idx (i := 0) (by simp)
      have hs1 := hr.sliceFrom (a := 1) (by simp)
      simp only [List.length_cons, List.drop_succ_cons, List.drop_zero, Nat.add_sub_cancel] at hs1
      unfold optLoop parseOpts
      simp only [hlen, Nat.add_one_ne_zero, if_false, h0, Res.bind_ok]
      by_cases ht0 : t.toNat = 0
      · simp only [ht0, if_true, hs1.1, Res.bind_ok, hs1.2.bytes]; rfl
      · by_cases ht1 : t.toNat = 1
        · simp only [ht0, ht1, if_true, if_false, hs1.1, Res.bind_ok]
          exact ih _ tl _ hs1.2 (by simp at hf; omega)
        · simp only [ht0, ht1, if_false]
          match tl, hr, hlen, hf with
          | [], _, hlen, _ => simp [hlen]; rfl
          | ol :: tl', hr, hlen, hf =>
            have h1 : h.idx 1 = .ok ol := hr.idx (i := 1) (by simp)
            have hl2 : ¬ (tl'.length + 1 + 1 < 2) := by omega
            simp only [List.length_cons] at hlen hf ⊢
            simp only [hlen, hl2, if_false, h1, Res.bind_ok]
            by_cases hlt : tl'.length + 1 + 1 < ol.toNat
            · simp only [hlt, if_true]; rfl
            · by_cases hle : ol.toNat ≤ 2
              · simp only [hlt, hle, if_true, if_false]; rfl
              · have hd := hr.slice (a := 2) (b := ol.toNat) (by omega) (by simp; omega)
                have hrest := hr.sliceFrom (a := ol.toNat) (by simp; omega)
                simp only [List.length_cons] at hrest
                simp only [hlt, hle, if_false, hd.1, hrest.1, Res.bind_ok, hd.2.bytes]
                refine ih _ _ _ hrest.2 ?_
                simp [List.length_drop]; omega

/-! ## Specification of DecodeFromBytes -/

/-- `xs[i]` with a default (only used below indices that are proved in range). -/
def getB (xs : Bytes) (i : Nat) : UInt8 := xs.getD i 0

theorem getB_eq {xs : Bytes} {i : Nat} (h : i < xs.length) : xs[i] = getB xs i := by
  simp [getB, List.getD, List.getElem?_eq_getElem h]

/-- Specification of `decodeBody` on the list of bytes of `d`. -/
def specBody (rp : Bool) (l1 : Layer) (ihl : Nat) (d : Bytes) (trunc : Bool) : DecOut :=
  let o := parseOpts (ihl * 4 - 20 + 1) ((d.drop 20).take (ihl * 4 - 20)) []
  let l3 : Layer := { l1 with
    options := o.opts,
    padding := match o.padding with | some x => x | none => if rp then [] else l1.padding,
    contents := d.take (ihl * 4), payload := d.drop (ihl * 4) }
  if o.err then ⟨l3, trunc || o.trunc, true⟩
  else
    let ff := Gp.be16 (getB d 6) (getB d 7)
    ⟨{ l3 with version := (getB d 0).toNat / 16, tos := (getB d 1).toNat,
               id := Gp.be16 (getB d 4) (getB d 5),
               flags := ff / 8192, fragOffset := ff % 8192, ttl := (getB d 8).toNat,
               protocol := (getB d 9).toNat, checksum := Gp.be16 (getB d 10) (getB d 11),
               srcIP := (d.drop 12).take 4, dstIP := (d.drop 16).take 4 }, trunc || o.trunc, false⟩

/-- The part of the specification after Length and IHL have been read. -/
def decodeSpecL (rp : Bool) (old : Layer) (data : Bytes) (length ihl : Nat) : DecOut :=
  let l1 : Layer := { old with length := length, ihl := ihl }
  if length < 20 then ⟨l1, false, true⟩
  else if ihl < 5 then ⟨l1, false, true⟩
  else if ihl * 4 > length then ⟨l1, false, true⟩
  else if data.length > length then specBody rp l1 ihl (data.take length) false
  else if data.length < length then
    if ihl * 4 > data.length then ⟨l1, true, true⟩ else specBody rp l1 ihl data true
  else specBody rp l1 ihl data false

/-- Specification of DecodeFromBytes: a total function of the old layer and the bytes only. -/
def decodeSpec (rp : Bool) (old : Layer) (data : Bytes) : DecOut :=
  if data.length < 20 then ⟨old, true, true⟩
  else
    let lenField := Gp.be16 (getB data 2) (getB data 3)
    decodeSpecL rp old data (if lenField = 0 then data.length % 65536 else lenField)
      ((getB data 0).toNat % 16)

theorem decodeBody_eq (rp : Bool) (l1 : Layer) (ihl : Nat) (d : Sl) (xs : Bytes) (trunc : Bool)
    (hr : Rep d xs) (h5 : 5 ≤ ihl) (h16 : ihl < 16) (hx : ihl * 4 ≤ xs.length) :
    decodeBody rp l1 ihl d trunc = .ok (specBody rp l1 ihl xs trunc) := by
  have hm : (ihl * 4) % 256 = ihl * 4 := by omega
  have hc := hr.sliceTo (b := ihl * 4) hx
  have hp := hr.sliceFrom (a := ihl * 4) hx
  have hh := hr.slice (a := 20) (b := ihl * 4) (by omega) hx
  have hloop := optLoop_eq (ihl * 4 - 20 + 1) _ _ [] hh.2 (by simp [List.length_take, List.length_drop]; omega)
  have i0 := hr.idx (i := 0) (by omega)
  have i1 := hr.idx (i := 1) (by omega)
  have i8 := hr.idx (i := 8) (by omega)
  have i9 := hr.idx (i := 9) (by omega)
  have s68 := hr.slice (a := 6) (b := 8) (by omega) (by omega)
  have s46 := hr.slice (a := 4) (b := 6) (by omega) (by omega)
  have s1012 := hr.slice (a := 10) (b := 12) (by omega) (by omega)
  have s1216 := hr.slice (a := 12) (b := 16) (by omega) (by omega)
  have s1620 := hr.slice (a := 16) (b := 20) (by omega) (by omega)
  have b68 := s68.2.be16 (by simp [List.length_take, List.length_drop]; omega)
  have b46 := s46.2.be16 (by simp [List.length_take, List.length_drop]; omega)
  have b1012 := s1012.2.be16 (by simp [List.length_take, List.length_drop]; omega)
  unfold decodeBody specBody
  simp only [hm, hc.1, hp.1, hh.1, Res.bind_ok, hloop, hc.2.bytes, hp.2.bytes]
  split
  · rfl
  · simp only [s68.1, s46.1, s1012.1, s1216.1, s1620.1, b68, b46, b1012, i0, i1, i8, i9, Res.bind_ok,
      s1216.2.bytes, s1620.2.bytes]
    simp only [List.getElem_take, List.getElem_drop, getB_eq]
    rfl

theorem decodeWith_eq_spec (rp : Bool) (old : Layer) (data foreign : Bytes) :
    decodeWith rp old data foreign = .ok (decodeSpec rp old data) := by
  have hr : Rep ⟨data ++ foreign, data.length⟩ data := rep_mk data foreign
  unfold decodeWith decodeSpec decodeSpecL
  by_cases h20 : data.length < 20
  · simp [h20]
  · simp only [h20, if_false]
    have s24 := hr.slice (a := 2) (b := 4) (by omega) (by omega)
    have b24 := s24.2.be16 (by simp [List.length_take, List.length_drop]; omega)
    have i0 := hr.idx (i := 0) (by omega)
    simp only [s24.1, b24, i0, Res.bind_ok, List.getElem_take, List.getElem_drop, getB_eq]
    generalize hlen : (if Gp.be16 (getB data (2 + 0)) (getB data (2 + 1)) = 0 then data.length % 65536
      else Gp.be16 (getB data (2 + 0)) (getB data (2 + 1))) = length
    have hihl : (getB data 0).toNat % 16 < 16 := Nat.mod_lt _ (by decide)
    generalize (getB data 0).toNat % 16 = ihl at hihl
    have hm : (ihl * 4) % 256 = ihl * 4 := by omega
    simp only [hm]
    by_cases c1 : length < 20
    · simp only [c1, if_true]; rfl
    · by_cases c2 : ihl < 5
      · simp only [c1, c2, if_true, if_false]; rfl
      · by_cases c3 : ihl * 4 > length
        · simp only [c1, c2, c3, if_true, if_false]; rfl
        · simp only [c1, c2, c3, if_false]
          by_cases c4 : data.length > length
          · have st := hr.sliceTo (b := length) (by omega)
            simp only [c4, if_true, st.1, Res.bind_ok]
            exact decodeBody_eq rp _ ihl _ _ false st.2 (by omega) hihl (by simp [List.length_take]; omega)
          · by_cases c5 : data.length < length
            · by_cases c6 : ihl * 4 > data.length
              · simp only [c4, c5, c6, if_true, if_false]; rfl
              · simp only [c4, c5, c6, if_true, if_false]
                exact decodeBody_eq rp _ ihl _ _ true hr (by omega) hihl (by omega)
            · simp only [c4, c5, if_false]
              exact decodeBody_eq rp _ ihl _ _ false hr (by omega) hihl (by omega)

/-! ## Independence of the previous contents of the layer (fix lip4-1 applied) -/

theorem specBody_old_indep (old old' : Layer) (L I : Nat) (d : Bytes) (t : Bool) :
    let a := specBody true { old with length := L, ihl := I } I d t
    let b := specBody true { old' with length := L, ihl := I } I d t
    a.err = b.err ∧ a.trunc = b.trunc ∧ (a.err = false → a.layer = b.layer) := by
  simp only [specBody]
  split <;> simp

theorem decodeSpecL_old_indep (old old' : Layer) (data : Bytes) (L I : Nat) :
    let a := decodeSpecL true old data L I
    let b := decodeSpecL true old' data L I
    a.err = b.err ∧ a.trunc = b.trunc ∧ (a.err = false → a.layer = b.layer) := by
  simp only [decodeSpecL]
  by_cases c1 : L < 20
  · simp [c1]
  by_cases c2 : I < 5
  · simp [c1, c2]
  by_cases c3 : I * 4 > L
  · simp [c1, c2, c3]
  by_cases c4 : data.length > L
  · simp only [c1, c2, c3, c4, if_true, if_false]; exact specBody_old_indep old old' _ _ _ _
  by_cases c5 : data.length < L
  · by_cases c6 : I * 4 > data.length
    · simp [c1, c2, c3, c4, c5, c6]
    · simp only [c1, c2, c3, c4, c5, c6, if_true, if_false]; exact specBody_old_indep old old' _ _ _ _
  · simp only [c1, c2, c3, c4, c5, if_false]; exact specBody_old_indep old old' _ _ _ _

theorem decodeSpec_old_indep (old old' : Layer) (data : Bytes) :
    let a := decodeSpec true old data
    let b := decodeSpec true old' data
    a.err = b.err ∧ a.trunc = b.trunc ∧ (a.err = false → a.layer = b.layer) := by
  simp only [decodeSpec]
  by_cases h : data.length < 20
  · simp [h]
  · simp only [h, if_false]; exact decodeSpecL_old_indep old old' data _ _

/-- Without the Padding reset only the Padding field can differ. -/
theorem specBody_old_indep_orig (old old' : Layer) (L I : Nat) (d : Bytes) (t : Bool)
    (hp : old.padding = old'.padding) :
    let a := specBody false { old with length := L, ihl := I } I d t
    let b := specBody false { old' with length := L, ihl := I } I d t
    a.err = b.err ∧ a.trunc = b.trunc ∧ (a.err = false → a.layer = b.layer) := by
  simp only [specBody]
  split <;> simp [hp]

theorem decodeSpecL_old_indep_orig (old old' : Layer) (data : Bytes) (L I : Nat)
    (hp : old.padding = old'.padding) :
    let a := decodeSpecL false old data L I
    let b := decodeSpecL false old' data L I
    a.err = b.err ∧ a.trunc = b.trunc ∧ (a.err = false → a.layer = b.layer) := by
  simp only [decodeSpecL]
  by_cases c1 : L < 20
  · simp [c1]
  by_cases c2 : I < 5
  · simp [c1, c2]
  by_cases c3 : I * 4 > L
  · simp [c1, c2, c3]
  by_cases c4 : data.length > L
  · simp only [c1, c2, c3, c4, if_true, if_false]; exact specBody_old_indep_orig old old' _ _ _ _ hp
  by_cases c5 : data.length < L
  · by_cases c6 : I * 4 > data.length
    · simp [c1, c2, c3, c4, c5, c6]
    · simp only [c1, c2, c3, c4, c5, c6, if_true, if_false]; exact specBody_old_indep_orig old old' _ _ _ _ hp
  · simp only [c1, c2, c3, c4, c5, if_false]; exact specBody_old_indep_orig old old' _ _ _ _ hp

theorem decodeSpec_old_indep_orig (old old' : Layer) (data : Bytes) (hp : old.padding = old'.padding) :
    let a := decodeSpec false old data
    let b := decodeSpec false old' data
    a.err = b.err ∧ a.trunc = b.trunc ∧ (a.err = false → a.layer = b.layer) := by
  simp only [decodeSpec]
  by_cases h : data.length < 20
  · simp [h]
  · simp only [h, if_false]; exact decodeSpecL_old_indep_orig old old' data _ _ hp

/-! ## Address fields of a decoded layer (C17) -/

theorem take_drop_take (xs : Bytes) (L a n : Nat) (h : a + n ≤ L) :
    ((xs.take L).drop a).take n = (xs.drop a).take n := by
  rw [List.drop_take, List.take_take]
  congr 1; omega

theorem specBody_addrs (rp : Bool) (l1 : Layer) (I : Nat) (d : Bytes) (t : Bool)
    (herr : (specBody rp l1 I d t).err = false) :
    (specBody rp l1 I d t).layer.srcIP = (d.drop 12).take 4 ∧
    (specBody rp l1 I d t).layer.dstIP = (d.drop 16).take 4 := by
  unfold specBody at herr ⊢
  by_cases he : (parseOpts (I * 4 - 20 + 1) ((d.drop 20).take (I * 4 - 20)) []).err = true
  · simp [he] at herr
  · simp [he]

theorem decodeSpec_addrs (rp : Bool) (old : Layer) (data : Bytes) (herr : (decodeSpec rp old data).err = false) :
    (decodeSpec rp old data).layer.srcIP = (data.drop 12).take 4 ∧
    (decodeSpec rp old data).layer.dstIP = (data.drop 16).take 4 ∧ 20 ≤ data.length := by
  unfold decodeSpec at herr ⊢
  by_cases h : data.length < 20
  · simp [h] at herr
  · simp only [h, if_false] at herr ⊢
    unfold decodeSpecL at herr ⊢
    generalize (if Gp.be16 (getB data 2) (getB data 3) = 0 then data.length % 65536
      else Gp.be16 (getB data 2) (getB data 3)) = L at herr ⊢
    generalize (getB data 0).toNat % 16 = I at herr ⊢
    by_cases c1 : L < 20
    · simp [c1] at herr
    by_cases c2 : I < 5
    · simp [c1, c2] at herr
    by_cases c3 : I * 4 > L
    · simp [c1, c2, c3] at herr
    by_cases c4 : data.length > L
    · simp only [c1, c2, c3, c4, if_true, if_false] at herr ⊢
      have := specBody_addrs rp _ I _ false herr
      rw [take_drop_take _ _ _ _ (by omega), take_drop_take _ _ _ _ (by omega)] at this
      exact ⟨this.1, this.2, by omega⟩
    by_cases c5 : data.length < L
    · by_cases c6 : I * 4 > data.length
      · simp [c1, c2, c3, c4, c5, c6] at herr
      · simp only [c1, c2, c3, c4, c5, c6, if_true, if_false] at herr ⊢
        have := specBody_addrs rp _ I _ true herr
        exact ⟨this.1, this.2, by omega⟩
    · simp only [c1, c2, c3, c4, c5, if_false] at herr ⊢
      have := specBody_addrs rp _ I _ false herr
      exact ⟨this.1, this.2, by omega⟩

end Gp.Ip4
