import Gp.Lemmas.Layers.EapSer2
/-
  Helper lemmas for engine `leap`, part 5: byte and bit arithmetic — big-endian words, the bit
  packing of the EAPOL-Key key-information word.  Core Lean only.
-/
namespace Gp.Eap
open Gp Gp.SBuf Gp.Gen.Eap

theorem u8_toNat (n : Nat) : (u8 n).toNat = n % 256 := by
  simp [u8]

theorem be16_putBe16 (n : Nat) (h : n < 65536) : be16 (u8 (n / 256)) (u8 n) = n := by
  unfold be16; rw [u8_toNat, u8_toNat]; omega

theorem be32_putBe32' (n : Nat) :
    be32 (u8 (n / 16777216)) (u8 (n / 65536)) (u8 (n / 256)) (u8 n) = n % 4294967296 := by
  unfold be32; rw [u8_toNat, u8_toNat, u8_toNat, u8_toNat]; omega

theorem be64_putBe64 (n : Nat) (h : n < 18446744073709551616) :
    be64 (u8 (n / 4294967296 / 16777216)) (u8 (n / 4294967296 / 65536)) (u8 (n / 4294967296 / 256)) (u8 (n / 4294967296))
         (u8 (n / 16777216)) (u8 (n / 65536)) (u8 (n / 256)) (u8 n) = n := by
  unfold be64
  rw [be32_putBe32', be32_putBe32']
  omega

/-- `x &&& 2^k` isolates bit `k`. -/
theorem and_two_pow_eq (x k : Nat) : x &&& 2 ^ k = 2 ^ k * (x / 2 ^ k % 2) := by
  have h1 := Nat.and_div_two_pow (a := x) (b := 2 ^ k) (n := k)
  have h2 := Nat.and_mod_two_pow (a := x) (b := 2 ^ k) (n := k)
  rw [Nat.div_self (Nat.two_pow_pos k), Nat.and_one_is_mod] at h1
  rw [Nat.mod_self, Nat.and_zero] at h2
  have := Nat.div_add_mod (x &&& 2 ^ k) (2 ^ k)
  rw [h1, h2, Nat.add_zero] at this
  exact this.symm

/-- `(x & (1<<k)) != 0` is bit `k` of `x`. -/
theorem and_two_pow_ne_zero (x k : Nat) : ((x &&& 2 ^ k) != 0) = decide (x / 2 ^ k % 2 = 1) := by
  rw [and_two_pow_eq]
  rcases Nat.mod_two_eq_zero_or_one (x / 2 ^ k) with h | h
  · rw [h]; simp
  · rw [h]
    have := Nat.two_pow_pos k
    simp

theorem bit6 (x : Nat) : ((x &&& 0x0040) != 0) = decide (x / 64 % 2 = 1) := and_two_pow_ne_zero x 6
theorem bit7 (x : Nat) : ((x &&& 0x0080) != 0) = decide (x / 128 % 2 = 1) := and_two_pow_ne_zero x 7
theorem bit8 (x : Nat) : ((x &&& 0x0100) != 0) = decide (x / 256 % 2 = 1) := and_two_pow_ne_zero x 8
theorem bit9 (x : Nat) : ((x &&& 0x0200) != 0) = decide (x / 512 % 2 = 1) := and_two_pow_ne_zero x 9
theorem bit10 (x : Nat) : ((x &&& 0x0400) != 0) = decide (x / 1024 % 2 = 1) := and_two_pow_ne_zero x 10
theorem bit11 (x : Nat) : ((x &&& 0x0800) != 0) = decide (x / 2048 % 2 = 1) := and_two_pow_ne_zero x 11
theorem bit12 (x : Nat) : ((x &&& 0x1000) != 0) = decide (x / 4096 % 2 = 1) := and_two_pow_ne_zero x 12
theorem bit13 (x : Nat) : ((x &&& 0x2000) != 0) = decide (x / 8192 % 2 = 1) := and_two_pow_ne_zero x 13

theorem and_7 (x : Nat) : x &&& 0x0007 = x % 8 := by
  have : (0x0007 : Nat) = 2 ^ 3 - 1 := by decide
  rw [this, Nat.and_two_pow_sub_one_eq_mod]

theorem and_8_shr (x : Nat) : (x &&& 0x0008) >>> 3 = x / 8 % 2 := by
  rw [Nat.shiftRight_and_distrib]
  have : (0x0008 : Nat) >>> 3 = 2 ^ 1 - 1 := by decide
  rw [this, Nat.and_two_pow_sub_one_eq_mod, Nat.shiftRight_eq_div_pow]

theorem and_30_shr (x : Nat) : (x &&& 0x0030) >>> 4 = x / 16 % 4 := by
  rw [Nat.shiftRight_and_distrib]
  have : (0x0030 : Nat) >>> 4 = 2 ^ 2 - 1 := by decide
  rw [this, Nat.and_two_pow_sub_one_eq_mod, Nat.shiftRight_eq_div_pow]

/-- `if flag { info |= 1<<k }` on a word below `2^k` adds the bit. -/
theorem orFlag_add (x k : Nat) (f : Bool) (h : x < 2 ^ k) :
    orFlag x f (2 ^ k) = x + (if f then 2 ^ k else 0) := by
  unfold orFlag
  cases f
  · simp
  · simp only [if_true]; exact Nat.or_two_pow_eq_add_of_lt h

theorem keyInfo_base : ∀ v, v < 8 → ∀ kt, kt < 2 → ∀ ki, ki < 4 →
    (0 ||| v % 65536 ||| (kt <<< 3) % 65536 ||| (ki <<< 4) % 65536) = v + 8 * kt + 16 * ki := by decide

/-- 0 / 1 for a flag. -/
def bitOf (f : Bool) : Nat := if f then 1 else 0

/-- The key-information word of a layer with in-range version / type / index, as a sum. -/
def keyInfoSum (l : EAPOLKey) : Nat :=
  l.keyDescriptorVersion + 8 * l.keyType + 16 * l.keyIndex + 64 * bitOf l.install + 128 * bitOf l.keyACK +
    256 * bitOf l.keyMIC + 512 * bitOf l.secure + 1024 * bitOf l.micError + 2048 * bitOf l.request +
    4096 * bitOf l.hasEncryptedKeyData + 8192 * bitOf l.smkMessage

theorem bitOf_le (f : Bool) : bitOf f ≤ 1 := by cases f <;> decide

theorem keyInfo_sum (l : EAPOLKey) (hv : l.keyDescriptorVersion < 8) (ht : l.keyType < 2) (hi : l.keyIndex < 4) :
    keyInfo l = keyInfoSum l := by
  unfold keyInfo
  simp only
  rw [keyInfo_base _ hv _ ht _ hi]
  have b1 := bitOf_le l.install; have b2 := bitOf_le l.keyACK; have b3 := bitOf_le l.keyMIC
  have b4 := bitOf_le l.secure; have b5 := bitOf_le l.micError; have b6 := bitOf_le l.request
  have b7 := bitOf_le l.hasEncryptedKeyData; have b8 := bitOf_le l.smkMessage
  have e : ∀ (f : Bool) (m : Nat), (if f then m else 0) = m * bitOf f := by
    intro f m; cases f <;> simp [bitOf]
  rw [show (0x0040 : Nat) = 2 ^ 6 by decide, orFlag_add _ 6 _ (by omega), e]
  rw [show (0x0080 : Nat) = 2 ^ 7 by decide, orFlag_add _ 7 _ (by omega), e]
  rw [show (0x0100 : Nat) = 2 ^ 8 by decide, orFlag_add _ 8 _ (by omega), e]
  rw [show (0x0200 : Nat) = 2 ^ 9 by decide, orFlag_add _ 9 _ (by omega), e]
  rw [show (0x0400 : Nat) = 2 ^ 10 by decide, orFlag_add _ 10 _ (by omega), e]
  rw [show (0x0800 : Nat) = 2 ^ 11 by decide, orFlag_add _ 11 _ (by omega), e]
  rw [show (0x1000 : Nat) = 2 ^ 12 by decide, orFlag_add _ 12 _ (by omega), e]
  rw [show (0x2000 : Nat) = 2 ^ 13 by decide, orFlag_add _ 13 _ (by omega), e]
  unfold keyInfoSum
  omega

theorem decide_bitOf (f : Bool) (x : Nat) (h : x = bitOf f) : decide (x = 1) = f := by
  cases f
  · simp [bitOf] at h; simp [h]
  · simp [bitOf] at h; simp [h]

/-- Unpacking the packed word gives every field back. -/
theorem keyInfoFields_keyInfo (l0 l : EAPOLKey) (hv : l.keyDescriptorVersion < 8) (ht : l.keyType < 2)
    (hi : l.keyIndex < 4) :
    keyInfoFields l0 (keyInfo l) =
      { l0 with keyDescriptorVersion := l.keyDescriptorVersion, keyType := l.keyType, keyIndex := l.keyIndex,
                install := l.install, keyACK := l.keyACK, keyMIC := l.keyMIC, secure := l.secure,
                micError := l.micError, request := l.request, hasEncryptedKeyData := l.hasEncryptedKeyData,
                smkMessage := l.smkMessage } := by
  rw [keyInfo_sum l hv ht hi]
  have b1 := bitOf_le l.install; have b2 := bitOf_le l.keyACK; have b3 := bitOf_le l.keyMIC
  have b4 := bitOf_le l.secure; have b5 := bitOf_le l.micError; have b6 := bitOf_le l.request
  have b7 := bitOf_le l.hasEncryptedKeyData; have b8 := bitOf_le l.smkMessage
  unfold keyInfoFields
  rw [and_7, and_8_shr, and_30_shr, bit6, bit7, bit8, bit9, bit10, bit11, bit12, bit13]
  have f0 : keyInfoSum l % 8 = l.keyDescriptorVersion := by unfold keyInfoSum; omega
  have f1 : keyInfoSum l / 8 % 2 = l.keyType := by unfold keyInfoSum; omega
  have f2 : keyInfoSum l / 16 % 4 = l.keyIndex := by unfold keyInfoSum; omega
  have f3 : decide (keyInfoSum l / 64 % 2 = 1) = l.install := decide_bitOf _ _ (by unfold keyInfoSum; omega)
  have f4 : decide (keyInfoSum l / 128 % 2 = 1) = l.keyACK := decide_bitOf _ _ (by unfold keyInfoSum; omega)
  have f5 : decide (keyInfoSum l / 256 % 2 = 1) = l.keyMIC := decide_bitOf _ _ (by unfold keyInfoSum; omega)
  have f6 : decide (keyInfoSum l / 512 % 2 = 1) = l.secure := decide_bitOf _ _ (by unfold keyInfoSum; omega)
  have f7 : decide (keyInfoSum l / 1024 % 2 = 1) = l.micError := decide_bitOf _ _ (by unfold keyInfoSum; omega)
  have f8 : decide (keyInfoSum l / 2048 % 2 = 1) = l.request := decide_bitOf _ _ (by unfold keyInfoSum; omega)
  have f9 : decide (keyInfoSum l / 4096 % 2 = 1) = l.hasEncryptedKeyData := decide_bitOf _ _ (by unfold keyInfoSum; omega)
  have f10 : decide (keyInfoSum l / 8192 % 2 = 1) = l.smkMessage := decide_bitOf _ _ (by unfold keyInfoSum; omega)
  rw [f0, f1, f2, f3, f4, f5, f6, f7, f8, f9, f10]

theorem keyInfo_lt (l : EAPOLKey) (hv : l.keyDescriptorVersion < 8) (ht : l.keyType < 2) (hi : l.keyIndex < 4) :
    keyInfo l < 16384 := by
  rw [keyInfo_sum l hv ht hi]
  have b1 := bitOf_le l.install; have b2 := bitOf_le l.keyACK; have b3 := bitOf_le l.keyMIC
  have b4 := bitOf_le l.secure; have b5 := bitOf_le l.micError; have b6 := bitOf_le l.request
  have b7 := bitOf_le l.hasEncryptedKeyData; have b8 := bitOf_le l.smkMessage
  unfold keyInfoSum; omega

/-- The fields unpacked from ANY 16-bit word are in range (what every decoded layer satisfies). -/
theorem keyInfoFields_range (l0 : EAPOLKey) (info : Nat) :
    (keyInfoFields l0 info).keyDescriptorVersion < 8 ∧ (keyInfoFields l0 info).keyType < 2 ∧
    (keyInfoFields l0 info).keyIndex < 4 := by
  unfold keyInfoFields
  simp only
  rw [and_7, and_8_shr, and_30_shr]
  omega

end Gp.Eap
