import Gp.Model.Layers.Arp
import Gp.Lemmas.SBuf
/-
  Helper lemmas for engine `larp` (ARP, Loopback, ERSPAN II codecs), part 1: decoding.  Core Lean only.

  Section 1 holds the *definitions* that occur in the statements of the property theorems
  (functional specifications of the three DecodeFromBytes methods); the rest is proof machinery.
-/
namespace Gp.Arp
open Gp Gp.SBuf Gp.Gen.Arp

/-! ## 1. Definitions used in property statements -/

/-- Byte `i` of a byte string (0 for a missing byte; only used where the byte exists). -/
def byteAt (v : Bytes) (i : Nat) : UInt8 := v.getD i 0

/-- Big-endian 16-bit value at offset `i`. -/
def u16At (v : Bytes) (i : Nat) : Nat := be16 (byteAt v i) (byteAt v (i + 1))

/-- Big-endian 32-bit value at offset `i`. -/
def u32At (v : Bytes) (i : Nat) : Nat :=
  be32 (byteAt v i) (byteAt v (i + 1)) (byteAt v (i + 2)) (byteAt v (i + 3))

/-- Little-endian 32-bit value at offset `i`. -/
def u32LeAt (v : Bytes) (i : Nat) : Nat :=
  be32 (byteAt v (i + 3)) (byteAt v (i + 2)) (byteAt v (i + 1)) (byteAt v i)

/-- The two size bytes of an ARP header and the total length they announce. -/
def arpHw (v : Bytes) : Nat := (byteAt v 4).toNat
def arpPr (v : Bytes) : Nat := (byteAt v 5).toNat
def arpLen (v : Bytes) : Nat := 8 + 2 * arpHw v + 2 * arpPr v

/-- The receiver after the five header assignments of `ARP.DecodeFromBytes` (what the second error
    path leaves behind). -/
def arpHdr (old : ARP) (v : Bytes) : ARP :=
  { old with addrType := u16At v 0, protocol := u16At v 2, hwAddressSize := arpHw v,
             protAddressSize := arpPr v, operation := u16At v 6 }

/-- The layer a successful `ARP.DecodeFromBytes` produces: a function of the visible bytes alone. -/
def arpLayer (v : Bytes) : ARP :=
  { contents := v.take (arpLen v), payload := v.drop (arpLen v),
    addrType := u16At v 0, protocol := u16At v 2, hwAddressSize := arpHw v,
    protAddressSize := arpPr v, operation := u16At v 6,
    sourceHwAddress := (v.drop 8).take (arpHw v),
    sourceProtAddress := (v.drop (8 + arpHw v)).take (arpPr v),
    dstHwAddress := (v.drop (8 + arpHw v + arpPr v)).take (arpHw v),
    dstProtAddress := (v.drop (8 + 2 * arpHw v + arpPr v)).take (arpPr v) }

/-- What `ARP.DecodeFromBytes` computes from the visible bytes `v` (|v| ≥ 8) and the receiver. -/
def arpDecSpec (old : ARP) (v : Bytes) : DecOut ARP :=
  if v.length < arpLen v then { layer := arpHdr old v, trunc := true, err := true }
  else { layer := arpLayer v, trunc := false, err := false }

/-- The 32-bit value `Loopback.DecodeFromBytes` reads: big-endian when the first two bytes are zero. -/
def loProt (v : Bytes) : Nat :=
  if byteAt v 0 = 0 ∧ byteAt v 1 = 0 then u32At v 0 else u32LeAt v 0

/-- What `Loopback.DecodeFromBytes` computes from the visible bytes `v` (|v| ≥ 4) and the receiver. -/
def loDecSpec (old : Loopback) (v : Bytes) : DecOut Loopback :=
  if loProt v > 0xFF then { layer := old, trunc := false, err := true }
  else { layer := { contents := v.take 4, payload := v.drop 4, family := loProt v % 256 },
         trunc := false, err := false }

/-- The layer `ERSPANII.DecodeFromBytes` produces from the visible bytes `v` (|v| ≥ 8). -/
def erLayer (v : Bytes) : ERSPANII :=
  { contents := v.take 8, payload := v.drop 8,
    isTruncated := (((byteAt v 2).toNat &&& 0x4) >>> 2 != 0),
    version := ((byteAt v 0).toNat &&& 0xF0) >>> 4,
    cos := ((byteAt v 2).toNat &&& 0xE0) >>> 5,
    trunkEncap := ((byteAt v 2).toNat &&& 0x18) >>> 3,
    vlan := u16At v 0 &&& 0x0FFF,
    sessionID := u16At v 2 &&& 0x03FF,
    reserved := (u16At v 4 &&& 0xFFF0) >>> 4,
    index := u32At v 4 &&& 0x000FFFFF }

def erDecSpec (v : Bytes) : DecOut ERSPANII := { layer := erLayer v, trunc := false, err := false }

/-! ## 2. Go slices -/

theorem GSlice.slice_ok (s : GSlice) (a b : Nat) (hab : a ≤ b) (hb : b ≤ s.len) :
    s.slice a b = .ok { vis := (s.vis.drop a).take (b - a), tail := s.vis.drop b ++ s.tail } := by
  unfold GSlice.slice GSlice.cap
  unfold GSlice.len at hb
  have h1 : a ≤ b ∧ b ≤ s.vis.length + s.tail.length := ⟨hab, by omega⟩
  rw [if_pos h1]
  have ha : a ≤ s.vis.length := by omega
  rw [List.drop_append_of_le_length ha, List.drop_append_of_le_length hb,
    List.take_append_of_le_length (by rw [List.length_drop]; omega)]

theorem GSlice.sliceFrom_ok (s : GSlice) (a : Nat) (ha : a ≤ s.len) :
    s.sliceFrom a = .ok { vis := s.vis.drop a, tail := s.tail } := by
  unfold GSlice.sliceFrom; rw [if_pos ha]

theorem GSlice.index_ok (s : GSlice) (i : Nat) (h : i < s.len) :
    s.index i = .ok (byteAt s.vis i) := by
  unfold GSlice.index Gp.index byteAt
  have h' : i < s.vis.length := h
  simp [List.getD_eq_getElem?_getD, h']

/-- The two-byte window `[i, i+2)` of a long enough byte string. -/
theorem two_bytes (v : Bytes) (i : Nat) (h : i + 2 ≤ v.length) :
    (v.drop i).take 2 = [byteAt v i, byteAt v (i + 1)] := by
  have h0 : i < v.length := by omega
  have h1 : i + 1 < v.length := by omega
  have e : v.drop i = v[i] :: v[i+1] :: v.drop (i+2) := by
    rw [List.drop_eq_getElem_cons h0, List.drop_eq_getElem_cons h1]
  rw [e]
  simp only [byteAt, List.take_succ_cons, List.take_zero, List.getD_eq_getElem?_getD,
    List.getElem?_eq_getElem h0, List.getElem?_eq_getElem h1, Option.getD_some]

/-- The four-byte window `[i, i+4)`. -/
theorem four_bytes (v : Bytes) (i : Nat) (h : i + 4 ≤ v.length) :
    (v.drop i).take 4 = [byteAt v i, byteAt v (i + 1), byteAt v (i + 2), byteAt v (i + 3)] := by
  have h0 : i < v.length := by omega
  have h1 : i + 1 < v.length := by omega
  have h2 : i + 2 < v.length := by omega
  have h3 : i + 3 < v.length := by omega
  have e : v.drop i = v[i] :: v[i+1] :: v[i+2] :: v[i+3] :: v.drop (i+4) := by
    rw [List.drop_eq_getElem_cons h0, List.drop_eq_getElem_cons h1, List.drop_eq_getElem_cons h2,
      List.drop_eq_getElem_cons h3]
  rw [e]
  simp only [byteAt, List.take_succ_cons, List.take_zero, List.getD_eq_getElem?_getD,
    List.getElem?_eq_getElem h0, List.getElem?_eq_getElem h1, List.getElem?_eq_getElem h2,
    List.getElem?_eq_getElem h3, Option.getD_some]

theorem uint16_two (a b : UInt8) (t : Bytes) : uint16 { vis := [a, b], tail := t } = .ok (be16 a b) := by
  simp [uint16, GSlice.index, Gp.index, bind, Res.bind, pure]

theorem uint32be_four (a b c d : UInt8) (t : Bytes) :
    uint32be { vis := [a, b, c, d], tail := t } = .ok (be32 a b c d) := by
  simp [uint32be, GSlice.index, Gp.index, bind, Res.bind, pure]

theorem uint32le_four (a b c d : UInt8) (t : Bytes) :
    uint32le { vis := [a, b, c, d], tail := t } = .ok (be32 d c b a) := by
  simp [uint32le, GSlice.index, Gp.index, bind, Res.bind, pure]

theorem uint16_vis (v t : Bytes) (i : Nat) (h : i + 2 ≤ v.length) :
    uint16 { vis := (v.drop i).take 2, tail := t } = .ok (u16At v i) := by
  rw [two_bytes v i h]; exact uint16_two _ _ _

theorem uint32be_vis (v t : Bytes) (i : Nat) (h : i + 4 ≤ v.length) :
    uint32be { vis := (v.drop i).take 4, tail := t } = .ok (u32At v i) := by
  rw [four_bytes v i h]; exact uint32be_four _ _ _ _ _

theorem uint32le_vis (v t : Bytes) (i : Nat) (h : i + 4 ≤ v.length) :
    uint32le { vis := (v.drop i).take 4, tail := t } = .ok (u32LeAt v i) := by
  rw [four_bytes v i h]; exact uint32le_four _ _ _ _ _

theorem be16_lt (a b : UInt8) : be16 a b < 65536 := by
  have := a.toNat_lt; have := b.toNat_lt
  unfold be16; omega

theorem be32_lt (a b c d : UInt8) : be32 a b c d < 4294967296 := by
  have := a.toNat_lt; have := b.toNat_lt; have := c.toNat_lt; have := d.toNat_lt
  unfold be32; omega

theorem u16At_lt (v : Bytes) (i : Nat) : u16At v i < 65536 := be16_lt _ _
theorem u32At_lt (v : Bytes) (i : Nat) : u32At v i < 4294967296 := be32_lt _ _ _ _

/-! ## 3. DecodeFromBytes = its functional specification -/

theorem ARP.decode_short (old : ARP) (d : GSlice) (h : d.len < 8) :
    old.decodeFromBytes d = .ok { layer := old, trunc := true, err := true } := by
  unfold ARP.decodeFromBytes; rw [if_pos h]

theorem ARP.decode_long (old : ARP) (d : GSlice) (h : 8 ≤ d.len) :
    old.decodeFromBytes d = .ok (arpDecSpec old d.vis) := by
  have hl : 8 ≤ d.vis.length := h
  unfold ARP.decodeFromBytes
  rw [if_neg (by omega)]
  rw [GSlice.slice_ok d 0 2 (by omega) (by omega), Res.bind_ok]
  simp only [Nat.reduceSub]
  rw [uint16_vis d.vis _ 0 (by omega), Res.bind_ok]
  rw [GSlice.slice_ok d 2 4 (by omega) (by omega), Res.bind_ok]
  simp only [Nat.reduceSub]
  rw [uint16_vis d.vis _ 2 (by omega), Res.bind_ok]
  rw [GSlice.index_ok d 4 (by omega), Res.bind_ok]
  rw [GSlice.index_ok d 5 (by omega), Res.bind_ok]
  rw [GSlice.slice_ok d 6 8 (by omega) (by omega), Res.bind_ok]
  simp only [Nat.reduceSub]
  rw [uint16_vis d.vis _ 6 (by omega), Res.bind_ok]
  unfold arpDecSpec
  have ehw : (byteAt d.vis 4).toNat = arpHw d.vis := rfl
  have epr : (byteAt d.vis 5).toNat = arpPr d.vis := rfl
  simp only [ehw, epr]
  have eL : 8 + 2 * arpHw d.vis + 2 * arpPr d.vis = arpLen d.vis := rfl
  rw [eL]
  by_cases hlt : d.len < arpLen d.vis
  · rw [if_pos hlt, if_pos (show d.vis.length < arpLen d.vis from hlt)]
    rfl
  · rw [if_neg hlt, if_neg (show ¬ d.vis.length < arpLen d.vis from hlt)]
    have hL : arpLen d.vis ≤ d.len := by omega
    simp only [arpLayer]
    have hLd : arpLen d.vis = 8 + 2 * arpHw d.vis + 2 * arpPr d.vis := rfl
    generalize arpHw d.vis = hw at *
    generalize arpPr d.vis = pr at *
    rw [GSlice.slice_ok d 8 (8 + hw) (by omega) (by omega), Res.bind_ok]
    rw [GSlice.slice_ok d (8 + hw) (8 + hw + pr) (by omega) (by omega), Res.bind_ok]
    rw [GSlice.slice_ok d (8 + hw + pr) (8 + 2 * hw + pr) (by omega) (by omega), Res.bind_ok]
    rw [GSlice.slice_ok d (8 + 2 * hw + pr) (arpLen d.vis) (by omega) (by omega), Res.bind_ok]
    rw [GSlice.slice_ok d 0 (arpLen d.vis) (by omega) (by omega), Res.bind_ok]
    rw [GSlice.sliceFrom_ok d (arpLen d.vis) hL, Res.bind_ok]
    have e1 : 8 + hw - 8 = hw := by omega
    have e2 : 8 + hw + pr - (8 + hw) = pr := by omega
    have e3 : 8 + 2 * hw + pr - (8 + hw + pr) = hw := by omega
    have e4 : arpLen d.vis - (8 + 2 * hw + pr) = pr := by omega
    simp only [e1, e2, e3, e4, List.drop_zero, Nat.sub_zero, pure]

theorem ARP.decode_vis (old : ARP) (v foreign : Bytes) (h : 8 ≤ v.length) :
    old.decodeFromBytes { vis := v, tail := foreign } = .ok (arpDecSpec old v) :=
  ARP.decode_long old { vis := v, tail := foreign } h

theorem Loopback.decode_short (old : Loopback) (d : GSlice) (h : d.len < 4) :
    old.decodeFromBytes d = .ok { layer := old, trunc := false, err := true } := by
  unfold Loopback.decodeFromBytes; rw [if_pos h]

theorem loReadProt_ok (d : GSlice) (h : 4 ≤ d.len) : loReadProt d = .ok (loProt d.vis) := by
  have hl : 4 ≤ d.vis.length := h
  unfold loReadProt loBigEndian loProt
  rw [GSlice.index_ok d 0 (by omega), Res.bind_ok, GSlice.index_ok d 1 (by omega)]
  by_cases h0 : byteAt d.vis 0 = 0
  · by_cases h1 : byteAt d.vis 1 = 0
    · simp only [h0, h1, if_true, Res.bind_ok, pure, decide_true, and_self]
      rw [GSlice.slice_ok d 0 4 (by omega) (by omega), Res.bind_ok]
      simp only [Nat.sub_zero]
      rw [uint32be_vis d.vis _ 0 (by omega)]
    · simp only [h0, h1, if_true, Res.bind_ok, pure, decide_false, and_false, if_false,
        Bool.false_eq_true]
      rw [GSlice.slice_ok d 0 4 (by omega) (by omega), Res.bind_ok]
      simp only [Nat.sub_zero]
      rw [uint32le_vis d.vis _ 0 (by omega)]
  · simp only [h0, if_false, Res.bind_ok, pure, false_and, Bool.false_eq_true]
    rw [GSlice.slice_ok d 0 4 (by omega) (by omega), Res.bind_ok]
    simp only [Nat.sub_zero]
    rw [uint32le_vis d.vis _ 0 (by omega)]

theorem Loopback.decode_long (old : Loopback) (d : GSlice) (h : 4 ≤ d.len) :
    old.decodeFromBytes d = .ok (loDecSpec old d.vis) := by
  have hl : 4 ≤ d.vis.length := h
  unfold Loopback.decodeFromBytes
  rw [if_neg (by omega), loReadProt_ok d h, Res.bind_ok]
  unfold loDecSpec
  by_cases hp : loProt d.vis > 0xFF
  · rw [if_pos hp, if_pos hp, GSlice.slice_ok d 0 4 (by omega) (by omega), Res.bind_ok]; rfl
  · rw [if_neg hp, if_neg hp, GSlice.slice_ok d 0 4 (by omega) (by omega), Res.bind_ok,
      GSlice.sliceFrom_ok d 4 h, Res.bind_ok]
    simp only [List.drop_zero, Nat.sub_zero, pure]

theorem Loopback.decode_vis (old : Loopback) (v foreign : Bytes) (h : 4 ≤ v.length) :
    old.decodeFromBytes { vis := v, tail := foreign } = .ok (loDecSpec old v) :=
  Loopback.decode_long old { vis := v, tail := foreign } h

theorem ERSPANII.decode_short (old : ERSPANII) (d : GSlice) (h : d.len < 8) :
    old.decodeFromBytes d = .ok { layer := old, trunc := true, err := true } := by
  unfold ERSPANII.decodeFromBytes; simp only; rw [if_pos h]

theorem ERSPANII.decode_long (old : ERSPANII) (d : GSlice) (h : 8 ≤ d.len) :
    old.decodeFromBytes d = .ok (erDecSpec d.vis) := by
  have hl : 8 ≤ d.vis.length := h
  unfold ERSPANII.decodeFromBytes
  simp only
  rw [if_neg (by omega)]
  rw [GSlice.index_ok d 0 (by omega), Res.bind_ok]
  rw [GSlice.slice_ok d 0 2 (by omega) (by omega), Res.bind_ok]
  simp only [Nat.reduceSub]
  rw [uint16_vis d.vis _ 0 (by omega), Res.bind_ok]
  rw [GSlice.index_ok d 2 (by omega), Res.bind_ok, Res.bind_ok, Res.bind_ok]
  rw [GSlice.slice_ok d 2 4 (by omega) (by omega), Res.bind_ok]
  simp only [Nat.reduceSub]
  rw [uint16_vis d.vis _ 2 (by omega), Res.bind_ok]
  rw [GSlice.slice_ok d 4 6 (by omega) (by omega), Res.bind_ok]
  simp only [Nat.reduceSub]
  rw [uint16_vis d.vis _ 4 (by omega), Res.bind_ok]
  rw [GSlice.slice_ok d 4 8 (by omega) (by omega), Res.bind_ok]
  simp only [Nat.reduceSub]
  rw [uint32be_vis d.vis _ 4 (by omega), Res.bind_ok]
  rw [GSlice.slice_ok d 0 8 (by omega) (by omega), Res.bind_ok]
  rw [GSlice.sliceFrom_ok d 8 h, Res.bind_ok]
  simp only [List.drop_zero, Nat.sub_zero, pure, erDecSpec, erLayer]

theorem ERSPANII.decode_vis (old : ERSPANII) (v foreign : Bytes) (h : 8 ≤ v.length) :
    old.decodeFromBytes { vis := v, tail := foreign } = .ok (erDecSpec v) :=
  ERSPANII.decode_long old { vis := v, tail := foreign } h

/-! ## 4. Facts about the specifications -/

theorem arpDecSpec_payload_le (old : ARP) (v : Bytes) (h : (arpDecSpec old v).err = false) :
    (arpDecSpec old v).layer.payload.length + 8 ≤ v.length := by
  unfold arpDecSpec at h ⊢
  by_cases hlt : v.length < arpLen v
  · rw [if_pos hlt] at h; cases h
  · rw [if_neg hlt]
    simp only [arpLayer, List.length_drop]
    unfold arpLen at hlt ⊢; omega

theorem loDecSpec_payload_le (old : Loopback) (v : Bytes) (h4 : 4 ≤ v.length)
    (h : (loDecSpec old v).err = false) : (loDecSpec old v).layer.payload.length + 4 ≤ v.length := by
  unfold loDecSpec at h ⊢
  by_cases hp : loProt v > 0xFF
  · rw [if_pos hp] at h; cases h
  · rw [if_neg hp]; simp only [List.length_drop]; omega

theorem erDecSpec_payload_le (v : Bytes) (h8 : 8 ≤ v.length) :
    (erDecSpec v).layer.payload.length + 8 ≤ v.length := by
  simp only [erDecSpec, erLayer, List.length_drop]; omega

/-! ## 5. The DecodingLayerParser loop over {ARP, Loopback, ERSPANII} -/

theorem lt_ne_1 : ¬ (LayerTypeLoopback = LayerTypeARP) := by decide
theorem lt_ne_2 : ¬ (LayerTypeERSPANII = LayerTypeARP) := by decide
theorem lt_ne_3 : ¬ (LayerTypeERSPANII = LayerTypeLoopback) := by decide

/-- One iteration of the parser loop on an ARP layer, in terms of the decode specification. -/
theorem dlpLoop_arp (fuel : Nat) (st : DlpState) (data : GSlice) :
    dlpLoop (fuel + 1) st LayerTypeARP data =
      if data.len < 8 then .ok ({ st with trunc := st.trunc || true }, 1)
      else
        let o := arpDecSpec st.arp data.vis
        let st1 : DlpState := { st with arp := o.layer, trunc := st.trunc || o.trunc }
        if o.err then .ok (st1, 1) else
        let st' : DlpState := { st1 with decoded := st.decoded ++ [LayerTypeARP] }
        let rest : GSlice := { vis := o.layer.payload, tail := data.tail }
        if rest.len = 0 then .ok (st', 0) else dlpLoop fuel st' o.layer.nextLayerType rest := by
  by_cases h : data.len < 8
  · rw [if_pos h]
    unfold dlpLoop
    simp only [if_true, ARP.decode_short st.arp data h]
  · rw [if_neg h]
    conv => lhs; unfold dlpLoop
    simp only [if_true, ARP.decode_long st.arp data (by omega)]
    all_goals rfl

theorem dlpLoop_lo (fuel : Nat) (st : DlpState) (data : GSlice) :
    dlpLoop (fuel + 1) st LayerTypeLoopback data =
      if data.len < 4 then .ok ({ st with trunc := st.trunc || false }, 1)
      else
        let o := loDecSpec st.loopback data.vis
        let st1 : DlpState := { st with loopback := o.layer, trunc := st.trunc || o.trunc }
        if o.err then .ok (st1, 1) else
        let st' : DlpState := { st1 with decoded := st.decoded ++ [LayerTypeLoopback] }
        let rest : GSlice := { vis := o.layer.payload, tail := data.tail }
        if rest.len = 0 then .ok (st', 0) else dlpLoop fuel st' o.layer.nextLayerType rest := by
  by_cases h : data.len < 4
  · rw [if_pos h]
    unfold dlpLoop
    simp only [lt_ne_1, if_false, if_true, Loopback.decode_short st.loopback data h]
  · rw [if_neg h]
    conv => lhs; unfold dlpLoop
    simp only [lt_ne_1, if_false, if_true, Loopback.decode_long st.loopback data (by omega)]
    all_goals rfl

theorem dlpLoop_er (fuel : Nat) (st : DlpState) (data : GSlice) :
    dlpLoop (fuel + 1) st LayerTypeERSPANII data =
      if data.len < 8 then .ok ({ st with trunc := st.trunc || true }, 1)
      else
        let o := erDecSpec data.vis
        let st' : DlpState := { st with erspan := o.layer, trunc := st.trunc || o.trunc,
                                        decoded := st.decoded ++ [LayerTypeERSPANII] }
        let rest : GSlice := { vis := o.layer.payload, tail := data.tail }
        if rest.len = 0 then .ok (st', 0) else dlpLoop fuel st' o.layer.nextLayerType rest := by
  by_cases h : data.len < 8
  · rw [if_pos h]
    unfold dlpLoop
    simp only [lt_ne_2, lt_ne_3, if_false, if_true, ERSPANII.decode_short st.erspan data h]
  · rw [if_neg h]
    conv => lhs; unfold dlpLoop
    simp only [lt_ne_2, lt_ne_3, if_false, if_true, ERSPANII.decode_long st.erspan data (by omega)]
    all_goals rfl

theorem dlpLoop_other (fuel : Nat) (st : DlpState) (typ : Nat) (data : GSlice)
    (h1 : typ ≠ LayerTypeARP) (h2 : typ ≠ LayerTypeLoopback) (h3 : typ ≠ LayerTypeERSPANII) :
    dlpLoop (fuel + 1) st typ data = if typ = LayerTypeZero then .ok (st, 0) else .ok (st, 2) := by
  unfold dlpLoop
  simp only [h1, h2, h3, if_false]

theorem dlpLoop_no_panic (fuel : Nat) (st : DlpState) (typ : Nat) (data : GSlice) (k : PanicKind) :
    dlpLoop fuel st typ data ≠ .panic k := by
  induction fuel generalizing st typ data with
  | zero => unfold dlpLoop; exact fun h => nomatch h
  | succ fuel ih =>
    by_cases h1 : typ = LayerTypeARP
    · subst h1; rw [dlpLoop_arp]
      split
      · exact fun h => nomatch h
      · simp only; split
        · exact fun h => nomatch h
        · split
          · exact fun h => nomatch h
          · exact ih _ _ _
    · by_cases h2 : typ = LayerTypeLoopback
      · subst h2; rw [dlpLoop_lo]
        split
        · exact fun h => nomatch h
        · simp only; split
          · exact fun h => nomatch h
          · split
            · exact fun h => nomatch h
            · exact ih _ _ _
      · by_cases h3 : typ = LayerTypeERSPANII
        · subst h3; rw [dlpLoop_er]
          split
          · exact fun h => nomatch h
          · simp only; split
            · exact fun h => nomatch h
            · exact ih _ _ _
        · rw [dlpLoop_other _ _ _ _ h1 h2 h3]; split <;> exact fun h => nomatch h

/-- The fuel `|data| + 1` of `dlpDecodeLayers` suffices: any two amounts of fuel above the input
    length give the same run (each iteration consumes at least 4 bytes). -/
theorem dlpLoop_fuel (f1 f2 : Nat) (st : DlpState) (typ : Nat) (data : GSlice)
    (h1 : data.len < f1) (h2 : data.len < f2) :
    dlpLoop f1 st typ data = dlpLoop f2 st typ data := by
  induction f1 generalizing f2 st typ data with
  | zero => omega
  | succ f1 ih =>
    cases f2 with
    | zero => omega
    | succ f2 =>
      by_cases e1 : typ = LayerTypeARP
      · subst e1; rw [dlpLoop_arp, dlpLoop_arp]
        by_cases hs : data.len < 8
        · rw [if_pos hs, if_pos hs]
        · rw [if_neg hs, if_neg hs]
          simp only
          by_cases he : (arpDecSpec st.arp data.vis).err = true
          · rw [if_pos he, if_pos he]
          · rw [if_neg he, if_neg he]
            have hp := arpDecSpec_payload_le st.arp data.vis (by simpa using he)
            split
            · rfl
            · exact ih _ _ _ _ (by unfold GSlice.len at *; simp only; omega) (by unfold GSlice.len at *; simp only; omega)
      · by_cases e2 : typ = LayerTypeLoopback
        · subst e2; rw [dlpLoop_lo, dlpLoop_lo]
          by_cases hs : data.len < 4
          · rw [if_pos hs, if_pos hs]
          · rw [if_neg hs, if_neg hs]
            simp only
            by_cases he : (loDecSpec st.loopback data.vis).err = true
            · rw [if_pos he, if_pos he]
            · rw [if_neg he, if_neg he]
              have hp := loDecSpec_payload_le st.loopback data.vis (by unfold GSlice.len at hs; omega) (by simpa using he)
              split
              · rfl
              · exact ih _ _ _ _ (by unfold GSlice.len at *; simp only; omega) (by unfold GSlice.len at *; simp only; omega)
        · by_cases e3 : typ = LayerTypeERSPANII
          · subst e3; rw [dlpLoop_er, dlpLoop_er]
            by_cases hs : data.len < 8
            · rw [if_pos hs, if_pos hs]
            · rw [if_neg hs, if_neg hs]
              simp only
              have hp := erDecSpec_payload_le data.vis (by unfold GSlice.len at hs; omega)
              split
              · rfl
              · exact ih _ _ _ _ (by unfold GSlice.len at *; simp only; omega) (by unfold GSlice.len at *; simp only; omega)
          · rw [dlpLoop_other _ _ _ _ e1 e2 e3, dlpLoop_other _ _ _ _ e1 e2 e3]

/-- The result of the parser loop does not depend on the capacity of the packet buffer / the bytes
    behind the input. -/
theorem dlpLoop_cap (fuel : Nat) (st : DlpState) (typ : Nat) (v t1 t2 : Bytes) :
    dlpLoop fuel st typ { vis := v, tail := t1 } = dlpLoop fuel st typ { vis := v, tail := t2 } := by
  induction fuel generalizing st typ v t1 t2 with
  | zero => unfold dlpLoop; rfl
  | succ fuel ih =>
    have hlen : ∀ (p a b : Bytes), GSlice.len { vis := p, tail := a } = GSlice.len { vis := p, tail := b } :=
      fun _ _ _ => rfl
    by_cases e1 : typ = LayerTypeARP
    · subst e1; rw [dlpLoop_arp, dlpLoop_arp]
      simp only [hlen v t1 t2]
      split
      · rfl
      · split
        · rfl
        · simp only [hlen _ t1 t2]
          split
          · rfl
          · exact ih _ _ _ _ _
    · by_cases e2 : typ = LayerTypeLoopback
      · subst e2; rw [dlpLoop_lo, dlpLoop_lo]
        simp only [hlen v t1 t2]
        split
        · rfl
        · split
          · rfl
          · simp only [hlen _ t1 t2]
            split
            · rfl
            · exact ih _ _ _ _ _
      · by_cases e3 : typ = LayerTypeERSPANII
        · subst e3; rw [dlpLoop_er, dlpLoop_er]
          simp only [hlen v t1 t2]
          split
          · rfl
          · simp only [hlen _ t1 t2]
            split
            · rfl
            · exact ih _ _ _ _ _
        · rw [dlpLoop_other _ _ _ _ e1 e2 e3, dlpLoop_other _ _ _ _ e1 e2 e3]

/-- Two parser states agree on everything a caller may rely on after DecodeLayers: the decoded type
    list, the truncation flag, and the contents of every layer object whose type is in the list. -/
def DlpAgree (s1 s2 : DlpState) : Prop :=
  s1.decoded = s2.decoded ∧ s1.trunc = s2.trunc ∧
  (LayerTypeARP ∈ s1.decoded → s1.arp = s2.arp) ∧
  (LayerTypeLoopback ∈ s1.decoded → s1.loopback = s2.loopback) ∧
  (LayerTypeERSPANII ∈ s1.decoded → s1.erspan = s2.erspan)

theorem arpDecSpec_err_indep (a b : ARP) (v : Bytes) : (arpDecSpec a v).err = (arpDecSpec b v).err ∧
    (arpDecSpec a v).trunc = (arpDecSpec b v).trunc ∧
    ((arpDecSpec a v).err = false → (arpDecSpec a v).layer = (arpDecSpec b v).layer) := by
  unfold arpDecSpec
  by_cases h : v.length < arpLen v
  · rw [if_pos h, if_pos h]; exact ⟨rfl, rfl, fun hh => by cases hh⟩
  · rw [if_neg h, if_neg h]; exact ⟨rfl, rfl, fun _ => rfl⟩

theorem loDecSpec_err_indep (a b : Loopback) (v : Bytes) : (loDecSpec a v).err = (loDecSpec b v).err ∧
    (loDecSpec a v).trunc = (loDecSpec b v).trunc ∧
    ((loDecSpec a v).err = false → (loDecSpec a v).layer = (loDecSpec b v).layer) := by
  unfold loDecSpec
  by_cases h : loProt v > 0xFF
  · rw [if_pos h, if_pos h]; exact ⟨rfl, rfl, fun hh => by cases hh⟩
  · rw [if_neg h, if_neg h]; exact ⟨rfl, rfl, fun _ => rfl⟩

theorem dlpLoop_agree (fuel : Nat) (s1 s2 : DlpState) (typ : Nat) (data : GSlice) (h : DlpAgree s1 s2) :
    ∃ r1 r2 c, dlpLoop fuel s1 typ data = .ok (r1, c) ∧ dlpLoop fuel s2 typ data = .ok (r2, c) ∧
      DlpAgree r1 r2 := by
  induction fuel generalizing s1 s2 typ data with
  | zero => exact ⟨s1, s2, 0, by unfold dlpLoop; rfl, by unfold dlpLoop; rfl, h⟩
  | succ fuel ih =>
    obtain ⟨hd, ht, ha, hl, he⟩ := h
    by_cases e1 : typ = LayerTypeARP
    · subst e1; rw [dlpLoop_arp, dlpLoop_arp]
      by_cases hs : data.len < 8
      · rw [if_pos hs, if_pos hs]
        exact ⟨_, _, 1, rfl, rfl, hd, by simp only [ht], ha, hl, he⟩
      · rw [if_neg hs, if_neg hs]
        simp only
        obtain ⟨x1, x2, x3⟩ := arpDecSpec_err_indep s1.arp s2.arp data.vis
        by_cases hee : (arpDecSpec s1.arp data.vis).err = true
        · have hee2 : (arpDecSpec s2.arp data.vis).err = true := by rw [← x1]; exact hee
          rw [if_pos hee, if_pos hee2]
          refine ⟨_, _, 1, rfl, rfl, hd, by simp only [ht, x2], fun hm => ?_, hl, he⟩
          simp only
          rw [ha hm]
        · have hef : (arpDecSpec s1.arp data.vis).err = false := by simpa using hee
          have hee2 : ¬ (arpDecSpec s2.arp data.vis).err = true := by rw [← x1]; exact hee
          rw [if_neg hee, if_neg hee2, ← x3 hef]
          have hag : DlpAgree
              { s1 with arp := (arpDecSpec s1.arp data.vis).layer, trunc := s1.trunc || (arpDecSpec s1.arp data.vis).trunc,
                        decoded := s1.decoded ++ [LayerTypeARP] }
              { s2 with arp := (arpDecSpec s1.arp data.vis).layer, trunc := s2.trunc || (arpDecSpec s2.arp data.vis).trunc,
                        decoded := s2.decoded ++ [LayerTypeARP] } := by
            refine ⟨by simp only [hd], by simp only [ht, x2], fun _ => rfl, fun hm => ?_, fun hm => ?_⟩
            · simp only [List.mem_append, List.mem_singleton] at hm
              rcases hm with hm | hm
              · exact hl hm
              · exact absurd hm lt_ne_1
            · simp only [List.mem_append, List.mem_singleton] at hm
              rcases hm with hm | hm
              · exact he hm
              · exact absurd hm lt_ne_2
          split
          · exact ⟨_, _, 0, rfl, rfl, hag⟩
          · exact ih _ _ _ _ hag
    · by_cases e2 : typ = LayerTypeLoopback
      · subst e2; rw [dlpLoop_lo, dlpLoop_lo]
        by_cases hs : data.len < 4
        · rw [if_pos hs, if_pos hs]
          exact ⟨_, _, 1, rfl, rfl, hd, by simp only [ht], ha, hl, he⟩
        · rw [if_neg hs, if_neg hs]
          simp only
          obtain ⟨x1, x2, x3⟩ := loDecSpec_err_indep s1.loopback s2.loopback data.vis
          by_cases hee : (loDecSpec s1.loopback data.vis).err = true
          · have hee2 : (loDecSpec s2.loopback data.vis).err = true := by rw [← x1]; exact hee
            rw [if_pos hee, if_pos hee2]
            refine ⟨_, _, 1, rfl, rfl, hd, by simp only [ht, x2], ha, fun hm => ?_, he⟩
            simp only
            have hold : ∀ o : Loopback, (loDecSpec o data.vis).err = true → (loDecSpec o data.vis).layer = o := by
              intro o ho
              unfold loDecSpec at ho ⊢
              by_cases hp : loProt data.vis > 0xFF
              · rw [if_pos hp]
              · rw [if_neg hp] at ho; cases ho
            rw [hold _ hee, hold _ hee2]
            exact hl hm
          · have hef : (loDecSpec s1.loopback data.vis).err = false := by simpa using hee
            have hee2 : ¬ (loDecSpec s2.loopback data.vis).err = true := by rw [← x1]; exact hee
            rw [if_neg hee, if_neg hee2, ← x3 hef]
            have hag : DlpAgree
                { s1 with loopback := (loDecSpec s1.loopback data.vis).layer, trunc := s1.trunc || (loDecSpec s1.loopback data.vis).trunc,
                          decoded := s1.decoded ++ [LayerTypeLoopback] }
                { s2 with loopback := (loDecSpec s1.loopback data.vis).layer, trunc := s2.trunc || (loDecSpec s2.loopback data.vis).trunc,
                          decoded := s2.decoded ++ [LayerTypeLoopback] } := by
              refine ⟨by simp only [hd], by simp only [ht, x2], fun hm => ?_, fun _ => rfl, fun hm => ?_⟩
              · simp only [List.mem_append, List.mem_singleton] at hm
                rcases hm with hm | hm
                · exact ha hm
                · exact absurd hm.symm lt_ne_1
              · simp only [List.mem_append, List.mem_singleton] at hm
                rcases hm with hm | hm
                · exact he hm
                · exact absurd hm lt_ne_3
            split
            · exact ⟨_, _, 0, rfl, rfl, hag⟩
            · exact ih _ _ _ _ hag
      · by_cases e3 : typ = LayerTypeERSPANII
        · subst e3; rw [dlpLoop_er, dlpLoop_er]
          by_cases hs : data.len < 8
          · rw [if_pos hs, if_pos hs]
            exact ⟨_, _, 1, rfl, rfl, hd, by simp only [ht], ha, hl, he⟩
          · rw [if_neg hs, if_neg hs]
            simp only
            have hag : DlpAgree
                { s1 with erspan := (erDecSpec data.vis).layer, trunc := s1.trunc || (erDecSpec data.vis).trunc,
                          decoded := s1.decoded ++ [LayerTypeERSPANII] }
                { s2 with erspan := (erDecSpec data.vis).layer, trunc := s2.trunc || (erDecSpec data.vis).trunc,
                          decoded := s2.decoded ++ [LayerTypeERSPANII] } := by
              refine ⟨by simp only [hd], by simp only [ht], fun hm => ?_, fun hm => ?_, fun _ => rfl⟩
              · simp only [List.mem_append, List.mem_singleton] at hm
                rcases hm with hm | hm
                · exact ha hm
                · exact absurd hm.symm lt_ne_2
              · simp only [List.mem_append, List.mem_singleton] at hm
                rcases hm with hm | hm
                · exact hl hm
                · exact absurd hm.symm lt_ne_3
            split
            · exact ⟨_, _, 0, rfl, rfl, hag⟩
            · exact ih _ _ _ _ hag
        · rw [dlpLoop_other _ _ _ _ e1 e2 e3, dlpLoop_other _ _ _ _ e1 e2 e3]
          split
          · exact ⟨_, _, 0, rfl, rfl, hd, ht, ha, hl, he⟩
          · exact ⟨_, _, 2, rfl, rfl, hd, ht, ha, hl, he⟩

end Gp.Arp
