import Gp.Model.Layers.Mod
/-
  Helper lemmas for engine `lmod` (ModbusTCP, LCM, PFLog, FDDI decoders), part 1: the functional
  specifications of the four decoders and the proof that the statement-by-statement models compute
  them.  Core Lean only.

  Section 1 holds the *definitions* that occur in the statements of the property theorems; the rest
  is proof machinery.
-/
namespace Gp.Mod
open Gp Gp.Gen.Mod

/-! ## 1. Definitions used in property statements -/

/-- Byte `i` of a byte string (0 for a missing byte; only used where the byte exists). -/
def byteAt (v : Bytes) (i : Nat) : UInt8 := v.getD i 0

/-- Big-endian 16-bit value at offset `i`. -/
def u16At (v : Bytes) (i : Nat) : Nat := be16 (byteAt v i) (byteAt v (i + 1))

/-- Big-endian 32-bit value at offset `i`. -/
def u32At (v : Bytes) (i : Nat) : Nat :=
  be32 (byteAt v i) (byteAt v (i + 1)) (byteAt v (i + 2)) (byteAt v (i + 3))

/-- Big-endian 64-bit value at offset `i`. -/
def u64At (v : Bytes) (i : Nat) : Nat :=
  be64 (byteAt v i) (byteAt v (i + 1)) (byteAt v (i + 2)) (byteAt v (i + 3))
       (byteAt v (i + 4)) (byteAt v (i + 5)) (byteAt v (i + 6)) (byteAt v (i + 7))

/-! ### ModbusTCP -/

/-- The receiver after the BaseLayer and the three 16-bit assignments of `ModbusTCP.DecodeFromBytes`
    (what the "wrong Length" error path leaves behind: UnitIdentifier is still the old one). -/
def modbusHdr (old : ModbusTCP) (v : Bytes) : ModbusTCP :=
  { old with contents := v.take 7, payload := v.drop 7, transactionIdentifier := u16At v 0,
             protocolIdentifier := u16At v 2, length := u16At v 4 }

/-- The layer a successful `ModbusTCP.DecodeFromBytes` produces: a function of the visible bytes alone. -/
def modbusLayer (v : Bytes) : ModbusTCP :=
  { contents := v.take 7, payload := v.drop 7, transactionIdentifier := u16At v 0,
    protocolIdentifier := u16At v 2, length := u16At v 4, unitIdentifier := (byteAt v 6).toNat }

/-- What `ModbusTCP.DecodeFromBytes` computes from the receiver and the visible bytes: 9 … 260 bytes,
    and the Length field must equal the number of bytes behind it (PDU + unit identifier). -/
def modbusDecSpec (old : ModbusTCP) (v : Bytes) : DecOut ModbusTCP :=
  if v.length < 9 then { layer := old, trunc := true, err := true }
  else if v.length > 260 then { layer := old, trunc := true, err := true }
  else if u16At v 4 ≠ v.length - 6 then { layer := modbusHdr old v, trunc := true, err := true }
  else { layer := modbusLayer v, trunc := false, err := false }

/-! ### LCM -/

/-- "the channel name is present": `!lcm.Fragmented || (lcm.Fragmented && lcm.FragmentNumber == 0)`. -/
def LCM.hasName (l : LCM) : Bool := !l.fragmented || (l.fragmented && l.fragmentNumber == 0)

/-- What lcm.go:165-190 (the part behind the optional fragment header) makes of the layer built so
    far: the name scan (when a name is present), the fingerprint (when 8 bytes follow), Contents, Payload. -/
def tailLayer (l : LCM) (v : Bytes) (off : Nat) : LCM :=
  let off' := if l.hasName then (scanName (v.drop off) off []).1 else off
  let l1 := if l.hasName then { l with channelName := (scanName (v.drop off) off []).2 } else l
  let l2 := if off' + 8 ≤ v.length then { l1 with fingerprint := u64At v off' } else l1
  { l2 with contents := v.take off', payload := v.drop off' }

/-- The receiver after Magic, SequenceNumber and the reset of fix lmod-1. -/
def lcmCommon (old : LCM) (v : Bytes) : LCM :=
  { old with magic := u32At v 0, sequenceNumber := u32At v 4, payloadSize := 0, fragmentOffset := 0,
             fragmentNumber := 0, totalFragments := 0, channelName := [], fingerprint := 0 }

/-- … and after the header kind is known (fragmented: the four fragment fields). -/
def lcmPre (old : LCM) (v : Bytes) : LCM :=
  if u32At v 0 = lcmFragmentedHeaderMagic then
    { lcmCommon old v with fragmented := true, payloadSize := u32At v 8, fragmentOffset := u32At v 12,
                           fragmentNumber := u16At v 16, totalFragments := u16At v 18 }
  else { lcmCommon old v with fragmented := false }

/-- The code BEFORE fix lmod-1 (short header), as the receiver handed to the tail of DecodeFromBytes: Magic,
    SequenceNumber and Fragmented are assigned, everything else is the previous packet's. -/
def lcmPreUnfixedShort (old : LCM) (v : Bytes) : LCM :=
  { old with magic := u32At v 0, sequenceNumber := u32At v 4, fragmented := false }

/-- Header length: 20 bytes with the fragmented magic, 8 otherwise. -/
def lcmHdrLen (v : Bytes) : Nat := if u32At v 0 = lcmFragmentedHeaderMagic then 20 else 8

/-- The layer a successful `LCM.DecodeFromBytes` produces: a function of the visible bytes alone. -/
def lcmLayer (v : Bytes) : LCM := tailLayer (lcmPre LCM.fresh v) v (lcmHdrLen v)

/-- What `LCM.DecodeFromBytes` (with fix lmod-1) computes from the receiver and the visible bytes. -/
def lcmDecSpec (old : LCM) (v : Bytes) : DecOut LCM :=
  if v.length < 8 then { layer := old, trunc := true, err := true }
  else if u32At v 0 ≠ lcmShortHeaderMagic ∧ u32At v 0 ≠ lcmFragmentedHeaderMagic then
    { layer := { old with magic := u32At v 0 }, trunc := false, err := true }
  else if u32At v 0 = lcmFragmentedHeaderMagic ∧ v.length < 20 then
    { layer := { lcmCommon old v with fragmented := true }, trunc := true, err := true }
  else { layer := lcmLayer v, trunc := false, err := false }

/-! ### PFLog -/

/-- `actualLength`: the Length byte, plus 3 when it is ≡ 1 (mod 4). -/
def pfActual (v : Bytes) : Nat :=
  if (byteAt v 0).toNat % 4 = 1 then (byteAt v 0).toNat + 3 else (byteAt v 0).toNat

/-- The receiver after the thirteen field assignments of `PFLog.DecodeFromBytes` (what the "data size"
    error path leaves behind: Contents and Payload are still the old ones). -/
def pflogHdr (old : PFLog) (v : Bytes) : PFLog :=
  { old with length := (byteAt v 0).toNat, family := (byteAt v 1).toNat, action := (byteAt v 2).toNat,
             reason := (byteAt v 3).toNat, ifName := (v.drop 4).take 16, ruleset := (v.drop 20).take 16,
             ruleNum := u32At v 36, subruleNum := u32At v 40, uid := u32At v 44, pid := toInt32 (u32At v 48),
             ruleUID := u32At v 52, rulePID := toInt32 (u32At v 56), direction := (byteAt v 60).toNat }

def pflogLayer (v : Bytes) : PFLog :=
  { pflogHdr PFLog.fresh v with contents := v.take (pfActual v), payload := v.drop (pfActual v) }

def pflogDecSpec (old : PFLog) (v : Bytes) : DecOut PFLog :=
  if v.length < 61 then { layer := old, trunc := true, err := true }
  else if v.length < pfActual v then { layer := pflogHdr old v, trunc := false, err := true }
  else { layer := pflogLayer v, trunc := false, err := false }

/-! ### FDDI -/

/-- The layer `decodeFDDI` adds. -/
def fddiLayer (v : Bytes) : FDDI :=
  { contents := v.take 13, payload := v.drop 13, frameControl := (byteAt v 0).toNat &&& 0xF8,
    priority := (byteAt v 0).toNat &&& 0x07, srcMAC := (v.drop 1).take 6, dstMAC := (v.drop 7).take 6 }

/-- What `decodeFDDI` does, as a function of the visible bytes. -/
def fddiSpec (v : Bytes) : Beh × Option FDDI :=
  if v.length < 13 then failed []
  else ({ acts := [.setLinkLayer, .addLayer LayerTypeFDDI], tail := .nextFrameControl (fddiLayer v).frameControl },
        some (fddiLayer v))

/-! ## 2. Go slices -/

theorem GSlice.slice_ok (s : GSlice) (a b : Nat) (hab : a ≤ b) (hb : b ≤ s.len) :
    s.slice a b = .ok { vis := (s.vis.drop a).take (b - a), tail := s.vis.drop b ++ s.tail } := by
  unfold GSlice.slice GSlice.cap
  unfold GSlice.len at hb
  have h1 : a ≤ b ∧ b ≤ s.vis.length + s.tail.length := ⟨hab, by omega⟩
  rw [if_pos h1]
  have ha : a ≤ s.vis.length := by omega
  rw [List.drop_append_of_le_length ha, List.drop_append_of_le_length hb,
    List.take_append_of_le_length (by rw [List.length_drop]; omega)]

theorem GSlice.sliceFrom_ok (s : GSlice) (a : Nat) (ha : a ≤ s.len) :
    s.sliceFrom a = .ok { vis := s.vis.drop a, tail := s.tail } := by
  unfold GSlice.sliceFrom; rw [if_pos ha]

theorem GSlice.index_ok (s : GSlice) (i : Nat) (h : i < s.len) :
    s.index i = .ok (byteAt s.vis i) := by
  unfold GSlice.index Gp.index byteAt
  have h' : i < s.vis.length := h
  simp [List.getD_eq_getElem?_getD, h']

/-- The two-byte window `[i, i+2)` of a long enough byte string. -/
theorem two_bytes (v : Bytes) (i : Nat) (h : i + 2 ≤ v.length) :
    (v.drop i).take 2 = [byteAt v i, byteAt v (i + 1)] := by
  have h0 : i < v.length := by omega
  have h1 : i + 1 < v.length := by omega
  have e : v.drop i = v[i] :: v[i+1] :: v.drop (i+2) := by
    rw [List.drop_eq_getElem_cons h0, List.drop_eq_getElem_cons h1]
  rw [e]
  simp only [byteAt, List.take_succ_cons, List.take_zero, List.getD_eq_getElem?_getD,
    List.getElem?_eq_getElem h0, List.getElem?_eq_getElem h1, Option.getD_some]

/-- The four-byte window `[i, i+4)`. -/
theorem four_bytes (v : Bytes) (i : Nat) (h : i + 4 ≤ v.length) :
    (v.drop i).take 4 = [byteAt v i, byteAt v (i + 1), byteAt v (i + 2), byteAt v (i + 3)] := by
  have h0 : i < v.length := by omega
  have h1 : i + 1 < v.length := by omega
  have h2 : i + 2 < v.length := by omega
  have h3 : i + 3 < v.length := by omega
  have e : v.drop i = v[i] :: v[i+1] :: v[i+2] :: v[i+3] :: v.drop (i+4) := by
    rw [List.drop_eq_getElem_cons h0, List.drop_eq_getElem_cons h1, List.drop_eq_getElem_cons h2,
      List.drop_eq_getElem_cons h3]
  rw [e]
  simp only [byteAt, List.take_succ_cons, List.take_zero, List.getD_eq_getElem?_getD,
    List.getElem?_eq_getElem h0, List.getElem?_eq_getElem h1, List.getElem?_eq_getElem h2,
    List.getElem?_eq_getElem h3, Option.getD_some]

/-- The eight-byte window `[i, i+8)`: two four-byte windows. -/
theorem eight_bytes (v : Bytes) (i : Nat) (h : i + 8 ≤ v.length) :
    (v.drop i).take 8 = [byteAt v i, byteAt v (i + 1), byteAt v (i + 2), byteAt v (i + 3),
                         byteAt v (i + 4), byteAt v (i + 5), byteAt v (i + 6), byteAt v (i + 7)] := by
  have e : (v.drop i).take 8 = (v.drop i).take 4 ++ ((v.drop i).drop 4).take 4 := by
    have := List.take_append_drop 4 ((v.drop i).take 8)
    rw [← this, List.take_take, List.drop_take]
    simp
  rw [e, List.drop_drop, four_bytes v i (by omega), four_bytes v (i + 4) (by omega)]
  simp [Nat.add_assoc]

theorem uint16_two (a b : UInt8) (t : Bytes) : uint16 { vis := [a, b], tail := t } = .ok (be16 a b) := by
  simp [uint16, GSlice.index, Gp.index, bind, Res.bind, pure]

theorem uint32_four (a b c d : UInt8) (t : Bytes) :
    uint32 { vis := [a, b, c, d], tail := t } = .ok (be32 a b c d) := by
  simp [uint32, GSlice.index, Gp.index, bind, Res.bind, pure]

theorem uint64_eight (a b c d e f g h : UInt8) (t : Bytes) :
    uint64 { vis := [a, b, c, d, e, f, g, h], tail := t } = .ok (be64 a b c d e f g h) := by
  simp [uint64, GSlice.index, Gp.index, bind, Res.bind, pure]

theorem uint16_vis (v t : Bytes) (i : Nat) (h : i + 2 ≤ v.length) :
    uint16 { vis := (v.drop i).take 2, tail := t } = .ok (u16At v i) := by
  rw [two_bytes v i h]; exact uint16_two _ _ _

theorem uint32_vis (v t : Bytes) (i : Nat) (h : i + 4 ≤ v.length) :
    uint32 { vis := (v.drop i).take 4, tail := t } = .ok (u32At v i) := by
  rw [four_bytes v i h]; exact uint32_four _ _ _ _ _

theorem uint64_vis (v t : Bytes) (i : Nat) (h : i + 8 ≤ v.length) :
    uint64 { vis := (v.drop i).take 8, tail := t } = .ok (u64At v i) := by
  rw [eight_bytes v i h]; exact uint64_eight _ _ _ _ _ _ _ _ _

theorem be16_lt (a b : UInt8) : be16 a b < 65536 := by
  have := a.toNat_lt; have := b.toNat_lt
  unfold be16; omega

theorem u16At_lt (v : Bytes) (i : Nat) : u16At v i < 65536 := be16_lt _ _

theorem drop_take_all (v : Bytes) (a : Nat) : (v.drop a).take (v.length - a) = v.drop a := by
  apply List.take_of_length_le; rw [List.length_drop]; omega

/-! ## 3. The name scan of LCM -/

/-- The scan moves the offset forward and never past the end of the ranged-over bytes. -/
theorem scanName_bounds (bs : Bytes) (off : Nat) (buf : Bytes) :
    off ≤ (scanName bs off buf).1 ∧ (scanName bs off buf).1 ≤ off + bs.length := by
  induction bs generalizing off buf with
  | nil => simp [scanName]
  | cons b rest ih =>
    unfold scanName
    by_cases hb : b = 0
    · rw [if_pos hb]; simp only [List.length_cons]; omega
    · rw [if_neg hb]
      have := ih (off + 1) (buf ++ [b])
      simp only [List.length_cons]; omega

/-- The scanned name contains no NUL byte (beyond what the buffer held). -/
theorem scanName_no_nul (bs : Bytes) (off : Nat) (buf : Bytes) (h : ∀ x ∈ buf, x ≠ 0) :
    ∀ x ∈ (scanName bs off buf).2, x ≠ 0 := by
  induction bs generalizing off buf with
  | nil => simpa [scanName] using h
  | cons b rest ih =>
    unfold scanName
    by_cases hb : b = 0
    · rw [if_pos hb]; exact h
    · rw [if_neg hb]
      apply ih
      intro x hx
      rcases List.mem_append.mp hx with hx | hx
      · exact h x hx
      · have : x = b := by simpa using hx
        rw [this]; exact hb

/-- The scan consumes the name and (if present) its terminator: offset advance = name length, +1 when a
    NUL was found. -/
theorem scanName_advance (bs : Bytes) (off : Nat) (buf : Bytes) :
    (scanName bs off buf).1 + buf.length = off + (scanName bs off buf).2.length ∨
    (scanName bs off buf).1 + buf.length = off + (scanName bs off buf).2.length + 1 := by
  induction bs generalizing off buf with
  | nil => left; simp [scanName]
  | cons b rest ih =>
    unfold scanName
    by_cases hb : b = 0
    · rw [if_pos hb]; right; simp only; omega
    · rw [if_neg hb]
      have := ih (off + 1) (buf ++ [b])
      rw [List.length_append, List.length_singleton] at this
      omega

/-! ## 4. DecodeFromBytes = its functional specification -/

theorem ModbusTCP.decode_eq (old : ModbusTCP) (d : GSlice) :
    old.decodeFromBytes d = .ok (modbusDecSpec old d.vis) := by
  unfold ModbusTCP.decodeFromBytes modbusDecSpec
  have c1 : mbapRecordSizeInBytes + modbusPDUMinimumRecordSizeInBytes = 9 := by decide
  have c2 : mbapRecordSizeInBytes + modbusPDUMaximumRecordSizeInBytes = 260 := by decide
  have c3 : mbapRecordSizeInBytes = 7 := by decide
  rw [c1, c2, c3]
  by_cases hs : d.len < 9
  · rw [if_pos hs, if_pos (show d.vis.length < 9 from hs)]
  · rw [if_neg hs, if_neg (show ¬ d.vis.length < 9 from hs)]
    by_cases hg : d.len > 260
    · rw [if_pos hg, if_pos (show d.vis.length > 260 from hg)]
    · rw [if_neg hg, if_neg (show ¬ d.vis.length > 260 from hg)]
      have hl : 9 ≤ d.vis.length := by unfold GSlice.len at hs; omega
      have hl' : 9 ≤ d.len := hl
      rw [GSlice.slice_ok d 0 7 (by omega) (by omega), Res.bind_ok]
      rw [GSlice.slice_ok d 7 d.len (by omega) (Nat.le_refl _), Res.bind_ok]
      rw [GSlice.slice_ok d 0 2 (by omega) (by omega), Res.bind_ok]
      simp only [Nat.reduceSub]
      rw [uint16_vis d.vis _ 0 (by omega), Res.bind_ok]
      rw [GSlice.slice_ok d 2 4 (by omega) (by omega), Res.bind_ok]
      simp only [Nat.reduceSub]
      rw [uint16_vis d.vis _ 2 (by omega), Res.bind_ok]
      rw [GSlice.slice_ok d 4 6 (by omega) (by omega), Res.bind_ok]
      simp only [Nat.reduceSub]
      rw [uint16_vis d.vis _ 4 (by omega), Res.bind_ok]
      have ep : (d.vis.drop 7).take (d.len - 7) = d.vis.drop 7 := drop_take_all d.vis 7
      simp only [ep, List.drop_zero, List.length_drop]
      have em : (d.vis.length - 7 + 1) % 65536 = d.vis.length - 6 := by
        unfold GSlice.len at hg; omega
      rw [em]
      by_cases hx : u16At d.vis 4 ≠ d.vis.length - 6
      · rw [if_pos hx, if_pos hx]; rfl
      · rw [if_neg hx, if_neg hx]
        rw [GSlice.index_ok d 6 (by omega), Res.bind_ok]
        rfl

/-- lcm.go:165-190 never panics once the running offset is inside the data, and computes `tailLayer`. -/
theorem LCM.decodeTail_eq (l : LCM) (d : GSlice) (off : Nat) (h : off ≤ d.len) :
    LCM.decodeTail l d off = .ok { layer := tailLayer l d.vis off, trunc := false, err := false } := by
  unfold LCM.decodeTail tailLayer
  have hn : (!l.fragmented || (l.fragmented && l.fragmentNumber == 0)) = l.hasName := rfl
  rw [hn]
  have hb := scanName_bounds (d.vis.drop off) off []
  rw [List.length_drop] at hb
  have hv : off ≤ d.vis.length := h
  by_cases hname : l.hasName = true
  · simp only [hname, if_true]
    rw [GSlice.sliceFrom_ok d off h, Res.bind_ok]
    simp only [pure, Res.bind_ok]
    have ho : (scanName (d.vis.drop off) off []).1 ≤ d.len := by unfold GSlice.len; omega
    by_cases h8 : (scanName (d.vis.drop off) off []).1 + 8 ≤ d.len
    · rw [if_pos h8, if_pos (show _ + 8 ≤ d.vis.length from h8)]
      rw [GSlice.slice_ok d _ _ (by omega) h8, Res.bind_ok]
      have e8 : (scanName (d.vis.drop off) off []).1 + 8 - (scanName (d.vis.drop off) off []).1 = 8 := by omega
      rw [e8, uint64_vis d.vis _ _ h8, Res.bind_ok, Res.bind_ok]
      rw [GSlice.slice_ok d 0 _ (by omega) ho, Res.bind_ok, GSlice.sliceFrom_ok d _ ho, Res.bind_ok]
      simp only [List.drop_zero, Nat.sub_zero]
    · rw [if_neg h8, if_neg (show ¬ _ + 8 ≤ d.vis.length from h8)]
      rw [Res.bind_ok]
      rw [GSlice.slice_ok d 0 _ (by omega) ho, Res.bind_ok, GSlice.sliceFrom_ok d _ ho, Res.bind_ok]
      simp only [List.drop_zero, Nat.sub_zero]
  · have hname' : l.hasName = false := by simpa using hname
    simp only [hname', Bool.false_eq_true, if_false, pure, Res.bind_ok]
    by_cases h8 : off + 8 ≤ d.len
    · rw [if_pos h8, if_pos (show off + 8 ≤ d.vis.length from h8)]
      rw [GSlice.slice_ok d _ _ (by omega) h8, Res.bind_ok]
      have e8 : off + 8 - off = 8 := by omega
      rw [e8, uint64_vis d.vis _ _ h8, Res.bind_ok, Res.bind_ok]
      rw [GSlice.slice_ok d 0 _ (by omega) h, Res.bind_ok, GSlice.sliceFrom_ok d _ h, Res.bind_ok]
      simp only [List.drop_zero, Nat.sub_zero]
    · rw [if_neg h8, if_neg (show ¬ off + 8 ≤ d.vis.length from h8)]
      rw [Res.bind_ok]
      rw [GSlice.slice_ok d 0 _ (by omega) h, Res.bind_ok, GSlice.sliceFrom_ok d _ h, Res.bind_ok]
      simp only [List.drop_zero, Nat.sub_zero]

end Gp.Mod
