import Gp.Lemmas.Layers.Tcp
import Gp.Lemmas.SBuf
/-
  `ltcp` part 4: closed form of SerializeTo — every byte of the window is written, the output is
  a function of the layer, the options and the payload only.
-/
namespace Gp.Tcp
open Gp Gp.Gen.Tcp

theorem ge20_decomp (s : Bytes) (hs : 20 ≤ s.length) :
    ∃ (a0 a1 a2 a3 a4 a5 a6 a7 a8 a9 a10 a11 a12 a13 a14 a15 a16 a17 a18 a19 : UInt8) (t : Bytes), s = a0 :: a1 :: a2 :: a3 :: a4 :: a5 :: a6 :: a7 :: a8 :: a9 :: a10 :: a11 :: a12 :: a13 :: a14 :: a15 :: a16 :: a17 :: a18 :: a19 :: t := by
  rcases s with _ | ⟨a0, s⟩
  · simp only [List.length_cons, List.length_nil] at hs; omega
  rcases s with _ | ⟨a1, s⟩
  · simp only [List.length_cons, List.length_nil] at hs; omega
  rcases s with _ | ⟨a2, s⟩
  · simp only [List.length_cons, List.length_nil] at hs; omega
  rcases s with _ | ⟨a3, s⟩
  · simp only [List.length_cons, List.length_nil] at hs; omega
  rcases s with _ | ⟨a4, s⟩
  · simp only [List.length_cons, List.length_nil] at hs; omega
  rcases s with _ | ⟨a5, s⟩
  · simp only [List.length_cons, List.length_nil] at hs; omega
  rcases s with _ | ⟨a6, s⟩
  · simp only [List.length_cons, List.length_nil] at hs; omega
  rcases s with _ | ⟨a7, s⟩
  · simp only [List.length_cons, List.length_nil] at hs; omega
  rcases s with _ | ⟨a8, s⟩
  · simp only [List.length_cons, List.length_nil] at hs; omega
  rcases s with _ | ⟨a9, s⟩
  · simp only [List.length_cons, List.length_nil] at hs; omega
  rcases s with _ | ⟨a10, s⟩
  · simp only [List.length_cons, List.length_nil] at hs; omega
  rcases s with _ | ⟨a11, s⟩
  · simp only [List.length_cons, List.length_nil] at hs; omega
  rcases s with _ | ⟨a12, s⟩
  · simp only [List.length_cons, List.length_nil] at hs; omega
  rcases s with _ | ⟨a13, s⟩
  · simp only [List.length_cons, List.length_nil] at hs; omega
  rcases s with _ | ⟨a14, s⟩
  · simp only [List.length_cons, List.length_nil] at hs; omega
  rcases s with _ | ⟨a15, s⟩
  · simp only [List.length_cons, List.length_nil] at hs; omega
  rcases s with _ | ⟨a16, s⟩
  · simp only [List.length_cons, List.length_nil] at hs; omega
  rcases s with _ | ⟨a17, s⟩
  · simp only [List.length_cons, List.length_nil] at hs; omega
  rcases s with _ | ⟨a18, s⟩
  · simp only [List.length_cons, List.length_nil] at hs; omega
  rcases s with _ | ⟨a19, s⟩
  · simp only [List.length_cons, List.length_nil] at hs; omega
  exact ⟨a0, a1, a2, a3, a4, a5, a6, a7, a8, a9, a10, a11, a12, a13, a14, a15, a16, a17, a18, a19, s, rfl⟩

/-- encoding of one option as written by the second loop of SerializeTo -/
def encOpt (fix : Bool) (o : TcpOption) : Bytes :=
  if isOneByte o then [u8 o.optionType]
  else [u8 o.optionType, u8 (if fix then (o.optionData.length + 2) % 256 else o.optionLength)] ++ o.optionData

def encOpts (fix : Bool) : List TcpOption → Bytes
  | [] => []
  | o :: os => encOpt fix o ++ encOpts fix os

/-- the fixed header with the two checksum bytes `x y` -/
def fixed20 (l : Layer) (x y : UInt8) : Bytes :=
  putBe16 l.srcPort ++ putBe16 l.dstPort ++ putBe32 l.seq ++ putBe32 l.ack ++
  putBe16 (flagsAndOffset l) ++ putBe16 l.window ++ [x, y] ++ putBe16 l.urgent

/-- the whole header as a function of the layer and the checksum value written -/
def hdrBytes (l : Layer) (fix : Bool) (ck : Nat) : Bytes :=
  fixed20 l (u8 (ck / 256)) (u8 ck) ++ encOpts fix l.options ++ l.padding

theorem encOpt_length (fix : Bool) (o : TcpOption) :
    (encOpt fix o).length = (if isOneByte o then 1 else 2 + o.optionData.length) := by
  unfold encOpt; split <;> simp <;> omega

theorem encOpts_length (fix : Bool) (os : List TcpOption) : (encOpts fix os).length = optLen os := by
  induction os with
  | nil => rfl
  | cons o os ih => simp [encOpts, optLen, encOpt_length, ih]

theorem fixed20_length (l : Layer) (x y : UInt8) : (fixed20 l x y).length = 20 := by
  simp [fixed20, putBe16, putBe32]

theorem put_ok {bs : Bytes} {i : Nat} {v : UInt8} (h : i < bs.length) : put bs i v = .ok (bs.set i v) := by
  unfold put; rw [if_pos h]

theorem put16_ok {bs : Bytes} {off n : Nat} (h : off + 2 ≤ bs.length) :
    put16 bs off n = .ok ((bs.set off (u8 (n / 256))).set (off + 1) (u8 n)) := by
  unfold put16; rw [if_neg (by omega), if_neg (by omega)]

theorem put32_ok {bs : Bytes} {off n : Nat} (h : off + 4 ≤ bs.length) :
    put32 bs off n = .ok ((((bs.set off (u8 (n / 16777216))).set (off + 1) (u8 (n / 65536))).set (off + 2)
          (u8 (n / 256))).set (off + 3) (u8 n)) := by
  unfold put32; rw [if_neg (by omega), if_neg (by omega)]

theorem putFixed_eq (l : Layer) (s : Bytes) (hs : 20 ≤ s.length) :
    ∃ (x y : UInt8), putFixed l s = .ok (fixed20 l x y ++ s.drop 20) := by
  obtain ⟨a0, a1, a2, a3, a4, a5, a6, a7, a8, a9, a10, a11, a12, a13, a14, a15, a16, a17, a18, a19, t, rfl⟩ := ge20_decomp s hs
  refine ⟨a16, a17, ?_⟩
  unfold putFixed
  rw [put16_ok (by simp only [List.length_cons]; omega)]; simp only [Res.bind_ok, List.set_cons_zero, List.set_cons_succ]
  rw [put16_ok (by simp only [List.length_cons]; omega)]; simp only [Res.bind_ok, List.set_cons_zero, List.set_cons_succ]
  rw [put32_ok (by simp only [List.length_cons]; omega)]; simp only [Res.bind_ok, List.set_cons_zero, List.set_cons_succ]
  rw [put32_ok (by simp only [List.length_cons]; omega)]; simp only [Res.bind_ok, List.set_cons_zero, List.set_cons_succ]
  rw [put16_ok (by simp only [List.length_cons]; omega)]; simp only [Res.bind_ok, List.set_cons_zero, List.set_cons_succ]
  rw [put16_ok (by simp only [List.length_cons]; omega)]; simp only [Res.bind_ok, List.set_cons_zero, List.set_cons_succ]
  rw [put16_ok (by simp only [List.length_cons]; omega)]; simp only [List.set_cons_zero, List.set_cons_succ]
  simp [fixed20, putBe16, putBe32]

theorem put_splice (pre post : Bytes) (x v : UInt8) :
    put (pre ++ x :: post) pre.length v = .ok (pre ++ v :: post) := by
  rw [put_ok (by simp)]
  simp [List.set_append_right]

theorem copyAt_splice (pre mid post src : Bytes) (h : mid.length = src.length) :
    copyAt (pre ++ (mid ++ post)) pre.length (pre.length + src.length) src = .ok (pre ++ (src ++ post)) := by
  unfold copyAt
  rw [if_pos ⟨by omega, by simp; omega⟩]
  simp only [Nat.add_sub_cancel_left, Nat.min_self, List.take_length]
  rw [List.take_left' rfl, List.drop_append, ← h]
  simp

/-- The option loop of SerializeTo overwrites exactly the `optLen` bytes from `start` with the
    encoding of the options, whatever was there. -/
theorem writeOpts_eq (fix : Bool) : ∀ (os : List TcpOption) (pre mid post : Bytes),
    mid.length = optLen os →
    writeOpts fix (pre ++ (mid ++ post)) pre.length os = .ok (pre ++ (encOpts fix os ++ post), pre.length + optLen os) := by
  intro os
  induction os with
  | nil =>
    intro pre mid post h
    have : mid = [] := List.eq_nil_of_length_eq_zero (by simpa [optLen] using h)
    subst this
    simp [writeOpts, encOpts, optLen]
  | cons o os ih =>
    intro pre mid post h
    unfold writeOpts
    by_cases h1 : isOneByte o = true
    · -- one-byte option
      simp only [optLen, h1, if_true] at h
      rcases mid with _ | ⟨m0, mid'⟩
      · simp at h; omega
      simp only [List.cons_append, put_splice, Res.bind_ok, h1, if_true]
      have e : pre ++ u8 o.optionType :: (mid' ++ post) = (pre ++ [u8 o.optionType]) ++ (mid' ++ post) := by simp
      have e2 : pre.length + 1 = (pre ++ [u8 o.optionType]).length := by simp
      rw [e, e2, ih _ mid' post (by simp at h; omega)]
      simp [encOpts, encOpt, h1, optLen]
      omega
    · -- kind, length, data
      have h1' : isOneByte o = false := by simpa using h1
      simp only [optLen, h1', Bool.false_eq_true, if_false] at h
      rcases mid with _ | ⟨m0, mid1⟩
      · simp at h; omega
      rcases mid1 with _ | ⟨m1, mid2⟩
      · simp at h; omega
      simp only [List.cons_append, put_splice, Res.bind_ok, h1', Bool.false_eq_true, if_false]
      have hl2 : o.optionData.length ≤ mid2.length := by simp at h; omega
      -- second store: bytes[start+1]
      have e1 : pre ++ u8 o.optionType :: m1 :: (mid2 ++ post) =
          (pre ++ [u8 o.optionType]) ++ m1 :: (mid2 ++ post) := by simp
      have l1 : pre.length + 1 = (pre ++ [u8 o.optionType]).length := by simp
      rw [e1, l1, put_splice]
      simp only [Res.bind_ok]
      -- copy of the data
      generalize hol : (if fix = true then (o.optionData.length + 2) % 256 else o.optionLength) = ol
      have e2 : (pre ++ [u8 o.optionType]) ++ u8 ol :: (mid2 ++ post) =
          (pre ++ [u8 o.optionType, u8 ol]) ++ (mid2.take o.optionData.length ++ (mid2.drop o.optionData.length ++ post)) := by
        rw [← List.append_assoc (mid2.take _), List.take_append_drop]
        simp
      have l2 : pre.length + 2 = (pre ++ [u8 o.optionType, u8 ol]).length := by simp
      have l3 : pre.length + o.optionData.length + 2 = (pre ++ [u8 o.optionType, u8 ol]).length + o.optionData.length := by
        simp; omega
      rw [e2, l2, l3, copyAt_splice _ _ _ _ (by simp [List.length_take]; omega)]
      simp only [Res.bind_ok]
      have e3 : (pre ++ [u8 o.optionType, u8 ol]) ++ (o.optionData ++ (mid2.drop o.optionData.length ++ post)) =
          (pre ++ ([u8 o.optionType, u8 ol] ++ o.optionData)) ++ (mid2.drop o.optionData.length ++ post) := by simp
      have l4 : (pre ++ [u8 o.optionType, u8 ol]).length + o.optionData.length =
          (pre ++ ([u8 o.optionType, u8 ol] ++ o.optionData)).length := by simp; omega
      rw [e3, l4, ih _ (mid2.drop o.optionData.length) post (by simp [List.length_drop] at h ⊢; omega)]
      simp [encOpts, encOpt, h1', optLen, hol]
      omega

theorem fixed20_set_ck (l : Layer) (x y a b : UInt8) (tail : Bytes) :
    ((fixed20 l x y ++ tail).set 16 a).set (16 + 1) b = fixed20 l a b ++ tail := by
  simp [fixed20, putBe16, putBe32]

theorem u8_zero_div : u8 (0 / 256) = 0 ∧ u8 0 = 0 := by decide

theorem putChecksum_eq (l : Layer) (csum : Bool) (x y : UInt8) (tail rest : Bytes) :
    putChecksum l csum (fixed20 l x y ++ tail) rest =
      if csum then
        match l4checksum l.pseudo (fixed20 l 0 0 ++ tail ++ rest) with
        | none => .err "checksum"
        | some c => .ok (fixed20 l (u8 (c / 256)) (u8 c) ++ tail, { l with checksum := c })
      else .ok (fixed20 l (u8 (l.checksum / 256)) (u8 l.checksum) ++ tail, l) := by
  have hl : (fixed20 l x y ++ tail).length = 20 + tail.length := by simp [fixed20_length]
  unfold putChecksum
  cases csum with
  | false =>
    simp only [Bool.false_eq_true, if_false]
    rw [put16_ok (by omega)]
    simp only [Res.bind_ok, pure_eq_ok, fixed20_set_ck]
  | true =>
    simp only [if_true]
    rw [put_ok (by omega)]
    simp only [Res.bind_ok]
    rw [put_ok (by simp only [List.length_set]; omega)]
    simp only [Res.bind_ok, fixed20_set_ck]
    cases hc : l4checksum l.pseudo (fixed20 l 0 0 ++ tail ++ rest) with
    | none => rfl
    | some c =>
      simp only []
      rw [put16_ok (by simp only [List.length_append, fixed20_length]; omega)]
      simp only [Res.bind_ok, pure_eq_ok, fixed20_set_ck]

/-- the checksum value SerializeTo writes (`none`: computeChecksum returned an error) -/
def serCk (l : Layer) (fix csum : Bool) (rest : Bytes) : Option Nat :=
  if csum then l4checksum l.pseudo (hdrBytes l fix 0 ++ rest) else some l.checksum

/-- Closed form of the stores of SerializeTo: whatever the window held, it ends up holding
    `hdrBytes` — every requested byte is written. -/
theorem serializeWin_eq (l : Layer) (fix csum : Bool) (stale rest : Bytes)
    (hlen : stale.length = 20 + optLen l.options + l.padding.length) :
    serializeWin l fix csum stale rest =
      match serCk l fix csum rest with
      | none => .err "checksum"
      | some c => .ok (hdrBytes l fix c, if csum then { l with checksum := c } else l) := by
  unfold serializeWin
  obtain ⟨x, y, hp⟩ := putFixed_eq l stale (by omega)
  rw [hp]
  simp only [Res.bind_ok]
  -- the option area and the padding area of the stale window
  have hd : (stale.drop 20).length = optLen l.options + l.padding.length := by simp [List.length_drop]; omega
  have e0 : stale.drop 20 = (stale.drop 20).take (optLen l.options) ++ ((stale.drop 20).drop (optLen l.options) ++ []) := by
    rw [List.append_nil, List.take_append_drop]
  have hmid : ((stale.drop 20).take (optLen l.options)).length = optLen l.options := by
    simp [List.length_take]; omega
  have hpadA : ((stale.drop 20).drop (optLen l.options)).length = l.padding.length := by
    simp [List.length_drop]; omega
  rw [e0]
  have l20 : 20 = (fixed20 l x y).length := (fixed20_length l x y).symm
  rw [show writeOpts fix (fixed20 l x y ++ ((stale.drop 20).take (optLen l.options) ++ ((stale.drop 20).drop (optLen l.options) ++ []))) 20 l.options
        = writeOpts fix (fixed20 l x y ++ ((stale.drop 20).take (optLen l.options) ++ ((stale.drop 20).drop (optLen l.options) ++ []))) (fixed20 l x y).length l.options from by rw [← l20]]
  rw [writeOpts_eq fix l.options _ _ _ hmid]
  simp only [Res.bind_ok]
  have hlen2 : (fixed20 l x y ++ (encOpts fix l.options ++ ((stale.drop 20).drop (optLen l.options) ++ []))).length =
      (fixed20 l x y).length + optLen l.options + l.padding.length := by
    simp [encOpts_length, hpadA]; omega
  rw [if_neg (by rw [hlen2]; omega)]
  have e1 : fixed20 l x y ++ (encOpts fix l.options ++ ((stale.drop 20).drop (optLen l.options) ++ [])) =
      (fixed20 l x y ++ encOpts fix l.options) ++ ((stale.drop 20).drop (optLen l.options) ++ []) := by simp
  have l1 : (fixed20 l x y).length + optLen l.options = (fixed20 l x y ++ encOpts fix l.options).length := by
    simp [encOpts_length]
  have l2 : (fixed20 l x y ++ (encOpts fix l.options ++ ((stale.drop 20).drop (optLen l.options) ++ []))).length =
      (fixed20 l x y ++ encOpts fix l.options).length + l.padding.length := by
    rw [hlen2, ← l1]
  rw [l2, l1, e1, copyAt_splice _ _ _ _ hpadA]
  simp only [Res.bind_ok, List.append_nil, List.append_assoc]
  rw [putChecksum_eq]
  unfold serCk hdrBytes
  cases csum with
  | false => simp
  | true =>
    simp only [if_true, u8_zero_div.1, u8_zero_div.2, List.append_assoc]

theorem hdrBytes_length (l : Layer) (fix : Bool) (c : Nat) :
    (hdrBytes l fix c).length = 20 + optLen l.options + l.padding.length := by
  simp [hdrBytes, fixed20_length, encOpts_length]; omega

/-- the layer after the `if opts.FixLengths` block -/
def fixedLayer (l : Layer) (fix : Bool) : Layer := if fix then fixLengths l else l

theorem window_prepend_length (b : SBuf.SBuf) (n : Nat) (h : Gp.C18.Inv b) :
    (window (SBuf.prepend b n).1 (SBuf.prepend b n).2).length = n := by
  have hi := Gp.C18.inv_prepend' b n h
  have hs := Gp.C18.prepend_start_len b n h
  obtain ⟨_, h2, _⟩ := hi
  rw [Gp.C18.prepend_win]
  simp only [window, List.length_take, List.length_drop]
  omega

/-- Closed form of SerializeTo on any reachable buffer: it prepends `hdrBytes` of the
    length-fixed layer (or fails with the checksum error), and returns the mutated layer. -/
theorem serializeTcp_eq (l : Layer) (b : SBuf.SBuf) (fix csum : Bool) (hb : Gp.C18.Inv b) :
    serializeTcp l b fix csum =
      match serCk (fixedLayer l fix) fix csum (SBuf.contents b) with
      | none => .err "checksum"
      | some c => .ok (SBuf.step b (.prepend (hdrBytes (fixedLayer l fix) fix c)),
                       if csum then { fixedLayer l fix with checksum := c } else fixedLayer l fix) := by
  unfold serializeTcp
  simp only []
  rw [show (if fix = true then fixLengths l else l) = fixedLayer l fix from rfl]
  rw [serializeWin_eq _ fix csum _ _ (window_prepend_length b _ hb)]
  cases hc : serCk (fixedLayer l fix) fix csum (SBuf.contents b) with
  | none => rfl
  | some c =>
    simp only [Gp.C18.step_prepend, hdrBytes_length]

theorem fixLengths_idem (l : Layer) : fixLengths (fixLengths l) = fixLengths l := by
  unfold fixLengths
  by_cases h : optLen l.options % 4 ≠ 0 <;> simp [h]

theorem fixLengths_checksum (l : Layer) (c : Nat) :
    fixLengths { l with checksum := c } = { fixLengths l with checksum := c } := by
  unfold fixLengths
  by_cases h : optLen l.options % 4 ≠ 0 <;> simp [h]

theorem fixedLayer_idem (l : Layer) (fix : Bool) : fixedLayer (fixedLayer l fix) fix = fixedLayer l fix := by
  cases fix <;> simp [fixedLayer, fixLengths_idem]

theorem fixedLayer_checksum (l : Layer) (fix : Bool) (c : Nat) :
    fixedLayer { l with checksum := c } fix = { fixedLayer l fix with checksum := c } := by
  cases fix <;> simp [fixedLayer, fixLengths_checksum]

theorem hdrBytes_checksum (l : Layer) (fix : Bool) (c ck : Nat) :
    hdrBytes { l with checksum := c } fix ck = hdrBytes l fix ck := by
  simp [hdrBytes, fixed20, flagsAndOffset]

/-- what a caller observes of a SerializeTo: the bytes in the buffer and the mutated layer -/
def serView (r : Res (SBuf.SBuf × Layer)) : Res (Bytes × Layer) :=
  match r with
  | .ok (b, l) => .ok (SBuf.contents b, l)
  | .err e => .err e
  | .panic k => .panic k

/-- observable result of SerializeTo as a function of the layer, the options and the buffer
    CONTENTS only -/
def serSpec (l : Layer) (fix csum : Bool) (payload : Bytes) : Res (Bytes × Layer) :=
  match serCk (fixedLayer l fix) fix csum payload with
  | none => .err "checksum"
  | some c => .ok (hdrBytes (fixedLayer l fix) fix c ++ payload,
                   if csum then { fixedLayer l fix with checksum := c } else fixedLayer l fix)

theorem serView_eq (l : Layer) (b : SBuf.SBuf) (fix csum : Bool) (hb : Gp.C18.Inv b) :
    serView (serializeTcp l b fix csum) = serSpec l fix csum (SBuf.contents b) := by
  rw [serializeTcp_eq l b fix csum hb]
  unfold serSpec
  cases serCk (fixedLayer l fix) fix csum (SBuf.contents b) with
  | none => rfl
  | some c => simp only [serView, Gp.C18.contents_step_prepend _ _ hb]

/-- serialising the mutated layer again over the same payload gives the same bytes and layer -/
theorem serSpec_idem (l : Layer) (fix csum : Bool) (payload out : Bytes) (l' : Layer)
    (h : serSpec l fix csum payload = .ok (out, l')) : serSpec l' fix csum payload = .ok (out, l') := by
  unfold serSpec at h ⊢
  cases hc : serCk (fixedLayer l fix) fix csum payload with
  | none => rw [hc] at h; cases h
  | some c =>
    rw [hc] at h
    simp only [Res.ok.injEq, Prod.mk.injEq] at h
    obtain ⟨h1, h2⟩ := h
    cases csum with
    | false =>
      simp only [Bool.false_eq_true, if_false] at h2 hc ⊢
      subst h2
      simp only [serCk, Bool.false_eq_true, if_false, Option.some.injEq] at hc ⊢
      rw [fixedLayer_idem]
      simp only [hc]
      rw [← h1]
    | true =>
      simp only [if_true] at h2 hc ⊢
      subst h2
      rw [fixedLayer_checksum, fixedLayer_idem]
      have hc' : serCk { fixedLayer l fix with checksum := c } fix true payload = some c := by
        simp only [serCk, if_true, hdrBytes_checksum] at hc ⊢
        exact hc
      rw [hc']
      simp only [hdrBytes_checksum, h1]

end Gp.Tcp
