import Gp.Lemmas.Layers.EapBits
/-
  Helper lemmas for engine `leap`, part 6: well-formedness, ≈, and decode ∘ encode.  Core Lean only.

  Section 1 holds the *definitions* used in property statements.
-/
namespace Gp.Eap
open Gp Gp.SBuf Gp.C18 Gp.Gen.Eap

/-! ## 1. Definitions used in property statements -/

/-- In-range EAP field values: 8-bit Code / Id / Type, a 16-bit Length, and a TypeData that fits the
    16-bit Length field (5 + |TypeData| ≤ 65535).  The Length FIELD need not agree with the data:
    FixLengths repairs it (`eapFixed`). -/
def wfEap (l : EAP) : Prop :=
  l.code < 256 ∧ l.id < 256 ∧ l.length < 65536 ∧ l.typ < 256 ∧ 5 + l.typeData.length ≤ 65535

/-- The Length field says what the serializer writes (true after FixLengths). -/
def eapLenAgrees (l : EAP) : Prop := l.length = eapSize l

/-- Field equivalence `≈` for EAP: all public fields; ignores BaseLayer.Contents/Payload. -/
def EapEquiv (a b : EAP) : Prop :=
  a.code = b.code ∧ a.id = b.id ∧ a.length = b.length ∧ a.typ = b.typ ∧ a.typeData = b.typeData

def wfEapol (l : EAPOL) : Prop := l.version < 256 ∧ l.typ < 256 ∧ l.length < 65536

def EapolEquiv (a b : EAPOL) : Prop := a.version = b.version ∧ a.typ = b.typ ∧ a.length = b.length

/-- In-range EAPOL-Key field values over the payload `p`: the bit-field widths (3-bit version, 1-bit
    key type, 2-bit index), 16- and 64-bit integers, Nonce / IV / MIC of exactly their field sizes,
    and — SerializeTo has no FixLengths handling — a KeyDataLength that says what is there: the
    length of EncryptedKeyData when the key data is encrypted; otherwise no EncryptedKeyData and a
    KeyDataLength covered by the payload (the key data then IS the leading part of the payload). -/
def wfKey (l : EAPOLKey) (p : Bytes) : Prop :=
  l.keyDescriptorType < 256 ∧ l.keyDescriptorVersion < 8 ∧ l.keyType < 2 ∧ l.keyIndex < 4 ∧
  l.keyLength < 65536 ∧ l.replayCounter < 18446744073709551616 ∧ l.nonce.length = 32 ∧ l.iv.length = 16 ∧
  l.rsc < 18446744073709551616 ∧ l.id < 18446744073709551616 ∧ l.mic.length = 16 ∧ l.keyDataLength < 65536 ∧
  (l.hasEncryptedKeyData = true → l.keyDataLength = l.encryptedKeyData.length) ∧
  (l.hasEncryptedKeyData = false → l.encryptedKeyData = [] ∧ l.keyDataLength ≤ p.length)

def KeyEquiv (a b : EAPOLKey) : Prop :=
  a.keyDescriptorType = b.keyDescriptorType ∧ a.keyDescriptorVersion = b.keyDescriptorVersion ∧
  a.keyType = b.keyType ∧ a.keyIndex = b.keyIndex ∧ a.install = b.install ∧ a.keyACK = b.keyACK ∧
  a.keyMIC = b.keyMIC ∧ a.secure = b.secure ∧ a.micError = b.micError ∧ a.request = b.request ∧
  a.hasEncryptedKeyData = b.hasEncryptedKeyData ∧ a.smkMessage = b.smkMessage ∧ a.keyLength = b.keyLength ∧
  a.replayCounter = b.replayCounter ∧ a.nonce = b.nonce ∧ a.iv = b.iv ∧ a.rsc = b.rsc ∧ a.id = b.id ∧
  a.mic = b.mic ∧ a.keyDataLength = b.keyDataLength ∧ a.encryptedKeyData = b.encryptedKeyData

instance (l : EAP) : Decidable (wfEap l) := by unfold wfEap; infer_instance
instance (l : EAP) : Decidable (eapLenAgrees l) := by unfold eapLenAgrees; infer_instance
instance (a b : EAP) : Decidable (EapEquiv a b) := by unfold EapEquiv; infer_instance
instance (l : EAPOL) : Decidable (wfEapol l) := by unfold wfEapol; infer_instance
instance (a b : EAPOL) : Decidable (EapolEquiv a b) := by unfold EapolEquiv; infer_instance
instance (l : EAPOLKey) (p : Bytes) : Decidable (wfKey l p) := by unfold wfKey; infer_instance
instance (a b : EAPOLKey) : Decidable (KeyEquiv a b) := by unfold KeyEquiv; infer_instance

/-! ## 2. Reading fields behind a prefix -/

theorem byteAt_append_right (X T : Bytes) (i j : Nat) (h : X.length = i) :
    byteAt (X ++ T) (i + j) = byteAt T j := by
  unfold byteAt
  rw [List.getD_eq_getElem?_getD, List.getD_eq_getElem?_getD, List.getElem?_append_right (by omega)]
  congr 2; omega

theorem byteAt_append_right0 (X T : Bytes) (i : Nat) (h : X.length = i) :
    byteAt (X ++ T) i = byteAt T 0 := byteAt_append_right X T i 0 h

theorem u16At_prefix (X T : Bytes) (i n : Nat) (h : X.length = i) :
    u16At (X ++ (putBe16 n ++ T)) i = be16 (u8 (n / 256)) (u8 n) := by
  unfold u16At
  rw [byteAt_append_right0 X _ i h, byteAt_append_right X _ i 1 h]
  rfl

theorem u64At_prefix (X T : Bytes) (i n : Nat) (h : X.length = i) :
    u64At (X ++ (putBe64 n ++ T)) i =
      be64 (u8 (n / 4294967296 / 16777216)) (u8 (n / 4294967296 / 65536)) (u8 (n / 4294967296 / 256)) (u8 (n / 4294967296))
           (u8 (n / 16777216)) (u8 (n / 65536)) (u8 (n / 256)) (u8 n) := by
  unfold u64At
  rw [byteAt_append_right0 X _ i h, byteAt_append_right X _ i 1 h, byteAt_append_right X _ i 2 h,
    byteAt_append_right X _ i 3 h, byteAt_append_right X _ i 4 h, byteAt_append_right X _ i 5 h,
    byteAt_append_right X _ i 6 h, byteAt_append_right X _ i 7 h]
  rfl

theorem drop_take_prefix (X Y T : Bytes) (i n : Nat) (hX : X.length = i) (hY : Y.length = n) :
    ((X ++ (Y ++ T)).drop i).take n = Y := by
  rw [List.drop_left' hX, List.take_left' hY]

theorem pad_of_length (n : Nat) (x : Bytes) (h : x.length = n) : pad n x = x := by
  unfold pad
  rw [List.take_of_length_le (by omega), show n - x.length = 0 by omega]
  simp [zeros]

/-! ## 3. EAP: decode ∘ encode -/

theorem eapFixed_wf (l : EAP) (h : wfEap l) : wfEap (eapFixed l true) ∧ eapLenAgrees (eapFixed l true) := by
  obtain ⟨w1, w2, w3, w4, w5⟩ := h
  have hs : eapSize l ≤ 65535 := by unfold eapSize; split <;> omega
  unfold eapLenAgrees
  rw [eapFixed_size]
  unfold eapFixed wfEap
  simp only [if_true]
  exact ⟨⟨w1, w2, by omega, w4, w5⟩, by omega⟩

theorem eapFixed_of_agree (l : EAP) (fix : Bool) (hw : wfEap l) (hs : eapLenAgrees l) : eapFixed l fix = l := by
  obtain ⟨-, -, w3, -, -⟩ := hw
  unfold eapLenAgrees at hs
  unfold eapFixed
  cases fix
  · rfl
  · simp only [if_true]
    rw [← hs, Nat.mod_eq_of_lt w3]

/-- Decoding the bytes `EAP.SerializeTo` writes for a well-formed layer whose Length field is the size
    written gives back exactly that layer (Contents = the layer's bytes, Payload = `p`). -/
theorem eapDecSpec_encode (old l : EAP) (p : Bytes) (hw : wfEap l) (hs : eapLenAgrees l) :
    eapDecSpec true old (eapEncode l ++ p) =
      { layer := { l with contents := eapEncode l, payload := p }, trunc := false, err := false } := by
  obtain ⟨w1, w2, w3, w4, w5⟩ := hw
  unfold eapLenAgrees at hs
  have hlenE := eapEncode_length l
  by_cases hc : l.typ ≠ eapTypeNone ∨ l.typeData.length > 0
  · have hsz : eapSize l = 5 + l.typeData.length := by unfold eapSize; rw [if_pos hc]
    have hE : eapEncode l ++ p = u8 l.code :: u8 l.id :: u8 (l.length / 256) :: u8 l.length :: u8 l.typ ::
        (l.typeData ++ p) := by
      unfold eapEncode; rw [if_pos (by omega)]; simp [putBe16]
    have eL : eapLen (eapEncode l ++ p) = l.length := by
      rw [hE]; exact be16_putBe16 _ w3
    have e0 : (byteAt (eapEncode l ++ p) 0).toNat = l.code := by
      rw [hE]; show (u8 l.code).toNat = _; rw [u8_toNat]; omega
    have e1 : (byteAt (eapEncode l ++ p) 1).toNat = l.id := by
      rw [hE]; show (u8 l.id).toNat = _; rw [u8_toNat]; omega
    have e4 : (byteAt (eapEncode l ++ p) 4).toNat = l.typ := by
      rw [hE]; show (u8 l.typ).toNat = _; rw [u8_toNat]; omega
    have eT : ((eapEncode l ++ p).drop 5).take (l.length - 5) = l.typeData := by
      rw [hE]
      simp only [List.drop_succ_cons, List.drop_zero]
      exact List.take_left' (by omega)
    have eC : (eapEncode l ++ p).take l.length = eapEncode l := List.take_left' (by omega)
    have eP : (eapEncode l ++ p).drop l.length = p := List.drop_left' (by omega)
    unfold eapDecSpec
    rw [eL, if_neg (by rw [List.length_append]; omega), if_neg (by omega)]
    unfold eapLayer
    rw [eL, if_pos (by omega), if_pos (by omega), e0, e1, e4, eC, eP]
    simp only [if_true, eT]
  · have hsz : eapSize l = 4 := by unfold eapSize; rw [if_neg hc]
    have ht : l.typ = 0 := by
      have : l.typ = eapTypeNone := Classical.byContradiction fun hh => hc (Or.inl hh)
      exact this
    have hd : l.typeData = [] := List.eq_nil_of_length_eq_zero (by omega)
    have hE : eapEncode l ++ p = u8 l.code :: u8 l.id :: u8 (l.length / 256) :: u8 l.length :: p := by
      unfold eapEncode; rw [if_neg (by omega)]; simp [putBe16]
    have eL : eapLen (eapEncode l ++ p) = l.length := by
      rw [hE]; exact be16_putBe16 _ w3
    have e0 : (byteAt (eapEncode l ++ p) 0).toNat = l.code := by
      rw [hE]; show (u8 l.code).toNat = _; rw [u8_toNat]; omega
    have e1 : (byteAt (eapEncode l ++ p) 1).toNat = l.id := by
      rw [hE]; show (u8 l.id).toNat = _; rw [u8_toNat]; omega
    have eC : (eapEncode l ++ p).take l.length = eapEncode l := List.take_left' (by omega)
    have eP : (eapEncode l ++ p).drop l.length = p := List.drop_left' (by omega)
    unfold eapDecSpec
    rw [eL, if_neg (by rw [List.length_append]; omega), if_neg (by omega)]
    unfold eapLayer
    rw [eL, if_neg (by omega), if_neg (by omega), e0, e1, eC, eP]
    cases l
    simp only at ht hd
    subst ht hd
    rfl

theorem eapEncode_base (l : EAP) (c q : Bytes) : eapEncode { l with contents := c, payload := q } = eapEncode l := rfl

/-- Every successfully decoded EAP layer has in-range field values (its Length field need not be the
    size the serializer computes: `Length > 4` with a Type byte 0 and no data, see C06). -/
theorem eapLayer_wf (v : Bytes) (h : ¬ v.length < eapLen v) : wfEap (eapLayer true v) := by
  have hL : eapLen v < 65536 := u16At_lt v 2
  unfold wfEap eapLayer
  simp only
  refine ⟨(byteAt v 0).toNat_lt, (byteAt v 1).toNat_lt, hL, ?_, ?_⟩
  · split
    · exact (byteAt v 4).toNat_lt
    · omega
  · split
    · simp only [if_true, List.length_take, List.length_drop]; omega
    · simp

/-! ## 4. EAPOL: decode ∘ encode -/

theorem eapolLayer_encode (l : EAPOL) (p : Bytes) (hw : wfEapol l) :
    eapolLayer (eapolEncode l ++ p) = { l with contents := eapolEncode l, payload := p } := by
  obtain ⟨w1, w2, w3⟩ := hw
  have hE : eapolEncode l ++ p = u8 l.version :: u8 l.typ :: u8 (l.length / 256) :: u8 l.length :: p := rfl
  have e0 : (byteAt (eapolEncode l ++ p) 0).toNat = l.version := by
    rw [hE]; show (u8 l.version).toNat = _; rw [u8_toNat]; omega
  have e1 : (byteAt (eapolEncode l ++ p) 1).toNat = l.typ := by
    rw [hE]; show (u8 l.typ).toNat = _; rw [u8_toNat]; omega
  have eL : u16At (eapolEncode l ++ p) 2 = l.length := by
    rw [hE]; exact be16_putBe16 _ w3
  have eC : (eapolEncode l ++ p).take 4 = eapolEncode l := List.take_left' rfl
  have eP : (eapolEncode l ++ p).drop 4 = p := List.drop_left' rfl
  unfold eapolLayer
  rw [e0, e1, eL, eC, eP]

theorem eapolLayer_wf (v : Bytes) : wfEapol (eapolLayer v) :=
  ⟨(byteAt v 0).toNat_lt, (byteAt v 1).toNat_lt, u16At_lt v 2⟩

end Gp.Eap
