import Gp.Lemmas.Layers.Ip4Rt2
/-
  Helper lemmas for engine `lip4`, part 7: decoding the bytes SerializeTo produced.
-/
namespace Gp.Ip4
open Gp Gp.SBuf

/-! ## Bit-level facts -/

theorem lor_mul16 (v i : Nat) (hi : i < 16) : v * 16 ||| i = v * 16 + i := by
  have := Nat.shiftLeft_add_eq_or_of_lt (i := 4) (b := i) (by simpa using hi) v
  simp [Nat.shiftLeft_eq] at this
  omega

theorem lor_mul8192 (v i : Nat) (hi : i < 8192) : v * 8192 ||| i = v * 8192 + i := by
  have := Nat.shiftLeft_add_eq_or_of_lt (i := 13) (b := i) (by simpa using hi) v
  simp [Nat.shiftLeft_eq] at this
  omega

theorem byte0_toNat (l : Layer) (hv : l.version < 16) (hi : l.ihl < 16) :
    (byte0 l).toNat = l.version * 16 + l.ihl := by
  unfold byte0
  rw [Nat.mod_eq_of_lt (by omega : l.version < 256), Nat.mod_eq_of_lt (by omega : l.ihl < 256),
    Nat.mod_eq_of_lt (by omega : l.version * 16 < 256), lor_mul16 _ _ hi, u8_toNat _ (by omega)]

theorem flagsfrags_eq (l : Layer) (hf : l.flags < 8) (ho : l.fragOffset < 8192) :
    flagsfrags l = l.flags * 8192 + l.fragOffset := by
  unfold flagsfrags
  rw [Nat.mod_eq_of_lt (by omega : l.flags < 256), Nat.mod_eq_of_lt (by omega : l.fragOffset < 65536),
    Nat.mod_eq_of_lt (by omega : l.flags * 8192 < 65536), lor_mul8192 _ _ ho]

theorem be16_putBe16 (n : Nat) (h : n < 65536) : Gp.be16 (u8 (n / 256)) (u8 n) = n := by
  unfold Gp.be16
  rw [u8_toNat _ (by omega)]
  simp [u8]; omega

theorem fold_lt (c : Nat) : Cksum.fold c < 65536 := by
  unfold Cksum.fold Gp.Gen.Cksum.foldChecksum
  simp only []
  generalize Gp.Gen.Cksum.foldChecksum_loop1 4 (Int.ofNat c) = x
  omega

end Gp.Ip4
