import Gp.Lemmas.Layers.Ip4Rt2
/-
  Helper lemmas for engine `lip4`, part 7: decoding the bytes SerializeTo produced.
-/
namespace Gp.Ip4
open Gp Gp.SBuf

/-! ## Bit-level facts -/

theorem lor_mul16 (v i : Nat) (hi : i < 16) : v * 16 ||| i = v * 16 + i := by
  have := Nat.shiftLeft_add_eq_or_of_lt (i := 4) (b := i) (by simpa using hi) v
  simp [Nat.shiftLeft_eq] at this
  omega

theorem lor_mul8192 (v i : Nat) (hi : i < 8192) : v * 8192 ||| i = v * 8192 + i := by
  have := Nat.shiftLeft_add_eq_or_of_lt (i := 13) (b := i) (by simpa using hi) v
  simp [Nat.shiftLeft_eq] at this
  omega

theorem byte0_toNat (l : Layer) (hv : l.version < 16) (hi : l.ihl < 16) :
    (byte0 l).toNat = l.version * 16 + l.ihl := by
  unfold byte0
  rw [Nat.mod_eq_of_lt (by omega : l.version < 256), Nat.mod_eq_of_lt (by omega : l.ihl < 256),
    Nat.mod_eq_of_lt (by omega : l.version * 16 < 256), lor_mul16 _ _ hi, u8_toNat _ (by omega)]

theorem flagsfrags_eq (l : Layer) (hf : l.flags < 8) (ho : l.fragOffset < 8192) :
    flagsfrags l = l.flags * 8192 + l.fragOffset := by
  unfold flagsfrags
  rw [Nat.mod_eq_of_lt (by omega : l.flags < 256), Nat.mod_eq_of_lt (by omega : l.fragOffset < 65536),
    Nat.mod_eq_of_lt (by omega : l.flags * 8192 < 65536), lor_mul8192 _ _ ho]

theorem be16_putBe16 (n : Nat) (h : n < 65536) : Gp.be16 (u8 (n / 256)) (u8 n) = n := by
  unfold Gp.be16
  rw [u8_toNat _ (by omega)]
  simp [u8]; omega

theorem fold_lt (c : Nat) : Cksum.fold c < 65536 := by
  unfold Cksum.fold Gp.Gen.Cksum.foldChecksum
  simp only []
  generalize Gp.Gen.Cksum.foldChecksum_loop1 4 (Int.ofNat c) = x
  omega

/-! ## Decoding what SerializeTo wrote -/

/-- A well-formed layer whose IHL and Length fields describe its own encoding over `p`
    payload bytes (what FixLengths establishes). -/
def wireOk (m : Layer) (p : Nat) : Prop :=
  wf m ∧ m.ihl = 5 + optionSize m / 4 ∧ m.length = 20 + optionSize m + p

theorem decodeSpec_hdrBytes (old m : Layer) (payload : Bytes) (h : wireOk m payload.length) :
    decodeSpec true old (hdrBytes m ++ payload) =
      ⟨{ m with contents := hdrBytes m, payload := payload }, false, false⟩ := by
  obtain ⟨⟨w1, w2, w3, w4, w5, w6, w7, w8, w9, w10, w11, w12, w13, w14, w15, w16⟩, hihl, hlen⟩ := h
  obtain ⟨s0, s1, s2, s3, hs⟩ := exists_cons4 m.srcIP w11
  obtain ⟨d0, d1, d2, d3, hd⟩ := exists_cons4 m.dstIP w12
  have hos : optionSize m = optsSize m.options + m.padding.length := align4_of_mod w15
  have hoa : optArea m = optsBytes m.options ++ m.padding := by
    simp [optArea, hos]
  have hoal : (optsBytes m.options ++ m.padding).length = optionSize m := by
    rw [List.length_append, optsBytes_length _ (optsWf_valid w13), hos]
  have hH : hdrBytes m = byte0 m :: u8 m.tos :: u8 (m.length % 65536 / 256) :: u8 (m.length % 65536) ::
      u8 (m.id % 65536 / 256) :: u8 (m.id % 65536) :: u8 (flagsfrags m / 256) :: u8 (flagsfrags m) ::
      u8 m.ttl :: u8 m.protocol :: u8 (m.checksum % 65536 / 256) :: u8 (m.checksum % 65536) ::
      s0 :: s1 :: s2 :: s3 :: d0 :: d1 :: d2 :: d3 :: (optsBytes m.options ++ m.padding) := by
    simp [hdrBytes, hdrW, hdr20, Gp.putBe16, hs, hd, hoa]
  have hlen' : (hdrBytes m ++ payload).length = m.length := by
    rw [hH]; simp only [List.length_append, List.length_cons, hoal]; omega
  have hHl : (hdrBytes m).length = 20 + optionSize m := by
    rw [hH]; simp only [List.length_cons, hoal]; omega
  have hihl16 : m.version * 16 + m.ihl = (byte0 m).toNat := (byte0_toNat m w1 w2).symm
  generalize hdata : hdrBytes m ++ payload = data at hlen' ⊢
  have g : ∀ i, i < 20 → getB data i = getB (hdrBytes m) i := by
    intro i hi; rw [← hdata]; simp [getB, List.getD, List.getElem?_append_left (by omega : i < (hdrBytes m).length)]
  have g0 : getB data 0 = byte0 m := by rw [g 0 (by omega), hH]; rfl
  have g1 : getB data 1 = u8 m.tos := by rw [g 1 (by omega), hH]; rfl
  have g2 : getB data 2 = u8 (m.length % 65536 / 256) := by rw [g 2 (by omega), hH]; rfl
  have g3 : getB data 3 = u8 (m.length % 65536) := by rw [g 3 (by omega), hH]; rfl
  have g4 : getB data 4 = u8 (m.id % 65536 / 256) := by rw [g 4 (by omega), hH]; rfl
  have g5 : getB data 5 = u8 (m.id % 65536) := by rw [g 5 (by omega), hH]; rfl
  have g6 : getB data 6 = u8 (flagsfrags m / 256) := by rw [g 6 (by omega), hH]; rfl
  have g7 : getB data 7 = u8 (flagsfrags m) := by rw [g 7 (by omega), hH]; rfl
  have g8 : getB data 8 = u8 m.ttl := by rw [g 8 (by omega), hH]; rfl
  have g9 : getB data 9 = u8 m.protocol := by rw [g 9 (by omega), hH]; rfl
  have g10 : getB data 10 = u8 (m.checksum % 65536 / 256) := by rw [g 10 (by omega), hH]; rfl
  have g11 : getB data 11 = u8 (m.checksum % 65536) := by rw [g 11 (by omega), hH]; rfl
  have hsrc : (data.drop 12).take 4 = m.srcIP := by rw [← hdata, hH, hs]; rfl
  have hdst : (data.drop 16).take 4 = m.dstIP := by rw [← hdata, hH, hd]; rfl
  have hopt : (data.drop 20).take (optionSize m) = optsBytes m.options ++ m.padding := by
    rw [← hdata, hH]; simp only [List.cons_append, List.drop_succ_cons, List.drop_zero]
    rw [List.take_left' hoal]
  have htake : data.take (20 + optionSize m) = hdrBytes m := by rw [← hdata, List.take_left' hHl]
  have hdrop : data.drop (20 + optionSize m) = payload := by rw [← hdata, List.drop_left' hHl]
  have hL : Gp.be16 (getB data 2) (getB data 3) = m.length := by
    rw [g2, g3, Nat.mod_eq_of_lt w4, be16_putBe16 _ w4]
  have hI : (getB data 0).toNat % 16 = m.ihl := by rw [g0, ← hihl16]; omega
  have hV : (getB data 0).toNat / 16 = m.version := by rw [g0, ← hihl16]; omega
  have hT : (getB data 1).toNat = m.tos := by rw [g1, u8_toNat _ w3]
  have hId : Gp.be16 (getB data 4) (getB data 5) = m.id := by
    rw [g4, g5, Nat.mod_eq_of_lt w5, be16_putBe16 _ w5]
  have hff := flagsfrags_eq m w6 w7
  have hFF : Gp.be16 (getB data 6) (getB data 7) = m.flags * 8192 + m.fragOffset := by
    rw [g6, g7, be16_putBe16 _ (by omega), hff]
  have hTtl : (getB data 8).toNat = m.ttl := by rw [g8, u8_toNat _ w8]
  have hPr : (getB data 9).toNat = m.protocol := by rw [g9, u8_toNat _ w9]
  have hCk : Gp.be16 (getB data 10) (getB data 11) = m.checksum := by
    rw [g10, g11, Nat.mod_eq_of_lt w10, be16_putBe16 _ w10]
  have hmod : optionSize m % 4 = 0 := by rw [hos]; exact w15
  have h4 : m.ihl * 4 = 20 + optionSize m := by omega
  have h20 : ¬ data.length < 20 := by omega
  have hne : m.length ≠ 0 := by omega
  unfold decodeSpec
  simp only [h20, if_false, hL, hI, hne]
  unfold decodeSpecL
  have c1 : ¬ m.length < 20 := by omega
  have c2 : ¬ m.ihl < 5 := by omega
  have c3 : ¬ m.ihl * 4 > m.length := by omega
  have c4 : ¬ data.length > m.length := by omega
  have c5 : ¬ data.length < m.length := by omega
  simp only [c1, c2, c3, c4, c5, if_false]
  unfold specBody
  have h5 : m.ihl * 4 - 20 = optionSize m := by omega
  have hpar := ser_parse m.options [] m.padding (optionSize m + 1) w13 w14 (by rw [hoal]; omega)
  simp only [h4, Nat.add_sub_cancel_left, hopt, hpar, htake, hdrop, hV, hT, hId, hFF, hTtl, hPr, hCk, hsrc, hdst,
    Bool.false_eq_true, if_false, List.nil_append, Bool.or_self]
  have hfl : (m.flags * 8192 + m.fragOffset) / 8192 = m.flags := by omega
  have hfo : (m.flags * 8192 + m.fragOffset) % 8192 = m.fragOffset := by omega
  rw [hfl, hfo]
  cases hl : lastIsEol m.options with
  | true => simp
  | false =>
    have : m.padding = [] := by
      cases hp : m.padding with
      | nil => rfl
      | cons a t => have := w14 (by simp [hp]); rw [hl] at this; cases this
    simp [this]

theorem src4_of_wf {l : Layer} (h : wf l) : src4 l = l.srcIP ∧ dst4 l = l.dstIP := by
  obtain ⟨-, -, -, -, -, -, -, -, -, -, w11, w12, -⟩ := h
  simp [src4, dst4, to4_of_length4 _ w11, to4_of_length4 _ w12]

theorem wf_accepts {l : Layer} (h : wf l) : accepts l := by
  obtain ⟨-, -, -, -, -, -, -, -, -, -, w11, w12, w13, -, w15, w16⟩ := h
  refine ⟨?_, by simp [to4_of_length4 _ w11], by simp [to4_of_length4 _ w12], optsWf_valid w13⟩
  unfold optionSize; rw [align4_of_mod w15]; exact w16

/-- FixLengths (+ ComputeChecksums) turns a well-formed layer into one that describes its own
    encoding. -/
theorem wireOk_final (l : Layer) (p : Nat) (csum : Bool) (h : wf l)
    (hp : 20 + optionSize l + p ≤ 65535) :
    wireOk (finalLayer l p true csum l.srcIP l.dstIP) p := by
  obtain ⟨w1, w2, w3, w4, w5, w6, w7, w8, w9, w10, w11, w12, w13, w14, w15, w16⟩ := h
  have hos : optionSize l = optsSize l.options + l.padding.length := align4_of_mod w15
  have hck := fold_lt
  cases csum <;>
    simp only [wireOk, wf, finalLayer, fixLengths, optionSize, if_true, Bool.false_eq_true, if_false] <;>
    simp only [optionSize] at hos hp <;>
    refine ⟨⟨w1, by omega, w3, by omega, w5, w6, w7, w8, w9, by first | exact w10 | exact hck _, w11, w12, w13, w14,
      w15, w16⟩, by omega, by omega⟩

/-! ## SerializeTo reads the public fields only -/

theorem finalLayer_setCP (x : Layer) (C P : Bytes) (p : Nat) (fix csum : Bool) (s d : Bytes) :
    finalLayer { x with contents := C, payload := P } p fix csum s d =
      { finalLayer x p fix csum s d with contents := C, payload := P } := by
  cases fix <;> cases csum <;>
    simp [finalLayer, fixLengths, optionSize, hdrW, hdr20, byte0, flagsfrags, optArea]

theorem hdrBytes_setCP (y : Layer) (C P : Bytes) :
    hdrBytes { y with contents := C, payload := P } = hdrBytes y := by
  simp [hdrBytes, hdrW, hdr20, byte0, flagsfrags, optArea, optionSize]

theorem accepts_setCP (x : Layer) (C P : Bytes) (h : accepts x) :
    accepts { x with contents := C, payload := P } := h

/-- The other fields are untouched by the mutation. -/
theorem finalLayer_other_fields (l : Layer) (p : Nat) (fix csum : Bool) (s d : Bytes) :
    let l' := finalLayer l p fix csum s d
    l'.version = l.version ∧ l'.tos = l.tos ∧ l'.id = l.id ∧ l'.flags = l.flags ∧
    l'.fragOffset = l.fragOffset ∧ l'.ttl = l.ttl ∧ l'.protocol = l.protocol ∧
    l'.options = l.options ∧ l'.padding = l.padding ∧ l'.srcIP = s ∧ l'.dstIP = d ∧
    (fix = true → l'.ihl = (5 + (optionSize l / 4) % 256) % 256 ∧ l'.length = (20 + optionSize l + p) % 65536) ∧
    (fix = false → l'.ihl = l.ihl ∧ l'.length = l.length) ∧
    (csum = false → l'.checksum = l.checksum) := by
  cases fix <;> cases csum <;> simp [finalLayer, fixLengths]

end Gp.Ip4
